import RsyncModel.Driver.Util
import RsyncModel.Driver.MuxOps
open Driver

def dispatch (line : String) : String :=
  let fs := fields line
  match fs with
  | [] => "bad-op"
  | op :: _ =>
    if op.startsWith "mux." then muxOp fs
    else "bad-op"

partial def loop (h : IO.FS.Stream) (out : IO.FS.Stream) : IO Unit := do
  let line ← h.getLine
  if line.isEmpty then return ()
  out.putStrLn (dispatch (line.trimAscii.toString))
  loop h out

def main : IO Unit := do
  let out ← IO.getStdout
  loop (← IO.getStdin) out
  out.flush
