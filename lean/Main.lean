import RsyncModel.Driver.Util
import RsyncModel.Driver.MuxOps
import RsyncModel.Driver.AclOps
import RsyncModel.Driver.DeltaOps
import RsyncModel.Driver.GenOps
import RsyncModel.Driver.DeleteOps
import RsyncModel.Driver.FlistOps
import RsyncModel.Driver.WireOps
import RsyncModel.Driver.OptsOps
import RsyncModel.Driver.SshOps
import RsyncModel.Driver.DaemonOps
import RsyncModel.Driver.RootOps
open Driver

def dispatch (line : String) : String :=
  -- a trailing ` #…` is a human-readable comment for replays
  let fs := fields ((line.splitOn " #").headD "")
  match fs with
  | [] => "bad-op"
  | op :: _ =>
    if op.startsWith "mux." then muxOp fs
    else if op == "acl" then aclOp fs
    else if op.startsWith "i32." || op.startsWith "i64." then wireOp fs
    else if op == "clean" || op.startsWith "flist." then flistOp fs
    else if op == "delete" || op == "find" || op == "utf8" || op == "filter" then deleteOp fs
    else if op == "gen" || op == "genrecv" then genOp fs
    else if ["sum1", "md4", "sumsizes", "gensums", "search", "recvdata"].contains op then deltaOp fs
    else if op.startsWith "ssh" || op == "dispatchclass" then sshOp fs
    else if op == "daemon" then daemonOp fs
    else if op == "rootfs" then rootOp fs
    else if op == "optparse" || op == "serveropts" || op == "dispatch" then optsOp fs
    else "bad-op"

partial def loop (h : IO.FS.Stream) (out : IO.FS.Stream) : IO Unit := do
  let line ← h.getLine
  if line.isEmpty then return ()
  out.putStrLn (dispatch (line.trimAscii.toString))
  loop h out

def main : IO Unit := do
  let out ← IO.getStdout
  loop (← IO.getStdin) out
  out.flush
