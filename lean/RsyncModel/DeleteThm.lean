import RsyncModel.Delete
/-! Bisection (`sort.Search`) and the exact characterisation of what survives `--delete`. -/
namespace Delete
open Walk

/-- **`sort.Search`**: for a predicate that is monotone on `[lo, hi)` (false…false true…true) the
bisection returns the boundary: everything before the result is false, the result (if inside the
range) and everything after it is true. -/
theorem search_spec (f : Nat → Bool) : ∀ (n lo hi : Nat), hi - lo ≤ n → lo ≤ hi →
    (∀ i j, lo ≤ i → i ≤ j → j < hi → f i = true → f j = true) →
    lo ≤ search f lo hi ∧ search f lo hi ≤ hi ∧
    (∀ i, lo ≤ i → i < search f lo hi → f i = false) ∧
    (∀ i, search f lo hi ≤ i → i < hi → f i = true) := by
  intro n
  induction n with
  | zero =>
    intro lo hi hn hle _
    have : lo = hi := by omega
    subst this
    rw [search]; simp
    constructor <;> (intro i h1 h2; omega)
  | succ n ih =>
    intro lo hi hn hle hmono
    rw [search]
    by_cases hlt : lo < hi
    · simp only [hlt, dite_true]
      have hm1 : lo ≤ (lo + hi) / 2 := by omega
      have hm2 : (lo + hi) / 2 < hi := by omega
      by_cases hf : f ((lo + hi) / 2) = true
      · simp only [hf, if_true]
        obtain ⟨a, b, c, d⟩ := ih lo ((lo + hi) / 2) (by omega) hm1
          (fun i j h1 h2 h3 h4 => hmono i j h1 h2 (by omega) h4)
        refine ⟨a, by omega, c, ?_⟩
        intro i h1 h2
        by_cases hi' : i < (lo + hi) / 2
        · exact d i h1 hi'
        · exact hmono ((lo + hi) / 2) i hm1 (by omega) h2 hf
      · have hf' : f ((lo + hi) / 2) = false := by simpa using hf
        simp only [hf', Bool.false_eq_true, if_false]
        obtain ⟨a, b, c, d⟩ := ih ((lo + hi) / 2 + 1) hi (by omega) (by omega)
          (fun i j h1 h2 h3 h4 => hmono i j (by omega) h2 h3 h4)
        refine ⟨by omega, b, ?_, d⟩
        intro i h1 h2
        by_cases hi' : i ≤ (lo + hi) / 2
        · cases hfi : f i
          · rfl
          · have := hmono i ((lo + hi) / 2) h1 hi' hm2 hfi
            rw [hf'] at this; cases this
        · exact c i (by omega) h2
    · simp only [hlt, dite_false]
      refine ⟨Nat.le_refl _, hle, ?_, ?_⟩ <;> (intro i h1 h2; omega)

/-- an entry (or something above it) was removed -/
def gone (removed : List Path) (p : Path) : Prop := ∃ r ∈ removed, r = p ∨ under r p = true

theorem under_trans {a b c : Path} (h1 : under a b = true) (h2 : under b c = true) : under a c = true := by
  simp only [under, Bool.and_eq_true, decide_eq_true_eq] at *
  obtain ⟨p1, l1⟩ := h1
  obtain ⟨p2, l2⟩ := h2
  refine ⟨?_, by omega⟩
  rw [List.isPrefixOf_iff_prefix] at *
  exact List.IsPrefix.trans p1 p2

/-- among the unlisted ancestors-or-self of `p` there is a topmost one -/
theorem topmost_unlisted (listed : Path → Bool) (p : Path) : ∀ (n : Nat) (q : Path), q.length ≤ n →
    (q = p ∨ under q p = true) → q ≠ [] → listed q = false →
    ∃ q0, (q0 = p ∨ under q0 p = true) ∧ q0 ≠ [] ∧ listed q0 = false ∧
      ∀ x, under x q0 = true → x ≠ [] → listed x = true := by
  intro n
  induction n with
  | zero => intro q hl _ hne _; exact absurd (List.eq_nil_of_length_eq_zero (by omega)) hne
  | succ n ih =>
    intro q hl hq hne hun
    by_cases hall : ∀ x, under x q = true → x ≠ [] → listed x = true
    · exact ⟨q, hq, hne, hun, hall⟩
    · have : ∃ x, under x q = true ∧ x ≠ [] ∧ listed x = false := by
        apply Classical.byContradiction
        intro hc
        apply hall
        intro x hx hxne
        cases hlx : listed x
        · exact absurd ⟨x, hx, hxne, hlx⟩ hc
        · rfl
      obtain ⟨x, hx, hxne, hxl⟩ := this
      have hxlen : x.length ≤ n := by
        simp only [under, Bool.and_eq_true, decide_eq_true_eq] at hx; omega
      have hxp : x = p ∨ under x p = true := by
        rcases hq with rfl | hq
        · exact Or.inr hx
        · exact Or.inr (under_trans hx hq)
      exact ih x hxlen hxp hxne hxl

/-- **What survives `--delete`** (C09, exact): in a destination listing that is closed under
ancestors, an entry survives iff it and every directory above it (below the root) is named in the
sender's list — at any depth, however many extraneous entries there are, whatever their types and
sort positions. -/
theorem survives_iff (listed : Path → Bool) (l : List Ent)
    (hne : ∀ e ∈ l, e.path ≠ [])
    (hanc : ∀ e ∈ l, ∀ q, under q e.path = true → q ≠ [] → ∃ e' ∈ l, e'.path = q)
    (e : Ent) (he : e ∈ l) :
    ¬ gone (delWalk listed l) e.path ↔
      ∀ q, (q = e.path ∨ under q e.path = true) → q ≠ [] → listed q = true := by
  constructor
  · intro hs q hq hqne
    cases hlq : listed q
    · exfalso
      obtain ⟨q0, hq0, hq0ne, hq0l, hq0a⟩ := topmost_unlisted listed e.path q.length q (Nat.le_refl _) hq hqne hlq
      have hq0mem : ∃ e0 ∈ l, e0.path = q0 := by
        rcases hq0 with rfl | hu
        · exact ⟨e, he, rfl⟩
        · exact hanc e he q0 hu hq0ne
      obtain ⟨e0, he0, rfl⟩ := hq0mem
      have := delWalk_complete listed l e0 he0 hq0l (fun x hx hu => hq0a x.path hu (hne x hx))
      exact hs ⟨e0.path, this, by rcases hq0 with h | h <;> simp [h]⟩
    · rfl
  · intro hall ⟨r, hr, hrp⟩
    obtain ⟨hrl, e', he', rfl⟩ := delWalk_sound listed l r hr
    have := hall e'.path (by rcases hrp with h | h <;> simp [h]) (hne e' he')
    rw [this] at hrl; cases hrl

end Delete
