import RsyncModel.Acl
/-! # C19 — module access control follows first-match allow/deny -/
namespace C19
open Acl

/-- the rule is well formed and its network contains the address (or it says `all`) -/
def applies (r : Rule) (ip : Bytes) : Prop := step r ip = .stop .allow ∨ step r ip = .stop .denied
/-- evaluation of this rule ends with "invalid acl" -/
def malformedAt (r : Rule) (ip : Bytes) : Prop := step r ip = .stop .malformed

/-- the specification, stated without reference to the loop: position of the first rule that is
either malformed or applies to the address -/
def firstDecisive (rules : List Rule) (ip : Bytes) : Option Rule :=
  rules.find? (fun r => step r ip != .next)

/-- **First match decides**: access is granted exactly when no rule is decisive (none applies and
none is malformed before one applies), or the first decisive rule is a well-formed `allow` whose
network contains the address. -/
theorem acl_first_match (rules : List Rule) (ip : Bytes) :
    evalRules rules ip = .allow ↔
      (firstDecisive rules ip = none ∨ ∃ r, firstDecisive rules ip = some r ∧ step r ip = .stop .allow) := by
  induction rules with
  | nil => simp [evalRules, firstDecisive]
  | cons r rs ih =>
    unfold evalRules firstDecisive
    cases h : step r ip with
    | next => simp [List.find?, h]; simpa [firstDecisive] using ih
    | stop v => cases v <;> simp [List.find?, h, bne, BEq.beq, instBEqOfDecidableEq] <;> decide

/-- a `deny` (or a malformed rule) reached first yields an error, never access -/
theorem acl_deny_or_malformed_first (rules : List Rule) (ip : Bytes) (r : Rule)
    (h : firstDecisive rules ip = some r) (hr : step r ip ≠ .stop .allow) :
    evalRules rules ip ≠ .allow := by
  intro hc
  rcases (acl_first_match rules ip).mp hc with h0 | ⟨r', h1, h2⟩
  · rw [h0] at h; cases h
  · rw [h1] at h; cases h; exact hr h2

/-- rules after the first decisive one are irrelevant -/
theorem acl_suffix_irrelevant (pre : List Rule) (r : Rule) (post post' : List Rule) (ip : Bytes)
    (hpre : ∀ q ∈ pre, step q ip = .next) (hr : step r ip ≠ .next) :
    evalRules (pre ++ r :: post) ip = evalRules (pre ++ r :: post') ip := by
  induction pre with
  | nil => simp only [List.nil_append, evalRules]; cases h : step r ip <;> simp_all
  | cons q qs ih =>
    have hq := hpre q (by simp)
    simp only [List.cons_append, evalRules, hq]
    exact ih (fun x hx => hpre x (by simp [hx]))

/-- no rule at all: everybody is let in, even if the peer address cannot be parsed (checkACL:141) -/
theorem acl_empty (addr : Option Bytes) : checkACL [] addr = .allow := rfl

/-- with rules configured, an unparsable peer address is refused -/
theorem acl_bad_addr (r : Rule) (rs : List Rule) : checkACL (r :: rs) none = .badAddr := rfl

/-- an IPv4-mapped IPv6 peer address is compared as the IPv4 address it embeds -/
theorem mapped_is_v4 (nip mask : Bytes) (a b c d : UInt8) :
    contains nip mask (v4InV6Prefix ++ [a, b, c, d]) = contains nip mask [a, b, c, d] := by
  simp [contains, to4, v4InV6Prefix]

/-- an IPv4 network (4-byte number and mask) never contains a non-mapped IPv6 address, whatever the mask -/
theorem v4net_excludes_v6 (nip mask ip : Bytes) (hn : nip.length = 4) (hm : mask.length = 4)
    (hip : ip.length = 16) (hnot : ip.take 12 ≠ v4InV6Prefix) : contains nip mask ip = false := by
  simp [contains, networkNumberAndMask, to4, hn, hm, hip, hnot]

/-- non-vacuity / worked example: `deny 10.0.0.0/8` first, then `allow all` / a malformed rule -/
def deny10 : Rule := ⟨sDeny ++ [32, 49, 48, 46, 48, 46, 48, 46, 48, 47, 56], .net [10,0,0,0] [255,0,0,0]⟩
def allow10 : Rule := ⟨sAllow ++ [32, 49, 48, 46, 48, 46, 48, 46, 48, 47, 56], .net [10,0,0,0] [255,0,0,0]⟩
def allowAll : Rule := ⟨sAllow ++ [32] ++ sAll, .bad⟩
def bogus : Rule := ⟨[98, 111, 103, 117, 115], .bad⟩
example :
    evalRules [deny10, allowAll] [10,1,2,3] = .denied ∧
    evalRules [deny10, allowAll] [11,1,2,3] = .allow ∧
    evalRules [deny10, bogus] [11,1,2,3] = .malformed ∧
    evalRules [allow10, bogus] (v4InV6Prefix ++ [10,9,9,9]) = .allow := by decide

end C19
