import RsyncModel.RecvTie
import RsyncModel.MapFile
import RsyncModel.PureTie
import RsyncModel.RoundTripHonest
import RsyncModel.Checksum
import RsyncModel.SumsTie
/-! # C02 — delta encoding and decoding are exact for every basis, target and block layout

`Hs` (seeded strong block hash) and `Hfile` (seeded whole-file hash) are arbitrary functions: MD4 is
not modelled in any theorem. Constants (`chunkSize`, 700, 16, 2²⁹) are regenerated from the source. -/
namespace C02
open Spec Delta Recv

/-- **Refinement**: the sender's loop as the Go code runs it — rolling `uint32` pair updated as in
match.go:171-196, the recompute-one-byte-early-and-roll step after a match, `chunkSize` cutting, the
early flush — emits exactly the tokens of the three-line greedy specification. For every header
`ReadFrom` accepts (`bl < 2³²`), every list of sums (honest or not) and every target. -/
theorem sender_refines_greedy (Hs : Bytes → Bytes) (h : Head) (sums : List Delta.Sum) (t : Bytes)
    (hbl : h.bl < 4294967296) :
    flat (senderTokens Hs h sums t) =
      greedy (mkCtx Hs h sums) (pickGo (mkCtx Hs h sums) (mkCtx_W Hs h sums)) t :=
  senderTokens_eq_greedy Hs h sums t hbl

/-- **Every reference is justified and nothing is lost**: scanning the target left to right, each
literal token is the next target byte and each reference to block `i` stands at a window whose
length equals the block's, whose weak sum equals `sum1` and whose strong sum agrees with `sum2` on
the first `csLen` bytes; the tokens end exactly at the end of the target (no byte lost, duplicated
or reordered). Holds for any signature whatsoever. -/
theorem sender_tokens_justified (Hs : Bytes → Bytes) (h : Head) (sums : List Delta.Sum) (t : Bytes)
    (hbl : h.bl < 4294967296) :
    Justified (mkCtx Hs h sums) t (flat (senderTokens Hs h sums t)) := by
  rw [sender_refines_greedy Hs h sums t hbl]; exact greedy_justified _ _ t

/-- **A mere weak-checksum collision never produces a block reference**: a window matches a block
only if the strong sums agree on `csLen` bytes — with `csLen = 16` on the whole MD4 value. -/
theorem weak_collision_is_not_a_match (c : Ctx) (w : Bytes) (i : Nat) (b : Block)
    (hb : c.blocks[i]? = some b) (hstrong : b.sum2.take c.csLen ≠ (c.H w).take c.csLen) :
    c.matches w i = false := by
  simp only [Ctx.matches, hb]
  simp [hstrong]

/-- **Exactness of the specification**: when a matching window *is* the block it matches, applying
the greedy stream reproduces the target. -/
theorem sender_exact (c : Ctx) (p : Pick c) (blk : Nat → Bytes)
    (hfaithful : ∀ w i, c.matches w i = true → blk i = w) (t : Bytes) :
    Spec.apply blk (greedy c p t) = t := Spec.sender_exact c p blk hfaithful t

/-- literal chunks on the wire never exceed `chunkSize` (256 KiB, regenerated) -/
theorem literal_chunks_le_chunkSize (bs : Bytes) : ∀ p ∈ goChunker.cut bs, p.length ≤ chunkSize :=
  cutChunks_le chunkSize (by decide) bs

/-- **`Checksum1` is the weak sum**: the 4-unrolled `uint32` loop of rsyncchecksum.go, split as the
sender does (`sum & 0xFFFF`, `sum >> 16`), is the canonical 16-bit pair of the unbounded signed-char
sums `S1`, `S2` of the window. -/
theorem checksum1_is_weak_sum (buf : Bytes) :
    ((checksum1 buf) &&& (0xFFFF : UInt32), (checksum1 buf) >>> 16) = wsum buf := checksum1_halves buf

/-- **The rolling update is exact**: from the pair of the window at one offset, match.go's update
yields the pair of the window at the next offset — in both branches (`more`: slide; else: shrink). -/
theorem rolling_update_exact (c : Ctx) (hbl : c.bl < 4294967296) (x : UInt8) (xs : Bytes) :
    rollGo c (wsum (c.win (x :: xs))) x xs = wsum (c.win xs) := rollGo_wsum c hbl x xs

/-- **The receiver writes what the stream denotes**: any basis, any header, literal runs of any
chunking, references in any order. -/
theorem receiver_denotes (hd : Head) (basis : Bytes) (ts : List ATok) (rest acc out : Bytes)
    (hok : WireOk ts) (hden : denote hd basis ts = some out) :
    recvTokens hd (some basis) (encToks ts ++ rest) acc = .ok (acc ++ out, rest) :=
  recvTokens_denotes hd basis ts rest acc out hok hden

/-- **Sender and receiver agree on block offsets and lengths**: the receiver's
`ReadAt(idx·bl, len)` returns exactly block `idx` of the basis as cut by the signature generator,
short last block included. -/
theorem offsets_agree (blm1 cs : Nat) (basis : Bytes) (i : Nat) (hi : i < (honestHead blm1 cs basis).count) :
    readBlock (honestHead blm1 cs basis) basis i = (splitBlocks blm1 basis)[i]? :=
  readBlock_honest blm1 cs basis i hi

/-- **Round trip**: the sender's stream for any target against an honest signature of any basis is
reconstructed and committed by the receiver as exactly the target (hypothesis: no truncated
strong-hash collision between a basis block and a different window of the same length). -/
theorem roundtrip (Hs Hfile : Bytes → Bytes) (blm1 cs : Nat) (basis t rest : Bytes)
    (hcs : cs ≤ maxCsLen) (hbl : blm1 + 1 ≤ maxBlockLen)
    (hcount : (honestHead blm1 cs basis).count < 2147483648)
    (hfile16 : (Hfile t).length = 16)
    (nocoll : ∀ (i : Nat) (p w : Bytes), (splitBlocks blm1 basis)[i]? = some p → p.length = w.length →
      (Hs p).take cs = (Hs w).take cs → p = w) :
    recvData Hfile (some basis)
        (encHead (honestHead blm1 cs basis) ++
          (encToks (senderTokens Hs (honestHead blm1 cs basis) (honestSums Hs blm1 basis) t) ++ (Hfile t ++ rest)))
      = (.committed t, rest) :=
  roundtrip_honest Hs Hfile blm1 cs basis t rest hcs hbl hcount hfile16 nocoll

/-- the block length the real generator picks is within the sender's accepted range (regenerated constants) -/
theorem generator_layout_accepted : Gen.Consts.blockSize ≤ maxBlockLen ∧ Gen.Consts.checksumLength ≤ maxCsLen := by decide


/-! ### Tie to the source (regenerated translation `Gen.Pure`, see `tools/extract/pure.go`) -/

/-- **`rsyncchecksum.Checksum1` as the source has it is the model's `checksum1`** — the loops are
translated from /repo on every run; the theorem also shows that no index is out of range and the
loops end within `len(buf)` iterations, for every buffer. -/
theorem source_checksum1 (buf : Bytes) : Gen.Pure.Checksum1 buf = .ok (checksum1 buf) :=
  PureTie.checksum1_tied buf

/-- **The sender reads what is in the file**: `mapStruct.ptr` (internal/sender/fileio.go, translated
from /repo on every run; only its final read loop is a hand model) serves *every* sequence of
requests inside the file — sliding forward, jumping back by the pending literal run, crossing the
256 KiB window any number of times, growing the window — with exactly the file's bytes, never an
error, never a slice out of range, never a read past the end of the file. So the literal data and
the whole-file hash the sender computes are computed from the file's real content. -/
theorem source_window_exact (file : Bytes) (dw : Int) (reqs : List (Int × Int32))
    (h : ∀ r ∈ reqs, MapFile.Req.ok file r) :
    MapFile.serve file ⟨file.length, 0, 0, [], 0, 0, dw⟩ reqs
      = .ok (reqs.map fun r => (file.drop r.1.toNat).take r.2.toInt.toNat) :=
  MapFile.serve_from_start file dw reqs h

/-- **Both sides give block `i` the same length and the receiver reads it at `i · blockLength`**
(computed in 64 bits): `receiveSums` (sender) and `receiveData` (receiver), both translated from
/repo, agree with the model's `blockLen` for every validated header and every index. -/
theorem source_block_span (h : PureTie.Head32) (hok : h.ok) (cs : Nat) (tok : Int32) (hneg : tok.toInt < 0) :
    let idx := (-(tok.toInt + 1)).toNat
    Gen.Pure.refSpan tok h.count h.bl h.rem =
      (-(tok + 1), ((idx * (h.toHead cs).bl : Nat) : Int), Int32.ofInt (Delta.blockLen (h.toHead cs) idx)) ∧
    (∀ (i : Int32) (x : Int), 0 ≤ i.toInt →
      Gen.Pure.sumLen i h.count h.bl h.rem x = (Delta.blockLen (h.toHead cs) i.toInt.toNat : Int)) :=
  ⟨PureTie.refSpan_tied h hok cs tok hneg, fun i x hi => PureTie.sumLen_tied h hok cs i hi x⟩

/-- the sender's window length and the length it demands of a candidate block are the same quantity -/
theorem source_window_length (bl : Int32) (size offset k0 : Int) :
    Gen.Pure.candLen bl size offset = Gen.Pure.chunkLen bl size offset k0 ∧
    Gen.Pure.chunkLen bl size offset k0 = min bl.toInt (size - offset) :=
  ⟨PureTie.candLen_eq_chunkLen bl size offset k0, PureTie.chunkLen_tied bl size offset k0⟩

/-- the block layout the generator chooses (`SumSizesSqroot`, translated) is the model's `sumSizes` -/
theorem source_sum_sizes (len : Nat) (h : Nat.sqrt len < 2147483648)
    (hc : (len + ((Delta.sumSizes len).bl - 1)) / (Delta.sumSizes len).bl < 2147483648) :
    Gen.Pure.sumSizesCount (len : Int) (Gen.Pure.SumSizesSqroot (len : Int))
      = .ok (Int32.ofInt ((Delta.sumSizes len).count : Int), Int32.ofInt ((Delta.sumSizes len).rem : Int),
             Gen.Pure.SumSizesSqroot (len : Int), (Gen.Consts.checksumLength : Int)) ∧
    (Gen.Pure.SumSizesSqroot (len : Int)).toInt = ((Delta.sumSizes len).bl : Int) :=
  ⟨PureTie.sumSizes_count_tied len h hc, PureTie.sumSizes_blockLength_tied len h⟩


/-- **`simpleSendToken` as the source has it** (token.go, translated from /repo on every run with the
connection as an output log and `ms.ptr` as the file's bytes — which `source_window_exact` proves of
the real `ptr`): an unmatched run of `n` bytes at `offset` leaves as exactly the model's chunks —
non-empty, at most `chunkSize` (`literal_chunks_le_chunkSize`), concatenating to the run — each as a
length word followed by its bytes, then the token word `-(token+1)`, nothing for the flush token -2;
no byte lost, duplicated or reordered, for every run length. -/
theorem source_send_token (token : Int32) (offset n : Int) (file : Bytes) (out : List Go.Out) (h0 : 0 ≤ offset) (hn : 0 ≤ n)
    (hin : offset + n ≤ (file.length : Int)) :
    Gen.Pure.sendToken token offset n file out =
      .ok (out ++ PureTie.emitChunks (cutChunks chunkSize ((file.drop offset.toNat).take n.toNat)) ++
            (if token = -2 then [] else [Go.Out.i32 (-(token + 1))])) :=
  PureTie.sendToken_tied token offset n file out h0 hn hin

/-- **the early flush never re-sends data**: the condition `hashSearch` tests before flushing a long
unmatched run (translated from /repo on every run) implies that the flush point `offset − blockLength`
lies at least `chunkSize` ahead of `lastMatch`, for every block length a header may carry — so
`matched` is called with a positive run length and never reaches back over bytes a block reference
already covered (with a threshold that ignores the block length it would, for blocks beyond 256 KiB). -/
theorem source_flush_is_forward (offset lastMatch end_ : Int) (bl : Int32)
    (h : Gen.Pure.flushCond (offset - lastMatch) bl end_ offset false = true) :
    lastMatch + (chunkSize : Int) ≤ offset - bl.toInt :=
  PureTie.flush_target_after_last_match offset lastMatch end_ bl h


/-- **the receiver's token loop as the source has it is the model's `recvTokens`** (receiver.go
`receiveData` from `offset := 0` to the end of the loop, and token.go `recvToken`, both translated
from /repo on every run: the connection is a byte list that is consumed, the pending file a byte list
that grows, the basis a byte list read at offsets). For every input stream — valid or not —, every
validated header and every basis (or none): the same bytes are written and the same input is left
unread as in the model about which `receiver_denotes` and `roundtrip` are proved; the source returns
an error exactly where the model fails; it never panics, and the loop ends within `len(input)+1`
passes. -/
theorem source_receiver_loop (h : PureTie.Head32) (hok : h.ok) (cs : Nat) (basis : Bytes) (hasBasis : Bool) (inp acc : Bytes) :
    Gen.Pure.recvLoop inp basis hasBasis h.count h.bl h.rem acc =
      match recvTokens (h.toHead cs) (if hasBasis then some basis else none) inp acc with
      | .ok (c, r) => .ok (c, r)
      | .error _ => .err :=
  RecvTie.recvLoop_tied h hok cs basis hasBasis inp acc

/-- **The generator's signature loop, as the source has it** (`generateAndSendSums`, translated on every run with the
basis file as a byte list that is consumed and the strong hash as a parameter): it reads the file to its end and writes, for
each piece of the model's `splitBlocks` in order, the weak sum (`Checksum1` as translated) and the strong sum — for every
file, block length ≥ 1 and the matching block count -/
theorem source_sum_generator (H : List UInt8 → List UInt8) (bl : Int32) (blm1 : Nat) (hbl : bl.toInt = (blm1 + 1 : Nat))
    (count : Int32) (file : List UInt8) (hcount : count.toInt = ((Delta.splitBlocks blm1 file).length : Nat)) (out : List Go.Out) :
    Gen.Pure.genSums (file.length : Int) bl count file out H =
      .ok (out ++ SumsTie.sumFrames H (Delta.splitBlocks blm1 file), []) :=
  SumsTie.genSums_tied H bl blm1 hbl count file hcount out

/-- **The sender's signature reader, as the source has it** (`receiveSums`' loop): per wire entry the index, the running
offset, the model's `blockLen`, the weak sum and the strong-sum bytes; the rest of the input stays unread -/
theorem source_sum_reader (h : PureTie.Head32) (hok : h.ok) (cs : Nat) (csLen : Int32) (ps : List (Int32 × List UInt8))
    (rest : List UInt8) (L0 : Int) (hps : ∀ p ∈ ps, (p.2.length : Int) = csLen.toInt) (hn : (ps.length : Int) = h.count.toInt) :
    Gen.Pure.recvSums h.count h.bl h.rem csLen (SumsTie.wireSums ps ++ rest) [] L0 = .ok (SumsTie.recs h cs 0 0 ps, rest) :=
  SumsTie.recvSums_tied h hok cs csLen ps rest L0 hps hn

/-- **and together**: what the translated generator loop sends, the translated sender loop reads as the honest
signatures of the basis file's pieces -/
theorem source_signatures_roundtrip (H : List UInt8 → List UInt8) (hH : ∀ w, (H w).length = 16) (h : PureTie.Head32) (hok : h.ok)
    (cs blm1 : Nat) (hbl : h.bl.toInt = (blm1 + 1 : Nat)) (file rest : List UInt8)
    (hcount : h.count.toInt = ((Delta.splitBlocks blm1 file).length : Nat)) (L0 : Int) :
    ∃ out, Gen.Pure.genSums (file.length : Int) h.bl h.count file [] H = .ok (out, []) ∧
      Gen.Pure.recvSums h.count h.bl h.rem 16 (SendFile.wireOf out ++ rest) [] L0 =
        .ok (SumsTie.recs h cs 0 0 ((Delta.splitBlocks blm1 file).map fun w => ((Spec.checksum1 w).toInt32, H w)), rest) :=
  SumsTie.signatures_roundtrip H hH h hok cs blm1 hbl file rest hcount L0

end C02
