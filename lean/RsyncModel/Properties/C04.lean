import RsyncModel.Atomic
import RsyncModel.Properties.C03
import RsyncModel.FsSitesSpec
/-! # C04 — destination paths change atomically: old or new content in full at every instant -/
namespace C04
open Atomic

/-- one event keeps every listed path in an allowed state, and only ever *adds* to the record of
complete contents -/
theorem step_allowed (old : Path → Option Node) (s : St) (e : Ev) (p : Path) (h : Allowed old s p) :
    Allowed old (step s e) p := by
  unfold Allowed at h ⊢
  cases e with
  | createTemp id => simpa [step] using h
  | write id chunk => simpa [step] using h
  | removeTemp id => simpa [step] using h
  | rename id q =>
    simp only [step]
    cases hc : tempContent s id with
    | none => simpa using h
    | some c =>
      simp only []
      by_cases hq : p = q
      · subst hq
        right; right; left
        exact ⟨c, by simp, by simp⟩
      · simp only [hq, if_false]
        rcases h with h | h | ⟨c', hm, hd⟩ | h | h | h
        · exact Or.inl h
        · exact Or.inr (Or.inl h)
        · exact Or.inr (Or.inr (Or.inl ⟨c', by simp [hm], hd⟩))
        · exact Or.inr (Or.inr (Or.inr (Or.inl h)))
        · exact Or.inr (Or.inr (Or.inr (Or.inr (Or.inl h))))
        · exact Or.inr (Or.inr (Or.inr (Or.inr (Or.inr h))))
  | unlink q =>
    simp only [step]
    by_cases hq : p = q
    · subst hq; right; left; simp
    · simpa [hq] using h
  | symlinkReplace q t =>
    simp only [step]
    by_cases hq : p = q
    · subst hq; right; right; right; left; exact ⟨t, by simp⟩
    · simpa [hq] using h
  | mkdir q =>
    simp only [step]
    by_cases hq : p = q
    · subst hq; right; right; right; right; left; simp
    · simpa [hq] using h
  | mknod q =>
    simp only [step]
    by_cases hq : p = q
    · subst hq; right; right; right; right; right; simp
    · simpa [hq] using h

/-- **at every instant** — after every prefix of every event sequence, i.e. whatever the byte
stream, wherever it is cut, however generator and receiver events interleave — every listed path holds
its previous state, nothing, or something that was put there whole. There is no state in which a path
holds part of a file: the event language has no write to a path, only to temporaries. -/
theorem every_prefix_allowed (old : Path → Option Node) (l : List Ev) (k : Nat) (p : Path) (temps : List (Nat × Bytes)) :
    Allowed old (run ⟨old, temps, []⟩ (l.take k)) p := by
  have gen : ∀ (l : List Ev) (s : St), Allowed old s p → Allowed old (run s l) p := by
    intro l
    induction l with
    | nil => intro s h; exact h
    | cons e rest ih => intro s h; exact ih (step s e) (step_allowed old s e p h)
  exact gen _ _ (Or.inl rfl)

/-- what is renamed into place is the temporary's *complete* content at that moment -/
theorem rename_moves_whole (s : St) (id : Nat) (p : Path) (c : Bytes) (h : tempContent s id = some c) :
    (step s (.rename id p)).dest p = some (.file c) := by
  simp [step, h]

/-- the receiver's events for one file: the destination changes **iff** `receiveData` commits, and
then to exactly the content whose whole-file checksum was verified (C03) -/
theorem file_commit_or_untouched (Hfile : Bytes → Bytes) (basis : Option Bytes) (stream : Bytes) (id : Nat) (p : Path) (pc : Bytes)
    (old : Path → Option Node) :
    let s' := run ⟨old, [], []⟩ (recvFileEvents Hfile basis stream id p pc)
    (match (Recv.recvData Hfile basis stream).1 with
     | .committed c => s'.dest p = some (.file c)
     | .failed _ => s'.dest = old) ∧ s'.temps = [] := by
  simp only [recvFileEvents]
  cases h : (Recv.recvData Hfile basis stream).1 with
  | committed c =>
    simp [run, step, tempContent]
  | failed e =>
    cases e <;> simp [run, step]

/-- **after an error return no temporary file is left**, whatever the stream (the deferred Cleanup) -/
theorem error_leaves_no_temp (Hfile : Bytes → Bytes) (basis : Option Bytes) (stream : Bytes) (id : Nat) (p : Path) (pc : Bytes)
    (old : Path → Option Node) (e : Recv.Err) (h : (Recv.recvData Hfile basis stream).1 = .failed e) :
    (run ⟨old, [], []⟩ (recvFileEvents Hfile basis stream id p pc)).temps = [] ∧
    (run ⟨old, [], []⟩ (recvFileEvents Hfile basis stream id p pc)).dest = old := by
  simp only [recvFileEvents, h]
  cases e <;> simp [run, step]

/-- the code shape the event language stands for (regenerated, C03's facts): in `receiveData` the
pending file is created, its Cleanup deferred, every write goes through the MultiWriter of the pending
file and the hash, and the single `CloseAtomicallyReplace` comes after the checksum comparison -/
theorem code_shape : RecvOrderSpec.wellOrdered Gen.RecvOrder.events = true ∧ FsSitesSpec.pendingHelpersOk = true :=
  ⟨by decide, FsSitesSpec.pending_helpers_ok⟩

/-- and the content that is renamed into place is one whose whole-file checksum the receiver has
compared with the 16 bytes the sender put behind the data (C03) -/
theorem committed_content_verified (Hfile : Bytes → Bytes) (basis : Option Bytes) (stream c rest : Bytes)
    (h : Recv.recvData Hfile basis stream = (.committed c, rest)) :
    ∃ hd r r', Recv.readHead stream = .ok (hd, r) ∧ Recv.recvTokens hd basis r [] = .ok (c, r') ∧ Hfile c = r'.take 16 := by
  obtain ⟨hd, r, r', h1, h2, _, h4, _⟩ := C03.commit_implies_hash Hfile basis stream c rest h
  exact ⟨hd, r, r', h1, h2, h4⟩

/-- non-vacuity: a stream cut inside the checksum header leaves the destination and the temporaries as they were -/
example : (run ⟨fun _ => some (.file [1, 2, 3]), [], []⟩
    (recvFileEvents (fun _ => List.replicate 16 0) none [0, 0] 7 [102] [65])).dest [102] = some (.file [1, 2, 3]) := by decide

end C04
