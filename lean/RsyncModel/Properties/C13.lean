import RsyncModel.Filter
import RsyncModel.DeleteThm
import RsyncModel.Opts
/-! # C13 — exclude/include rules filter exactly the named entries -/
namespace C13
open Filter Walk

/-- **The first matching rule decides**: a name is excluded iff the rule list splits into rules that
do not match, then a matching *exclude* rule (what follows is irrelevant). An earlier matching
include rule therefore keeps the entry. -/
theorem first_match_decides (rules : List Rule) (name : Str) (isDir : Bool) :
    excluded rules name isDir = true ↔
      ∃ pre r post, rules = pre ++ r :: post ∧ (∀ q ∈ pre, ruleMatches q name isDir = false) ∧
        ruleMatches r name isDir = true ∧ r.incl = false := by
  induction rules with
  | nil => simp [excluded]
  | cons r rs ih =>
    unfold excluded
    by_cases hm : ruleMatches r name isDir = true
    · simp only [hm, if_true]
      constructor
      · intro h; exact ⟨[], r, rs, rfl, by simp, hm, by simpa using h⟩
      · rintro ⟨pre, r', post, he, hpre, hr', hi⟩
        cases pre with
        | nil => simp only [List.nil_append, List.cons.injEq] at he; rw [he.1]; simp [hi]
        | cons q qs =>
          simp only [List.cons_append, List.cons.injEq] at he
          have := hpre q (by simp); rw [← he.1, hm] at this; cases this
    · have hm' : ruleMatches r name isDir = false := by simpa using hm
      simp only [hm', Bool.false_eq_true, if_false]
      rw [ih]
      constructor
      · rintro ⟨pre, r', post, he, hpre, hr', hi⟩
        exact ⟨r :: pre, r', post, by simp [he], by
          intro q hq; rcases List.mem_cons.mp hq with rfl | hq
          · exact hm'
          · exact hpre q hq, hr', hi⟩
      · rintro ⟨pre, r', post, he, hpre, hr', hi⟩
        cases pre with
        | nil => simp only [List.nil_append, List.cons.injEq] at he; rw [← he.1, hm'] at hr'; cases hr'
        | cons q qs =>
          simp only [List.cons_append, List.cons.injEq] at he
          exact ⟨qs, r', post, he.2, fun x hx => hpre x (by simp [hx]), hr', hi⟩

/-- a plain-name rule (no slash) matches exactly the entries whose last path component is that name,
at any depth; a rule with a trailing slash only directories -/
theorem plain_rule_matches_base (r : Rule) (name : Str) (isDir : Bool) (hp : r.pattern.contains 47 = false)
    (hd : r.directory = false ∨ isDir = true) :
    ruleMatches r name isDir = (r.pattern == base name) := by
  unfold ruleMatches
  have hp' : ¬ (47 ∈ r.pattern) := by
    intro hc; have := List.contains_iff_mem.mpr hc; rw [hp] at this; cases this
  rcases hd with hd | hd <;> simp [hd, hp']

/-- everything the walk lists is an entry of the tree that is not excluded -/
theorem listed_not_excluded (excl : Path → Bool → Bool) (l : List Ent) :
    ∀ p ∈ listWalk excl l, ∃ e ∈ l, e.path = p ∧ excl p e.isDir = false := by
  induction l using listWalk.induct excl with
  | case1 => simp [listWalk]
  | case2 e rest hx hd ih =>
    rw [listWalk, if_pos hx, if_pos hd]; intro p hp
    obtain ⟨e', he', h⟩ := ih p hp
    exact ⟨e', List.mem_cons_of_mem _ (List.dropWhile_subset _ he'), h⟩
  | case3 e rest hx hd ih =>
    rw [listWalk, if_pos hx, if_neg hd]; intro p hp
    obtain ⟨e', he', h⟩ := ih p hp
    exact ⟨e', List.mem_cons_of_mem _ he', h⟩
  | case4 e rest hx ih =>
    rw [listWalk, if_neg hx]; intro p hp
    rcases List.mem_cons.mp hp with rfl | hp
    · exact ⟨e, List.mem_cons_self, rfl, by simpa using hx⟩
    · obtain ⟨e', he', h⟩ := ih p hp
      exact ⟨e', List.mem_cons_of_mem _ he', h⟩

/-- **Every other entry is transferred**: an entry that is not excluded and does not lie under an
excluded *directory* is listed — in particular the later siblings of an excluded file (D12) and
names matched by an include rule first (D13). -/
theorem not_excluded_listed (excl : Path → Bool → Bool) (l : List Ent) :
    ∀ e ∈ l, excl e.path e.isDir = false →
      (∀ x ∈ l, under x.path e.path = true → ¬ (x.isDir = true ∧ excl x.path x.isDir = true)) →
      e.path ∈ listWalk excl l := by
  induction l using listWalk.induct excl with
  | case1 => simp
  | case2 h rest hx hd ih =>
    rw [listWalk, if_pos hx, if_pos hd]
    intro e he hne hanc
    rcases List.mem_cons.mp he with rfl | he
    · rw [hx] at hne; cases hne
    · have hsplit := List.takeWhile_append_dropWhile (p := fun x => under h.path x.path) (l := rest)
      rw [← hsplit] at he
      rcases List.mem_append.mp he with ht | hdw
      · have hu : under h.path e.path = true := Walk.of_mem_takeWhile (fun (x : Ent) => under h.path x.path) _ _ ht
        exact absurd ⟨hd, hx⟩ (hanc h List.mem_cons_self hu)
      · exact ih e hdw hne (fun x hxm => hanc x (List.mem_cons_of_mem _ (List.dropWhile_subset _ hxm)))
  | case3 h rest hx hd ih =>
    rw [listWalk, if_pos hx, if_neg hd]
    intro e he hne hanc
    rcases List.mem_cons.mp he with rfl | he
    · rw [hx] at hne; cases hne
    · exact ih e he hne (fun x hxm => hanc x (List.mem_cons_of_mem _ hxm))
  | case4 h rest hx ih =>
    rw [listWalk, if_neg hx]
    intro e he hne hanc
    rcases List.mem_cons.mp he with rfl | he
    · exact List.mem_cons_self
    · exact List.mem_cons_of_mem _ (ih e he hne (fun x hxm => hanc x (List.mem_cons_of_mem _ hxm)))

/-- **Rule syntax the implementation cannot honour is an error when the rule is received**:
wildcards, anchored patterns and the list-clearing `!` make `RecvFilterList`/`ParseFilterRules` fail
instead of being kept as literal patterns. -/
theorem unsupported_is_error (lines : List Str)
    (h : ∃ l ∈ lines, (parseRule l).wild = true ∨ (parseRule l).clearList = true ∨ (parseRule l).pattern.head? = some 47) :
    parseRules lines = none := by
  obtain ⟨l, hl, hbad⟩ := h
  unfold parseRules
  have : (lines.map parseRule).any (fun r => r.wild || r.clearList || r.pattern.head? == some 47) = true := by
    rw [List.any_eq_true]
    refine ⟨parseRule l, List.mem_map.mpr ⟨l, hl, rfl⟩, ?_⟩
    rcases hbad with h | h | h <;> simp [h]
  simp [this]

/-- … and plain-name rules are never refused -/
theorem plain_rules_accepted (lines : List Str)
    (h : ∀ l ∈ lines, (parseRule l).wild = false ∧ (parseRule l).clearList = false ∧ (parseRule l).pattern.head? ≠ some 47) :
    parseRules lines = some (lines.map parseRule) := by
  unfold parseRules
  have : (lines.map parseRule).any (fun r => r.wild || r.clearList || r.pattern.head? == some 47) = false := by
    rw [List.any_eq_false]
    intro r hr
    obtain ⟨l, hl, rfl⟩ := List.mem_map.mp hr
    obtain ⟨a, b, c⟩ := h l hl
    simp [a, b, c]
  simp [this]

/-- worked examples (kernel-checked): `- b` drops only `b`, later siblings stay (D12); `+ b` before
`- b` keeps `b` (D13); `- *.o` is refused (D5); `- d/` does not touch a *file* named `d` (D18) -/
example :
    listWalk (fun p d => excluded [parseRule [45, 32, 98]] (Delete.joined p) d)
      [⟨[[97]], false⟩, ⟨[[98]], false⟩, ⟨[[99]], false⟩] = [[[97]], [[99]]] ∧
    excluded [parseRule [43, 32, 98], parseRule [45, 32, 98]] [98] false = false ∧
    parseRules [[45, 32, 42, 46, 111]] = none ∧
    excluded [parseRule [45, 32, 100, 47]] [100] false = false ∧
    excluded [parseRule [45, 32, 100, 47]] [100] true = true := by
  refine ⟨by simp [listWalk, excluded, parseRule, ruleMatches, base, Delete.joined, dropSuffixSlash, isWildByte], by decide, by decide, by decide, by decide⟩

/-- **a pattern with a slash names the end of the path, however the source was spelt (D53)**: `sub/f` leaves out `sub/f`
(source given as `SRC/`) and `src/sub/f` (source given as `SRC`) alike; before the repair the pattern was compared with
the whole name and the second spelling transferred the file without a word. -/
theorem slash_pattern_matches_tail (r : Rule) (pre : Str) (isDir : Bool) (hs : r.pattern.contains 47 = true)
    (hd : r.directory = false ∨ isDir = true) :
    ruleMatches r r.pattern isDir = true ∧ ruleMatches r (pre ++ 47 :: r.pattern) isDir = true := by
  have hdir : (r.directory && !isDir) = false := by rcases hd with h | h <;> simp [h]
  unfold ruleMatches
  simp only [hdir, Bool.false_eq_true, if_false, hs, if_true]
  refine ⟨by simp, ?_⟩
  have : (47 :: r.pattern).isSuffixOf (pre ++ 47 :: r.pattern) = true := by
    rw [List.isSuffixOf_iff_suffix]; exact List.suffix_append pre _
  simp [this]

/-- … but not in the middle of a component: `ub/f` does not name `src/sub/f` -/
example : ruleMatches (parseRule [45, 32, 117, 98, 47, 102]) [115, 114, 99, 47, 115, 117, 98, 47, 102] false = false ∧
    ruleMatches (parseRule [45, 32, 115, 117, 98, 47, 102]) [115, 114, 99, 47, 115, 117, 98, 47, 102] false = true := by decide

/-! ## `--filter=RULE` on the command line (D49)

The rule text of `--filter` travels to the sender unchanged (`Gen.OptTable`: the clause of `OPT_FILTER`). The sender reads
`- NAME` and `+ NAME` as written — and *every other text as the name of an entry to exclude*. So the client refuses every
other text: before the repair `P keep`, `: .rsync-filter` or an empty rule were accepted and silently meant something else. -/

/-- how the sender reads a rule that starts with `- ` / `+ `: exclude / include of exactly the rest -/
theorem minus_rule_read_as_written (rest : Str) :
    (parseRule (45 :: 32 :: rest)).incl = false ∧ (parseRule (45 :: 32 :: rest)).clearList = false ∧
    (parseRule (45 :: 32 :: rest)).pattern = dropSuffixSlash rest := by simp [parseRule]

theorem plus_rule_read_as_written (rest : Str) :
    (parseRule (43 :: 32 :: rest)).incl = true ∧ (parseRule (43 :: 32 :: rest)).clearList = false ∧
    (parseRule (43 :: 32 :: rest)).pattern = dropSuffixSlash rest := by simp [parseRule]

/-- … and any other text (not starting with `!`) as an *exclude* rule whose pattern is the whole text -/
theorem other_text_read_as_name (line : Str) (h1 : ∀ r, line ≠ 45 :: 32 :: r) (h2 : ∀ r, line ≠ 43 :: 32 :: r)
    (h3 : ∀ r, line ≠ 33 :: r) :
    (parseRule line).incl = false ∧ (parseRule line).clearList = false ∧ (parseRule line).pattern = dropSuffixSlash line := by
  unfold parseRule
  split
  rename_i heq
  split at heq
  · exact absurd rfl (h1 _)
  · exact absurd rfl (h2 _)
  · exact absurd rfl (h3 _)
  · simp only [Prod.mk.injEq] at heq
    obtain ⟨rfl, rfl, rfl⟩ := heq
    simp

/-- the client's `OPT_FILTER` clause (regenerated: `.ruleChecked`): the rule is stored unchanged if it has one of the three
forms the sender reads as written (or refuses itself: `!`), otherwise the command line is refused -/
theorem filter_option_stored_or_refused (arg : Opts.Str) (rest : List Gen.OptTable.Act) (s : Opts.St) :
    Opts.runActs arg (.ruleChecked :: rest) s =
      if Opts.filterArgOk arg then Opts.runActs arg rest { s with rules := s.rules ++ [arg] } else .stop .err := rfl

theorem accepted_filter_arg_shape (arg : Opts.Str) (h : Opts.filterArgOk arg = true) :
    (∃ r, arg = '-' :: ' ' :: r) ∨ (∃ r, arg = '+' :: ' ' :: r) ∨ arg = ['!'] := by
  unfold Opts.filterArgOk at h
  split at h
  · exact Or.inl ⟨_, rfl⟩
  · exact Or.inr (Or.inl ⟨_, rfl⟩)
  · exact Or.inr (Or.inr rfl)
  · cases h

/-- the regenerated clause of `--filter` is the checked one, `--exclude` / `--include` add their own prefix -/
theorem filter_clauses_pinned :
    (Gen.OptTable.mainCases.filter (fun c => c.1 == 1005)).map (fun c => c.2.length) = [1] ∧
    (Gen.OptTable.mainCases.filter (fun c => c.1 == 1005)).all
      (fun c => match c.2 with | [.ruleChecked] => true | _ => false) = true := by decide

/-- refused: a protect rule, a merge rule, the empty rule, a rule without a space; accepted: `- x`, `+ x/` -/
example : Opts.filterArgOk "P keep".toList = false ∧ Opts.filterArgOk ": .rsync-filter".toList = false ∧
    Opts.filterArgOk [] = false ∧ Opts.filterArgOk "-foo".toList = false ∧
    Opts.filterArgOk "- x".toList = true ∧ Opts.filterArgOk "+ x/".toList = true := by decide

end C13
