import RsyncModel.SshSpec
/-! # C20 — SSH listeners admit only authorised keys and expose only the rsync daemon -/
namespace C20
open Opts Ssh Gen.OptTable

/-! ## authorised keys -/

/-- the keys an authorized_keys file lists: the key of every line that is neither blank nor a comment -/
def listed (file : List KeyLine) (k : Str) : Prop := ∃ l ∈ file, skipped l = false ∧ l.blob = some k

/-- **a session is granted exactly to the listed keys**: for every file (blank lines, comments,
any number of keys) and every presented key -/
theorem authorised_iff_listed (file : List KeyLine) (ks : List Str) (k : Str) (h : loadKeys file = some ks) :
    admits (some ks) k = true ↔ listed file k := by
  induction file generalizing ks with
  | nil => simp [loadKeys] at h; subst h; simp [admits, listed]
  | cons l rest ih =>
    simp only [loadKeys] at h
    by_cases hs : skipped l = true
    · rw [if_pos hs] at h
      rw [ih ks h]
      constructor
      · rintro ⟨x, hx, h1, h2⟩; exact ⟨x, by simp [hx], h1, h2⟩
      · rintro ⟨x, hx, h1, h2⟩
        rcases List.mem_cons.mp hx with rfl | hx
        · rw [hs] at h1; cases h1
        · exact ⟨x, hx, h1, h2⟩
    · rw [if_neg hs] at h
      cases hb : l.blob with
      | none => simp [hb] at h
      | some b =>
        cases hr : loadKeys rest with
        | none => simp [hb, hr] at h
        | some ks' =>
          simp only [hb, hr, Option.some.injEq] at h
          subst h
          have ih' := ih ks' hr
          simp only [admits, List.contains_cons, Bool.or_eq_true, beq_iff_eq] at ih' ⊢
          constructor
          · rintro (rfl | hk)
            · exact ⟨l, by simp, by simpa using hs, hb⟩
            · obtain ⟨x, hx, h1, h2⟩ := ih'.mp hk
              exact ⟨x, by simp [hx], h1, h2⟩
          · rintro ⟨x, hx, h1, h2⟩
            rcases List.mem_cons.mp hx with rfl | hx
            · left; rw [hb] at h2; injection h2 with h2; exact h2.symm
            · right; exact ih'.mpr ⟨x, hx, h1, h2⟩

/-- an authorised listener whose file lists no key (empty, or only comments and blank lines) admits nobody — it is not an anonymous listener -/
theorem no_keys_admits_nobody (addr : Str) (file : List KeyLine) (k : Str) (ha : addr ≠ [])
    (hall : ∀ l ∈ file, skipped l = true) :
    ∃ ks, listenerKeys addr file = some (some ks) ∧ admits (some ks) k = false := by
  have hl : loadKeys file = some [] := by
    induction file with
    | nil => rfl
    | cons l rest ih =>
      simp only [loadKeys, hall l (by simp), if_true]
      exact ih (fun x hx => hall x (by simp [hx]))
  refine ⟨[], ?_, by simp [admits]⟩
  have : addr.isEmpty = false := by cases addr <;> simp_all
  simp [listenerKeys, this, hl]

/-- only a listener without an authorised-SSH address is anonymous -/
theorem anonymous_iff_no_address (addr : Str) (file : List KeyLine) :
    listenerKeys addr file = some none ↔ addr = [] := by
  unfold listenerKeys
  cases addr with
  | nil => simp
  | cons c cs =>
    simp only [List.isEmpty_cons, Bool.false_eq_true, if_false]
    cases loadKeys file <;> simp

/-! ## what an anonymous session can run -/

/-- the finite facts about the regenerated option tables the gate theorem needs -/
def gateCheck : Bool :=
  match longRow mainRows "--server".toList, longRow mainRows "--daemon".toList with
  | some rS, some rD =>
    (match rowEff rS with
     | some e => e.reqs.isEmpty && allPos e.sets && e.sets.any (fun p => p.1 == .f_am_server && p.2.isSome)
     | none => false) &&
    rD.target.isNone && isSpecial rD && rD.kind != .other &&
    (match lookupCase rD.val mainCases with | some [.daemonMode] => true | _ => false) &&
    daemonKeeps .f_am_server && daemonAllRows.all (fun r => r.kind != .other)
  | _, _ => false

theorem gate_check : gateCheck = true := by decide +kernel

/-- outcomes of `maincmd.Main` that stay inside the daemon protocol against the configured modules -/
def Mode.daemonOnly : Mode → Prop
  | .daemonOverShell => True
  | .parseError => True
  | .exitRequest => True
  | _ => False

theorem stepTok_daemonRow (rD : Row) (s : St) (ht : rD.target = none) (hs : isSpecial rD = true)
    (hc : lookupCase rD.val mainCases = some [.daemonMode]) :
    stepTok mainCases mainCasesDefault (.opt rD []) s = .daemon s := by
  simp [stepTok, store, ht, hs, hc, runActs]

/-- **Whatever follows `--server --daemon` on the command line, `Main` either fails to parse it or
speaks the daemon protocol**: no argument (`--sender`, `-e cmd`, paths, `--config`, …) can turn the
session into a command-mode server, a client-mode transfer or a listening daemon. -/
theorem server_daemon_only_daemon (rest : List Str) :
    Mode.daemonOnly (dispatch ("--server".toList :: "--daemon".toList :: rest)) := by
  have hg := gate_check
  unfold gateCheck at hg
  cases hS : longRow mainRows "--server".toList with
  | none => rw [hS] at hg; cases hg
  | some rS =>
    cases hD : longRow mainRows "--daemon".toList with
    | none => rw [hS, hD] at hg; cases hg
    | some rD =>
      rw [hS, hD] at hg
      simp only [Bool.and_eq_true] at hg
      obtain ⟨⟨⟨⟨⟨⟨hE, htgt⟩, hsp⟩, _⟩, hcase⟩, hkeep⟩, hkinds⟩ := hg
      cases hEf : rowEff rS with
      | none => rw [hEf] at hE; cases hE
      | some eS =>
        rw [hEf] at hE
        simp only [Bool.and_eq_true] at hE
        obtain ⟨⟨hreq, hpos⟩, hsets⟩ := hE
        have hcase' : lookupCase rD.val mainCases = some [.daemonMode] := by
          cases hl : lookupCase rD.val mainCases with
          | none => rw [hl] at hcase; cases hcase
          | some acts =>
            rw [hl] at hcase
            match acts, hcase with
            | [.daemonMode], _ => rfl
        have htgt' : rD.target = none := by cases h : rD.target <;> simp_all
        -- the lexer on the first two arguments
        let all := "--server".toList :: "--daemon".toList :: rest
        have hlex : lex mainRows all = .opt rS [] :: .opt rD [] :: lexN mainRows rest.length rest := by
          show lexN mainRows (rest.length + 1 + 1) ("--server".toList :: "--daemon".toList :: rest) = _
          rw [lexN_cons mainRows _ _ _ [.opt rS []] (fun next => lexArg_long mainRows _ next rS hS),
              lexN_cons mainRows _ _ _ [.opt rD []] (fun next => lexArg_long mainRows _ next rD hD)]
          rfl
        -- the interpreter on them
        have hreqs : ∀ f ∈ eS.reqs, init.ints f ≠ 0 := by
          intro f hf
          have : eS.reqs = [] := by simpa using hreq
          rw [this] at hf; cases hf
        have h1 : stepTok mainCases mainCasesDefault (.opt rS []) init = .next (applySets eS.sets init) :=
          stepTok_eff rS eS init hEf hreqs
        have hsrv : (applySets eS.sets init).ints .f_am_server ≠ 0 := by
          have := applySets_const_pos eS.sets init .f_am_server hpos hsets
          omega
        have hrun : parse all = runDaemon (lex daemonAllRows all) (applySets eS.sets init) := by
          simp only [parse, parseFrom, hlex, runMain, h1, stepTok_daemonRow rD _ htgt' hsp hcase']
        have hk := runDaemon_keeps .f_am_server (by decide) hkeep (lex daemonAllRows all) (applySets eS.sets init)
          (lex_rowIn daemonAllRows all) (lex_modelled daemonAllRows hkinds all) hsrv
        show Mode.daemonOnly (dispatch all)
        unfold dispatch
        rw [hrun]
        cases hres : runDaemon (lex daemonAllRows all) (applySets eS.sets init) with
        | err => trivial
        | exit => trivial
        | unmodelled => rw [hres] at hk; exact absurd hk id
        | ok s' =>
          rw [hres] at hk
          obtain ⟨hs1, hd1⟩ := hk
          have a1 : acc s' .Daemon = true := by simp [acc, accField, hd1]
          have a2 : acc s' .Server = true := by simpa [acc, accField] using hs1
          simp [a1, a2, Mode.daemonOnly]

/-- **on an anonymous listener, every exec command line is refused or stays inside the daemon
protocol** — client-mode transfers, remote-shell options, plain server mode on arbitrary paths
are all refused (D16) -/
theorem anon_only_daemon (cmdline : List Str) :
    match exec true cmdline with
    | .refused => True
    | .ignored => True
    | .runs m => Mode.daemonOnly m := by
  unfold exec
  by_cases he : cmdline.isEmpty = true
  · simp [he]
  · by_cases hg : gate cmdline = true
    · simp only [he, hg, Bool.not_true, Bool.and_false, Bool.false_eq_true, if_false]
      match cmdline, hg with
      | _ :: a :: b :: rest, hg =>
        simp only [gate, Bool.and_eq_true, beq_iff_eq] at hg
        obtain ⟨rfl, rfl⟩ := hg
        exact server_daemon_only_daemon rest
    · simp only [Bool.not_eq_true] at hg
      simp [he, hg]

/-- every other request type, and every other channel type, is refused; `env` runs nothing -/
theorem other_requests_refused (anonymous : Bool) (typ : String) (cmdline : List Str)
    (h1 : typ ≠ "exec") (h2 : typ ≠ "env") : (match request anonymous typ cmdline with | .refused => True | _ => False) := by
  simp [request, h1, h2]

theorem env_runs_nothing (anonymous : Bool) (cmdline : List Str) :
    (match request anonymous "env" cmdline with | .ignored => True | _ => False) := by
  simp [request]

theorem only_session_channels (typ : String) (h : typ ≠ "session") : channelAccepted typ = false := by
  simp [channelAccepted, h]

/-- the source has the shape the model stands for (regenerated facts) -/
theorem source_shape : SshSpec.factsOk = true := SshSpec.facts_ok

/-- an empty command line is refused on every listener (D27: an authorised client could crash the daemon with `exec ""`) -/
theorem empty_command_refused (anonymous : Bool) : (match exec anonymous [] with | .refused => True | _ => False) := by
  simp [exec]

/-! ## non-vacuity: the historical attacks (D16) and the seeded one are refused, the daemon command is served -/

example : (match exec true ["rsync".toList, "--server".toList, "--sender".toList, "-logDtpr".toList, ".".toList, "/etc".toList] with | .refused => true | _ => false) = true := by decide
example : (match exec true ["rsync".toList, "-e".toList, "sh -c id".toList, "localhost:foo".toList, "/tmp".toList] with | .refused => true | _ => false) = true := by decide
example : (match exec true ["rsync".toList, "--server".toList, "-e".toList, "--daemon".toList, ".".toList, "/x".toList] with | .refused => true | _ => false) = true := by decide
/-- an authorised session may run a command-mode server (that is what authorisation is for) -/
example : (match exec false ["rsync".toList, "--server".toList, "--sender".toList, "-r".toList, ".".toList, "/srv".toList] with
    | .runs (.serverSender _) => true | _ => false) = true := by decide +kernel
example : (match exec true ["rsync".toList, "--server".toList, "--daemon".toList, ".".toList] with
    | .runs .daemonOverShell => true | _ => false) = true := by decide +kernel

end C20
