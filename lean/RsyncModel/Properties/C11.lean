import RsyncModel.GeneratorThm
/-! # C11 — requested metadata is reproduced at the destination -/
namespace C11
open Rx

/-- **Regular files** (after the data arrived and was committed): size/content as sent; `-p` ⇒ the
entry's permission bits; without `-p` an existing regular file keeps its own bits; `-t` ⇒ mtime to
the second; as root `-o`/`-g` ⇒ owner and group. -/
theorem regular_file_metadata (o : Opts) (e : Entry) (d : Option Node) (size : Int) (sum : Bytes)
    (hd : o.dryRun = false) :
    ∃ n, recvFinish o e d size sum = some n ∧ n.kind = .reg ∧ n.size = size ∧ n.sum = sum ∧
      (o.perms = true → n.perm = e.perm) ∧
      (o.perms = false → ∀ m, d = some m → m.kind = .reg → n.perm = m.perm) ∧
      (d = none → n.perm = e.perm) ∧
      (o.times = true → n.mtime = e.mtime) ∧
      (o.uid = true → o.amRoot = true → n.uid = e.uid) ∧
      (o.gid = true → o.amRoot = true → n.gid = e.gid) := by
  unfold recvFinish
  simp only [hd, Bool.false_eq_true, if_false]
  refine ⟨_, rfl, ?_, ?_, ?_, ?_, ?_, ?_, ?_, ?_, ?_⟩
  · rw [setPerms_kind]; rfl
  · rw [setPerms_size]
  · rw [setPerms_sum]
  · intro hp; rw [setPerms_perm _ _ _ _ _ hd (by decide)]
    cases d with
    | none => rfl
    | some m => simp [hp]
  · intro hp m hm hk; rw [setPerms_perm _ _ _ _ _ hd (by decide)]; simp [hm, hk, hp]
  · intro hn; rw [setPerms_perm _ _ _ _ _ hd (by decide)]; simp [hn]
  · intro ht; exact setPerms_mtime _ _ _ _ _ hd ht (by decide)
  · intro hu hr; exact setPerms_uid_root _ _ _ _ _ hd hu hr
  · intro hg hr; exact setPerms_gid_root _ _ _ _ _ hd hg hr

/-- **An up-to-date regular file** only has its metadata adjusted, under the same rules (in
particular: without `-p` its permission bits are left alone). -/
theorem uptodate_file_metadata (o : Opts) (e : Entry) (m : Node) (he : e.kind = .reg) (hk : m.kind = .reg)
    (hd : o.dryRun = false) (hskip : skipFile o e m = true) :
    ∃ n, (genStep o e (some m)).node = some n ∧ n.kind = .reg ∧ n.size = m.size ∧
      (o.perms = true → n.perm = e.perm) ∧ (o.perms = false → n.perm = m.perm) ∧
      (o.times = true → n.mtime = e.mtime) := by
  unfold genStep
  simp only [he]
  have hl : (o.links && (Kind.reg == Kind.lnk)) = false := by simp
  have hdv : ((o.devices && isDevKind Kind.reg) || (o.specials && isSpecialKind Kind.reg)) = false := by
    simp [isDevKind, isSpecialKind]
  simp only [hl, hdv, Bool.false_eq_true, if_false, hk, bne_self_eq_false, hskip, if_true]
  refine ⟨_, rfl, ?_, ?_, ?_, ?_, ?_⟩
  · rw [setPerms_kind]; exact hk
  · rw [setPerms_size]
  · intro hp; rw [setPerms_perm _ _ _ _ _ hd (by decide)]; simp [hp]
  · intro hp; rw [setPerms_perm _ _ _ _ _ hd (by decide)]; simp [hp]
  · intro ht; exact setPerms_mtime _ _ _ _ _ hd ht (by decide)

/-- **Directories**: created (or kept) as directories; lacking owner-write they are made writable
while the transfer runs (`retouch`), and `touchUp` at the end gives exactly the source's mode. -/
theorem directory_metadata (o : Opts) (e : Entry) (d : Option Node) (he : e.kind = .dir) (hd : o.dryRun = false) :
    ∃ n, (genStep o e d).node = some n ∧ (genStep o e d).res = .ok ∧ n.kind = .dir ∧
      (n.perm = if e.perm &&& wbit = 0 then e.perm ||| wbit else e.perm) ∧
      ((genStep o e d).retouch = true ↔ e.perm &&& wbit = 0) ∧
      (touchUp o e n).perm = e.perm ∧ (touchUp o e n).kind = .dir ∧
      (o.times = true → n.mtime = e.mtime) ∧
      (o.uid = true → o.amRoot = true → n.uid = e.uid) ∧ (o.gid = true → o.amRoot = true → n.gid = e.gid) := by
  unfold genStep
  simp only [he, hd, Bool.false_eq_true, if_false]
  refine ⟨_, rfl, trivial, ?_, ?_, ?_, ?_, ?_, ?_, ?_, ?_⟩
  · rw [setPerms_kind]
    cases d with
    | none => rfl
    | some m =>
      simp only
      by_cases hk : m.kind = .dir
      · simp [hk]
      · have : (m.kind != Kind.dir) = true := by simpa using hk
        simp [this, newNode]
  · rw [setPerms_perm _ _ _ _ _ hd (by decide)]
    by_cases hw : e.perm &&& wbit = 0 <;> simp [hw]
  · simp
  · unfold touchUp
    simp only [he, bne_self_eq_false, Bool.false_eq_true, if_false, hd]
    by_cases hw : e.perm &&& wbit = 0
    · have : (e.perm &&& wbit != 0) = false := by simp [hw]
      simp only [this, Bool.false_eq_true, if_false]
      rw [setPerms_perm _ _ _ _ _ hd (by decide)]
    · have : (e.perm &&& wbit != 0) = true := by simpa using hw
      simp only [this, if_true]
      rw [setPerms_perm _ _ _ _ _ hd (by decide)]; simp [hw]
  · unfold touchUp
    simp only [he, bne_self_eq_false, Bool.false_eq_true, if_false, hd]
    split
    · rw [setPerms_kind]
      cases d with
      | none => rfl
      | some m =>
        simp only
        by_cases hk : m.kind = .dir
        · simp [hk]
        · have : (m.kind != Kind.dir) = true := by simpa using hk
          simp [this, newNode]
    · rw [setPerms_kind, setPerms_kind]
      cases d with
      | none => rfl
      | some m =>
        simp only
        by_cases hk : m.kind = .dir
        · simp [hk]
        · have : (m.kind != Kind.dir) = true := by simpa using hk
          simp [this, newNode]
  · intro ht; exact setPerms_mtime _ _ _ _ _ hd ht (by decide)
  · intro hu hr; exact setPerms_uid_root _ _ _ _ _ hd hu hr
  · intro hg hr; exact setPerms_gid_root _ _ _ _ _ hd hg hr

/-- **Symlinks** (`-l`): the destination is a symlink with exactly the entry's target (any bytes),
unless a directory is in the way (error). -/
theorem symlink_metadata (o : Opts) (e : Entry) (d : Option Node) (he : e.kind = .lnk) (hl : o.links = true)
    (hd : o.dryRun = false) (hnd : ∀ m, d = some m → m.kind ≠ .dir) :
    ∃ n, (genStep o e d).node = some n ∧ (genStep o e d).res = .ok ∧ n.kind = .lnk ∧ n.target = e.target ∧
      (o.uid = true → o.amRoot = true → n.uid = e.uid) ∧ (o.gid = true → o.amRoot = true → n.gid = e.gid) := by
  unfold genStep
  simp only [he, hl, hd, Bool.true_and, beq_self_eq_true, if_true, Bool.false_eq_true, if_false]
  cases d with
  | none =>
    refine ⟨_, rfl, rfl, ?_, ?_, ?_, ?_⟩
    · rw [setPerms_kind]; rfl
    · rw [setPerms_target]
    · intro hu hr; exact setPerms_uid_root _ _ _ _ _ hd hu hr
    · intro hg hr; exact setPerms_gid_root _ _ _ _ _ hd hg hr
  | some m =>
    simp only
    by_cases hsame : (m.kind == Kind.lnk && m.target == e.target) = true
    · simp only [hsame, if_true]
      simp only [Bool.and_eq_true, beq_iff_eq] at hsame
      refine ⟨_, rfl, trivial, ?_, ?_, ?_, ?_⟩
      · rw [setPerms_kind]; exact hsame.1
      · rw [setPerms_target]; exact hsame.2
      · intro hu hr; exact setPerms_uid_root _ _ _ _ _ hd hu hr
      · intro hg hr; exact setPerms_gid_root _ _ _ _ _ hd hg hr
    · have hnd' : (m.kind == Kind.dir) = false := by simpa using hnd m rfl
      simp only [hsame, Bool.false_eq_true, if_false, hnd']
      refine ⟨_, rfl, trivial, ?_, ?_, ?_, ?_⟩
      · rw [setPerms_kind]; rfl
      · rw [setPerms_target]
      · intro hu hr; exact setPerms_uid_root _ _ _ _ _ hd hu hr
      · intro hg hr; exact setPerms_gid_root _ _ _ _ _ hd hg hr

/-- **Devices and special files** (`--devices` / `--specials`, `-D` = both): a missing entry, or an
existing one of the same type (recreated when its device number differs), ends with the entry's
type, for devices its device number, and — like every other entry — its permission bits, its mtime
under `-t` and, as root, its owner and group. -/
theorem device_metadata (o : Opts) (e : Entry) (d : Option Node) (hd : o.dryRun = false)
    (hk : (o.devices = true ∧ isDevKind e.kind = true) ∨ (o.specials = true ∧ isSpecialKind e.kind = true))
    (hdst : ∀ m, d = some m → m.kind = e.kind) :
    ∃ n, (genStep o e d).node = some n ∧ (genStep o e d).res = .ok ∧ n.kind = e.kind ∧
      (isDevKind e.kind = true → n.rdev = e.rdev) ∧ n.perm = e.perm ∧
      (o.times = true → n.mtime = e.mtime) ∧
      (o.uid = true → o.amRoot = true → n.uid = e.uid) ∧ (o.gid = true → o.amRoot = true → n.gid = e.gid) := by
  have hnd : e.kind ≠ .dir := by
    intro hc; rw [hc] at hk; simp [isDevKind, isSpecialKind] at hk
  have hnlk : e.kind ≠ .lnk := by
    intro hc; rw [hc] at hk; simp [isDevKind, isSpecialKind] at hk
  have hnl : (o.links && e.kind == Kind.lnk) = false := by
    have : (e.kind == Kind.lnk) = false := by simpa using hnlk
    simp [this]
  have hcond : ((o.devices && isDevKind e.kind) || (o.specials && isSpecialKind e.kind)) = true := by
    rcases hk with ⟨a, b⟩ | ⟨a, b⟩ <;> simp [a, b]
  have hstep : ∃ base : Node, base.kind = e.kind ∧ (isDevKind e.kind = true → base.rdev = e.rdev) ∧
      genStep o e d = ⟨some (setPerms o e e.kind e.perm base), .none, false, .ok⟩ := by
    unfold genStep
    cases hkind : e.kind
    case dir => exact absurd hkind hnd
    all_goals
      simp only [hkind] at hnl hcond hdst ⊢
      first
      | (exfalso; simp [isDevKind, isSpecialKind] at hcond; done)
      | (simp only [hnl, hcond, hd, Bool.false_eq_true, if_false, if_true]
         cases d with
         | none => exact ⟨_, rfl, by simp [isDevKind], rfl⟩
         | some m =>
           have hm := hdst m rfl
           simp only [deviceExists, hm, beq_self_eq_true, if_true]
           split
           · next hsame =>
             refine ⟨m, hm, ?_, rfl⟩
             intro hdev
             simp only [hdev, Bool.not_true, Bool.false_or, beq_iff_eq] at hsame
             exact hsame
           · exact ⟨_, rfl, by simp [isDevKind], rfl⟩)
  obtain ⟨base, hbk, hbr, hs⟩ := hstep
  rw [hs]
  refine ⟨_, rfl, rfl, ?_, ?_, ?_, ?_, ?_, ?_⟩
  · rw [setPerms_kind]; exact hbk
  · intro hdev; rw [setPerms_rdev]; exact hbr hdev
  · exact setPerms_perm _ _ _ _ _ hd hnlk
  · intro ht; exact setPerms_mtime _ _ _ _ _ hd ht hnlk
  · intro hu hr; exact setPerms_uid_root _ _ _ _ _ hd hu hr
  · intro hg hr; exact setPerms_gid_root _ _ _ _ _ hd hg hr

end C11
