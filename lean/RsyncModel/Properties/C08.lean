import RsyncModel.PeerInput
import RsyncModel.FlistTie
import RsyncModel.RecvTie
import RsyncModel.MapFile
import RsyncModel.PureTie
import RsyncModel.Properties.C17
import RsyncModel.Properties.C13
import RsyncModel.Properties.C07
import RsyncModel.Gen.ExitSites
import RsyncModel.Flist
import RsyncModel.RecvData
/-! # C08 — malformed or hostile peer input ends only that session, with an error

Lean functions are total, so "does not crash" has to be *said*: the models carry the explicit
`panic`/`exit`/`error` outcomes of the Go code, and the theorems state which inputs reach which.
(1) Structural facts regenerated from the source: no `os.Exit`/`log.Fatal` outside `cmd/`; the only
explicit `panic` sites are the two proved unreachable below; the per-connection goroutine recovers;
peer-supplied file indices are bounds-checked before every use. (2) The two panic sites are
unreachable for every input. (3) Argument lines can never make the daemon exit: an exit request of
the option parser (`--help`, `--version`, `--info=help`, `-h` in daemon mode) is an error frame. (4)
Lengths and counts a peer declares are rejected when negative or beyond the limits, on every decoder
a peer reaches (file-list names and link targets, filter rules, checksum headers, file indices). -/
namespace C08
open Gen.ExitSites

/-- nothing can exit the process; explicit panics exist only where theorems (2) apply; a panic in a
connection's goroutine is recovered; indices are checked before use -/
def structureOk : Bool :=
  exitSites == [] && panicSites == ["internal/rsyncwire.Read", "internal/sender.matches"] &&
  recoverSites.contains "rsyncd.Serve" && serveRecoversPerConnection &&
  recvFilesIndex == "checked-before-every-use" && sendFilesIndex == "checked-before-every-use"

theorem structure_ok : structureOk = true := by decide +kernel

/-- the multiplex reader's `panic("not enough buffer space")` is unreachable for every byte stream (C17) -/
theorem wire_panic_unreachable (stream buffered : Wire.Bytes) (k : Nat) (acc : Wire.Bytes) :
    (Mux.readFull Gen.Consts.clientBufSize k acc ⟨buffered, (Mux.parse stream).1, (Mux.parse stream).2⟩).1 ≠ Mux.Res.panic :=
  C17.client_never_panics stream buffered k acc

/-- the matcher's `panic("wildcard filter rules not yet implemented")` needs a wildcard rule in the
list, and a list with such a rule is refused when it is received (C13) -/
theorem filter_panic_unreachable (lines : List Filter.Str) (h : ∃ l ∈ lines, (Filter.parseRule l).wild = true) :
    Filter.parseRules lines = none :=
  C13.unsupported_is_error lines (by obtain ⟨l, hl, hw⟩ := h; exact ⟨l, hl, Or.inl hw⟩)

/-- **argument lines never exit the daemon**: whatever the client sends as arguments, the handler's
outcome is one of the session outcomes; an exit request of the parser is answered with an error frame -/
theorem args_never_exit (m : Daemon.Module) (argLines : List Opts.Str) (h : Opts.parse (Daemon.flagsOf argLines) = .exit) :
    (match Daemon.afterOk m argLines with | .argError => True | _ => False) := by
  simp [Daemon.afterOk, h]

/-- the option parser's outcome on any argument list is ok, an error or an exit *request* (a value, not an exit) -/
theorem parse_total (args : List Opts.Str) :
    (match Opts.parse args with | .ok _ => True | .err => True | .exit => True | .unmodelled => True) := by
  cases Opts.parse args <;> trivial

/-- a negative or oversized name length in a file-list entry is an error of the decoder (D4) -/
theorem name_length_checked (last : Flist.Entry) (v : Int32) (rest : Flist.Str)
    (h : v < 0 ∨ v.toInt ≥ (Flist.pathMax : Int)) :
    Flist.decName Flist.fLongName last (Wire.encI32 v ++ rest) = .error .overflow := by
  have hf : Flist.has Flist.fLongName Flist.fSameName = false := by decide
  have hl : Flist.has Flist.fLongName Flist.fLongName = true := by decide
  have hd : Flist.rdI32 (Wire.encI32 v ++ rest) = .ok (v, rest) := by
    simp [Flist.rdI32, Wire.decI32_encI32]
  unfold Flist.decName
  simp only [hf, hl, Bool.false_eq_true, if_false, if_true, bind, Except.bind, pure, Except.pure, hd]
  have : v.toInt < 0 ∨ v.toInt ≥ (Flist.pathMax : Int) - ((0 : Nat) : Int) := by
    rcases h with h | h
    · left; exact Int32.lt_iff_toInt_lt.mp h
    · right; simpa using h
  have hc : v.toInt < 0 ∨ (Flist.pathMax : Int) ≤ v.toInt := by
    rcases this with h | h
    · exact Or.inl h
    · right; simpa using h
  rw [if_pos this]
  rfl

/-- a checksum header with a negative field, an oversized block or checksum length, a remainder larger
than the block, or blocks of length zero is refused (D2) -/
theorem sumhead_checked (count bl cs rem : Int32) (rest : Wire.Bytes)
    (h : count < 0 ∨ bl < 0 ∨ cs < 0 ∨ rem < 0 ∨ (count > 0 ∧ bl = 0)) :
    Recv.readHead (Wire.encI32 count ++ (Wire.encI32 bl ++ (Wire.encI32 cs ++ (Wire.encI32 rem ++ rest)))) = .error .badHead := by
  unfold Recv.readHead
  simp only [Wire.decI32_encI32]
  by_cases h1 : count < 0
  · simp [h1]
  · simp only [h1, if_false]
    by_cases h2 : bl < 0 ∨ bl.toInt > Recv.maxBlockLen
    · simp [h2]
    · simp only [h2, if_false]
      by_cases h3 : cs < 0 ∨ cs.toInt > Recv.maxCsLen
      · simp [h3]
      · simp only [h3, if_false]
        by_cases h4 : rem < 0 ∨ rem > bl
        · simp [h4]
        · simp only [h4, if_false]
          have hz : count > 0 ∧ (bl == 0) = true := by
            rcases h with h | h | h | h | h
            · exact absurd h h1
            · exact absurd (Or.inl h) h2
            · exact absurd (Or.inl h) h3
            · exact absurd (Or.inl h) h4
            · exact ⟨h.1, by simp [h.2]⟩
          simp [hz]

/-- the file-index step of `RecvFiles`/`SendFiles`: −1 is the phase marker, anything outside
`0 ≤ idx < n` is an error (D3), never an index into the list -/
def indexStep (n : Nat) (idx : Int32) : Except Unit (Option Nat) :=
  if idx == -1 then .ok none
  else if idx < 0 ∨ idx.toInt ≥ (n : Int) then .error ()
  else .ok (some idx.toInt.toNat)

theorem index_in_range (n : Nat) (idx : Int32) (k : Nat) (h : indexStep n idx = .ok (some k)) : k < n := by
  unfold indexStep at h
  split at h
  · cases h
  · split at h
    · cases h
    · rename_i hr
      injection h with h; injection h with h
      subst h
      have : ¬ idx < 0 ∧ ¬ idx.toInt ≥ (n : Int) := by
        constructor
        · intro x; exact hr (Or.inl x)
        · intro x; exact hr (Or.inr x)
      have h0 : 0 ≤ idx.toInt := by
        have := this.1
        rw [Int32.lt_iff_toInt_lt] at this
        simp at this
        exact this
      omega

/-- a read-only or unknown request never reaches receive mode (C07), a refused request is an error — re-exported for the daemon's half -/
theorem readonly_is_error (mods : List Daemon.Module) (g ml : Opts.Str) (args : List Opts.Str) (m : Daemon.Module)
    (hm : Daemon.moduleOf (Daemon.handle mods g ml args) = some m) (hw : m.writable = false) :
    Daemon.isReceive (Daemon.handle mods g ml args) = false :=
  (C07.readonly_untouched mods g ml args m hm hw).2


/-! ### Tie to the source (regenerated translation `Gen.Pure`) -/

/-- **`SumHead.ReadFrom` as the source has it** (translated from /repo on every run, the four reads
as parameters): for every four 32-bit values a peer can send it either rejects — and so does the
model, with `badHead` — or accepts exactly the fields the model accepts; it never panics. -/
theorem source_sumhead_validation (sh0 : Gen.Pure.SumHead) (r0 r1 r2 r3 : Int32) (rest : Wire.Bytes) :
    match Gen.Pure.SumHeadReadFrom sh0 r0 r1 r2 r3 with
    | .ok sh => sh = ⟨r0, r1, r2, r3⟩ ∧
        Recv.readHead (Wire.encI32 r0 ++ (Wire.encI32 r1 ++ (Wire.encI32 r2 ++ (Wire.encI32 r3 ++ rest))))
          = .ok (⟨r0.toInt.toNat, r1.toInt.toNat, r2.toInt.toNat, r3.toInt.toNat⟩, rest)
    | .err => Recv.readHead (Wire.encI32 r0 ++ (Wire.encI32 r1 ++ (Wire.encI32 r2 ++ (Wire.encI32 r3 ++ rest))))
          = .error .badHead
    | .panic => False :=
  PureTie.readFrom_tied sh0 r0 r1 r2 r3 rest

/-- the sender's file window never panics and never fails on requests inside the file, whatever
sequence of block lengths and offsets a peer's checksum header makes it ask for -/
theorem source_window_no_panic (ms : Gen.Pure.mapStruct) (file : Wire.Bytes) (offset : Int) (l : Int32)
    (inv : MapFile.Inv ms file) (hl : 0 < l.toInt) (h0 : 0 ≤ offset) (hin : offset + l.toInt ≤ (file.length : Int)) :
    ∃ ms', Gen.Pure.ptr ms offset l file = .ok ((file.drop offset.toNat).take l.toInt.toNat, ms') ∧ MapFile.Inv ms' file :=
  MapFile.ptr_correct ms file offset l inv hl h0 hin


/-- **no token stream makes the receiver's loop panic**: the loop of `receiveData` and `recvToken`,
translated from /repo on every run, return a value or an error for every input byte stream, every
validated header and every basis — never `panic` (no negative `make`, no slice out of range, no
runaway loop) -/
theorem source_receiver_loop_no_panic (h : PureTie.Head32) (hok : h.ok) (cs : Nat) (basis : Wire.Bytes) (hasBasis : Bool)
    (inp acc : Wire.Bytes) :
    Gen.Pure.recvLoop inp basis hasBasis h.count h.bl h.rem acc ≠ .panic := by
  rw [RecvTie.recvLoop_tied h hok cs basis hasBasis inp acc]
  cases Recv.recvTokens (h.toHead cs) (if hasBasis then some basis else none) inp acc with
  | error e => simp
  | ok v => simp


/-- **the readers of peer-supplied lists as the source has them never panic and always end**
(`recvIdMapping1`: the uid/gid name lists a sender transmits; `RecvFilterList`: the filter rules a
client transmits — both translated from /repo on every run with the connection's input as a byte
list): for every input a value or an error; a negative or oversized rule length is rejected before
anything is allocated; the loops are over within `len(input)+1` passes -/
theorem source_list_readers_total (inp : Wire.Bytes) (out : List Go.Out) :
    Gen.Pure.recvIdLoop inp out ≠ .panic ∧ Gen.Pure.recvFilterLoop inp out ≠ .panic :=
  ⟨PeerInput.recvIdLoop_no_panic inp out, PeerInput.recvFilterLoop_no_panic inp out⟩

/-- **`MultiplexReader.ReadMsg` as the source has it** returns a frame or an error for every input,
never panics; a declared length above `maxMessageSize` is an error before anything is allocated -/
theorem source_read_msg_total (inp : Wire.Bytes) : Gen.Pure.ReadMsg inp ≠ .panic :=
  PeerInput.readMsg_no_panic inp

/-- **No file-list input makes the source's entry decoder panic** (`receiveFileEntry`, translated): a negative
or oversized name or link length is an error before `make`, the inherited-prefix `copy`/`b[l1:]` stay in range, a
short input is an error — for every flag byte, previous entry, option set and byte string -/
theorem source_entry_decoder_no_panic (o : Flist.Opts) (flags : UInt8) (last : Flist.Entry) (inp : Wire.Bytes) :
    Gen.Pure.receiveFileEntry flags.toUInt16 inp last.name last.mtime last.mode last.uid last.gid last.rdev
        o.uid o.gid o.links o.devices o.specials o.checksum [] 0 0 0 0 0 0 [] [] ≠ .panic :=
  FlistTie.receiveFileEntry_no_panic o flags last inp

/-- and the list loop around it (`ReceiveFileList`) ends — with the list or an error — within `len(input)+1`
iterations on every input -/
theorem source_list_loop_no_panic (o : Flist.Opts) (inp : Wire.Bytes) :
    Gen.Pure.recvListLoop inp [] [] 0 0 0 0 0 o.uid o.gid o.links o.devices o.specials o.checksum ≠ .panic :=
  FlistTie.recvListLoop_no_panic o inp

end C08
