import RsyncModel.GeneratorThm
import RsyncModel.FsSitesSpec
import RsyncModel.Daemon
/-! # C10 — a dry run changes nothing (receiver side: generator, receive tail, directory touch-up)

The file-system call sites behind these model functions are pinned by the regenerated `FsSites`
facts (see the `dryrun_sites_guarded` theorem added with the FsSites table). -/
namespace C10
open Rx

/-- **The generator does not touch the destination entry under `-n`**, whatever the entry type,
the destination state and the other options, and it never sends a checksum header (a data request):
at most the bare index. -/
theorem generator_dry_run (o : Opts) (e : Entry) (d : Option Node) (h : o.dryRun = true) :
    (genStep o e d).node = d ∧ ((genStep o e d).req = .none ∨ (genStep o e d).req = .indexOnly) ∧
      (genStep o e d).retouch = false := by
  unfold genStep
  cases hk : e.kind <;> simp only [h, if_true]
  all_goals (try (simp; done))
  all_goals
    (repeat' split) <;> simp_all [setPerms_dry]

/-- the receive tail (rename + metadata) is skipped entirely -/
theorem receive_tail_dry_run (o : Opts) (e : Entry) (d : Option Node) (size : Int) (sum : Bytes)
    (h : o.dryRun = true) : recvFinish o e d size sum = d := by
  simp [recvFinish, h]

/-- `setPerms` and the directory touch-up are no-ops -/
theorem set_perms_dry_run (o : Opts) (e : Entry) (k : Kind) (p : Nat) (n : Node) (h : o.dryRun = true) :
    setPerms o e k p n = n := setPerms_dry o e k p n h

theorem touch_up_dry_run (o : Opts) (e : Entry) (n : Node) (h : o.dryRun = true) : touchUp o e n = n := by
  unfold touchUp; split
  · rfl
  · simp [h]

/-- **Regenerated fact** (every mutating file-system call site of internal/receiver, from the current
source): each one is dominated by an `if rt.Opts.DryRun { return … }` in its own function, or lies
in a function that cannot be called from outside the package and is only called from positions that
are (transitively) so dominated; and nothing inside a dry-run branch mutates. A guard that is
removed, moved below a mutation, or a new unguarded mutation breaks this `decide`. -/
theorem dryrun_sites_guarded : FsSitesSpec.drySafe = true ∧ FsSitesSpec.dryBranchPure = true :=
  FsSitesSpec.dry_sites_guarded

/-- non-vacuity: without `-n` the same step does change the destination (so the theorem is not
true merely because the model never changes anything) -/
example : ∃ o e, o.dryRun = false ∧ (genStep o e none).node ≠ none :=
  ⟨⟨false, true, false, false, false, false, false, false, false, false, false, false, 0o22, 0, 0⟩,
   ⟨.lnk, 0o777, 0, 0, 0, 0, [116], 0, []⟩, rfl, by decide⟩

/-- **D40, kernel-checked witness: the theorems above are about the generator and the receiver; the daemon's
*handler* creates the requested subdirectory before anybody looks at `--dry-run`.** For the argument lines of a dry-run
upload into `rw/new/sub/` the handler model's events contain the `MkdirAll` of that subdirectory (the same request
against the implementation is a case of the daemon suite and a known finding). So "a dry run changes nothing" is proved
partially: for everything the transfer does once the destination root is open. -/
theorem dry_run_upload_creates_subdirectory_witness :
    (match Daemon.handle [⟨"rw".toList, true, false, true⟩] "@RSYNCD: 27".toList "rw".toList
        ["--server".toList, "-nlogDtpr".toList, ".".toList, "rw/new/sub".toList, []] with
     | .receiver m (some s) => (Daemon.events (.receiver m (some s))).any (fun e => e == Daemon.FsEvent.mkdirAllSubdirInRoot s)
     | _ => false) = true := by decide +kernel

end C10
