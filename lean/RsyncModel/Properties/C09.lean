import RsyncModel.PureTie
import RsyncModel.DeleteThm
/-! # C09 — `--delete` removes exactly the extraneous entries and nothing else

The destination is the flat pre-order listing `fs.WalkDir` visits (Walk.lean); `listed` is the
binary search over the sender's name-sorted list. Protection of entries by the user's exclude rules
(D9) and forwarding of `--delete` to a receiving daemon (D10) are known findings, see DESIGN.md. -/
namespace C09
open Walk Delete

/-- **Nothing that is in the sender's list is ever removed, and nothing outside the listing**: every
removed root is an entry of the destination that the list does not name. -/
theorem removed_only_unlisted (listed : Path → Bool) (l : List Ent) :
    ∀ p ∈ delWalk listed l, listed p = false ∧ ∃ e ∈ l, e.path = p := delWalk_sound listed l

/-- **Every extraneous entry goes, at any depth and however many there are**: an unlisted entry all
of whose ancestors are listed is removed (with its subtree). -/
theorem extraneous_removed (listed : Path → Bool) (l : List Ent) :
    ∀ e ∈ l, listed e.path = false → (∀ x ∈ l, under x.path e.path = true → listed x.path = true) →
      e.path ∈ delWalk listed l := delWalk_complete listed l

/-- nothing below a removed directory is visited again -/
theorem no_nested_removal (listed : Path → Bool) (l : List Ent) (hpo : PreOrder l) :
    ∀ p ∈ delWalk listed l, ∀ q ∈ delWalk listed l, under q p = false := delWalk_no_nested listed l hpo

/-- **Exactly**: an entry survives iff it and every directory above it is named in the list. -/
theorem survives_exactly (listed : Path → Bool) (l : List Ent)
    (hne : ∀ e ∈ l, e.path ≠ [])
    (hanc : ∀ e ∈ l, ∀ q, under q e.path = true → q ≠ [] → ∃ e' ∈ l, e'.path = q)
    (e : Ent) (he : e ∈ l) :
    ¬ gone (delWalk listed l) e.path ↔
      ∀ q, (q = e.path ∨ under q e.path = true) → q ≠ [] → listed q = true :=
  survives_iff listed l hne hanc e he

/-- **Nothing at all is removed** when the sender reported read errors, in a dry run, or when the
list has no top-level `.` entry. -/
theorem delete_nothing (ioErrors : Nat) (dryRun : Bool) (names : List Str) (tree : List Ent)
    (h : ioErrors > 0 ∨ dryRun = true ∨ names.contains [46] = false) :
    deleteFiles ioErrors dryRun names tree = [] ∧ ∀ rules, (deleteFilesV ioErrors dryRun names rules tree).1 = [] := by
  unfold deleteFiles deleteFilesV
  rcases h with h | h | h
  · simp [h]
  · simp only [h, if_true]
    refine ⟨by split <;> (try split) <;> rfl, fun _ => by split <;> (try split) <;> rfl⟩
  · simp only [h, Bool.not_false, if_true]
    refine ⟨by split <;> rfl, fun _ => by split <;> rfl⟩

/-- **What the walk removes is never listed and never protected — as far as the removal *roots* go.** The full
statement the property text suggests ("nothing the rules protect disappears") is **false of this code** (finding D38,
see the witness below): a removal root is removed with its whole subtree (`RemoveAll`), whatever the rules say about
entries inside it. Proved here: every *root* of a removal is unlisted and unprotected; without rules the protected walk
is the plain one. -/
theorem protected_roots_never_removed_partial (listed : Path → Bool) (protect : Path → Bool → Bool) (l : List Ent) :
    ∀ p ∈ delWalkP listed protect l, listed p = false ∧ ∃ e ∈ l, e.path = p ∧ protect p e.isDir = false :=
  delWalkP_sound listed protect l

/-- **D38, kernel-checked witness**: a destination with the extraneous directory `o` holding `o/k`, rules that protect
`k`: the walk removes `o` (hence `o/k` with it) although `k` is protected. The same tree on the implementation is the
`protected-below-extraneous` fixture of the session suite (a known finding). -/
theorem protected_entry_below_removed_root :
    let o : Path := [[111]]
    let k : Path := [[111], [107]]
    let protect : Path → Bool → Bool := fun p _ => p.getLast? == some [107]
    o ∈ delWalkP (fun _ => false) protect [⟨o, true⟩, ⟨k, false⟩] ∧ under o k = true ∧ protect k false = true := by
  intro o k protect
  refine ⟨?_, by decide, by decide⟩
  rw [delWalkP]
  simp [protect, o]

theorem no_rules_plain_walk (listed : Path → Bool) (l : List Ent) :
    delWalkP listed (fun _ _ => false) l = delWalk listed l := delWalkP_noRules listed l

/-- the walk the code really performs (with `io/fs.ValidPath`'s UTF-8 restriction on directories it
descends into) is the ideal walk whenever every directory name is valid UTF-8 -/
theorem real_walk_is_ideal (listed : Path → Bool) (l : List Ent)
    (h : ∀ e ∈ l, e.isDir = true → Utf8.valid (joined e.path) = true) :
    delWalkV listed l = (delWalk listed l, false) := delWalkV_eq listed l h

/-- **`findInFileList` is a correct bisection**: for a predicate monotone over the index range (which
`names[i] ≥ name` is on a name-sorted list) `sort.Search` returns the boundary. -/
theorem bisection_correct (f : Nat → Bool) (n : Nat)
    (hmono : ∀ i j, 0 ≤ i → i ≤ j → j < n → f i = true → f j = true) :
    search f 0 n ≤ n ∧ (∀ i, i < search f 0 n → f i = false) ∧ (∀ i, search f 0 n ≤ i → i < n → f i = true) := by
  obtain ⟨_, b, c, d⟩ := search_spec f n 0 n (by omega) (by omega) hmono
  exact ⟨b, fun i hi => c i (by omega) hi, d⟩

/-- D8 (fixed in /repo): the pinned tree returned `fs.SkipDir` for a removed *file*, which skipped its
remaining siblings — kernel-checked on two extraneous files. -/
theorem D8_counterexample :
    delWalk (fun _ => false) twoFiles = [[[97]], [[98]]] ∧ delWalkD8 (fun _ => false) twoFiles = [[[97]]] := by
  constructor <;> simp [twoFiles, delWalk, delWalkD8, under]

/-- D26 (known finding): a kept directory whose name is not valid UTF-8 aborts the real walk before the
extraneous entry after it is reached. -/
theorem D26_counterexample :
    delWalkV (fun p => p == [[0xff]]) [⟨[[0xff]], true⟩, ⟨[[0xff], [97]], false⟩, ⟨[[122]], false⟩] = ([], true) ∧
    delWalk (fun p => p == [[0xff]]) [⟨[[0xff]], true⟩, ⟨[[0xff], [97]], false⟩, ⟨[[122]], false⟩] = [[[0xff], [97]], [[122]]] := by
  constructor
  · simp [delWalkV, under, joined, Utf8.valid]
  · simp [delWalk, under]


/-! ### Tie to the source (regenerated translation `Gen.Pure`) -/

/-- the guard at the top of `deleteFiles`, translated from /repo on every run: deletion is skipped
exactly when the I/O error flag the sender reported is positive — *any* positive value, not one bit
of it (with `delete_nothing`: then nothing is removed) -/
theorem source_io_error_guard (v : Int32) : Gen.Pure.deleteGuard v false = decide (0 < v.toInt) :=
  PureTie.deleteGuard_tied v

end C09
