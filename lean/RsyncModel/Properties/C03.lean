import RsyncModel.PureTie
import RsyncModel.RoundTripHonest
import RsyncModel.RecvOrderSpec
/-! # C03 — only data that passes the whole-file checksum ever replaces a destination file

`recvData` is the receiver's `receiveData` as a function of the *raw byte stream* — any bytes, not
only well-formed streams — so "every single-bit flip, substituted reference, reordered / duplicated /
truncated literal run, changed basis" are all inside the universal quantifier over `stream` and
`basis`. -/
namespace C03
open Recv Delta
abbrev Bytes := List UInt8

/-- **A commit implies the checksum comparison succeeded**: whatever the stream and the basis, if
the file is committed with content `c` then the 16 bytes that follow the token stream equal
`Hfile c` (the whole-file hash of what was reconstructed). -/
theorem commit_implies_hash (Hfile : Bytes → Bytes) (basis : Option Bytes) (stream c rest : Bytes)
    (h : recvData Hfile basis stream = (.committed c, rest)) :
    ∃ hd r r', readHead stream = .ok (hd, r) ∧ recvTokens hd basis r [] = .ok (c, r') ∧
      16 ≤ r'.length ∧ Hfile c = r'.take 16 ∧ rest = r'.drop 16 := by
  unfold recvData at h
  split at h
  · simp at h
  · next hd r hh =>
    split at h
    · simp at h
    · next content r' ht =>
      split at h
      · simp at h
      · next hlen =>
        split at h
        · next heq =>
          simp only [Prod.mk.injEq, Outcome.committed.injEq] at h
          obtain ⟨h1, h2⟩ := h
          subst h1
          exact ⟨hd, r, r', hh, ht, by omega, by simpa using heq, h2.symm⟩
        · simp at h

/-- **A damaged stream is never reported as a successful transfer of different content**: if the
trailer the receiver compares against is the sender's `Hfile t`, anything that is committed has the
same whole-file hash as `t`; when `Hfile` does not collide on the two contents (second-preimage
resistance, the one cryptographic hypothesis), the committed content *is* `t`. -/
theorem damaged_stream_detected (Hfile : Bytes → Bytes) (basis : Option Bytes) (stream c rest t : Bytes)
    (h : recvData Hfile basis stream = (.committed c, rest))
    (htrailer : ∀ hd r r', readHead stream = .ok (hd, r) → recvTokens hd basis r [] = .ok (c, r') →
      r'.take 16 = Hfile t)
    (hinj : Hfile c = Hfile t → c = t) : c = t := by
  obtain ⟨hd, r, r', h1, h2, _, h4, _⟩ := commit_implies_hash Hfile basis stream c rest h
  exact hinj (by rw [h4, htrailer hd r r' h1 h2])

/-- every outcome is either a commit (then `commit_implies_hash` applies) or an error return, and an
error return carries no content: there is no third way for data to reach the destination -/
theorem outcome_cases (Hfile : Bytes → Bytes) (basis : Option Bytes) (stream : Bytes) :
    (∃ c rest, recvData Hfile basis stream = (.committed c, rest)) ∨
    (∃ e rest, recvData Hfile basis stream = (.failed e, rest)) := by
  cases h : recvData Hfile basis stream with
  | mk o rest => cases o with
    | committed c => exact Or.inl ⟨c, rest, rfl⟩
    | failed e => exact Or.inr ⟨e, rest, rfl⟩

/-- a wrong trailer is refused, whatever else the stream contains -/
theorem wrong_trailer_refused (Hfile : Bytes → Bytes) (basis : Option Bytes) (stream : Bytes)
    (hd : Head) (r c r' : Bytes)
    (h1 : readHead stream = .ok (hd, r)) (h2 : recvTokens hd basis r [] = .ok (c, r'))
    (hlen : 16 ≤ r'.length) (hbad : Hfile c ≠ r'.take 16) :
    (recvData Hfile basis stream).1 = .failed .hash := by
  unfold recvData
  rw [h1]; simp only; rw [h2]; simp only
  have : ¬ r'.length < 16 := by omega
  simp [this, hbad]

/-- **Regenerated fact**: in the current source of `receiveData` the single `CloseAtomicallyReplace`
comes after `if !bytes.Equal(localSum, remoteSum) { return err }`, where `localSum` is the `Sum` of
the hash that sits in a `MultiWriter` with the pending file (every written byte is hashed) and
`remoteSum` is read from the connection; nothing else writes to the pending file or the destination.
This is the code shape `Recv.recvData` models; deleting the comparison, comparing a buffer with
itself, or committing before the comparison changes the regenerated list and breaks this theorem. -/
theorem commit_guarded_in_source : RecvOrderSpec.wellOrdered Gen.RecvOrder.events = true := by decide

/-- non-vacuity: the honest stream *is* committed (C02 round trip), so the theorems above are not
about an empty set of commits -/
theorem honest_stream_commits (Hs Hfile : Bytes → Bytes) (blm1 cs : Nat) (basis t rest : Bytes)
    (hcs : cs ≤ maxCsLen) (hbl : blm1 + 1 ≤ maxBlockLen)
    (hcount : (honestHead blm1 cs basis).count < 2147483648)
    (hfile16 : (Hfile t).length = 16)
    (nocoll : ∀ (i : Nat) (p w : Bytes), (splitBlocks blm1 basis)[i]? = some p → p.length = w.length →
      (Hs p).take cs = (Hs w).take cs → p = w) :
    recvData Hfile (some basis)
        (encHead (honestHead blm1 cs basis) ++
          (encToks (senderTokens Hs (honestHead blm1 cs basis) (honestSums Hs blm1 basis) t) ++ (Hfile t ++ rest)))
      = (.committed t, rest) :=
  roundtrip_honest Hs Hfile blm1 cs basis t rest hcs hbl hcount hfile16 nocoll


/-! ### Tie to the source (regenerated translation `Gen.Pure`) -/

/-- **the sender hashes exactly the bytes it describes, in file order**: one call of `matched`
(match.go, translated from /repo on every run) feeds the whole-file hash with the span that starts at
the old `lastMatch` and sets `lastMatch` to that span's end — so consecutive calls cover consecutive,
non-overlapping spans; a block reference extends the span by the block's length, the flush
pseudo-tokens by nothing. -/
theorem source_hash_spans_contiguous (offset lastMatch sumLen : Int) (i : Int32) :
    ∃ n lm', Gen.Pure.matchedSpan offset i lastMatch sumLen = .ok (n, lm') ∧ lm' = lastMatch + n ∧
      n = offset - lastMatch + (if i.toInt < 0 then 0 else sumLen) := by
  refine ⟨_, _, PureTie.matchedSpan_tied offset lastMatch sumLen i, ?_, rfl⟩
  omega

end C03
