import RsyncModel.PureTie
import RsyncModel.GeneratorThm
/-! # C12 — files are re-sent exactly when the update rule says so; repeat syncs are no-ops -/
namespace C12
open Rx

/-- the update rule of the property statement, for an entry that is a regular file -/
def mustRequest (o : Opts) (e : Entry) (d : Option Node) : Prop :=
  match d with
  | none => True                                        -- missing
  | some n =>
    n.kind ≠ .reg ∨                                     -- not a regular file
    n.size ≠ e.size ∨                                   -- size differs
    (o.checksum = true ∧ e.sum ≠ n.sum) ∨               -- -c: content checksum differs
    (o.checksum = false ∧ o.ignoreTimes = true) ∨       -- -I (and no -c): always
    (o.checksum = false ∧ o.ignoreTimes = false ∧ n.mtime ≠ e.mtime)  -- default: mtime differs (1 s granularity)

/-- **The receiver requests a regular file iff the update rule says so** — for every option set
(dry run included: then the request is the bare index), every destination state. The one way the
step can fail instead (a non-empty directory in the way cannot be unlinked) is an error, not a
silent skip. -/
theorem request_iff (o : Opts) (e : Entry) (d : Option Node) (he : e.kind = .reg)
    (hok : (genStep o e d).res = .ok) :
    (genStep o e d).req ≠ .none ↔ mustRequest o e d := by
  unfold genStep mustRequest at *
  simp only [he] at *
  have hl : (o.links && (Kind.reg == Kind.lnk)) = false := by simp
  have hd : ((o.devices && isDevKind Kind.reg) || (o.specials && isSpecialKind Kind.reg)) = false := by
    simp [isDevKind, isSpecialKind]
  simp only [hl, hd, Bool.false_eq_true, if_false] at *
  cases d with
  | none => cases o.dryRun <;> simp
  | some n =>
    simp only
    by_cases hk : n.kind = .reg
    · simp only [hk, bne_self_eq_false, Bool.false_eq_true, if_false, ne_eq, not_true_eq_false, false_or]
      unfold skipFile
      by_cases hs : n.size = e.size
      · simp only [hs, bne_self_eq_false, Bool.false_eq_true, if_false, not_true_eq_false, false_or]
        cases hc : o.checksum
        · cases hi : o.ignoreTimes
          · by_cases hm : n.mtime = e.mtime
            · simp [hm]
            · cases o.dryRun <;> simp [hm]
          · cases o.dryRun <;> simp
        · by_cases hsum : e.sum = n.sum
          · simp [hsum]
          · cases o.dryRun <;> simp [hsum]
      · cases o.dryRun <;> simp [hs]
    · have hk' : (n.kind != Kind.reg) = true := by simpa using hk
      simp only [hk', if_true] at hok ⊢
      cases hdry : o.dryRun
      · simp only [hdry, Bool.false_eq_true, if_false] at hok ⊢
        by_cases hne : (n.kind == Kind.dir && n.nonEmpty) = true
        · simp [hne] at hok
        · simp [hne, hk]
      · simp [hk]

/-- **An immediately repeated sync requests nothing**: after a file was received under `-t` (or
compared by `-c`), the same entry is up to date on the next run. -/
theorem repeat_noop (o : Opts) (e : Entry) (d : Option Node) (he : e.kind = .reg)
    (hdry : o.dryRun = false) (hrule : (o.checksum = true) ∨ (o.times = true ∧ o.ignoreTimes = false)) :
    (genStep o e (recvFinish o e d e.size e.sum)).req = .none := by
  have hfin : ∃ n, recvFinish o e d e.size e.sum = some n ∧ n.kind = .reg ∧ n.size = e.size ∧ n.sum = e.sum ∧
      (o.times = true → n.mtime = e.mtime) := by
    unfold recvFinish
    simp only [hdry, Bool.false_eq_true, if_false]
    refine ⟨_, rfl, ?_, ?_, ?_, ?_⟩
    · rw [setPerms_kind]; rfl
    · rw [setPerms_size]
    · rw [setPerms_sum]
    · intro ht; exact setPerms_mtime o e .reg _ _ hdry ht (by decide)
  obtain ⟨n, hn, hk, hs, hsum, hm⟩ := hfin
  rw [hn]
  unfold genStep
  simp only [he]
  have hl : (o.links && (Kind.reg == Kind.lnk)) = false := by simp
  have hd : ((o.devices && isDevKind Kind.reg) || (o.specials && isSpecialKind Kind.reg)) = false := by
    simp [isDevKind, isSpecialKind]
  simp only [hl, hd, Bool.false_eq_true, if_false, hk, bne_self_eq_false]
  have hskip : skipFile o e n = true := by
    unfold skipFile
    simp only [hs, bne_self_eq_false, Bool.false_eq_true, if_false]
    rcases hrule with hc | ⟨ht, hi⟩
    · simp [hc, hsum]
    · cases hc : o.checksum
      · simp [hi, hm ht]
      · simp [hsum]
  simp [hskip]

/-- **Any change of size or (by default) of mtime is picked up.** -/
theorem change_detected (o : Opts) (e : Entry) (n : Node) (he : e.kind = .reg) (hk : n.kind = .reg)
    (hc : o.checksum = false) (hchg : n.size ≠ e.size ∨ n.mtime ≠ e.mtime) :
    (genStep o e (some n)).req ≠ .none := by
  have hok : (genStep o e (some n)).res = .ok := by
    unfold genStep; simp only [he]
    have hl : (o.links && (Kind.reg == Kind.lnk)) = false := by simp
    have hd : ((o.devices && isDevKind Kind.reg) || (o.specials && isSpecialKind Kind.reg)) = false := by
      simp [isDevKind, isSpecialKind]
    simp only [hl, hd, Bool.false_eq_true, if_false, hk, bne_self_eq_false]
    split <;> (try split) <;> rfl
  rw [request_iff o e (some n) he hok]
  unfold mustRequest
  rcases hchg with h | h
  · exact Or.inr (Or.inl h)
  · cases hi : o.ignoreTimes
    · exact Or.inr (Or.inr (Or.inr (Or.inr ⟨hc, rfl, h⟩)))
    · exact Or.inr (Or.inr (Or.inr (Or.inl ⟨hc, rfl⟩)))

/-- **Any content change is picked up under `-c`** (through the checksum in the file list). -/
theorem content_change_detected (o : Opts) (e : Entry) (n : Node) (he : e.kind = .reg) (hk : n.kind = .reg)
    (hc : o.checksum = true) (hsum : e.sum ≠ n.sum) : (genStep o e (some n)).req ≠ .none := by
  have hok : (genStep o e (some n)).res = .ok := by
    unfold genStep; simp only [he]
    have hl : (o.links && (Kind.reg == Kind.lnk)) = false := by simp
    have hd : ((o.devices && isDevKind Kind.reg) || (o.specials && isSpecialKind Kind.reg)) = false := by
      simp [isDevKind, isSpecialKind]
    simp only [hl, hd, Bool.false_eq_true, if_false, hk, bne_self_eq_false]
    split <;> (try split) <;> rfl
  rw [request_iff o e (some n) he hok]
  exact Or.inr (Or.inr (Or.inl ⟨hc, hsum⟩))


/-! ### Tie to the source (regenerated translation `Gen.Pure`, see `tools/extract/pure.go`) -/

/-- **`skipFile` as the source has it is the update rule the theorems above are about**: the function
body of `generator.go:skipFile` (with `modTimeEqual`), translated from /repo on every run with its
inputs as parameters, returns the model's `skipFile` for every option set, list entry and destination
node — size first, then the content checksum under `-c`, then `-I`, then the modification time at
one-second granularity (whatever the sub-second parts). -/
theorem source_update_rule (o : Opts) (e : Entry) (n : Node) (dsum : Bytes) (a b : Int)
    (ha : 0 ≤ a ∧ a < 1000000000) (hb : 0 ≤ b ∧ b < 1000000000) :
    Gen.Pure.skipFile n.size e.size o.checksum o.ignoreTimes (e.sum == n.sum) dsum
        (n.mtime * 1000000000 + a) (e.mtime * 1000000000 + b) = .ok (skipFile o e n) :=
  PureTie.skipFile_tied o e n dsum a b ha hb

end C12
