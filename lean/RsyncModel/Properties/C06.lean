import RsyncModel.Properties.C05
import RsyncModel.Daemon
/-! # C06 — a daemon discloses only what lies inside the requested module

(1) Every file-system access of the sending code goes through the `FileSource` (the module's
`*os.Root` or the configured `fs.FS`) and none mutates — regenerated table. (2) The contract of the
root (C05's `root_confined`, validated by the `rootfs` suite) confines every `Open`, `Readlink` and
every step of the walk, whatever symbolic links the module contains. (3) The name the walk starts
from — the request after module-prefix trimming, `"."`-prefixing of absolute paths and
`filepath.Clean` — is never rooted, and is either a valid `io/fs` path (no `..` element) or begins
with `..`, which `io/fs` refuses before anything is opened: traversal attempts give an empty listing
(with the I/O-error flag) or an error. -/
namespace C06
open PathClean

def dd : Str := [dot, dot]
def Normal (c : Str) : Prop := c ≠ [] ∧ c ≠ [dot] ∧ c ≠ dd

/-- the stack of kept components: normal ones on top of leading `..`s -/
def StackOk (out : List Str) : Prop := ∃ ns us, out = ns ++ us ∧ (∀ c ∈ ns, Normal c) ∧ (∀ c ∈ us, c = dd)

theorem cleanComps_shape (cs : List Str) (out : List Str) (h : StackOk out) :
    ∃ us ns, cleanComps false cs out = us ++ ns ∧ (∀ c ∈ us, c = dd) ∧ (∀ c ∈ ns, Normal c) := by
  induction cs generalizing out with
  | nil =>
    obtain ⟨ns, us, rfl, hn, hu⟩ := h
    refine ⟨us.reverse, ns.reverse, by simp [cleanComps], ?_, ?_⟩
    · intro c hc; exact hu c (by simpa using hc)
    · intro c hc; exact hn c (by simpa using hc)
  | cons c rest ih =>
    simp only [cleanComps]
    by_cases h1 : (c == [] || c == [dot]) = true
    · rw [if_pos h1]; exact ih out h
    · rw [if_neg h1]
      have hc1 : c ≠ [] ∧ c ≠ [dot] := by
        simp only [Bool.or_eq_true, beq_iff_eq, not_or] at h1; exact h1
      by_cases h2 : (c == [dot, dot]) = true
      · rw [if_pos h2]
        have hcd : c = dd := by simpa [dd] using h2
        obtain ⟨ns, us, rfl, hn, hu⟩ := h
        cases ns with
        | nil =>
          cases us with
          | nil => simp only [List.append_nil]; exact ih [c] ⟨[], [c], rfl, by simp, by simp [hcd]⟩
          | cons u us' =>
            have hud : u = dd := hu u (by simp)
            have : (u == [dot, dot]) = true := by simp [hud, dd]
            simp only [List.nil_append, this, if_true]
            exact ih (c :: u :: us') ⟨[], c :: u :: us', rfl, by simp, by
              intro x hx
              rcases List.mem_cons.mp hx with rfl | hx
              · exact hcd
              · exact hu x hx⟩
        | cons n ns' =>
          have hnn : Normal n := hn n (by simp)
          have : (n == [dot, dot]) = false := by
            have := hnn.2.2; simp [dd] at this; simp [this]
          simp only [List.cons_append, this, Bool.false_eq_true, if_false]
          exact ih (ns' ++ us) ⟨ns', us, rfl, fun x hx => hn x (by simp [hx]), hu⟩
      · rw [if_neg h2]
        have hcn : Normal c := ⟨hc1.1, hc1.2, by simpa [dd] using h2⟩
        obtain ⟨ns, us, rfl, hn, hu⟩ := h
        exact ih (c :: (ns ++ us)) ⟨c :: ns, us, rfl, by
          intro x hx
          rcases List.mem_cons.mp hx with rfl | hx
          · exact hcn
          · exact hn x hx, hu⟩

/-- the name `fs.WalkDir` is started with (sender/flist.go `walk`) -/
def walkName (requested : Str) : Str :=
  clean (if requested.head? == some slash then dot :: requested else requested)

/-- the components of the walk root: `..` elements can only lead -/
theorem walk_root_components (s : Str) :
    ∃ us ns, cleanComps false (splitSlash s) [] = us ++ ns ∧ (∀ c ∈ us, c = dd) ∧ (∀ c ∈ ns, Normal c) :=
  cleanComps_shape (splitSlash s) [] ⟨[], [], rfl, by simp, by simp⟩

/-- what is handed to `filepath.Clean`: never an absolute path, whatever the client requests -/
def walkArg (requested : Str) : Str := if requested.head? == some slash then dot :: requested else requested

theorem walkArg_relative (requested : Str) : (walkArg requested).head? ≠ some slash := by
  unfold walkArg
  by_cases h : (requested.head? == some slash) = true
  · rw [if_pos h]; simp [dot, slash]
  · rw [if_neg h]
    intro e; simp [e] at h

/-- **the walk root is the relative join of its cleaned components** (the rooted branch of `Clean`
is never taken), and by `walk_root_components` those are some `..` followed by ordinary names:
either a valid `io/fs` path below the module root, or a path beginning with `..`, which `io/fs`
(`fs.ValidPath`, checked by `os.Root.FS().Open`) refuses before anything is opened -/
theorem walk_root_relative (requested : Str) :
    walkName requested =
      (let comps := cleanComps false (splitSlash (walkArg requested)) []
       if walkArg requested == [] then [dot] else if joinSlash comps == [] then [dot] else joinSlash comps) := by
  have hrel := walkArg_relative requested
  have hr : ((walkArg requested).head? == some slash) = false := by
    cases h : (walkArg requested).head? with
    | none => simp
    | some b =>
      rw [h] at hrel
      simp only [ne_eq, Option.some.injEq] at hrel
      simp [hrel]
  show clean (walkArg requested) = _
  unfold clean
  simp only [hr, Bool.false_eq_true, if_false]

/-- every access of the sending code goes through the file source and none mutates (regenerated
table); the only raw path is the module directory the root is opened on; the walk root is cleaned -/
theorem sender_sites_confined :
    FsSitesSpec.senderConfined = true ∧ FsSitesSpec.rawArgsPinned = true ∧ FsSitesSpec.rootNamesClean = true :=
  ⟨FsSitesSpec.sender_sites_confined, FsSitesSpec.raw_args_pinned, FsSitesSpec.root_names_clean⟩

/-- every `Open`/`Readlink`/walk step through the module's root is confined to the module (C05) -/
theorem module_root_confined (fs : RootFs.FS) (root : RootFs.Loc) (follow : Bool) (name : List UInt8) (loc : RootFs.Loc)
    (h : RootFs.openName fs root follow name = .res (.ok loc)) : root <+: loc :=
  C05.root_confined fs root follow name loc h

/-- non-vacuity: `m/../outside` → the walk root begins with `..`; `m/sub//x/.` → `sub/x` -/
example : cleanComps false (splitSlash (walkArg [46, 46, 47, 111])) [] = [dd, [111]] := by decide
example : walkName [47, 115, 47, 47, 120, 47, 46] = [115, 47, 120] := by decide
example : walkName [47, 46, 46, 47, 101, 116, 99] = [46, 46, 47, 101, 116, 99] := by decide

end C06
