import RsyncModel.Properties.C02
import RsyncModel.Properties.C04
import RsyncModel.Properties.C12
import RsyncModel.Properties.C14
import RsyncModel.Properties.C15
import RsyncModel.Session
import RsyncModel.SendFile
/-! # C01 — a successful sync leaves destination files byte-identical to the source

Composition, per file, of the stages proved separately: the update rule decides whether the file is
requested (C12); if it is, the generator's signature of the old content, the sender's delta against
it, the wire encoding and the receiver's reconstruction and whole-file check commit exactly the
source's bytes (C02, C03), which are put in place whole (C04); both ends number the files identically
(C15) and read the list with the same options (C14). The end-to-end runs in four arrangements are the
`session`, `trace` and `gated` suites. -/
namespace C01
open Recv Delta Atomic
abbrev Bytes := List UInt8

/-- literal chunks only: what the whole-file path (`sendFile`, taken when the receiver has no basis
and sends an empty checksum header) puts on the wire -/
theorem recvTokens_literals (hd : Head) (cs : List Bytes) (rest acc : Bytes)
    (hok : ∀ c ∈ cs, 0 < c.length ∧ c.length < 2147483648) :
    recvTokens hd none (encToks (cs.map Spec.ATok.lits) ++ rest) acc = .ok (acc ++ cs.flatten, rest) := by
  induction cs generalizing acc with
  | nil =>
    simp only [List.map_nil, encToks, List.flatMap_nil, List.nil_append, List.flatten_nil, List.append_nil]
    rw [recvTokens_step]
    have : (i32 0 == 0) = true := by rw [i32_zero]; exact beq_self_eq_true _
    simp [this]
  | cons bs rest' ih =>
    obtain ⟨h0, h1⟩ := hok bs (by simp)
    have e : encToks ((bs :: rest').map Spec.ATok.lits) ++ rest = Wire.encI32 (i32 bs.length) ++ (bs ++ (encToks (rest'.map Spec.ATok.lits) ++ rest)) := by
      simp [encToks, encTok, List.append_assoc]
    have hv := i32_toInt (bs.length : Int) (by omega) (by omega)
    rw [e, recvTokens_step]
    have hne : (i32 (bs.length : Int) == 0) = false := by
      simp only [beq_eq_false_iff_ne, ne_eq]
      intro hc; have := congrArg Int32.toInt hc; rw [hv] at this
      have h00 : (0 : Int32).toInt = 0 := Int32.toInt_zero
      rw [h00] at this; omega
    have hpos : i32 (bs.length : Int) > 0 := by
      rw [gt_iff_lt, Int32.lt_iff_toInt_lt, hv]
      have h00 : (0 : Int32).toInt = 0 := Int32.toInt_zero
      rw [h00]; omega
    simp only [hne, hpos, if_true, Bool.false_eq_true, if_false, hv, Int.toNat_natCast]
    have hl : ¬ (bs ++ (encToks (rest'.map Spec.ATok.lits) ++ rest)).length < bs.length := by simp
    simp only [hl, if_false]
    rw [List.drop_left, List.take_left]
    rw [ih (acc ++ bs) (fun c hc => hok c (by simp [hc]))]
    simp

/-- **a new file (nothing at the destination) arrives byte-identical**: the receiver has no basis and
sent the empty checksum header; whatever non-empty chunks the sender cuts the file into, the receiver
commits exactly their concatenation, provided the trailer is the whole-file hash of it -/
theorem new_file_delivered (Hfile : Bytes → Bytes) (chunks : List Bytes) (rest : Bytes)
    (hok : ∀ c ∈ chunks, 0 < c.length ∧ c.length < 2147483648) (h16 : (Hfile chunks.flatten).length = 16) :
    recvData Hfile none (encHead ⟨0, 0, 0, 0⟩ ++ (encToks (chunks.map Spec.ATok.lits) ++ (Hfile chunks.flatten ++ rest)))
      = (.committed chunks.flatten, rest) := by
  have hh : readHead (encHead ⟨0, 0, 0, 0⟩ ++ (encToks (chunks.map Spec.ATok.lits) ++ (Hfile chunks.flatten ++ rest)))
      = .ok (⟨0, 0, 0, 0⟩, encToks (chunks.map Spec.ATok.lits) ++ (Hfile chunks.flatten ++ rest)) :=
    readHead_encHead _ _ ⟨by decide, by decide, by decide, by decide, by decide⟩
  unfold recvData
  rw [hh]
  simp only []
  rw [recvTokens_literals _ chunks _ [] hok]
  simp only [List.nil_append]
  have hlen : ¬ (Hfile chunks.flatten ++ rest).length < 16 := by simp [h16]
  simp only [hlen, if_false]
  have ht : (Hfile chunks.flatten ++ rest).take 16 = Hfile chunks.flatten := by
    rw [← h16]; exact List.take_left
  have hd : (Hfile chunks.flatten ++ rest).drop 16 = rest := by
    rw [← h16]; exact List.drop_left
  simp [ht, hd]

/-- **an existing file that the update rule sends again arrives byte-identical, whatever it held
before**: for every old content (identical, unrelated, an edited variant, emptied, truncated,
extended — it is only the delta *basis*) and every new content, the generator's signature, the
sender's search against it, the wire and the receiver commit exactly the source's bytes, and the
destination path then holds exactly them. Hypotheses: the generator's block layout is one the sender
accepts, and no truncated strong-hash collision between a basis block and a different window. -/
theorem changed_file_delivered (Hs Hfile : Bytes → Bytes) (blm1 cs : Nat) (old new rest : Bytes) (p : Path) (id : Nat) (pc : Bytes)
    (before : Path → Option Node)
    (hcs : cs ≤ maxCsLen) (hbl : blm1 + 1 ≤ maxBlockLen)
    (hcount : (honestHead blm1 cs old).count < 2147483648)
    (hfile16 : (Hfile new).length = 16)
    (nocoll : ∀ (i : Nat) (q w : Bytes), (splitBlocks blm1 old)[i]? = some q → q.length = w.length →
      (Hs q).take cs = (Hs w).take cs → q = w) :
    let stream := encHead (honestHead blm1 cs old) ++
      (encToks (senderTokens Hs (honestHead blm1 cs old) (honestSums Hs blm1 old) new) ++ (Hfile new ++ rest))
    (run ⟨before, [], []⟩ (recvFileEvents Hfile (some old) stream id p pc)).dest p = some (.file new) := by
  intro stream
  have hrt := C02.roundtrip Hs Hfile blm1 cs old new rest hcs hbl hcount hfile16 nocoll
  have h1 : (recvData Hfile (some old) stream).1 = .committed new := by
    show (recvData Hfile (some old) _).1 = _
    rw [hrt]
  simp [recvFileEvents, h1, run, step, tempContent]

/-- the same for a file that did not exist -/
theorem new_file_in_place (Hfile : Bytes → Bytes) (chunks : List Bytes) (rest : Bytes) (p : Path) (id : Nat) (pc : Bytes)
    (before : Path → Option Node)
    (hok : ∀ c ∈ chunks, 0 < c.length ∧ c.length < 2147483648) (h16 : (Hfile chunks.flatten).length = 16) :
    (run ⟨before, [], []⟩ (recvFileEvents Hfile none
      (encHead ⟨0, 0, 0, 0⟩ ++ (encToks (chunks.map Spec.ATok.lits) ++ (Hfile chunks.flatten ++ rest))) id p pc)).dest p
      = some (.file chunks.flatten) := by
  have h1 := new_file_delivered Hfile chunks rest hok h16
  simp [recvFileEvents, h1, run, step, tempContent]

/-- **which files are sent**: a regular file is requested unless the update rule the user selected
says the destination is up to date (C12, for every option set and destination state) -/
theorem requested_unless_up_to_date (o : Rx.Opts) (e : Rx.Entry) (d : Option Rx.Node)
    (he : e.kind = .reg) (hok : (Rx.genStep o e d).res = .ok) :
    (Rx.genStep o e d).req ≠ .none ↔ C12.mustRequest o e d :=
  C12.request_iff o e d he hok

/-- both ends mean the same file by an index (C15) and read the list under the same options (C14) -/
theorem same_numbering {le : Flist.Str → Flist.Str → Prop} (anti : ∀ a b, le a b → le b a → a = b)
    (l s r : List Flist.Entry) (hs : s.Perm l) (hr : r.Perm l)
    (hss : s.Pairwise (fun x y => le x.name y.name)) (hrs : r.Pairwise (fun x y => le x.name y.name))
    (hnd : (l.map (·.name)).Nodup) : s = r := C15.same_numbering anti l s r hs hr hss hrs hnd

theorem same_list_options (o : Opts.St)
    (ho : Opts.acc o .DeleteMode = true → Opts.acc o .Recurse = true) :
    ∃ s', Opts.parse (Opts.serverOptions (Opts.acc o)) = .ok s' ∧ C14.flistOpts s' = C14.flistOpts o :=
  C14.flist_opts_agree o ho


/-! ## the whole session: every selected regular file, for every prior state of the destination -/

/-- how the sender transmits a requested file -/
inductive Wire
  | whole (chunks : List Bytes)              -- the receiver has no basis: literal chunks (`sendFile`)
  | delta (old : Bytes) (blm1 cs : Nat)      -- delta against what the path held (`hashSearch`)

def Wire.basis : Wire → Option Bytes
  | .whole _ => none
  | .delta old _ _ => some old

/-- the bytes that arrive for one file: checksum header echo, tokens, whole-file hash -/
def Wire.stream (Hs Hfile : Bytes → Bytes) (new : Bytes) : Wire → Bytes
  | .whole chunks => encHead ⟨0, 0, 0, 0⟩ ++ (encToks (chunks.map Spec.ATok.lits) ++ (Hfile chunks.flatten ++ []))
  | .delta old blm1 cs => encHead (honestHead blm1 cs old) ++
      (encToks (senderTokens Hs (honestHead blm1 cs old) (honestSums Hs blm1 old) new) ++ (Hfile new ++ []))

/-- what is assumed of a transmission: the literal chunks are the file, cut anywhere; the generator's
block layout is one the sender accepts; the whole-file hash has 16 bytes; no truncated strong-hash
collision between a block of the old content and a different window -/
def Wire.Ok (Hs Hfile : Bytes → Bytes) (new : Bytes) : Wire → Prop
  | .whole chunks => chunks.flatten = new ∧ (∀ c ∈ chunks, 0 < c.length ∧ c.length < 2147483648) ∧ (Hfile new).length = 16
  | .delta old blm1 cs => cs ≤ maxCsLen ∧ blm1 + 1 ≤ maxBlockLen ∧ (honestHead blm1 cs old).count < 2147483648 ∧
      (Hfile new).length = 16 ∧
      (∀ (i : Nat) (q w : Bytes), (splitBlocks blm1 old)[i]? = some q → q.length = w.length →
        (Hs q).take cs = (Hs w).take cs → q = w)

theorem wire_commits (Hs Hfile : Bytes → Bytes) (new : Bytes) (w : Wire) (h : w.Ok Hs Hfile new) :
    (recvData Hfile w.basis (w.stream Hs Hfile new)).1 = .committed new := by
  cases w with
  | whole chunks =>
    obtain ⟨hf, hc, h16⟩ := h
    subst hf
    simp only [Wire.basis, Wire.stream]
    rw [new_file_delivered Hfile chunks [] hc h16]
  | delta old blm1 cs =>
    obtain ⟨hcs, hbl, hcount, h16, nocoll⟩ := h
    simp only [Wire.basis, Wire.stream]
    rw [C02.roundtrip Hs Hfile blm1 cs old new [] hcs hbl hcount h16 nocoll]

/-- a regular file of the source as the session sees it: destination path, content, its file-list
entry, what the generator finds at the destination, how it travels -/
structure Src where
  p : Path
  new : Bytes
  e : Rx.Entry
  d : Option Rx.Node
  id : Nat
  wire : Wire

theorem nodup_map_inj (l : List Src) (h : (l.map (·.p)).Nodup) (a b : Src) (ha : a ∈ l) (hb : b ∈ l)
    (hab : a.p = b.p) : a = b := by
  induction l with
  | nil => simp at ha
  | cons x xs ih =>
    simp only [List.map_cons, List.nodup_cons] at h
    obtain ⟨hx, hxs⟩ := h
    rcases List.mem_cons.mp ha with rfl | ha' <;> rcases List.mem_cons.mp hb with rfl | hb'
    · rfl
    · exact absurd (by rw [hab]; exact List.mem_map_of_mem hb') hx
    · exact absurd (by rw [← hab]; exact List.mem_map_of_mem ha') hx
    · exact ih hxs ha' hb'

/-- the generator's decision (C12) -/
def requested (o : Rx.Opts) (f : Src) : Bool := (Rx.genStep o f.e f.d).req != .none

def jobsOf (Hs Hfile : Bytes → Bytes) (o : Rx.Opts) (fs : List Src) : List Session.Job :=
  (fs.filter (requested o)).map fun f => ⟨f.p, f.id, f.wire.basis, f.wire.stream Hs Hfile f.new, []⟩

/-- **A successful sync leaves every selected regular file byte-identical to the source, unless the
update rule says it is up to date** — for any number of files, every prior state of the destination
(`before` is arbitrary; the old content of a path is only the delta basis), every option set: after
all events of the session, each file's path holds exactly the source's bytes, or the user-selected
update rule (C12's `mustRequest`) does not ask for it and the path is exactly as it was.
Hypotheses: distinct destination paths; the generator step does not fail; and for the files that
are requested, `Wire.Ok` (block layout accepted, 16-byte whole-file hash, no strong-hash collision). -/
theorem sync_correct (Hs Hfile : Bytes → Bytes) (o : Rx.Opts) (fs : List Src) (before : Path → Option Node)
    (hnd : (fs.map (·.p)).Nodup) (hreg : ∀ f ∈ fs, f.e.kind = .reg)
    (hok : ∀ f ∈ fs, (Rx.genStep o f.e f.d).res = .ok)
    (hwire : ∀ f ∈ fs, requested o f = true → f.wire.Ok Hs Hfile f.new) :
    ∀ f ∈ fs,
      (run ⟨before, [], []⟩ (Session.sessionEvents Hfile (jobsOf Hs Hfile o fs))).dest f.p = some (.file f.new) ∨
      (¬ C12.mustRequest o f.e f.d ∧
        (run ⟨before, [], []⟩ (Session.sessionEvents Hfile (jobsOf Hs Hfile o fs))).dest f.p = before f.p) := by
  intro f hf
  have hpaths : ((jobsOf Hs Hfile o fs).map (·.p)) = (fs.filter (requested o)).map (·.p) := by
    simp [jobsOf, List.map_map, Function.comp_def]
  have hndj : ((jobsOf Hs Hfile o fs).map (·.p)).Nodup := by
    rw [hpaths]
    exact List.Nodup.sublist (List.Sublist.map _ List.filter_sublist) hnd
  by_cases hr : requested o f = true
  · left
    have hmem : (⟨f.p, f.id, f.wire.basis, f.wire.stream Hs Hfile f.new, []⟩ : Session.Job) ∈ jobsOf Hs Hfile o fs := by
      simp only [jobsOf, List.mem_map, List.mem_filter]
      exact ⟨f, ⟨hf, hr⟩, rfl⟩
    exact Session.session_delivers Hfile _ _ hndj _ hmem f.new (wire_commits Hs Hfile f.new f.wire (hwire f hf hr))
  · right
    have hreq : (Rx.genStep o f.e f.d).req = .none := by
      simp only [requested, bne_iff_ne, ne_eq] at hr
      exact Decidable.of_not_not hr
    refine ⟨?_, ?_⟩
    · intro hm
      have := (C12.request_iff o f.e f.d (hreg f hf) (hok f hf)).mpr hm
      exact this hreq
    · apply Session.session_frame
      intro j hj heq
      simp only [jobsOf, List.mem_map, List.mem_filter] at hj
      obtain ⟨g, ⟨hg, hgr⟩, rfl⟩ := hj
      -- same path, distinct paths: g = f, but g is requested and f is not
      have : g = f := by
        exact nodup_map_inj fs hnd g f hg hf heq.symm
      rw [this] at hgr
      exact hr hgr

/-- non-vacuity: two files, one new and one replaced over unrelated previous content, none up to date -/
example : ∃ fs : List Src, fs.length = 2 ∧ (fs.map (·.p)).Nodup := ⟨[⟨[97], [1,2,3], ⟨.reg, 0o644, 3, 5, 0, 0, [], 0, []⟩, none, 1, .whole [[1,2,3]]⟩,
  ⟨[98], [9], ⟨.reg, 0o644, 1, 5, 0, 0, [], 0, []⟩, none, 2, .delta [7,7] 699 16⟩], rfl, by decide⟩

/-- non-vacuity of the transmission hypothesis: a file cut into two literal chunks -/
example : (Wire.whole [[1, 2], [3]]).Ok (fun b => b) (fun _ => List.replicate 16 0) [1, 2, 3] := by
  refine ⟨rfl, ?_, rfl⟩
  intro c hc
  simp at hc
  rcases hc with rfl | rfl <;> simp

/-! ### Tie to the source: the whole-file path -/

/-- **`sendFile`'s read loop sends the whole file, whatever the reader's reads look like** (translated from
/repo on every run; `f.Read` delivers between 1 and `min(len buf, rest)` bytes per call — an arbitrary schedule of
short reads is a parameter — and reports the end of the file either together with the last bytes (`eager`, as
`io.Reader` allows and an `fs.FS` module may do) or by the next call): literal tokens of 1 … 256 KiB whose data
concatenate to exactly the file, each preceded by its length, then the end-of-data token; at most `len(file)+1`
passes. This is the hypothesis `Wire.whole cs` with `cs.flatten = file` of `sync_correct`, discharged for the source's
own loop. Before the repair of D50 the statement was false for `eager = true`: the bytes that arrived with `io.EOF`
were dropped and the transfer failed with "file corruption". -/
theorem source_whole_file_path (file : List UInt8) (sched : List Nat) (eager : Bool) :
    ∃ chunks, (∀ c ∈ chunks, 0 < c.length ∧ c.length ≤ 262144) ∧ chunks.flatten = file ∧
      Gen.Pure.sendFileLoop file sched eager [] = .ok (SendFile.frames chunks ++ [Go.Out.i32 0], []) :=
  SendFile.sendFileLoop_sends_all file sched eager

/-- **and the receiver's own loop rebuilds exactly that file from those bytes** (no basis file, any validated
header, anything may follow on the wire) -/
theorem source_whole_file_end_to_end (file : List UInt8) (sched : List Nat) (eager : Bool) (h : PureTie.Head32) (hok : h.ok) (cs : Nat)
    (tail : List UInt8) :
    ∃ out, Gen.Pure.sendFileLoop file sched eager [] = .ok (out, []) ∧
      Gen.Pure.recvLoop (SendFile.wireOf out ++ tail) [] false h.count h.bl h.rem [] = .ok (file, tail) :=
  SendFile.whole_file_end_to_end file sched eager h hok cs tail

/-- non-vacuity: a five-byte file read as 2 + 1 + 2 bytes, the end reported by a further call or with the last bytes -/
example : Gen.Pure.sendFileLoop [1, 2, 3, 4, 5] [2, 1] false [] =
    .ok ([.i32 2, .bytes [1, 2], .i32 1, .bytes [3], .i32 2, .bytes [4, 5], .i32 0], []) := by
  decide +kernel

example : Gen.Pure.sendFileLoop [1, 2, 3, 4, 5] [2, 1] true [] =
    .ok ([.i32 2, .bytes [1, 2], .i32 1, .bytes [3], .i32 2, .bytes [4, 5], .i32 0], []) := by
  decide +kernel

end C01
