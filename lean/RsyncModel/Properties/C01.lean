import RsyncModel.Properties.C02
import RsyncModel.Properties.C04
import RsyncModel.Properties.C12
import RsyncModel.Properties.C14
import RsyncModel.Properties.C15
/-! # C01 — a successful sync leaves destination files byte-identical to the source

Composition, per file, of the stages proved separately: the update rule decides whether the file is
requested (C12); if it is, the generator's signature of the old content, the sender's delta against
it, the wire encoding and the receiver's reconstruction and whole-file check commit exactly the
source's bytes (C02, C03), which are put in place whole (C04); both ends number the files identically
(C15) and read the list with the same options (C14). The end-to-end runs in four arrangements are the
`session`, `trace` and `gated` suites. -/
namespace C01
open Recv Delta Atomic
abbrev Bytes := List UInt8

/-- literal chunks only: what the whole-file path (`sendFile`, taken when the receiver has no basis
and sends an empty checksum header) puts on the wire -/
theorem recvTokens_literals (hd : Head) (cs : List Bytes) (rest acc : Bytes)
    (hok : ∀ c ∈ cs, 0 < c.length ∧ c.length < 2147483648) :
    recvTokens hd none (encToks (cs.map Spec.ATok.lits) ++ rest) acc = .ok (acc ++ cs.flatten, rest) := by
  induction cs generalizing acc with
  | nil =>
    simp only [List.map_nil, encToks, List.flatMap_nil, List.nil_append, List.flatten_nil, List.append_nil]
    rw [recvTokens_step]
    have : (i32 0 == 0) = true := by rw [i32_zero]; exact beq_self_eq_true _
    simp [this]
  | cons bs rest' ih =>
    obtain ⟨h0, h1⟩ := hok bs (by simp)
    have e : encToks ((bs :: rest').map Spec.ATok.lits) ++ rest = Wire.encI32 (i32 bs.length) ++ (bs ++ (encToks (rest'.map Spec.ATok.lits) ++ rest)) := by
      simp [encToks, encTok, List.append_assoc]
    have hv := i32_toInt (bs.length : Int) (by omega) (by omega)
    rw [e, recvTokens_step]
    have hne : (i32 (bs.length : Int) == 0) = false := by
      simp only [beq_eq_false_iff_ne, ne_eq]
      intro hc; have := congrArg Int32.toInt hc; rw [hv] at this
      have h00 : (0 : Int32).toInt = 0 := Int32.toInt_zero
      rw [h00] at this; omega
    have hpos : i32 (bs.length : Int) > 0 := by
      rw [gt_iff_lt, Int32.lt_iff_toInt_lt, hv]
      have h00 : (0 : Int32).toInt = 0 := Int32.toInt_zero
      rw [h00]; omega
    simp only [hne, hpos, if_true, Bool.false_eq_true, if_false, hv, Int.toNat_natCast]
    have hl : ¬ (bs ++ (encToks (rest'.map Spec.ATok.lits) ++ rest)).length < bs.length := by simp
    simp only [hl, if_false]
    rw [List.drop_left, List.take_left]
    rw [ih (acc ++ bs) (fun c hc => hok c (by simp [hc]))]
    simp

/-- **a new file (nothing at the destination) arrives byte-identical**: the receiver has no basis and
sent the empty checksum header; whatever non-empty chunks the sender cuts the file into, the receiver
commits exactly their concatenation, provided the trailer is the whole-file hash of it -/
theorem new_file_delivered (Hfile : Bytes → Bytes) (chunks : List Bytes) (rest : Bytes)
    (hok : ∀ c ∈ chunks, 0 < c.length ∧ c.length < 2147483648) (h16 : (Hfile chunks.flatten).length = 16) :
    recvData Hfile none (encHead ⟨0, 0, 0, 0⟩ ++ (encToks (chunks.map Spec.ATok.lits) ++ (Hfile chunks.flatten ++ rest)))
      = (.committed chunks.flatten, rest) := by
  have hh : readHead (encHead ⟨0, 0, 0, 0⟩ ++ (encToks (chunks.map Spec.ATok.lits) ++ (Hfile chunks.flatten ++ rest)))
      = .ok (⟨0, 0, 0, 0⟩, encToks (chunks.map Spec.ATok.lits) ++ (Hfile chunks.flatten ++ rest)) :=
    readHead_encHead _ _ ⟨by decide, by decide, by decide, by decide, by decide⟩
  unfold recvData
  rw [hh]
  simp only []
  rw [recvTokens_literals _ chunks _ [] hok]
  simp only [List.nil_append]
  have hlen : ¬ (Hfile chunks.flatten ++ rest).length < 16 := by simp [h16]
  simp only [hlen, if_false]
  have ht : (Hfile chunks.flatten ++ rest).take 16 = Hfile chunks.flatten := by
    rw [← h16]; exact List.take_left
  have hd : (Hfile chunks.flatten ++ rest).drop 16 = rest := by
    rw [← h16]; exact List.drop_left
  simp [ht, hd]

/-- **an existing file that the update rule sends again arrives byte-identical, whatever it held
before**: for every old content (identical, unrelated, an edited variant, emptied, truncated,
extended — it is only the delta *basis*) and every new content, the generator's signature, the
sender's search against it, the wire and the receiver commit exactly the source's bytes, and the
destination path then holds exactly them. Hypotheses: the generator's block layout is one the sender
accepts, and no truncated strong-hash collision between a basis block and a different window. -/
theorem changed_file_delivered (Hs Hfile : Bytes → Bytes) (blm1 cs : Nat) (old new rest : Bytes) (p : Path) (id : Nat) (pc : Bytes)
    (before : Path → Option Node)
    (hcs : cs ≤ maxCsLen) (hbl : blm1 + 1 ≤ maxBlockLen)
    (hcount : (honestHead blm1 cs old).count < 2147483648)
    (hfile16 : (Hfile new).length = 16)
    (nocoll : ∀ (i : Nat) (q w : Bytes), (splitBlocks blm1 old)[i]? = some q → q.length = w.length →
      (Hs q).take cs = (Hs w).take cs → q = w) :
    let stream := encHead (honestHead blm1 cs old) ++
      (encToks (senderTokens Hs (honestHead blm1 cs old) (honestSums Hs blm1 old) new) ++ (Hfile new ++ rest))
    (run ⟨before, [], []⟩ (recvFileEvents Hfile (some old) stream id p pc)).dest p = some (.file new) := by
  intro stream
  have hrt := C02.roundtrip Hs Hfile blm1 cs old new rest hcs hbl hcount hfile16 nocoll
  have h1 : (recvData Hfile (some old) stream).1 = .committed new := by
    show (recvData Hfile (some old) _).1 = _
    rw [hrt]
  simp [recvFileEvents, h1, run, step, tempContent]

/-- the same for a file that did not exist -/
theorem new_file_in_place (Hfile : Bytes → Bytes) (chunks : List Bytes) (rest : Bytes) (p : Path) (id : Nat) (pc : Bytes)
    (before : Path → Option Node)
    (hok : ∀ c ∈ chunks, 0 < c.length ∧ c.length < 2147483648) (h16 : (Hfile chunks.flatten).length = 16) :
    (run ⟨before, [], []⟩ (recvFileEvents Hfile none
      (encHead ⟨0, 0, 0, 0⟩ ++ (encToks (chunks.map Spec.ATok.lits) ++ (Hfile chunks.flatten ++ rest))) id p pc)).dest p
      = some (.file chunks.flatten) := by
  have h1 := new_file_delivered Hfile chunks rest hok h16
  simp [recvFileEvents, h1, run, step, tempContent]

/-- **which files are sent**: a regular file is requested unless the update rule the user selected
says the destination is up to date (C12, for every option set and destination state) -/
theorem requested_unless_up_to_date (o : Rx.Opts) (e : Rx.Entry) (d : Option Rx.Node)
    (he : e.kind = .reg) (hok : (Rx.genStep o e d).res = .ok) :
    (Rx.genStep o e d).req ≠ .none ↔ C12.mustRequest o e d :=
  C12.request_iff o e d he hok

/-- both ends mean the same file by an index (C15) and read the list under the same options (C14) -/
theorem same_numbering {le : Flist.Str → Flist.Str → Prop} (anti : ∀ a b, le a b → le b a → a = b)
    (l s r : List Flist.Entry) (hs : s.Perm l) (hr : r.Perm l)
    (hss : s.Pairwise (fun x y => le x.name y.name)) (hrs : r.Pairwise (fun x y => le x.name y.name))
    (hnd : (l.map (·.name)).Nodup) : s = r := C15.same_numbering anti l s r hs hr hss hrs hnd

theorem same_list_options (o : Opts.St) :
    ∃ s', Opts.parse (Opts.serverOptions (Opts.acc o)) = .ok s' ∧ C14.flistOpts s' = C14.flistOpts o :=
  C14.flist_opts_agree o

end C01
