import RsyncModel.Daemon
import RsyncModel.FsSitesSpec
/-! # C07 — read-only modules are never modified -/
namespace C07
open Daemon Opts

theorem find_name (mods : List Module) (req : Str) (m : Module) (h : mods.find? (·.name == req) = some m) : m ∈ mods :=
  List.mem_of_find?_eq_some h

/-- **every request that selects a module which is not writable leaves the handler without a single
file-system event**, whatever greeting, module line and argument lines (flags, paths, `--delete`,
`-n`, subdirectories) the client sends: the handler only ever touches the module of a `receiver`
outcome, and that module is writable -/
def isRecv (o : Outcome) (m : Module) : Prop := (∃ sub, o = .receiver m sub) ∨ o = .tooManyPaths m

/-- the role decision once the arguments are parsed: receive mode only for a writable module -/
theorem role_receive (m m' : Module) (s : St) (h : isRecv (role m s) m') : m' = m ∧ m.writable = true := by
  unfold role at h
  split at h
  · split at h
    · rcases h with ⟨_, h⟩ | h <;> cases h
    · simp only [] at h
      split at h
      · rcases h with ⟨_, h⟩ | h <;> cases h
      · split at h
        · rcases h with ⟨_, h⟩ | h <;> cases h
        · rename_i hwr
          have hw : m.writable = true := by simpa using hwr
          split at h
          · split at h <;> (rcases h with ⟨_, h⟩ | h <;> cases h <;> exact ⟨rfl, hw⟩)
          · rcases h with ⟨_, h⟩ | h <;> cases h; exact ⟨rfl, hw⟩
  · rcases h with ⟨_, h⟩ | h <;> cases h

theorem afterOk_receive (m m' : Module) (argLines : List Str) (h : isRecv (afterOk m argLines) m') : m' = m ∧ m.writable = true := by
  unfold afterOk at h
  split at h
  · rcases h with ⟨_, h⟩ | h <;> cases h
  · rcases h with ⟨_, h⟩ | h <;> cases h
  · rcases h with ⟨_, h⟩ | h <;> cases h
  · exact role_receive m m' _ h

theorem receive_from_writable (mods : List Module) (greeting moduleLine : Str) (argLines : List Str) (m : Module)
    (h : isRecv (handle mods greeting moduleLine argLines) m) : m.writable = true := by
  unfold handle at h
  split at h
  · rcases h with ⟨_, h⟩ | h <;> cases h
  · simp only [] at h
    split at h
    · rcases h with ⟨_, h⟩ | h <;> cases h
    · split at h
      · rcases h with ⟨_, h⟩ | h <;> cases h
      · split at h
        · rcases h with ⟨_, h⟩ | h <;> cases h
        · have := afterOk_receive _ m argLines h
          rw [this.1]; exact this.2

theorem readonly_untouched (mods : List Module) (greeting moduleLine : Str) (argLines : List Str) :
    ∀ m, moduleOf (handle mods greeting moduleLine argLines) = some m → m.writable = false →
      events (handle mods greeting moduleLine argLines) = [] ∧ isReceive (handle mods greeting moduleLine argLines) = false := by
  intro m hm hw
  cases ho : handle mods greeting moduleLine argLines with
  | receiver m' sub =>
    rw [ho] at hm; simp [moduleOf] at hm; subst hm
    have := receive_from_writable mods greeting moduleLine argLines m' (by rw [ho]; exact Or.inl ⟨sub, rfl⟩)
    rw [hw] at this; cases this
  | tooManyPaths m' =>
    rw [ho] at hm; simp [moduleOf] at hm; subst hm
    have := receive_from_writable mods greeting moduleLine argLines m' (by rw [ho]; exact Or.inr rfl)
    rw [hw] at this; cases this
  | _ => simp [events, isReceive]

/-- receive mode is entered only for a writable module -/
theorem receive_implies_writable (mods : List Module) (greeting moduleLine : Str) (argLines : List Str) (m : Module)
    (hm : moduleOf (handle mods greeting moduleLine argLines) = some m)
    (hr : isReceive (handle mods greeting moduleLine argLines) = true) : m.writable = true := by
  cases hw : m.writable with
  | true => rfl
  | false =>
    have := (readonly_untouched mods greeting moduleLine argLines m hm hw).2
    rw [this] at hr; cases hr

/-- a module served from an fs.FS is never writable (`validateModule`) -/
theorem fs_modules_not_writable (hasName hasPath : Bool) (m : Module) (h : validModule hasName hasPath m = true) (hfs : m.isFS = true) :
    m.writable = false := by
  simp [validModule, hfs] at h
  exact h.2.1

/-- the regenerated call-site table: every file-system call of the daemon package is dominated by the
writability check (or sits under `if mod.Writable`), raw paths are only the configured module path,
and no call site exists in the sending half at all -/
theorem sites_guarded : FsSitesSpec.daemonGuarded = true ∧ FsSitesSpec.daemonRawOnlyModuleRoot = true ∧ FsSitesSpec.rawArgsPinned = true :=
  ⟨FsSitesSpec.daemon_sites_guarded.1, FsSitesSpec.daemon_sites_guarded.2, FsSitesSpec.raw_args_pinned⟩

/-- non-vacuity: an upload request to a read-only module is classified `readOnly` with no events -/
example : (match handle [⟨"ro".toList, false, false, true⟩] "@RSYNCD: 27".toList "ro".toList
    ["--server".toList, "-logDtpr".toList, "--delete".toList, ".".toList, "ro/new/sub".toList, []] with
  | .readOnly _ => true | _ => false) = true := by decide +kernel

example : (match handle [⟨"rw".toList, true, false, true⟩] "@RSYNCD: 27".toList "rw".toList
    ["--server".toList, "-logDtpr".toList, ".".toList, "rw/new/sub".toList, []] with
  | .receiver _ (some s) => s == "new/sub".toList | _ => false) = true := by decide +kernel

end C07
