import RsyncModel.OptsSpec
import RsyncModel.FlistCondsSpec
import RsyncModel.FlistThm
/-! # C14 — both ends agree on the options; the outcome does not depend on who sends

All tables are regenerated from the source on every run (`Gen.OptTable`, `Gen.FlistConds`): the
option rows, the `case` clauses of `ParseArguments`, the accessors, the items of `ServerOptions`,
the two `receiver.TransferOpts` literals, where the filter list is written and read, and the ordered
wire schedule of a file-list entry on either side with the guard of every step.

The theorems quantify over **every** assignment of the option accessors (all 2^k option sets at
once) and every entry kind; the kernel only evaluates finite checks over the tables. -/
namespace C14
open Opts Gen.OptTable

/-- what the server must see of the client's option state: every transfer option unchanged, the
sender role mirrored, server mode on -/
def forwardSpec : List (Acc × BExpr CAtom) :=
  [(.AlwaysChecksum, .atom (.acc .AlwaysChecksum)), (.DeleteMode, .atom (.acc .DeleteMode)), (.DryRun, .atom (.acc .DryRun)),
   (.IgnoreTimes, .atom (.acc .IgnoreTimes)), (.PreserveDevices, .atom (.acc .PreserveDevices)), (.PreserveGid, .atom (.acc .PreserveGid)),
   (.PreserveLinks, .atom (.acc .PreserveLinks)), (.PreserveMTimes, .atom (.acc .PreserveMTimes)), (.PreservePerms, .atom (.acc .PreservePerms)),
   (.PreserveSpecials, .atom (.acc .PreserveSpecials)), (.PreserveUid, .atom (.acc .PreserveUid)), (.Recurse, .atom (.acc .Recurse)),
   (.UpdateOnly, .atom (.acc .UpdateOnly)), (.Verbose, .atom (.acc .Verbose)),
   (.Sender, .not (.atom (.acc .Sender))), (.Server, .tt), (.Daemon, .ff), (.PreserveHardLinks, .ff)]

/-- the finite check: the rendered options lex to known set-only options, and each accessor's
"some present option stores into my field" formula is equivalent to the expected one -/
def forwardCheck : Bool :=
  match tokTable with
  | none => false
  | some t =>
    tablesOk t &&
    forwardSpec.all fun p =>
      init.ints (accField p.1) == 0 && accField p.1 != .f_xfer_dirs &&
      BExpr.equivB (setFormula t (accField p.1)) p.2

theorem forward_check : forwardCheck = true := by decide +kernel

/-- **Every option that changes what the remote side must do reaches it, for every option set.**
For every assignment `σ` of the client's accessors that the client's own parser lets through (`--delete` only
together with `-r`: `ParseArguments` refuses the rest on either side, `finish_refuses_delete_without_recursion`
below), the server-side parser accepts the argument list `ServerOptions` renders and ends in a state whose
accessors are exactly the client's (role mirrored). -/
theorem forward_roundtrip (σ : Acc → Bool) (hσ : σ .DeleteMode = true → σ .Recurse = true) :
    ∃ s', parse (serverOptions σ) = .ok s' ∧ ∀ p ∈ forwardSpec, acc s' p.1 = cEval σ p.2 := by
  have hc := forward_check
  unfold forwardCheck at hc
  cases ht : tokTable with
  | none => rw [ht] at hc; cases hc
  | some t =>
    rw [ht] at hc
    simp only [Bool.and_eq_true, List.all_eq_true, beq_iff_eq, bne_iff_ne, ne_eq] at hc
    obtain ⟨hok, hall⟩ := hc
    have hdel : cEval σ (setFormula t .f_delete_mode) = true → cEval σ (setFormula t .f_recurse) = true := by
      have e1 : cEval σ (setFormula t (accField .DeleteMode)) = cEval σ (.atom (.acc .DeleteMode)) :=
        BExpr.equivB_sound _ _ (hall (.DeleteMode, .atom (.acc .DeleteMode)) (by simp [forwardSpec])).2 _
      have e2 : cEval σ (setFormula t (accField .Recurse)) = cEval σ (.atom (.acc .Recurse)) :=
        BExpr.equivB_sound _ _ (hall (.Recurse, .atom (.acc .Recurse)) (by simp [forwardSpec])).2 _
      have a1 : accField .DeleteMode = .f_delete_mode := rfl
      have a2 : accField .Recurse = .f_recurse := rfl
      rw [a1] at e1
      rw [a2] at e2
      rw [e1, e2]
      simpa [cEval, BExpr.eval] using hσ
    obtain ⟨s', hs', hf⟩ := parse_serverOptions σ t ht hok hdel
    refine ⟨s', hs', ?_⟩
    intro p hp
    obtain ⟨⟨h0, hx⟩, heq⟩ := hall p hp
    have := hf (accField p.1) hx h0
    simp only [acc]
    rw [this]
    exact BExpr.equivB_sound _ _ heq _

/-- in terms of a client option state `o`: the server's view of each transfer option is the client's -/
theorem server_sees_client_options (o : St) (ho : acc o .DeleteMode = true → acc o .Recurse = true) :
    ∃ s', parse (serverOptions (acc o)) = .ok s' ∧
      acc s' .Server = true ∧ acc s' .Sender = !acc o .Sender ∧
      (∀ a ∈ [Acc.AlwaysChecksum, .DeleteMode, .DryRun, .IgnoreTimes, .PreserveDevices, .PreserveGid, .PreserveLinks,
              .PreserveMTimes, .PreservePerms, .PreserveSpecials, .PreserveUid, .Recurse, .UpdateOnly, .Verbose], acc s' a = acc o a) := by
  obtain ⟨s', hs', h⟩ := forward_roundtrip (acc o) ho
  refine ⟨s', hs', ?_, ?_, ?_⟩
  · simpa [cEval, BExpr.eval] using h (.Server, .tt) (by simp [forwardSpec])
  · simpa [cEval, BExpr.eval] using h (.Sender, .not (.atom (.acc .Sender))) (by simp [forwardSpec])
  · intro a ha
    have hm : (a, BExpr.atom (CAtom.acc a)) ∈ forwardSpec := by
      simp only [List.mem_cons, List.not_mem_nil, or_false] at ha
      rcases ha with rfl | rfl | rfl | rfl | rfl | rfl | rfl | rfl | rfl | rfl | rfl | rfl | rfl | rfl <;> simp [forwardSpec]
    simpa [cEval, BExpr.eval] using h _ hm

/-- **`--delete` without `-r` is refused by `ParseArguments`, on whichever side it is parsed (D47)**: the deletion
pass walks the whole destination, and without recursion the list names the top level at most. So every option state
a parser hands on satisfies the premise of the forwarding theorems. -/
theorem finish_refuses_delete_without_recursion (n : Nat) (s : St) (hv : s.version = false)
    (hh : s.ints .f_human_readable ≤ 1) (hd : s.ints .f_delete_mode ≠ 0) (hr : s.ints .f_recurse = 0) :
    finish n s = .err := by
  have hh' : ¬ (s.ints .f_human_readable > 1 ∧ n = 1) := fun h => by omega
  simp [finish, hv, hh', hd, hr]

theorem finish_ok_delete_needs_recursion (n : Nat) (s s' : St) (h : finish n s = .ok s') :
    acc s' .DeleteMode = true → acc s' .Recurse = true := by
  unfold finish at h
  split at h
  · cases h
  · split at h
    · cases h
    · split at h
      · cases h
      · rename_i _ _ hdr
        injection h with h
        subst h
        intro hd
        have a1 : accField .DeleteMode = .f_delete_mode := rfl
        have a2 : accField .Recurse = .f_recurse := rfl
        simp only [acc, a1, a2, bne_iff_ne, ne_eq] at hd ⊢
        have key : ∀ (s0 : St) (v : Int) (f : Field), f ≠ .f_xfer_dirs → (s0.set .f_xfer_dirs v).ints f = s0.ints f := by
          intro s0 v f hf; simp [St.set, hf]
        have e : ∀ f, f ≠ Field.f_xfer_dirs →
            (if (if s.ints .f_recurse ≠ 0 then s.set .f_xfer_dirs 1 else s).ints .f_xfer_dirs < 0 then
              (if s.ints .f_recurse ≠ 0 then s.set .f_xfer_dirs 1 else s).set .f_xfer_dirs 0
             else (if s.ints .f_recurse ≠ 0 then s.set .f_xfer_dirs 1 else s)).ints f = s.ints f := by
          intro f hf
          by_cases h1 : s.ints .f_recurse ≠ 0
          · simp only [h1, ne_eq, not_false_eq_true, if_true]; split <;> simp [key _ _ f hf]
          · simp only [h1, if_false]; split <;> simp [key _ _ f hf]
        rw [e _ (by decide)] at hd ⊢
        intro hr0
        exact hdr ⟨hd, hr0⟩

/-! ## the receiving side's options: the two `receiver.TransferOpts` literals agree -/

def transferFields : List (TField × Acc) :=
  [(.DryRun, .DryRun), (.DeleteMode, .DeleteMode), (.PreserveGid, .PreserveGid), (.PreserveUid, .PreserveUid), (.PreserveLinks, .PreserveLinks),
   (.PreservePerms, .PreservePerms), (.PreserveDevices, .PreserveDevices), (.PreserveSpecials, .PreserveSpecials), (.PreserveTimes, .PreserveMTimes),
   (.IgnoreTimes, .IgnoreTimes), (.AlwaysChecksum, .AlwaysChecksum), (.Verbose, .Verbose)]

/-- client (pull, local receiver) and daemon (upload) fill every transfer-relevant field of
`receiver.TransferOpts` from the same accessor, the one the option's name says -/
theorem transferopts_agree :
    transferFields.all (fun p => clientRecvOpts.contains p && serverRecvOpts.contains p) = true ∧
    (clientRecvOpts.map (·.1)).Nodup ∧ (serverRecvOpts.map (·.1)).Nodup := by decide

/-! ## the byte stream is read as it is written -/

/-- the ordered wire schedule of a file-list entry and of the list's tail is the expected one on
both sides, and every receiver guard is equivalent to the guard of the sender step it consumes —
for every option set and entry kind, through either TransferOpts literal (D15 and its kin) -/
theorem flist_conds_agree :
    FlistCondsSpec.schedulesOk = true ∧ FlistCondsSpec.senderGuardsOk = true ∧
    FlistCondsSpec.entryAgrees clientRecvOpts = true ∧ FlistCondsSpec.entryAgrees serverRecvOpts = true ∧
    FlistCondsSpec.nameLenAgrees clientRecvOpts = true ∧ FlistCondsSpec.nameLenAgrees serverRecvOpts = true ∧
    FlistCondsSpec.tailAgrees clientRecvOpts = true ∧ FlistCondsSpec.tailAgrees serverRecvOpts = true :=
  ⟨FlistCondsSpec.schedules_ok, FlistCondsSpec.sender_guards_ok, FlistCondsSpec.entry_agrees.1, FlistCondsSpec.entry_agrees.2,
   FlistCondsSpec.namelen_agrees.1, FlistCondsSpec.namelen_agrees.2, FlistCondsSpec.tail_agrees.1, FlistCondsSpec.tail_agrees.2⟩

/-- the options that shape the file-list encoding, as the sending code reads them -/
def flistOpts (s : St) : Flist.Opts :=
  ⟨acc s .PreserveUid, acc s .PreserveGid, acc s .PreserveLinks, acc s .PreserveDevices, acc s .PreserveSpecials, acc s .AlwaysChecksum⟩

/-- **no desynchronisation of the file list, in either direction, for every option set**: the
server encodes/decodes with exactly the client's set of optional fields -/
theorem flist_opts_agree (o : St) (ho : acc o .DeleteMode = true → acc o .Recurse = true) : ∃ s', parse (serverOptions (acc o)) = .ok s' ∧ flistOpts s' = flistOpts o := by
  obtain ⟨s', hs', _, _, h⟩ := server_sees_client_options o ho
  refine ⟨s', hs', ?_⟩
  simp only [flistOpts]
  rw [h .PreserveUid (by simp), h .PreserveGid (by simp), h .PreserveLinks (by simp), h .PreserveDevices (by simp),
    h .PreserveSpecials (by simp), h .AlwaysChecksum (by simp)]

/-- so the entry one side writes is the entry the other reads (C15's round trip with equal options) -/
theorem no_desync_entry (o : St) (ho : acc o .DeleteMode = true → acc o .Recurse = true) (last e : Flist.Entry) (rest : Flist.Str)
    (hlen : e.name.length < Flist.pathMax) (hclean : PathClean.clean e.name = e.name)
    (htl : e.target.length < Flist.pathMax) (hsum : (flistOpts o).checksum = true → e.sum.length = 16) :
    ∃ s', parse (serverOptions (acc o)) = .ok s' ∧
      Flist.decodeEntry (flistOpts s') (Flist.flagsOf (Flist.gokrChoice e)) last ((Flist.gokrEncode (flistOpts o) e).tail ++ rest)
        = .ok (Flist.project (flistOpts o) e, rest) := by
  obtain ⟨s', hs', heq⟩ := flist_opts_agree o ho
  exact ⟨s', hs', by rw [heq]; exact Flist.decode_gokrEncode _ last e rest hlen hclean htl hsum⟩

/-! ## the filter list travels exactly when the other end expects it -/

def schedGuard (fn what : String) (n : Nat) : BExpr CAtom :=
  match (filterSchedule.filter (fun p => p.1 == fn && p.2.1 == what))[n]? with
  | some p => p.2.2
  | none => .atom (.other "missing")

/-- ClientRun (sender part): writes the filter list iff `DeleteMode`; handleConnReceiver reads iff
`DeleteMode`. ClientRun (receiver part, after the `if opts.Sender() { …; return }`): always;
handleConnSender: always. handleConn enters the sender iff `Sender`. The shapes are regenerated facts. -/
theorem filter_schedule :
    BExpr.equivB (schedGuard "ClientRun" "send" 0) (.and (.atom (.acc .Sender)) (.atom (.acc .DeleteMode))) = true ∧
    BExpr.equivB (schedGuard "ClientRun" "send" 1) .tt = true ∧
    BExpr.equivB (schedGuard "handleConnReceiver" "recv" 0) (.atom (.acc .DeleteMode)) = true ∧
    BExpr.equivB (schedGuard "handleConnSender" "recv" 0) .tt = true ∧
    BExpr.equivB (schedGuard "handleConn" "dispatch-sender" 0) (.atom (.acc .Sender)) = true ∧
    BExpr.equivB (schedGuard "handleConn" "dispatch-receiver" 0) .tt = true ∧
    filterSchedule.length = 6 := by decide

/-- a sending client transmits the filter list exactly when the receiving server waits for one -/
theorem filter_list_agree (o : St) (hs : acc o .Sender = true) (ho : acc o .DeleteMode = true → acc o .Recurse = true) :
    ∃ s', parse (serverOptions (acc o)) = .ok s' ∧ acc s' .Sender = false ∧
      cEval (acc o) (schedGuard "ClientRun" "send" 0) = cEval (acc s') (schedGuard "handleConnReceiver" "recv" 0) := by
  obtain ⟨s', hs', _, hsn, h⟩ := server_sees_client_options o ho
  refine ⟨s', hs', by simp [hsn, hs], ?_⟩
  have f := filter_schedule
  rw [show cEval (acc o) (schedGuard "ClientRun" "send" 0) = (acc o .Sender && acc o .DeleteMode) from
        BExpr.equivB_sound _ _ f.1 _,
      show cEval (acc s') (schedGuard "handleConnReceiver" "recv" 0) = acc s' .DeleteMode from
        BExpr.equivB_sound _ _ f.2.2.1 _,
      h .DeleteMode (by simp), hs]
  simp

/-! ## non-vacuity and the historical defects as checked facts -/

/-- `--specials` without `--devices` (D15: once a deadlock): forwarded as such -/
example : ∃ s', parse (serverOptions (fun a => a == .PreserveSpecials || a == .Recurse)) = .ok s' ∧
    acc s' .PreserveSpecials = true ∧ acc s' .PreserveDevices = false := by
  obtain ⟨s', h, hh⟩ := forward_roundtrip (fun a => a == .PreserveSpecials || a == .Recurse) (by decide)
  have h1 := hh (.PreserveSpecials, .atom (.acc .PreserveSpecials)) (by simp [forwardSpec])
  have h2 := hh (.PreserveDevices, .atom (.acc .PreserveDevices)) (by simp [forwardSpec])
  exact ⟨s', h, by rw [h1]; decide, by rw [h2]; decide⟩

/-- the concrete argument list for `-rt --delete` pushed to a server -/
example : serverOptions (fun a => a == .Recurse || a == .PreserveMTimes || a == .DeleteMode || a == .Sender)
    = ["--server".toList, "-tr".toList, "--delete".toList] := by decide

/-- the item of `ServerOptions` that forwards `-d` -/
def isDirsItem (it : Gen.OptTable.Item) : Bool :=
  match it.tok, it.cond with
  | .letter 'd', .and (.atom (.other s)) (.not (.atom (.acc .Recurse))) => s == "o.XferDirs() >= 2"
  | _, _ => false

/-- **Regenerated fact (D36)**: `-d` (`--dirs`) is forwarded. `ServerOptions` has an item for the letter `d`, guarded by the
option's own field and by "not -r" (with -r the remote side transfers directories anyway). `forward_roundtrip` above
does not speak about `xfer_dirs` — its value is post-processed from three options — so this item is pinned separately;
before the repair there was no such item and a pull with `-d` listed nothing where a local copy created the directory. -/
theorem dirs_option_forwarded : Gen.OptTable.serverItems.any isDirsItem = true := by decide

end C14
