import RsyncModel.Gen.FlistConds
import RsyncModel.PureTie
import RsyncModel.FlistThm
import RsyncModel.RoundTrip
import RsyncModel.FlistTie
/-! # C15 — the wire format conforms to rsync protocol 27

Flag values, mode bits, `PATH_MAX` and the protocol version are regenerated from the source. The
reference encoder `refEncode` is written from the protocol-27 description (rsync 2.6.x
`send_file_entry`), with every compression choice a conforming sender may make as a parameter. -/
namespace C15
open Flist Wire

/-- int32 on the wire round-trips for every value -/
theorem int32_roundtrip (v : Int32) (rest : Str) : decI32 (encI32 v ++ rest) = some (v, rest) := decI32_encI32 v rest

/-- the 32/64-bit "long" (int32, or −1 followed by int64) round-trips for every 64-bit value:
0, 2³¹−1, 2³¹, 2⁴⁰ and negative values included -/
theorem long_roundtrip (v : Int64) (rest : Str) : decLong (encLong v ++ rest) = some (v, rest) := decLong_encLong v rest

/-- the checksum header (four int32) round-trips for every header the receiver accepts -/
theorem sumhead_roundtrip (h : Delta.Head) (r : Str) (ok : Recv.HeadOk h) :
    Recv.readHead (Recv.encHead h ++ r) = .ok (h, r) := Recv.readHead_encHead h r ok

/-- **Every legal protocol-27 encoding of an entry is decoded into exactly the entry that was
sent**: name-prefix compression with any shared prefix ≤ 255, one-byte and four-byte name lengths,
`SAME_MODE/TIME/UID/GID/RDEV` whenever the value repeats, 32- and 64-bit file lengths. -/
theorem gokr_decodes_reference_encoding (o : Opts) (c : Choice) (last e : Entry) (rest : Str)
    (ok : ChoiceOk o c last e) (hclean : PathClean.clean e.name = e.name)
    (htl : e.target.length < pathMax) (hsum : o.checksum = true → e.sum.length = 16) :
    decodeEntry o (flagsOf c) last ((refEncode o c e).tail ++ rest) = .ok (project o e, rest) :=
  decode_refEncode o c last e rest ok hclean htl hsum

/-- the same for whole lists (entries in wire order, the zero flag byte terminates) -/
theorem gokr_decodes_reference_list (o : Opts) (ces : List (Choice × Entry)) (rest : Str)
    (h : Chain o zeroEntry ces) :
    decodeList o zeroEntry (ces.length + 1) (encodeList o ces ++ rest) = .ok (ces.map (fun ce => project o ce.2), rest) :=
  decodeList_encodeList o ces zeroEntry rest (ces.length + 1) (Nat.lt_succ_self _) h

/-- **gokrazy's own encoding is a legal protocol-27 encoding** (long name, nothing shared,
`XMIT_TOP_DIR` on `.`), and is read back by its own decoder. -/
theorem gokr_encoding_is_legal (o : Opts) (e : Entry) : gokrEncode o e = refEncode o (gokrChoice e) e :=
  gokrEncode_eq_ref o e

theorem gokr_decodes_gokr (o : Opts) (last e : Entry) (rest : Str) (hlen : e.name.length < pathMax)
    (hclean : PathClean.clean e.name = e.name) (htl : e.target.length < pathMax)
    (hsum : o.checksum = true → e.sum.length = 16) :
    decodeEntry o (flagsOf (gokrChoice e)) last ((gokrEncode o e).tail ++ rest) = .ok (project o e, rest) :=
  decode_gokrEncode o last e rest hlen hclean htl hsum

/-- **Both sides number the files identically** when names are distinct. -/
theorem same_numbering {le : Str → Str → Prop} (anti : ∀ a b, le a b → le b a → a = b)
    (l s r : List Entry) (hs : s.Perm l) (hr : r.Perm l)
    (hss : s.Pairwise (fun x y => le x.name y.name)) (hrs : r.Pairwise (fun x y => le x.name y.name))
    (hnd : (l.map (·.name)).Nodup) : s = r := index_agreement anti l s r hs hr hss hrs hnd

/-- the protocol version spoken is 27 and the flag/mode constants are the protocol's (regenerated) -/
theorem protocol_constants :
    Gen.Consts.ProtocolVersion = 27 ∧ Gen.Consts.XMIT_TOP_DIR = 1 ∧ Gen.Consts.XMIT_SAME_MODE = 2 ∧
    Gen.Consts.XMIT_SAME_RDEV_pre28 = 4 ∧ Gen.Consts.XMIT_SAME_UID = 8 ∧ Gen.Consts.XMIT_SAME_GID = 16 ∧
    Gen.Consts.XMIT_SAME_NAME = 32 ∧ Gen.Consts.XMIT_LONG_NAME = 64 ∧ Gen.Consts.XMIT_SAME_TIME = 128 ∧
    Gen.Consts.S_IFMT = 0o170000 ∧ Gen.Consts.S_IFDIR = 0o040000 ∧ Gen.Consts.S_IFREG = 0o100000 ∧
    Gen.Consts.S_IFLNK = 0o120000 ∧ Gen.Consts.S_IFCHR = 0o020000 ∧ Gen.Consts.S_IFBLK = 0o060000 ∧
    Gen.Consts.S_IFIFO = 0o010000 ∧ Gen.Consts.S_IFSOCK = 0o140000 := by decide

/-- non-vacuity: a concrete compressed two-entry list (`abc`, then `abd` sharing two bytes, same
time and mode, one-byte length) meets `Chain` -/
example : Chain ⟨false, false, false, false, false, false⟩ zeroEntry
    [(⟨0, true, false, false, false, false, false, false⟩, ⟨[97, 98, 99], 5, 7, 0o100644, 0, 0, 0, [], []⟩),
     (⟨2, false, true, true, false, false, false, false⟩, ⟨[97, 98, 100], 1099511627776, 7, 0o100644, 0, 0, 0, [], []⟩)] := by
  refine ⟨⟨by decide, by decide, by decide, by decide, by decide, by decide, by decide, by decide, by decide, by decide, by decide⟩,
    by decide, by decide, by decide, by decide,
    ⟨⟨by decide, by decide, by decide, by decide, by decide, by decide, by decide, by decide, by decide, by decide, by decide⟩,
     by decide, by decide, by decide, by decide, trivial⟩⟩


/-! ### Tie to the source (regenerated translation `Gen.Pure`) -/

/-- `WriteInt64` (both the connection's and the buffer's) sends 32 bits exactly when the model's
`encLong` does: the condition is translated from /repo on every run -/
theorem source_long_threshold (v : Int64) :
    Gen.Pure.int64Short v.toInt false = decide (0 ≤ v ∧ v ≤ 0x7FFFFFFF) ∧
    Gen.Pure.int64ShortBuf v.toInt false = Gen.Pure.int64Short v.toInt false :=
  ⟨PureTie.int64Short_tied v, PureTie.int64ShortBuf_tied v.toInt⟩


/-- **The source's 64-bit reader is the model's `decLong`** (`Conn.ReadInt64`, translated on every run): an int32
unless that is −1, then eight more bytes -/
theorem source_long_reader (inp : Str) :
    Gen.Pure.ReadInt64 inp = match decLong inp with
      | none => .err
      | some (v, rest) => .ok (v.toInt, rest) := FlistTie.readInt64_tied inp

/-- **The source's entry decoder is the model's decoder** (`receiveFileEntry`, translated from /repo on every
run; the connection's input is a byte list that is consumed): for every flag byte, previous entry, option set and
input it yields the entry and unread rest `Flist.decodeEntry` yields, and an error exactly where that has one.
Every theorem above about `decodeEntry` is therefore a theorem about the source's function. -/
theorem source_entry_decoder (o : Opts) (flags : UInt8) (last : Entry) (inp : Str) :
    Gen.Pure.receiveFileEntry flags.toUInt16 inp last.name last.mtime last.mode last.uid last.gid last.rdev
        o.uid o.gid o.links o.devices o.specials o.checksum [] 0 0 0 0 0 0 [] [] =
      FlistTie.toRes ((decodeEntry o flags last inp).map fun p =>
        (p.1.name, p.1.size.toInt, p.1.mtime, p.1.mode, p.1.uid, p.1.gid, p.1.rdev, p.1.target, p.1.sum, p.2)) :=
  FlistTie.receiveFileEntry_tied o flags last inp

/-- hence: **the source's decoder reads every legal protocol-27 encoding of an entry back into the entry sent** -/
theorem source_decodes_reference_encoding (o : Opts) (c : Choice) (last e : Entry) (rest : Str)
    (ok : ChoiceOk o c last e) (hclean : PathClean.clean e.name = e.name)
    (htl : e.target.length < pathMax) (hsum : o.checksum = true → e.sum.length = 16) :
    Gen.Pure.receiveFileEntry (flagsOf c).toUInt16 ((refEncode o c e).tail ++ rest) last.name last.mtime last.mode
        last.uid last.gid last.rdev o.uid o.gid o.links o.devices o.specials o.checksum [] 0 0 0 0 0 0 [] [] =
      .ok ((project o e).name, (project o e).size.toInt, (project o e).mtime, (project o e).mode, (project o e).uid,
           (project o e).gid, (project o e).rdev, (project o e).target, (project o e).sum, rest) := by
  rw [source_entry_decoder, gokr_decodes_reference_encoding o c last e rest ok hclean htl hsum]
  rfl

/-- **The source's list loop is the model's `decodeList`** (`ReceiveFileList`'s `for`, translated): the entries in
wire order, the unread rest, an error where the model has one; it ends within `len(input)+1` iterations. -/
theorem source_list_decoder (o : Opts) (inp : Str) :
    Gen.Pure.recvListLoop inp [] [] 0 0 0 0 0 o.uid o.gid o.links o.devices o.specials o.checksum =
      FlistTie.toRes ((decodeList o zeroEntry (inp.length + 1) inp).map fun p => (p.1.map FlistTie.recOf, p.2)) :=
  FlistTie.recvListLoop_tied o inp

/-- and whole reference-encoded lists come back entry for entry (the model's loop is the source's, by the theorem above) -/
theorem source_decodes_reference_list (o : Opts) (ces : List (Choice × Entry)) (rest : Str)
    (h : Chain o zeroEntry ces) :
    ∃ fuel, FlistTie.toRes ((decodeList o zeroEntry fuel (encodeList o ces ++ rest)).map fun p => (p.1.map FlistTie.recOf, p.2)) =
      .ok ((ces.map (fun ce => project o ce.2)).map FlistTie.recOf, rest) :=
  ⟨ces.length + 1, by rw [gokr_decodes_reference_list o ces rest h]; rfl⟩

/-- **What the source writes for an entry is `gokrEncode`** (sender/flist.go `walkFn` from `s.fec.Reset()` to the
checksum, translated on every run with the buffer as a byte list; what the file system reports about the object —
kind, size, times, permission bits, ids, link target, file checksum — are parameters): for every kind of object,
option set and field values whose permission bits carry no type bits -/
theorem source_entry_encoder (o : Opts) (k : FlistTie.Kind) (name : Str) (size : Int64) (mtime perm uid gid rdev : Int32)
    (target fileSum fec0 : Str) (hp : perm &&& 61440 = 0) :
    Gen.Pure.sendEntry (Gen.Pure.sendEntryFlags (name == [46])) name size.toInt mtime perm (k == .dir) (k == .regular) (k == .symlink)
        (k == .charDev) (k == .charDev || k == .blockDev) (k == .pipe) (k == .socket) uid gid rdev target fileSum
        o.uid o.gid o.links o.devices o.specials o.checksum fec0 =
      .ok (gokrEncode o (FlistTie.entryOfStat k name size mtime perm uid gid rdev target fileSum)) :=
  FlistTie.sendEntry_is_gokrEncode o k name size mtime perm uid gid rdev target fileSum fec0 hp

theorem gokrEncode_head (o : Opts) (e : Entry) : gokrEncode o e = flagsOf (gokrChoice e) :: (gokrEncode o e).tail := by
  unfold gokrEncode gokrChoice flagsOf
  by_cases h : e.name = [46] <;> simp [h] <;> decide

/-- **Source to source**: what the translated sender code writes for an entry, the translated receiver code reads
back as that entry (the fields the option set transmits), whatever the previous entry was and whatever follows on
the wire — for clean names and link targets shorter than `PATH_MAX` -/
theorem source_entry_roundtrip (o : Opts) (k : FlistTie.Kind) (name : Str) (size : Int64) (mtime perm uid gid rdev : Int32)
    (target fileSum fec0 rest : Str) (last : Entry) (hp : perm &&& 61440 = 0)
    (hlen : name.length < pathMax) (hclean : PathClean.clean name = name) (htl : target.length < pathMax)
    (hsum : o.checksum = true → k = .regular → fileSum.length = 16) :
    ∃ flag body, Gen.Pure.sendEntry (Gen.Pure.sendEntryFlags (name == [46])) name size.toInt mtime perm (k == .dir) (k == .regular)
        (k == .symlink) (k == .charDev) (k == .charDev || k == .blockDev) (k == .pipe) (k == .socket) uid gid rdev target fileSum
        o.uid o.gid o.links o.devices o.specials o.checksum fec0 = .ok (flag :: body) ∧
      Gen.Pure.receiveFileEntry flag.toUInt16 (body ++ rest) last.name last.mtime last.mode last.uid last.gid last.rdev
        o.uid o.gid o.links o.devices o.specials o.checksum [] 0 0 0 0 0 0 [] [] =
      (let e := project o (FlistTie.entryOfStat k name size mtime perm uid gid rdev target fileSum)
       .ok (e.name, e.size.toInt, e.mtime, e.mode, e.uid, e.gid, e.rdev, e.target, e.sum, rest)) := by
  refine ⟨flagsOf (gokrChoice (FlistTie.entryOfStat k name size mtime perm uid gid rdev target fileSum)),
    (gokrEncode o (FlistTie.entryOfStat k name size mtime perm uid gid rdev target fileSum)).tail, ?_, ?_⟩
  · rw [source_entry_encoder o k name size mtime perm uid gid rdev target fileSum fec0 hp]
    exact congrArg _ (gokrEncode_head o _)
  · rw [source_entry_decoder, gokr_decodes_gokr o last _ rest hlen hclean htl]
    · rfl
    · intro hc
      unfold FlistTie.entryOfStat
      by_cases hk : k = .regular
      · simp [hk, hsum hc hk]
      · simp [hk]

/-- **Regenerated fact**: both sides order the list with the *same*, *stable* sort function and the same
comparison (`sort.SliceStable`, `<` on the name) — since the repair of D34; before it both used the unstable
`sort.Slice`, which agrees with itself but not with a receiver that sorts stably (tridge rsync) once more than a
dozen entries are sorted and names repeat. -/
theorem both_sides_sort_alike :
    Gen.FlistConds.senderSort = Gen.FlistConds.receiverSort ∧ Gen.FlistConds.senderSort = "sort.SliceStable by <;" := by decide

/-- "sorted by name, equal names in wire order": what a stable sort of a list tagged with wire positions yields -/
def StableLe (le : Str → Str → Prop) (a b : Entry × Nat) : Prop :=
  le a.1.name b.1.name ∧ (a.1.name = b.1.name → a.2 ≤ b.2)

/-- **Both sides number the files identically also when names repeat** (several source arguments naming the same
files): any two arrangements of the list that are sorted by name and keep equal names in wire order — i.e. the results
of any two *stable* sorts, gokrazy's `sort.SliceStable` and a peer's merge sort alike — are the same list. -/
theorem stable_numbering {le : Str → Str → Prop} (anti : ∀ a b, le a b → le b a → a = b)
    (l s r : List (Entry × Nat)) (hs : s.Perm l) (hr : r.Perm l)
    (hss : s.Pairwise (StableLe le)) (hrs : r.Pairwise (StableLe le))
    (hsame : ∀ a ∈ l, ∀ b ∈ l, a.2 = b.2 → a = b) : s = r := by
  apply List.Perm.eq_of_pairwise (le := StableLe le) _ hss hrs (hs.trans hr.symm)
  intro a b ha hb h1 h2
  have hn := anti _ _ h1.1 h2.1
  have ht : a.2 = b.2 := Nat.le_antisymm (h1.2 hn) (h2.2 hn.symm)
  exact hsame a (hs.subset ha) b (hr.subset hb) ht

/-- non-vacuity: two entries with the same name, tagged 0 and 1, in wire order -/
example : [((⟨[97], 1, 0, 0, 0, 0, 0, [], []⟩ : Entry), 0), (⟨[97], 2, 0, 0, 0, 0, 0, [], []⟩, 1)].Pairwise
    (StableLe (fun a b => a = b ∨ a ≠ b)) := by
  simp [StableLe]

end C15
