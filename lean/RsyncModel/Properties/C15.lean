import RsyncModel.Gen.FlistConds
import RsyncModel.PureTie
import RsyncModel.FlistThm
import RsyncModel.RoundTrip
/-! # C15 — the wire format conforms to rsync protocol 27

Flag values, mode bits, `PATH_MAX` and the protocol version are regenerated from the source. The
reference encoder `refEncode` is written from the protocol-27 description (rsync 2.6.x
`send_file_entry`), with every compression choice a conforming sender may make as a parameter. -/
namespace C15
open Flist Wire

/-- int32 on the wire round-trips for every value -/
theorem int32_roundtrip (v : Int32) (rest : Str) : decI32 (encI32 v ++ rest) = some (v, rest) := decI32_encI32 v rest

/-- the 32/64-bit "long" (int32, or −1 followed by int64) round-trips for every 64-bit value:
0, 2³¹−1, 2³¹, 2⁴⁰ and negative values included -/
theorem long_roundtrip (v : Int64) (rest : Str) : decLong (encLong v ++ rest) = some (v, rest) := decLong_encLong v rest

/-- the checksum header (four int32) round-trips for every header the receiver accepts -/
theorem sumhead_roundtrip (h : Delta.Head) (r : Str) (ok : Recv.HeadOk h) :
    Recv.readHead (Recv.encHead h ++ r) = .ok (h, r) := Recv.readHead_encHead h r ok

/-- **Every legal protocol-27 encoding of an entry is decoded into exactly the entry that was
sent**: name-prefix compression with any shared prefix ≤ 255, one-byte and four-byte name lengths,
`SAME_MODE/TIME/UID/GID/RDEV` whenever the value repeats, 32- and 64-bit file lengths. -/
theorem gokr_decodes_reference_encoding (o : Opts) (c : Choice) (last e : Entry) (rest : Str)
    (ok : ChoiceOk o c last e) (hclean : PathClean.clean e.name = e.name)
    (htl : e.target.length < pathMax) (hsum : o.checksum = true → e.sum.length = 16) :
    decodeEntry o (flagsOf c) last ((refEncode o c e).tail ++ rest) = .ok (project o e, rest) :=
  decode_refEncode o c last e rest ok hclean htl hsum

/-- the same for whole lists (entries in wire order, the zero flag byte terminates) -/
theorem gokr_decodes_reference_list (o : Opts) (ces : List (Choice × Entry)) (rest : Str)
    (h : Chain o zeroEntry ces) :
    decodeList o zeroEntry (ces.length + 1) (encodeList o ces ++ rest) = .ok (ces.map (fun ce => project o ce.2), rest) :=
  decodeList_encodeList o ces zeroEntry rest (ces.length + 1) (Nat.lt_succ_self _) h

/-- **gokrazy's own encoding is a legal protocol-27 encoding** (long name, nothing shared,
`XMIT_TOP_DIR` on `.`), and is read back by its own decoder. -/
theorem gokr_encoding_is_legal (o : Opts) (e : Entry) : gokrEncode o e = refEncode o (gokrChoice e) e :=
  gokrEncode_eq_ref o e

theorem gokr_decodes_gokr (o : Opts) (last e : Entry) (rest : Str) (hlen : e.name.length < pathMax)
    (hclean : PathClean.clean e.name = e.name) (htl : e.target.length < pathMax)
    (hsum : o.checksum = true → e.sum.length = 16) :
    decodeEntry o (flagsOf (gokrChoice e)) last ((gokrEncode o e).tail ++ rest) = .ok (project o e, rest) :=
  decode_gokrEncode o last e rest hlen hclean htl hsum

/-- **Both sides number the files identically** when names are distinct. -/
theorem same_numbering {le : Str → Str → Prop} (anti : ∀ a b, le a b → le b a → a = b)
    (l s r : List Entry) (hs : s.Perm l) (hr : r.Perm l)
    (hss : s.Pairwise (fun x y => le x.name y.name)) (hrs : r.Pairwise (fun x y => le x.name y.name))
    (hnd : (l.map (·.name)).Nodup) : s = r := index_agreement anti l s r hs hr hss hrs hnd

/-- the protocol version spoken is 27 and the flag/mode constants are the protocol's (regenerated) -/
theorem protocol_constants :
    Gen.Consts.ProtocolVersion = 27 ∧ Gen.Consts.XMIT_TOP_DIR = 1 ∧ Gen.Consts.XMIT_SAME_MODE = 2 ∧
    Gen.Consts.XMIT_SAME_RDEV_pre28 = 4 ∧ Gen.Consts.XMIT_SAME_UID = 8 ∧ Gen.Consts.XMIT_SAME_GID = 16 ∧
    Gen.Consts.XMIT_SAME_NAME = 32 ∧ Gen.Consts.XMIT_LONG_NAME = 64 ∧ Gen.Consts.XMIT_SAME_TIME = 128 ∧
    Gen.Consts.S_IFMT = 0o170000 ∧ Gen.Consts.S_IFDIR = 0o040000 ∧ Gen.Consts.S_IFREG = 0o100000 ∧
    Gen.Consts.S_IFLNK = 0o120000 ∧ Gen.Consts.S_IFCHR = 0o020000 ∧ Gen.Consts.S_IFBLK = 0o060000 ∧
    Gen.Consts.S_IFIFO = 0o010000 ∧ Gen.Consts.S_IFSOCK = 0o140000 := by decide

/-- non-vacuity: a concrete compressed two-entry list (`abc`, then `abd` sharing two bytes, same
time and mode, one-byte length) meets `Chain` -/
example : Chain ⟨false, false, false, false, false, false⟩ zeroEntry
    [(⟨0, true, false, false, false, false, false, false⟩, ⟨[97, 98, 99], 5, 7, 0o100644, 0, 0, 0, [], []⟩),
     (⟨2, false, true, true, false, false, false, false⟩, ⟨[97, 98, 100], 1099511627776, 7, 0o100644, 0, 0, 0, [], []⟩)] := by
  refine ⟨⟨by decide, by decide, by decide, by decide, by decide, by decide, by decide, by decide, by decide, by decide, by decide⟩,
    by decide, by decide, by decide, by decide,
    ⟨⟨by decide, by decide, by decide, by decide, by decide, by decide, by decide, by decide, by decide, by decide, by decide⟩,
     by decide, by decide, by decide, by decide, trivial⟩⟩


/-! ### Tie to the source (regenerated translation `Gen.Pure`) -/

/-- `WriteInt64` (both the connection's and the buffer's) sends 32 bits exactly when the model's
`encLong` does: the condition is translated from /repo on every run -/
theorem source_long_threshold (v : Int64) :
    Gen.Pure.int64Short v.toInt false = decide (0 ≤ v ∧ v ≤ 0x7FFFFFFF) ∧
    Gen.Pure.int64ShortBuf v.toInt false = Gen.Pure.int64Short v.toInt false :=
  ⟨PureTie.int64Short_tied v, PureTie.int64ShortBuf_tied v.toInt⟩


/-- **Regenerated fact**: both sides order the list with the *same* sort function and the same
comparison (`sort.Slice`, `<` on the name). `same_numbering` needs distinct names because that sort is
not stable; for lists with equal names (several sources naming the same file) the two sides still
agree as long as they run the same deterministic algorithm on the same wire order — which is what
this fact pins. A stable sort on one side only numbers equal names differently. -/
theorem both_sides_sort_alike :
    Gen.FlistConds.senderSort = Gen.FlistConds.receiverSort ∧ Gen.FlistConds.senderSort = "sort.Slice by <;" := by decide

end C15
