import RsyncModel.PeerInput
import RsyncModel.Gen.ConnUse
import RsyncModel.PureTie
import RsyncModel.MuxThm
/-! # C17 — multiplex framing is transparent

Property theorems only (statements + proofs by reference to `MuxThm`); every constant
(`mplexBase`, tags, `maxMessageSize`, the client's bufio size) comes from `Gen.Consts`, regenerated
from `/repo` on every run. -/
namespace C17
open Mux Wire

/-- **Server side**: every frame within the size limit is well formed — its 4-byte header carries
`(7+tag)<<24 | len` and decoding it returns the same tag and the payload unchanged; a whole
sequence of frames followed by anything parses to exactly those frames. -/
theorem server_frames_roundtrip (fs : List Frame) (rest : Bytes)
    (h : ∀ f ∈ fs, f.payload.length ≤ maxMsg) :
    parse (encFrames fs ++ rest) = (fs ++ (parse rest).1, (parse rest).2) :=
  parse_encFrames fs rest h

/-- **Regenerated fact**: the client's `bufio.Reader` (ClientRun) is at least as large as the frame
size limit `maxMessageSize` enforced by `ReadMsg`, and the limit fits the 24-bit length field. -/
theorem client_buffer_covers_limit : maxMsg ≤ Gen.Consts.clientBufSize ∧ maxMsg < 2^24 := by decide

/-- **No reader panic, for every byte stream** a server (or anyone) may send, every request size
and every buffer state: `MultiplexReader.Read`'s `panic("not enough buffer space")` is unreachable
behind the client's buffer. -/
theorem client_never_panics (stream : Bytes) (buffered : Bytes) (k : Nat) (acc : Bytes) :
    (readFull Gen.Consts.clientBufSize k acc ⟨buffered, (parse stream).1, (parse stream).2⟩).1 ≠ Res.panic :=
  readFull_no_panic _ client_buffer_covers_limit.1 k acc _ (parse_payload_le stream)

/-- **Transparency**: what a `ReadFull` returns is the next `k` bytes of the concatenated *data*
payloads — for every split into frames of any legal size (including empty ones), with info frames
anywhere and however many. -/
theorem client_reads_data_only (k : Nat) (acc : Bytes) (st : St)
    (hben : Benign st.frames) (hk : k ≤ (view st).length) :
    ∃ st', readFull Gen.Consts.clientBufSize k acc st = (Res.ok (acc ++ (view st).take k), st') ∧
      view st' = (view st).drop k ∧ Benign st'.frames ∧ st'.fin = st.fin :=
  readFull_spec _ client_buffer_covers_limit.1 k acc st hben hk

/-- Two framings of the same data are indistinguishable to a client read. -/
theorem reframing_invariant (k : Nat) (fs gs : List Frame) (e e' : End)
    (hf : Benign fs) (hg : Benign gs) (hd : dataOf fs = dataOf gs) (hk : k ≤ (dataOf fs).length) :
    (readFull Gen.Consts.clientBufSize k [] ⟨[], fs, e⟩).1 = (readFull Gen.Consts.clientBufSize k [] ⟨[], gs, e'⟩).1 := by
  obtain ⟨s1, h1, _⟩ := client_reads_data_only k [] ⟨[], fs, e⟩ hf (by simpa [view] using hk)
  obtain ⟨s2, h2, _⟩ := client_reads_data_only k [] ⟨[], gs, e'⟩ hg (by simpa [view, ← hd] using hk)
  rw [h1, h2]; simp [view, hd]

/-- non-vacuity: a concrete benign framing with empty, info and data frames meets the hypotheses -/
example : Benign [⟨tagData, []⟩, ⟨tagInfo, [1, 2]⟩, ⟨tagData, [3]⟩, ⟨tagData, [4, 5]⟩] ∧
    dataOf [⟨tagData, []⟩, ⟨tagInfo, [1, 2]⟩, ⟨tagData, [3]⟩, ⟨tagData, [4, 5]⟩] = dataOf [⟨tagData, [3, 4, 5]⟩] := by
  constructor
  · intro f hf
    simp at hf
    rcases hf with h | h | h | h <;> subst h <;> decide
  · decide


/-! ### Tie to the source (regenerated translation `Gen.Pure`) -/

/-- the header expression of `WriteMsg` and the decoding in `ReadMsg`, translated from /repo on
every run, are the model's `header`, `tagOf`, `lenOf` -/
theorem source_header (tag : UInt8) (p bs : Bytes) (t0 : UInt8) :
    Gen.Pure.muxHeader tag p = header tag p.length ∧
    Gen.Pure.muxDecode (hdrOf bs) t0 = (tagOf bs, hdrOf bs &&& 0x00FFFFFF) :=
  ⟨PureTie.muxHeader_tied tag p, PureTie.muxDecode_tied bs t0⟩


/-- **Regenerated fact**: every read of the wire layer (`rsyncwire.Conn`, the counting reader, the
demultiplexer) goes through `io.ReadFull` / `binary.Read` / the underlying `Read`. None goes through a
buffered reader's byte-wise path (`ReadByte`, `Peek`, `ReadString`), which gives up with
`io.ErrNoProgress` after 100 reads that return no data — exactly what a run of info frames or empty
data frames makes the demultiplexer's `Read` do. `client_reads_data_only` (any number of such frames
anywhere) rests on this. -/
theorem wire_reads_through_readfull :
    Gen.ConnUse.wireReads = ["CountingReader.Read: r.R.Read", "Conn.ReadByte: io.ReadFull", "Conn.ReadInt32: io.ReadFull",
      "Conn.ReadInt64: c.ReadInt32", "Conn.ReadInt64: binary.Read", "MultiplexReader.ReadMsg: binary.Read",
      "MultiplexReader.ReadMsg: io.ReadFull"] := by decide


/-- **`ReadMsg` as the source has it reads exactly the model's first frame** (translated from /repo
on every run): same tag, same payload, same unread rest as `Mux.parse` finds; an error exactly when
the input is short or the declared length exceeds the limit -/
theorem source_read_msg (inp : Bytes) :
    Gen.Pure.ReadMsg inp =
      if inp.length < 4 then .err
      else if lenOf inp > maxMsg then .err
      else if (inp.drop 4).length < lenOf inp then .err
      else .ok (tagOf inp, (inp.drop 4).take (lenOf inp), (inp.drop 4).drop (lenOf inp)) :=
  PeerInput.readMsg_tied inp

end C17
