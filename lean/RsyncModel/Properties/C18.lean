import RsyncModel.Proto
import RsyncModel.ProtoFail
import RsyncModel.Gen.ConnUse
/-! # C18 — sessions terminate and do not interfere under any interleaving

The message-level model (`Proto`): the generator G only *sends* on channel A (requests, checksum
lists), the receiver R only *receives* on channel B (file data), the sender S alternates between
receiving a request and sending that file's data, in any program. Channels are FIFOs of arbitrary
capacity, 0 included (a rendezvous, as `io.Pipe` in a local copy). The theorems hold for every pair
of capacities, every program of S (any mix of tiny files, huge literals, huge checksum lists — units
are abstract) and every schedule.

What the model rests on is *structural* and regenerated from the source on every run
(`Gen.ConnUse`): which goroutine reads and which writes the connection, and the complete inventory of
blocking primitives (goroutines, channels, locks) of the transfer packages. A lock shared by G and R,
an acknowledgement read by G, or a second goroutine in S would each be a new wait-for edge the model
does not have — and each changes the regenerated facts. -/
namespace C18
open Proto Gen.ConnUse

/-- **no deadlock**: in every state reachable in a session that is not finished, some party can
move — for all capacities (0 = unbuffered pipe, 1, small, 64 KiB, unbounded alike) -/
theorem deadlock_free (ca cb : Nat) (st : St) (h : Inv ca cb st) : terminal st ∨ ∃ st', Step ca cb st st' :=
  progress ca cb st h

/-- the invariant holds initially and is kept by every step, hence in every reachable state -/
inductive Reach (ca cb : Nat) (prog : List SAct) : St → Prop
  | init : Reach ca cb prog (init prog)
  | step (st st' : St) : Reach ca cb prog st → Step ca cb st st' → Reach ca cb prog st'

theorem reachable_inv (ca cb : Nat) (prog : List SAct) (st : St) (h : Reach ca cb prog st) : Inv ca cb st := by
  induction h with
  | init => exact init_inv ca cb prog
  | step st st' _ hs ih => exact preserve ca cb st st' ih hs

theorem reachable_progress (ca cb : Nat) (prog : List SAct) (st : St) (h : Reach ca cb prog st) :
    terminal st ∨ ∃ st', Step ca cb st st' := progress ca cb st (reachable_inv ca cb prog st h)

/-- a run: a chain of steps -/
inductive Run (ca cb : Nat) : St → Nat → St → Prop
  | nil (st : St) : Run ca cb st 0 st
  | cons (st st' st'' : St) (n : Nat) : Step ca cb st st' → Run ca cb st' n st'' → Run ca cb st (n + 1) st''

/-- **termination under every schedule, fair or not**: no run is longer than the initial measure
(twice the number of message units plus what is in flight) -/
theorem run_bounded (ca cb : Nat) (st st' : St) (n : Nat) (h : Run ca cb st n st') : n + measure st' ≤ measure st := by
  induction h with
  | nil st => omega
  | cons st st1 st2 n hs _ ih =>
    have := measure_decreases ca cb st st1 hs
    omega

theorem session_terminates (ca cb : Nat) (prog : List SAct) (st' : St) (n : Nat) (h : Run ca cb (init prog) n st') :
    n ≤ measure (init prog) := by
  have := run_bounded ca cb _ _ n h; omega

/-- a run that cannot be extended has finished: it does not end in a deadlock -/
theorem maximal_run_finishes (ca cb : Nat) (prog : List SAct) (st : St) (h : Reach ca cb prog st)
    (hmax : ¬ ∃ st', Step ca cb st st') : terminal st := by
  rcases reachable_progress ca cb prog st h with ht | hs
  · exact ht
  · exact absurd hs hmax

/-! ## the structure the model stands for (regenerated) -/

def topologyOk : Bool :=
  -- the generator side never reads the connection, the receiver side never writes it
  generatorReads == [] && receiverWrites == [] && !generatorWrites.isEmpty && !receiverReads.isEmpty &&
  -- blocking primitives of the receiving code: the two goroutines of Do (errgroup), waitFor's result channel, and the wait
  -- group `bg` that only the *closing of the destination root* waits on, in a goroutine of its own (D54: the root stays open
  -- until both goroutines of Do have finished); nothing the session's progress depends on
  receiverPrimitives == ["CloseWhenDone: go", "CloseWhenDone: Wait on rt.bg", "Do: eg.Go", "Do: eg.Go", "Do: Wait on eg",
    "waitFor: make-chan", "waitFor: go", "waitFor: chan-send", "waitFor: select", "waitFor: chan-recv", "waitFor: chan-recv",
    "field bg *sync.WaitGroup", "field bg sync.WaitGroup"] &&
  -- of the sending code: the per-file hash helper (joined before the trailer is written) and the two name-lookup Once values
  senderPrimitives == ["sendFile: eg.Go", "sendFile: Wait on eg", "walkFn: once.Do", "walkFn: once.Do",
    "var lookupOnce sync.Once", "var lookupGroupOnce sync.Once"] &&
  wirePrimitives == [] &&
  -- sessions share no mutable state: no function assigns a field of *Server (outside NewServer) or a package-level variable
  sharedWrites == [] &&
  -- and the only package-level variables are constants-in-disguise (option tables, an error value), the two
  -- Once values and the receiver's identity (amRoot/inGroup, set at start-up and only read: sharedWrites = []): no pool, cache or counter
  packageVars == ["internal/receiver.amRoot", "internal/receiver.inGroup", "internal/rsyncopts.debugWords",
    "internal/rsyncopts.errNotYetImplemented", "internal/rsyncopts.gokrazyDefaults", "internal/rsyncopts.infoWords",
    "internal/rsyncopts.tridgeDefaults", "internal/sender.lookupGroupOnce", "internal/sender.lookupOnce"]

theorem topology : topologyOk = true := by decide +kernel

/-! ## a session whose receiving side fails in the middle (D31)

`ProtoFail`: the receiving endpoint has failed, owes its peer an error message and then closes; the
sending peer S is anywhere in its program. Whether the failed endpoint keeps consuming what S still
sends is a fact regenerated from the source (`Gen.ConnUse.receiverErrorDrains`: in rsyncd's deferred
error handler of the receiving role, `go io.Copy(io.Discard, crd)` stands before the error frame is
written). -/

/-- **a failed session ends too**: with what the source does now, in every state in which the peer
has not stopped some step is enabled — for all capacities (0 = `io.Pipe`, the transport of every
local copy), every position of the peer in its program (in the middle of a file of any size), every
length of the error message — and every step decreases `ProtoFail.measure`, so every schedule ends. -/
theorem failing_receiver_ends (ca cb : Nat) (st : ProtoFail.St) (h : st.s ≠ []) :
    (∃ st', ProtoFail.Step receiverErrorDrains ca cb st st') ∧
    (∀ st', ProtoFail.Step receiverErrorDrains ca cb st st' → ProtoFail.measure st' < ProtoFail.measure st) := by
  have hd : receiverErrorDrains = true := by decide
  rw [hd]
  exact ⟨ProtoFail.progress_drain ca cb st h, fun st' hs => ProtoFail.measure_decreases true ca cb st st' hs⟩

/-- the generator stops requesting files once the session has failed (regenerated fact), so the
number of further requests `g` in the model is what was already under way -/
theorem generator_stops_on_failure : generatorStopsOnCancel = true := by decide

/-- **and without the draining it did not** (kept as the kernel-checked counterexample of the defect
that was repaired): the peer in the middle of a file, nobody reading, the error message stuck behind
a rendezvous or a full pipe — not finished, no step enabled, for every message length and backlog. -/
theorem failing_receiver_deadlocked_before_repair (ca cb msg : Nat) (s' : List SAct) (hmsg : 0 < msg) :
    ¬ ∃ st', ProtoFail.Step false ca cb ⟨0, msg, SAct.sendB :: s', 0, ca, cb⟩ st' :=
  ProtoFail.no_drain_deadlock_small ca cb msg s' hmsg

/-- non-vacuity: a session over rendezvous pipes in both directions, three files -/
example : Inv 0 0 (init [.recvA, .sendB, .recvA, .recvA, .sendB, .sendB, .sendB]) := init_inv 0 0 _

end C18
