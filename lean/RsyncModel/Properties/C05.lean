import RsyncModel.RootFs
import RsyncModel.FsSitesSpec
import RsyncModel.PathClean
/-! # C05 — a receiver never touches anything outside its destination directory

Three layers. (1) The contract of `*os.Root`, as an executable model validated against the real
thing by the `rootfs` suite: a successful resolution lies at or below the root, for every tree,
every set of symbolic links and every name. (2) The regenerated table of *every* file-system call
site of the receiving code: each names its target through the root handle (or fd-relative to a
directory opened through it, or on an already open handle), the daemon's raw paths are exactly the
configured module path, and every name that reaches a root method is slash-clean. (3) The names
themselves: what `filepath.Base` of a cleaned name can be (device nodes, fifos and sockets are
created relative to a root-resolved parent directory under that base name). -/
namespace C05
open RootFs

/-- **confinement of the contract**: whatever the file-system tree, whatever symbolic links exist or
were created earlier in the same transfer (inside-, outside-, upward-pointing, absolute, dangling,
circular), and whatever name a hostile file list carries (`..`, absolute, through links), a method of
the root either fails or reaches a location at or below the root -/
theorem root_confined (fs : FS) (root : Loc) (follow : Bool) (name : List UInt8) (loc : Loc)
    (h : openName fs root follow name = .res (.ok loc)) : root <+: loc :=
  openName_confined fs root follow name loc h

/-- an absolute name is refused outright, and `..` from the root escapes -/
theorem absolute_refused (fs : FS) (root : Loc) (follow : Bool) (rest : List UInt8) :
    openName fs root follow (47 :: rest) = .res .escapes := by
  simp [openName]

theorem dotdot_at_root_refused (fs : FS) (root : Loc) (follow : Bool) (n : Nat) (rest : List Name) :
    resolve fs root follow (n + 1) root (dotdot :: rest) = .escapes := by
  simp [resolve, dotdot, dot]

/-- a symbolic link with an absolute target is never followed -/
theorem absolute_link_refused (fs : FS) (root cur : Loc) (n : Nat) (c : Name) (t : List Name) (rest : List Name)
    (hc : c ≠ [] ∧ c ≠ dot ∧ c ≠ dotdot) (hl : fs (cur ++ [c]) = some (.link t true)) (hr : rest ≠ []) :
    resolve fs root true (n + 1) cur (c :: rest) = .escapes := by
  have h1 : (c == [] || c == dot) = false := by simp [hc.1, hc.2.1]
  have h2 : (c == dotdot) = false := by simp [hc.2.2]
  have h3 : rest.isEmpty = false := by cases rest <;> simp_all
  simp only [resolve, h1, h2, hl, h3, Bool.false_eq_true, if_false, Bool.false_and, if_true]

/-- **every file-system call site of the receiving code is confined** (regenerated table, decided
over the whole table): through the root / fd-relative / open handle only; no raw path in the
receiver; in the daemon only the configured module path; every name handed to a root method is
slash-clean (decoded names are cleaned, the daemon's subdirectory argument is cleaned — D28) -/
theorem receiver_sites_confined :
    FsSitesSpec.receiverConfined = true ∧ FsSitesSpec.daemonRawOnlyModuleRoot = true ∧
    FsSitesSpec.rawArgsPinned = true ∧ FsSitesSpec.rootNamesClean = true :=
  ⟨FsSitesSpec.receiver_sites_confined, FsSitesSpec.daemon_sites_guarded.2, FsSitesSpec.raw_args_pinned, FsSitesSpec.root_names_clean⟩

/-! ### the base name device nodes are created under -/

/-- last component of a slash-separated name (`filepath.Base` of a cleaned, non-root name) -/
def base (s : List UInt8) : List UInt8 := ((PathClean.splitSlash s).getLast?).getD []

theorem splitSlash_no_slash (s : List UInt8) : ∀ c ∈ PathClean.splitSlash s, PathClean.slash ∉ c := by
  induction s with
  | nil => simp [PathClean.splitSlash]
  | cons b rest ih =>
    intro c hc
    simp only [PathClean.splitSlash, List.foldr_cons] at hc ih
    by_cases hb : (b == PathClean.slash) = true
    · simp only [hb, if_true, List.mem_cons] at hc
      rcases hc with rfl | hc
      · simp
      · exact ih c hc
    · simp only [hb, Bool.false_eq_true, if_false] at hc
      split at hc
      · simp only [List.mem_singleton] at hc
        subst hc
        simp only [List.mem_singleton]
        intro e; rw [← e] at hb; simp at hb
      · rename_i x r hx
        simp only [List.mem_cons] at hc
        rcases hc with rfl | hc
        · intro hm
          simp only [List.mem_cons] at hm
          rcases hm with e | hm
          · rw [← e] at hb; simp at hb
          · exact ih x (by rw [hx]; simp) hm
        · exact ih c (by rw [hx]; simp [hc])

/-- **the name given to `mknodat`/`mkfifoat`/`bind` contains no slash**: it names an entry of the
root-resolved parent directory and nothing else -/
theorem device_base_safe (s : List UInt8) : PathClean.slash ∉ base s := by
  unfold base
  cases h : (PathClean.splitSlash s).getLast? with
  | none => simp
  | some c =>
    simp only [Option.getD_some]
    exact splitSlash_no_slash s c (List.mem_of_getLast? h)

/-- non-vacuity: a tree with an outside-pointing link; the name through it is refused, the name beside it resolves inside -/
example :
    let fs : FS := fun l =>
      if l == [[114]] then some .dir                      -- /r (the root)
      else if l == [[114], [108]] then some (.link [dotdot, [111]] false)   -- /r/l -> ../o
      else if l == [[111]] then some .dir                 -- /o (outside)
      else if l == [[114], [102]] then some .file
      else none
    openName fs [[114]] true [108, 47, 120] = .res .escapes ∧ openName fs [[114]] true [102] = .res (.ok [[114], [102]]) := by
  decide

end C05
