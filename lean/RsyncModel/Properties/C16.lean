import RsyncModel.TagTable
import RsyncModel.PureTie
import RsyncModel.Delta.Honest
import RsyncModel.Delta.GoThm
/-! # C16 — unchanged data is not re-sent: matches are found at every byte offset -/
namespace C16
open Spec Delta

/-- **Greedy completeness**: a byte is sent as a literal only if no block of the signature matches
the window that starts at that byte — at whatever offset the scan is. -/
theorem literal_only_if_no_match (c : Ctx) (p : Pick c) (x : UInt8) (xs : Bytes) (r : List Tok)
    (h : greedy c p (x :: xs) = Tok.lit x :: r) : ∀ i, c.matches (c.win (x :: xs)) i = false :=
  literal_only_if_no_match' c p x xs r h

/-- **An identical file costs no literal data at all.** -/
theorem identical_no_literal (c : Ctx) (p : Pick c) (basis : Bytes)
    (hb : c.blocks = honestBlocks c.W c.H (splitBlocks c.blm1 basis)) :
    ∀ tok ∈ greedy c p basis, ∃ i, tok = Tok.ref i :=
  identical_refs_only c p basis hb

/-- **Leftmost matching**: unmatched bytes in front of the scan position cost exactly themselves. -/
theorem skip_unmatched (c : Ctx) (p : Pick c) (u v : Bytes)
    (h : ∀ k, k < u.length → p.f (c.win ((u ++ v).drop k)) = none) :
    greedy c p (u ++ v) = u.map Tok.lit ++ greedy c p v :=
  greedy_skip_unmatched c p u v h

/-- **Matches at every byte offset**: data shifted by an insertion of *any* length (so that block
boundaries fall on arbitrary, unaligned offsets of the new file) is transmitted as references; the
literal data is the insertion itself (when no window that starts inside the insertion happens to
match a block — the formal content of "high-entropy data"). -/
theorem shifted_data_found (c : Ctx) (p : Pick c) (ins basis : Bytes)
    (hb : c.blocks = honestBlocks c.W c.H (splitBlocks c.blm1 basis))
    (hno : ∀ k, k < ins.length → p.f (c.win ((ins ++ basis).drop k)) = none) :
    ∃ refs : List Tok, (∀ tok ∈ refs, ∃ i, tok = Tok.ref i) ∧
      greedy c p (ins ++ basis) = ins.map Tok.lit ++ refs :=
  shifted_identical c p ins basis hb hno

/-- The Go-level loop emits the specification's tokens, so all of the above hold for the real
sender's stream (refinement, see C02). -/
theorem go_loop_is_greedy (Hs : Bytes → Bytes) (h : Head) (sums : List Delta.Sum) (t : Bytes)
    (hbl : h.bl < 4294967296) :
    flat (senderTokens Hs h sums t) =
      greedy (mkCtx Hs h sums) (pickGo (mkCtx Hs h sums) (mkCtx_W Hs h sums)) t :=
  senderTokens_eq_greedy Hs h sums t hbl

/-- The rolling pair is the weak sum of the current window at every loop head (the invariant that
makes matching work at offsets other than 0 and other than right after a match). -/
theorem rolling_invariant (c : Ctx) (hbl : c.bl < 4294967296) (x : UInt8) (xs : Bytes) :
    rollGo c (wsum (c.win (x :: xs))) x xs = wsum (c.win xs) := rollGo_wsum c hbl x xs


/-! ### Tie to the source (regenerated translation `Gen.Pure`, see `tools/extract/pure.go`) -/

/-- **The rolling update the source performs is exact.** `Gen.Pure.rollUpdate` is the translation of
the statements `s1 -= SignExtend(update[0]) … s2 = uint32(uint16(s2))` of `hashSearch`, regenerated
from /repo on every run: from the weak sum of the window `x :: w` (any length, any position in the
file) it produces the weak sum of the window shifted by one byte, `w ++ [y]` — so matches are found
at every byte offset, not only on block boundaries. No index is out of range. -/
theorem source_rolling_update (x y : UInt8) (w tl : Bytes) :
    Gen.Pure.rollUpdate (wsum (x :: w)).1 (wsum (x :: w)).2 ((w.length + 1 : Nat) : Int) (x :: (w ++ y :: tl)) true
      = .ok ((wsum (w ++ [y])).1, (wsum (w ++ [y])).2, ((w.length + 1 : Nat) : Int)) :=
  PureTie.rollUpdate_wsum x y w tl

/-- at the end of the file (no further byte) the source's update is the weak sum of the shrunk window -/
theorem source_rolling_update_last (x : UInt8) (w : Bytes) :
    Gen.Pure.rollUpdate (wsum (x :: w)).1 (wsum (x :: w)).2 ((w.length + 1 : Nat) : Int) (x :: w) false
      = .ok ((wsum w).1, (wsum w).2, (w.length : Int)) :=
  PureTie.rollUpdate_wsum_last x w

/-- the source's `Checksum1` (4-unrolled loop, regenerated) yields, through the halves `readChunk`
takes, exactly the weak sum the rolling update maintains: generator and sender agree on it -/
theorem source_checksum1_is_weak_sum (buf : Bytes) :
    ∃ v, Gen.Pure.Checksum1 buf = .ok v ∧ Gen.Pure.sumHalves v 0 0 = wsum buf := by
  refine ⟨checksum1 buf, PureTie.checksum1_tied buf, ?_⟩
  rw [PureTie.sumHalves_tied]; exact checksum1_halves buf

/-- the packed sum compared with `Sum1` and the 16-bit tag are the model's -/
theorem source_pack_and_tag (s1 s2 x sum : UInt32) :
    Gen.Pure.packSum s1 s2 x = pack (s1, s2) ∧ Gen.Pure.Tag sum = tag sum :=
  ⟨PureTie.packSum_tied s1 s2 x, PureTie.tag_tied sum⟩


/-- **one pass of the source's rolling update is the algorithm level's step `rollGo`** — the step
about which the refinement chain (Go-level loop ⊑ Alg-B ⊑ Alg-A ⊑ greedy) is proved: with the window
length `k` and the flag `more` as `hashSearch` computes them, the statements translated from /repo
return `rollGo`'s pair, whether a byte follows the window or the window only shrinks. -/
theorem source_rolling_update_is_model_step (c : Ctx) (s : UInt32 × UInt32) (x : UInt8) (xs : Bytes) :
    (c.bl ≤ xs.length →
      Gen.Pure.rollUpdate s.1 s.2 (c.bl : Int) (x :: xs) true = .ok ((rollGo c s x xs).1, (rollGo c s x xs).2, (c.bl : Int))) ∧
    (¬ c.bl ≤ xs.length →
      Gen.Pure.rollUpdate s.1 s.2 ((xs.length + 1 : Nat) : Int) (x :: xs) false
        = .ok ((rollGo c s x xs).1, (rollGo c s x xs).2, (xs.length : Int))) :=
  PureTie.rollUpdate_is_rollGo c s x xs

/-! ### The tag table: a pre-filter that misses nothing -/

/-- **every block with the window's tag is a candidate**: for a table of `(tag, block)` pairs sorted
by tag — any number of blocks, any multiplicity of a tag, any block index — the scan `hashSearch`
performs from the table's first entry for the tag, while the tag stays equal, visits exactly the
blocks with that tag. So whether a match is found does not depend on where in the (arbitrarily
large) signature the block stands. -/
theorem tag_lookup_complete (targets : List (Nat × Nat)) (t : Nat) (hs : TagTable.SortedByTag targets) :
    TagTable.lookup targets t = (targets.filter (fun p => p.1 == t)).map (·.2) :=
  TagTable.lookup_complete targets t hs

/-- **Regenerated (as text)**: how `SendFiles` builds that table — one pair per block carrying the
block's *full* index and `Tag(sum1)`, sorted by tag alone with `sort.Slice`, the index map filled
from the back so that it points at the first entry of each tag. (The construction sorts structs
through a closure and fills a map, which the translator does not cover; it is pinned verbatim, so a
different key, a truncated index or another fill order is a broken obligation.) -/
theorem tag_table_construction :
    Gen.Pure.tagTableSetup = ["targets := make([]target, len(head.Sums))", "tagTable := make(map[uint16]int)",
      "{ for idx, sum := range head.Sums { targets[idx] = target{ index: int32(idx), tag: rsyncchecksum.Tag(sum.Sum1), } } sort.Slice(targets, func(i, j int) bool { return targets[i].tag < targets[j].tag }) for idx := len(head.Sums) - 1; idx >= 0; idx-- { tagTable[targets[idx].tag] = idx } }"] := rfl

end C16
