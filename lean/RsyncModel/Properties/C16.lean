import RsyncModel.Delta.Honest
import RsyncModel.Delta.GoThm
/-! # C16 — unchanged data is not re-sent: matches are found at every byte offset -/
namespace C16
open Spec Delta

/-- **Greedy completeness**: a byte is sent as a literal only if no block of the signature matches
the window that starts at that byte — at whatever offset the scan is. -/
theorem literal_only_if_no_match (c : Ctx) (p : Pick c) (x : UInt8) (xs : Bytes) (r : List Tok)
    (h : greedy c p (x :: xs) = Tok.lit x :: r) : ∀ i, c.matches (c.win (x :: xs)) i = false :=
  literal_only_if_no_match' c p x xs r h

/-- **An identical file costs no literal data at all.** -/
theorem identical_no_literal (c : Ctx) (p : Pick c) (basis : Bytes)
    (hb : c.blocks = honestBlocks c.W c.H (splitBlocks c.blm1 basis)) :
    ∀ tok ∈ greedy c p basis, ∃ i, tok = Tok.ref i :=
  identical_refs_only c p basis hb

/-- **Leftmost matching**: unmatched bytes in front of the scan position cost exactly themselves. -/
theorem skip_unmatched (c : Ctx) (p : Pick c) (u v : Bytes)
    (h : ∀ k, k < u.length → p.f (c.win ((u ++ v).drop k)) = none) :
    greedy c p (u ++ v) = u.map Tok.lit ++ greedy c p v :=
  greedy_skip_unmatched c p u v h

/-- **Matches at every byte offset**: data shifted by an insertion of *any* length (so that block
boundaries fall on arbitrary, unaligned offsets of the new file) is transmitted as references; the
literal data is the insertion itself (when no window that starts inside the insertion happens to
match a block — the formal content of "high-entropy data"). -/
theorem shifted_data_found (c : Ctx) (p : Pick c) (ins basis : Bytes)
    (hb : c.blocks = honestBlocks c.W c.H (splitBlocks c.blm1 basis))
    (hno : ∀ k, k < ins.length → p.f (c.win ((ins ++ basis).drop k)) = none) :
    ∃ refs : List Tok, (∀ tok ∈ refs, ∃ i, tok = Tok.ref i) ∧
      greedy c p (ins ++ basis) = ins.map Tok.lit ++ refs :=
  shifted_identical c p ins basis hb hno

/-- The Go-level loop emits the specification's tokens, so all of the above hold for the real
sender's stream (refinement, see C02). -/
theorem go_loop_is_greedy (Hs : Bytes → Bytes) (h : Head) (sums : List Delta.Sum) (t : Bytes)
    (hbl : h.bl < 4294967296) :
    flat (senderTokens Hs h sums t) =
      greedy (mkCtx Hs h sums) (pickGo (mkCtx Hs h sums) (mkCtx_W Hs h sums)) t :=
  senderTokens_eq_greedy Hs h sums t hbl

/-- The rolling pair is the weak sum of the current window at every loop head (the invariant that
makes matching work at offsets other than 0 and other than right after a match). -/
theorem rolling_invariant (c : Ctx) (hbl : c.bl < 4294967296) (x : UInt8) (xs : Bytes) :
    rollGo c (wsum (c.win (x :: xs))) x xs = wsum (c.win xs) := rollGo_wsum c hbl x xs

end C16
