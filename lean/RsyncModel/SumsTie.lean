import RsyncModel.PureTie
import RsyncModel.Delta.HonestHead
import RsyncModel.SendFile
/-! # The block signatures as the source computes, sends and reads them

`Gen.Pure.genSums` (receiver/generator.go `generateAndSendSums`: the loop that reads the basis file block by block and
writes each block's weak and strong sum) and `Gen.Pure.recvSums` (sender/sender.go `receiveSums`: the loop that reads
them back into the block list the search uses) are regenerated from /repo on every run. Proved for every file, block
length, header and input: the generator writes the sums of exactly the model's `splitBlocks` pieces, in order, and reads
the file to its end; the sender's list has, per block, the index, the offset (sum of the lengths before it), the model's
`blockLen`, the weak sum and the strong-sum bytes. -/
namespace SumsTie
open Go Delta PureTie Spec

theorem toInt_ofNat_small (k : Nat) (hk : k < 2147483648) : (Int32.ofNat k).toInt = k :=
  Int32.toInt_ofNat_of_lt (by omega)
theorem ofNat_lt_iff (k : Nat) (c : Int32) (hk : k < 2147483648) :
    (Int32.ofNat k < c) ↔ ((k : Int) < c.toInt) := by
  rw [Int32.lt_iff_toInt_lt, toInt_ofNat_small k hk]
theorem ofNat_succ (k : Nat) : Int32.ofNat k + 1 = Int32.ofNat (k + 1) := by
  rw [Int32.ofNat_add]; rfl

/-- the record the sender keeps for block `k` whose wire form is the weak sum `p.1` and the strong-sum bytes `p.2` -/
def recOf (h : Head32) (cs : Nat) (k : Nat) (off : Int) (p : Int32 × Bytes) : Go.SumRec :=
  ⟨Int32.ofNat k, off, (blockLen (h.toHead cs) k : Int), p.1.toUInt32, p.2⟩

theorem readI32_enc (v : Int32) (r : Bytes) : Go.readI32 (Wire.encI32 v ++ r) = .ok (v, r) := by
  unfold Go.readI32; rw [Wire.decI32_encI32]

theorem readFull_exact (s r : Bytes) (n : Int) (hn : n = s.length) : Go.readFull (s ++ r) n = .ok (s, r) := by
  subst hn
  unfold Go.readFull
  rw [if_neg (by simp; omega)]
  simp

theorem recvSums_step (h : Head32) (hok : h.ok) (cs : Nat) (csLen : Int32) (k : Nat) (hk : (k : Int) < h.count.toInt)
    (p : Int32 × Bytes) (hp : (p.2.length : Int) = csLen.toInt) (inp : Bytes) (L off : Int) (acc : List Go.SumRec) :
    Gen.Pure.recvSums_body0 h.bl h.count csLen h.rem (Wire.encI32 p.1 ++ (p.2 ++ inp), L, off, acc, Int32.ofNat k) =
      .ok (inp, (blockLen (h.toHead cs) k : Int), off + (blockLen (h.toHead cs) k : Int), acc ++ [recOf h cs k off p], Int32.ofNat (k + 1)) := by
  obtain ⟨hc, hb, hr⟩ := hok
  have hcl := h.count.toInt_lt
  have hk31 : k < 2147483648 := by omega
  have hki : (Int32.ofNat k).toInt = k := toInt_ofNat_small k hk31
  unfold Gen.Pure.recvSums_body0
  simp only [readI32_enc, Go.bind_ok]
  have hlen : (if ((Int32.ofNat k == h.count - 1) && (h.rem != 0)) = true then (Res.ok h.rem.toInt : Res Int) else Res.ok h.bl.toInt) =
      Res.ok (blockLen (h.toHead cs) k : Int) := by
    unfold Delta.blockLen Head32.toHead
    simp only
    by_cases h1 : (Int32.ofNat k == h.count - 1) = true
    · by_cases h2 : (h.rem != 0) = true
      · have e1 := (int32_eq_sub_one_iff _ h.count hc).mp h1
        have e2 := (int32_ne_zero_iff h.rem).mp h2
        simp only [h1, h2, Bool.and_self, if_true]
        have : k + 1 = h.count.toInt.toNat ∧ h.rem.toInt.toNat ≠ 0 := by omega
        rw [if_pos this]; congr 1; omega
      · have e2 : h.rem.toInt = 0 := by
          have hn : ¬ (h.rem.toInt ≠ 0) := fun hh => h2 ((int32_ne_zero_iff h.rem).mpr hh)
          omega
        simp only [h1, h2, Bool.and_false, Bool.false_eq_true, if_false]
        have : ¬ (k + 1 = h.count.toInt.toNat ∧ h.rem.toInt.toNat ≠ 0) := by omega
        rw [if_neg this]; congr 1; omega
    · have e1 : ¬ ((Int32.ofNat k).toInt = h.count.toInt - 1) := fun hh => h1 ((int32_eq_sub_one_iff _ h.count hc).mpr hh)
      simp only [h1, Bool.false_and, Bool.false_eq_true, if_false]
      have : ¬ (k + 1 = h.count.toInt.toNat ∧ h.rem.toInt.toNat ≠ 0) := by omega
      rw [if_neg this]; congr 1; omega
  rw [hlen]
  simp only [Go.bind_ok]
  rw [readFull_exact p.2 inp csLen.toInt hp.symm]
  simp only [Go.bind_ok, ofNat_succ, recOf]

def wireSums (ss : List (Int32 × Bytes)) : Bytes := ss.flatMap fun p => Wire.encI32 p.1 ++ p.2

/-- the sender's block list for wire entries `ps`, the first of them being block `k` at offset `off` -/
def recs (h : Head32) (cs : Nat) : Nat → Int → List (Int32 × Bytes) → List Go.SumRec
  | _, _, [] => []
  | k, off, p :: ps => recOf h cs k off p :: recs h cs (k + 1) (off + (blockLen (h.toHead cs) k : Int)) ps

theorem recvSums_loop (h : Head32) (hok : h.ok) (cs : Nat) (csLen : Int32) :
    ∀ (ps : List (Int32 × Bytes)) (fuel k : Nat) (L off : Int) (acc : List Go.SumRec) (rest : Bytes),
      (∀ p ∈ ps, (p.2.length : Int) = csLen.toInt) → ((k + ps.length : Nat) : Int) = h.count.toInt → ps.length ≤ fuel →
      ∃ L' off', Go.loop fuel (Gen.Pure.recvSums_cond0 h.bl h.count csLen h.rem) (Gen.Pure.recvSums_body0 h.bl h.count csLen h.rem)
          (wireSums ps ++ rest, L, off, acc, Int32.ofNat k) =
        .ok (rest, L', off', acc ++ recs h cs k off ps, Int32.ofNat (k + ps.length)) := by
  have hcl := h.count.toInt_lt
  intro ps
  induction ps with
  | nil =>
    intro fuel k L off acc rest _ hk _
    simp only [List.length_nil, Nat.add_zero] at hk
    have hk31 : k < 2147483648 := by omega
    have hcond : Gen.Pure.recvSums_cond0 h.bl h.count csLen h.rem (wireSums [] ++ rest, L, off, acc, Int32.ofNat k) = false := by
      unfold Gen.Pure.recvSums_cond0
      simp only [decide_eq_false_iff_not, ofNat_lt_iff k h.count hk31]; omega
    refine ⟨L, off, ?_⟩
    cases fuel with
    | zero => unfold Go.loop; rw [hcond]; simp [wireSums, recs]
    | succ n => unfold Go.loop; rw [hcond]; simp [wireSums, recs]
  | cons p ps ih =>
    intro fuel k L off acc rest hps hk hfuel
    simp only [List.length_cons] at hk hfuel
    have hk31 : k < 2147483648 := by omega
    have hlt : (k : Int) < h.count.toInt := by omega
    have hcond : Gen.Pure.recvSums_cond0 h.bl h.count csLen h.rem (wireSums (p :: ps) ++ rest, L, off, acc, Int32.ofNat k) = true := by
      unfold Gen.Pure.recvSums_cond0
      simp only [decide_eq_true_eq, ofNat_lt_iff k h.count hk31]; exact hlt
    cases fuel with
    | zero => omega
    | succ n =>
      unfold Go.loop
      rw [hcond]
      have e : wireSums (p :: ps) ++ rest = Wire.encI32 p.1 ++ (p.2 ++ (wireSums ps ++ rest)) := by
        simp [wireSums, List.append_assoc]
      rw [if_pos rfl, e, recvSums_step h hok cs csLen k hlt p (hps p (List.mem_cons_self ..))]
      simp only [Go.bind_ok]
      obtain ⟨L', off', he⟩ := ih n (k + 1) (blockLen (h.toHead cs) k : Int) (off + (blockLen (h.toHead cs) k : Int))
        (acc ++ [recOf h cs k off p]) rest (fun q hq => hps q (List.mem_cons_of_mem _ hq)) (by omega) (by omega)
      refine ⟨L', off', ?_⟩
      rw [he]
      simp only [recs, List.append_assoc, List.singleton_append, List.length_cons]
      have : k + 1 + ps.length = k + (ps.length + 1) := by omega
      rw [this]

/-- **`receiveSums`' loop as the source has it**: for a validated header and `count` wire entries (weak sum, then
`checksumLength` strong-sum bytes each) it yields, per block, the index, the offset (the sum of the lengths before it),
the model's `blockLen`, the weak sum and the strong-sum bytes — and leaves what follows unread. -/
theorem recvSums_tied (h : Head32) (hok : h.ok) (cs : Nat) (csLen : Int32) (ps : List (Int32 × Bytes)) (rest : Bytes) (L0 : Int)
    (hps : ∀ p ∈ ps, (p.2.length : Int) = csLen.toInt) (hn : (ps.length : Int) = h.count.toInt) :
    Gen.Pure.recvSums h.count h.bl h.rem csLen (wireSums ps ++ rest) [] L0 = .ok (recs h cs 0 0 ps, rest) := by
  unfold Gen.Pure.recvSums
  obtain ⟨L', off', he⟩ := recvSums_loop h hok cs csLen ps h.count.toInt.toNat 0 L0 0 [] rest hps (by simpa using hn) (by omega)
  have h0 : (0 : Int32) = Int32.ofNat 0 := rfl
  simp only [h0] at he ⊢
  rw [he]
  simp

/-- what the generator writes for one block -/
def sumFrames (H : Bytes → Bytes) (pieces : List Bytes) : List Go.Out :=
  pieces.flatMap fun w => [Go.Out.i32 (checksum1 w).toInt32, Go.Out.bytes (H w)]

theorem genSums_step (H : Bytes → Bytes) (bl : Int32) (blm1 : Nat) (hbl : bl.toInt = (blm1 + 1 : Nat)) (count : Int32) (fileLen : Int)
    (inp : Bytes) (hne : inp ≠ []) (out : List Go.Out) (k : Nat) :
    Gen.Pure.genSums_body0 H bl (List.replicate (blm1 + 1) 0) count fileLen (inp, out, (inp.length : Int), Int32.ofNat k) =
      .ok (inp.drop (blm1 + 1), out ++ sumFrames H [inp.take (blm1 + 1)], ((inp.drop (blm1 + 1)).length : Int), Int32.ofNat (k + 1)) := by
  have hpos : 0 < inp.length := List.length_pos_iff.mpr hne
  unfold Gen.Pure.genSums_body0
  simp only [hbl]
  -- n1 = min bl |inp|
  have hn1 : min (((blm1 + 1 : Nat) : Int)) (inp.length : Int) = ((min (blm1 + 1) inp.length : Nat) : Int) := by omega
  rw [hn1]
  have hs : Go.slice (List.replicate (blm1 + 1) (0 : UInt8)) 0 ((min (blm1 + 1) inp.length : Nat) : Int) =
      .ok (List.replicate (min (blm1 + 1) inp.length) 0) := by
    unfold Go.slice
    rw [if_pos (by simp only [List.length_replicate]; omega)]
    simp [List.take_replicate]
  rw [hs]
  simp only [Go.bind_ok, List.length_replicate]
  have hr : Go.readFull inp ((min (blm1 + 1) inp.length : Nat) : Int) = .ok (inp.take (blm1 + 1), inp.drop (blm1 + 1)) := by
    unfold Go.readFull
    rw [if_neg (by omega)]
    simp only [Int.toNat_natCast]
    by_cases hb : blm1 + 1 ≤ inp.length
    · rw [Nat.min_eq_left hb]
    · rw [Nat.min_eq_right (by omega), List.take_of_length_le (by omega), List.take_of_length_le (by omega),
        List.drop_of_length_le (by omega), List.drop_of_length_le (by omega)]
  rw [hr]
  simp only [Go.bind_ok, checksum1_tied, ofNat_succ, sumFrames, List.flatMap_cons, List.flatMap_nil, List.append_nil]
  have e : ((inp.length : Int) - ((min (blm1 + 1) inp.length : Nat) : Int)) = ((inp.drop (blm1 + 1)).length : Int) := by
    simp only [List.length_drop]; omega
  rw [e, List.append_assoc]
  rfl

theorem sumFrames_append (H : Bytes → Bytes) (a b : List Bytes) : sumFrames H (a ++ b) = sumFrames H a ++ sumFrames H b := by
  simp [sumFrames, List.flatMap_append]

theorem genSums_loop (H : Bytes → Bytes) (bl : Int32) (blm1 : Nat) (hbl : bl.toInt = (blm1 + 1 : Nat)) (count : Int32) (fileLen : Int) :
    ∀ (n : Nat) (inp : Bytes), inp.length ≤ n → ∀ (fuel k : Nat) (out : List Go.Out),
      ((k + (splitBlocks blm1 inp).length : Nat) : Int) = count.toInt → (splitBlocks blm1 inp).length ≤ fuel →
      Go.loop fuel (Gen.Pure.genSums_cond0 H bl (List.replicate (blm1 + 1) 0) count fileLen)
          (Gen.Pure.genSums_body0 H bl (List.replicate (blm1 + 1) 0) count fileLen) (inp, out, (inp.length : Int), Int32.ofNat k) =
        .ok ([], out ++ sumFrames H (splitBlocks blm1 inp), 0, Int32.ofNat (k + (splitBlocks blm1 inp).length)) := by
  have hcl := count.toInt_lt
  intro n
  induction n with
  | zero =>
    intro inp hlen fuel k out hk _
    have : inp = [] := List.eq_nil_of_length_eq_zero (by omega)
    subst this
    have hs : splitBlocks blm1 [] = [] := by rw [splitBlocks]; simp
    rw [hs] at hk ⊢
    simp only [List.length_nil, Nat.add_zero] at hk ⊢
    have hk31 : k < 2147483648 := by omega
    have hcond : ∀ r : Int, Gen.Pure.genSums_cond0 H bl (List.replicate (blm1 + 1) 0) count fileLen ([], out, r, Int32.ofNat k) = false := by
      intro r
      unfold Gen.Pure.genSums_cond0
      simp only [decide_eq_false_iff_not, ofNat_lt_iff k count hk31]; omega
    cases fuel with
    | zero => unfold Go.loop; rw [hcond]; simp [sumFrames]
    | succ m => unfold Go.loop; rw [hcond]; simp [sumFrames]
  | succ n ih =>
    intro inp hlen fuel k out hk hfuel
    by_cases hne : inp = []
    · subst hne
      have hs : splitBlocks blm1 [] = [] := by rw [splitBlocks]; simp
      rw [hs] at hk ⊢
      simp only [List.length_nil, Nat.add_zero] at hk ⊢
      have hk31 : k < 2147483648 := by omega
      have hcond : ∀ r : Int, Gen.Pure.genSums_cond0 H bl (List.replicate (blm1 + 1) 0) count fileLen ([], out, r, Int32.ofNat k) = false := by
        intro r
        unfold Gen.Pure.genSums_cond0
        simp only [decide_eq_false_iff_not, ofNat_lt_iff k count hk31]; omega
      cases fuel with
      | zero => unfold Go.loop; rw [hcond]; simp [sumFrames]
      | succ m => unfold Go.loop; rw [hcond]; simp [sumFrames]
    · have hpos : 0 < inp.length := List.length_pos_iff.mpr hne
      have hs : splitBlocks blm1 inp = inp.take (blm1 + 1) :: splitBlocks blm1 (inp.drop (blm1 + 1)) := by
        rw [splitBlocks]; simp [hne]
      rw [hs] at hk hfuel ⊢
      simp only [List.length_cons] at hk hfuel
      have hk31 : k < 2147483648 := by omega
      have hcond : Gen.Pure.genSums_cond0 H bl (List.replicate (blm1 + 1) 0) count fileLen (inp, out, (inp.length : Int), Int32.ofNat k) = true := by
        unfold Gen.Pure.genSums_cond0
        simp only [decide_eq_true_eq, ofNat_lt_iff k count hk31]; omega
      cases fuel with
      | zero => omega
      | succ m =>
        unfold Go.loop
        rw [hcond, if_pos rfl, genSums_step H bl blm1 hbl count fileLen inp hne out k]
        simp only [Go.bind_ok]
        rw [ih (inp.drop (blm1 + 1)) (by simp only [List.length_drop]; omega) m (k + 1) _ (by omega) (by omega)]
        have : sumFrames H (inp.take (blm1 + 1) :: splitBlocks blm1 (inp.drop (blm1 + 1))) =
            sumFrames H [inp.take (blm1 + 1)] ++ sumFrames H (splitBlocks blm1 (inp.drop (blm1 + 1))) := by
          rw [← sumFrames_append]; rfl
        rw [this, List.append_assoc, List.length_cons]
        have e : k + 1 + (splitBlocks blm1 (inp.drop (blm1 + 1))).length = k + ((splitBlocks blm1 (inp.drop (blm1 + 1))).length + 1) := by omega
        rw [e]

/-- **`generateAndSendSums`' loop as the source has it**: for a file of any content, a block length ≥ 1 and the block
count of the header (`⌈len/bl⌉`), it reads the file to its end and writes, block by block of the model's `splitBlocks`,
the weak sum (`Checksum1` as translated) and the strong sum. -/
theorem genSums_tied (H : Bytes → Bytes) (bl : Int32) (blm1 : Nat) (hbl : bl.toInt = (blm1 + 1 : Nat)) (count : Int32)
    (file : Bytes) (hcount : count.toInt = ((splitBlocks blm1 file).length : Nat)) (out : List Go.Out) :
    Gen.Pure.genSums (file.length : Int) bl count file out H = .ok (out ++ sumFrames H (splitBlocks blm1 file), []) := by
  unfold Gen.Pure.genSums
  have hm : Go.make bl.toInt = .ok (List.replicate (blm1 + 1) 0) := by
    unfold Go.make; rw [hbl, if_neg (by omega)]; simp
  rw [hm]
  simp only [Go.bind_ok]
  have h0 : (0 : Int32) = Int32.ofNat 0 := rfl
  rw [h0, genSums_loop H bl blm1 hbl count (file.length : Int) file.length file (Nat.le_refl _) count.toInt.toNat 0 out
    (by rw [hcount]; simp) (by rw [hcount]; simp)]
  simp


theorem wireOf_sumFrames (H : Bytes → Bytes) (pieces : List Bytes) :
    SendFile.wireOf (sumFrames H pieces) = wireSums (pieces.map fun w => ((checksum1 w).toInt32, H w)) := by
  induction pieces with
  | nil => rfl
  | cons w ws ih =>
    have e : sumFrames H (w :: ws) = [Go.Out.i32 (checksum1 w).toInt32, Go.Out.bytes (H w)] ++ sumFrames H ws := rfl
    rw [e, SendFile.wireOf_append, ih]
    simp [SendFile.wireOf, wireSums, List.append_assoc]

/-- **What the generator sends is what the sender reads** — on the source's own two loops: for every basis file, every
strong hash with 16-byte values and every header whose block length and count fit the file, the bytes
`generateAndSendSums` writes are read by `receiveSums` into one record per piece of `splitBlocks`, carrying that piece's
weak sum (`Checksum1`) and strong sum, the model's block length and the running offset; what follows on the wire stays
unread. These are the "honest signatures" the round-trip theorems of C02 assume. -/
theorem signatures_roundtrip (H : Bytes → Bytes) (hH : ∀ w, (H w).length = 16) (h : Head32) (hok : h.ok) (cs : Nat) (blm1 : Nat)
    (hbl : h.bl.toInt = (blm1 + 1 : Nat)) (file rest : Bytes) (hcount : h.count.toInt = ((splitBlocks blm1 file).length : Nat)) (L0 : Int) :
    ∃ out, Gen.Pure.genSums (file.length : Int) h.bl h.count file [] H = .ok (out, []) ∧
      Gen.Pure.recvSums h.count h.bl h.rem 16 (SendFile.wireOf out ++ rest) [] L0 =
        .ok (recs h cs 0 0 ((splitBlocks blm1 file).map fun w => ((checksum1 w).toInt32, H w)), rest) := by
  refine ⟨sumFrames H (splitBlocks blm1 file), ?_, ?_⟩
  · have := genSums_tied H h.bl blm1 hbl h.count file hcount []
    simpa using this
  · rw [wireOf_sumFrames]
    apply recvSums_tied h hok cs 16 _ rest L0
    · intro p hp
      obtain ⟨w, _, rfl⟩ := List.mem_map.mp hp
      simp [hH w]
    · simp [hcount]

end SumsTie
