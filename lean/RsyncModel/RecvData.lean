import RsyncModel.WireInt
import RsyncModel.Delta.Go
/-! The receiver's side of one file (receiver.go:100-188 `receiveData`, token.go `recvToken`,
types.go `SumHead.ReadFrom`) as a function of the raw byte stream. -/
namespace Recv
open Wire Delta

inductive Err
  | short                 -- stream ended early (io.EOF / ErrUnexpectedEOF)
  | badHead               -- SumHead.ReadFrom rejected a field
  | noBasis               -- block reference but no local file to copy from
  | readAt                -- block reference outside the basis file
  | hash                  -- whole-file checksum mismatch ("file corruption in …")
deriving Repr, DecidableEq

def maxBlockLen : Nat := Gen.Consts.maxBlockLen
def maxCsLen : Nat := Gen.Consts.maxChecksumLength

/-- `SumHead.ReadFrom` (types.go:37-77 incl. the zero-block-length check) -/
def readHead (bs : Bytes) : Except Err (Head × Bytes) :=
  match decI32 bs with
  | none => .error .short
  | some (count, r1) =>
    if count < 0 then .error .badHead else
    match decI32 r1 with
    | none => .error .short
    | some (bl, r2) =>
      if bl < 0 ∨ bl.toInt > maxBlockLen then .error .badHead else
      match decI32 r2 with
      | none => .error .short
      | some (cs, r3) =>
        if cs < 0 ∨ cs.toInt > maxCsLen then .error .badHead else
        match decI32 r3 with
        | none => .error .short
        | some (rem, r4) =>
          if rem < 0 ∨ rem > bl then .error .badHead
          else if count > 0 ∧ bl == 0 then .error .badHead
          else .ok (⟨count.toInt.toNat, bl.toInt.toNat, cs.toInt.toNat, rem.toInt.toNat⟩, r4)

/-- `localFile.ReadAt(make([]byte, dataLen), idx*bl)`: all `dataLen` bytes or an error -/
def readBlock (hd : Head) (basis : Bytes) (idx : Nat) : Option Bytes :=
  let off := idx * hd.bl
  let len := blockLen hd idx
  if len = 0 then some []
  else if off + len ≤ basis.length then some ((basis.drop off).take len) else none

/-- the token loop of `receiveData`: returns the reconstructed content and the unread rest -/
def recvTokens (hd : Head) (basis : Option Bytes) (bs : Bytes) (acc : Bytes) : Except Err (Bytes × Bytes) :=
  if h : bs.length < 4 then .error .short
  else
    let tok := (UInt32.ofNat (leVal (bs.take 4))).toInt32
    let rest := bs.drop 4
    if tok == 0 then .ok (acc, rest)
    else if tok > 0 then
      if rest.length < tok.toInt.toNat then .error .short
      else recvTokens hd basis (rest.drop tok.toInt.toNat) (acc ++ rest.take tok.toInt.toNat)
    else
      match basis with
      | none => .error .noBasis
      | some b =>
        match readBlock hd b (-(tok.toInt + 1)).toNat with
        | none => .error .readAt
        | some data => recvTokens hd basis rest (acc ++ data)
termination_by bs.length
decreasing_by all_goals (simp only [rest, List.length_drop]; omega)

inductive Outcome
  | committed (content : Bytes)   -- temp file renamed over the destination
  | failed (e : Err)              -- error return; destination untouched, temp removed
deriving Repr, DecidableEq

/-- `receiveData` for one file: header, tokens, 16-byte trailer, comparison, rename.
`Hfile` is the seeded whole-file hash (arbitrary function). -/
def recvData (Hfile : Bytes → Bytes) (basis : Option Bytes) (stream : Bytes) : Outcome × Bytes :=
  match readHead stream with
  | .error e => (.failed e, [])
  | .ok (hd, r) =>
    match recvTokens hd basis r [] with
    | .error e => (.failed e, [])
    | .ok (content, r') =>
      if r'.length < 16 then (.failed .short, [])
      else if Hfile content == r'.take 16 then (.committed content, r'.drop 16)
      else (.failed .hash, r'.drop 16)

end Recv
