import RsyncModel.Ssh
/-! The regenerated shape facts of the SSH front end and of `maincmd.Main` are the ones the model
stands for (hand-written expectations; a reshaped guard, a new request type, a changed dispatch
order or a different definition of "anonymous" changes the regenerated text). -/
namespace SshSpec
open Gen.Ssh

def factsOk : Bool :=
  requestCases == ["env", "exec"] && requestRunsMain == ["false", "true"] && requestDefaultIsError &&
  execGuards == ["err != nil => returns-error", "err != nil => returns-error", "len(cmdline) == 0 => returns-error",
    "s.anonssh.anonymous && (len(cmdline) < 3 || cmdline[1] != \"--server\" || cmdline[2] != \"--daemon\") => returns-error"] &&
  execOrder == "guards-then-main" && execMainArgs == "cmdline, s.channel, s.channel, stderr" &&
  channelCases == ["session"] && channelDefaultRejects &&
  anonymousDef == "listener.authorizedKeys == nil" &&
  publicKeyCallback == ["if listener.authorizedKeys == nil => accept", "if listener.authorizedKeys[string(pubKey.Marshal())] => accept", "reject"] &&
  loadKeysGuard == "cfg.AuthorizedSSH.Address != \"\"" &&
  keyLineSkip == "tr := strings.TrimSpace(s.Text()); tr == \"\" || strings.HasPrefix(tr, \"#\")" &&
  keyStored == "result[string(pubKey.Marshal())] = true" && keyMapInit == "result := make(map[string]bool)" &&
  sshCallbacksIntoMain == 2 && mainParsesArgsTail &&
  mainDispatch.take 3 == ["if opts.Daemon() && opts.Server() => daemon-over-shell (returns)",
    "if opts.Server() => command-mode-server (returns)", "if !opts.Daemon() => client (returns)"] &&
  -- the daemon an SSH session starts is built from the listener's configuration only: its modules are
  -- `cfg.Modules`, and nothing in the branch consults the command line for more (a module map, another file)
  daemonOverShellCalls == ["rsyncdconfig.FromDefaultFiles", "rsyncd.WithStderr", "append", "rsyncd.DontRestrict",
    "rsyncd.NewServer(cfg.Modules, …)", "rsyncd.NewConnection", "srv.HandleDaemonConn"]

theorem facts_ok : factsOk = true := by decide +kernel

end SshSpec
