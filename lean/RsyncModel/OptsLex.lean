import RsyncModel.Opts
/-! Lexer lemmas: what `lex` makes of the argument list `ServerOptions` renders, for *every*
assignment of the accessors. Table-independent lemmas first; the facts about the regenerated
tables they need are Boolean checks evaluated by the kernel (`OptsSpec`). -/
namespace Opts
open Gen.OptTable

/-- a token that is an option without argument -/
def LTok.clean : LTok → Bool
  | .opt r a => noArg r.kind && a.isEmpty
  | _ => false

theorem cutEq_noeq (a : Str) (h : '=' ∉ a) : cutEq a = (a, [], false) := by
  induction a with
  | nil => rfl
  | cons c cs ih =>
    have hc : c ≠ '=' := fun e => h (by simp [e])
    have hcs : '=' ∉ cs := fun e => h (by simp [e])
    simp [cutEq, hc, ih hcs]

/-- a letter the table knows as a short option that takes no argument -/
def shortRow (rows : List Row) (c : Char) : Option Row :=
  match findShort rows c with
  | some r => if r.kind != .other && noArg r.kind then some r else none
  | none => none

theorem lexShorts_clean (rows : List Row) (cs : Str) (next : Option Str)
    (hne : '=' ∉ cs) (rs : List Row) (h : cs.mapM (shortRow rows) = some rs) :
    lexShorts rows cs next = (rs.map (fun r => .opt r []), false) := by
  induction cs generalizing rs with
  | nil => simp at h; subst h; rfl
  | cons c cs ih =>
    have hcs : '=' ∉ cs := fun e => hne (by simp [e])
    simp only [List.mapM_cons, Option.bind_eq_bind, Option.pure_def] at h
    cases hr : shortRow rows c with
    | none => simp [hr] at h
    | some r =>
      simp only [hr, Option.bind_some] at h
      cases hrest : cs.mapM (shortRow rows) with
      | none => simp [hrest] at h
      | some rs' =>
        simp only [hrest, Option.bind_some, Option.some.injEq] at h
        subst h
        have ih' := ih hcs rs' hrest
        unfold shortRow at hr
        cases hf : findShort rows c with
        | none => simp [hf] at hr
        | some r0 =>
          simp only [hf] at hr
          by_cases hk : (r0.kind != .other && noArg r0.kind) = true
          · simp only [hk, if_true, Option.some.injEq] at hr
            subst hr
            simp only [Bool.and_eq_true, bne_iff_ne, ne_eq] at hk
            have hhead : (cs.head? == some '=') = false := by
              cases cs with
              | nil => rfl
              | cons d ds =>
                have : d ≠ '=' := fun e => hcs (by simp [e])
                simp [this]
            simp only [lexShorts, hf]
            have hko : (r0.kind == Kind.other) = false := by
              cases hkk : r0.kind <;> simp_all
            simp [hko, hk.2, hhead, ih']
          · simp [hk] at hr

/-- the argument `-<letters>`: no `=`, not a dash first, not the name of a long option, every letter a no-argument short option -/
theorem lexArg_letters (rows : List Row) (ls : Str) (next : Option Str) (rs : List Row)
    (hne : ls ≠ []) (heq : '=' ∉ ls) (hdash : ls.head? ≠ some '-')
    (hlong : findLong rows ls = none) (h : ls.mapM (shortRow rows) = some rs) :
    lexArg rows ('-' :: ls) next = (rs.map (fun r => .opt r []), false) := by
  have hcut : cutEq ('-' :: ls) = ('-' :: ls, [], false) := cutEq_noeq _ (by simp [heq])
  have hone : (ls.head? != some '-') = true := by simpa using hdash
  simp only [lexArg, hne, hcut, List.drop_succ_cons, List.drop_zero, hone, if_true, hlong]
  simp [lexShorts_clean rows ls next heq rs h]

/-- a whole argument `--name` naming a long option without argument -/
def longRow (rows : List Row) (a : Str) : Option Row :=
  match a with
  | '-' :: '-' :: name =>
    if name.contains '=' || name.head? == some '-' then none
    else match findLong rows name with
      | some r => if r.kind != .other && noArg r.kind then some r else none
      | none => none
  | _ => none

theorem lexArg_long (rows : List Row) (a : Str) (next : Option Str) (r : Row) (h : longRow rows a = some r) :
    lexArg rows a next = ([.opt r []], false) := by
  unfold longRow at h
  split at h
  · rename_i name
    by_cases hc : (name.contains '=' || name.head? == some '-') = true
    · rw [if_pos hc] at h; cases h
    · rw [if_neg hc] at h
      have hc1 : name.contains '=' = false := by
        cases h1 : name.contains '=' <;> simp_all
      have hc2 : (name.head? == some '-') = false := by
        cases h2 : (name.head? == some '-') <;> simp_all
      have hne : '=' ∉ name := by
        intro e
        have : name.contains '=' = true := by simpa using e
        rw [this] at hc1; cases hc1
      have hcut : cutEq ('-' :: '-' :: name) = ('-' :: '-' :: name, [], false) := cutEq_noeq _ (by simp [hne])
      cases hf : findLong rows name with
      | none => rw [hf] at h; cases h
      | some r0 =>
        rw [hf] at h
        simp only [] at h
        by_cases hk : (r0.kind != .other && noArg r0.kind) = true
        · rw [if_pos hk] at h
          cases h
          simp only [Bool.and_eq_true, bne_iff_ne, ne_eq] at hk
          have hko : (r.kind == Kind.other) = false := by
            cases hkk : r.kind <;> simp_all
          simp [lexArg, hcut, hf, hko, hk.2]
        · rw [if_neg hk] at h; cases h
  · cases h

/-- arguments that never look at / consume their successor lex independently -/
theorem lexN_flat (rows : List Row) (args : List Str) (toks : Str → List LTok) (n : Nat) (hn : args.length ≤ n)
    (h : ∀ a ∈ args, ∀ next, lexArg rows a next = (toks a, false)) :
    lexN rows n args = args.flatMap toks := by
  induction args generalizing n with
  | nil => cases n <;> simp [lexN]
  | cons a rest ih =>
    cases n with
    | zero => simp at hn
    | succ n =>
      have ha := h a (by simp) rest.head?
      simp only [lexN, ha, Bool.false_eq_true, if_false, List.flatMap_cons]
      rw [ih n (by simpa using hn) (fun b hb => h b (by simp [hb]))]

theorem lexN_cons (rows : List Row) (a : Str) (rest : List Str) (n : Nat) (ts : List LTok)
    (h : ∀ next, lexArg rows a next = (ts, false)) : lexN rows (n + 1) (a :: rest) = ts ++ lexN rows n rest := by
  simp only [lexN, h rest.head?, Bool.false_eq_true, if_false]

theorem lex_flat (rows : List Row) (args : List Str) (toks : Str → List LTok)
    (h : ∀ a ∈ args, ∀ next, lexArg rows a next = (toks a, false)) :
    lex rows args = args.flatMap toks := lexN_flat rows args toks _ (Nat.le_refl _) h

end Opts
