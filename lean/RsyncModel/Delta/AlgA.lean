import RsyncModel.Delta.Spec
/-! Algorithm level A: what the Go loop does to *tokens*: it accumulates unmatched bytes in a pending
run, emits the run (split into chunks by some policy) before each block reference and at the end,
and may flush part of the run early. The split/flush policy is a parameter: the theorem holds for
every policy, so a change of `chunkSize` or of the flush condition cannot break it. -/
namespace Spec

/-- wire-level tokens: literal runs and references -/
inductive ATok
  | lits (bs : Bytes)
  | ref (i : Nat)

def flat : List ATok → List Tok
  | [] => []
  | ATok.lits bs :: r => bs.map Tok.lit ++ flat r
  | ATok.ref i :: r => Tok.ref i :: flat r

theorem flat_append (a b : List ATok) : flat (a ++ b) = flat a ++ flat b := by
  induction a with
  | nil => rfl
  | cons x xs ih => cases x <;> simp [flat, ih]

/-- a chunking policy: any way of cutting a run into pieces whose concatenation is the run -/
structure Chunker where
  cut : Bytes → List Bytes
  ok : ∀ bs, (cut bs).flatten = bs

def emitRun (ch : Chunker) (bs : Bytes) : List ATok := (ch.cut bs).map ATok.lits

theorem flat_emitRun (ch : Chunker) (bs : Bytes) : flat (emitRun ch bs) = bs.map Tok.lit := by
  unfold emitRun
  have h := ch.ok bs
  generalize ch.cut bs = pieces at h
  subst h
  induction pieces with
  | nil => rfl
  | cons p ps ih => simp [flat, ih]

/-- an early-flush policy: given the pending run and what is left, how many leading bytes of the
run to emit now (the Go code flushes `pend` minus the last `bl` bytes when it got long) -/
abbrev Flusher := Bytes → Bytes → Nat

def algA (c : Ctx) (p : Pick c) (ch : Chunker) (fl : Flusher) (pend : Bytes) : (rest : Bytes) → List ATok
  | [] => emitRun ch pend
  | x :: xs =>
    match p.f (c.win (x :: xs)) with
    | some i => emitRun ch pend ++ ATok.ref i :: algA c p ch fl [] ((x :: xs).drop (c.win (x :: xs)).length)
    | none =>
      let pend' := pend ++ [x]
      let n := fl pend' xs
      emitRun ch (pend'.take n) ++ algA c p ch fl (pend'.drop n) xs
termination_by rest => rest.length
decreasing_by
  · have := win_length_pos c x xs
    simp only [List.length_drop]; simp at *; omega
  · simp

/-- Alg-A refines the spec, for every chunking and flushing policy. -/
theorem algA_refines (c : Ctx) (p : Pick c) (ch : Chunker) (fl : Flusher) (pend rest : Bytes) :
    flat (algA c p ch fl pend rest) = pend.map Tok.lit ++ greedy c p rest := by
  induction pend, rest using algA.induct c p fl with
  | case1 pend => simp [algA, greedy, flat_emitRun]
  | case2 pend x xs i hpick ih =>
    rw [algA, hpick, greedy, hpick]
    simp [flat_append, flat_emitRun, flat, ih]
  | case3 pend x xs hpick pend' n ih =>
    rw [algA, hpick, greedy, hpick]
    dsimp only
    rw [flat_append, flat_emitRun, ih]
    rw [← List.append_assoc, ← List.map_append, List.take_append_drop]
    simp

/-- whole file: start with an empty run -/
theorem algA_correct (c : Ctx) (p : Pick c) (ch : Chunker) (fl : Flusher) (t : Bytes) :
    flat (algA c p ch fl [] t) = greedy c p t := by
  simpa using algA_refines c p ch fl [] t

end Spec
