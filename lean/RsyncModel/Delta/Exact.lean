import RsyncModel.Delta.Spec
/-! Reconstruction from the greedy specification's tokens is exact. -/
namespace Spec

/-- what a receiver holding blocks `blk i` reconstructs -/
def apply (blk : Nat → Bytes) : List Tok → Bytes
  | [] => []
  | .lit b :: r => b :: apply blk r
  | .ref i :: r => blk i ++ apply blk r

/-- **Exactness**: if a window that matches block `i` *is* block `i` (honest sums, no strong-hash
collision), applying the greedy token stream reproduces the target — for every target and layout. -/
theorem sender_exact (c : Ctx) (p : Pick c) (blk : Nat → Bytes)
    (hfaithful : ∀ w i, c.matches w i = true → blk i = w) (t : Bytes) :
    apply blk (greedy c p t) = t := by
  induction t using greedy.induct c p with
  | case1 => simp [greedy, apply]
  | case2 x xs i hp ih =>
    rw [greedy, hp]; simp only [apply]
    rw [ih, hfaithful _ _ (p.sound _ _ hp)]
    simp only [Ctx.win]
    have hl : ((x :: xs).take (min c.bl (x :: xs).length)).length = min c.bl (x :: xs).length := by
      rw [List.length_take]; omega
    rw [hl]
    exact List.take_append_drop _ _
  | case3 x xs hp ih =>
    rw [greedy, hp]; simp only [apply]
    rw [ih]

end Spec
