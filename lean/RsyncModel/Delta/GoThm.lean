import RsyncModel.Delta.Go
/-! Theorems about the Go-level sender instance: the lookup is a `Pick`, the emitted tokens are the
greedy specification's, every reference is justified, literals and windows cover the target. -/
namespace Delta
open Spec

/-- the Go lookup, fed with the sum of the window, is a sound and complete choice among matching blocks -/
def pickGo (c : Ctx) (hW : c.W = fun w => pack (wsum w)) : Pick c where
  f := pickOf (lookGo c)
  sound := by
    intro w i h
    simp only [pickOf, lookGo] at h
    have := List.find?_some h
    simp only [Ctx.matches, hW]
    split at this
    · simp at this
    · next b hb => rw [hb]; simpa [Bool.and_assoc] using this
  complete := by
    intro w h i
    simp only [pickOf, lookGo] at h
    rw [List.find?_eq_none] at h
    simp only [Ctx.matches, hW]
    cases hb : c.blocks[i]? with
    | none => rfl
    | some b =>
      have hi : i < c.blocks.length := by
        rcases List.getElem?_eq_some_iff.mp hb with ⟨hi, _⟩; exact hi
      have := h i (List.mem_range.mpr hi)
      rw [hb] at this
      simpa [Bool.and_assoc] using this

theorem mkCtx_W (H : Bytes → Bytes) (h : Head) (sums : List Sum) :
    (mkCtx H h sums).W = fun w => pack (wsum w) := rfl

theorem mkCtx_bl (H : Bytes → Bytes) (h : Head) (sums : List Sum) (hb : 1 ≤ h.bl) : (mkCtx H h sums).bl = h.bl := by
  simp [mkCtx, Ctx.bl]; omega

/-- **Refinement**: the Go-shaped loop (rolling `uint32` pair, recompute-and-roll after a match,
`chunkSize` cutting, early flush) emits exactly the greedy specification's tokens. -/
theorem senderTokens_eq_greedy (H : Bytes → Bytes) (h : Head) (sums : List Sum) (t : Bytes)
    (hbl : h.bl < 4294967296) :
    flat (senderTokens H h sums t) =
      greedy (mkCtx H h sums) (pickGo (mkCtx H h sums) (mkCtx_W H h sums)) t := by
  unfold senderTokens
  apply algB_correct
  · simp [mkCtx, Ctx.bl]; omega
  · rfl

/-- literal chunks on the wire never exceed `chunkSize` -/
theorem cutChunks_le (n : Nat) (hn : 0 < n) (bs : Bytes) : ∀ p ∈ cutChunks n bs, p.length ≤ n := by
  induction bs using cutChunks.induct n with
  | case1 bs h he => rw [cutChunks]; simp_all
  | case2 bs h he =>
    rw [cutChunks]; simp only [h, dite_true, he]
    intro p hp; simp at hp; subst hp
    rcases h with h | h <;> omega
  | case3 bs h ih =>
    rw [cutChunks]; simp only [h, dite_false]
    intro p hp
    simp only [List.mem_cons] at hp
    rcases hp with hp | hp
    · subst hp; simp; omega
    · exact ih p hp

/-- what it means for a token list to describe `t` faithfully under context `c`: scanning left to
right, every literal is the next byte of `t`, every reference `i` stands where the window of the
remaining bytes matches block `i` (length, weak sum, truncated strong sum) and skips exactly that
window, and the tokens end exactly when `t` does. -/
def Justified (c : Ctx) : Bytes → List Tok → Prop
  | t, [] => t = []
  | [], _ :: _ => False
  | x :: xs, .lit b :: r => b = x ∧ Justified c xs r
  | x :: xs, .ref i :: r =>
      c.matches (c.win (x :: xs)) i = true ∧ Justified c ((x :: xs).drop (c.win (x :: xs)).length) r
termination_by t toks => toks.length

theorem greedy_justified (c : Ctx) (p : Pick c) (t : Bytes) : Justified c t (greedy c p t) := by
  induction t using greedy.induct c p with
  | case1 => simp [greedy, Justified]
  | case2 x xs i hp ih =>
    rw [greedy, hp]; simp only
    rw [Justified]
    exact ⟨p.sound _ _ hp, ih⟩
  | case3 x xs hp ih =>
    rw [greedy, hp]; simp only
    rw [Justified]
    exact ⟨rfl, ih⟩

end Delta
