import RsyncModel.Delta.Spec
namespace Spec

def sx (b : UInt8) : Int := if b.toNat < 128 then (b.toNat : Int) else (b.toNat : Int) - 256
def S1 : List UInt8 → Int | [] => 0 | b :: bs => sx b + S1 bs
def S2 : List UInt8 → Int | [] => 0 | b :: bs => (bs.length + 1 : Int) * sx b + S2 bs

theorem S1_append (a b : List UInt8) : S1 (a ++ b) = S1 a + S1 b := by
  induction a with | nil => simp [S1] | cons x xs ih => simp [S1, ih]; omega
theorem S2_append_single (a : List UInt8) (y : UInt8) : S2 (a ++ [y]) = S2 a + S1 a + sx y := by
  induction a with
  | nil => simp [S1, S2]
  | cons x xs ih =>
    simp only [List.cons_append, S2, S1, ih, List.length_append, List.length_cons, List.length_nil]
    grind
theorem roll (x y : UInt8) (w : List UInt8) :
    S1 (w ++ [y]) = S1 (x :: w) - sx x + sx y ∧
    S2 (w ++ [y]) = S2 (x :: w) - (w.length + 1 : Int) * sx x + S1 (w ++ [y]) := by
  constructor
  · simp [S1_append, S1]; omega
  · rw [S2_append_single]; simp [S2, S1_append, S1]; omega

def signExtend (b : UInt8) : UInt32 := ((b.toUInt32 <<< 24).toInt32 >>> 24).toUInt32
def congB (m : UInt32) (z : Int) : Bool := (m.toNat : Int) % 65536 == z % 65536
theorem signExtend_all : ∀ n : Fin 256,
    congB (signExtend (UInt8.ofNat n.val)) (sx (UInt8.ofNat n.val)) = true := by decide +kernel

def Cong (m : UInt32) (z : Int) : Prop := (m.toNat : Int) % 65536 = z % 65536
theorem cong_add {a b : UInt32} {x y : Int} (h1 : Cong a x) (h2 : Cong b y) : Cong (a + b) (x + y) := by
  unfold Cong at *; rw [UInt32.toNat_add]; simp only [Nat.reducePow]; omega
theorem cong_sub {a b : UInt32} {x y : Int} (h1 : Cong a x) (h2 : Cong b y) : Cong (a - b) (x - y) := by
  unfold Cong at *; rw [UInt32.toNat_sub]; simp only [Nat.reducePow]
  have := a.toNat_lt; have := b.toNat_lt; omega
theorem cong_mul {a b : UInt32} {x y : Int} (h1 : Cong a x) (h2 : Cong b y) : Cong (a * b) (x * y) := by
  unfold Cong at *; rw [UInt32.toNat_mul]
  have e : ((a.toNat * b.toNat % 2 ^ 32 : Nat) : Int) % 65536 = ((a.toNat : Int) * (b.toNat : Int)) % 65536 := by
    simp only [Nat.reducePow]; rw [← Int.natCast_mul]; generalize a.toNat * b.toNat = p; omega
  rw [e, Int.mul_emod, h1, h2, ← Int.mul_emod]
theorem cong_trunc16 {a : UInt32} {x : Int} (h : Cong a x) : Cong a.toUInt16.toUInt32 x := by
  unfold Cong at *; simp; omega
theorem signExtend_cong (x : UInt8) : Cong (signExtend x) (sx x) := by
  have := signExtend_all ⟨x.toNat, x.toNat_lt⟩; simpa [congB, Cong] using this

/-- canonical 16-bit representative of an integer, as the Go code keeps it in a uint32 -/
def lo16 (z : Int) : UInt32 := UInt32.ofNat (z % 65536).toNat

theorem lo16_cong (z : Int) : Cong (lo16 z) z := by
  unfold Cong lo16
  have h1 : 0 ≤ z % 65536 := Int.emod_nonneg _ (by decide)
  have h2 : z % 65536 < 65536 := Int.emod_lt_of_pos _ (by decide)
  have : (z % 65536).toNat < 4294967296 := by omega
  simp [Nat.mod_eq_of_lt this]
  omega

theorem eq_lo16_of_cong {a : UInt32} {z : Int} (h : Cong a z) (hlt : a.toNat < 65536) : a = lo16 z := by
  apply UInt32.toNat_inj.mp
  unfold Cong at h
  unfold lo16
  have h1 : 0 ≤ z % 65536 := Int.emod_nonneg _ (by decide)
  have h2 : z % 65536 < 65536 := Int.emod_lt_of_pos _ (by decide)
  have : (z % 65536).toNat < 4294967296 := by omega
  simp [Nat.mod_eq_of_lt this]
  omega

theorem trunc16_lt (a : UInt32) : a.toUInt16.toUInt32.toNat < 65536 := by
  simp; omega

/-- the pair the Go loop holds for a window -/
def wsum (w : Bytes) : UInt32 × UInt32 := (lo16 (S1 w), lo16 (S2 w))

/-- match.go:171-196, `more` branch -/
def rollStep (s1 s2 k : UInt32) (old new : UInt8) : UInt32 × UInt32 :=
  let s1 := s1 - signExtend old
  let s2 := s2 - k * signExtend old
  let s1 := s1 + signExtend new
  let s2 := s2 + s1
  (s1.toUInt16.toUInt32, s2.toUInt16.toUInt32)

/-- match.go:171-196, no further byte: the window only shrinks -/
def dropStep (s1 s2 k : UInt32) (old : UInt8) : UInt32 × UInt32 :=
  let s1 := s1 - signExtend old
  let s2 := s2 - k * signExtend old
  (s1.toUInt16.toUInt32, s2.toUInt16.toUInt32)

theorem rollStep_wsum (x y : UInt8) (w : Bytes) (k : UInt32) (hk : Cong k (w.length + 1 : Int)) :
    rollStep (wsum (x :: w)).1 (wsum (x :: w)).2 k x y = wsum (w ++ [y]) := by
  obtain ⟨r1, r2⟩ := roll x y w
  have h1 := lo16_cong (S1 (x :: w)); have h2 := lo16_cong (S2 (x :: w))
  have sex := signExtend_cong x; have sey := signExtend_cong y
  unfold rollStep wsum
  simp only
  refine Prod.ext ?_ ?_
  · apply eq_lo16_of_cong _ (trunc16_lt _)
    apply cong_trunc16; rw [r1]; exact cong_add (cong_sub h1 sex) sey
  · apply eq_lo16_of_cong _ (trunc16_lt _)
    apply cong_trunc16; rw [r2, r1]
    exact cong_add (cong_sub h2 (cong_mul hk sex)) (cong_add (cong_sub h1 sex) sey)

theorem dropStep_wsum (x : UInt8) (w : Bytes) (k : UInt32) (hk : Cong k (w.length + 1 : Int)) :
    dropStep (wsum (x :: w)).1 (wsum (x :: w)).2 k x = wsum w := by
  have h1 := lo16_cong (S1 (x :: w)); have h2 := lo16_cong (S2 (x :: w))
  have sex := signExtend_cong x
  unfold dropStep wsum
  simp only
  refine Prod.ext ?_ ?_
  · apply eq_lo16_of_cong _ (trunc16_lt _)
    apply cong_trunc16
    have : S1 w = S1 (x :: w) - sx x := by simp [S1]; omega
    rw [this]; exact cong_sub h1 sex
  · apply eq_lo16_of_cong _ (trunc16_lt _)
    apply cong_trunc16
    have : S2 w = S2 (x :: w) - (w.length + 1 : Int) * sx x := by simp [S2]; omega
    rw [this]; exact cong_sub h2 (cong_mul hk sex)

end Spec
