import RsyncModel.RecvData
import RsyncModel.Delta.Honest
/-! The header and block table of an honest signature (`SumSizesSqroot` arithmetic:
`count = ⌈n/bl⌉`, `rem = n mod bl`) agree with cutting the basis into blocks, and the receiver's
`ReadAt(idx·bl, len)` reads back exactly those blocks. -/
namespace Delta
open Spec

theorem splitBlocks_get (blm1 : Nat) : ∀ (i : Nat) (bs : Bytes), i * (blm1 + 1) < bs.length →
    (splitBlocks blm1 bs)[i]? = some ((bs.drop (i * (blm1 + 1))).take (blm1 + 1)) := by
  intro i
  induction i with
  | zero =>
    intro bs h
    have hne : bs ≠ [] := by intro hc; simp [hc] at h
    rw [splitBlocks]; simp [hne]
  | succ i ih =>
    intro bs h
    have hne : bs ≠ [] := by intro hc; simp [hc] at h
    rw [splitBlocks]; simp only [hne, dite_false, List.getElem?_cons_succ]
    rw [ih]
    · rw [List.drop_drop]; congr 2; rw [Nat.add_mul, Nat.one_mul, Nat.add_comm]
    · simp only [List.length_drop]; rw [Nat.add_mul, Nat.one_mul] at h; omega

theorem splitBlocks_length (blm1 : Nat) (n : Nat) : ∀ (bs : Bytes), bs.length ≤ n →
    (splitBlocks blm1 bs).length = (bs.length + blm1) / (blm1 + 1) := by
  induction n with
  | zero =>
    intro bs h
    have : bs = [] := List.eq_nil_of_length_eq_zero (by omega)
    subst this; rw [splitBlocks]; simp
    exact (Nat.div_eq_of_lt (by omega)).symm
  | succ n ih =>
    intro bs h
    by_cases hne : bs = []
    · subst hne; rw [splitBlocks]; simp; exact (Nat.div_eq_of_lt (by omega)).symm
    · rw [splitBlocks]; simp only [hne, dite_false, List.length_cons]
      have hpos : 0 < bs.length := List.length_pos_iff.mpr hne
      rw [ih _ (by simp only [List.length_drop]; omega)]
      simp only [List.length_drop]
      by_cases hb : blm1 + 1 ≤ bs.length
      · have : bs.length + blm1 = (bs.length - (blm1 + 1) + blm1) + (blm1 + 1) := by omega
        rw [this, Nat.add_div_right _ (by omega)]
      · have h0 : bs.length - (blm1 + 1) = 0 := by omega
        rw [h0]
        have e1 : (0 + blm1) / (blm1 + 1) = 0 := Nat.div_eq_of_lt (by omega)
        have e2 : (bs.length + blm1) / (blm1 + 1) = 1 := by
          have : bs.length + blm1 = (bs.length - 1) + (blm1 + 1) := by omega
          rw [this, Nat.add_div_right _ (by omega), Nat.div_eq_of_lt (by omega)]
        rw [e1, e2]

/-- the header an honest receiver sends for `basis` with block length `blm1+1` -/
def honestHead (blm1 cs : Nat) (basis : Bytes) : Head :=
  ⟨(basis.length + blm1) / (blm1 + 1), blm1 + 1, cs, basis.length % (blm1 + 1)⟩

/-- `ReadAt(idx·bl, blockLen idx)` on the basis returns block `idx` of the cut, for every block of
an honest header — including the short last block -/
theorem readBlock_honest (blm1 cs : Nat) (basis : Bytes) (i : Nat)
    (hi : i < (honestHead blm1 cs basis).count) :
    Recv.readBlock (honestHead blm1 cs basis) basis i = (splitBlocks blm1 basis)[i]? := by
  let bl := blm1 + 1
  let n := basis.length
  have hdm : bl * (n / bl) + n % bl = n := Nat.div_add_mod n bl
  have hr : n % bl < bl := Nat.mod_lt _ (by omega)
  -- count = q or q+1
  have hcount : (n + blm1) / bl = n / bl + (if n % bl = 0 then 0 else 1) := by
    have e : n + blm1 = bl * (n / bl) + (n % bl + blm1) := by omega
    rw [e, Nat.mul_add_div (by omega)]
    congr 1
    split
    · next h0 => rw [h0]; exact Nat.div_eq_of_lt (by omega)
    · next h0 =>
      have : n % bl + blm1 = (n % bl - 1) + bl := by omega
      rw [this, Nat.add_div_right _ (by omega), Nat.div_eq_of_lt (by omega)]
  simp only [honestHead] at hi
  have hi' : i < n / bl + (if n % bl = 0 then 0 else 1) := by rw [← hcount]; exact hi
  -- i·bl < n
  have hmul : i * bl < n := by
    by_cases h0 : n % bl = 0
    · simp only [h0, if_true, Nat.add_zero] at hi'
      have : (i + 1) * bl ≤ (n / bl) * bl := Nat.mul_le_mul_right bl hi'
      rw [Nat.add_mul, Nat.one_mul] at this
      have e : n / bl * bl = n := by rw [Nat.mul_comm]; omega
      omega
    · simp only [h0, if_false] at hi'
      have : i * bl ≤ (n / bl) * bl := Nat.mul_le_mul_right bl (by omega)
      have e : n / bl * bl = bl * (n / bl) := Nat.mul_comm _ _
      omega
  rw [splitBlocks_get blm1 i basis hmul]
  have hblv : (honestHead blm1 cs basis).bl = blm1 + 1 := rfl
  by_cases hlast : i + 1 = (n + blm1) / bl ∧ n % bl ≠ 0
  · -- short last block
    have hq : i = n / bl := by
      have := hlast.1; rw [hcount] at this; simp only [hlast.2, if_false] at this; omega
    have hoff : i * bl + n % bl = n := by rw [hq, Nat.mul_comm]; exact hdm
    have hlen : blockLen (honestHead blm1 cs basis) i = basis.length % (blm1 + 1) := by
      unfold blockLen
      have hl' : (i + 1 = (honestHead blm1 cs basis).count ∧ (honestHead blm1 cs basis).rem ≠ 0) := hlast
      rw [if_pos hl']; rfl
    have hne : ¬ (basis.length % (blm1 + 1) = 0) := hlast.2
    have hle : i * (blm1 + 1) + basis.length % (blm1 + 1) ≤ basis.length := by
      have := hoff; simp only [bl, n] at this; omega
    unfold Recv.readBlock
    simp only [hlen, hblv]
    rw [if_neg hne, if_pos hle]
    congr 1
    -- both takes exhaust what is left
    have hl : (basis.drop (i * (blm1 + 1))).length = basis.length % (blm1 + 1) := by
      simp only [List.length_drop]; have := hoff; simp only [bl, n] at this; omega
    have hr' : basis.length % (blm1 + 1) < blm1 + 1 := Nat.mod_lt _ (by omega)
    rw [List.take_of_length_le (l := basis.drop (i * (blm1 + 1))) (i := basis.length % (blm1 + 1)) (by rw [hl]; exact Nat.le_refl _),
      List.take_of_length_le (l := basis.drop (i * (blm1 + 1))) (i := blm1 + 1) (by rw [hl]; omega)]
  · have hlen : blockLen (honestHead blm1 cs basis) i = blm1 + 1 := by
      unfold blockLen
      have hl' : ¬ (i + 1 = (honestHead blm1 cs basis).count ∧ (honestHead blm1 cs basis).rem ≠ 0) := hlast
      rw [if_neg hl']; rfl
    have hfull : i * (blm1 + 1) + (blm1 + 1) ≤ basis.length := by
      by_cases h0 : n % bl = 0
      · simp only [h0, if_true, Nat.add_zero] at hi'
        have : (i + 1) * bl ≤ (n / bl) * bl := Nat.mul_le_mul_right bl hi'
        rw [Nat.add_mul, Nat.one_mul] at this
        have e : n / bl * bl = n := by rw [Nat.mul_comm]; omega
        simp only [bl, n] at *; omega
      · simp only [h0, if_false] at hi'
        have hlt : i + 1 ≤ n / bl := by
          rcases Nat.lt_or_ge (i + 1) (n / bl + 1) with h | h
          · omega
          · exfalso; apply hlast; constructor
            · rw [hcount]; simp only [h0, if_false]; omega
            · exact h0
        have : (i + 1) * bl ≤ (n / bl) * bl := Nat.mul_le_mul_right bl hlt
        rw [Nat.add_mul, Nat.one_mul] at this
        have e : n / bl * bl = bl * (n / bl) := Nat.mul_comm _ _
        simp only [bl, n] at *; omega
    unfold Recv.readBlock
    simp only [hlen, hblv]
    rw [if_neg (by omega), if_pos hfull]

end Delta
