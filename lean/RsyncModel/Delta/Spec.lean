namespace Spec
abbrev Bytes := List UInt8
structure Block where
  len  : Nat
  sum1 : UInt32
  sum2 : Bytes
inductive Tok
  | lit (b : UInt8)
  | ref (i : Nat)
deriving DecidableEq
structure Ctx where
  blm1   : Nat
  csLen  : Nat
  blocks : List Block
  W      : Bytes → UInt32
  H      : Bytes → Bytes
def Ctx.bl (c : Ctx) : Nat := c.blm1 + 1
def Ctx.win (c : Ctx) (t : Bytes) : Bytes := t.take (min c.bl t.length)
def Ctx.matches (c : Ctx) (w : Bytes) (i : Nat) : Bool :=
  match c.blocks[i]? with
  | none => false
  | some b => b.len == w.length && b.sum1 == c.W w && b.sum2.take c.csLen == (c.H w).take c.csLen
structure Pick (c : Ctx) where
  f : Bytes → Option Nat
  sound : ∀ w i, f w = some i → c.matches w i = true
  complete : ∀ w, f w = none → ∀ i, c.matches w i = false
theorem win_length_pos (c : Ctx) (x : UInt8) (xs : Bytes) : 0 < (c.win (x :: xs)).length := by
  simp [Ctx.win, Ctx.bl]
def greedy (c : Ctx) (p : Pick c) : (t : Bytes) → List Tok
  | [] => []
  | x :: xs =>
    match p.f (c.win (x :: xs)) with
    | some i => Tok.ref i :: greedy c p ((x :: xs).drop (c.win (x :: xs)).length)
    | none => Tok.lit x :: greedy c p xs
termination_by t => t.length
decreasing_by
  · have := win_length_pos c x xs
    simp only [List.length_drop]; simp at *; omega
  · simp
end Spec
