import RsyncModel.Delta.GoThm
/-! Honest signatures (what `generateAndSendSums` computes for a basis file) and what the greedy
search does with them: exactness, no literal for an identical file, matches at every byte offset. -/
namespace Delta
open Spec

/-- cut a file into blocks of length `blm1+1`; the last one may be shorter -/
def splitBlocks (blm1 : Nat) (bs : Bytes) : List Bytes :=
  if h : bs = [] then [] else bs.take (blm1 + 1) :: splitBlocks blm1 (bs.drop (blm1 + 1))
termination_by bs.length
decreasing_by
  have : 0 < bs.length := List.length_pos_iff.mpr h
  simp only [List.length_drop]; omega

theorem splitBlocks_flatten (blm1 : Nat) (bs : Bytes) : (splitBlocks blm1 bs).flatten = bs := by
  induction bs using splitBlocks.induct blm1 with
  | case1 => rw [splitBlocks]; simp
  | case2 bs h ih => rw [splitBlocks]; simp [h, ih]

/-- the block table an honest receiver's signature induces: length, weak sum, strong sum of each piece -/
def honestBlocks (W : Bytes → UInt32) (H : Bytes → Bytes) (pieces : List Bytes) : List Block :=
  pieces.map fun w => ⟨w.length, W w, H w⟩

theorem win_eq_take (c : Ctx) (t : Bytes) : c.win t = t.take c.bl := by
  simp only [Ctx.win]
  by_cases h : c.bl ≤ t.length
  · rw [Nat.min_eq_left h]
  · rw [Nat.min_eq_right (by omega), List.take_of_length_le (l := t) (i := c.bl) (by omega)]; simp

theorem drop_win (c : Ctx) (t : Bytes) : t.drop (c.win t).length = t.drop c.bl := by
  rw [win_eq_take]
  by_cases h : c.bl ≤ t.length
  · simp [Nat.min_eq_left h]
  · simp only [List.length_take]
    rw [Nat.min_eq_right (by omega), List.drop_of_length_le (Nat.le_refl _), List.drop_of_length_le (by omega)]

/-- **An identical file costs no literal data** (C16): with an honest signature of `basis`, the
token stream for `basis` itself consists of block references only — duplicated blocks, a short last
block and whatever choice the lookup makes among equal candidates included. -/
theorem identical_refs_only_aux (c : Ctx) (p : Pick c) (n : Nat) :
    ∀ (rest : Bytes), rest.length ≤ n → ∀ (pre : List Block),
      c.blocks = pre ++ honestBlocks c.W c.H (splitBlocks c.blm1 rest) →
      ∀ tok ∈ greedy c p rest, ∃ i, tok = Tok.ref i := by
  induction n with
  | zero =>
    intro rest hl pre _ tok htok
    have : rest = [] := List.eq_nil_of_length_eq_zero (by omega)
    subst this; simp [greedy] at htok
  | succ n ih =>
    intro rest hl pre hb tok htok
    cases rest with
    | nil => simp [greedy] at htok
    | cons x xs =>
      have hw : c.win (x :: xs) = (x :: xs).take (c.blm1 + 1) := win_eq_take c _
      rw [splitBlocks] at hb
      simp only [List.cons_ne_nil, dite_false, honestBlocks, List.map_cons] at hb
      -- the window matches the block at index |pre|
      have hm : c.matches (c.win (x :: xs)) pre.length = true := by
        simp only [Ctx.matches, hb]
        rw [List.getElem?_append_right (Nat.le_refl _)]
        simp [hw]
      have hsome : ∃ j, p.f (c.win (x :: xs)) = some j := by
        cases hf : p.f (c.win (x :: xs)) with
        | some j => exact ⟨j, rfl⟩
        | none => have := p.complete _ hf pre.length; rw [hm] at this; cases this
      obtain ⟨j, hj⟩ := hsome
      rw [greedy, hj] at htok
      simp only [List.mem_cons] at htok
      rcases htok with h | h
      · exact ⟨j, h⟩
      · have hd : (x :: xs).drop (c.win (x :: xs)).length = (x :: xs).drop (c.blm1 + 1) := drop_win c _
        rw [hd] at h
        refine ih ((x :: xs).drop (c.blm1 + 1)) ?_ (pre ++ [⟨((x :: xs).take (c.blm1 + 1)).length, c.W ((x :: xs).take (c.blm1 + 1)), c.H ((x :: xs).take (c.blm1 + 1))⟩]) ?_ tok h
        · simp only [List.length_drop, List.length_cons] at hl ⊢; omega
        · rw [hb]; simp [honestBlocks]

theorem identical_refs_only (c : Ctx) (p : Pick c) (basis : Bytes)
    (hb : c.blocks = honestBlocks c.W c.H (splitBlocks c.blm1 basis)) :
    ∀ tok ∈ greedy c p basis, ∃ i, tok = Tok.ref i :=
  identical_refs_only_aux c p basis.length basis (Nat.le_refl _) [] (by simpa using hb)

/-- **Leftmost matching** (C16, "at every byte offset"): bytes in front of the scan position are
sent as literals exactly as long as no block matches the window starting there — whatever the
alignment. If no window starting inside `u` matches, the stream for `u ++ v` is `u` as literals
followed by the stream for `v`. -/
theorem greedy_skip_unmatched (c : Ctx) (p : Pick c) (u v : Bytes)
    (h : ∀ k, k < u.length → p.f (c.win ((u ++ v).drop k)) = none) :
    greedy c p (u ++ v) = u.map Tok.lit ++ greedy c p v := by
  induction u with
  | nil => simp
  | cons x xs ih =>
    have h0 := h 0 (by simp)
    simp only [List.drop_zero, List.cons_append] at h0
    simp only [List.cons_append]
    rw [greedy, h0]
    simp only [List.map_cons, List.cons_append]
    congr 1
    apply ih
    intro k hk
    have := h (k + 1) (by simp; omega)
    simpa using this

/-- data shifted by an insertion of any length in front (so that every block boundary moves to an
unaligned offset) is still found: the insertion is the only literal data. -/
theorem shifted_identical (c : Ctx) (p : Pick c) (ins basis : Bytes)
    (hb : c.blocks = honestBlocks c.W c.H (splitBlocks c.blm1 basis))
    (hno : ∀ k, k < ins.length → p.f (c.win ((ins ++ basis).drop k)) = none) :
    ∃ refs : List Tok, (∀ tok ∈ refs, ∃ i, tok = Tok.ref i) ∧
      greedy c p (ins ++ basis) = ins.map Tok.lit ++ refs :=
  ⟨greedy c p basis, identical_refs_only c p basis hb, greedy_skip_unmatched c p ins basis hno⟩

/-- a literal is sent only where no block matches (restated from the specification level) -/
theorem literal_only_if_no_match' (c : Ctx) (p : Pick c) (x : UInt8) (xs : Bytes) (r : List Tok)
    (h : greedy c p (x :: xs) = Tok.lit x :: r) : ∀ i, c.matches (c.win (x :: xs)) i = false := by
  rw [greedy] at h
  cases hf : p.f (c.win (x :: xs)) with
  | some i => rw [hf] at h; simp at h
  | none => exact p.complete _ hf

end Delta
