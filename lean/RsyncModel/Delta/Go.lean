import RsyncModel.Delta.AlgB
import RsyncModel.Checksum
import RsyncModel.Gen.Consts
/-! The sender's delta search instantiated as the Go code runs it (sender.go:19-115, match.go,
token.go): header, block list built by `receiveSums`, the lookup, `chunkSize` cutting, the early
flush — all as an instance of the proved algorithm level `algB`. -/
namespace Delta
open Spec

/-- a validated checksum header (`SumHead` after `ReadFrom` accepted it) -/
structure Head where
  count : Nat
  bl : Nat
  csLen : Nat
  rem : Nat
deriving Repr, DecidableEq

structure Sum where
  sum1 : UInt32
  sum2 : Bytes

/-- `sb.Len` in `receiveSums` (sender.go:135-139) and `dataLen` in `receiveData` (receiver.go:152-155) -/
def blockLen (h : Head) (i : Nat) : Nat := if i + 1 = h.count ∧ h.rem ≠ 0 then h.rem else h.bl

def mkBlocks (h : Head) (sums : List Sum) : List Block :=
  (List.range sums.length).zipWith (fun i s => ⟨blockLen h i, s.sum1, s.sum2⟩) sums

/-- the context of one file's search: block length `bl` (≥ 1 by `ReadFrom`, D2), truncation length,
the blocks, the packed weak sum, the seeded strong hash `H` (arbitrary) -/
def mkCtx (H : Bytes → Bytes) (h : Head) (sums : List Sum) : Ctx :=
  ⟨h.bl - 1, h.csLen, mkBlocks h sums, fun w => pack (wsum w), H⟩

/-- match.go:95-150: candidates with equal packed weak sum, equal length, equal truncated strong
sum; the tag table only pre-filters (equal weak sums have equal tags), the order among equal
candidates is unspecified in Go (unstable sort) — the model takes the smallest index. -/
def lookGo (c : Ctx) : Look := fun s1 s2 w =>
  (List.range c.blocks.length).find? fun i =>
    match c.blocks[i]? with
    | none => false
    | some b => b.len == w.length && b.sum1 == pack (s1, s2) && b.sum2.take c.csLen == (c.H w).take c.csLen

def chunkSize : Nat := Gen.Consts.chunkSize

/-- `simpleSendToken`: literal runs are cut into pieces of at most `chunkSize` -/
def cutChunks (n : Nat) (bs : Bytes) : List Bytes :=
  if h : n = 0 ∨ bs.length ≤ n then (if bs.isEmpty then [] else [bs])
  else bs.take n :: cutChunks n (bs.drop n)
termination_by bs.length
decreasing_by simp only [List.length_drop]; omega

theorem cutChunks_flatten (n : Nat) (bs : Bytes) : (cutChunks n bs).flatten = bs := by
  induction bs using cutChunks.induct n with
  | case1 bs h he => rw [cutChunks]; simp_all
  | case2 bs h he => rw [cutChunks]; simp_all
  | case3 bs h ih => rw [cutChunks]; simp [h, ih]

def goChunker : Chunker := ⟨cutChunks chunkSize, cutChunks_flatten chunkSize⟩

/-- match.go:177-183: when the pending run reached `bl + chunkSize` bytes and more than `chunkSize`
bytes remain before `end`, everything but the last `bl` pending bytes is sent -/
def goFlusher (bl lastLen : Nat) : Flusher := fun pend' rest =>
  let backup := pend'.length - 1
  if backup ≥ bl + chunkSize ∧ rest.length + 2 - lastLen > chunkSize then backup - bl else 0

def lastLen (h : Head) : Nat := blockLen h (h.count - 1)

/-- the token stream the sender emits for target `t` -/
def senderTokens (H : Bytes → Bytes) (h : Head) (sums : List Sum) (t : Bytes) : List ATok :=
  let c := mkCtx H h sums
  algB c (lookGo c) goChunker (goFlusher h.bl (lastLen h)) [] (wsum (c.win t)) t

/-- `SumSizesSqroot` (rsynccommon.go) for lengths below 2^52 (where `int32(math.Sqrt(float64 n))`
is the integer square root) -/
def sumSizes (len : Nat) : Head :=
  let bl := max (Nat.sqrt len) Gen.Consts.blockSize
  ⟨(len + (bl - 1)) / bl, bl, Gen.Consts.checksumLength, len % bl⟩

end Delta
