import RsyncModel.Delta.AlgA
import RsyncModel.Delta.Roll
/-! Algorithm level B: the same token loop, but the weak sum is not recomputed at every offset:
it is carried as the pair `(s1, s2)` and updated exactly as match.go does (`rollStep` when a
further byte exists, `dropStep` when the window only shrinks; after a match the sum is recomputed
one byte early and rolled once). -/
namespace Spec

/-- one pass of match.go:171-196 for the position whose remaining bytes are `x :: xs` -/
def rollGo (c : Ctx) (s : UInt32 × UInt32) (x : UInt8) (xs : Bytes) : UInt32 × UInt32 :=
  -- k = min bl |x :: xs|; `more` (a byte follows the window) iff bl ≤ |xs|, and then k = bl
  if h : c.bl ≤ xs.length then
    rollStep s.1 s.2 (UInt32.ofNat c.bl) x (xs[c.bl - 1]'(by
      have : 1 ≤ c.bl := by simp [Ctx.bl]
      omega))
  else
    dropStep s.1 s.2 (UInt32.ofNat (xs.length + 1)) x

/-- the lookup as the Go code performs it: from the carried pair and the window bytes -/
abbrev Look := UInt32 → UInt32 → Bytes → Option Nat

def algB (c : Ctx) (look : Look) (ch : Chunker) (fl : Flusher) (pend : Bytes) (s : UInt32 × UInt32) :
    (rest : Bytes) → List ATok
  | [] => emitRun ch pend
  | x :: xs =>
    let w := c.win (x :: xs)
    match look s.1 s.2 w with
    | some i =>
      let r := (x :: xs).drop w.length
      let y := w.getLast (by have := win_length_pos c x xs; exact List.ne_nil_of_length_pos this)
      let s0 := wsum (c.win (y :: r))        -- readChunk at offset+len-1 (Checksum1 of that chunk)
      let s' := rollGo c s0 y r              -- then the loop rolls once before looking again
      emitRun ch pend ++ ATok.ref i :: algB c look ch fl [] s' r
    | none =>
      let pend' := pend ++ [x]
      let n := fl pend' xs
      emitRun ch (pend'.take n) ++ algB c look ch fl (pend'.drop n) (rollGo c s x xs) xs
termination_by rest => rest.length
decreasing_by
  · have := win_length_pos c x xs
    simp only [List.length_drop]; simp at *; omega
  · simp

theorem ofNat_cong (k : Nat) (hk : k < 4294967296) : Cong (UInt32.ofNat k) (k : Int) := by
  unfold Cong; simp [Nat.mod_eq_of_lt hk]

/-- the rolling pass re-establishes "`s` is the sum of the window at the next position" -/
theorem rollGo_wsum (c : Ctx) (hbl : c.bl < 4294967296) (x : UInt8) (xs : Bytes) :
    rollGo c (wsum (c.win (x :: xs))) x xs = wsum (c.win xs) := by
  unfold rollGo
  have hbl1 : 1 ≤ c.bl := by simp [Ctx.bl]
  split
  · next hlen =>
    obtain ⟨b, hb⟩ : ∃ b, c.bl = b + 1 := ⟨c.bl - 1, by omega⟩
    have e1 : c.win (x :: xs) = x :: xs.take (c.bl - 1) := by
      have hk : min c.bl (xs.length + 1) = c.bl := by omega
      simp only [Ctx.win, List.length_cons, hk]
      simp [hb]
    have e2 : c.win xs = xs.take (c.bl - 1) ++ [xs[c.bl - 1]'(by omega)] := by
      simp only [Ctx.win, Nat.min_eq_left hlen]
      simp only [hb, Nat.add_sub_cancel]
      rw [List.take_succ_eq_append_getElem]
    rw [e1, e2]
    apply rollStep_wsum
    have : (xs.take (c.bl - 1)).length + 1 = c.bl := by simp; omega
    rw [show ((xs.take (c.bl - 1)).length + 1 : Int) = (c.bl : Int) by exact_mod_cast this]
    exact ofNat_cong c.bl hbl
  · next hlen =>
    have e1 : c.win (x :: xs) = x :: xs := by
      have hk : min c.bl (xs.length + 1) = xs.length + 1 := by omega
      simp [Ctx.win, hk]
    have e2 : c.win xs = xs := by
      have hm : min c.bl xs.length = xs.length := by omega
      simp [Ctx.win, hm]
    rw [e1, e2]
    apply dropStep_wsum
    have hlt : xs.length + 1 < 4294967296 := by omega
    exact_mod_cast ofNat_cong (xs.length + 1) hlt

/-- the `Pick` function induced by the Go lookup -/
def pickOf (look : Look) : Bytes → Option Nat := fun w => look (wsum w).1 (wsum w).2 w

/-- B = A whenever the carried pair is the sum of the current window -/
theorem algB_eq_algA (c : Ctx) (hbl : c.bl < 4294967296) (look : Look) (p : Pick c) (hp : p.f = pickOf look)
    (ch : Chunker) (fl : Flusher) (pend rest : Bytes) :
    algB c look ch fl pend (wsum (c.win rest)) rest = algA c p ch fl pend rest := by
  induction pend, rest using algA.induct c p fl with
  | case1 pend => simp [algA, algB]
  | case2 pend x xs i hpick ih =>
    have hl : look (wsum (c.win (x :: xs))).1 (wsum (c.win (x :: xs))).2 (c.win (x :: xs)) = some i := by
      rw [hp] at hpick; exact hpick
    rw [algA, hpick, algB, hl]
    simp only
    rw [rollGo_wsum c hbl, ih]
  | case3 pend x xs hpick pend' n ih =>
    have hl : look (wsum (c.win (x :: xs))).1 (wsum (c.win (x :: xs))).2 (c.win (x :: xs)) = none := by
      rw [hp] at hpick; exact hpick
    rw [algA, hpick, algB, hl]
    simp only
    rw [rollGo_wsum c hbl, ih]

/-- end to end at this level: the rolling loop emits the greedy specification's tokens -/
theorem algB_correct (c : Ctx) (hbl : c.bl < 4294967296) (look : Look) (p : Pick c) (hp : p.f = pickOf look)
    (ch : Chunker) (fl : Flusher) (t : Bytes) :
    flat (algB c look ch fl [] (wsum (c.win t)) t) = greedy c p t := by
  rw [algB_eq_algA c hbl look p hp, algA_correct]

end Spec
