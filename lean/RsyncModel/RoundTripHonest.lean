import RsyncModel.RoundTrip
import RsyncModel.Delta.HonestHead
/-! Round trip against the signature an honest receiver computes (header arithmetic included). -/
namespace Recv
open Wire Delta
open Spec (wsum pack Ctx)

theorem readBlock_length (hd : Head) (b : List UInt8) (i : Nat) (d : List UInt8)
    (h : readBlock hd b i = some d) : d.length = blockLen hd i := by
  unfold readBlock at h
  simp only at h
  split at h
  · next h0 => simp only [Option.some.injEq] at h; subst h; simp [h0]
  · split at h
    · next h0 h1 =>
      simp only [Option.some.injEq] at h; subst h
      simp only [List.length_take, List.length_drop]; omega
    · cases h

theorem mkBlocks_get (h : Head) (sums : List Delta.Sum) (i : Nat) (s : Delta.Sum) (hs : sums[i]? = some s) :
    (mkBlocks h sums)[i]? = some ⟨blockLen h i, s.sum1, s.sum2⟩ := by
  unfold mkBlocks
  rcases List.getElem?_eq_some_iff.mp hs with ⟨hi, he⟩
  rw [List.getElem?_eq_some_iff]
  refine ⟨by simp; exact hi, ?_⟩
  simp [List.getElem_zipWith, he]

/-- the signature of `basis` as `generateAndSendSums` computes it: per block the packed weak sum and
the seeded strong sum `Hs` -/
def honestSums (Hs : List UInt8 → List UInt8) (blm1 : Nat) (basis : List UInt8) : List Delta.Sum :=
  (splitBlocks blm1 basis).map fun p => ⟨pack (wsum p), Hs p⟩

/-- **Round trip against an honest signature** (C02): for every basis, every target, every block
length (`blm1+1 ≤ 2²⁹`) and every strong-checksum length `cs ≤ 16`: if no block of the basis
collides under the truncated strong hash with a different window of the same length
(`nocoll`), the receiver reconstructs and commits exactly the target from the Go-level sender's
stream — remainder block, duplicate blocks, matches at unaligned offsets and empty files included. -/
theorem roundtrip_honest (Hs Hfile : List UInt8 → List UInt8) (blm1 cs : Nat) (basis t rest : List UInt8)
    (hcs : cs ≤ maxCsLen) (hbl : blm1 + 1 ≤ maxBlockLen)
    (hcount : (honestHead blm1 cs basis).count < 2147483648)
    (hfile16 : (Hfile t).length = 16)
    (nocoll : ∀ (i : Nat) (p w : List UInt8), (splitBlocks blm1 basis)[i]? = some p → p.length = w.length →
      (Hs p).take cs = (Hs w).take cs → p = w) :
    recvData Hfile (some basis)
        (encHead (honestHead blm1 cs basis) ++
          (encToks (senderTokens Hs (honestHead blm1 cs basis) (honestSums Hs blm1 basis) t) ++ (Hfile t ++ rest)))
      = (.committed t, rest) := by
  have hlen : (honestSums Hs blm1 basis).length = (honestHead blm1 cs basis).count := by
    simp only [honestSums, List.length_map, honestHead]
    exact splitBlocks_length blm1 basis.length basis (Nat.le_refl _)
  apply roundtrip Hs Hfile _ _ basis t rest (fun i => ((splitBlocks blm1 basis)[i]?).getD [])
  · refine ⟨hcount, hbl, hcs, ?_, ?_⟩
    · exact Nat.le_of_lt (Nat.mod_lt _ (by omega))
    · intro _; simp [honestHead]
  · rw [hlen]; exact hcount
  · exact hfile16
  · -- faithfulness from the no-collision hypothesis
    intro w i hm
    simp only [Ctx.matches, mkCtx] at hm
    cases hb : (mkBlocks (honestHead blm1 cs basis) (honestSums Hs blm1 basis))[i]? with
    | none => rw [hb] at hm; cases hm
    | some b =>
      rw [hb] at hm
      have hi : i < (honestSums Hs blm1 basis).length := by
        rcases List.getElem?_eq_some_iff.mp hb with ⟨hi, _⟩
        simpa [mkBlocks] using hi
      have hi' : i < (splitBlocks blm1 basis).length := by simpa [honestSums] using hi
      have hp : (splitBlocks blm1 basis)[i]? = some (splitBlocks blm1 basis)[i] := List.getElem?_eq_getElem hi'
      have hs : (honestSums Hs blm1 basis)[i]? =
          some ⟨pack (wsum (splitBlocks blm1 basis)[i]), Hs (splitBlocks blm1 basis)[i]⟩ := by
        simp [honestSums, List.getElem?_map, hp]
      have hb' := mkBlocks_get (honestHead blm1 cs basis) _ i _ hs
      rw [hb] at hb'
      simp only [Option.some.injEq] at hb'
      subst hb'
      simp only [Bool.and_eq_true, beq_iff_eq] at hm
      have hrd := readBlock_honest blm1 cs basis i (by rw [← hlen]; exact hi)
      rw [hp] at hrd
      have hl := readBlock_length _ _ _ _ hrd
      rw [hp]; simp only [Option.getD_some]
      exact nocoll i _ w hp (by rw [hl]; exact hm.1.1) hm.2
  · intro i hi
    rw [hlen] at hi
    rw [readBlock_honest blm1 cs basis i hi]
    have hi' : i < (splitBlocks blm1 basis).length := by
      rw [splitBlocks_length blm1 basis.length basis (Nat.le_refl _)]; exact hi
    rw [List.getElem?_eq_getElem hi']; simp

/-- the no-collision hypothesis is satisfiable: for the identity "hash" and blocks no longer than
the compared prefix it holds for every basis -/
example (blm1 cs : Nat) (basis : List UInt8) (h : blm1 + 1 ≤ cs) :
    ∀ (i : Nat) (p w : List UInt8), (splitBlocks blm1 basis)[i]? = some p → p.length = w.length →
      (id p).take cs = (id w).take cs → p = w := by
  intro i p w hp hl he
  have hpl : p.length ≤ blm1 + 1 := by
    rcases List.getElem?_eq_some_iff.mp hp with ⟨hi, he'⟩
    by_cases hlt : i * (blm1 + 1) < basis.length
    · rw [splitBlocks_get blm1 i basis hlt] at hp
      simp only [Option.some.injEq] at hp; subst hp
      simp only [List.length_take]; omega
    · exfalso
      rw [splitBlocks_length blm1 basis.length basis (Nat.le_refl _)] at hi
      have h1 : i * (blm1 + 1) < ((basis.length + blm1) / (blm1 + 1)) * (blm1 + 1) :=
        Nat.mul_lt_mul_of_pos_right hi (by omega)
      have h2 : ((basis.length + blm1) / (blm1 + 1)) * (blm1 + 1) ≤ basis.length + blm1 := Nat.div_mul_le_self _ _
      have h3 : (i + 1) * (blm1 + 1) ≤ ((basis.length + blm1) / (blm1 + 1)) * (blm1 + 1) :=
        Nat.mul_le_mul_right _ hi
      rw [Nat.add_mul, Nat.one_mul] at h3
      omega
  simp only [id] at he
  rw [List.take_of_length_le (by omega), List.take_of_length_le (by omega)] at he
  exact he

end Recv
