import RsyncModel.Gen.OptTable
/-! Model of the option machinery (internal/rsyncopts): the popt-style lexer `poptGetNextOpt`
(popt.go), the special-case switch of `ParseArguments` (rsyncopts.go), the daemon-mode re-parse,
`ServerOptions` (serveroptions.go) and the dispatch of `maincmd.Main`. Every table — option rows,
`case` clauses, accessors, defaults, the items of ServerOptions — is *regenerated from the source*
(`Gen.OptTable`); this file only says how a table is interpreted.

popt's decisions never depend on option values, so parsing splits into a state-independent lexer
(`lex`: argument strings → option tokens, argument consumption included) and a fold over tokens
(`run`). -/
namespace Opts
open Gen.OptTable

abbrev Str := List Char

structure St where
  ints : Field → Int
  strs : Field → Str
  rules : List Str
  remaining : List Str
  version : Bool

def St.set (s : St) (f : Field) (v : Int) : St := { s with ints := fun g => if g = f then v else s.ints g }
def St.setStr (s : St) (f : Field) (v : Str) : St := { s with strs := fun g => if g = f then v else s.strs g }

def lookupDefault (f : Field) : List (Field × Int) → Int
  | [] => 0
  | (g, v) :: rest => if g = f then v else lookupDefault f rest

/-- `NewOptionsWithGokrazyDefaults` -/
def init : St := { ints := fun f => lookupDefault f defaults, strs := fun _ => [], rules := [], remaining := [], version := false }

def acc (s : St) (a : Acc) : Bool := s.ints (accField a) != 0

inductive Res
  | ok (s : St)
  | err
  | exit          -- an `*ExitError` (help/version): only a command-line main may act on it
  | unmodelled    -- the source contains something this model does not interpret

/-! ### the lexer (`poptGetNextOpt` minus the stores) -/

inductive LTok
  | pos (a : Str)
  | opt (r : Row) (arg : Str)
  | bad
  | unmodelled
deriving Repr

def noArg (k : Kind) : Bool := k == .none || k == .val

def findLong (rows : List Row) (name : Str) : Option Row :=
  if name = [] then none else rows.find? (fun r => r.long == name)

def findShort (rows : List Row) (c : Char) : Option Row :=
  rows.find? (fun r => r.short == [c])

/-- `strings.Cut(s, "=")` -/
def cutEq : Str → Str × Str × Bool
  | [] => ([], [], false)
  | c :: cs => if c = '=' then ([], cs, true) else let (b, a, f) := cutEq cs; (c :: b, a, f)

def stripEq : Str → Str
  | '=' :: cs => cs
  | cs => cs

/-- the short options packed in one argument; `next` is the following argument, the Boolean says
whether it was consumed as an option argument -/
def lexShorts (rows : List Row) : Str → Option Str → List LTok × Bool
  | [], _ => ([], false)
  | c :: cs, next =>
    match findShort rows c with
    | none => ([.bad], false)
    | some r =>
      if r.kind == .other then ([.unmodelled], false)
      else if noArg r.kind then
        if cs.head? == some '=' then ([.bad], false)
        else
          let (ts, used) := lexShorts rows cs next
          (.opt r [] :: ts, used)
      else if cs ≠ [] then ([.opt r (stripEq cs)], false)
      else match next with
        | none => ([.bad], false)
        | some a => ([.opt r a], true)

def lexArg (rows : List Row) (a : Str) (next : Option Str) : List LTok × Bool :=
  match a with
  | [] => ([.bad], false)
  | c :: tl =>
    if c ≠ '-' ∨ tl = [] then ([.pos a], false)
    else
      let (before, longArg, _) := cutEq a
      let b1 := before.drop 1
      let oneDash := b1.head? != some '-'
      let name := if oneDash then b1 else b1.drop 1
      match findLong rows name with
      | some r =>
        if r.kind == .other then ([.unmodelled], false)
        else if noArg r.kind then
          if longArg ≠ [] then ([.bad], false) else ([.opt r []], false)
        else if longArg ≠ [] then ([.opt r longArg], false)
        else match next with
          | none => ([.bad], false)
          | some x => ([.opt r x], true)
      | none => if !oneDash then ([.bad], false) else lexShorts rows tl next

def lexN (rows : List Row) : Nat → List Str → List LTok
  | 0, _ => []
  | _, [] => []
  | n + 1, a :: rest =>
    let (ts, used) := lexArg rows a rest.head?
    ts ++ lexN rows n (if used then rest.tail else rest)

def lex (rows : List Row) (args : List Str) : List LTok := lexN rows args.length args

/-! ### `strconv.ParseInt(s, 0, 64)` followed by the int32 range check (decimal, 0x, 0o, 0b, leading 0) -/

def digitVal (c : Char) : Option Nat :=
  if '0' ≤ c ∧ c ≤ '9' then some (c.toNat - '0'.toNat)
  else if 'a' ≤ c ∧ c ≤ 'f' then some (c.toNat - 'a'.toNat + 10)
  else if 'A' ≤ c ∧ c ≤ 'F' then some (c.toNat - 'A'.toNat + 10)
  else none

def parseNat (base : Nat) : Str → Nat → Option Nat
  | [], acc => some acc
  | c :: cs, acc =>
    match digitVal c with
    | none => none
    | some d => if d < base then parseNat base cs (acc * base + d) else none

def parseUnsigned (s : Str) : Option Nat :=
  match s with
  | [] => none
  | '0' :: 'x' :: r | '0' :: 'X' :: r => if r = [] then none else parseNat 16 r 0
  | '0' :: 'b' :: r | '0' :: 'B' :: r => if r = [] then none else parseNat 2 r 0
  | '0' :: 'o' :: r | '0' :: 'O' :: r => if r = [] then none else parseNat 8 r 0
  | '0' :: r => parseNat 8 r 0
  | _ => parseNat 10 s 0

/-- `none`: BADNUMBER or OVERFLOW -/
def parseInt32 (s : Str) : Option Int :=
  let (neg, body) := match s with
    | '-' :: r => (true, r)
    | '+' :: r => (false, r)
    | _ => (false, s)
  match parseUnsigned body with
  | none => none
  | some n =>
    let v : Int := if neg then -(n : Int) else n
    if v < -2147483648 ∨ v > 2147483647 then none else some v

/-! ### `parseOutputWords` as far as it matters: does `--info=`/`--debug=` ask for help before an item stops the scan? -/

def splitComma : Str → List Str
  | [] => [[]]
  | c :: cs =>
    match splitComma cs with
    | [] => [[c]]
    | h :: t => if c = ',' then [] :: h :: t else (c :: h) :: t

def isDigit (c : Char) : Bool := '0' ≤ c && c ≤ '9'
def lower (c : Char) : Char := if 'A' ≤ c ∧ c ≤ 'Z' then Char.ofNat (c.toNat + 32) else c
def trimRightDigits (s : Str) : Str := (s.reverse.dropWhile isDigit).reverse
def isSpace (c : Char) : Bool := c == ' ' || c == '\t' || c == '\n' || c == '\r'

/-- the words of `infoWords` / `debugWords` are not needed: an unknown item is an error that
ParseArguments drops, and it stops the scan exactly like the level overflow does. `known` decides. -/
def wordsExit (known : Str → Bool) : List Str → Bool
  | [] => false
  | it :: rest =>
    if it.all isSpace then wordsExit known rest
    else
      let t := trimRightDigits it
      let digits := it.drop t.length
      if digits.length > 18 then false      -- strconv.Atoi overflow: error, scan stops (dropped)
      else
        let w := t.map lower
        if w = "help".toList then true
        else if w = "none".toList ∨ w = "all".toList ∨ known w then wordsExit known rest
        else false

/-! ### the interpreter (`ParseArguments`) -/

def lookupCase (code : Int) : List (Int × List Act) → Option (List Act)
  | [] => none
  | (c, a) :: rest => if c = code then some a else lookupCase code rest

inductive ActRes
  | next (s : St)
  | daemon (s : St)
  | stop (r : Res)

def infoKnown (w : Str) : Bool := infoWordsLower.contains w
def debugKnown (w : Str) : Bool := debugWordsLower.contains w

/-- `--filter=RULE` (OPT_FILTER): the rule text goes to the sender as it is, which reads `- NAME` as an exclude rule,
`+ NAME` as an include rule, `!` as the list-clearing rule (refused there) and *anything else as a name to exclude*;
so anything else is refused here -/
def filterArgOk (arg : Str) : Bool :=
  match arg with
  | '-' :: ' ' :: _ => true
  | '+' :: ' ' :: _ => true
  | ['!'] => true
  | _ => false

def runActs (arg : Str) : List Act → St → ActRes
  | [], s => .next s
  | a :: rest, s =>
    match a with
    | .set f v => runActs arg rest (s.set f v)
    | .setIfZero f v => runActs arg rest (if s.ints f = 0 then s.set f v else s)
    | .incr f => runActs arg rest (s.set f (s.ints f + 1))
    | .requireNonzero f => if s.ints f = 0 then .stop .err else runActs arg rest s
    | .setStr _ => runActs arg rest s
    | .rule pfx => runActs arg rest { s with rules := s.rules ++ [pfx ++ arg] }
    | .ruleChecked => if filterArgOk arg then runActs arg rest { s with rules := s.rules ++ [arg] } else .stop .err
    | .words w => if wordsExit (match w with | .info => infoKnown | .debug => debugKnown) (splitComma arg) then .stop .exit else runActs arg rest s
    | .version => runActs arg rest { s with version := true }
    | .daemonMode => .daemon s
    | .exit => .stop .exit
    | .fail => .stop .err
    | .retOk => .stop (.ok s)
    | .other _ => .stop .unmodelled

/-- the stores of `poptGetNextOpt` for one option -/
def store (r : Row) (arg : Str) (s : St) : Option St :=
  match r.target with
  | none => some s
  | some f =>
    match r.kind with
    | .none => some (s.set f 1)
    | .val => some (s.set f r.val)
    | .int => (parseInt32 arg).map (s.set f)
    | .str => some (s.setStr f arg)
    | .other => some s

/-- does the option come back to the `switch`? (`opt.val != 0 && argType != POPT_ARG_VAL`) -/
def isSpecial (r : Row) : Bool := r.val != 0 && r.kind != .val

inductive TokRes
  | next (s : St)
  | daemon (s : St)
  | stop (r : Res)

def stepTok (cases : List (Int × List Act)) (dflt : List Act) (t : LTok) (s : St) : TokRes :=
  match t with
  | .pos a => .next { s with remaining := s.remaining ++ [a] }
  | .bad => .stop .err
  | .unmodelled => .stop .unmodelled
  | .opt r arg =>
    match store r arg s with
    | none => .stop .err
    | some s1 =>
      if isSpecial r then
        match runActs arg ((lookupCase r.val cases).getD dflt) s1 with
        | .next s2 => .next s2
        | .daemon s2 => .daemon s2
        | .stop x => .stop x
      else .next s1

/-- the daemon-mode loop: its own table and `case` clauses; `--daemon` again is just a row there -/
def runDaemon : List LTok → St → Res
  | [], s => .ok (s.set .f_am_daemon 1)
  | .pos _ :: ts, s => runDaemon ts s   -- collected in the inner Context, which is dropped
  | t :: ts, s =>
    match stepTok daemonCases daemonCasesDefault t s with
    | .next s1 => runDaemon ts s1
    | .daemon s1 => runDaemon ts s1      -- not reachable: the daemon clauses contain no daemonMode
    | .stop x => match x with
      | .ok s2 => .ok s2
      | r => r

def mainRows : List Row := clientRows ++ gokrazyRows
def daemonAllRows : List Row := gokrDaemonRows ++ daemonRows

/-- the tail of ParseArguments (rsyncopts.go, "set option defaults based on other options") as far as accessors see it -/
def finish (nargs : Nat) (s : St) : Res :=
  if s.version then .exit
  else if s.ints .f_human_readable > 1 ∧ nargs = 1 then .exit
  -- "--delete does not work without --recursive (-r)": the deletion pass walks the whole destination (the code tests
  -- this after the two assignments to xfer_dirs below, which touch neither field)
  else if s.ints .f_delete_mode ≠ 0 ∧ s.ints .f_recurse = 0 then .err
  else
    let s := if s.ints .f_recurse ≠ 0 then s.set .f_xfer_dirs 1 else s
    let s := if s.ints .f_xfer_dirs < 0 then s.set .f_xfer_dirs 0 else s
    .ok s

def runMain (all : List Str) : List LTok → St → Res
  | [], s => finish all.length s
  | t :: ts, s =>
    match stepTok mainCases mainCasesDefault t s with
    | .next s1 => runMain all ts s1
    | .daemon s1 => runDaemon (lex daemonAllRows all) s1
    | .stop x => x

/-- `pc.ParseArguments(osenv, args)` on fresh gokrazy defaults -/
def parseFrom (s : St) (args : List Str) : Res := runMain args (lex mainRows args) s
def parse (args : List Str) : Res := parseFrom init args

/-! ### `ServerOptions` -/

def cEval (σ : Acc → Bool) : BExpr CAtom → Bool :=
  BExpr.eval (fun a => match a with | .acc x => σ x | .other _ => false)

def isHere (it : Item) : Bool := it.tok == .lettersHere

/-- items before / after `if argstr != "-" { sargv = append(sargv, argstr) }` -/
def preItems : List Item := serverItems.takeWhile (fun it => !isHere it)
def postItems : List Item := (serverItems.dropWhile (fun it => !isHere it)).drop 1
def hasHere : Bool := serverItems.any isHere

def argItems (l : List Item) : List (BExpr CAtom × Str) :=
  l.filterMap fun it => match it.tok with | .arg a => some (it.cond, a) | _ => none
def letItems (l : List Item) : List (BExpr CAtom × Char) :=
  l.filterMap fun it => match it.tok with | .letter c => some (it.cond, c) | _ => none

def present {β : Type} (σ : Acc → Bool) (l : List (BExpr CAtom × β)) : List β :=
  (l.filter (fun p => cEval σ p.1)).map (·.2)

/-- `ServerOptions()`: whole arguments in place; the letters collected so far where the source
appends `argstr` (letters added after that point would never be sent, and are not) -/
def serverOptions (σ : Acc → Bool) : List Str :=
  present σ (argItems preItems) ++
  (let ls := present σ (letItems preItems)
   if hasHere && !ls.isEmpty then ['-' :: ls] else []) ++
  present σ (argItems postItems)

/-! ### `maincmd.Main`: which role a parsed command line selects -/

inductive Mode
  | daemonOverShell          -- HandleDaemonConn on stdin/stdout with the configured modules
  | serverSender (paths : List Str)
  | serverReceiver (paths : List Str)
  | serverBadArgs
  | client (remaining : List Str) (rsh : Str)
  | daemonListen
  | parseError
  | exitRequest
  | unmodelled
deriving Repr

def dispatch (args : List Str) : Mode :=
  match parse args with
  | .err => .parseError
  | .exit => .exitRequest
  | .unmodelled => .unmodelled
  | .ok s =>
    if acc s .Daemon && acc s .Server then .daemonOverShell
    else if acc s .Server then
      match s.remaining with
      | d :: p :: ps => if d = ['.'] then (if acc s .Sender then .serverSender (p :: ps) else .serverReceiver (p :: ps)) else .serverBadArgs
      | _ => .serverBadArgs
    else if !acc s .Daemon then .client s.remaining (s.strs .f_shell_cmd)
    else .daemonListen

end Opts
