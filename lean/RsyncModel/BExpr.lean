/-! Boolean expressions over atoms, as the extractor emits them for `if` conditions of the source,
with a *decision procedure for equivalence*: two expressions are equivalent for every assignment iff
they agree on every assignment of the atoms that occur in them (`equivB_sound`). So a claim about
all option sets / all entry kinds becomes a finite check the kernel evaluates. -/

inductive BExpr (α : Type) where
  | tt | ff
  | atom (a : α)
  | not (e : BExpr α)
  | and (a b : BExpr α)
  | or (a b : BExpr α)
deriving Repr

namespace BExpr
variable {α : Type}

def eval (σ : α → Bool) : BExpr α → Bool
  | .tt => true
  | .ff => false
  | .atom a => σ a
  | .not e => !(eval σ e)
  | .and a b => eval σ a && eval σ b
  | .or a b => eval σ a || eval σ b

def vars : BExpr α → List α
  | .tt => []
  | .ff => []
  | .atom a => [a]
  | .not e => vars e
  | .and a b => vars a ++ vars b
  | .or a b => vars a ++ vars b

def map {β : Type} (f : α → β) : BExpr α → BExpr β
  | .tt => .tt
  | .ff => .ff
  | .atom a => .atom (f a)
  | .not e => .not (map f e)
  | .and a b => .and (map f a) (map f b)
  | .or a b => .or (map f a) (map f b)

/-- substitute expressions for atoms -/
def subst {β : Type} (f : α → BExpr β) : BExpr α → BExpr β
  | .tt => .tt
  | .ff => .ff
  | .atom a => f a
  | .not e => .not (subst f e)
  | .and a b => .and (subst f a) (subst f b)
  | .or a b => .or (subst f a) (subst f b)

theorem eval_subst {β : Type} (f : α → BExpr β) (σ : β → Bool) (e : BExpr α) :
    eval σ (subst f e) = eval (fun a => eval σ (f a)) e := by
  induction e with
  | tt => rfl
  | ff => rfl
  | atom a => rfl
  | not e ih => simp [subst, eval, ih]
  | and a b iha ihb => simp [subst, eval, iha, ihb]
  | or a b iha ihb => simp [subst, eval, iha, ihb]

theorem eval_map {β : Type} (f : α → β) (σ : β → Bool) (e : BExpr α) :
    eval σ (map f e) = eval (fun a => σ (f a)) e := by
  induction e with
  | tt => rfl
  | ff => rfl
  | atom a => rfl
  | not e ih => simp [map, eval, ih]
  | and a b iha ihb => simp [map, eval, iha, ihb]
  | or a b iha ihb => simp [map, eval, iha, ihb]

theorem eval_congr (σ τ : α → Bool) (e : BExpr α) (h : ∀ a ∈ vars e, σ a = τ a) : eval σ e = eval τ e := by
  induction e with
  | tt => rfl
  | ff => rfl
  | atom a => exact h a (by simp [vars])
  | not e ih => simp [eval, ih h]
  | and a b iha ihb =>
    simp only [eval]
    rw [iha (fun x hx => h x (by simp [vars, hx])), ihb (fun x hx => h x (by simp [vars, hx]))]
  | or a b iha ihb =>
    simp only [eval]
    rw [iha (fun x hx => h x (by simp [vars, hx])), ihb (fun x hx => h x (by simp [vars, hx]))]

variable [DecidableEq α]

/-- assignment given as the list of atoms that are true -/
def ofTrue (ts : List α) : α → Bool := fun a => ts.contains a

/-- all subsets of a list (as lists) -/
def subsets : List α → List (List α)
  | [] => [[]]
  | x :: xs => (subsets xs) ++ (subsets xs).map (x :: ·)

theorem subsets_complete (vs : List α) (σ : α → Bool) :
    ∃ ts ∈ subsets vs, (∀ a ∈ ts, a ∈ vs) ∧ ∀ a ∈ vs, ofTrue ts a = σ a := by
  induction vs with
  | nil => exact ⟨[], by simp [subsets], by simp, by simp⟩
  | cons x xs ih =>
    obtain ⟨ts, hts, hsub, hag⟩ := ih
    by_cases hx : σ x = true
    · refine ⟨x :: ts, by simp [subsets, hts], ?_, ?_⟩
      · intro a ha
        rcases List.mem_cons.mp ha with h | h
        · simp [h]
        · simp [hsub a h]
      · intro a ha
        by_cases hax : a = x
        · subst hax; simp [ofTrue, hx]
        · have : a ∈ xs := by simpa [hax] using ha
          have h2 := hag a this
          simp only [ofTrue, List.contains_cons] at h2 ⊢
          rw [← h2]; simp [hax]
    · refine ⟨ts, by simp [subsets, hts], fun a ha => by simp [hsub a ha], ?_⟩
      intro a ha
      by_cases hax : a = x
      · subst hax
        by_cases hmem : a ∈ xs
        · exact hag a hmem
        · have : a ∉ ts := fun h => hmem (hsub a h)
          simp only [Bool.not_eq_true] at hx
          simp [ofTrue, hx, this]
      · exact hag a (by simpa [hax] using ha)

/-- finite equivalence check over the atoms that occur -/
def equivB (e₁ e₂ : BExpr α) : Bool :=
  (subsets ((vars e₁ ++ vars e₂).eraseDups)).all fun ts => eval (ofTrue ts) e₁ == eval (ofTrue ts) e₂

theorem equivB_sound (e₁ e₂ : BExpr α) (h : equivB e₁ e₂ = true) (σ : α → Bool) : eval σ e₁ = eval σ e₂ := by
  obtain ⟨ts, hts, _, hag⟩ := subsets_complete ((vars e₁ ++ vars e₂).eraseDups) σ
  have h1 := List.all_eq_true.mp h ts hts
  have e1 : eval σ e₁ = eval (ofTrue ts) e₁ :=
    eval_congr _ _ _ (fun a ha => (hag a (by simp [List.mem_eraseDups, ha])).symm)
  have e2 : eval σ e₂ = eval (ofTrue ts) e₂ :=
    eval_congr _ _ _ (fun a ha => (hag a (by simp [List.mem_eraseDups, ha])).symm)
  rw [e1, e2]; exact (beq_iff_eq).mp h1

/-- implication check -/
def implB (e₁ e₂ : BExpr α) : Bool := equivB (.or (.not e₁) e₂) .tt

theorem implB_sound (e₁ e₂ : BExpr α) (h : implB e₁ e₂ = true) (σ : α → Bool) (h1 : eval σ e₁ = true) : eval σ e₂ = true := by
  have := equivB_sound _ _ h σ
  simp [eval, h1] at this
  exact this

end BExpr
