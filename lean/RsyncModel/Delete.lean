import RsyncModel.Walk
import RsyncModel.Utf8
import RsyncModel.Filter
/-! `deleteFiles` (receiver/do.go:25-67) and `findInFileList` (receiver/flist.go:24-29): the guard
conditions, the binary search over the name-sorted list, and the walk of `Walk.delWalk`. -/
namespace Delete
open Walk

abbrev Str := List UInt8

/-- `sort.Search(n, f)`: bisection for the smallest index in `[0, n)` at which `f` is true -/
def search (f : Nat → Bool) (lo hi : Nat) : Nat :=
  if h : lo < hi then
    let m := (lo + hi) / 2
    if f m then search f lo m else search f (m + 1) hi
  else lo
termination_by hi - lo
decreasing_by all_goals omega

/-- Go string comparison `a >= b`: bytewise lexicographic -/
def geStr (a b : Str) : Bool := !(a < b)

/-- `findInFileList(fileList, name)` -/
def findInFileList (names : List Str) (name : Str) : Bool :=
  let i := search (fun i => geStr (names.getD i []) name) 0 names.length
  i < names.length && names.getD i [] == name

/-- path components joined with '/' (what `fs.WalkDir` passes to the callback) -/
def joined : Path → Str
  | [] => [46]      -- "."
  | [a] => a
  | a :: b :: r => a ++ 47 :: joined (b :: r)

/-- The walk as `fs.WalkDir(rt.DestRoot.FS(), …)` really proceeds: descending into a *kept*
directory needs `ReadDir(path)` on the `fs.FS`, which `io/fs.ValidPath` refuses when the path is not
valid UTF-8 — the callback then gets the error and `deleteFiles` aborts (known finding D26). Returns
the removed roots so far and whether the walk aborted. -/
def delWalkV (listed : Path → Bool) : List Ent → List Path × Bool
  | [] => ([], false)
  | e :: rest =>
    if listed e.path then
      if e.isDir && !Utf8.valid (joined e.path) then ([], true)
      else delWalkV listed rest
    else
      let r := delWalkV listed (rest.dropWhile (fun x => under e.path x.path))
      (e.path :: r.1, r.2)
termination_by l => l.length
decreasing_by
  · simp
  · have := (List.dropWhile_sublist (l := rest) (fun x => under e.path x.path)).length_le
    simp; omega

/-- the walk with the protection of excluded entries (receiver/do.go after the D9 repair): an entry
that is not in the list but that the user's rules exclude is left alone — a protected directory
with everything below it -/
def delWalkP (listed : Path → Bool) (protect : Path → Bool → Bool) : List Ent → List Path
  | [] => []
  | e :: rest =>
    if listed e.path then delWalkP listed protect rest
    else if protect e.path e.isDir then
      if e.isDir then delWalkP listed protect (rest.dropWhile (fun x => under e.path x.path))
      else delWalkP listed protect rest
    else e.path :: delWalkP listed protect (rest.dropWhile (fun x => under e.path x.path))
termination_by l => l.length
decreasing_by
  · simp
  · have := (List.dropWhile_sublist (l := rest) (fun x => under e.path x.path)).length_le
    simp; omega
  · simp
  · have := (List.dropWhile_sublist (l := rest) (fun x => under e.path x.path)).length_le
    simp; omega

/-- the same as the code runs it (UTF-8 restriction on kept directories it descends into) -/
def delWalkPV (listed : Path → Bool) (protect : Path → Bool → Bool) : List Ent → List Path × Bool
  | [] => ([], false)
  | e :: rest =>
    if listed e.path then
      if e.isDir && !Utf8.valid (joined e.path) then ([], true)
      else delWalkPV listed protect rest
    else if protect e.path e.isDir then
      if e.isDir then delWalkPV listed protect (rest.dropWhile (fun x => under e.path x.path))
      else delWalkPV listed protect rest
    else
      let r := delWalkPV listed protect (rest.dropWhile (fun x => under e.path x.path))
      (e.path :: r.1, r.2)
termination_by l => l.length
decreasing_by
  · simp
  · have := (List.dropWhile_sublist (l := rest) (fun x => under e.path x.path)).length_le
    simp; omega
  · simp
  · have := (List.dropWhile_sublist (l := rest) (fun x => under e.path x.path)).length_le
    simp; omega

/-- without rules the protected walk is the plain walk -/
theorem delWalkP_noRules (listed : Path → Bool) (l : List Ent) :
    delWalkP listed (fun _ _ => false) l = delWalk listed l := by
  induction l using delWalk.induct listed with
  | case1 => simp [delWalkP, delWalk]
  | case2 e rest hl ih => rw [delWalkP, delWalk, if_pos hl, if_pos hl]; exact ih
  | case3 e rest hl ih => rw [delWalkP, delWalk, if_neg hl, if_neg hl]; simp [ih]

/-- nothing listed and nothing protected is ever removed -/
theorem delWalkP_sound (listed : Path → Bool) (protect : Path → Bool → Bool) (l : List Ent) :
    ∀ p ∈ delWalkP listed protect l, listed p = false ∧ ∃ e ∈ l, e.path = p ∧ protect p e.isDir = false := by
  induction l using delWalkP.induct listed protect with
  | case1 => simp [delWalkP]
  | case2 e rest hl ih =>
    rw [delWalkP, if_pos hl]; intro p hp
    obtain ⟨a, e', he', h⟩ := ih p hp
    exact ⟨a, e', List.mem_cons_of_mem _ he', h⟩
  | case3 e rest hl hp hd ih =>
    rw [delWalkP, if_neg hl, if_pos hp, if_pos hd]; intro p hpm
    obtain ⟨a, e', he', h⟩ := ih p hpm
    exact ⟨a, e', List.mem_cons_of_mem _ (List.dropWhile_subset _ he'), h⟩
  | case4 e rest hl hp hd ih =>
    rw [delWalkP, if_neg hl, if_pos hp, if_neg hd]; intro p hpm
    obtain ⟨a, e', he', h⟩ := ih p hpm
    exact ⟨a, e', List.mem_cons_of_mem _ he', h⟩
  | case5 e rest hl hp ih =>
    rw [delWalkP, if_neg hl, if_neg hp]; intro p hpm
    rcases List.mem_cons.mp hpm with rfl | hpm
    · exact ⟨by simpa using hl, e, List.mem_cons_self, rfl, by simpa using hp⟩
    · obtain ⟨a, e', he', h⟩ := ih p hpm
      exact ⟨a, e', List.mem_cons_of_mem _ (List.dropWhile_subset _ he'), h⟩

/-- on trees whose kept directories have valid UTF-8 names the real walk is the ideal one -/
theorem delWalkV_eq (listed : Path → Bool) (l : List Ent)
    (h : ∀ e ∈ l, e.isDir = true → Utf8.valid (joined e.path) = true) :
    delWalkV listed l = (delWalk listed l, false) := by
  induction l using delWalk.induct listed with
  | case1 => simp [delWalkV, delWalk]
  | case2 e rest hl ih =>
    rw [delWalkV, delWalk, if_pos hl, if_pos hl]
    have hv : (e.isDir && !Utf8.valid (joined e.path)) = false := by
      cases hd : e.isDir
      · simp
      · simp [h e (by simp) hd]
    simp only [hv, Bool.false_eq_true, if_false]
    exact ih (fun x hx => h x (by simp [hx]))
  | case3 e rest hl ih =>
    rw [delWalkV, delWalk, if_neg hl, if_neg hl]
    simp only
    rw [ih (fun x hx => h x (by simp [List.dropWhile_subset _ hx]))]

/-- `deleteFiles`: nothing on sender I/O errors, nothing without a top-level "." entry, nothing in a
dry run; otherwise the walk removes every entry the binary search does not find. -/
def deleteFiles (ioErrors : Nat) (dryRun : Bool) (names : List Str) (tree : List Ent) : List Path :=
  if ioErrors > 0 then []
  else if !(names.contains [46]) then []
  else if dryRun then []
  else delWalk (fun p => findInFileList names (joined p)) tree

/-- the same with the UTF-8 restriction of the real walk and the protection by the user's rules:
removed roots and `true` when it aborts with an error -/
def deleteFilesV (ioErrors : Nat) (dryRun : Bool) (names : List Str) (rules : List Filter.Rule) (tree : List Ent) : List Path × Bool :=
  if ioErrors > 0 then ([], false)
  else if !(names.contains [46]) then ([], false)
  else if dryRun then
    -- the dry-run walk still descends into what it would delete (and aborts the same way) but removes nothing
    ([], (delWalkPV (fun _ => true) (fun _ _ => false) tree).2)
  else delWalkPV (fun p => findInFileList names (joined p)) (fun p d => Filter.excluded rules (joined p) d) tree

end Delete
