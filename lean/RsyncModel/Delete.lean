import RsyncModel.Walk
import RsyncModel.Utf8
/-! `deleteFiles` (receiver/do.go:25-67) and `findInFileList` (receiver/flist.go:24-29): the guard
conditions, the binary search over the name-sorted list, and the walk of `Walk.delWalk`. -/
namespace Delete
open Walk

abbrev Str := List UInt8

/-- `sort.Search(n, f)`: bisection for the smallest index in `[0, n)` at which `f` is true -/
def search (f : Nat → Bool) (lo hi : Nat) : Nat :=
  if h : lo < hi then
    let m := (lo + hi) / 2
    if f m then search f lo m else search f (m + 1) hi
  else lo
termination_by hi - lo
decreasing_by all_goals omega

/-- Go string comparison `a >= b`: bytewise lexicographic -/
def geStr (a b : Str) : Bool := !(a < b)

/-- `findInFileList(fileList, name)` -/
def findInFileList (names : List Str) (name : Str) : Bool :=
  let i := search (fun i => geStr (names.getD i []) name) 0 names.length
  i < names.length && names.getD i [] == name

/-- path components joined with '/' (what `fs.WalkDir` passes to the callback) -/
def joined : Path → Str
  | [] => [46]      -- "."
  | [a] => a
  | a :: b :: r => a ++ 47 :: joined (b :: r)

/-- The walk as `fs.WalkDir(rt.DestRoot.FS(), …)` really proceeds: descending into a *kept*
directory needs `ReadDir(path)` on the `fs.FS`, which `io/fs.ValidPath` refuses when the path is not
valid UTF-8 — the callback then gets the error and `deleteFiles` aborts (known finding D26). Returns
the removed roots so far and whether the walk aborted. -/
def delWalkV (listed : Path → Bool) : List Ent → List Path × Bool
  | [] => ([], false)
  | e :: rest =>
    if listed e.path then
      if e.isDir && !Utf8.valid (joined e.path) then ([], true)
      else delWalkV listed rest
    else
      let r := delWalkV listed (rest.dropWhile (fun x => under e.path x.path))
      (e.path :: r.1, r.2)
termination_by l => l.length
decreasing_by
  · simp
  · have := (List.dropWhile_sublist (l := rest) (fun x => under e.path x.path)).length_le
    simp; omega

/-- on trees whose kept directories have valid UTF-8 names the real walk is the ideal one -/
theorem delWalkV_eq (listed : Path → Bool) (l : List Ent)
    (h : ∀ e ∈ l, e.isDir = true → Utf8.valid (joined e.path) = true) :
    delWalkV listed l = (delWalk listed l, false) := by
  induction l using delWalk.induct listed with
  | case1 => simp [delWalkV, delWalk]
  | case2 e rest hl ih =>
    rw [delWalkV, delWalk, if_pos hl, if_pos hl]
    have hv : (e.isDir && !Utf8.valid (joined e.path)) = false := by
      cases hd : e.isDir
      · simp
      · simp [h e (by simp) hd]
    simp only [hv, Bool.false_eq_true, if_false]
    exact ih (fun x hx => h x (by simp [hx]))
  | case3 e rest hl ih =>
    rw [delWalkV, delWalk, if_neg hl, if_neg hl]
    simp only
    rw [ih (fun x hx => h x (by simp [List.dropWhile_subset _ hx]))]

/-- `deleteFiles`: nothing on sender I/O errors, nothing without a top-level "." entry, nothing in a
dry run; otherwise the walk removes every entry the binary search does not find. -/
def deleteFiles (ioErrors : Nat) (dryRun : Bool) (names : List Str) (tree : List Ent) : List Path :=
  if ioErrors > 0 then []
  else if !(names.contains [46]) then []
  else if dryRun then []
  else delWalk (fun p => findInFileList names (joined p)) tree

/-- the same with the UTF-8 restriction of the real walk: removed roots and `true` when it aborts with an error -/
def deleteFilesV (ioErrors : Nat) (dryRun : Bool) (names : List Str) (tree : List Ent) : List Path × Bool :=
  if ioErrors > 0 then ([], false)
  else if !(names.contains [46]) then ([], false)
  else if dryRun then
    -- the dry-run walk still descends (and aborts the same way) but removes nothing
    ([], (delWalkV (fun _ => true) tree).2)
  else delWalkV (fun p => findInFileList names (joined p)) tree

end Delete
