import RsyncModel.Proto
/-! # A transfer whose receiving side fails in the middle

`Proto` models the fault-free session. Here the receiving endpoint (generator G + receiver R, the
server of a push or the in-process server of a local copy) has failed: R reads no more file data, the
endpoint owes the peer an error message of `owe` units on channel A (the direction G writes to), and
closes the connection once the message is handed over. S (the sending peer) is somewhere in its
program; it aborts when it reads the error message or when the connection is closed under it.

`drain` is what the source does about the data S is still sending: with `drain = true` the failed
endpoint keeps consuming channel B (rsyncd.go: `go io.Copy(io.Discard, crd)` before the error frame
is written); with `drain = false` nobody reads B any more (the code before the repair, D31). -/
namespace ProtoFail
open Proto

structure St where
  g    : Nat           -- requests G may still send (it stops when it notices the failure)
  owe  : Nat           -- units of the error message not yet handed to channel A
  s    : List SAct     -- what S still has to do; [] = finished or aborted
  qa   : Nat           -- request units in flight on A
  errq : Nat           -- error units in flight on A, behind the requests
  qb   : Nat           -- data units in flight on B

inductive Step (drain : Bool) (ca cb : Nat) : St → St → Prop
  | gSend (st : St) : 0 < st.g → st.errq = 0 → st.qa < ca → Step drain ca cb st { st with g := st.g - 1, qa := st.qa + 1 }
  | gStop (st : St) : 0 < st.g → Step drain ca cb st { st with g := 0 }
  | errSend (st : St) : 0 < st.owe → st.qa + st.errq < ca → Step drain ca cb st { st with owe := st.owe - 1, errq := st.errq + 1 }
  | errSync (st : St) (s' : List SAct) : ca = 0 → 0 < st.owe → st.s = SAct.recvA :: s' → st.qa = 0 →
      Step drain ca cb st { st with owe := st.owe - 1, s := [] }
  | sRecv (st : St) (s' : List SAct) : st.s = SAct.recvA :: s' → 0 < st.qa → Step drain ca cb st { st with s := s', qa := st.qa - 1 }
  | sErr (st : St) (s' : List SAct) : st.s = SAct.recvA :: s' → st.qa = 0 → 0 < st.errq →
      Step drain ca cb st { st with s := [], errq := st.errq - 1 }
  | aSync (st : St) (s' : List SAct) : ca = 0 → 0 < st.g → st.errq = 0 → st.s = SAct.recvA :: s' →
      Step drain ca cb st { st with g := st.g - 1, s := s' }
  | sSend (st : St) (s' : List SAct) : st.s = SAct.sendB :: s' → st.qb < cb → Step drain ca cb st { st with s := s', qb := st.qb + 1 }
  | bSync (st : St) (s' : List SAct) : drain = true → cb = 0 → st.s = SAct.sendB :: s' → Step drain ca cb st { st with s := s' }
  | drainB (st : St) : drain = true → 0 < st.qb → Step drain ca cb st { st with qb := st.qb - 1 }
  | closed (st : St) : st.owe = 0 → st.s ≠ [] → Step drain ca cb st { st with s := [] }

/-- the state right after the failure, seen from a state of the fault-free session -/
def afterFailure (st : Proto.St) (msg : Nat) : St := ⟨st.g, msg, st.s, st.qa, 0, st.qb⟩

/-- **with draining, a failed session always moves on**: whatever the capacities (0 included),
whatever S was doing, however long the error message — as long as S has not stopped, some step is
enabled. No invariant is needed: this holds in every state. -/
theorem progress_drain (ca cb : Nat) (st : St) (h : st.s ≠ []) : ∃ st', Step true ca cb st st' := by
  cases hs : st.s with
  | nil => exact absurd hs h
  | cons a s' =>
    cases a with
    | recvA =>
      by_cases hq : 0 < st.qa
      · exact ⟨_, Step.sRecv st s' hs hq⟩
      · by_cases he : 0 < st.errq
        · exact ⟨_, Step.sErr st s' hs (by omega) he⟩
        · by_cases ho : 0 < st.owe
          · by_cases hc : ca = 0
            · exact ⟨_, Step.errSync st s' hc ho hs (by omega)⟩
            · exact ⟨_, Step.errSend st ho (by omega)⟩
          · exact ⟨_, Step.closed st (by omega) h⟩
    | sendB =>
      by_cases hroom : st.qb < cb
      · exact ⟨_, Step.sSend st s' hs hroom⟩
      · by_cases hc : cb = 0
        · exact ⟨_, Step.bSync st s' rfl hc hs⟩
        · exact ⟨_, Step.drainB st rfl (by omega)⟩

/-- every step, with or without draining, strictly decreases this quantity: no schedule runs forever -/
def measure (st : St) : Nat := 2 * st.g + 2 * st.owe + 2 * st.s.length + st.qa + st.errq + st.qb

theorem measure_decreases (drain : Bool) (ca cb : Nat) (st st' : St) (hstep : Step drain ca cb st st') :
    measure st' < measure st := by
  cases hstep with
  | gSend hg he hq => simp [measure]; omega
  | gStop hg => simp [measure]; omega
  | errSend ho hq => simp [measure]; omega
  | errSync s' hc ho hs hq => simp [measure, hs]; omega
  | sRecv s' hs hq => simp [measure, hs]; omega
  | sErr s' hs hq he => simp [measure, hs]; omega
  | aSync s' hc hg he hs => simp [measure, hs]; omega
  | sSend s' hs hq => simp [measure, hs]; omega
  | bSync s' hd hc hs => simp [measure, hs]
  | drainB hd hq => simp [measure]; omega
  | closed ho hne =>
    simp only [measure, List.length_nil]
    have : 0 < st.s.length := List.length_pos_iff.mpr hne
    omega

/-- **without draining the session can stop dead** (D31, the code before the repair): S is in the
middle of a file (`sendB`) with no room on B, nobody reads B, and the error message cannot be handed
over because A is a rendezvous (or full) and S is not reading. Not finished, and no step enabled —
for every message length, every rest of S's program, every backlog on B. -/
theorem no_drain_deadlock (cb msg : Nat) (s' : List SAct) (hmsg : 0 < msg) :
    ¬ ∃ st', Step false 0 cb ⟨0, msg, SAct.sendB :: s', 0, 0, cb⟩ st' := by
  rintro ⟨st', h⟩
  cases h with
  | gSend hg he hq => simp at hg
  | gStop hg => simp at hg
  | errSend ho hq => simp at hq
  | errSync s'' hc ho hs hq => simp at hs
  | sRecv s'' hs hq => simp at hs
  | sErr s'' hs hq he => simp at hs
  | aSync s'' hc hg he hs => simp at hg
  | sSend s'' hs hq => simp at hq
  | bSync s'' hd hc hs => simp at hd
  | drainB hd hq => simp at hd
  | closed ho hne => simp at ho; omega

/-- the same when A has room for only part of the message (the observed hang over 17-byte pipes) -/
theorem no_drain_deadlock_small (ca cb msg : Nat) (s' : List SAct) (hmsg : 0 < msg) :
    ¬ ∃ st', Step false ca cb ⟨0, msg, SAct.sendB :: s', 0, ca, cb⟩ st' := by
  rintro ⟨st', h⟩
  cases h with
  | gSend hg he hq => simp at hg
  | gStop hg => simp at hg
  | errSend ho hq => simp at hq
  | errSync s'' hc ho hs hq => simp at hs
  | sRecv s'' hs hq => simp at hs
  | sErr s'' hs hq he => simp at hs
  | aSync s'' hc hg he hs => simp at hg
  | sSend s'' hs hq => simp at hq
  | bSync s'' hd hc hs => simp at hd
  | drainB hd hq => simp at hd
  | closed ho hne => simp at ho; omega

/-- that state is where a local copy is right after the receiver failed while the client writes a
file: reachable from the fault-free session by the failure alone -/
example : afterFailure ⟨0, [SAct.sendB, SAct.recvA], 1, 0, 0⟩ 1 = ⟨0, 1, [SAct.sendB, SAct.recvA], 0, 0, 0⟩ := rfl

end ProtoFail
