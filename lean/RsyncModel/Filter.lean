import RsyncModel.Walk
import RsyncModel.Gen.Consts
/-! Filter rules (sender/exclude.go): `parseFilter`, `addRule`, `matches`, the wildcard refusal of
`RecvFilterList` / `ParseFilterRules`, and the effect on the sender's walk (sender/flist.go:148). -/
namespace Filter

abbrev Str := List UInt8

structure Rule where
  incl : Bool
  clearList : Bool
  directory : Bool
  wild : Bool
  pattern : Str
deriving DecidableEq, Repr

def dropSuffixSlash (s : Str) : Str := if s.getLast? == some 47 then s.dropLast else s

def isWildByte (b : UInt8) : Bool := b == 42 || b == 91 || b == 63    -- * [ ?

/-- `parseFilter` followed by `addRule` -/
def parseRule (line : Str) : Rule :=
  let (inc, clr, pat) :=
    match line with
    | 45 :: 32 :: rest => (false, false, rest)          -- "- "
    | 43 :: 32 :: rest => (true, false, rest)           -- "+ "
    | 33 :: _ => (false, true, line)                    -- "!…": clear-list flag, the line stays the pattern
    | _ => (false, false, line)
  let dir := pat.getLast? == some 47
  let pat' := dropSuffixSlash pat
  ⟨inc, clr, dir, pat'.any isWildByte, pat'⟩

/-- `RecvFilterList` / `ParseFilterRules`: `none` = error (a wildcard rule cannot be honoured) -/
def parseRules (lines : List Str) : Option (List Rule) :=
  let rs := lines.map parseRule
  -- wildcards, list-clearing `!` and anchored `/x` rules cannot be honoured: refused when received
  if rs.any (fun r => r.wild || r.clearList || r.pattern.head? == some 47) then none else some rs

/-- `filepath.Base` of a non-empty slash-separated name without trailing slash -/
def base (name : Str) : Str :=
  (name.reverse.takeWhile (· != 47)).reverse

/-- `(*filterRule).matches` for a non-wildcard rule -/
def ruleMatches (r : Rule) (name : Str) (isDir : Bool) : Bool :=
  if r.directory && !isDir then false      -- a trailing slash restricts the rule to directories
  -- a pattern with a slash names the end of the path, at a component boundary (D53)
  else if r.pattern.contains 47 then r.pattern == name || (47 :: r.pattern).isSuffixOf name
  else r.pattern == base name

/-- `(*filterRuleList).matches`: the first matching rule decides; exclude ⇒ true -/
def excluded : List Rule → Str → Bool → Bool
  | [], _, _ => false
  | r :: rs, name, isDir => if ruleMatches r name isDir then !r.incl else excluded rs name isDir

open Walk in
/-- the sender's walk over the pre-order listing: an excluded entry is left out; for a directory the
whole subtree is skipped (`filepath.SkipDir`), for a file the walk just goes on (D12 repaired) -/
def listWalk (excl : Path → Bool → Bool) : List Ent → List Path
  | [] => []
  | e :: rest =>
    if excl e.path e.isDir then
      if e.isDir then listWalk excl (rest.dropWhile (fun x => under e.path x.path))
      else listWalk excl rest
    else e.path :: listWalk excl rest
termination_by l => l.length
decreasing_by
  · have := (List.dropWhile_sublist (l := rest) (fun x => under e.path x.path)).length_le
    simp; omega
  · simp
  · simp

end Filter
