/-! A directory tree as the flat pre-order listing that `fs.WalkDir` visits (children sorted by
name, a directory before its contents), and the `--delete` walk of receiver/do.go over it. -/
namespace Walk

abbrev Name := List UInt8
abbrev Path := List Name            -- components below the root; the root itself is []

/-- `q` is a proper ancestor of `p` -/
def under (q p : Path) : Bool := q.isPrefixOf p && q.length < p.length

structure Ent where
  path  : Path
  isDir : Bool

/-- The delete walk with the per-entry decision of do.go:39-58 *after* the D8 repair: an entry
that is not in the file list is removed with its subtree (RemoveAll) and the walk does not descend
into it; everything else is visited. Returns the removed roots, in visiting order. -/
def delWalk (listed : Path → Bool) : List Ent → List Path
  | [] => []
  | e :: rest =>
    if listed e.path then delWalk listed rest
    else e.path :: delWalk listed (rest.dropWhile (fun x => under e.path x.path))
termination_by l => l.length
decreasing_by
  · simp
  · have := (List.dropWhile_sublist (l := rest) (fun x => under e.path x.path)).length_le
    simp; omega

/-- The walk as the pinned tree has it (D8): `fs.SkipDir` is returned for *every* removed entry;
for a file WalkDir then abandons the rest of the containing directory. -/
def delWalkD8 (listed : Path → Bool) : List Ent → List Path
  | [] => []
  | e :: rest =>
    if listed e.path then delWalkD8 listed rest
    else if e.isDir then e.path :: delWalkD8 listed (rest.dropWhile (fun x => under e.path x.path))
    else e.path :: delWalkD8 listed (rest.dropWhile (fun x => under e.path.dropLast x.path))
termination_by l => l.length
decreasing_by
  · simp
  · have := (List.dropWhile_sublist (l := rest) (fun x => under e.path x.path)).length_le
    simp; omega
  · have := (List.dropWhile_sublist (l := rest) (fun x => under e.path.dropLast x.path)).length_le
    simp; omega

/-- pre-order shape: whatever lies under an entry follows it contiguously -/
def PreOrder : List Ent → Prop
  | [] => True
  | e :: rest =>
    (∀ x ∈ rest.dropWhile (fun x => under e.path x.path), under e.path x.path = false) ∧
    (∀ x ∈ rest, under x.path e.path = false) ∧ PreOrder rest

theorem preOrder_dropWhile (p : Ent → Bool) : ∀ l, PreOrder l → PreOrder (l.dropWhile p)
  | [], _ => by simp [PreOrder]
  | e :: rest, h => by
    simp only [List.dropWhile_cons]
    split
    · exact preOrder_dropWhile p rest h.2.2
    · exact h

/-- every removed root is an unlisted entry of the listing -/
theorem delWalk_sound (listed : Path → Bool) (l : List Ent) :
    ∀ p ∈ delWalk listed l, listed p = false ∧ ∃ e ∈ l, e.path = p := by
  induction l using delWalk.induct listed with
  | case1 => simp [delWalk]
  | case2 e rest hl ih =>
    rw [delWalk, if_pos hl]
    intro p hp
    obtain ⟨h1, e', he', h2⟩ := ih p hp
    exact ⟨h1, e', List.mem_cons_of_mem _ he', h2⟩
  | case3 e rest hl ih =>
    rw [delWalk, if_neg hl]
    intro p hp
    rcases List.mem_cons.mp hp with rfl | hp
    · exact ⟨by simpa using hl, e, List.mem_cons_self, rfl⟩
    · obtain ⟨h1, e', he', h2⟩ := ih p hp
      exact ⟨h1, e', List.mem_cons_of_mem _ (List.dropWhile_subset _ he'), h2⟩

/-- no removed root lies under another removed root: nothing below a removed directory is visited -/
theorem delWalk_no_nested (listed : Path → Bool) (l : List Ent) (hpo : PreOrder l) :
    ∀ p ∈ delWalk listed l, ∀ q ∈ delWalk listed l, under q p = false := by
  induction l using delWalk.induct listed with
  | case1 => simp [delWalk]
  | case2 e rest hl ih =>
    rw [delWalk, if_pos hl]; exact ih hpo.2.2
  | case3 e rest hl ih =>
    rw [delWalk, if_neg hl]
    have hrest := preOrder_dropWhile (fun x => under e.path x.path) rest hpo.2.2
    intro p hp q hq
    rcases List.mem_cons.mp hp with rfl | hp <;> rcases List.mem_cons.mp hq with rfl | hq
    · simp [under]
    · -- q was visited after e, so it is a later entry; an entry never lies under a later one
      obtain ⟨_, e', he', rfl⟩ := delWalk_sound listed _ _ hq
      exact hpo.2.1 e' (List.dropWhile_subset _ he')
    · obtain ⟨_, e', he', rfl⟩ := delWalk_sound listed _ p hp
      exact hpo.1 e' he'
    · exact ih hrest p hp q hq

theorem of_mem_takeWhile {α} (p : α → Bool) : ∀ (l : List α) (a : α), a ∈ l.takeWhile p → p a = true
  | [], _, h => by simp at h
  | x :: xs, a, h => by
    by_cases hx : p x = true
    · simp only [List.takeWhile_cons, hx, if_true] at h
      rcases List.mem_cons.mp h with rfl | h
      · exact hx
      · exact of_mem_takeWhile p xs a h
    · simp [List.takeWhile_cons, hx] at h

/-- every unlisted entry all of whose ancestors are listed is removed: nothing extraneous survives,
at any depth and however many there are -/
theorem delWalk_complete (listed : Path → Bool) (l : List Ent) :
    ∀ e ∈ l, listed e.path = false → (∀ x ∈ l, under x.path e.path = true → listed x.path = true) →
      e.path ∈ delWalk listed l := by
  induction l using delWalk.induct listed with
  | case1 => simp
  | case2 h rest hl ih =>
    rw [delWalk, if_pos hl]
    intro e he hun hanc
    rcases List.mem_cons.mp he with rfl | he
    · rw [hun] at hl; exact absurd hl (by simp)
    · exact ih e he hun (fun x hx => hanc x (List.mem_cons_of_mem _ hx))
  | case3 h rest hl ih =>
    rw [delWalk, if_neg hl]
    intro e he hun hanc
    rcases List.mem_cons.mp he with rfl | he
    · exact List.mem_cons_self
    · apply List.mem_cons_of_mem
      have hsplit := List.takeWhile_append_dropWhile (p := fun x => under h.path x.path) (l := rest)
      rw [← hsplit] at he
      rcases List.mem_append.mp he with ht | hd
      · -- e would lie under the unlisted head: contradicts "all ancestors listed"
        have hu : under h.path e.path = true := of_mem_takeWhile (fun (x : Ent) => under h.path x.path) _ _ ht
        have := hanc h List.mem_cons_self hu
        rw [this] at hl; exact absurd rfl hl
      · exact ih e hd hun (fun x hx => hanc x (List.mem_cons_of_mem _ (List.dropWhile_subset _ hx)))

/-- D8 as a kernel-checked counterexample: two extraneous files in one directory — the repaired
walk removes both, the pinned tree's walk removes only the first. -/
def twoFiles : List Ent := [⟨[[97]], false⟩, ⟨[[98]], false⟩]
example : delWalk (fun _ => false) twoFiles = [[[97]], [[98]]] := by
  simp [twoFiles, delWalk, under]
example : delWalkD8 (fun _ => false) twoFiles = [[[97]]] := by
  simp [twoFiles, delWalkD8, under]

end Walk
