/-! # The sender's tag table (sender.go `SendFiles`, match.go `hashSearch`)

`targets` is the list of `(tag, block index)` pairs of all blocks, sorted by tag; `tagTable[t]` is the
first position in it whose tag is `t`. The search looks up the tag of the current window and scans
forward while the tag stays equal (`for ; j < count && targets[j].tag == tag; j++`). Proved: that scan
visits exactly the blocks whose tag equals the window's — no block is missed wherever it stands in the
file and however many blocks there are — so the table only pre-filters, as the model `lookGo` assumes. -/
namespace TagTable

/-- first position whose tag is `t` (what the backwards loop `tagTable[targets[idx].tag] = idx` leaves) -/
def firstPos (targets : List (Nat × Nat)) (t : Nat) : Option Nat :=
  let i := targets.findIdx (fun p => p.1 == t)
  if i < targets.length then some i else none

/-- the scan of `hashSearch`: from `j` while the tag equals `t` -/
def scanFrom (t : Nat) : List (Nat × Nat) → List Nat
  | [] => []
  | p :: ps => if p.1 == t then p.2 :: scanFrom t ps else []

def lookup (targets : List (Nat × Nat)) (t : Nat) : List Nat :=
  match firstPos targets t with
  | none => []
  | some j => scanFrom t (targets.drop j)

def SortedByTag (l : List (Nat × Nat)) : Prop := l.Pairwise (fun a b => a.1 ≤ b.1)

theorem scanFrom_eq_filter (t : Nat) : ∀ (l : List (Nat × Nat)), SortedByTag l → (∀ p ∈ l, t ≤ p.1) →
    scanFrom t l = (l.filter (fun p => p.1 == t)).map (·.2) := by
  intro l
  induction l with
  | nil => intro _ _; rfl
  | cons p ps ih =>
    intro hs hge
    have hs' : SortedByTag ps := (List.pairwise_cons.mp hs).2
    have hp := (List.pairwise_cons.mp hs).1
    by_cases h : p.1 = t
    · have hb : (p.1 == t) = true := by simpa using h
      simp only [scanFrom, hb, if_true, List.filter_cons, List.map_cons]
      rw [ih hs' (fun q hq => hge q (by simp [hq]))]
    · have hb : (p.1 == t) = false := by simpa using h
      have hlt : t < p.1 := by have := hge p (by simp); omega
      -- everything behind p has a tag ≥ p's > t: nothing matches
      have hnone : ps.filter (fun q => q.1 == t) = [] := by
        apply List.filter_eq_nil_iff.mpr
        intro q hq
        have := hp q hq
        simp; omega
      simp [scanFrom, hb, List.filter_cons, hnone]

/-- **the lookup finds every block with the window's tag**: for any table sorted by tag — of any
length, with any multiplicities — the scan started at the table's entry for `t` returns exactly the
block indices whose tag is `t`, in table order -/
theorem lookup_complete (targets : List (Nat × Nat)) (t : Nat) (hs : SortedByTag targets) :
    lookup targets t = (targets.filter (fun p => p.1 == t)).map (·.2) := by
  unfold lookup firstPos
  simp only
  by_cases hi : targets.findIdx (fun p => p.1 == t) < targets.length
  · rw [if_pos hi]
    simp only
    generalize hj : targets.findIdx (fun p => p.1 == t) = j at hi
    -- before j nothing matches; from j on tags are ≥ t
    have hbefore : ∀ p ∈ targets.take j, (p.1 == t) = false := by
      intro p hp
      obtain ⟨k, hk, rfl⟩ := List.mem_iff_getElem.mp hp
      have hkj : k < j := by simp at hk; omega
      have := List.not_of_lt_findIdx (p := fun p => p.1 == t) (xs := targets) (i := k) (by rw [hj]; exact hkj)
      simpa [List.getElem_take] using this
    have hsplit : targets = targets.take j ++ targets.drop j := (List.take_append_drop j targets).symm
    have hjt : ((targets[j]'hi).1 == t) = true := by
      have := List.findIdx_getElem (p := fun p => p.1 == t) (xs := targets) (w := by rw [hj]; exact hi)
      simpa [hj] using this
    have hsd : SortedByTag (targets.drop j) := List.Pairwise.sublist (List.drop_sublist j targets) hs
    have hge : ∀ p ∈ targets.drop j, t ≤ p.1 := by
      intro p hp
      have hdj : targets.drop j = targets[j] :: targets.drop (j + 1) := List.drop_eq_getElem_cons hi
      rw [hdj] at hp hsd
      have ht : (targets[j]).1 = t := by simpa using hjt
      rcases List.mem_cons.mp hp with rfl | hp'
      · omega
      · have := (List.pairwise_cons.mp hsd).1 p hp'
        omega
    rw [scanFrom_eq_filter t _ hsd hge]
    conv => rhs; rw [hsplit, List.filter_append]
    have : (targets.take j).filter (fun p => p.1 == t) = [] := by
      apply List.filter_eq_nil_iff.mpr
      intro p hp; rw [hbefore p hp]; simp
    rw [this, List.nil_append]
  · rw [if_neg hi]
    simp only
    have hall : ∀ p ∈ targets, ¬ (p.1 == t) = true := by
      intro p hp
      have : targets.findIdx (fun p => p.1 == t) = targets.length := by
        have := List.findIdx_le_length (p := fun p => p.1 == t) (xs := targets); omega
      have hf := (List.findIdx_eq_length.mp this) p hp
      rw [hf]; simp
    have : targets.filter (fun p => p.1 == t) = [] := List.filter_eq_nil_iff.mpr hall
    rw [this]; rfl

/-- non-vacuity: three blocks share tag 7, one of them with an index beyond 2^16 -/
example : lookup [(3, 0), (7, 70000), (7, 2), (7, 5), (9, 1)] 7 = [70000, 2, 5] := by decide

end TagTable
