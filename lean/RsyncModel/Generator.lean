/-! The receiver's generator for one file-list entry (receiver/generator.go `recvGenerator`,
`skipFile`, `setPerms`, generatoruid.go `setUid`, generatormknod_linux.go `createDevice`,
generatorsymlink.go, receiver.go `openLocalFile`/`receiveData` tail) over an abstract single
destination node. Every file-system call is made explicit as its effect on that node. -/
namespace Rx

abbrev Bytes := List UInt8

inductive Kind | reg | dir | lnk | chr | blk | fifo | sock | other
deriving DecidableEq, Repr

/-- a file-list entry as decoded (`receiver.File`) -/
structure Entry where
  kind : Kind
  perm : Nat          -- f.Mode & 0o777
  size : Int
  mtime : Int         -- seconds
  uid : Nat
  gid : Nat
  target : Bytes
  rdev : Nat
  sum : Bytes         -- whole-file MD4 from the list (-c)
deriving DecidableEq, Repr

/-- what `Lstat`/`Readlink`/`RootChecksum` see at the destination path -/
structure Node where
  kind : Kind
  perm : Nat
  size : Int
  mtime : Int         -- seconds (sub-second part is irrelevant: `Truncate(time.Second)`)
  uid : Nat
  gid : Nat
  target : Bytes
  rdev : Nat
  sum : Bytes         -- MD4 of the content (regular files)
  nonEmpty : Bool     -- directory with entries (`Remove` fails)
deriving DecidableEq, Repr

structure Opts where
  dryRun : Bool
  links : Bool
  devices : Bool
  specials : Bool
  perms : Bool
  times : Bool
  uid : Bool
  gid : Bool
  ignoreTimes : Bool
  checksum : Bool
  amRoot : Bool       -- os.Getuid() == 0
  inGroup : Bool      -- the entry's gid is one of the process's groups
  umask : Nat
  euid : Nat          -- owner of newly created nodes
  egid : Nat
deriving DecidableEq, Repr

/-- what the generator asks the sender for -/
inductive Req
  | none
  | indexOnly         -- dry run: the index without a checksum header
  | full              -- index + empty checksum header (whole file)
  | delta             -- index + checksum header + block sums of the existing file
deriving DecidableEq, Repr

inductive Res
  | ok
  | err
deriving DecidableEq, Repr

structure Out where
  node : Option Node
  req : Req
  retouch : Bool
  res : Res
deriving DecidableEq, Repr

def wbit : Nat := 0o200

/-- `setUid` (generatoruid.go) -/
def setUid (o : Opts) (e : Entry) (n : Node) : Node :=
  let cu := o.uid && o.amRoot && n.uid != e.uid
  let cg := o.gid && (o.amRoot || o.inGroup) && n.gid != e.gid
  { n with uid := if cu then e.uid else n.uid, gid := if cg then e.gid else n.gid }

/-- `setPerms(f, mode)` where `mode` has kind `k` and permission bits `perm` (generator.go:106-141) -/
def setPerms (o : Opts) (e : Entry) (k : Kind) (perm : Nat) (n : Node) : Node :=
  if o.dryRun then n
  else
    let n1 := if o.times && k != .lnk && n.mtime != e.mtime then { n with mtime := e.mtime } else n
    let n2 := setUid o e n1
    if k != .lnk then { n2 with perm := perm } else n2

/-- `skipFile` (generator.go:77-103) for an existing regular destination -/
def skipFile (o : Opts) (e : Entry) (n : Node) : Bool :=
  if n.size != e.size then false
  else if o.checksum then e.sum == n.sum
  else if o.ignoreTimes then false
  else n.mtime == e.mtime

/-- "now": the modification time of a node this process just created (never a wire value) -/
def nowMark : Int := 4000000000

def newNode (o : Opts) (k : Kind) (perm : Nat) : Node :=
  { kind := k, perm := (perm % 512) &&& (511 ^^^ (o.umask % 512)), size := 0, mtime := nowMark, uid := o.euid, gid := o.egid,
    target := [], rdev := 0, sum := [], nonEmpty := false }

def isDevKind (k : Kind) : Bool := k == .chr || k == .blk
def isSpecialKind (k : Kind) : Bool := k == .fifo || k == .sock

/-- does an existing node count as "file of correct type exists" in `createDevice` -/
def deviceExists (want : Kind) (n : Node) : Bool :=
  match want with
  | .chr => n.kind == .chr
  | .blk => n.kind == .blk
  | .sock => n.kind == .sock
  | .fifo => n.kind == .fifo
  | _ => false

/-- `recvGenerator(idx, f)` (generator.go:144-319), not list-only -/
def genStep (o : Opts) (e : Entry) (d : Option Node) : Out :=
  match e.kind with
  | .dir =>
    if o.dryRun then ⟨d, .none, false, .ok⟩
    else
      -- a non-directory in the way is removed
      let d1 : Option Node := match d with
        | some n => if n.kind != .dir then none else some n
        | none => none
      let n1 : Node := match d1 with
        | some n => n
        | none => newNode o .dir e.perm
      let retouch := e.perm &&& wbit == 0
      let perm' := if retouch then e.perm ||| wbit else e.perm
      ⟨some (setPerms o e .dir perm' n1), .none, retouch, .ok⟩
  | _ =>
  if o.links && e.kind == .lnk then
    if o.dryRun then ⟨d, .none, false, .ok⟩
    else match d with
      | some n =>
        if n.kind == .lnk && n.target == e.target then ⟨some (setPerms o e .lnk e.perm n), .none, false, .ok⟩
        else if n.kind == .dir then ⟨d, .none, false, .err⟩   -- rename of the temp symlink over a directory fails
        else ⟨some (setPerms o e .lnk e.perm { newNode o .lnk 0o777 with perm := 0o777, target := e.target }), .none, false, .ok⟩
      | none => ⟨some (setPerms o e .lnk e.perm { newNode o .lnk 0o777 with perm := 0o777, target := e.target }), .none, false, .ok⟩
  else if (o.devices && isDevKind e.kind) || (o.specials && isSpecialKind e.kind) then
    if o.dryRun then ⟨d, .none, false, .ok⟩
    else
      -- createDevice, then setPerms like for any other entry
      let fresh : Node :=
        -- bind(2) creates a socket with 0777 &^ umask; mknod/mkfifo apply the entry's bits &^ umask
        { newNode o e.kind (if e.kind == .sock then 0o777 else e.perm) with rdev := if isDevKind e.kind then e.rdev else 0 }
      match d with
      | some n =>
        if deviceExists e.kind n then
          if !isDevKind e.kind || n.rdev == e.rdev then ⟨some (setPerms o e e.kind e.perm n), .none, false, .ok⟩
          else ⟨some (setPerms o e e.kind e.perm fresh), .none, false, .ok⟩   -- wrong device number: recreated
        else ⟨d, .none, false, .err⟩   -- EEXIST
      | none => ⟨some (setPerms o e e.kind e.perm fresh), .none, false, .ok⟩
  else if e.kind != .reg then ⟨d, .none, false, .ok⟩
  else match d with
    | none => ⟨none, if o.dryRun then .indexOnly else .full, false, .ok⟩
    | some n =>
      if n.kind != .reg then
        if o.dryRun then ⟨d, .indexOnly, false, .ok⟩
        else if n.kind == .dir && n.nonEmpty then ⟨d, .none, false, .err⟩
        else ⟨none, .full, false, .ok⟩
      else if skipFile o e n then
        -- up to date: only metadata is touched; without -p the file keeps its own permission bits
        ⟨some (setPerms o e .reg (if o.perms then e.perm else n.perm) n), .none, false, .ok⟩
      else if o.dryRun then ⟨d, .indexOnly, false, .ok⟩
      else ⟨d, .delta, false, .ok⟩

/-- the receiver's tail for a regular file whose data arrived and passed the checksum
(`openLocalFile` permission rule, rename, `setPerms(f, f.Mode)`); `content` summarised by size/sum -/
def recvFinish (o : Opts) (e : Entry) (d : Option Node) (size : Int) (sum : Bytes) : Option Node :=
  if o.dryRun then d
  else
    let perm := match d with
      | some n => if n.kind == .reg && !o.perms then n.perm else e.perm
      | none => e.perm
    -- the pending file is created by this process, then renamed over the destination
    let fresh : Node := { newNode o .reg 0o600 with size := size, sum := sum }
    some (setPerms o e .reg perm fresh)

/-- `touchUpDirs` for one directory entry (generator.go:40-61), run after both goroutines finished when
some directory had to be created writable -/
def touchUp (o : Opts) (e : Entry) (n : Node) : Node :=
  if e.kind != .dir then n
  else if o.dryRun then n
  else if e.perm &&& wbit != 0 then n
  else setPerms o e .dir e.perm n

end Rx
