import RsyncModel.Generator
import RsyncModel.Driver.Util
namespace Driver
open Rx

def kindOf : String → Option Kind
  | "f" => some .reg | "d" => some .dir | "l" => some .lnk | "c" => some .chr | "b" => some .blk
  | "p" => some .fifo | "s" => some .sock | "x" => some .other | _ => none

def kindStr : Kind → String
  | .reg => "f" | .dir => "d" | .lnk => "l" | .chr => "c" | .blk => "b" | .fifo => "p" | .sock => "s" | .other => "x"

def parseOpts (s : String) (umask euid egid : Nat) : Opts :=
  let h (c : Char) := s.toList.contains c
  { dryRun := h 'n', links := h 'l', devices := h 'D', specials := h 'S', perms := h 'p', times := h 't',
    uid := h 'o', gid := h 'g', ignoreTimes := h 'I', checksum := h 'c', amRoot := h 'R', inGroup := h 'G',
    umask := umask, euid := euid, egid := egid }

def parseEntry (s : String) : Option Entry :=
  match s.splitOn "," with
  | [k, perm, size, mtime, uid, gid, target, rdev, sum] => do
    some ⟨← kindOf k, ← perm.toNat?, ← size.toInt?, ← mtime.toInt?, ← uid.toNat?, ← gid.toNat?,
      ← parseHex target, ← rdev.toNat?, ← parseHex sum⟩
  | _ => none

def parseNode (s : String) : Option (Option Node) :=
  if s == "absent" then some none else
  match s.splitOn "," with
  | [k, perm, size, mtime, uid, gid, target, rdev, sum, ne] => do
    some (some ⟨← kindOf k, ← perm.toNat?, ← size.toInt?, ← mtime.toInt?, ← uid.toNat?, ← gid.toNat?,
      ← parseHex target, ← rdev.toNat?, ← parseHex sum, ne == "1"⟩)
  | _ => none

def showNode : Option Node → String
  | none => "absent"
  | some n =>
    let size := if n.kind == .reg then n.size else 0
    let rdev := if n.kind == .chr || n.kind == .blk then n.rdev else 0
    let perm := if n.kind == .lnk then 511 else n.perm
    s!"{kindStr n.kind},{perm},{size},{n.mtime},{n.uid},{n.gid},{toHex n.target},{rdev}"

def showReq : Req → String
  | .none => "none" | .indexOnly => "index" | .full => "full" | .delta => "delta"

def genOp : List String → String
  | [op, opts, umask, euid, egid, entry, dest] =>
    match umask.toNat?, euid.toNat?, egid.toNat?, parseEntry entry, parseNode dest with
    | some um, some eu, some eg, some e, some d =>
      let o := parseOpts opts um eu eg
      let g := genStep o e d
      if op == "gen" then
        s!"{if g.res == .ok then "ok" else "err"} req={showReq g.req} retouch={if g.retouch then 1 else 0} node={showNode g.node}"
      else if op == "genrecv" then
        if g.res != .ok then "err"
        else if g.req == .full || g.req == .delta then s!"ok node={showNode (recvFinish o e g.node e.size e.sum)}"
        else s!"ok node={showNode g.node}"
      else "bad-op"
    | _, _, _, _, _ => "bad-op"
  | _ => "bad-op"

end Driver
