import RsyncModel.RecvData
import RsyncModel.MD4
import RsyncModel.Driver.Util
namespace Driver
open Spec Delta

def hex8 (v : UInt32) : String := toHex (MD4.leBytes32 v).reverse

def parseSum (s : String) : Option Delta.Sum :=
  match s.splitOn ":" with
  | [a, b] => do
    let x ← parseHex a
    if x.length != 4 then none
    let v := x.foldl (fun acc b => acc * 256 + b.toUInt32) (0 : UInt32)
    some ⟨v, ← parseHex b⟩
  | _ => none

def parseSums (s : String) : Option (List Delta.Sum) :=
  if s == "-" then some [] else (s.splitOn ",").mapM parseSum

/-- adjacent literal pieces are merged: the chunking policy is not part of the comparison -/
def mergeToks : List ATok → Bytes → List String
  | [], pend => if pend.isEmpty then [] else ["L" ++ toHex pend]
  | .lits bs :: r, pend => mergeToks r (pend ++ bs)
  | .ref i :: r, pend => (if pend.isEmpty then [] else ["L" ++ toHex pend]) ++ ("R" ++ toString i) :: mergeToks r []

def maxChunk (ts : List ATok) : Nat :=
  ts.foldl (fun m t => match t with | .lits bs => max m bs.length | _ => m) 0

def showHead (h : Head) : String := s!"{h.count},{h.bl},{h.csLen},{h.rem}"

def seedOf (s : String) : Option UInt32 := s.toInt?.map fun i => (Int32.ofInt i).toUInt32

def deltaOp : List String → String
  | ["sum1", b] => match parseHex b with
    | some bs => "ok " ++ hex8 (checksum1 bs)
    | none => "bad-op"
  | ["md4", b] => match parseHex b with
    | some bs => "ok " ++ toHex (MD4.sum bs)
    | none => "bad-op"
  | ["sumsizes", n] => match n.toNat? with
    | some n => "ok " ++ showHead (sumSizes n)
    | none => "bad-op"
  | ["gensums", seed, basis] =>
    match seedOf seed, parseHex basis with
    | some sd, some b =>
      let h := sumSizes b.length
      let sums := (List.range h.count).map fun i =>
        let blk := (b.drop (i * h.bl)).take h.bl
        hex8 (checksum1 blk) ++ ":" ++ toHex (MD4.sum2 sd blk)
      "ok " ++ showHead h ++ " " ++ (if sums.isEmpty then "-" else ",".intercalate sums)
    | _, _ => "bad-op"
  | ["search", seed, count, bl, cs, rem, sums, target] =>
    match seedOf seed, count.toNat?, bl.toNat?, cs.toNat?, rem.toNat?, parseSums sums, parseHex target with
    | some sd, some count, some bl, some cs, some rem, some sums, some t =>
      let h : Head := ⟨count, bl, cs, rem⟩
      let whole := sums.isEmpty || t.isEmpty   -- sendFile path (sender.go:86-88, match.go fix for empty files)
      let toks := if whole then goChunker.cut t |>.map ATok.lits
                  else senderTokens (MD4.sum2 sd) h sums t
      let hd := if whole then sumSizes t.length else h
      let ts := mergeToks toks []
      s!"ok hd={showHead hd} toks={if ts.isEmpty then "-" else ",".intercalate ts} sum={toHex (MD4.fileSum sd t)} maxchunk-ok={decide (maxChunk toks ≤ chunkSize)}"
    | _, _, _, _, _, _, _ => "bad-op"
  | ["recvdata", seed, basis, stream] =>
    match seedOf seed, (if basis == "none" then some none else (parseHex basis).map some), parseHex stream with
    | some sd, some b, some s =>
      match Recv.recvData (MD4.fileSum sd) b s with
      | (.committed c, rest) => s!"committed {toHex c} rest={rest.length}"
      | (.failed e, _) => "err:" ++ (match e with
          | .short => "eof" | .badHead => "badhead" | .noBasis => "nobasis" | .readAt => "eof" | .hash => "hash")
    | _, _, _ => "bad-op"
  | _ => "bad-op"

end Driver
