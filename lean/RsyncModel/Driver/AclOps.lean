import RsyncModel.Acl
import RsyncModel.Driver.Util
namespace Driver
open Acl

def parseRule (s : String) : Option Rule :=
  match s.splitOn ":" with
  | [t, c] => do
    let text ← parseHex t
    if c == "bad" || c == "na" then some ⟨text, .bad⟩
    else match c.splitOn "/" with
      | [ip, m] => do some ⟨text, .net (← parseHex ip) (← parseHex m)⟩
      | _ => none
  | _ => none

def showVerdict : Verdict → String
  | .allow => "allow" | .denied => "denied" | .malformed => "malformed" | .badAddr => "badaddr"

def aclOp : List String → String
  | "acl" :: addr :: rules =>
    match rules.mapM parseRule with
    | none => "bad-op"
    | some rs =>
      if addr == "badaddr" then "ok " ++ showVerdict (checkACL rs none)
      else match parseHex addr with
        | some a => "ok " ++ showVerdict (checkACL rs (some a))
        | none => "bad-op"
  | _ => "bad-op"

end Driver
