import RsyncModel.WireInt
import RsyncModel.Driver.Util
namespace Driver
open Wire

def wireOp : List String → String
  | ["i32.enc", n] => match n.toInt? with
    | some v => "ok " ++ toHex (encI32 (Int32.ofInt v))
    | none => "bad-op"
  | ["i64.enc", n] => match n.toInt? with
    | some v => "ok " ++ toHex (encLong (Int64.ofInt v))
    | none => "bad-op"
  | ["i32.dec", b] => match parseHex b with
    | some bs => match decI32 bs with
      | some (v, r) => s!"ok {v.toInt} rest={r.length}"
      | none => "err:eof"
    | none => "bad-op"
  | ["i64.dec", b] => match parseHex b with
    | some bs => match decLong bs with
      | some (v, r) => s!"ok {v.toInt} rest={r.length}"
      | none => "err:eof"
    | none => "bad-op"
  | _ => "bad-op"

end Driver
