import RsyncModel.Delete
import RsyncModel.Driver.Util
namespace Driver
open Delete Walk

def splitSlash (s : Bytes) : List Bytes :=
  s.foldr (fun b acc => if b == 47 then [] :: acc else match acc with
    | [] => [[b]]
    | x :: r => (b :: x) :: r) [[]]

def parseEnt (s : String) : Option Ent :=
  match s.splitOn ":" with
  | [p, k] => do some ⟨splitSlash (← parseHex p), k == "d"⟩
  | _ => none

def deleteOp : List String → String
  | ["filter", rules, tree] =>
    let rs := if rules == "-" then some [] else (rules.splitOn ",").mapM parseHex
    let es := if tree == "-" then some [] else (tree.splitOn ",").mapM parseEnt
    match rs, es with
    | some rs, some es =>
      match Filter.parseRules rs with
      | none => "err:unsupported"
      | some rules =>
        let kept := Filter.listWalk (fun p d => Filter.excluded rules (joined p) d) es
        "ok " ++ (if kept.isEmpty then "-" else ",".intercalate (kept.map fun p => toHex (joined p)))
    | _, _ => "bad-op"
  | ["delete", ioerr, dry, names, tree, rules] =>
    let ns := if names == "-" then some [] else (names.splitOn ",").mapM parseHex
    let es := if tree == "-" then some [] else (tree.splitOn ",").mapM parseEnt
    let rs := if rules == "-" then some [] else (rules.splitOn ",").mapM parseHex
    match ioerr.toNat?, ns, es, rs.bind Filter.parseRules with
    | some io, some ns, some es, some rls =>
      let (removed, aborted) := deleteFilesV io (dry == "1") ns rls es
      (if aborted then "err " else "ok ") ++ (if removed.isEmpty then "-" else ",".intercalate (removed.map fun p => toHex (joined p)))
    | _, _, _, _ => "bad-op"
  | ["utf8", b] => match parseHex b with
    | some bs => "ok " ++ toString (Utf8.valid bs)
    | none => "bad-op"
  | ["find", names, name] =>
    match (if names == "-" then some [] else (names.splitOn ",").mapM parseHex), parseHex name with
    | some ns, some n => "ok " ++ toString (findInFileList ns n)
    | _, _ => "bad-op"
  | _ => "bad-op"

end Driver
