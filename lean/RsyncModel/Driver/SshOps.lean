import RsyncModel.Ssh
import RsyncModel.Driver.OptsOps
/-! Driver ops of the SSH front-end model:
`sshexec anon|auth <args>`            -> refused | runs <class>
`dispatchclass <args>`                -> class of maincmd.Main's role for a command line (args[0] included)
`sshauth anon|auth <presented> <rawhex:blobhex|rawhex:bad> …` -> admitted | denied | loaderr
`sshreq <type hex>` / `sshchan <type hex>` -/
namespace Driver
open Opts Ssh

/-- the coarse role classes the harness can observe on the real `Main` -/
def modeClass : Mode → String
  | .daemonOverShell => "daemon"
  | .serverSender _ => "server-sender"
  | .serverReceiver _ => "server-receiver"
  | .client _ _ => "other"   -- a client-mode run is seen from outside only through what it copies or spawns
                             -- (the harness's oracle watches both); the comparison is on the role
  | .unmodelled => "unmodelled"
  | _ => "other"

def parseKeyLine (s : String) : Option KeyLine :=
  match s.splitOn ":" with
  | [r, b] => do
    let raw ← parseHex r
    if b == "bad" then some ⟨strOfBytes raw, none⟩ else some ⟨strOfBytes raw, some (strOfBytes (← parseHex b))⟩
  | _ => none

def sshOp : List String → String
  | ["sshexec", who, args] =>
    match parseArgList args with
    | none => "bad-op"
    | some as =>
      match exec (who == "anon") as with
      | .refused => "refused"
      | .ignored => "ignored"
      | .runs m => "runs " ++ modeClass m
  | ["dispatchclass", args] =>
    match parseArgList args with
    | none => "bad-op"
    | some as => modeClass (dispatch as.tail)
  | "sshauth" :: who :: presented :: lines =>
    match parseHex presented, lines.mapM parseKeyLine with
    | some p, some ls =>
      match listenerKeys (if who == "anon" then [] else ['x']) ls with
      | none => "loaderr"
      | some keys => if admits keys (strOfBytes p) then "admitted" else "denied"
    | _, _ => "bad-op"
  | ["sshreq", t] =>
    match parseHex t with
    | none => "bad-op"
    | some b => match request true (String.ofList (strOfBytes b)) [] with
      | .ignored => "ignored"
      | .refused => "refused"
      | .runs _ => "runs"
  | ["sshchan", t] =>
    match parseHex t with
    | none => "bad-op"
    | some b => if channelAccepted (String.ofList (strOfBytes b)) then "accepted" else "rejected"
  | _ => "bad-op"

end Driver
