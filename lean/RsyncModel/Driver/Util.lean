/-! Helpers for the line-protocol driver: hex, integers, field splitting. Core Lean only. -/
namespace Driver

abbrev Bytes := List UInt8

def hexVal (c : Char) : Option Nat :=
  if '0' ≤ c ∧ c ≤ '9' then some (c.toNat - 48)
  else if 'a' ≤ c ∧ c ≤ 'f' then some (c.toNat - 87) else none

def parseHexAux : List Char → List UInt8 → Option (List UInt8)
  | [], acc => some acc.reverse
  | [_], _ => none
  | a :: b :: r, acc => do
    let x ← hexVal a
    let y ← hexVal b
    parseHexAux r (UInt8.ofNat (x * 16 + y) :: acc)

/-- lower-case hex; `-` is the empty byte string -/
def parseHex (s : String) : Option Bytes :=
  if s == "-" then some [] else parseHexAux s.toList []

def hexDigit (n : Nat) : Char := if n < 10 then Char.ofNat (48 + n) else Char.ofNat (87 + n)

def toHex (bs : Bytes) : String :=
  if bs.isEmpty then "-" else
  String.ofList (bs.foldr (fun b acc => hexDigit (b.toNat / 16) :: hexDigit (b.toNat % 16) :: acc) [])

def fields (line : String) : List String := (line.splitOn " ").filter (· ≠ "")

def parseNats (s : String) : Option (List Nat) :=
  if s == "-" then some [] else (s.splitOn ",").mapM (·.toNat?)

def parseInts (s : String) : Option (List Int) :=
  if s == "-" then some [] else (s.splitOn ",").mapM (·.toInt?)

end Driver
