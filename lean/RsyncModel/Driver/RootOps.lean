import RsyncModel.RootFs
import RsyncModel.Driver.Util
/-! `rootfs <root> <follow 0|1> <name> <loc:kind[:target];…>` (paths hex; kind d f l(relative link) L(absolute link)) -/
namespace Driver
open RootFs

def locOf (b : Bytes) : Loc := (splitSlash b).filter (· ≠ [])

def parseFsEntry (s : String) : Option (Loc × Kind) :=
  match s.splitOn ":" with
  | [l, "d"] => do some (locOf (← parseHex l), .dir)
  | [l, "f"] => do some (locOf (← parseHex l), .file)
  | [l, "l", t] => do some (locOf (← parseHex l), .link (splitSlash (← parseHex t)) false)
  | [l, "L", t] => do some (locOf (← parseHex l), .link (splitSlash (← parseHex t)) true)
  | _ => none

def showLoc (l : Loc) : String :=
  toHex (match l with
    | [] => []
    | a :: r => r.foldl (fun acc x => acc ++ [47] ++ x) a)

def rootOp : List String → String
  | ["rootfs", root, follow, name, entries] =>
    match parseHex root, parseHex name, (if entries == "-" then some [] else (entries.splitOn ";").mapM parseFsEntry) with
    | some r, some n, some es =>
      let fs : FS := fun l => (es.find? (·.1 == l)).map (·.2)
      match openName fs (locOf r) (follow == "1") n with
      | .invalid => "invalid"
      | .res (.ok l) => "ok " ++ showLoc l
      | .res .escapes => "escapes"
      | .res .notExist => "notexist"
      | .res .notDir => "notdir"
      | .res .loop => "loop"
    | _, _, _ => "bad-op"
  | _ => "bad-op"

end Driver
