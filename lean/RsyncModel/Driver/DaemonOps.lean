import RsyncModel.Daemon
import RsyncModel.PathClean
import RsyncModel.Driver.OptsOps
/-! `daemon <name:w|r:dir|fs:allow|deny;…> <greeting> <module line> <arg line,arg line,…>` (all hex) -/
namespace Driver
open Daemon Opts

def parseModule (s : String) : Option Module :=
  match s.splitOn ":" with
  | [n, w, k, a] => do
    let name ← parseHex n
    some ⟨strOfBytes name, w == "w", k == "fs", a == "allow"⟩
  | _ => none

def showOutcome : Outcome → String
  | .badGreeting => "badgreeting"
  | .listing ns => "list " ++ showOptArgs ns
  | .unknownModule => "unknown"
  | .denied => "denied"
  | .argError => "argerror"
  | .badArgs => "badargs"
  | .sender _ _ => "sender"
  | .readOnly _ => "readonly"
  | .tooManyPaths _ => "toomany"
  | .receiver _ none => "receiver /"
  | .receiver _ (some s) =>   -- observed through where an uploaded file lands: the cleaned subdirectory
    let c := PathClean.clean (bytesOfStr s)
    if c == [46] then "receiver /" else "receiver " ++ toHex c
  | .unmodelled => "unmodelled"

def daemonOp : List String → String
  | ["daemon", mods, g, ml, args] =>
    match (if mods == "-" then some [] else (mods.splitOn ";").mapM parseModule), parseHex g, parseHex ml, parseArgList args with
    | some ms, some gb, some mb, some as => showOutcome (handle ms (strOfBytes gb) (strOfBytes mb) as)
    | _, _, _, _ => "bad-op"
  | _ => "bad-op"

end Driver
