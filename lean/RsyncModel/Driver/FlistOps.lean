import RsyncModel.Flist
import RsyncModel.Driver.Util
namespace Driver
open Flist

def parseFOpts (s : String) : Flist.Opts :=
  let h (c : Char) := s.toList.contains c
  ⟨h 'o', h 'g', h 'l', h 'd', h 's', h 'c'⟩

def parseFEntry (s : String) : Option Flist.Entry :=
  match s.splitOn "," with
  | [name, mode, size, mtime, uid, gid, rdev, target, sum] => do
    some ⟨← parseHex name, Int64.ofInt (← size.toInt?), Int32.ofInt (← mtime.toInt?), Int32.ofInt (← mode.toInt?),
      Int32.ofInt (← uid.toInt?), Int32.ofInt (← gid.toInt?), Int32.ofInt (← rdev.toInt?), ← parseHex target, ← parseHex sum⟩
  | _ => none

def showFEntry (o : Flist.Opts) (e : Flist.Entry) : String :=
  s!"{toHex e.name},{e.mode.toInt},{e.size.toInt},{e.mtime.toInt},{e.uid.toInt},{e.gid.toInt},{e.rdev.toInt},{toHex e.target},{if o.checksum then toHex e.sum else "-"}"

def insertSorted (x : String) : List String → List String
  | [] => [x]
  | y :: ys => if x ≤ y then x :: y :: ys else y :: insertSorted x ys

def sortStrings (l : List String) : List String := l.foldr insertSorted []

def flistOp : List String → String
  | ["clean", p] => match parseHex p with
    | some b => "ok " ++ toHex (PathClean.clean b)
    | none => "bad-op"
  | ["flist.enc", opts, entries] =>
    let o := parseFOpts opts
    match (if entries == "-" then some [] else (entries.splitOn ";").mapM parseFEntry) with
    | some es => "ok " ++ toHex (es.flatMap (gokrEncode o) ++ [0])
    | none => "bad-op"
  | ["flist.dec", opts, bytes] =>
    let o := parseFOpts opts
    match parseHex bytes with
    | some b =>
      match receiveFileList o b with
      | .ok (es, ioerr, rest) =>
        let lines := sortStrings (es.map (showFEntry o))
        s!"ok {if lines.isEmpty then "-" else ";".intercalate lines} ioerr={ioerr.toInt} rest={rest.length}"
      | .error .short => "err:eof"
      | .error .overflow => "err:overflow"
      | .error .badLink => "err:badlink"
    | none => "bad-op"
  | _ => "bad-op"

end Driver
