import RsyncModel.Opts
import RsyncModel.Driver.Util
/-! Driver ops of the option model:
`optparse <arg,arg,…> <AccName,AccName,…>`  (args hex; `-` for the empty string, `--` for no args at all)
`serveropts <AccName,…>`                     (the accessors that are true)
`dispatch <arg,arg,…>`                       (mode chosen by maincmd.Main) -/
namespace Driver
open Opts Gen.OptTable

def strOfBytes (b : Bytes) : Str := b.map (fun x => Char.ofNat x.toNat)
def bytesOfStr (s : Str) : Bytes := s.map (fun c => UInt8.ofNat c.toNat)

/-- arguments travel as bytes; the model works on characters. Bytes ≥ 0x80 are mapped to the
characters of the same number (the parser only ever compares with ASCII) -/
def parseArgList (s : String) : Option (List Str) :=
  if s == "--" then some []
  else (s.splitOn ",").mapM (fun h => (parseHex h).map strOfBytes)

def showOptArgs (as : List Str) : String :=
  if as.isEmpty then "--" else ",".intercalate (as.map (fun a => toHex (bytesOfStr a)))

def accByName (n : String) : Option Acc := allAccs.find? (fun a => accName a == n)

def showOptRes (names : List String) : Res → String
  | .err => "err"
  | .exit => "exit"
  | .unmodelled => "unmodelled"
  | .ok s =>
    let bits := names.map (fun n => match accByName n with
      | some a => if acc s a then "1" else "0"
      | none => "?")
    "ok " ++ String.join bits ++ " rem=" ++ showOptArgs s.remaining ++ " rules=" ++ showOptArgs s.rules ++
      " rsh=" ++ toHex (bytesOfStr (s.strs .f_shell_cmd))

def showMode : Mode → String
  | .daemonOverShell => "daemon-over-shell"
  | .serverSender p => "server-sender " ++ showOptArgs p
  | .serverReceiver p => "server-receiver " ++ showOptArgs p
  | .serverBadArgs => "server-badargs"
  | .client r rsh => "client " ++ showOptArgs r ++ " rsh=" ++ toHex (bytesOfStr rsh)
  | .daemonListen => "daemon-listen"
  | .parseError => "err"
  | .exitRequest => "exit"
  | .unmodelled => "unmodelled"

def optsOp : List String → String
  | ["optparse", args, names] =>
    match parseArgList args with
    | none => "bad-op"
    | some as => showOptRes (names.splitOn ",") (parse as)
  | ["serveropts", names] =>
    let ns := if names == "-" then [] else names.splitOn ","
    showOptArgs (serverOptions (fun a => ns.contains (accName a)))
  | ["dispatch", args] =>
    match parseArgList args with
    | none => "bad-op"
    | some as => showMode (dispatch as)
  | _ => "bad-op"

end Driver
