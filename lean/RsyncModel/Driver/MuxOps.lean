import RsyncModel.Mux
import RsyncModel.Driver.Util
namespace Driver
open Mux

def showRes : Res Bytes → String
  | .ok b => "ok:" ++ toHex b
  | .eof => "eof"
  | .tooLong _ => "toolong"
  | .server m => "server:" ++ toHex m
  | .badTag t => "badtag:" ++ toString t.toNat
  | .panic => "panic"

def runReads (bufSize : Nat) : List Nat → St → List String
  | [], _ => []
  | k :: ks, st =>
    match readFull bufSize k [] st with
    | (.ok b, st') => showRes (.ok b) :: runReads bufSize ks st'
    | (r, _) => [showRes r]

def muxOp : List String → String
  | ["mux.w", tag, payload] =>
    match tag.toNat?, parseHex payload with
    | some t, some p => "ok " ++ toHex (encFrame ⟨UInt8.ofNat t, p⟩)
    | _, _ => "bad-op"
  | ["mux.r", bufsz, reads, stream] =>
    match bufsz.toNat?, parseNats reads, parseHex stream with
    | some b, some rs, some s => "ok " ++ ";".intercalate (runReads b rs (initSt s))
    | _, _, _ => "bad-op"
  | ["mux.parse", stream] =>
    match parseHex stream with
    | some s =>
      let p := parse s
      let e := match p.2 with | .eof => "eof" | .short => "short" | .tooLong _ => "toolong"
      "ok " ++ ",".intercalate (p.1.map fun f => toString f.tag.toNat ++ ":" ++ toHex f.payload) ++ " " ++ e
    | none => "bad-op"
  | _ => "bad-op"

end Driver
