import RsyncModel.PureTie
import RsyncModel.Flist
/-! # The receiver's file-list entry decoder as the source has it (receiver/flist.go `receiveFileEntry`)

`Gen.Pure.receiveFileEntry` is regenerated from /repo on every run (the connection's input is a byte list
that is consumed; the entry under construction and the previous entry are their fields), together with
the same statements cut into consecutive ranges (`rfeNameLen`, `rfeNameBody`, `rfeBasic`, `rfeIds`,
`rfeExtra`). Proved: the whole function is the composition of its ranges, each range computes the
corresponding stage of the model's `Flist.decodeEntry`, hence the source's decoder *is* the model's
decoder — same entry, same unread rest, an error exactly where the model has one, never a panic —
for every flag byte, previous entry, option set and input. -/
namespace FlistTie
open Go Wire Flist

theorem bind_assoc {α β γ : Type} (m : Res α) (f : α → Res β) (g : β → Res γ) :
    Go.bind (Go.bind m f) g = Go.bind m (fun a => Go.bind (f a) g) := by
  cases m <;> rfl

theorem bind_ite_err {α β : Type} (c : Prop) [Decidable c] (x : Res α) (k : α → Res β) :
    Go.bind (if c then Res.err else x) k = if c then Res.err else Go.bind x k := by
  split <;> rfl

/-- the model's result type read as the translated code's: every decoding error is `err` -/
def toRes {α : Type} : Except Err α → Res α
  | .ok a => .ok a
  | .error _ => .err

theorem u16_eq_zero (x : UInt8) : (x.toUInt16 = 0) ↔ x = 0 := by
  constructor
  · intro hc
    have := congrArg UInt16.toNat hc
    simp at this
    exact UInt8.toNat_inj.mp (by simpa using this)
  · intro h; subst h; rfl

/-- the source tests the flag byte after widening it to 16 bits -/
theorem maskEq (f m : UInt8) : ((f.toUInt16 &&& m.toUInt16) != (0 : UInt16)) = ((f &&& m) != 0) := by
  have e : f.toUInt16 &&& m.toUInt16 = (f &&& m).toUInt16 := (UInt8.toUInt16_and f m).symm
  rw [e]
  by_cases h : f &&& m = 0
  · rw [h]; rfl
  · have h2 : ¬ (f &&& m).toUInt16 = 0 := fun hc => h ((u16_eq_zero _).mp hc)
    rw [bne_iff_ne.mpr h, bne_iff_ne.mpr h2]

theorem copy_length (dst src : List UInt8) : (Go.copy dst src).length = dst.length := by
  unfold Go.copy; simp only [List.length_append, List.length_take, List.length_drop]; omega

theorem copy_replicate_take (N n : Nat) (src : List UInt8) (h : n ≤ N) :
    (Go.copy (List.replicate N 0) src).take n = src.take n ++ List.replicate (n - src.length) 0 := by
  unfold Go.copy
  simp only [List.length_replicate, List.drop_replicate]
  by_cases hs : n ≤ src.length
  · have : n - src.length = 0 := by omega
    rw [this, List.replicate_zero, List.append_nil, List.take_append_of_le_length (by simp; omega), List.take_take]
    congr 1; omega
  · have h1 : src.length ≤ N := by omega
    rw [List.take_of_length_le h1, List.take_of_length_le (by omega : src.length ≤ n)]
    rw [List.take_append, List.take_of_length_le (by omega : src.length ≤ n), List.take_replicate]
    congr 2; omega

/-- the name's bytes: bounds check, `make`, `copy` of the inherited prefix, `ReadFull` into the tail, `Clean` -/
theorem rfeNameBody_tied (n1 : Nat) (l2 : Int) (inp lastName fName0 : Str) :
    Gen.Pure.rfeNameBody (n1 : Int) l2 inp lastName fName0 =
      if l2 < 0 ∨ l2 ≥ (4096 : Int) - n1 then .err
      else toRes (do
        let (suffix, bs) ← takeN l2.toNat inp
        pure (PathClean.clean (lastName.take n1 ++ List.replicate (n1 - lastName.length) 0 ++ suffix), bs)) := by
  unfold Gen.Pure.rfeNameBody
  by_cases hov : l2 < 0 ∨ l2 ≥ (4096 : Int) - n1
  · rw [if_pos hov]
    have : (decide (l2 < 0) || decide (l2 ≥ 4096 - (n1 : Int))) = true := by simpa using hov
    rw [if_pos this]
  · rw [if_neg hov]
    have : ¬ (decide (l2 < 0) || decide (l2 ≥ 4096 - (n1 : Int))) = true := by simpa using hov
    rw [if_neg this]
    have hl2 : 0 ≤ l2 := by omega
    obtain ⟨m, rfl⟩ := Int.eq_ofNat_of_zero_le hl2
    have hm : Go.make ((n1 : Int) + (m : Int)) = .ok (List.replicate (n1 + m) 0) := by
      unfold Go.make; rw [if_neg (by omega)]; congr 2
    rw [hm]
    simp only [Go.bind_ok, Int.toNat_natCast]
    -- both branches give (b, readb) with |b| = n1 + m, |readb| = m, b.take n1 = the inherited prefix
    have key : (if decide ((n1 : Int) > 0) = true then
        Go.bind (slice (copy (List.replicate (n1 + m) 0) lastName) ↑n1 ↑(copy (List.replicate (n1 + m) 0) lastName).length)
          fun t2 => Res.ok (copy (List.replicate (n1 + m) 0) lastName, t2)
      else Res.ok (List.replicate (n1 + m) 0, List.replicate (n1 + m) 0)) =
      Res.ok (if n1 > 0 then copy (List.replicate (n1 + m) 0) lastName else List.replicate (n1 + m) 0,
              if n1 > 0 then (copy (List.replicate (n1 + m) 0) lastName).drop n1 else List.replicate (n1 + m) 0) := by
      by_cases hn : n1 > 0
      · have : decide ((n1 : Int) > 0) = true := by simp; omega
        rw [if_pos this, if_pos hn, if_pos hn]
        unfold Go.slice
        rw [if_pos (by rw [copy_length]; simp only [List.length_replicate]; omega)]
        simp only [Go.bind_ok, copy_length, List.length_replicate, Int.toNat_natCast]
        congr 2
        rw [List.take_of_length_le]
        simp only [List.length_drop, copy_length, List.length_replicate]; omega
      · have : ¬ decide ((n1 : Int) > 0) = true := by simp; omega
        rw [if_neg this, if_neg hn, if_neg hn]
    rw [key]
    simp only [Go.bind_ok]
    have hlen : (if n1 > 0 then (copy (List.replicate (n1 + m) 0) lastName).drop n1 else List.replicate (n1 + m) (0:UInt8)).length = m := by
      split
      · simp [copy_length]
      · have : n1 = 0 := by omega
        subst this; simp
    rw [hlen]
    unfold Go.readFull takeN
    by_cases hs : inp.length < m
    · rw [if_pos (Or.inr (by omega)), if_pos hs]; rfl
    · rw [if_neg (by omega), if_neg hs]
      simp only [Go.bind_ok, Int.toNat_natCast, toRes, Bind.bind, Except.bind, pure, Except.pure]
      congr 3
      have hb : (if n1 > 0 then copy (List.replicate (n1 + m) 0) lastName else List.replicate (n1 + m) (0:UInt8)).length = n1 + m := by
        split <;> simp [copy_length]
      rw [hb, List.length_take, Nat.min_eq_left (by omega)]
      have : n1 + m - m = n1 := by omega
      rw [this]
      split
      · rw [copy_replicate_take _ _ _ (by omega)]
      · have : n1 = 0 := by omega
        subst this; simp

/-- the model's name stage after the two length reads -/
def nameTail (last : Entry) (l1 : Nat) (l2 : Int) (bs : Str) : Except Err (Str × Str) :=
  if l2 < 0 ∨ l2 ≥ (pathMax : Int) - l1 then .error .overflow else do
    let (suffix, bs) ← takeN l2.toNat bs
    pure (PathClean.clean (last.name.take l1 ++ List.replicate (l1 - last.name.length) 0 ++ suffix), bs)

theorem decName_eq (flags : UInt8) (last : Entry) (bs : Str) :
    decName flags last bs = (do
      let (l1, bs) ← if has flags fSameName then (do let (b, r) ← rdByte bs; pure (b.toNat, r)) else pure (0, bs)
      let (l2, bs) ← if has flags fLongName then (do let (v, r) ← rdI32 bs; pure (v.toInt, r))
                 else (do let (b, r) ← rdByte bs; pure ((b.toNat : Int), r))
      nameTail last l1 l2 bs) := by
  unfold decName nameTail
  congr 1

theorem body_model (last : Entry) (n1 : Nat) (l1 : Int) (hl : l1 = n1) (l2 : Int) (r f0 : Str) :
    Gen.Pure.rfeNameBody l1 l2 r last.name f0 = toRes (nameTail last n1 l2 r) := by
  subst hl
  rw [rfeNameBody_tied]
  have hp : (pathMax : Int) = 4096 := by decide
  unfold nameTail
  rw [hp]
  split <;> rfl

theorem rfeName_eq (flags : UInt16) (inp lastName f0 : Str) :
    Gen.Pure.rfeName flags inp lastName f0 =
      Go.bind (Gen.Pure.rfeNameLen flags inp) fun (l1, l2, inp) => Gen.Pure.rfeNameBody l1 l2 inp lastName f0 := by
  unfold Gen.Pure.rfeName Gen.Pure.rfeNameLen Gen.Pure.rfeNameBody
  simp only [bind_assoc, Go.bind_ok]

theorem rfeName_tied (flags : UInt8) (last : Entry) (inp fName0 : Str) :
    Gen.Pure.rfeName flags.toUInt16 inp last.name fName0 = toRes (decName flags last inp) := by
  rw [rfeName_eq, decName_eq]
  unfold Gen.Pure.rfeNameLen
  have m32 : ((flags.toUInt16 &&& (32:UInt16)) != 0) = has flags fSameName := maskEq flags 32
  have m64 : ((flags.toUInt16 &&& (64:UInt16)) != 0) = has flags fLongName := maskEq flags 64
  rw [m32, m64]
  cases h1 : has flags fSameName <;> cases h2 : has flags fLongName
  · simp only [Bool.false_eq_true, if_false, Go.bind_ok]
    cases inp with
    | nil => rfl
    | cons b r =>
      simp only [Go.readByte, Go.bind_ok, rdByte, Bind.bind, Except.bind, pure, Except.pure]
      exact body_model last 0 0 rfl _ r fName0
  · simp only [Bool.false_eq_true, if_false, if_true, Go.bind_ok, Bind.bind, Except.bind, pure, Except.pure]
    unfold Go.readI32 rdI32
    cases hd : decI32 inp with
    | none => rfl
    | some p =>
      simp only [Go.bind_ok]
      exact body_model last 0 0 rfl _ p.2 fName0
  · simp only [Bool.false_eq_true, if_false, if_true, Go.bind_ok]
    cases inp with
    | nil => rfl
    | cons b r =>
      simp only [Go.readByte, Go.bind_ok, rdByte, Bind.bind, Except.bind, pure, Except.pure]
      cases r with
      | nil => rfl
      | cons b2 r2 =>
        simp only [Go.bind_ok]
        exact body_model last b.toNat _ rfl _ r2 fName0
  · simp only [if_true, Go.bind_ok]
    cases inp with
    | nil => rfl
    | cons b r =>
      simp only [Go.readByte, Go.bind_ok, rdByte, Bind.bind, Except.bind, pure, Except.pure]
      unfold Go.readI32 rdI32
      cases hd : decI32 r with
      | none => rfl
      | some p =>
        simp only [Go.bind_ok]
        exact body_model last b.toNat _ rfl _ p.2 fName0


theorem whole_eq_stages (flags : UInt16) (inp lastName : List UInt8) (lastModTime lastMode lastUid lastGid lastRdev : Int32)
    (pu pg pl pd ps ac : Bool) (fName : List UInt8) (fLength : Int) (fModTime fMode fUid fGid fRdev : Int32) (fLink fSum : List UInt8) :
    Gen.Pure.receiveFileEntry flags inp lastName lastModTime lastMode lastUid lastGid lastRdev pu pg pl pd ps ac
        fName fLength fModTime fMode fUid fGid fRdev fLink fSum =
      Go.bind (Gen.Pure.rfeName flags inp lastName fName) fun (fName, inp) =>
      Go.bind (Gen.Pure.rfeBasic flags inp lastModTime lastMode fLength fModTime fMode) fun (fLength, fModTime, fMode, inp) =>
      Go.bind (Gen.Pure.rfeIds flags inp lastUid lastGid lastRdev pu pg pd ps fMode fUid fGid fRdev) fun (fUid, fGid, fRdev, inp) =>
      Gen.Pure.rfeExtra inp ((fMode &&& 61440) == 40960) pl ac fName fLength fModTime fMode fUid fGid fRdev fLink fSum := by
  unfold Gen.Pure.receiveFileEntry Gen.Pure.rfeName Gen.Pure.rfeBasic Gen.Pure.rfeIds Gen.Pure.rfeExtra
  simp only [bind_assoc, Go.bind_ok, bind_ite_err]

theorem readInt64_tied (inp : Bytes) :
    Gen.Pure.ReadInt64 inp = match decLong inp with
      | none => .err
      | some (v, rest) => .ok (v.toInt, rest) := by
  unfold Gen.Pure.ReadInt64 decLong Go.readI32
  cases hd : decI32 inp with
  | none => rfl
  | some p =>
    simp only [Go.bind_ok]
    by_cases h : p.1 = -1
    · have : (p.1 != -1) = false := by simp [h]
      simp only [this, Bool.false_eq_true, if_false]
      unfold Go.readI64 decI64raw
      split <;> simp
    · have : (p.1 != -1) = true := by simp [h]
      simp only [this, if_true]
      simp

theorem rfeBasic_tied (flags : UInt8) (last : Entry) (inp : Str) (L0 : Int) (T0 M0 : Int32) :
    Gen.Pure.rfeBasic flags.toUInt16 inp last.mtime last.mode L0 T0 M0 =
      toRes ((decBasic flags last inp).map fun p => (p.1.1.toInt, p.1.2.1, p.1.2.2, p.2)) := by
  unfold Gen.Pure.rfeBasic decBasic
  have m128 : ((flags.toUInt16 &&& (128:UInt16)) != 0) = has flags fSameTime := maskEq flags 128
  have m2 : ((flags.toUInt16 &&& (2:UInt16)) != 0) = has flags fSameMode := maskEq flags 2
  rw [m128, m2, readInt64_tied]
  simp only [Bind.bind, Except.bind, pure, Except.pure, throw, throwThe, MonadExceptOf.throw]
  cases hl : decLong inp with
  | none => rfl
  | some p =>
    simp only [Go.bind_ok]
    cases h1 : has flags fSameTime <;> cases h2 : has flags fSameMode <;>
      simp only [Bool.false_eq_true, if_false, if_true, Go.bind_ok]
    · unfold Go.readI32 rdI32
      cases hd : decI32 p.2 with
      | none => rfl
      | some q =>
        simp only [Go.bind_ok]
        cases hd2 : decI32 q.2 with
        | none => rfl
        | some q2 => rfl
    · unfold Go.readI32 rdI32
      cases hd : decI32 p.2 with
      | none => rfl
      | some q => rfl
    · unfold Go.readI32 rdI32
      cases hd : decI32 p.2 with
      | none => rfl
      | some q => rfl
    · rfl

theorem i32_eq_of_toUInt32 (a b : Int32) (h : a.toUInt32 = b.toUInt32) : a = b := by
  have := congrArg UInt32.toInt32 h
  simpa using this
theorem fmt_eq (m k : Int32) : ((m &&& 61440) == k) = ((m.toUInt32.toNat &&& 61440) == k.toUInt32.toNat) := by
  have e : (m.toUInt32.toNat &&& 61440) = (m &&& 61440).toUInt32.toNat := by
    rw [Int32.toUInt32_and, UInt32.toNat_and]; rfl
  rw [e]
  by_cases h : (m &&& 61440) = k
  · rw [h]; simp
  · have : ¬ (m &&& 61440).toUInt32.toNat = k.toUInt32.toNat := by
      intro hc; exact h (i32_eq_of_toUInt32 _ _ (UInt32.toNat_inj.mp hc))
    rw [beq_eq_false_iff_ne.mpr h, beq_eq_false_iff_ne.mpr this]
theorem isLink_eq (m : Int32) : isLink m = ((m &&& 61440) == 40960) := by
  unfold isLink fmtOf; rw [fmt_eq]; rfl
theorem isDev_eq (m : Int32) : isDev m = (((m &&& 61440) == 8192) || ((m &&& 61440) == 24576)) := by
  unfold isDev fmtOf; rw [fmt_eq, fmt_eq]; rfl
theorem isSpecial_eq (m : Int32) : isSpecial m = (((m &&& 61440) == 4096) || ((m &&& 61440) == 49152)) := by
  unfold isSpecial fmtOf; rw [fmt_eq, fmt_eq]; rfl

/-- an optional 32-bit field: present on the wire only if the option is on and the flag does not say "same as before" -/
def optField (enabled same : Bool) (lastV cur : Int32) (inp : Str) : Except Err (Int32 × Str) :=
  if enabled then (if same then pure (lastV, inp) else rdI32 inp) else pure (cur, inp)

theorem optField_eq (enabled same : Bool) (lastV cur : Int32) (inp : Str) :
    (if enabled then
      (Go.bind (if same then (Go.Res.ok (lastV, inp)) else
          (Go.bind (Go.readI32 inp) fun (v, inp) => Go.Res.ok (v, inp))) fun (v, inp) => Go.Res.ok (v, inp))
     else (Go.Res.ok (cur, inp))) = toRes (optField enabled same lastV cur inp) := by
  unfold optField Go.readI32 rdI32
  cases enabled <;> cases same <;> simp only [Bool.false_eq_true, if_false, if_true, Go.bind_ok] <;> try rfl
  cases decI32 inp <;> rfl

theorem rfeIds_tied (o : Opts) (flags : UInt8) (last : Entry) (mode : Int32) (inp : Str) :
    Gen.Pure.rfeIds flags.toUInt16 inp last.uid last.gid last.rdev o.uid o.gid o.devices o.specials mode 0 0 0 =
      toRes ((decIds o flags last mode inp).map fun p => (p.1.1, p.1.2.1, p.1.2.2, p.2)) := by
  unfold Gen.Pure.rfeIds
  have m8 : ((flags.toUInt16 &&& (8:UInt16)) != 0) = has flags fSameUid := maskEq flags 8
  have m16 : ((flags.toUInt16 &&& (16:UInt16)) != 0) = has flags fSameGid := maskEq flags 16
  have m4 : ((flags.toUInt16 &&& (4:UInt16)) != 0) = has flags fSameRdev := maskEq flags 4
  rw [m8, m16, m4]
  simp only [optField_eq]
  have hr : hasRdev o mode = (o.devices && (mode &&& 61440 == 8192 || mode &&& 61440 == 24576) ||
                o.specials && (mode &&& 61440 == 4096 || mode &&& 61440 == 49152)) := by
    unfold hasRdev; rw [isDev_eq, isSpecial_eq]
  have hm : decIds o flags last mode inp = (do
      let (uid, bs) ← optField o.uid (has flags fSameUid) last.uid 0 inp
      let (gid, bs) ← optField o.gid (has flags fSameGid) last.gid 0 bs
      let (rdev, bs) ← optField (hasRdev o mode) (has flags fSameRdev) last.rdev 0 bs
      pure ((uid, gid, rdev), bs)) := by
    unfold decIds optField
    cases o.uid <;> cases o.gid <;> cases hasRdev o mode <;> rfl
  rw [hm, hr]
  simp only [Bind.bind, Except.bind, pure, Except.pure]
  cases h1 : optField o.uid (has flags fSameUid) last.uid 0 inp with
  | error e => rfl
  | ok p1 =>
    simp only [toRes, Go.bind_ok]
    cases h2 : optField o.gid (has flags fSameGid) last.gid 0 p1.2 with
    | error e => rfl
    | ok p2 =>
      simp only [Go.bind_ok]
      cases h3 : optField (o.devices && (mode &&& 61440 == 8192 || mode &&& 61440 == 24576) ||
                o.specials && (mode &&& 61440 == 4096 || mode &&& 61440 == 49152)) (has flags fSameRdev) last.rdev 0 p2.2 with
      | error e => rfl
      | ok p3 => rfl

theorem readFull_eq (inp : Str) (n : Nat) : Go.readFull inp (n : Int) = toRes (takeN n inp) := by
  unfold Go.readFull takeN
  by_cases h : inp.length < n
  · rw [if_pos (Or.inr (by omega)), if_pos h]; rfl
  · rw [if_neg (by omega), if_neg h]; simp [toRes]

def sumPart (ac : Bool) (inp : Str) : Except Err (Str × Str) := if ac then takeN 16 inp else pure ([], inp)
def linkPart (o : Opts) (mode : Int32) (inp : Str) : Except Err (Str × Str) :=
  if o.links && isLink mode then (do
      let (n, r) ← rdI32 inp
      if n < 0 ∨ n.toInt ≥ (pathMax : Int) then throw .badLink
      takeN n.toInt.toNat r) else pure ([], inp)

theorem sumPart_eq (ac : Bool) (inp : Str) :
    (if ac then (Go.bind (Go.readFull inp 16) fun (s, inp) => Go.Res.ok (s, inp)) else (Go.Res.ok (([] : Str), inp))) =
      toRes (sumPart ac inp) := by
  unfold sumPart
  cases ac
  · rfl
  · simp only [if_true]
    have := readFull_eq inp 16
    rw [show ((16 : Nat) : Int) = 16 from rfl] at this
    rw [this]
    cases takeN 16 inp <;> rfl

theorem decExtra_eq (o : Opts) (mode : Int32) (inp : Str) :
    decExtra o mode inp = (do
      let (target, bs) ← linkPart o mode inp
      let (sum, bs) ← sumPart o.checksum bs
      pure ((target, sum), bs)) := by
  unfold decExtra linkPart sumPart
  cases (o.links && isLink mode) <;> cases o.checksum <;> rfl

theorem rfeExtra_tied (o : Opts) (mode : Int32) (inp n : Str) (L : Int) (T M U G R : Int32) :
    Gen.Pure.rfeExtra inp ((mode &&& 61440) == 40960) o.links o.checksum n L T M U G R [] [] =
      toRes ((decExtra o mode inp).map fun p => (n, L, T, M, U, G, R, p.1.1, p.1.2, p.2)) := by
  unfold Gen.Pure.rfeExtra
  rw [← isLink_eq, decExtra_eq]
  simp only [sumPart_eq]
  unfold linkPart
  cases hl : (o.links && isLink mode)
  · simp only [Bool.false_eq_true, if_false]
    show _ = toRes (Except.map _ (sumPart o.checksum inp >>= _))
    cases hs : sumPart o.checksum inp <;> rfl
  · simp only [if_true]
    unfold Go.readI32 rdI32
    cases hd : decI32 inp with
    | none => rfl
    | some p =>
      simp only [Go.bind_ok]
      have hp : (pathMax : Int) = 4096 := by decide
      by_cases hb : p.1 < 0 ∨ p.1.toInt ≥ 4096
      · have h1 : (decide (p.fst < 0) || decide (p.fst ≥ 4096)) = true := by
          rcases hb with h | h
          · simp [h]
          · have : p.1 ≥ 4096 := Int32.le_iff_toInt_le.mpr (by simpa using h)
            simp [this]
        rw [if_pos h1]
        simp only [Bind.bind, Except.bind, hp, if_pos hb]
        rfl
      · have h0 : ¬ p.1 < 0 := fun h => hb (Or.inl h)
        have h4 : ¬ p.1 ≥ 4096 := fun h => hb (Or.inr (by have := Int32.le_iff_toInt_le.mp h; simpa using this))
        have h1 : ¬ (decide (p.fst < 0) || decide (p.fst ≥ 4096)) = true := by simp [h0, h4]
        rw [if_neg h1]
        have hnn : 0 ≤ p.1.toInt := by
          have : ¬ p.1.toInt < (0 : Int32).toInt := fun hh => h0 (Int32.lt_iff_toInt_lt.mpr hh)
          simpa using this
        have hm : Go.make p.1.toInt = .ok (List.replicate p.1.toInt.toNat 0) := by
          unfold Go.make; rw [if_neg (by omega)]
        rw [hm]
        simp only [Go.bind_ok, List.length_replicate, Bind.bind, Except.bind, hp, if_neg hb]
        rw [show ((p.1.toInt.toNat : Nat) : Int) = ((p.1.toInt.toNat : Nat) : Int) from rfl, readFull_eq]
        cases ht : takeN p.1.toInt.toNat p.2 with
        | error e => rfl
        | ok q =>
          simp only [toRes, Go.bind_ok]
          cases hs : sumPart o.checksum q.2 <;> rfl

theorem toRes_ne_panic {α : Type} (x : Except Err α) : toRes x ≠ .panic := by
  cases x <;> simp [toRes]

/-- **The source's entry decoder is the model's**: `receiveFileEntry(flags, last)` on any input, for any
previous entry and option set, yields the model's entry and unread rest, or an error where the model
has one. (The entry under construction starts as the zero `File`.) -/
theorem receiveFileEntry_tied (o : Opts) (flags : UInt8) (last : Entry) (inp : Str) :
    Gen.Pure.receiveFileEntry flags.toUInt16 inp last.name last.mtime last.mode last.uid last.gid last.rdev
        o.uid o.gid o.links o.devices o.specials o.checksum [] 0 0 0 0 0 0 [] [] =
      toRes ((decodeEntry o flags last inp).map fun p =>
        (p.1.name, p.1.size.toInt, p.1.mtime, p.1.mode, p.1.uid, p.1.gid, p.1.rdev, p.1.target, p.1.sum, p.2)) := by
  rw [whole_eq_stages, rfeName_tied]
  unfold decodeEntry
  simp only [Bind.bind, Except.bind, pure, Except.pure]
  cases h1 : decName flags last inp with
  | error e => rfl
  | ok p1 =>
    simp only [toRes, Go.bind_ok]
    rw [rfeBasic_tied]
    cases h2 : decBasic flags last p1.2 with
    | error e => rfl
    | ok p2 =>
      simp only [Except.map, toRes, Go.bind_ok]
      rw [rfeIds_tied]
      cases h3 : decIds o flags last p2.1.2.2 p2.2 with
      | error e => rfl
      | ok p3 =>
        simp only [Except.map, toRes, Go.bind_ok]
        rw [rfeExtra_tied]
        cases h4 : decExtra o p2.1.2.2 p3.2 with
        | error e => rfl
        | ok p4 => rfl

/-- no input makes the source's entry decoder panic (negative `make`, slice out of range, …) -/
theorem receiveFileEntry_no_panic (o : Opts) (flags : UInt8) (last : Entry) (inp : Str) :
    Gen.Pure.receiveFileEntry flags.toUInt16 inp last.name last.mtime last.mode last.uid last.gid last.rdev
        o.uid o.gid o.links o.devices o.specials o.checksum [] 0 0 0 0 0 0 [] [] ≠ .panic := by
  rw [receiveFileEntry_tied]; exact toRes_ne_panic _


theorem rdByte_lt {bs : Str} {b : UInt8} {r : Str} (h : rdByte bs = .ok (b, r)) : r.length < bs.length := by
  cases bs with
  | nil => simp [rdByte] at h
  | cons x xs => simp only [rdByte, Except.ok.injEq, Prod.mk.injEq] at h; obtain ⟨_, rfl⟩ := h; simp
theorem decI32_le {bs : Str} {v : Int32} {r : Str} (h : decI32 bs = some (v, r)) : r.length ≤ bs.length := by
  unfold decI32 at h
  split at h
  · simp at h
  · simp only [Option.some.injEq, Prod.mk.injEq] at h; obtain ⟨_, rfl⟩ := h; simp
theorem rdI32_le {bs : Str} {v : Int32} {r : Str} (h : rdI32 bs = .ok (v, r)) : r.length ≤ bs.length := by
  unfold rdI32 at h
  split at h
  · simp at h
  · rename_i p heq
    simp only [Except.ok.injEq] at h; subst h
    exact decI32_le heq
theorem takeN_le {n : Nat} {bs a r : Str} (h : takeN n bs = .ok (a, r)) : r.length ≤ bs.length := by
  unfold takeN at h
  split at h
  · simp at h
  · simp only [Except.ok.injEq, Prod.mk.injEq] at h; obtain ⟨_, rfl⟩ := h; simp

theorem decLong_le {bs : Str} {v : Int64} {r : Str} (h : decLong bs = some (v, r)) : r.length ≤ bs.length := by
  unfold decLong at h
  split at h
  · simp at h
  · rename_i d rest heq
    have h1 := decI32_le heq
    split at h
    · simp only [Option.some.injEq, Prod.mk.injEq] at h; obtain ⟨_, rfl⟩ := h; exact h1
    · unfold decI64raw at h
      split at h
      · simp at h
      · simp only [Option.some.injEq, Prod.mk.injEq] at h; obtain ⟨_, rfl⟩ := h; simp; omega

theorem ok_bind {α β : Type} {x : Except Err α} {f : α → Except Err β} {b : β} (h : (x >>= f) = .ok b) :
    ∃ a, x = .ok a ∧ f a = .ok b := by
  cases x with
  | error e => simp [Bind.bind, Except.bind] at h
  | ok a => exact ⟨a, rfl, h⟩

theorem pure_ok {α : Type} {a b : α} (h : (pure a : Except Err α) = .ok b) : a = b := by
  simpa [pure, Except.pure] using h

def l1Part (flags : UInt8) (bs : Str) : Except Err (Nat × Str) :=
  if has flags fSameName then (rdByte bs >>= fun p => pure (p.1.toNat, p.2)) else pure (0, bs)
def l2Part (flags : UInt8) (bs : Str) : Except Err (Int × Str) :=
  if has flags fLongName then (rdI32 bs >>= fun p => pure (p.1.toInt, p.2)) else (rdByte bs >>= fun p => pure ((p.1.toNat : Int), p.2))

theorem decName_eq2 (flags : UInt8) (last : Entry) (bs : Str) :
    decName flags last bs = (l1Part flags bs >>= fun p => l2Part flags p.2 >>= fun q => nameTail last p.1 q.1 q.2) := by
  rw [decName_eq]; unfold l1Part l2Part
  cases has flags fSameName <;> cases has flags fLongName <;> rfl

theorem l1Part_le {flags : UInt8} {bs : Str} {p : Nat × Str} (h : l1Part flags bs = .ok p) : p.2.length ≤ bs.length := by
  unfold l1Part at h
  split at h
  · obtain ⟨q, hr, hp⟩ := ok_bind h
    have := pure_ok hp; subst this
    exact Nat.le_of_lt (rdByte_lt (b := q.1) (r := q.2) hr)
  · have := pure_ok h; subst this; exact Nat.le_refl _

theorem l2Part_le {flags : UInt8} {bs : Str} {p : Int × Str} (h : l2Part flags bs = .ok p) : p.2.length ≤ bs.length := by
  unfold l2Part at h
  split at h
  · obtain ⟨q, hr, hp⟩ := ok_bind h
    have := pure_ok hp; subst this
    exact rdI32_le (v := q.1) (r := q.2) hr
  · obtain ⟨q, hr, hp⟩ := ok_bind h
    have := pure_ok hp; subst this
    exact Nat.le_of_lt (rdByte_lt (b := q.1) (r := q.2) hr)

theorem nameTail_le {last : Entry} {l1 : Nat} {l2 : Int} {bs : Str} {p : Str × Str} (h : nameTail last l1 l2 bs = .ok p) : p.2.length ≤ bs.length := by
  unfold nameTail at h
  split at h
  · simp at h
  · obtain ⟨q, hr, hp⟩ := ok_bind h
    have := pure_ok hp; subst this
    exact takeN_le (a := q.1) (r := q.2) hr

theorem decName_le {flags : UInt8} {last : Entry} {bs : Str} {p : Str × Str} (h : decName flags last bs = .ok p) : p.2.length ≤ bs.length := by
  rw [decName_eq2] at h
  obtain ⟨a, h1, h⟩ := ok_bind h
  obtain ⟨b, h2, h⟩ := ok_bind h
  have := l1Part_le h1; have := l2Part_le h2; have := nameTail_le h
  omega

theorem decBasic_le {flags : UInt8} {last : Entry} {bs : Str} {p : (Int64 × Int32 × Int32) × Str}
    (h : decBasic flags last bs = .ok p) : p.2.length ≤ bs.length := by
  have e : decBasic flags last bs = ((match decLong bs with | none => throw Err.short | some r => pure r) >>= fun a =>
      (if has flags fSameTime then pure (last.mtime, a.2) else rdI32 a.2) >>= fun b =>
      (if has flags fSameMode then pure (last.mode, b.2) else rdI32 b.2) >>= fun c => pure ((a.1, b.1, c.1), c.2)) := by
    unfold decBasic
    cases decLong bs <;> cases has flags fSameTime <;> cases has flags fSameMode <;> rfl
  rw [e] at h
  obtain ⟨a, h1, h⟩ := ok_bind h
  obtain ⟨b, h2, h⟩ := ok_bind h
  obtain ⟨c, h3, h⟩ := ok_bind h
  have := pure_ok h; subst this
  have ha : a.2.length ≤ bs.length := by
    split at h1
    · simp [throw, throwThe, MonadExceptOf.throw] at h1
    · rename_i r heq
      have := pure_ok h1; subst this
      exact decLong_le (v := r.1) (r := r.2) heq
  have hb : b.2.length ≤ a.2.length := by
    split at h2
    · have := pure_ok h2; subst this; exact Nat.le_refl _
    · exact rdI32_le (v := b.1) (r := b.2) h2
  have hc : c.2.length ≤ b.2.length := by
    split at h3
    · have := pure_ok h3; subst this; exact Nat.le_refl _
    · exact rdI32_le (v := c.1) (r := c.2) h3
  simp only; omega

theorem optField_le {en same : Bool} {lastV cur : Int32} {bs : Str} {p : Int32 × Str}
    (h : optField en same lastV cur bs = .ok p) : p.2.length ≤ bs.length := by
  unfold optField at h
  split at h
  · split at h
    · have := pure_ok h; subst this; exact Nat.le_refl _
    · exact rdI32_le (v := p.1) (r := p.2) h
  · have := pure_ok h; subst this; exact Nat.le_refl _

theorem decIds_eq (o : Opts) (flags : UInt8) (last : Entry) (mode : Int32) (inp : Str) :
    decIds o flags last mode inp =
      (optField o.uid (has flags fSameUid) last.uid 0 inp >>= fun a =>
       optField o.gid (has flags fSameGid) last.gid 0 a.2 >>= fun b =>
       optField (hasRdev o mode) (has flags fSameRdev) last.rdev 0 b.2 >>= fun c => pure ((a.1, b.1, c.1), c.2)) := by
  unfold decIds optField
  cases o.uid <;> cases o.gid <;> cases hasRdev o mode <;> rfl

theorem decIds_le {o : Opts} {flags : UInt8} {last : Entry} {mode : Int32} {bs : Str} {p : (Int32 × Int32 × Int32) × Str}
    (h : decIds o flags last mode bs = .ok p) : p.2.length ≤ bs.length := by
  rw [decIds_eq] at h
  obtain ⟨a, h1, h⟩ := ok_bind h
  obtain ⟨b, h2, h⟩ := ok_bind h
  obtain ⟨c, h3, h⟩ := ok_bind h
  have := pure_ok h; subst this
  have := optField_le h1; have := optField_le h2; have := optField_le h3
  simp only; omega

theorem decExtra_eq2 (o : Opts) (mode : Int32) (inp : Str) :
    decExtra o mode inp = (linkPart o mode inp >>= fun a => sumPart o.checksum a.2 >>= fun b => pure ((a.1, b.1), b.2)) := by
  rw [decExtra_eq]

theorem decExtra_le {o : Opts} {mode : Int32} {bs : Str} {p : (Str × Str) × Str}
    (h : decExtra o mode bs = .ok p) : p.2.length ≤ bs.length := by
  rw [decExtra_eq2] at h
  obtain ⟨a, h1, h⟩ := ok_bind h
  obtain ⟨b, h2, h⟩ := ok_bind h
  have := pure_ok h; subst this
  have ha : a.2.length ≤ bs.length := by
    unfold linkPart at h1
    split at h1
    · obtain ⟨q, hr, h1⟩ := ok_bind h1
      have := rdI32_le (v := q.1) (r := q.2) hr
      simp only at h1
      split at h1
      · simp [throw, throwThe, MonadExceptOf.throw, Bind.bind, Except.bind] at h1
      · have := takeN_le (a := a.1) (r := a.2) h1; omega
    · have := pure_ok h1; subst this; exact Nat.le_refl _
  have hb : b.2.length ≤ a.2.length := by
    unfold sumPart at h2
    split at h2
    · exact takeN_le (a := b.1) (r := b.2) h2
    · have := pure_ok h2; subst this; exact Nat.le_refl _
  simp only; omega

theorem decodeEntry_le {o : Opts} {flags : UInt8} {last : Entry} {bs : Str} {p : Entry × Str}
    (h : decodeEntry o flags last bs = .ok p) : p.2.length ≤ bs.length := by
  have e : decodeEntry o flags last bs = (decName flags last bs >>= fun a => decBasic flags last a.2 >>= fun b =>
      decIds o flags last b.1.2.2 b.2 >>= fun c => decExtra o b.1.2.2 c.2 >>= fun d =>
      pure (⟨a.1, b.1.1, b.1.2.1, b.1.2.2, c.1.1, c.1.2.1, c.1.2.2, d.1.1, d.1.2⟩, d.2)) := rfl
  rw [e] at h
  obtain ⟨a, h1, h⟩ := ok_bind h
  obtain ⟨b, h2, h⟩ := ok_bind h
  obtain ⟨c, h3, h⟩ := ok_bind h
  obtain ⟨d, h4, h⟩ := ok_bind h
  have := pure_ok h; subst this
  have := decName_le h1; have := decBasic_le h2; have := decIds_le h3; have := decExtra_le h4
  simp only; omega

def recOf (e : Entry) : Go.FileRec := ⟨e.name, e.size.toInt, e.mtime, e.mode, e.uid, e.gid, e.rdev, e.target, e.sum⟩

/-- one iteration of the list loop, in the model's terms -/
def stepL (o : Opts) (inp : Str) (last : Entry) (acc : List Go.FileRec) :
    Res ((Str × Str × Int32 × Int32 × Int32 × Int32 × Int32 × List Go.FileRec) × Bool) :=
  match inp with
  | [] => .err
  | f :: r =>
    if f == 0 then .ok ((r, last.name, last.mtime, last.mode, last.uid, last.gid, last.rdev, acc), false)
    else match decodeEntry o f last r with
      | .error _ => .err
      | .ok (e, r') => .ok ((r', e.name, e.mtime, e.mode, e.uid, e.gid, e.rdev, acc ++ [recOf e]), true)

theorem listBody_eq (o : Opts) (inp : Str) (last : Entry) (acc : List Go.FileRec) :
    Gen.Pure.recvListLoop_body0 o.checksum o.devices o.gid o.links o.specials o.uid
        (inp, last.name, last.mtime, last.mode, last.uid, last.gid, last.rdev, acc) = stepL o inp last acc := by
  unfold Gen.Pure.recvListLoop_body0 stepL
  cases inp with
  | nil => rfl
  | cons f r =>
    simp only [Go.readByte, Go.bind_ok]
    by_cases hz : (f == 0) = true
    · simp only [hz, if_true]
    · simp only [hz, Bool.false_eq_true, if_false]
      rw [receiveFileEntry_tied]
      cases hdec : decodeEntry o f last r with
      | error e => rfl
      | ok p => rfl

theorem listLoop_eq (o : Opts) : ∀ (fuel : Nat) (inp : Str) (last : Entry) (acc : List Go.FileRec), inp.length < fuel →
    Go.bind (Go.loopB fuel (Gen.Pure.recvListLoop_body0 o.checksum o.devices o.gid o.links o.specials o.uid)
        (inp, last.name, last.mtime, last.mode, last.uid, last.gid, last.rdev, acc)) (fun s => Go.Res.ok (s.2.2.2.2.2.2.2, s.1))
      = toRes ((decodeList o last fuel inp).map fun p => (acc ++ p.1.map recOf, p.2)) := by
  intro fuel
  induction fuel with
  | zero => intro inp last acc h; omega
  | succ n ih =>
    intro inp last acc hlen
    rw [Go.loopB, listBody_eq]
    unfold stepL
    cases inp with
    | nil => rfl
    | cons f r =>
      simp only [decodeList]
      by_cases hz : (f == 0) = true
      · simp only [hz, if_true, Go.bind_ok, Bool.false_eq_true, if_false]
        simp [toRes, Except.map]
      · simp only [hz, Bool.false_eq_true, if_false]
        cases hdec : decodeEntry o f last r with
        | error e => rfl
        | ok p =>
          simp only [Go.bind_ok, if_true]
          have hr : p.2.length < n := by
            have := decodeEntry_le hdec
            simp only [List.length_cons] at hlen; omega
          rw [ih p.2 p.1 (acc ++ [recOf p.1]) hr]
          simp only [Bind.bind, Except.bind, pure, Except.pure]
          cases hl : decodeList o p.1 n p.2 with
          | error e => rfl
          | ok q => simp [toRes, Except.map]

/-- **The source's list loop is the model's `decodeList`**: same entries in the same order, same unread rest, an
error exactly where the model has one, never a panic; `len(input)+1` iterations suffice because every iteration
consumes at least the flag byte. -/
theorem recvListLoop_tied (o : Opts) (inp : Str) :
    Gen.Pure.recvListLoop inp [] [] 0 0 0 0 0 o.uid o.gid o.links o.devices o.specials o.checksum =
      toRes ((decodeList o zeroEntry (inp.length + 1) inp).map fun p => (p.1.map recOf, p.2)) := by
  unfold Gen.Pure.recvListLoop
  have := listLoop_eq o (inp.length + 1) inp zeroEntry [] (Nat.lt_succ_self _)
  simp only [List.nil_append] at this
  exact this

theorem recvListLoop_no_panic (o : Opts) (inp : Str) :
    Gen.Pure.recvListLoop inp [] [] 0 0 0 0 0 o.uid o.gid o.links o.devices o.specials o.checksum ≠ .panic := by
  rw [recvListLoop_tied]; exact toRes_ne_panic _


theorem fmt_or (perm c : Int32) (hp : perm &&& 61440 = 0) (hc : c &&& 61440 = c) : (perm ||| c) &&& 61440 = c := by
  rw [← Int32.toBitVec_inj] at hp hc ⊢
  simp only [Int32.toBitVec_and, Int32.toBitVec_or] at hp hc ⊢
  rw [BitVec.and_or_distrib_right, hp, hc]
  simp

/-- what the file system says an entry is (Go's `fs.FileMode` type bits; a character device has both device bits) -/
inductive Kind | dir | regular | symlink | charDev | blockDev | pipe | socket | other
deriving DecidableEq, Repr

def Kind.typeBits : Kind → Int32
  | .dir => 16384 | .regular => 32768 | .symlink => 40960 | .charDev => 8192
  | .blockDev => 24576 | .pipe => 4096 | .socket => 49152 | .other => 0

theorem bind_ite_append {β : Type} (c : Bool) (x y : Str) (f : Str → Res β) :
    Go.bind (if c then Go.Res.ok (x ++ y) else Go.Res.ok x) f = f (x ++ (if c then y else [])) := by
  cases c <;> simp

theorem sendEntry_tied (o : Opts) (k : Kind) (flags : UInt8) (name : Str) (size : Int64) (mtime perm uid gid rdev : Int32)
    (target fileSum fec0 : Str) (hp : perm &&& 61440 = 0) :
    Gen.Pure.sendEntry flags name size.toInt mtime perm (k == .dir) (k == .regular) (k == .symlink) (k == .charDev)
        (k == .charDev || k == .blockDev) (k == .pipe) (k == .socket) uid gid rdev target fileSum
        o.uid o.gid o.links o.devices o.specials o.checksum fec0 =
      .ok ([flags] ++ (gokrEncode o ⟨name, if k == .dir then 4096 else size, mtime, perm ||| k.typeBits, uid, gid, rdev, target,
          if k == .regular then fileSum else List.replicate 16 0⟩).tail) := by
  unfold Gen.Pure.sendEntry
  have fin : ∀ (c : Int32), c &&& 61440 = c → (perm ||| c) &&& 61440 = c := fun c hc => fmt_or perm c hp hc
  cases k
  · have hm := fin 16384 (by decide)
    simp [gokrEncode, encTail, hasRdev, isDev_eq, isSpecial_eq, isLink_eq, Kind.typeBits, hm, i32OfNat]
    cases o.uid <;> cases o.gid <;> cases o.checksum <;> simp
  · have hm := fin 32768 (by decide)
    simp [gokrEncode, encTail, hasRdev, isDev_eq, isSpecial_eq, isLink_eq, Kind.typeBits, hm, i32OfNat]
    cases o.uid <;> cases o.gid <;> cases o.checksum <;> simp
  · have hm := fin 40960 (by decide)
    simp [gokrEncode, encTail, hasRdev, isDev_eq, isSpecial_eq, isLink_eq, Kind.typeBits, hm, i32OfNat]
    cases o.uid <;> cases o.gid <;> cases o.links <;> cases o.checksum <;> simp
  · have hm := fin 8192 (by decide)
    simp [gokrEncode, encTail, hasRdev, isDev_eq, isSpecial_eq, isLink_eq, Kind.typeBits, hm, i32OfNat]
    cases o.uid <;> cases o.gid <;> cases o.devices <;> cases o.checksum <;> simp
  · have hm := fin 24576 (by decide)
    simp [gokrEncode, encTail, hasRdev, isDev_eq, isSpecial_eq, isLink_eq, Kind.typeBits, hm, i32OfNat]
    cases o.uid <;> cases o.gid <;> cases o.devices <;> cases o.checksum <;> simp
  · have hm := fin 4096 (by decide)
    simp [gokrEncode, encTail, hasRdev, isDev_eq, isSpecial_eq, isLink_eq, Kind.typeBits, hm, i32OfNat]
    cases o.uid <;> cases o.gid <;> cases o.specials <;> cases o.checksum <;> simp
  · have hm := fin 49152 (by decide)
    simp [gokrEncode, encTail, hasRdev, isDev_eq, isSpecial_eq, isLink_eq, Kind.typeBits, hm, i32OfNat]
    cases o.uid <;> cases o.gid <;> cases o.specials <;> cases o.checksum <;> simp
  · simp [gokrEncode, encTail, hasRdev, isDev_eq, isSpecial_eq, isLink_eq, Kind.typeBits, hp, i32OfNat]
    cases o.uid <;> cases o.gid <;> cases o.checksum <;> simp

/-- the flag byte the sender computes: always a long name, `XMIT_TOP_DIR` on `.` -/
theorem sendEntryFlags_tied (name : Str) :
    Gen.Pure.sendEntryFlags (name == [46]) = (if name == [46] then fLongName ||| fTopDir else fLongName) := by
  unfold Gen.Pure.sendEntryFlags
  by_cases h : name = [46]
  · simp [h]; decide
  · simp [h]; decide

/-- the entry the sender describes for an object of kind `k` -/
def entryOfStat (k : Kind) (name : Str) (size : Int64) (mtime perm uid gid rdev : Int32) (target fileSum : Str) : Entry :=
  ⟨name, if k == .dir then 4096 else size, mtime, perm ||| k.typeBits, uid, gid, rdev, target,
   if k == .regular then fileSum else List.replicate 16 0⟩

/-- **What the source writes for an entry is the model's `gokrEncode`** (flag byte and all) -/
theorem sendEntry_is_gokrEncode (o : Opts) (k : Kind) (name : Str) (size : Int64) (mtime perm uid gid rdev : Int32)
    (target fileSum fec0 : Str) (hp : perm &&& 61440 = 0) :
    Gen.Pure.sendEntry (Gen.Pure.sendEntryFlags (name == [46])) name size.toInt mtime perm (k == .dir) (k == .regular) (k == .symlink)
        (k == .charDev) (k == .charDev || k == .blockDev) (k == .pipe) (k == .socket) uid gid rdev target fileSum
        o.uid o.gid o.links o.devices o.specials o.checksum fec0 =
      .ok (gokrEncode o (entryOfStat k name size mtime perm uid gid rdev target fileSum)) := by
  rw [sendEntry_tied o k _ name size mtime perm uid gid rdev target fileSum fec0 hp, sendEntryFlags_tied]
  unfold entryOfStat gokrEncode
  simp

end FlistTie
