/-! Message-level model of one transfer: G (generator) only sends on channel A, R (receiver) only
receives on channel B, S (sender) does any interleaving of `recvA` / `sendB` (in the Go code: read a
request, write that file's data, ...). Channels are FIFOs of capacity `ca`, `cb` units; capacity 0 is
a rendezvous (`io.Pipe`): a send and its receive are one joint step. Units are abstract (a byte, a
write call, a message) — the theorems hold for every granularity. -/
namespace Proto

inductive SAct | recvA | sendB
deriving DecidableEq

structure St where
  g  : Nat            -- units G still has to send on A
  s  : List SAct      -- what S still has to do, in order
  r  : Nat            -- units R still has to receive on B
  qa : Nat            -- units in flight on A
  qb : Nat            -- units in flight on B

def cnt (a : SAct) (l : List SAct) : Nat := (l.filter (· == a)).length

inductive Step (ca cb : Nat) : St → St → Prop
  | gSend (st : St) : 0 < st.g → st.qa < ca → Step ca cb st { st with g := st.g - 1, qa := st.qa + 1 }
  | sRecv (st : St) (s' : List SAct) : st.s = SAct.recvA :: s' → 0 < st.qa →
      Step ca cb st { st with s := s', qa := st.qa - 1 }
  | aSync (st : St) (s' : List SAct) : ca = 0 → 0 < st.g → st.s = SAct.recvA :: s' →
      Step ca cb st { st with g := st.g - 1, s := s' }
  | sSend (st : St) (s' : List SAct) : st.s = SAct.sendB :: s' → st.qb < cb →
      Step ca cb st { st with s := s', qb := st.qb + 1 }
  | rRecv (st : St) : 0 < st.r → 0 < st.qb → Step ca cb st { st with r := st.r - 1, qb := st.qb - 1 }
  | bSync (st : St) (s' : List SAct) : cb = 0 → st.s = SAct.sendB :: s' → 0 < st.r →
      Step ca cb st { st with s := s', r := st.r - 1 }

/-- both directions carry exactly what the other end will consume; queues respect capacity -/
structure Inv (ca cb : Nat) (st : St) : Prop where
  balA : st.g + st.qa = cnt SAct.recvA st.s
  balB : cnt SAct.sendB st.s + st.qb = st.r
  capA : st.qa ≤ ca
  capB : st.qb ≤ cb

def terminal (st : St) : Prop := st.g = 0 ∧ st.s = [] ∧ st.r = 0 ∧ st.qa = 0 ∧ st.qb = 0

/-- Deadlock freedom: in every consistent state that is not finished, somebody can move —
for every pair of capacities, including 0. -/
theorem progress (ca cb : Nat) (st : St) (h : Inv ca cb st) : terminal st ∨ ∃ st', Step ca cb st st' := by
  obtain ⟨balA, balB, capA, capB⟩ := h
  cases hs : st.s with
  | nil =>
    simp [hs, cnt] at balA balB
    -- S is done: nothing in flight on A; R drains B
    by_cases hq : 0 < st.qb
    · right; exact ⟨_, Step.rRecv st (by omega) hq⟩
    · left; exact ⟨by omega, hs, by omega, by omega, by omega⟩
  | cons a s' =>
    right
    cases a with
    | recvA =>
      by_cases hq : 0 < st.qa
      · exact ⟨_, Step.sRecv st s' hs hq⟩
      · -- nothing queued: G still owes at least this unit
        have hg : 0 < st.g := by
          simp [hs, cnt] at balA; omega
        by_cases hc : ca = 0
        · exact ⟨_, Step.aSync st s' hc hg hs⟩
        · exact ⟨_, Step.gSend st hg (by omega)⟩
    | sendB =>
      by_cases hroom : st.qb < cb
      · exact ⟨_, Step.sSend st s' hs hroom⟩
      · have hr : 0 < st.r := by
          simp [hs, cnt] at balB; omega
        by_cases hc : cb = 0
        · exact ⟨_, Step.bSync st s' hc hs hr⟩
        · exact ⟨_, Step.rRecv st hr (by omega)⟩

/-- every step keeps the books balanced -/
theorem preserve (ca cb : Nat) (st st' : St) (h : Inv ca cb st) (hstep : Step ca cb st st') : Inv ca cb st' := by
  obtain ⟨balA, balB, capA, capB⟩ := h
  cases hstep with
  | gSend hg hq => exact ⟨by simp; omega, by simpa using balB, by simp; omega, by simpa using capB⟩
  | sRecv s' hs hq =>
    simp [hs, cnt] at balA balB
    exact ⟨by simp [cnt]; omega, by simp [cnt]; omega, by simp; omega, by simpa using capB⟩
  | aSync s' hc hg hs =>
    simp [hs, cnt] at balA balB
    exact ⟨by simp [cnt]; omega, by simp [cnt]; omega, by simpa using capA, by simpa using capB⟩
  | sSend s' hs hq =>
    simp [hs, cnt] at balA balB
    exact ⟨by simp [cnt]; omega, by simp [cnt]; omega, by simpa using capA, by simp; omega⟩
  | rRecv hr hq => exact ⟨by simpa using balA, by simp; omega, by simpa using capA, by simp; omega⟩
  | bSync s' hc hs hr =>
    simp [hs, cnt] at balA balB
    exact ⟨by simp [cnt]; omega, by simp [cnt]; omega, by simpa using capA, by simpa using capB⟩

/-- a quantity every step strictly decreases: no schedule, fair or not, runs forever -/
def measure (st : St) : Nat := 2 * st.g + 2 * st.s.length + 2 * st.r + st.qa + st.qb

theorem measure_decreases (ca cb : Nat) (st st' : St) (hstep : Step ca cb st st') : measure st' < measure st := by
  cases hstep with
  | gSend hg hq => simp [measure]; omega
  | sRecv s' hs hq => simp [measure, hs]; omega
  | aSync s' hc hg hs => simp [measure, hs]; omega
  | sSend s' hs hq => simp [measure, hs]; omega
  | rRecv hr hq => simp [measure]; omega
  | bSync s' hc hs hr => simp [measure, hs]; omega

/-- the initial state of a transfer described by S's program -/
def init (prog : List SAct) : St := { g := cnt SAct.recvA prog, s := prog, r := cnt SAct.sendB prog, qa := 0, qb := 0 }

theorem init_inv (ca cb : Nat) (prog : List SAct) : Inv ca cb (init prog) :=
  ⟨by simp [init], by simp [init], by simp [init], by simp [init]⟩

/-- non-vacuity: a two-file session over rendezvous pipes is consistent and can move -/
example : ∃ st', Step 0 0 (init [SAct.recvA, SAct.sendB, SAct.sendB, SAct.recvA, SAct.sendB]) st' := by
  have := progress 0 0 _ (init_inv 0 0 [SAct.recvA, SAct.sendB, SAct.sendB, SAct.recvA, SAct.sendB])
  rcases this with h | h
  · exact absurd h.2.1 (by simp [init])
  · exact h

end Proto
