import RsyncModel.Flist
/-! Round trip: gokrazy's decoder reads every legal protocol-27 encoding of an entry (any inherited
prefix length, 1- or 4-byte name length, every `SAME_*` flag whenever it applies) back to exactly the
entry that was sent — and hence also gokrazy's own encoding. -/
namespace Flist
open Wire

/-- bits of the flag byte are independent -/
theorem flag_bits : ∀ (n l t m u g r d : Bool),
    let f : UInt8 := (if n then fSameName else 0) ||| (if l then fLongName else 0) |||
      (if t then fSameTime else 0) ||| (if m then fSameMode else 0) |||
      (if u then fSameUid else 0) ||| (if g then fSameGid else 0) |||
      (if r then fSameRdev else 0) ||| (if d then fTopDir else 0)
    has f fSameName = n ∧ has f fLongName = l ∧ has f fSameTime = t ∧ has f fSameMode = m ∧
    has f fSameUid = u ∧ has f fSameGid = g ∧ has f fSameRdev = r := by decide

theorem flagsOf_bits (c : Choice) :
    has (flagsOf c) fSameName = decide (c.l1 > 0) ∧ has (flagsOf c) fLongName = c.longName ∧
    has (flagsOf c) fSameTime = c.sameTime ∧ has (flagsOf c) fSameMode = c.sameMode ∧
    has (flagsOf c) fSameUid = c.sameUid ∧ has (flagsOf c) fSameGid = c.sameGid ∧
    has (flagsOf c) fSameRdev = c.sameRdev := by
  have := flag_bits (decide (c.l1 > 0)) c.longName c.sameTime c.sameMode c.sameUid c.sameGid c.sameRdev c.topDir
  simp only [flagsOf]
  by_cases h : c.l1 > 0 <;> simp only [h, decide_true, decide_false, if_true, if_false] at this ⊢ <;> exact this

theorem rdI32_enc (v : Int32) (r : Str) : rdI32 (encI32 v ++ r) = .ok (v, r) := by
  simp [rdI32, decI32_encI32]

theorem takeN_append (xs r : Str) : takeN xs.length (xs ++ r) = .ok (xs, r) := by
  simp [takeN]

theorem i32OfNat_toInt (n : Nat) (h : n < 2147483648) : (i32OfNat n).toInt = n := by
  unfold i32OfNat
  rw [Int32.toInt_ofInt]
  have hs : (Int32.size : Int) = 4294967296 := rfl
  simp only [Int.bmod, hs]
  split <;> omega

theorem u8_toNat (n : Nat) (h : n ≤ 255) : (UInt8.ofNat n).toNat = n := by
  simp; omega

/-- when a `SAME_*` choice is legal for this entry after `last` -/
structure ChoiceOk (o : Opts) (c : Choice) (last e : Entry) : Prop where
  l1_le : c.l1 ≤ 255
  l1_last : c.l1 ≤ last.name.length
  l1_name : c.l1 ≤ e.name.length
  prefix_eq : last.name.take c.l1 = e.name.take c.l1
  short_ok : c.longName = false → e.name.length - c.l1 ≤ 255
  name_lt : e.name.length < pathMax
  time_eq : c.sameTime = true → last.mtime = e.mtime
  mode_eq : c.sameMode = true → last.mode = e.mode
  uid_eq : c.sameUid = true → last.uid = e.uid
  gid_eq : c.sameGid = true → last.gid = e.gid
  rdev_eq : c.sameRdev = true → last.rdev = e.rdev

theorem pathMax_val : pathMax = 4096 := by decide

/-- stage 1: the name -/
theorem decName_refEncode (c : Choice) (last e : Entry) (o : Opts) (tail : Str) (ok : ChoiceOk o c last e)
    (hclean : PathClean.clean e.name = e.name) :
    decName (flagsOf c) last
      ((if c.l1 > 0 then [UInt8.ofNat c.l1] else []) ++
       ((if c.longName then encI32 (i32OfNat (e.name.length - c.l1)) else [UInt8.ofNat (e.name.length - c.l1)]) ++
        (e.name.drop c.l1 ++ tail))) = .ok (e.name, tail) := by
  obtain ⟨hn, hl, _, _, _, _, _⟩ := flagsOf_bits c
  have hpm := pathMax_val
  have hnl := ok.name_lt
  have hl1n := ok.l1_name
  have hl1le := ok.l1_le
  have hl2 : e.name.length - c.l1 < 2147483648 := by omega
  have hdl : (e.name.drop c.l1).length = e.name.length - c.l1 := by simp
  have hname : (last.name.take c.l1 ++ List.replicate (c.l1 - last.name.length) 0) ++ e.name.drop c.l1 = e.name := by
    have : c.l1 - last.name.length = 0 := by have := ok.l1_last; omega
    rw [this, ok.prefix_eq]; simp
  unfold decName
  simp only [hn, hl]
  by_cases h1 : c.l1 > 0
  · simp only [h1, decide_true, if_true, List.cons_append, List.nil_append, rdByte, bind, Except.bind, pure, Except.pure]
    rw [u8_toNat c.l1 ok.l1_le]
    cases hlong : c.longName
    · have hs := ok.short_ok hlong
      simp only [Bool.false_eq_true, if_false, List.cons_append, List.nil_append, rdByte, u8_toNat _ hs]
      have hbound : ¬ (((e.name.length - c.l1 : Nat) : Int) < 0 ∨ ((e.name.length - c.l1 : Nat) : Int) ≥ (pathMax : Int) - (c.l1 : Int)) := by
        omega
      simp only [hbound, if_false, Int.toNat_natCast]
      rw [← hdl, takeN_append]
      simp only [hdl]
      rw [hname, hclean]
    · simp only [if_true, rdI32_enc, i32OfNat_toInt _ hl2]
      have hbound : ¬ (((e.name.length - c.l1 : Nat) : Int) < 0 ∨ ((e.name.length - c.l1 : Nat) : Int) ≥ (pathMax : Int) - (c.l1 : Int)) := by
        omega
      simp only [hbound, if_false, Int.toNat_natCast]
      rw [← hdl, takeN_append]
      simp only [hdl]
      rw [hname, hclean]
  · have h0 : c.l1 = 0 := by omega
    simp only [h1, decide_false, Bool.false_eq_true, if_false, List.nil_append, bind, Except.bind, pure, Except.pure]
    cases hlong : c.longName
    · have hs := ok.short_ok hlong
      simp only [Bool.false_eq_true, if_false, List.cons_append, List.nil_append, rdByte, u8_toNat _ hs]
      have hbound : ¬ (((e.name.length - c.l1 : Nat) : Int) < 0 ∨ ((e.name.length - c.l1 : Nat) : Int) ≥ (pathMax : Int) - ((0 : Nat) : Int)) := by
        omega
      simp only [hbound, if_false, Int.toNat_natCast]
      rw [← hdl, takeN_append]
      simp only [hdl]
      rw [← h0, hname, hclean]
    · simp only [if_true, rdI32_enc, i32OfNat_toInt _ hl2]
      have hbound : ¬ (((e.name.length - c.l1 : Nat) : Int) < 0 ∨ ((e.name.length - c.l1 : Nat) : Int) ≥ (pathMax : Int) - ((0 : Nat) : Int)) := by
        omega
      simp only [hbound, if_false, Int.toNat_natCast]
      rw [← hdl, takeN_append]
      simp only [hdl]
      rw [← h0, hname, hclean]

/-- stage 2: length, mtime, mode -/
theorem decBasic_refEncode (c : Choice) (last e : Entry) (o : Opts) (tail : Str) (ok : ChoiceOk o c last e) :
    decBasic (flagsOf c) last
      (encLong e.size ++ ((if c.sameTime then [] else encI32 e.mtime) ++ ((if c.sameMode then [] else encI32 e.mode) ++ tail)))
      = .ok ((e.size, e.mtime, e.mode), tail) := by
  obtain ⟨_, _, ht, hm, _, _, _⟩ := flagsOf_bits c
  unfold decBasic
  simp only [decLong_encLong, ht, hm, bind, Except.bind, pure, Except.pure]
  cases h1 : c.sameTime <;> cases h2 : c.sameMode <;>
    simp [rdI32_enc, ok.time_eq, ok.mode_eq, h1, h2]

/-- the entry as the receiver can know it: fields that the options do not put on the wire are zero -/
def project (o : Opts) (e : Entry) : Entry :=
  { e with
    uid := if o.uid then e.uid else 0
    gid := if o.gid then e.gid else 0
    rdev := if hasRdev o e.mode then e.rdev else 0
    target := if o.links && isLink e.mode then e.target else []
    sum := if o.checksum then e.sum else [] }

/-- stage 3: uid, gid, rdev -/
theorem decIds_refEncode (c : Choice) (last e : Entry) (o : Opts) (tail : Str) (ok : ChoiceOk o c last e) :
    decIds o (flagsOf c) last e.mode
      ((if o.uid && !c.sameUid then encI32 e.uid else []) ++
       ((if o.gid && !c.sameGid then encI32 e.gid else []) ++
        ((if hasRdev o e.mode && !c.sameRdev then encI32 e.rdev else []) ++ tail)))
      = .ok (((project o e).uid, (project o e).gid, (project o e).rdev), tail) := by
  obtain ⟨_, _, _, _, hu, hg, hr⟩ := flagsOf_bits c
  unfold decIds project
  simp only [hu, hg, hr, bind, Except.bind, pure, Except.pure]
  cases h1 : o.uid <;> cases h2 : c.sameUid <;> cases h3 : o.gid <;> cases h4 : c.sameGid <;>
    cases h5 : hasRdev o e.mode <;> cases h6 : c.sameRdev <;>
    simp [rdI32_enc, ok.uid_eq, ok.gid_eq, ok.rdev_eq, h2, h4, h6]

/-- stage 4: link target and checksum -/
theorem decExtra_refEncode (e : Entry) (o : Opts) (tail : Str)
    (htl : e.target.length < pathMax) (hsum : o.checksum = true → e.sum.length = 16) :
    decExtra o e.mode
      ((if o.links && isLink e.mode then encI32 (i32OfNat e.target.length) ++ e.target else []) ++
       ((if o.checksum then e.sum else []) ++ tail))
      = .ok (((project o e).target, (project o e).sum), tail) := by
  have hpm := pathMax_val
  have hv := i32OfNat_toInt e.target.length (by omega)
  unfold decExtra project
  simp only [bind, Except.bind, pure, Except.pure]
  cases h1 : (o.links && isLink e.mode) <;> cases h2 : o.checksum
  · simp
  · have := hsum h2
    simp only [Bool.false_eq_true, if_false, List.nil_append, if_true]
    rw [← this, takeN_append]
  · simp only [if_true, List.append_assoc, rdI32_enc, Bool.false_eq_true, if_false, List.nil_append]
    have hneg : ¬ (i32OfNat e.target.length < 0 ∨ ((e.target.length : Nat) : Int) ≥ (pathMax : Int)) := by
      intro h; rcases h with h | h
      · rw [Int32.lt_iff_toInt_lt, hv, Int32.toInt_zero] at h; omega
      · omega
    simp only [hv, hneg, if_false, Int.toNat_natCast, takeN_append]
  · have := hsum h2
    simp only [if_true, List.append_assoc, rdI32_enc]
    have hneg : ¬ (i32OfNat e.target.length < 0 ∨ ((e.target.length : Nat) : Int) ≥ (pathMax : Int)) := by
      intro h; rcases h with h | h
      · rw [Int32.lt_iff_toInt_lt, hv, Int32.toInt_zero] at h; omega
      · omega
    simp only [hv, hneg, if_false, Int.toNat_natCast, takeN_append]
    rw [← this, takeN_append]

/-- **gokrazy's decoder reads every legal protocol-27 encoding of an entry**: whatever prefix length a
conforming sender shares with the previous name, whether it uses the one-byte or the four-byte name
length, and whichever `SAME_*` flags it sets when the value repeats, the entry that comes out is the
entry that was sent (fields the options keep off the wire are zero). -/
theorem decode_refEncode (o : Opts) (c : Choice) (last e : Entry) (rest : Str)
    (ok : ChoiceOk o c last e) (hclean : PathClean.clean e.name = e.name)
    (htl : e.target.length < pathMax) (hsum : o.checksum = true → e.sum.length = 16) :
    decodeEntry o (flagsOf c) last ((refEncode o c e).tail ++ rest) = .ok (project o e, rest) := by
  have h1 := decName_refEncode c last e o
  have h2 := decBasic_refEncode c last e o
  have h3 := decIds_refEncode c last e o
  have h4 := decExtra_refEncode e o rest htl hsum
  unfold decodeEntry refEncode encTail
  simp only [List.cons_append, List.nil_append, List.tail_cons, List.append_assoc]
  rw [h1 _ ok hclean]
  simp only [bind, Except.bind]
  rw [h2 _ ok]
  simp only
  rw [h3 _ ok]
  simp only
  rw [h4]
  simp [project, pure, Except.pure]

/-- gokrazy's own encoding is one of the legal ones (long name, nothing shared) -/
def gokrChoice (e : Entry) : Choice := ⟨0, true, false, false, false, false, false, e.name == [46]⟩

theorem gokrEncode_eq_ref (o : Opts) (e : Entry) : gokrEncode o e = refEncode o (gokrChoice e) e := by
  unfold gokrEncode refEncode gokrChoice flagsOf
  by_cases h : e.name = [46] <;> simp [h] <;> decide

theorem gokrChoice_ok (o : Opts) (last e : Entry) (hlen : e.name.length < pathMax) : ChoiceOk o (gokrChoice e) last e where
  l1_le := by simp [gokrChoice]
  l1_last := by simp [gokrChoice]
  l1_name := by simp [gokrChoice]
  prefix_eq := by simp [gokrChoice]
  short_ok := by simp [gokrChoice]
  name_lt := hlen
  time_eq := by simp [gokrChoice]
  mode_eq := by simp [gokrChoice]
  uid_eq := by simp [gokrChoice]
  gid_eq := by simp [gokrChoice]
  rdev_eq := by simp [gokrChoice]

/-- **gokrazy decodes what gokrazy encodes.** -/
theorem decode_gokrEncode (o : Opts) (last e : Entry) (rest : Str) (hlen : e.name.length < pathMax)
    (hclean : PathClean.clean e.name = e.name) (htl : e.target.length < pathMax)
    (hsum : o.checksum = true → e.sum.length = 16) :
    decodeEntry o (flagsOf (gokrChoice e)) last ((gokrEncode o e).tail ++ rest) = .ok (project o e, rest) := by
  rw [gokrEncode_eq_ref]
  exact decode_refEncode o (gokrChoice e) last e rest (gokrChoice_ok o last e hlen) hclean htl hsum

end Flist

namespace Flist
open Wire

/-- a whole list is legally encoded: each entry's choices are legal with respect to the (decoded)
previous entry, no flag byte is 0 (that would terminate the list), names are clean and fit -/
def Chain (o : Opts) : Entry → List (Choice × Entry) → Prop
  | _, [] => True
  | last, (c, e) :: r =>
    ChoiceOk o c last e ∧ flagsOf c ≠ 0 ∧ PathClean.clean e.name = e.name ∧ e.target.length < pathMax ∧
      (o.checksum = true → e.sum.length = 16) ∧ Chain o (project o e) r

def encodeList (o : Opts) (ces : List (Choice × Entry)) : Str :=
  ces.flatMap (fun ce => refEncode o ce.1 ce.2) ++ [0]

theorem refEncode_cons (o : Opts) (c : Choice) (e : Entry) :
    refEncode o c e = flagsOf c :: (refEncode o c e).tail := by
  unfold refEncode; simp

/-- **Every valid protocol-27 encoding of a file list is decoded into exactly the entries that were
sent**, in wire order. -/
theorem decodeList_encodeList (o : Opts) (ces : List (Choice × Entry)) (last : Entry) (rest : Str) (fuel : Nat)
    (hf : ces.length < fuel) (h : Chain o last ces) :
    decodeList o last fuel (encodeList o ces ++ rest) = .ok (ces.map (fun ce => project o ce.2), rest) := by
  induction ces generalizing last fuel with
  | nil =>
    cases fuel with
    | zero => omega
    | succ f => simp [encodeList, decodeList]
  | cons ce ces ih =>
    obtain ⟨c, e⟩ := ce
    obtain ⟨hok, hnz, hcl, htl, hsum, hrest⟩ := h
    cases fuel with
    | zero => simp at hf
    | succ f =>
      have hf' : ces.length < f := by simp at hf; omega
      have e1 : encodeList o ((c, e) :: ces) ++ rest =
          flagsOf c :: ((refEncode o c e).tail ++ (encodeList o ces ++ rest)) := by
        simp only [encodeList, List.flatMap_cons, List.append_assoc]
        rw [refEncode_cons]; simp
      rw [e1]
      simp only [decodeList]
      have hnz' : (flagsOf c == 0) = false := by simpa using hnz
      simp only [hnz', Bool.false_eq_true, if_false]
      rw [decode_refEncode o c last e _ hok hcl htl hsum]
      simp only [bind, Except.bind]
      rw [ih (project o e) f hf' hrest]
      simp [pure, Except.pure]

theorem name_inj_of_nodup : ∀ (l : List Entry), (l.map (·.name)).Nodup → ∀ a b, a ∈ l → b ∈ l → a.name = b.name → a = b := by
  intro l
  induction l with
  | nil => intro _ a b ha; cases ha
  | cons x xs ih =>
    intro hnd a b ha hb hn
    simp only [List.map_cons, List.nodup_cons, List.mem_map, not_exists, not_and] at hnd
    rcases List.mem_cons.mp ha with rfl | ha' <;> rcases List.mem_cons.mp hb with rfl | hb'
    · rfl
    · exact absurd hn.symm (hnd.1 b hb')
    · exact absurd hn (hnd.1 a ha')
    · exact ih hnd.2 a b ha' hb' hn

/-- **Both sides number the files identically**: two name-sorted arrangements of the same entries
are the same list whenever names are distinct — whatever (unstable) sorting algorithm each side
uses; so an index sent by one side denotes the same file on the other. `le` is any antisymmetric
order on names (Go's bytewise string comparison). -/
theorem index_agreement {le : Str → Str → Prop} (anti : ∀ a b, le a b → le b a → a = b)
    (l s r : List Entry) (hs : s.Perm l) (hr : r.Perm l)
    (hss : s.Pairwise (fun x y => le x.name y.name)) (hrs : r.Pairwise (fun x y => le x.name y.name))
    (hnd : (l.map (·.name)).Nodup) : s = r := by
  apply List.Perm.eq_of_pairwise (le := fun x y => le x.name y.name) _ hss hrs (hs.trans hr.symm)
  intro a b ha hb h1 h2
  have hn := anti _ _ h1 h2
  have ha' : a ∈ l := hs.subset ha
  have hb' : b ∈ l := hr.subset hb
  exact name_inj_of_nodup l hnd a b ha' hb' hn

end Flist
