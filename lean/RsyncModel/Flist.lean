import RsyncModel.WireInt
import RsyncModel.PathClean
import RsyncModel.Gen.Consts
/-! The file-list wire format: the entry encoder as gokrazy's sender writes it
(sender/flist.go:160-295), the decoder as gokrazy's receiver reads it (receiver/flist.go:67-200),
and a protocol-27 reference encoder that may use every legal compression. Flag values, mode bits
and `PATH_MAX` are regenerated from the source. -/
namespace Flist
open Wire

abbrev Str := List UInt8

structure Entry where
  name : Str
  size : Int64
  mtime : Int32
  mode : Int32
  uid : Int32
  gid : Int32
  rdev : Int32
  target : Str
  sum : Str
deriving DecidableEq, Repr

structure Opts where
  uid : Bool
  gid : Bool
  links : Bool
  devices : Bool
  specials : Bool
  checksum : Bool
deriving DecidableEq, Repr

def fTopDir : UInt8 := UInt8.ofNat Gen.Consts.XMIT_TOP_DIR
def fSameMode : UInt8 := UInt8.ofNat Gen.Consts.XMIT_SAME_MODE
def fSameRdev : UInt8 := UInt8.ofNat Gen.Consts.XMIT_SAME_RDEV_pre28
def fSameUid : UInt8 := UInt8.ofNat Gen.Consts.XMIT_SAME_UID
def fSameGid : UInt8 := UInt8.ofNat Gen.Consts.XMIT_SAME_GID
def fSameName : UInt8 := UInt8.ofNat Gen.Consts.XMIT_SAME_NAME
def fLongName : UInt8 := UInt8.ofNat Gen.Consts.XMIT_LONG_NAME
def fSameTime : UInt8 := UInt8.ofNat Gen.Consts.XMIT_SAME_TIME

def has (flags f : UInt8) : Bool := flags &&& f != 0

def fmtOf (mode : Int32) : Nat := mode.toUInt32.toNat &&& Gen.Consts.S_IFMT
def isDev (mode : Int32) : Bool := fmtOf mode == Gen.Consts.S_IFCHR || fmtOf mode == Gen.Consts.S_IFBLK
def isSpecial (mode : Int32) : Bool := fmtOf mode == Gen.Consts.S_IFIFO || fmtOf mode == Gen.Consts.S_IFSOCK
def isLink (mode : Int32) : Bool := fmtOf mode == Gen.Consts.S_IFLNK

/-- the rdev field is on the wire — the same condition on both sides since the D15 repair -/
def hasRdev (o : Opts) (mode : Int32) : Bool := (o.devices && isDev mode) || (o.specials && isSpecial mode)

def i32OfNat (n : Nat) : Int32 := Int32.ofInt n

/-- the optional tail shared by every encoder: uid, gid, rdev, link target, checksum -/
def encTail (o : Opts) (e : Entry) (sameUid sameGid sameRdev : Bool) : Str :=
  (if o.uid && !sameUid then encI32 e.uid else []) ++
  (if o.gid && !sameGid then encI32 e.gid else []) ++
  (if hasRdev o e.mode && !sameRdev then encI32 e.rdev else []) ++
  (if o.links && isLink e.mode then encI32 (i32OfNat e.target.length) ++ e.target else []) ++
  (if o.checksum then e.sum else [])

/-- gokrazy's sender: always a long name, never any sharing with the previous entry -/
def gokrEncode (o : Opts) (e : Entry) : Str :=
  let flags := if e.name == [46] then fLongName ||| fTopDir else fLongName
  [flags] ++ encI32 (i32OfNat e.name.length) ++ e.name ++ encLong e.size ++ encI32 e.mtime ++ encI32 e.mode ++
    encTail o e false false false

/-- a conforming sender's choices for one entry -/
structure Choice where
  l1 : Nat            -- bytes of the name inherited from the previous entry (XMIT_SAME_NAME if > 0)
  longName : Bool
  sameTime : Bool
  sameMode : Bool
  sameUid : Bool
  sameGid : Bool
  sameRdev : Bool
  topDir : Bool
deriving DecidableEq, Repr

def flagsOf (c : Choice) : UInt8 :=
  (if c.l1 > 0 then fSameName else 0) ||| (if c.longName then fLongName else 0) |||
  (if c.sameTime then fSameTime else 0) ||| (if c.sameMode then fSameMode else 0) |||
  (if c.sameUid then fSameUid else 0) ||| (if c.sameGid then fSameGid else 0) |||
  (if c.sameRdev then fSameRdev else 0) ||| (if c.topDir then fTopDir else 0)

/-- protocol-27 reference encoder (rsync 2.6.x `send_file_entry`, protocol < 28) -/
def refEncode (o : Opts) (c : Choice) (e : Entry) : Str :=
  let l2 := e.name.length - c.l1
  [flagsOf c] ++ (if c.l1 > 0 then [UInt8.ofNat c.l1] else []) ++
    (if c.longName then encI32 (i32OfNat l2) else [UInt8.ofNat l2]) ++ e.name.drop c.l1 ++
    encLong e.size ++ (if c.sameTime then [] else encI32 e.mtime) ++ (if c.sameMode then [] else encI32 e.mode) ++
    encTail o e c.sameUid c.sameGid c.sameRdev

inductive Err
  | short
  | overflow      -- name length out of range
  | badLink       -- symlink target length out of range
deriving DecidableEq, Repr

def pathMax : Nat := Gen.Consts.pathMax

def takeN (n : Nat) (bs : Str) : Except Err (Str × Str) :=
  if bs.length < n then .error .short else .ok (bs.take n, bs.drop n)

def rdI32 (bs : Str) : Except Err (Int32 × Str) :=
  match decI32 bs with
  | none => .error .short
  | some r => .ok r

def rdByte : Str → Except Err (UInt8 × Str)
  | [] => .error .short
  | b :: r => .ok (b, r)

/-- stage 1 of `receiveFileEntry`: the name (inherited prefix, length byte or int32, bounds, Clean) -/
def decName (flags : UInt8) (last : Entry) (bs : Str) : Except Err (Str × Str) := do
  let (l1, bs) ← if has flags fSameName then (do let (b, r) ← rdByte bs; pure (b.toNat, r)) else pure (0, bs)
  let (l2, bs) ← if has flags fLongName then (do let (v, r) ← rdI32 bs; pure (v.toInt, r))
                 else (do let (b, r) ← rdByte bs; pure ((b.toNat : Int), r))
  if l2 < 0 ∨ l2 ≥ (pathMax : Int) - l1 then throw .overflow
  let (suffix, bs) ← takeN l2.toNat bs
  -- `copy(b, last.Name)`: the first l1 bytes of the previous name (zero bytes beyond its end)
  let prefix_ := (last.name.take l1) ++ List.replicate (l1 - last.name.length) 0
  pure (PathClean.clean (prefix_ ++ suffix), bs)

/-- stage 2: length, modification time, mode -/
def decBasic (flags : UInt8) (last : Entry) (bs : Str) : Except Err ((Int64 × Int32 × Int32) × Str) := do
  let (size, bs) ← match decLong bs with
    | none => throw .short
    | some r => pure r
  let (mtime, bs) ← if has flags fSameTime then pure (last.mtime, bs) else rdI32 bs
  let (mode, bs) ← if has flags fSameMode then pure (last.mode, bs) else rdI32 bs
  pure ((size, mtime, mode), bs)

/-- stage 3: uid, gid, rdev -/
def decIds (o : Opts) (flags : UInt8) (last : Entry) (mode : Int32) (bs : Str) : Except Err ((Int32 × Int32 × Int32) × Str) := do
  let (uid, bs) ← if o.uid then (if has flags fSameUid then pure (last.uid, bs) else rdI32 bs) else pure (0, bs)
  let (gid, bs) ← if o.gid then (if has flags fSameGid then pure (last.gid, bs) else rdI32 bs) else pure (0, bs)
  let (rdev, bs) ← if hasRdev o mode then (if has flags fSameRdev then pure (last.rdev, bs) else rdI32 bs) else pure (0, bs)
  pure ((uid, gid, rdev), bs)

/-- stage 4: link target and checksum -/
def decExtra (o : Opts) (mode : Int32) (bs : Str) : Except Err ((Str × Str) × Str) := do
  let (target, bs) ← if o.links && isLink mode then (do
      let (n, r) ← rdI32 bs
      if n < 0 ∨ n.toInt ≥ (pathMax : Int) then throw .badLink
      takeN n.toInt.toNat r) else pure ([], bs)
  let (sum, bs) ← if o.checksum then takeN 16 bs else pure ([], bs)
  pure ((target, sum), bs)

/-- `receiveFileEntry(flags, last)` -/
def decodeEntry (o : Opts) (flags : UInt8) (last : Entry) (bs : Str) : Except Err (Entry × Str) := do
  let (name, bs) ← decName flags last bs
  let ((size, mtime, mode), bs) ← decBasic flags last bs
  let ((uid, gid, rdev), bs) ← decIds o flags last mode bs
  let ((target, sum), bs) ← decExtra o mode bs
  pure (⟨name, size, mtime, mode, uid, gid, rdev, target, sum⟩, bs)

def zeroEntry : Entry := ⟨[], 0, 0, 0, 0, 0, 0, [], []⟩

/-- the entry loop of `ReceiveFileList`: flag byte 0 terminates -/
def decodeList (o : Opts) (last : Entry) (fuel : Nat) (bs : Str) : Except Err (List Entry × Str) :=
  match fuel with
  | 0 => .error .short
  | fuel + 1 =>
    match bs with
    | [] => .error .short
    | f :: r =>
      if f == 0 then .ok ([], r)
      else do
        let (e, r') ← decodeEntry o f last r
        let (es, r'') ← decodeList o e fuel r'
        pure (e :: es, r'')

/-- `recvIdMapping1`: (id, name) pairs until id 0 -/
def decodeIdList (fuel : Nat) (bs : Str) : Except Err (List (Int32 × Str) × Str) :=
  match fuel with
  | 0 => .error .short
  | fuel + 1 => do
    let (id, r) ← rdI32 bs
    if id == 0 then pure ([], r)
    else
      let (n, r) ← rdByte r
      let (name, r) ← takeN n.toNat r
      let (rest, r) ← decodeIdList fuel r
      pure ((id, name) :: rest, r)

/-- `ReceiveFileList` up to (not including) the sort: entries, id lists, the I/O error flag -/
def receiveFileList (o : Opts) (bs : Str) : Except Err (List Entry × Int32 × Str) := do
  let (es, r) ← decodeList o zeroEntry (bs.length + 1) bs
  let (_, r) ← if o.uid then decodeIdList (r.length + 1) r else pure ([], r)
  let (_, r) ← if o.gid then decodeIdList (r.length + 1) r else pure ([], r)
  let (ioerr, r) ← rdI32 r
  pure (es, ioerr, r)

end Flist
