/-! The contract of Go's traversal-resistant `*os.Root` as the receiver and the sender rely on it:
resolution of a slash-separated name below a root directory, component by component, following
symbolic links but never stepping above the root. The real thing (Go runtime + kernel, openat with
RESOLVE_BENEATH-like checks) is trusted; this model of it is validated by the `rootfs` suite on
generated trees with inside/outside/absolute/dangling/looping links, and the theorem says what the
contract gives: whatever the tree and the links, a successful resolution lies below the root. -/
namespace RootFs

abbrev Name := List UInt8
/-- an absolute location: the names from `/` downwards -/
abbrev Loc := List Name

inductive Kind
  | file
  | dir
  | link (target : List Name) (absolute : Bool)
deriving Repr, DecidableEq

abbrev FS := Loc → Option Kind

inductive Res
  | ok (loc : Loc)
  | escapes        -- "path escapes from parent"
  | notExist
  | notDir
  | loop           -- too many levels of symbolic links
deriving Repr, DecidableEq

def dotdot : Name := [46, 46]
def dot : Name := [46]

/-- resolve `comps` starting in directory `cur`; `follow` says whether a symbolic link in the last
position is followed (Open, Stat, OpenRoot) or is the result itself (Lstat, Readlink, Remove, Symlink) -/
def resolve (fs : FS) (root : Loc) (follow : Bool) : Nat → Loc → List Name → Res
  | 0, _, _ => .loop
  | _ + 1, cur, [] => .ok cur
  | fuel + 1, cur, c :: rest =>
    if c == [] || c == dot then resolve fs root follow fuel cur rest
    else if c == dotdot then
      if cur == root then .escapes else resolve fs root follow fuel cur.dropLast rest
    else
      match fs (cur ++ [c]) with
      | none => .notExist
      | some .dir => resolve fs root follow fuel (cur ++ [c]) rest
      | some .file => if rest.isEmpty then .ok (cur ++ [c]) else .notDir
      | some (.link t abs) =>
        if rest.isEmpty && !follow then .ok (cur ++ [c])
        else if abs then .escapes
        else resolve fs root follow fuel cur (t ++ rest)

theorem prefix_dropLast (root cur : Loc) (h : root <+: cur) (hne : cur ≠ root) : root <+: cur.dropLast := by
  obtain ⟨t, rfl⟩ := h
  cases ht : t.reverse with
  | nil =>
    have : t = [] := by simpa using ht
    subst this; simp at hne
  | cons x xs =>
    have : t = xs.reverse ++ [x] := by
      have := congrArg List.reverse ht; simpa using this
    subst this
    rw [← List.append_assoc, List.dropLast_concat]
    exact List.prefix_append _ _

/-- **whatever the tree, the links and the name, a successful resolution is at or below the root** -/
theorem resolve_confined (fs : FS) (root : Loc) (follow : Bool) (fuel : Nat) (cur : Loc) (comps : List Name) (loc : Loc)
    (hcur : root <+: cur) (h : resolve fs root follow fuel cur comps = .ok loc) : root <+: loc := by
  induction fuel generalizing cur comps with
  | zero => simp [resolve] at h
  | succ n ih =>
    cases comps with
    | nil => simp [resolve] at h; subst h; exact hcur
    | cons c rest =>
      simp only [resolve] at h
      split at h
      · exact ih cur rest hcur h
      · split at h
        · split at h
          · cases h
          · rename_i hne
            exact ih _ rest (prefix_dropLast root cur hcur (by simpa using hne)) h
        · have hpush : root <+: cur ++ [c] := by
            obtain ⟨t, rfl⟩ := hcur
            exact ⟨t ++ [c], by simp⟩
          split at h
          · cases h
          · exact ih _ rest hpush h
          · split at h
            · injection h with h; subst h; exact hpush
            · cases h
          · split at h
            · injection h with h; subst h; exact hpush
            · split at h
              · cases h
              · exact ih cur _ hcur h

inductive OpenRes
  | res (r : Res)
  | invalid       -- the empty name
deriving Repr, DecidableEq

def splitSlash (s : List UInt8) : List Name :=
  s.foldr (fun b acc => if b == 47 then [] :: acc else match acc with
    | [] => [[b]]
    | x :: r => (b :: x) :: r) [[]]

/-- a method of `*os.Root` applied to a name: the empty name is invalid, an absolute name escapes -/
def openName (fs : FS) (root : Loc) (follow : Bool) (name : List UInt8) : OpenRes :=
  if name.isEmpty then .invalid
  else if name.head? == some 47 then .res .escapes
  else .res (resolve fs root follow 4096 root (splitSlash name))

/-- in particular from the root itself -/
theorem open_confined (fs : FS) (root : Loc) (follow : Bool) (fuel : Nat) (comps : List Name) (loc : Loc)
    (h : resolve fs root follow fuel root comps = .ok loc) : root <+: loc :=
  resolve_confined fs root follow fuel root comps loc (List.prefix_refl _) h

theorem openName_confined (fs : FS) (root : Loc) (follow : Bool) (name : List UInt8) (loc : Loc)
    (h : openName fs root follow name = .res (.ok loc)) : root <+: loc := by
  unfold openName at h
  split at h
  · cases h
  · split at h
    · cases h
    · injection h with h; exact open_confined fs root follow _ _ loc h

end RootFs
