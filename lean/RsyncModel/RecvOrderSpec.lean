import RsyncModel.Gen.RecvOrder
/-! What the step list regenerated from `receiveData` must look like for `Recv.recvData` to be a
faithful model of the commit logic. -/
namespace RecvOrderSpec
open Gen.RecvOrder

/-- The shape: a pending file `out` is created and its cleanup deferred; one `MultiWriter(out, h)`
`w`; every write before the sum goes to `w` (so `h` sees exactly the bytes `out` gets); the local sum
is `h.Sum`; the remote sum is read from the connection; a mismatch returns an error; then — and only
then — the single commit on `out`; no other call touches `out` or the destination. -/
def wellOrdered : List Ev → Bool
  | .newPending o :: .deferCleanup o' :: .multiWriter w a h :: rest =>
    o == o' && a == o && w != o && w != h &&
    (match rest.dropWhile (fun e => e == .write w) with
     | [.sum l h', .readFull r, .cmpReturn a1 a2, .commit o''] =>
        h' == h && o'' == o && l != r && ((a1 == l && a2 == r) || (a1 == r && a2 == l))
     | _ => false)
  | _ => false

end RecvOrderSpec
