import RsyncModel.Gen.FlistConds
import RsyncModel.Flist
/-! What the regenerated wire schedules of a file-list entry (and of the list's tail) must satisfy:
the ordered list of wire operations is the expected one on each side, every sender guard is the
condition of the model encoder, and — with the flags gokrazy's sender sets and the receiver's
options resolved through either `receiver.TransferOpts` literal — every receiver guard is
equivalent to the guard of the sender step it consumes, for **all** option sets and entry kinds
(`BExpr.equivB`, sound by `BExpr.equivB_sound`). -/
namespace FlistCondsSpec
open Gen.FlistConds Gen.OptTable

def labels (l : List Step) : List String := l.map (·.label)

def guardOf (l : List Step) (label : String) : BExpr FAtom :=
  match l.find? (·.label == label) with
  | some s => s.guard
  | none => .atom (.other ("missing step " ++ label))

/-- the flags gokrazy's sender puts into the status byte: `XMIT_LONG_NAME` always, never a SAME_* flag -/
def gokrFlag (name : String) : Bool := name == "XMIT_LONG_NAME"

/-- resolve the receiver's atoms: option fields through a TransferOpts literal, flags as gokrazy sets them -/
def resolve (m : List (TField × Acc)) : FAtom → BExpr FAtom
  | .topt f => match m.find? (·.1 == f) with
    | some p => .atom (.opt p.2)
    | none => .atom (.other "TransferOpts field not filled from an accessor")
  | .flag n => if gokrFlag n then .tt else .ff
  | a => .atom a

def recvGuard (m : List (TField × Acc)) (l : List Step) (label : String) : BExpr FAtom :=
  BExpr.subst (resolve m) (guardOf l label)

/-! expected schedules (hand-written from the protocol description; a reordered, dropped or added
wire operation on either side changes the regenerated list) -/

def expectedSender : List String :=
  ["WriteByte(flags)", "WriteInt32(int32(len(name)))", "WriteString(name)", "WriteInt64(size)",
   "WriteInt32(int32(info.ModTime().Unix()))", "WriteInt32(mode)", "WriteInt32(uid)", "WriteInt32(gid)", "WriteInt32(rdev)",
   "WriteInt32(int32(len(target)))", "WriteString(target)", "WriteString(string(checksum))", "conn.WriteString(s.fec.String())"]

def expectedReceiver : List String :=
  ["ReadByte->l", "ReadInt32->l", "ReadByte->l", "ReadFull(readb)", "ReadInt64->length", "ReadInt32->modTime", "ReadInt32->mode",
   "ReadInt32->uid", "ReadInt32->gid", "ReadInt32->rdev", "ReadInt32->length", "ReadFull(b)", "ReadFull(f.Checksum[:])"]

/-- (sender step, receiver step that consumes it) -/
def pairing : List (String × String) :=
  [("WriteString(name)", "ReadFull(readb)"), ("WriteInt64(size)", "ReadInt64->length"),
   ("WriteInt32(int32(info.ModTime().Unix()))", "ReadInt32->modTime"), ("WriteInt32(mode)", "ReadInt32->mode"),
   ("WriteInt32(uid)", "ReadInt32->uid"), ("WriteInt32(gid)", "ReadInt32->gid"), ("WriteInt32(rdev)", "ReadInt32->rdev"),
   ("WriteInt32(int32(len(target)))", "ReadInt32->length"), ("WriteString(target)", "ReadFull(b)"),
   ("WriteString(string(checksum))", "ReadFull(f.Checksum[:])")]

def entryAgrees (m : List (TField × Acc)) : Bool :=
  pairing.all fun p => BExpr.equivB (guardOf senderEntry p.1) (recvGuard m receiverEntry p.2)

/-- the name length: the sender writes an int32; the receiver reads the inherited-length byte never,
the int32 always, the one-byte length never (the three `l` reads, in source order) -/
def nameLenAgrees (m : List (TField × Acc)) : Bool :=
  match receiverEntry.filter (fun s => s.label == "ReadByte->l" || s.label == "ReadInt32->l") with
  | [a, b, c] =>
    a.label == "ReadByte->l" && b.label == "ReadInt32->l" && c.label == "ReadByte->l" &&
    BExpr.equivB (BExpr.subst (resolve m) a.guard) .ff &&
    BExpr.equivB (BExpr.subst (resolve m) b.guard) (guardOf senderEntry "WriteInt32(int32(len(name)))") &&
    BExpr.equivB (BExpr.subst (resolve m) c.guard) .ff
  | _ => false

/-! the tail of the list: end marker, uid list, gid list, I/O error flag -/

def expectedSenderTail : List String :=
  ["WriteByte(endOfFileList)", "WriteInt32(uid)", "WriteByte(byte(len(name)))", "WriteString(name)", "WriteInt32(endOfSet)",
   "WriteInt32(gid)", "WriteByte(byte(len(name)))", "WriteString(name)", "WriteInt32(endOfSet)", "WriteInt32(ioErrors)", "Conn.WriteString(fec.String())"]

def expectedReceiverTail : List String := ["ReadByte->b", "receiveFileEntry", "RecvIdList", "ReadInt32->ioErrors"]
def expectedIdList : List String := ["recvIdMapping1->users", "recvIdMapping1->groups"]

/-- guards of the two `WriteInt32(endOfSet)` terminators, in order: uid list, gid list -/
def senderListGuards : List (BExpr FAtom) := (senderTail.filter (·.label == "WriteInt32(endOfSet)")).map (·.guard)

def tailAgrees (m : List (TField × Acc)) : Bool :=
  match senderListGuards, receiverIdList with
  | [su, sg], [ru, rg] =>
    let outer := recvGuard m receiverTail "RecvIdList"
    BExpr.equivB su (.and outer (BExpr.subst (resolve m) ru.guard)) &&
    BExpr.equivB sg (.and outer (BExpr.subst (resolve m) rg.guard)) &&
    -- every step of a list is under the same guard as its terminator
    (senderTail.filter (fun s => s.label == "WriteInt32(uid)" || s.label == "WriteInt32(gid)" || s.label == "WriteByte(byte(len(name)))" || s.label == "WriteString(name)")).all
      (fun s => BExpr.equivB s.guard su || BExpr.equivB s.guard sg) &&
    BExpr.equivB (guardOf senderTail "WriteByte(endOfFileList)") .tt &&
    BExpr.equivB (guardOf senderTail "WriteInt32(ioErrors)") .tt &&
    BExpr.equivB (recvGuard m receiverTail "ReadInt32->ioErrors") .tt
  | _, _ => false

def schedulesOk : Bool :=
  labels senderEntry == expectedSender && labels receiverEntry == expectedReceiver &&
  labels senderTail == expectedSenderTail && labels receiverTail == expectedReceiverTail && labels receiverIdList == expectedIdList

/-! the sender's guards are the model encoder's conditions (`Flist.encTail`) -/

def senderAtoms (o : Flist.Opts) (mode : Int32) : FAtom → Bool
  | .opt .PreserveUid => o.uid
  | .opt .PreserveGid => o.gid
  | .opt .PreserveLinks => o.links
  | .opt .PreserveDevices => o.devices
  | .opt .PreserveSpecials => o.specials
  | .opt .AlwaysChecksum => o.checksum
  | .isDev => Flist.isDev mode
  | .isSpecial => Flist.isSpecial mode
  | .isLink => Flist.isLink mode
  | _ => false

def expectedGuards : List (String × BExpr FAtom) :=
  [("WriteInt32(uid)", .atom (.opt .PreserveUid)), ("WriteInt32(gid)", .atom (.opt .PreserveGid)),
   ("WriteInt32(rdev)", .or (.and (.atom (.opt .PreserveDevices)) (.atom .isDev)) (.and (.atom (.opt .PreserveSpecials)) (.atom .isSpecial))),
   ("WriteInt32(int32(len(target)))", .and (.atom (.opt .PreserveLinks)) (.atom .isLink)),
   ("WriteString(target)", .and (.atom (.opt .PreserveLinks)) (.atom .isLink)),
   ("WriteString(string(checksum))", .atom (.opt .AlwaysChecksum)),
   ("WriteByte(flags)", .tt), ("WriteInt32(int32(len(name)))", .tt), ("WriteString(name)", .tt), ("WriteInt64(size)", .tt),
   ("WriteInt32(int32(info.ModTime().Unix()))", .tt), ("WriteInt32(mode)", .tt)]

def senderGuardsOk : Bool := expectedGuards.all fun p => BExpr.equivB (guardOf senderEntry p.1) p.2

theorem schedules_ok : schedulesOk = true := by decide
theorem sender_guards_ok : senderGuardsOk = true := by decide
theorem entry_agrees : entryAgrees clientRecvOpts = true ∧ entryAgrees serverRecvOpts = true := by decide
theorem namelen_agrees : nameLenAgrees clientRecvOpts = true ∧ nameLenAgrees serverRecvOpts = true := by decide
theorem tail_agrees : tailAgrees clientRecvOpts = true ∧ tailAgrees serverRecvOpts = true := by decide

/-- the sender writes the rdev field exactly when the model encoder does (likewise the other optional fields) -/
theorem sender_rdev_is_model (o : Flist.Opts) (mode : Int32) :
    BExpr.eval (senderAtoms o mode) (guardOf senderEntry "WriteInt32(rdev)") = Flist.hasRdev o mode := by
  have h : BExpr.equivB (guardOf senderEntry "WriteInt32(rdev)")
      (.or (.and (.atom (.opt .PreserveDevices)) (.atom .isDev)) (.and (.atom (.opt .PreserveSpecials)) (.atom .isSpecial))) = true := by decide
  rw [BExpr.equivB_sound _ _ h]
  simp [BExpr.eval, senderAtoms, Flist.hasRdev]

theorem sender_link_is_model (o : Flist.Opts) (mode : Int32) :
    BExpr.eval (senderAtoms o mode) (guardOf senderEntry "WriteString(target)") = (o.links && Flist.isLink mode) := by
  have h : BExpr.equivB (guardOf senderEntry "WriteString(target)") (.and (.atom (.opt .PreserveLinks)) (.atom .isLink)) = true := by decide
  rw [BExpr.equivB_sound _ _ h]
  simp [BExpr.eval, senderAtoms]

end FlistCondsSpec
