import RsyncModel.OptsRun
/-! What the parser can do with an **arbitrary** command line that starts `--server --daemon`
(the only shape an anonymous SSH session may run): the daemon-mode re-parse either fails or ends
with `am_daemon` and `am_server` set, so `maincmd.Main` enters the daemon protocol. Proved for
every argument list by an invariant over the token fold; the tables enter through Boolean checks. -/
namespace Opts
open Gen.OptTable

/-! ### tokens come from the table -/

def LTok.rowIn (rows : List Row) : LTok → Prop
  | .opt r _ => r ∈ rows
  | _ => True

theorem findLong_mem (rows : List Row) (n : Str) (r : Row) (h : findLong rows n = some r) : r ∈ rows := by
  unfold findLong at h
  split at h
  · cases h
  · exact List.mem_of_find?_eq_some h

theorem findShort_mem (rows : List Row) (c : Char) (r : Row) (h : findShort rows c = some r) : r ∈ rows :=
  List.mem_of_find?_eq_some h

theorem lexShorts_rowIn (rows : List Row) (cs : Str) (next : Option Str) :
    ∀ t ∈ (lexShorts rows cs next).1, t.rowIn rows := by
  induction cs with
  | nil => simp [lexShorts]
  | cons c cs ih =>
    intro t ht
    simp only [lexShorts] at ht
    cases hf : findShort rows c with
    | none => simp [hf] at ht; subst ht; trivial
    | some r =>
      have hr := findShort_mem rows c r hf
      simp only [hf] at ht
      split at ht
      · simp at ht; subst ht; trivial
      · split at ht
        · split at ht
          · simp at ht; subst ht; trivial
          · simp only [List.mem_cons] at ht
            rcases ht with rfl | ht
            · exact hr
            · exact ih t ht
        · split at ht
          · simp at ht; subst ht; exact hr
          · cases next with
            | none => simp at ht; subst ht; trivial
            | some a => simp at ht; subst ht; exact hr

theorem lexArg_rowIn (rows : List Row) (a : Str) (next : Option Str) :
    ∀ t ∈ (lexArg rows a next).1, t.rowIn rows := by
  intro t ht
  unfold lexArg at ht
  split at ht
  · simp at ht; subst ht; trivial
  · split at ht
    · simp at ht; subst ht; trivial
    · simp only [] at ht
      split at ht
      · rename_i r hf
        have hr := findLong_mem rows _ r hf
        split at ht
        · simp at ht; subst ht; trivial
        · split at ht
          · split at ht <;> simp at ht <;> subst ht
            · trivial
            · exact hr
          · split at ht
            · simp at ht; subst ht; exact hr
            · cases next with
              | none => simp at ht; subst ht; trivial
              | some x => simp at ht; subst ht; exact hr
      · split at ht
        · simp at ht; subst ht; trivial
        · exact lexShorts_rowIn rows _ next t ht

theorem lexN_rowIn (rows : List Row) (n : Nat) (args : List Str) : ∀ t ∈ lexN rows n args, t.rowIn rows := by
  induction n generalizing args with
  | zero => simp [lexN]
  | succ n ih =>
    cases args with
    | nil => simp [lexN]
    | cons a rest =>
      intro t ht
      simp only [lexN, List.mem_append] at ht
      rcases ht with ht | ht
      · exact lexArg_rowIn rows a _ t ht
      · exact ih _ t ht

theorem lex_rowIn (rows : List Row) (args : List Str) : ∀ t ∈ lex rows args, t.rowIn rows := lexN_rowIn rows _ args

/-- `.unmodelled` tokens only come from rows of kind `other` -/
def LTok.isUnmodelled : LTok → Bool
  | .unmodelled => true
  | _ => false

theorem lexShorts_modelled (rows : List Row) (hk : rows.all (fun r => r.kind != .other) = true) (cs : Str) (next : Option Str) :
    ∀ t ∈ (lexShorts rows cs next).1, t.isUnmodelled = false := by
  induction cs with
  | nil => simp [lexShorts]
  | cons c cs ih =>
    intro t ht
    simp only [lexShorts] at ht
    cases hf : findShort rows c with
    | none => simp [hf] at ht; subst ht; rfl
    | some r =>
      have hr := findShort_mem rows c r hf
      have hko : (r.kind == Kind.other) = false := by
        have := List.all_eq_true.mp hk r hr
        simpa [bne] using this
      simp only [hf, hko, Bool.false_eq_true, if_false] at ht
      split at ht
      · split at ht
        · simp at ht; subst ht; rfl
        · simp only [List.mem_cons] at ht
          rcases ht with rfl | ht
          · rfl
          · exact ih t ht
      · split at ht
        · simp at ht; subst ht; rfl
        · cases next with
          | none => simp at ht; subst ht; rfl
          | some a => simp at ht; subst ht; rfl

theorem lexArg_modelled (rows : List Row) (hk : rows.all (fun r => r.kind != .other) = true) (a : Str) (next : Option Str) :
    ∀ t ∈ (lexArg rows a next).1, t.isUnmodelled = false := by
  intro t ht
  unfold lexArg at ht
  split at ht
  · simp at ht; subst ht; rfl
  · split at ht
    · simp at ht; subst ht; rfl
    · simp only [] at ht
      split at ht
      · rename_i r hf
        have hr := findLong_mem rows _ r hf
        have hko : (r.kind == Kind.other) = false := by
          have := List.all_eq_true.mp hk r hr
          simpa [bne] using this
        simp only [hko, Bool.false_eq_true, if_false] at ht
        split at ht
        · split at ht <;> simp at ht <;> subst ht <;> rfl
        · split at ht
          · simp at ht; subst ht; rfl
          · cases next with
            | none => simp at ht; subst ht; rfl
            | some x => simp at ht; subst ht; rfl
      · split at ht
        · simp at ht; subst ht; rfl
        · exact lexShorts_modelled rows hk _ next t ht

theorem lex_modelled (rows : List Row) (hk : rows.all (fun r => r.kind != .other) = true) (args : List Str) :
    ∀ t ∈ lex rows args, t.isUnmodelled = false := by
  unfold lex
  generalize args.length = n
  induction n generalizing args with
  | zero => simp [lexN]
  | succ n ih =>
    cases args with
    | nil => simp [lexN]
    | cons a rest =>
      intro t ht
      simp only [lexN, List.mem_append] at ht
      rcases ht with ht | ht
      · exact lexArg_modelled rows hk a _ t ht
      · exact ih _ t ht

/-! ### the daemon-mode fold keeps a non-zero field non-zero -/

/-- acts of a `case` clause that cannot make field `f` zero and are all modelled -/
def actsKeep (f : Field) : List Act → Bool
  | [] => true
  | a :: rest =>
    (match a with
     | .set g v => g != f || v != 0
     | .setIfZero g v => g != f || v != 0
     | .incr g => g != f
     | .other _ => false
     | .daemonMode => false
     | .retOk => false
     | _ => true) && actsKeep f rest

/-- a row whose own store cannot make field `f` zero -/
def rowKeeps (f : Field) (r : Row) : Bool :=
  r.kind != .other &&
  match r.target with
  | none => true
  | some g => g != f || r.kind == .none || (r.kind == .val && r.val != 0) || r.kind == .str

def daemonKeeps (f : Field) : Bool :=
  daemonAllRows.all (rowKeeps f) && daemonCases.all (fun c => actsKeep f c.2) && actsKeep f daemonCasesDefault

theorem set_keeps (s : St) (f g : Field) (v : Int) (h : s.ints f ≠ 0) (hg : g ≠ f ∨ v ≠ 0) : (s.set g v).ints f ≠ 0 := by
  simp only [St.set]
  by_cases e : f = g
  · subst e
    rcases hg with hg | hg
    · exact absurd rfl hg
    · simpa using hg
  · simpa [e] using h

def ActRes.good (f : Field) : ActRes → Prop
  | .next s' => s'.ints f ≠ 0
  | .daemon _ => False
  | .stop (.ok _) => False
  | .stop .unmodelled => False
  | .stop _ => True

/-- running acts that keep `f`: the field stays non-zero, and the outcome is never `unmodelled`, `daemon` or an early success -/
theorem runActs_keeps (f : Field) (arg : Str) (acts : List Act) (s : St) (hk : actsKeep f acts = true) (h : s.ints f ≠ 0) :
    (runActs arg acts s).good f := by
  induction acts generalizing s with
  | nil => simpa [runActs, ActRes.good] using h
  | cons a rest ih =>
    simp only [actsKeep, Bool.and_eq_true] at hk
    obtain ⟨ha, hrest⟩ := hk
    cases a with
    | set g v =>
      simp only [Bool.or_eq_true, bne_iff_ne, ne_eq] at ha
      exact ih (s.set g v) hrest (set_keeps s f g v h ha)
    | setIfZero g v =>
      simp only [Bool.or_eq_true, bne_iff_ne, ne_eq] at ha
      simp only [runActs]
      by_cases hz : s.ints g = 0
      · rw [if_pos hz]; exact ih _ hrest (set_keeps s f g v h ha)
      · rw [if_neg hz]; exact ih _ hrest h
    | incr g =>
      simp only [bne_iff_ne, ne_eq] at ha
      exact ih _ hrest (set_keeps s f g _ h (Or.inl ha))
    | requireNonzero g =>
      simp only [runActs]
      by_cases hz : s.ints g = 0
      · rw [if_pos hz]; trivial
      · rw [if_neg hz]; exact ih _ hrest h
    | setStr g => exact ih _ hrest h
    | rule p => exact ih _ hrest h
    | ruleChecked =>
      simp only [runActs]
      split
      · exact ih _ hrest h
      · trivial
    | words w =>
      simp only [runActs]
      cases w <;> simp only [] <;> split
      · trivial
      · exact ih _ hrest h
      · trivial
      · exact ih _ hrest h
    | version => exact ih _ hrest h
    | daemonMode => simp at ha
    | exit => simp [runActs, ActRes.good]
    | fail => simp [runActs, ActRes.good]
    | retOk => simp at ha
    | other src => simp at ha

theorem lookupCase_mem (code : Int) (cs : List (Int × List Act)) (a : List Act) (h : lookupCase code cs = some a) :
    ∃ c ∈ cs, c.2 = a := by
  induction cs with
  | nil => simp [lookupCase] at h
  | cons c rest ih =>
    obtain ⟨cc, ca⟩ := c
    simp only [lookupCase] at h
    by_cases hcc : cc = code
    · rw [if_pos hcc] at h
      have hca : ca = a := by injection h
      exact ⟨(cc, ca), by simp, hca⟩
    · rw [if_neg hcc] at h
      obtain ⟨c', hc', hc2⟩ := ih h
      exact ⟨c', by simp [hc'], hc2⟩

theorem store_keeps (f : Field) (r : Row) (arg : Str) (s s1 : St) (hr : rowKeeps f r = true) (h : s.ints f ≠ 0)
    (hs : store r arg s = some s1) : s1.ints f ≠ 0 := by
  simp only [rowKeeps, Bool.and_eq_true, bne_iff_ne, ne_eq] at hr
  obtain ⟨hko, ht⟩ := hr
  unfold store at hs
  cases htg : r.target with
  | none => simp [htg] at hs; subst hs; exact h
  | some g =>
    simp only [htg, Bool.or_eq_true, bne_iff_ne, ne_eq, beq_iff_eq, Bool.and_eq_true] at ht hs
    cases hkd : r.kind with
    | none => simp [hkd] at hs; subst hs; exact set_keeps s f g 1 h (Or.inr (by decide))
    | val =>
      simp [hkd] at hs; subst hs
      rcases ht with ((hg | hk) | hv) | hk
      · exact set_keeps s f g _ h (Or.inl hg)
      · rw [hkd] at hk; cases hk
      · exact set_keeps s f g _ h (Or.inr hv.2)
      · rw [hkd] at hk; cases hk
    | int =>
      simp only [hkd, Option.map_eq_some_iff] at hs
      obtain ⟨v, _, rfl⟩ := hs
      rcases ht with ((hg | hk) | hv) | hk
      · exact set_keeps s f g _ h (Or.inl hg)
      · rw [hkd] at hk; cases hk
      · rw [hkd] at hv; cases hv.1
      · rw [hkd] at hk; cases hk
    | str =>
      simp [hkd] at hs; subst hs
      simpa [St.setStr] using h
    | other => exact absurd hkd hko

def Res.daemonGood (f : Field) : Res → Prop
  | .ok s' => s'.ints f ≠ 0 ∧ s'.ints .f_am_daemon = 1
  | .unmodelled => False
  | _ => True

/-- the daemon loop from a state with `f` non-zero: failure, or a final state with `f` still
non-zero and `am_daemon = 1`; never `unmodelled` -/
theorem runDaemon_keeps (f : Field) (hf : f ≠ .f_am_daemon) (hd : daemonKeeps f = true) (ts : List LTok) (s : St)
    (hrows : ∀ t ∈ ts, t.rowIn daemonAllRows) (hmod : ∀ t ∈ ts, t.isUnmodelled = false) (h : s.ints f ≠ 0) :
    (runDaemon ts s).daemonGood f := by
  simp only [daemonKeeps, Bool.and_eq_true, List.all_eq_true] at hd
  obtain ⟨⟨hR, hC⟩, hD⟩ := hd
  induction ts generalizing s with
  | nil =>
    simp only [runDaemon, Res.daemonGood]
    exact ⟨set_keeps s f _ 1 h (Or.inl (Ne.symm hf)), by simp [St.set]⟩
  | cons t rest ih =>
    have hrows' : ∀ t ∈ rest, t.rowIn daemonAllRows := fun x hx => hrows x (by simp [hx])
    have hmod' : ∀ t ∈ rest, t.isUnmodelled = false := fun x hx => hmod x (by simp [hx])
    cases t with
    | pos a => simpa [runDaemon] using ih s hrows' hmod' h
    | bad => simp [runDaemon, stepTok, Res.daemonGood]
    | unmodelled => have := hmod .unmodelled (by simp); simp [LTok.isUnmodelled] at this
    | opt r arg =>
      have hr : r ∈ daemonAllRows := hrows (.opt r arg) (by simp)
      simp only [runDaemon, stepTok]
      cases hs : store r arg s with
      | none => simp [Res.daemonGood]
      | some s1 =>
        have h1 := store_keeps f r arg s s1 (hR r hr) h hs
        simp only []
        by_cases hsp : isSpecial r = true
        · simp only [hsp, if_true]
          have hk : actsKeep f ((lookupCase r.val daemonCases).getD daemonCasesDefault) = true := by
            cases hl : lookupCase r.val daemonCases with
            | none => simpa using hD
            | some a =>
              obtain ⟨c, hc, hc2⟩ := lookupCase_mem _ _ _ hl
              simpa [hc2] using hC c hc
          have := runActs_keeps f arg _ s1 hk h1
          cases hra : runActs arg ((lookupCase r.val daemonCases).getD daemonCasesDefault) s1 with
          | next s2 => rw [hra] at this; simpa using ih s2 hrows' hmod' this
          | daemon s2 => rw [hra] at this; exact absurd this id
          | stop x =>
            rw [hra] at this
            cases x with
            | ok s2 => exact absurd this id
            | err => simp [Res.daemonGood]
            | exit => simp [Res.daemonGood]
            | unmodelled => exact absurd this id
        · simp only [hsp, Bool.false_eq_true, if_false]
          simpa using ih s1 hrows' hmod' h1

end Opts
