/-! Wire integers as the Go code writes/reads them (rsyncwire/wire.go), over byte lists. -/
namespace Wire
abbrev Bytes := List UInt8

/-- little-endian bytes of a natural number < 2^(8n) -/
def leBytes : Nat → Nat → Bytes
  | 0, _ => []
  | n + 1, v => UInt8.ofNat (v % 256) :: leBytes n (v / 256)

def leVal : Bytes → Nat
  | [] => 0
  | b :: bs => b.toNat + 256 * leVal bs

theorem leBytes_length (n v : Nat) : (leBytes n v).length = n := by
  induction n generalizing v with
  | zero => rfl
  | succ n ih => simp [leBytes, ih]

theorem leVal_leBytes (n v : Nat) (h : v < 256 ^ n) : leVal (leBytes n v) = v := by
  induction n generalizing v with
  | zero => simp at h; simp [leBytes, leVal, h]
  | succ n ih =>
    have hdiv : v / 256 < 256 ^ n := by
      rw [Nat.pow_succ] at h
      exact Nat.div_lt_of_lt_mul (by rw [Nat.mul_comm]; exact h)
    simp only [leBytes, leVal, ih _ hdiv]
    have : (UInt8.ofNat (v % 256)).toNat = v % 256 := by
      simp
    rw [this]; omega

/-- int32 on the wire: two's complement, little endian -/
def encI32 (v : Int32) : Bytes := leBytes 4 v.toUInt32.toNat
def decI32 (bs : Bytes) : Option (Int32 × Bytes) :=
  if bs.length < 4 then none else some ((UInt32.ofNat (leVal (bs.take 4))).toInt32, bs.drop 4)

theorem decI32_encI32 (v : Int32) (rest : Bytes) : decI32 (encI32 v ++ rest) = some (v, rest) := by
  have hl : (encI32 v).length = 4 := leBytes_length _ _
  have hv : v.toUInt32.toNat < 256 ^ 4 := by have := v.toUInt32.toNat_lt; omega
  unfold decI32
  simp only [List.length_append, hl]
  have h1 : (encI32 v ++ rest).take 4 = encI32 v := by
    rw [List.take_append_of_le_length (by omega)]; simp [← hl]
  have h2 : (encI32 v ++ rest).drop 4 = rest := by
    rw [List.drop_append_of_le_length (by omega)]; simp [← hl]
  rw [if_neg (by omega), h1, h2]
  simp only [encI32, leVal_leBytes 4 _ hv]
  simp

/-- int64 two's complement little endian -/
def encI64raw (v : Int64) : Bytes := leBytes 8 v.toUInt64.toNat
def decI64raw (bs : Bytes) : Option (Int64 × Bytes) :=
  if bs.length < 8 then none else some ((UInt64.ofNat (leVal (bs.take 8))).toInt64, bs.drop 8)

theorem decI64raw_encI64raw (v : Int64) (rest : Bytes) : decI64raw (encI64raw v ++ rest) = some (v, rest) := by
  have hl : (encI64raw v).length = 8 := leBytes_length _ _
  have hv : v.toUInt64.toNat < 256 ^ 8 := by have := v.toUInt64.toNat_lt; omega
  unfold decI64raw
  simp only [List.length_append, hl]
  have h1 : (encI64raw v ++ rest).take 8 = encI64raw v := by
    rw [List.take_append_of_le_length (by omega)]; simp [← hl]
  have h2 : (encI64raw v ++ rest).drop 8 = rest := by
    rw [List.drop_append_of_le_length (by omega)]; simp [← hl]
  rw [if_neg (by omega), h1, h2]
  simp only [encI64raw, leVal_leBytes 8 _ hv]
  simp

/-- rsync "long": an int32 if 0 ≤ v ≤ 0x7FFFFFFF, else int32 −1 followed by the int64 (wire.go:108-117, 177-195) -/
def encLong (v : Int64) : Bytes :=
  if 0 ≤ v ∧ v ≤ 0x7FFFFFFF then encI32 v.toInt32 else encI32 (-1) ++ encI64raw v

def decLong (bs : Bytes) : Option (Int64 × Bytes) :=
  match decI32 bs with
  | none => none
  | some (d, rest) => if d != -1 then some (d.toInt64, rest) else decI64raw rest

theorem decLong_encLong (v : Int64) (rest : Bytes) : decLong (encLong v ++ rest) = some (v, rest) := by
  by_cases h : 0 ≤ v ∧ v ≤ 0x7FFFFFFF
  · simp only [encLong, if_pos h, decLong, decI32_encI32]
    obtain ⟨h0, h1⟩ := h
    rw [Int64.le_iff_toInt_le] at h0 h1
    simp at h0 h1
    have hb : v.toInt.bmod 4294967296 = v.toInt := by
      simp only [Int.bmod]; split <;> omega
    have hne : (v.toInt32 != -1) = true := by
      simp only [bne_iff_ne, ne_eq]
      intro hc
      have := congrArg Int32.toInt hc
      simp [Int64.toInt_toInt32, hb] at this
      omega
    simp only [hne, if_true]
    congr 2
    apply Int64.toInt_inj.mp
    simp [Int64.toInt_toInt32, hb]
  · simp only [encLong, if_neg h, decLong, List.append_assoc, decI32_encI32]
    simp [decI64raw_encI64raw]

end Wire
