import RsyncModel.Mux
/-! Theorems about the multiplex model: header round trip, frame-stream parsing,
and the client reader as a function of the concatenated data payloads only. -/
namespace Mux
open Wire

theorem bits_core (x l : Nat) (hx : x < 256) (h : l < 2^24) :
    (x <<< 24 % 4294967296 ||| l) >>> 24 = x ∧ (x <<< 24 % 4294967296 ||| l) &&& 16777215 = l := by
  have e1 : x <<< 24 % 4294967296 = x <<< 24 := by
    rw [Nat.shiftLeft_eq]; apply Nat.mod_eq_of_lt; omega
  rw [e1, ← Nat.shiftLeft_add_eq_or_of_lt h]
  have : (16777215 : Nat) = 2^24 - 1 := by decide
  rw [this, Nat.and_two_pow_sub_one_eq_mod, Nat.shiftRight_eq_div_pow, Nat.shiftLeft_eq]
  omega

theorem hdr_bits (x : UInt8) (l : Nat) (h : l < 2^24) :
    ((((x.toUInt32 <<< 24) ||| UInt32.ofNat l) >>> 24).toUInt8 = x) ∧
    ((((x.toUInt32 <<< 24) ||| UInt32.ofNat l) &&& 0x00FFFFFF).toNat = l) := by
  have hl : l < 4294967296 := by omega
  have hx := x.toNat_lt
  have c := bits_core x.toNat l (by omega) h
  constructor
  · apply UInt8.toNat_inj.mp
    simp [UInt32.toNat_shiftRight, UInt32.toNat_or, UInt32.toNat_shiftLeft, Nat.mod_eq_of_lt hl]
    rw [c.1]; omega
  · simp [UInt32.toNat_and, UInt32.toNat_or, UInt32.toNat_shiftLeft, Nat.mod_eq_of_lt hl]
    exact c.2

/-- the size limit is below the 24-bit length field (regenerated constant) -/
theorem maxMsg_lt : maxMsg < 2^24 := by decide

/-- header round trip: tag and length are recovered from the 4 header bytes (`len < 2²⁴`) -/
theorem header_roundtrip (t : UInt8) (l : Nat) (h : l < 2^24) :
    ((header t l) >>> 24).toUInt8 - mplexBase = t ∧ ((header t l) &&& 0x00FFFFFF).toNat = l := by
  unfold header
  have := hdr_bits (mplexBase + t) l h
  rw [this.1, this.2]
  constructor
  · rw [UInt8.add_comm]; exact UInt8.add_sub_cancel t mplexBase
  · rfl

theorem le4_roundtrip (v : UInt32) (rest : Bytes) :
    UInt32.ofNat (leVal ((leBytes 4 v.toNat ++ rest).take 4)) = v ∧ (leBytes 4 v.toNat ++ rest).drop 4 = rest := by
  have hl : (leBytes 4 v.toNat).length = 4 := leBytes_length _ _
  have hv : v.toNat < 256 ^ 4 := by have := v.toNat_lt; omega
  constructor
  · rw [List.take_append_of_le_length (by omega), List.take_of_length_le (by omega), leVal_leBytes 4 _ hv]; simp
  · rw [List.drop_append_of_le_length (by omega), List.drop_of_length_le (by omega)]; simp

/-- one well-formed frame in front of any stream is parsed as that frame -/
theorem parse_encFrame (f : Frame) (rest : Bytes) (h : f.payload.length ≤ maxMsg) :
    parse (encFrame f ++ rest) = (f :: (parse rest).1, (parse rest).2) := by
  have hl24 : f.payload.length < 2^24 := Nat.lt_of_le_of_lt h maxMsg_lt
  have hlen : (leBytes 4 (header f.tag f.payload.length).toNat).length = 4 := leBytes_length _ _
  have e : encFrame f ++ rest = leBytes 4 (header f.tag f.payload.length).toNat ++ (f.payload ++ rest) := by
    simp [encFrame]
  have hh := le4_roundtrip (header f.tag f.payload.length) (f.payload ++ rest)
  have hr := header_roundtrip f.tag f.payload.length hl24
  have hhdr : hdrOf (encFrame f ++ rest) = header f.tag f.payload.length := by
    unfold hdrOf; rw [e, hh.1]
  have htag : tagOf (encFrame f ++ rest) = f.tag := by unfold tagOf; rw [hhdr, hr.1]
  have hlenOf : lenOf (encFrame f ++ rest) = f.payload.length := by unfold lenOf; rw [hhdr, hr.2]
  have hdrop : (encFrame f ++ rest).drop 4 = f.payload ++ rest := by rw [e, hh.2]
  rw [parse]
  have hne : encFrame f ++ rest ≠ [] := by
    intro hc
    have := congrArg List.length hc
    simp [encFrame, hlen] at this
  have hge : ¬ (encFrame f ++ rest).length < 4 := by simp [encFrame, hlen]
  rw [if_neg hne, if_neg hge, hlenOf, htag, hdrop, if_neg (by omega), if_neg (by simp)]
  simp

def encFrames (fs : List Frame) : Bytes := fs.flatMap encFrame

/-- `Conversely every frame a server emits is well formed … and carries its payload unchanged`:
any list of frames within the size limit is recovered exactly from its encoding. -/
theorem parse_encFrames (fs : List Frame) (rest : Bytes) (h : ∀ f ∈ fs, f.payload.length ≤ maxMsg) :
    parse (encFrames fs ++ rest) = (fs ++ (parse rest).1, (parse rest).2) := by
  induction fs with
  | nil => simp [encFrames]
  | cons f fs ih =>
    have hf := h f (by simp)
    have ih' := ih (fun g hg => h g (by simp [hg]))
    simp only [encFrames, List.flatMap_cons, List.append_assoc] at *
    rw [parse_encFrame f _ hf, ih']
    simp

theorem parse_nil : parse [] = ([], End.eof) := by rw [parse]; simp

/-- every frame `parse` yields respects the size limit, whatever the bytes are -/
theorem parse_payload_le (bs : Bytes) : ∀ f ∈ (parse bs).1, f.payload.length ≤ maxMsg := by
  induction bs using parse.induct with
  | case1 => rw [parse]; simp
  | case2 x h0 h => rw [parse]; simp [h0, h]
  | case3 x h0 h hlen => rw [parse]; simp [h0, h, hlen]
  | case4 x h0 h hlen hshort => rw [parse]; rw [if_neg h0, if_neg h, if_neg hlen, if_pos hshort]; simp
  | case5 x h0 h hlen hshort ih =>
    rw [parse]; rw [if_neg h0, if_neg h, if_neg hlen, if_neg hshort]
    intro f hf
    simp only [List.mem_cons] at hf
    rcases hf with hf | hf
    · subst hf; simp only [List.length_take]; omega
    · exact ih f hf

/-! ### the client reader -/

/-- concatenation of the data payloads (info frames contribute nothing) -/
def dataOf : List Frame → Bytes
  | [] => []
  | f :: fs => if f.tag == tagData then f.payload ++ dataOf fs else dataOf fs

/-- frames a well-behaved server sends before the end/error: data or info, within the limit -/
def Benign (fs : List Frame) : Prop :=
  ∀ f ∈ fs, (f.tag = tagData ∨ f.tag = tagInfo) ∧ f.payload.length ≤ maxMsg

def view (st : St) : Bytes := st.buf ++ dataOf st.frames

theorem tags_distinct : tagData ≠ tagInfo ∧ tagData ≠ tagError ∧ tagInfo ≠ tagError := by decide

theorem readFull_zero (bufSize : Nat) (acc : Bytes) (st : St) : readFull bufSize 0 acc st = (Res.ok acc, st) := by
  unfold readFull; simp

/-- **No buffer panic**: when the `bufio` size is at least the frame size limit, `Read` never reaches
`panic("not enough buffer space!")`, for any frames within the limit (hence for any byte stream,
`parse_payload_le`), any buffered bytes and any request size. -/
theorem readFull_no_panic (bufSize : Nat) (hb : maxMsg ≤ bufSize) (k : Nat) (acc : Bytes) (st : St)
    (hf : ∀ f ∈ st.frames, f.payload.length ≤ maxMsg) :
    (readFull bufSize k acc st).1 ≠ Res.panic := by
  induction k, acc, st using readFull.induct bufSize with
  | case1 acc st => rw [readFull_zero]; simp
  | case2 k acc hk b bs frames fin ih => rw [readFull]; simp only [hk, if_false]; exact ih hf
  | case3 k acc hk fin => rw [readFull]; simp only [hk, if_false]; cases fin <;> simp [endRes]
  | case4 k acc hk f fs fin he => rw [readFull]; simp [hk, he]
  | case5 k acc hk f fs fin he hi ih =>
    rw [readFull]; simp only [hk, he, hi, if_false, if_true]
    exact ih (fun g hg => hf g (by simp [hg]))
  | case6 k acc hk f fs fin he hi hd => rw [readFull]; simp [hk, he, hi, hd]
  | case7 k acc hk f fs fin he hi hd hge hlt =>
    exfalso
    have := hf f (by simp)
    omega
  | case8 k acc hk f fs fin he hi hd hge hlt ih =>
    rw [readFull]; simp only [hk, he, hi, hd, hge, hlt, if_false, if_true]
    exact ih (fun g hg => hf g (by simp [hg]))
  | case9 k acc hk f fs fin he hi hd hge hlt =>
    exfalso
    have := hf f (by simp)
    omega
  | case10 k acc hk f fs fin he hi hd hge hlt ih =>
    rw [readFull]; simp only [hk, he, hi, hd, hge, hlt, if_false, if_true]
    exact ih (fun g hg => hf g (by simp [hg]))

theorem take_split {α} (l d : List α) (k : Nat) :
    l.take (min k l.length) ++ (l.drop (min k l.length) ++ d).take (k - min k l.length) = (l ++ d).take k := by
  by_cases hc : k ≤ l.length
  · rw [Nat.min_eq_left hc, Nat.sub_self, List.take_append_of_le_length hc]; simp
  · rw [Nat.min_eq_right (by omega)]
    simp [List.take_append, List.take_of_length_le (l := l) (i := k) (by omega)]

theorem drop_split {α} (l d : List α) (k : Nat) :
    (l.drop (min k l.length) ++ d).drop (k - min k l.length) = (l ++ d).drop k := by
  by_cases hc : k ≤ l.length
  · rw [Nat.min_eq_left hc, Nat.sub_self, List.drop_append_of_le_length hc]; simp
  · rw [Nat.min_eq_right (by omega)]
    simp [List.drop_append, List.drop_of_length_le (l := l) (i := k) (by omega)]

theorem benign_tail {f : Frame} {fs : List Frame} (h : Benign (f :: fs)) : Benign fs :=
  fun g hg => h g (by simp [hg])

/-- **Framing transparency**: with a buffer at least as large as the frame limit, a `ReadFull` of `k`
bytes returns exactly the next `k` bytes of the *concatenated data payloads* (`view`), and leaves the
reader in a state whose view is the rest — whatever the frame boundaries are, wherever info frames
sit, and whether bytes came through the internal buffer or directly. The client is therefore a
function of `dataOf frames` alone. -/
theorem readFull_spec (bufSize : Nat) (hb : maxMsg ≤ bufSize) (k : Nat) (acc : Bytes) (st : St)
    (hben : Benign st.frames) (hk : k ≤ (view st).length) :
    ∃ st', readFull bufSize k acc st = (Res.ok (acc ++ (view st).take k), st') ∧
      view st' = (view st).drop k ∧ Benign st'.frames ∧ st'.fin = st.fin := by
  induction k, acc, st using readFull.induct bufSize with
  | case1 acc st => exact ⟨st, by simp [readFull_zero], by simp, hben, rfl⟩
  | case2 k acc hk0 b bs frames fin ih =>
    rw [readFull]; simp only [hk0, if_false]
    have hlen : k ≤ (bs.length + 1) + (dataOf frames).length := by
      simpa [view, Nat.add_comm, Nat.add_left_comm, Nat.add_assoc] using hk
    obtain ⟨st', h1, h2, h3, h4⟩ := ih hben (by
      simp only [view, List.length_append, List.length_drop, List.length_cons]; omega)
    refine ⟨st', ?_, ?_, h3, h4⟩
    · rw [h1]; congr 2
      simp only [view, List.append_assoc]
      congr 1
      exact take_split (b :: bs) (dataOf frames) k
    · rw [h2]
      simp only [view]
      exact drop_split (b :: bs) (dataOf frames) k
  | case3 k acc hk0 fin => simp [view, dataOf] at hk; omega
  | case4 k acc hk0 f fs fin he =>
    exfalso
    have := (hben f (by simp)).1
    have hd := tags_distinct
    simp only [beq_iff_eq] at he
    rcases this with h | h <;> (rw [he] at h; simp_all)
  | case5 k acc hk0 f fs fin he hi ih =>
    rw [readFull]; simp only [hk0, he, hi, if_false, if_true]
    have hnd : (f.tag == tagData) = false := by
      simp only [beq_iff_eq] at hi
      rw [hi]; have := tags_distinct.1; simp [beq_eq_false_iff_ne]; exact fun h => this h.symm
    have hv : view ⟨[], f :: fs, fin⟩ = view ⟨[], fs, fin⟩ := by simp [view, dataOf, hnd]
    rw [hv] at hk ⊢
    exact ih (benign_tail hben) hk
  | case6 k acc hk0 f fs fin he hi hd =>
    exfalso
    have := (hben f (by simp)).1
    simp only [beq_iff_eq, bne_iff_ne, ne_eq] at hi hd
    rcases this with h | h
    · exact hd h
    · exact hi h
  | case7 k acc hk0 f fs fin he hi hd hge hlt =>
    exfalso
    have := (hben f (by simp)).2
    omega
  | case8 k acc hk0 f fs fin he hi hd hge hlt ih =>
    rw [readFull]; simp only [hk0, he, hi, hd, hge, hlt, if_false, if_true]
    have hdt : (f.tag == tagData) = true := by simpa using hd
    have hv : view ⟨[], f :: fs, fin⟩ = f.payload ++ view ⟨[], fs, fin⟩ := by simp [view, dataOf, hdt]
    rw [hv] at hk ⊢
    obtain ⟨st', h1, h2, h3, h4⟩ := ih (benign_tail hben) (by
      simp only [List.length_append] at hk; omega)
    refine ⟨st', ?_, ?_, h3, h4⟩
    · rw [h1]; congr 2
      rw [List.take_append, List.take_of_length_le (l := f.payload) (i := k) (by omega)]; simp
    · rw [h2, List.drop_append, List.drop_of_length_le (l := f.payload) (i := k) (by omega)]; simp
  | case9 k acc hk0 f fs fin he hi hd hge hlt =>
    exfalso
    have := (hben f (by simp)).2
    omega
  | case10 k acc hk0 f fs fin he hi hd hge hlt ih =>
    rw [readFull]; simp only [hk0, he, hi, hd, hge, hlt, if_false, if_true]
    have hdt : (f.tag == tagData) = true := by simpa using hd
    have hv : view ⟨[], f :: fs, fin⟩ = view ⟨f.payload, fs, fin⟩ := by simp [view, dataOf, hdt]
    rw [hv] at hk ⊢
    exact ih (benign_tail hben) hk

end Mux
