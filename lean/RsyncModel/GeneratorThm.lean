import RsyncModel.Generator
/-! Field-wise facts about `setUid` / `setPerms` used by the C10, C11, C12 theorems. -/
namespace Rx

@[simp] theorem setUid_kind (o : Opts) (e : Entry) (n : Node) : (setUid o e n).kind = n.kind := rfl
@[simp] theorem setUid_size (o : Opts) (e : Entry) (n : Node) : (setUid o e n).size = n.size := rfl
@[simp] theorem setUid_sum (o : Opts) (e : Entry) (n : Node) : (setUid o e n).sum = n.sum := rfl
@[simp] theorem setUid_mtime (o : Opts) (e : Entry) (n : Node) : (setUid o e n).mtime = n.mtime := rfl
@[simp] theorem setUid_perm (o : Opts) (e : Entry) (n : Node) : (setUid o e n).perm = n.perm := rfl
@[simp] theorem setUid_target (o : Opts) (e : Entry) (n : Node) : (setUid o e n).target = n.target := rfl
@[simp] theorem setUid_rdev (o : Opts) (e : Entry) (n : Node) : (setUid o e n).rdev = n.rdev := rfl

theorem setUid_uid_root (o : Opts) (e : Entry) (n : Node) (hu : o.uid = true) (hr : o.amRoot = true) :
    (setUid o e n).uid = e.uid := by
  simp only [setUid, hu, hr, Bool.true_and]
  by_cases h : n.uid = e.uid <;> simp [h]

theorem setUid_gid_root (o : Opts) (e : Entry) (n : Node) (hg : o.gid = true) (hr : o.amRoot = true) :
    (setUid o e n).gid = e.gid := by
  simp only [setUid, hg, hr, Bool.true_and, Bool.true_or]
  by_cases h : n.gid = e.gid <;> simp [h]

theorem setPerms_dry (o : Opts) (e : Entry) (k : Kind) (p : Nat) (n : Node) (h : o.dryRun = true) :
    setPerms o e k p n = n := by simp [setPerms, h]

theorem setPerms_kind (o : Opts) (e : Entry) (k : Kind) (p : Nat) (n : Node) : (setPerms o e k p n).kind = n.kind := by
  unfold setPerms; split
  · rfl
  · simp only; split <;> (split <;> rfl)

theorem setPerms_size (o : Opts) (e : Entry) (k : Kind) (p : Nat) (n : Node) : (setPerms o e k p n).size = n.size := by
  unfold setPerms; split
  · rfl
  · simp only; split <;> (split <;> rfl)

theorem setPerms_sum (o : Opts) (e : Entry) (k : Kind) (p : Nat) (n : Node) : (setPerms o e k p n).sum = n.sum := by
  unfold setPerms; split
  · rfl
  · simp only; split <;> (split <;> rfl)

theorem setPerms_target (o : Opts) (e : Entry) (k : Kind) (p : Nat) (n : Node) : (setPerms o e k p n).target = n.target := by
  unfold setPerms; split
  · rfl
  · simp only; split <;> (split <;> rfl)

theorem setPerms_rdev (o : Opts) (e : Entry) (k : Kind) (p : Nat) (n : Node) : (setPerms o e k p n).rdev = n.rdev := by
  unfold setPerms; split
  · rfl
  · simp only; split <;> (split <;> rfl)

/-- `-t` on a non-symlink: the modification time ends up as the entry's (to the second) -/
theorem setPerms_mtime (o : Opts) (e : Entry) (k : Kind) (p : Nat) (n : Node)
    (hd : o.dryRun = false) (ht : o.times = true) (hk : k ≠ .lnk) : (setPerms o e k p n).mtime = e.mtime := by
  have hk' : (k != Kind.lnk) = true := by simpa using hk
  simp only [setPerms, hd, Bool.false_eq_true, if_false, ht, hk', Bool.true_and]
  by_cases hm : n.mtime = e.mtime <;> simp [hm]

/-- without `-t` the modification time is left alone -/
theorem setPerms_mtime_keep (o : Opts) (e : Entry) (k : Kind) (p : Nat) (n : Node)
    (ht : o.times = false) : (setPerms o e k p n).mtime = n.mtime := by
  unfold setPerms; split
  · rfl
  · simp [ht]; split <;> rfl

/-- a non-symlink gets exactly the requested permission bits -/
theorem setPerms_perm (o : Opts) (e : Entry) (k : Kind) (p : Nat) (n : Node)
    (hd : o.dryRun = false) (hk : k ≠ .lnk) : (setPerms o e k p n).perm = p := by
  have hk' : (k != Kind.lnk) = true := by simpa using hk
  simp [setPerms, hd, hk']

theorem setPerms_uid_root (o : Opts) (e : Entry) (k : Kind) (p : Nat) (n : Node)
    (hd : o.dryRun = false) (hu : o.uid = true) (hr : o.amRoot = true) : (setPerms o e k p n).uid = e.uid := by
  simp only [setPerms, hd, Bool.false_eq_true, if_false]
  split <;> exact setUid_uid_root o e _ hu hr

theorem setPerms_gid_root (o : Opts) (e : Entry) (k : Kind) (p : Nat) (n : Node)
    (hd : o.dryRun = false) (hg : o.gid = true) (hr : o.amRoot = true) : (setPerms o e k p n).gid = e.gid := by
  simp only [setPerms, hd, Bool.false_eq_true, if_false]
  split <;> exact setUid_gid_root o e _ hg hr

end Rx
