/-! MD4 (RFC 1320), executable. Used only by the model driver to compute the strong and whole-file
checksums; every theorem quantifies over an arbitrary hash function instead. Validated against
github.com/mmcloughlin/md4 by the `md4` correspondence op. -/
namespace MD4

abbrev Bytes := List UInt8

def rotl (x : UInt32) (s : UInt32) : UInt32 := (x <<< s) ||| (x >>> (32 - s))

def fF (x y z : UInt32) : UInt32 := (x &&& y) ||| ((~~~x) &&& z)
def fG (x y z : UInt32) : UInt32 := (x &&& y) ||| (x &&& z) ||| (y &&& z)
def fH (x y z : UInt32) : UInt32 := x ^^^ y ^^^ z

structure St where
  a : UInt32
  b : UInt32
  c : UInt32
  d : UInt32

def init : St := ⟨0x67452301, 0xefcdab89, 0x98badcfe, 0x10325476⟩

def le32 (b0 b1 b2 b3 : UInt8) : UInt32 :=
  b0.toUInt32 ||| (b1.toUInt32 <<< 8) ||| (b2.toUInt32 <<< 16) ||| (b3.toUInt32 <<< 24)

def words : Bytes → List UInt32
  | b0 :: b1 :: b2 :: b3 :: r => le32 b0 b1 b2 b3 :: words r
  | _ => []

/-- one step: `a = rotl(a + f(b,c,d) + x + k, s)` then rotate the registers -/
def stepR (f : UInt32 → UInt32 → UInt32 → UInt32) (k : UInt32) (st : St) (x : UInt32) (s : UInt32) : St :=
  ⟨st.d, rotl (st.a + f st.b st.c st.d + x + k) s, st.b, st.c⟩

def round (f : UInt32 → UInt32 → UInt32 → UInt32) (k : UInt32) (order : List Nat) (shifts : List UInt32)
    (x : Array UInt32) (st : St) : St :=
  (order.zip (shifts ++ shifts ++ shifts ++ shifts)).foldl (fun st p => stepR f k st (x.getD p.1 0) p.2) st

def block (st : St) (x : Array UInt32) : St :=
  let s1 := round fF 0 [0,1,2,3,4,5,6,7,8,9,10,11,12,13,14,15] [3,7,11,19] x st
  let s2 := round fG 0x5a827999 [0,4,8,12,1,5,9,13,2,6,10,14,3,7,11,15] [3,5,9,13] x s1
  let s3 := round fH 0x6ed9eba1 [0,8,4,12,2,10,6,14,1,9,5,13,3,11,7,15] [3,9,11,15] x s2
  ⟨st.a + s3.a, st.b + s3.b, st.c + s3.c, st.d + s3.d⟩

def leBytes32 (v : UInt32) : Bytes :=
  [v.toUInt8, (v >>> 8).toUInt8, (v >>> 16).toUInt8, (v >>> 24).toUInt8]

def leBytes64 (v : Nat) : Bytes :=
  (List.range 8).map fun i => UInt8.ofNat ((v / 256 ^ i) % 256)

def pad (n : Nat) : Bytes :=
  let zeros := (55 + 64 - n % 64) % 64
  0x80 :: List.replicate zeros 0 ++ leBytes64 (n * 8)

/-- process a whole number of 64-byte blocks -/
def blocks (st : St) (bs : Bytes) (fuel : Nat) : St :=
  match fuel with
  | 0 => st
  | fuel + 1 =>
    if bs.length < 64 then st
    else blocks (block st (words (bs.take 64)).toArray) (bs.drop 64) fuel

def sum (msg : Bytes) : Bytes :=
  let m := msg ++ pad msg.length
  let st := blocks init m (m.length / 64 + 1)
  leBytes32 st.a ++ leBytes32 st.b ++ leBytes32 st.c ++ leBytes32 st.d

/-- `rsyncchecksum.Checksum2(seed, buf)`: MD4(buf ‖ le32(seed)) -/
def sum2 (seed : UInt32) (buf : Bytes) : Bytes := sum (buf ++ leBytes32 seed)
/-- whole-file checksum: MD4(le32(seed) ‖ data) (match.go:31-32, receiver.go:117-118) -/
def fileSum (seed : UInt32) (data : Bytes) : Bytes := sum (leBytes32 seed ++ data)

end MD4
