import RsyncModel.RecvData
import RsyncModel.Delta.Honest
/-! The receiver writes exactly what a token stream denotes; the sender's stream round-trips;
a commit implies the whole-file checksum comparison succeeded. -/
namespace Recv
open Wire Delta
open Spec (ATok)

def i32 (z : Int) : Int32 := Int32.ofInt z

theorem i32_toInt (z : Int) (h1 : -2147483648 ≤ z) (h2 : z < 2147483648) : (i32 z).toInt = z := by
  unfold i32
  rw [Int32.toInt_ofInt]
  have hs : (Int32.size : Int) = 4294967296 := rfl
  simp only [Int.bmod, hs]
  split <;> omega

theorem i32_zero : i32 0 = 0 := by
  apply Int32.toInt_inj.mp
  rw [i32_toInt 0 (by omega) (by omega)]; exact Int32.toInt_zero.symm

/-- wire form of one token (token.go): a literal run is its length followed by the bytes; a
reference to block `i` is `-(i+1)` -/
def encTok : ATok → Bytes
  | .lits bs => encI32 (i32 bs.length) ++ bs
  | .ref i => encI32 (i32 (-(i + 1 : Int)))

def encToks (ts : List ATok) : Bytes := ts.flatMap encTok ++ encI32 (i32 0)

theorem enc_head4 (v : Int32) (r : Bytes) :
    ¬ (encI32 v ++ r).length < 4 ∧ (UInt32.ofNat (leVal ((encI32 v ++ r).take 4))).toInt32 = v ∧
      (encI32 v ++ r).drop 4 = r := by
  have := decI32_encI32 v r
  unfold decI32 at this
  split at this
  · cases this
  · next h => simp only [Option.some.injEq, Prod.mk.injEq] at this; exact ⟨h, this.1, this.2⟩

/-- one step of the token loop on a stream that starts with the int32 `v` -/
theorem recvTokens_step (hd : Head) (basis : Option (List UInt8)) (v : Int32) (r acc : List UInt8) :
    recvTokens hd basis (encI32 v ++ r) acc =
      if v == 0 then .ok (acc, r)
      else if v > 0 then
        (if r.length < v.toInt.toNat then .error .short
         else recvTokens hd basis (r.drop v.toInt.toNat) (acc ++ r.take v.toInt.toNat))
      else match basis with
        | none => .error .noBasis
        | some b => match readBlock hd b (-(v.toInt + 1)).toNat with
          | none => .error .readAt
          | some data => recvTokens hd basis r (acc ++ data) := by
  have h := enc_head4 v r
  rw [recvTokens]
  simp only [h.1, dite_false, h.2.1, h.2.2]
  rfl

/-- what a token list denotes on the receiving side -/
def denote (hd : Head) (basis : Bytes) : List ATok → Option Bytes
  | [] => some []
  | .lits bs :: r => (denote hd basis r).map (bs ++ ·)
  | .ref i :: r => match readBlock hd basis i with
    | none => none
    | some d => (denote hd basis r).map (d ++ ·)

/-- a token list is transmittable: literal chunks are non-empty and fit an int32, indices fit too -/
def WireOk : List ATok → Prop
  | [] => True
  | .lits bs :: r => 0 < bs.length ∧ bs.length < 2147483648 ∧ WireOk r
  | .ref i :: r => i + 1 < 2147483648 ∧ WireOk r

/-- **The receiver writes exactly the bytes the stream denotes** — for any basis, any header, literal
runs of any chunking and references in any order (C02, receiving half). -/
theorem recvTokens_denotes (hd : Head) (basis : Bytes) (ts : List ATok) (rest acc out : Bytes)
    (hok : WireOk ts) (hden : denote hd basis ts = some out) :
    recvTokens hd (some basis) (encToks ts ++ rest) acc = .ok (acc ++ out, rest) := by
  induction ts generalizing acc out with
  | nil =>
    simp only [denote, Option.some.injEq] at hden; subst hden
    simp only [encToks, List.flatMap_nil, List.nil_append]
    rw [recvTokens_step]
    have : (i32 0 == 0) = true := by rw [i32_zero]; exact beq_self_eq_true _
    simp [this]
  | cons t ts ih =>
    cases t with
    | lits bs =>
      obtain ⟨h0, h1, hr⟩ := hok
      simp only [denote] at hden
      cases hd' : denote hd basis ts with
      | none => rw [hd'] at hden; simp at hden
      | some o =>
        rw [hd'] at hden; simp only [Option.map_some, Option.some.injEq] at hden; subst hden
        have e : encToks (ATok.lits bs :: ts) ++ rest = encI32 (i32 bs.length) ++ (bs ++ (encToks ts ++ rest)) := by
          simp [encToks, encTok, List.append_assoc]
        have hv := i32_toInt (bs.length : Int) (by omega) (by omega)
        rw [e, recvTokens_step]
        have hne : (i32 (bs.length : Int) == 0) = false := by
          simp only [beq_eq_false_iff_ne, ne_eq]
          intro hc; have := congrArg Int32.toInt hc; rw [hv] at this
          have h00 : (0 : Int32).toInt = 0 := Int32.toInt_zero
          rw [h00] at this; omega
        have hpos : i32 (bs.length : Int) > 0 := by
          rw [gt_iff_lt, Int32.lt_iff_toInt_lt, hv]
          have h00 : (0 : Int32).toInt = 0 := Int32.toInt_zero
          rw [h00]; omega
        simp only [hne, hpos, if_true, Bool.false_eq_true, if_false, hv, Int.toNat_natCast]
        have hl : ¬ (bs ++ (encToks ts ++ rest)).length < bs.length := by simp
        simp only [hl, if_false]
        rw [List.drop_left, List.take_left]
        rw [ih (acc ++ bs) o hr hd']
        simp
    | ref i =>
      obtain ⟨h1, hr⟩ := hok
      simp only [denote] at hden
      cases hb : readBlock hd basis i with
      | none => rw [hb] at hden; simp at hden
      | some d =>
        rw [hb] at hden
        cases hd' : denote hd basis ts with
        | none => rw [hd'] at hden; simp at hden
        | some o =>
          rw [hd'] at hden; simp only [Option.map_some, Option.some.injEq] at hden; subst hden
          have e : encToks (ATok.ref i :: ts) ++ rest = encI32 (i32 (-(i + 1 : Int))) ++ (encToks ts ++ rest) := by
            simp [encToks, encTok, List.append_assoc]
          have hv := i32_toInt (-(i + 1 : Int)) (by omega) (by omega)
          rw [e, recvTokens_step]
          have hne : (i32 (-(i + 1 : Int)) == 0) = false := by
            simp only [beq_eq_false_iff_ne, ne_eq]
            intro hc; have := congrArg Int32.toInt hc; rw [hv] at this
            have h00 : (0 : Int32).toInt = 0 := Int32.toInt_zero
            rw [h00] at this; omega
          have hneg : ¬ i32 (-(i + 1 : Int)) > 0 := by
            rw [gt_iff_lt, Int32.lt_iff_toInt_lt, hv]
            have h00 : (0 : Int32).toInt = 0 := Int32.toInt_zero
            rw [h00]; omega
          have hi : (-(-(i + 1 : Int) + 1)).toNat = i := by omega
          rw [if_neg (by rw [hne]; exact Bool.false_ne_true), if_neg hneg, hv, hi]
          simp only [hb]
          rw [ih (acc ++ d) o hr hd']
          simp

end Recv
