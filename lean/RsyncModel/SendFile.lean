import RsyncModel.PureTie
import RsyncModel.RecvTie
/-! # The whole-file path of the sender (sender.go `sendFile`) as the source has it

`Gen.Pure.sendFileLoop` is regenerated from /repo on every run: the read loop of `sendFile` with the file as the
byte list still unread, `f.Read` as `Go.readSome` driven by an arbitrary schedule of short reads, and the
connection as an output log. Proved: for every file content and every schedule the loop sends literal tokens whose
data concatenate to exactly the file, then the end token — and the translated *receiver* loop (`Gen.Pure.recvLoop`,
no basis file) rebuilds exactly the file from the bytes those writes put on the wire. -/
namespace SendFile
open Go Recv Wire Delta

def frames (chunks : List (List UInt8)) : List Go.Out :=
  chunks.flatMap fun c => [Go.Out.i32 (Int32.ofInt (c.length : Int)), Go.Out.bytes c]

theorem frames_append (a b : List (List UInt8)) : frames (a ++ b) = frames a ++ frames b := by
  simp [frames, List.flatMap_append]

/-- how many bytes the next `Read` delivers -/
def nextN (rest : List UInt8) (sched : List Nat) : Nat :=
  min (max (sched.headD (min 262144 rest.length)) 1) (min 262144 rest.length)

theorem nextN_bounds (rest : List UInt8) (sched : List Nat) (h : rest ≠ []) :
    0 < nextN rest sched ∧ nextN rest sched ≤ 262144 ∧ nextN rest sched ≤ rest.length := by
  have : 0 < rest.length := List.length_pos_iff.mpr h
  unfold nextN; omega

theorem body_eof (eager : Bool) (buf : List UInt8) (sched : List Nat) (out : List Go.Out) (offset : Int) :
    Gen.Pure.sendFileLoop_body0 eager (buf, [], sched, out, offset) = .ok ((buf, [], sched, out, offset), false) := by
  unfold Gen.Pure.sendFileLoop_body0 Go.readSome; simp

/-- one pass over a non-empty rest: one literal token with what the read delivered; the loop goes on unless the reader
reported the end of the file together with the last bytes -/
theorem body_step (eager : Bool) (buf rest : List UInt8) (sched : List Nat) (out : List Go.Out) (offset : Int)
    (hr : rest ≠ []) (hbuf : buf.length = 262144) :
    Gen.Pure.sendFileLoop_body0 eager (buf, rest, sched, out, offset) =
      .ok ((rest.take (nextN rest sched) ++ buf.drop (nextN rest sched), rest.drop (nextN rest sched), sched.tail,
            out ++ frames [rest.take (nextN rest sched)], offset + (nextN rest sched : Int)),
           !(eager && (rest.drop (nextN rest sched)).isEmpty)) := by
  obtain ⟨h0, h1, h2⟩ := nextN_bounds rest sched hr
  unfold Gen.Pure.sendFileLoop_body0 Go.readSome
  simp only [hr, if_false, Go.bind_ok, Bool.false_eq_true, hbuf]
  have hn : min (max (sched.headD (min 262144 rest.length)) 1) (min 262144 rest.length) = nextN rest sched := rfl
  simp only [hn]
  have hpos : decide ((nextN rest sched : Int) > 0) = true := by simp; omega
  simp only [hpos, if_true]
  have hs : Go.slice (rest.take (nextN rest sched) ++ buf.drop (nextN rest sched)) 0 (nextN rest sched : Int) = .ok (rest.take (nextN rest sched)) := by
    unfold Go.slice
    rw [if_pos (by simp only [List.length_append, List.length_take, List.length_drop]; omega)]
    simp only [Int.toNat_zero, List.drop_zero, Int.sub_zero, Int.toNat_natCast]
    rw [List.take_append_of_le_length (by simp; omega), List.take_of_length_le (by simp; omega)]
  rw [hs]
  simp only [Go.bind_ok, frames, List.flatMap_cons, List.flatMap_nil, List.append_nil, List.length_take, Nat.min_eq_left h2]
  cases eager <;> cases (rest.drop (nextN rest sched)).isEmpty <;> simp

theorem sendLoop_inv (eager : Bool) : ∀ (fuel : Nat) (buf rest : List UInt8) (sched : List Nat) (out : List Go.Out) (offset : Int),
    rest.length < fuel → buf.length = 262144 →
    ∃ chunks buf' sched' offset', (∀ c ∈ chunks, 0 < c.length ∧ c.length ≤ 262144) ∧ chunks.flatten = rest ∧
      Go.loopB fuel (Gen.Pure.sendFileLoop_body0 eager) (buf, rest, sched, out, offset) =
        .ok (buf', [], sched', out ++ frames chunks, offset') := by
  intro fuel
  induction fuel with
  | zero => intro buf rest sched out offset h; omega
  | succ n ih =>
    intro buf rest sched out offset hlen hbuf
    rw [Go.loopB]
    by_cases hr : rest = []
    · subst hr
      rw [body_eof]
      refine ⟨[], buf, sched, offset, by simp, by simp, ?_⟩
      simp [frames]
    · obtain ⟨h0, h1, h2⟩ := nextN_bounds rest sched hr
      rw [body_step eager buf rest sched out offset hr hbuf]
      simp only [Go.bind_ok]
      have hb' : (rest.take (nextN rest sched) ++ buf.drop (nextN rest sched)).length = 262144 := by
        simp only [List.length_append, List.length_take, List.length_drop]; omega
      by_cases hlast : (eager && (rest.drop (nextN rest sched)).isEmpty) = true
      · -- the reader said "end of file" with these bytes: they are the last ones, and they have been sent
        simp only [hlast, Bool.not_true, Bool.false_eq_true, if_false]
        have hd : rest.drop (nextN rest sched) = [] := by
          simp only [Bool.and_eq_true, List.isEmpty_iff] at hlast; exact hlast.2
        have ht : rest.take (nextN rest sched) = rest := by
          have := List.take_append_drop (nextN rest sched) rest
          rw [hd, List.append_nil] at this; exact this
        refine ⟨[rest], rest.take (nextN rest sched) ++ buf.drop (nextN rest sched), sched.tail,
          offset + (nextN rest sched : Int), ?_, by simp, ?_⟩
        · intro c hc
          simp only [List.mem_singleton] at hc
          rw [hc]
          have := congrArg List.length ht
          simp only [List.length_take] at this
          omega
        · rw [hd, ht]
      · have hlast' : (eager && (rest.drop (nextN rest sched)).isEmpty) = false := by simpa using hlast
        simp only [hlast', Bool.not_false, if_true]
        have hl' : (rest.drop (nextN rest sched)).length < n := by
          simp only [List.length_drop]; omega
        obtain ⟨chunks, b', s', o', hc, hf, he⟩ := ih _ (rest.drop (nextN rest sched)) sched.tail
          (out ++ frames [rest.take (nextN rest sched)]) (offset + (nextN rest sched : Int)) hl' hb'
        refine ⟨rest.take (nextN rest sched) :: chunks, b', s', o', ?_, ?_, ?_⟩
        · intro c hcm
          rcases List.mem_cons.mp hcm with rfl | hcm
          · simp only [List.length_take]; omega
          · exact hc c hcm
        · simp [hf]
        · rw [he]
          have : frames (rest.take (nextN rest sched) :: chunks) = frames [rest.take (nextN rest sched)] ++ frames chunks := by
            rw [← frames_append]; rfl
          rw [this, List.append_assoc]

/-- **The whole-file path sends the whole file, whatever the reader's reads look like**: for every content, every
schedule of short reads, and whether the reader reports the end of the file together with the last bytes or by the
next call (D50: the former lost those bytes), `sendFile`'s loop emits literal tokens whose data concatenate to exactly
the file — each between 1 and 256 KiB, each preceded by its length, never an empty one (which would read as the end
token) — then the end-of-data token, and ends within `len(file)+1` passes. -/
theorem sendFileLoop_sends_all (file : List UInt8) (sched : List Nat) (eager : Bool) :
    ∃ chunks, (∀ c ∈ chunks, 0 < c.length ∧ c.length ≤ 262144) ∧ chunks.flatten = file ∧
      Gen.Pure.sendFileLoop file sched eager [] = .ok (frames chunks ++ [Go.Out.i32 0], []) := by
  unfold Gen.Pure.sendFileLoop
  have hm : Go.make 262144 = .ok (List.replicate 262144 0) := by unfold Go.make; rw [if_neg (by omega)]; rfl
  obtain ⟨chunks, b', s', o', hc, hf, he⟩ := sendLoop_inv eager (file.length + 1) (List.replicate 262144 0) file sched [] 0
    (Nat.lt_succ_self _) (List.length_replicate ..)
  refine ⟨chunks, hc, hf, ?_⟩
  rw [hm]
  simp only [Go.bind_ok, he, List.nil_append]

/-- the bytes an output log puts on the wire -/
def wireOf : List Go.Out → Bytes
  | [] => []
  | .i32 v :: r => encI32 v ++ wireOf r
  | .bytes b :: r => b ++ wireOf r

theorem wireOf_append (a b : List Go.Out) : wireOf (a ++ b) = wireOf a ++ wireOf b := by
  induction a with
  | nil => rfl
  | cons x xs ih => cases x <;> simp [wireOf, ih, List.append_assoc]

theorem wireOf_frames (chunks : List Bytes) :
    wireOf (frames chunks ++ [Go.Out.i32 0]) = encToks (chunks.map Spec.ATok.lits) := by
  rw [wireOf_append]
  unfold encToks
  congr 1
  · induction chunks with
    | nil => rfl
    | cons c cs ih =>
      have : frames (c :: cs) = [Go.Out.i32 (Int32.ofInt (c.length : Int)), Go.Out.bytes c] ++ frames cs := rfl
      rw [this, wireOf_append, ih]
      simp [wireOf, encTok, i32, List.append_assoc]

/-- a stream of literal tokens is rebuilt whatever the basis (there need not be one) -/
theorem recvTokens_literals (hd : Head) (basis : Option Bytes) (chunks : List Bytes) (rest acc : Bytes)
    (hok : ∀ c ∈ chunks, 0 < c.length ∧ c.length < 2147483648) :
    recvTokens hd basis (encToks (chunks.map Spec.ATok.lits) ++ rest) acc = .ok (acc ++ chunks.flatten, rest) := by
  induction chunks generalizing acc with
  | nil =>
    simp only [List.map_nil, encToks, List.flatMap_nil, List.nil_append, List.flatten_nil, List.append_nil]
    rw [recvTokens_step]
    have : (i32 0 == 0) = true := by rw [i32_zero]; exact beq_self_eq_true _
    simp [this]
  | cons bs cs ih =>
    obtain ⟨h0, h1⟩ := hok bs (List.mem_cons_self ..)
    have e : encToks ((bs :: cs).map Spec.ATok.lits) ++ rest = encI32 (i32 bs.length) ++ (bs ++ (encToks (cs.map Spec.ATok.lits) ++ rest)) := by
      simp [encToks, encTok, List.append_assoc]
    have hv := i32_toInt (bs.length : Int) (by omega) (by omega)
    rw [e, recvTokens_step]
    have hne : (i32 (bs.length : Int) == 0) = false := by
      simp only [beq_eq_false_iff_ne, ne_eq]
      intro hc; have := congrArg Int32.toInt hc; rw [hv] at this
      have h00 : (0 : Int32).toInt = 0 := Int32.toInt_zero
      rw [h00] at this; omega
    have hpos : i32 (bs.length : Int) > 0 := by
      rw [gt_iff_lt, Int32.lt_iff_toInt_lt, hv]
      have h00 : (0 : Int32).toInt = 0 := Int32.toInt_zero
      rw [h00]; omega
    simp only [hne, hpos, if_true, Bool.false_eq_true, if_false, hv, Int.toNat_natCast]
    have hl : ¬ (bs ++ (encToks (cs.map Spec.ATok.lits) ++ rest)).length < bs.length := by simp
    simp only [hl, if_false]
    rw [List.drop_left, List.take_left]
    rw [ih (acc ++ bs) (fun c hc => hok c (List.mem_cons_of_mem _ hc))]
    simp

/-- **Whole-file path, end to end, on the source's own loops**: whatever the file holds and however the file system
slices the reads, the bytes `sendFile`'s loop writes are read by `receiveData`'s loop (no basis file, any validated
header) as exactly the file, leaving what follows on the wire unread. -/
theorem whole_file_end_to_end (file : Bytes) (sched : List Nat) (eager : Bool) (h : PureTie.Head32) (hok : h.ok) (cs : Nat) (tail : Bytes) :
    ∃ out, Gen.Pure.sendFileLoop file sched eager [] = .ok (out, []) ∧
      Gen.Pure.recvLoop (wireOf out ++ tail) [] false h.count h.bl h.rem [] = .ok (file, tail) := by
  obtain ⟨chunks, hc, hf, he⟩ := sendFileLoop_sends_all file sched eager
  refine ⟨_, he, ?_⟩
  rw [RecvTie.recvLoop_tied h hok cs, wireOf_frames]
  simp only [Bool.false_eq_true, if_false]
  rw [recvTokens_literals _ none chunks tail [] (fun c hcm => ⟨(hc c hcm).1, by have := (hc c hcm).2; omega⟩), hf]
  rfl

end SendFile
