import RsyncModel.OptsLex
/-! Interpreter lemmas: options whose whole effect is a list of constant stores ("set-only"),
folded over a list of *conditionally present* options. Table-independent; the regenerated tables
enter through Boolean side conditions. -/
namespace Opts
open Gen.OptTable

/-- an update of one field: store a constant, or (`none`) increment -/
abbrev Upd := Field × Option Int

def applyUpd (s : St) (p : Upd) : St :=
  match p.2 with
  | some v => s.set p.1 v
  | none => s.set p.1 (s.ints p.1 + 1)

def applySets (sets : List Upd) (s : St) : St := sets.foldl applyUpd s

def actsSets : List Act → Option (List Upd)
  | [] => some []
  | .set f v :: rest => (actsSets rest).map ((f, some v) :: ·)
  | .incr f :: rest => (actsSets rest).map ((f, none) :: ·)
  | _ => none

/-- `requireNonzero* set*` -/
def actsEff : List Act → Option (List Field × List Upd)
  | .requireNonzero f :: rest => (actsEff rest).map (fun p => (f :: p.1, p.2))
  | acts => (actsSets acts).map (fun s => ([], s))

structure Eff where
  reqs : List Field
  sets : List Upd

def ownSets (r : Row) : Option (List Upd) :=
  match r.target, r.kind with
  | none, _ => some []
  | some f, .none => some [(f, some 1)]
  | some f, .val => some [(f, some r.val)]
  | _, _ => none

def specialEff (r : Row) (own : List Upd) : Option Eff :=
  match actsEff ((lookupCase r.val mainCases).getD mainCasesDefault) with
  | none => none
  | some (reqs, sets) => if reqs.isEmpty || own.isEmpty then some ⟨reqs, own ++ sets⟩ else none

/-- the effect of a no-argument option `r` met by the main loop, when it is set-only -/
def rowEff (r : Row) : Option Eff :=
  match ownSets r with
  | none => none
  | some own => if isSpecial r then specialEff r own else some ⟨[], own⟩

theorem runActs_sets (arg : Str) (acts : List Act) (sets : List Upd) (s : St)
    (h : actsSets acts = some sets) : runActs arg acts s = .next (applySets sets s) := by
  induction acts generalizing sets s with
  | nil => simp [actsSets] at h; subst h; rfl
  | cons a rest ih =>
    cases a <;> simp [actsSets] at h
    · rename_i f v
      obtain ⟨sets', hs, rfl⟩ := h
      simp [runActs, applySets, applyUpd, ih sets' (s.set f v) hs]
    · rename_i f
      obtain ⟨sets', hs, rfl⟩ := h
      simp [runActs, applySets, applyUpd, ih sets' (s.set f (s.ints f + 1)) hs]

theorem runActs_eff (arg : Str) (acts : List Act) (reqs : List Field) (sets : List Upd) (s : St)
    (h : actsEff acts = some (reqs, sets)) (hr : ∀ f ∈ reqs, s.ints f ≠ 0) :
    runActs arg acts s = .next (applySets sets s) := by
  induction acts generalizing reqs with
  | nil => simp [actsEff, actsSets] at h; obtain ⟨rfl, rfl⟩ := h; rfl
  | cons a rest ih =>
    cases a with
    | requireNonzero f =>
      simp only [actsEff, Option.map_eq_some_iff] at h
      obtain ⟨p, hp, hpe⟩ := h
      cases hpe
      have hf : s.ints f ≠ 0 := hr f (by simp)
      simp only [runActs, hf, if_false]
      exact ih p.1 hp (fun g hg => hr g (by simp [hg]))
    | set f v =>
      simp only [actsEff, Option.map_eq_some_iff] at h
      obtain ⟨ss, hss, hpe⟩ := h
      cases hpe
      exact runActs_sets arg _ _ s hss
    | incr f =>
      simp only [actsEff, Option.map_eq_some_iff] at h
      obtain ⟨ss, hss, hpe⟩ := h
      cases hpe
      exact runActs_sets arg _ _ s hss
    | _ => simp [actsEff, actsSets] at h

theorem applySets_append (a b : List Upd) (s : St) : applySets (a ++ b) s = applySets b (applySets a s) := by
  simp [applySets, List.foldl_append]

theorem store_own (r : Row) (own : List Upd) (s : St) (h : ownSets r = some own) :
    store r [] s = some (applySets own s) := by
  unfold ownSets at h
  unfold store
  cases ht : r.target with
  | none => simp [ht] at h; subst h; rfl
  | some f =>
    cases hk : r.kind <;> simp [ht, hk] at h <;> (try subst h) <;> simp [applySets, applyUpd]

theorem stepTok_eff (r : Row) (e : Eff) (s : St) (h : rowEff r = some e)
    (hr : ∀ f ∈ e.reqs, s.ints f ≠ 0) :
    stepTok mainCases mainCasesDefault (.opt r []) s = .next (applySets e.sets s) := by
  unfold rowEff at h
  cases ho : ownSets r with
  | none => rw [ho] at h; cases h
  | some own =>
    rw [ho] at h
    simp only [] at h
    have hst := store_own r own s ho
    by_cases hsp : isSpecial r = true
    · rw [if_pos hsp] at h
      unfold specialEff at h
      cases he : actsEff ((lookupCase r.val mainCases).getD mainCasesDefault) with
      | none => rw [he] at h; cases h
      | some p =>
        obtain ⟨reqs, sets⟩ := p
        rw [he] at h
        simp only [] at h
        by_cases hc : (reqs.isEmpty || own.isEmpty) = true
        · rw [if_pos hc] at h
          cases h
          simp only [stepTok, hst, hsp, if_true]
          have hr' : ∀ f ∈ reqs, (applySets own s).ints f ≠ 0 := by
            intro f hf
            cases hre : reqs with
            | nil => rw [hre] at hf; cases hf
            | cons a b =>
              have : own.isEmpty = true := by simpa [hre] using hc
              have : own = [] := by simpa using this
              subst this
              exact hr f hf
          rw [runActs_eff [] _ reqs sets _ he hr', applySets_append]
        · rw [if_neg hc] at h; cases h
    · rw [if_neg hsp] at h
      cases h
      simp only [Bool.not_eq_true] at hsp
      simp [stepTok, hst, hsp]

/-! ### folding conditionally present set-only options -/

abbrev CTab := List (BExpr CAtom × Row × Eff)

def presentRows (σ : Acc → Bool) (t : CTab) : List (Row × Eff) := (t.filter (fun p => cEval σ p.1)).map (·.2)

def applyAll (l : List (Row × Eff)) (s : St) : St := l.foldl (fun s p => applySets p.2.sets s) s

def setsField (e : Eff) (f : Field) : Bool := e.sets.any (fun p => p.1 == f)

theorem applyUpd_other (s : St) (p : Upd) (f : Field) (h : p.1 ≠ f) : (applyUpd s p).ints f = s.ints f := by
  unfold applyUpd; split <;> simp [St.set, Ne.symm h]

theorem applySets_other (sets : List Upd) (s : St) (f : Field)
    (h : sets.any (fun p => p.1 == f) = false) : (applySets sets s).ints f = s.ints f := by
  induction sets generalizing s with
  | nil => rfl
  | cons p rest ih =>
    simp only [List.any_cons, Bool.or_eq_false_iff, beq_eq_false_iff_ne, ne_eq] at h
    simp only [applySets, List.foldl_cons]
    have := ih (applyUpd s p) h.2
    simp only [applySets] at this
    rw [this, applyUpd_other s p f h.1]

/-- every constant an option stores is positive -/
def allPos (sets : List Upd) : Bool := sets.all (fun p => match p.2 with | some v => decide (0 < v) | none => true)

theorem applyUpd_same_pos (s : St) (p : Upd) (hp : (match p.2 with | some v => decide (0 < v) | none => true) = true)
    (h0 : 0 ≤ s.ints p.1) : 0 < (applyUpd s p).ints p.1 := by
  unfold applyUpd
  cases hv : p.2 with
  | none => simp [St.set]; omega
  | some v => simp [hv] at hp; simp [St.set, hp]

theorem applySets_nonneg (sets : List Upd) (s : St) (f : Field) (hpos : allPos sets = true) (h0 : 0 ≤ s.ints f) :
    0 ≤ (applySets sets s).ints f ∧ (0 < s.ints f → 0 < (applySets sets s).ints f) := by
  induction sets generalizing s with
  | nil => exact ⟨h0, id⟩
  | cons p rest ih =>
    simp only [allPos, List.all_cons, Bool.and_eq_true] at hpos
    simp only [applySets, List.foldl_cons]
    by_cases hpf : p.1 = f
    · have hp := applyUpd_same_pos s p hpos.1 (by rw [hpf]; exact h0)
      rw [hpf] at hp
      have := ih (applyUpd s p) hpos.2 (Int.le_of_lt hp)
      simp only [applySets] at this
      exact ⟨this.1, fun _ => this.2 hp⟩
    · have he := applyUpd_other s p f hpf
      have := ih (applyUpd s p) hpos.2 (by rw [he]; exact h0)
      simp only [applySets] at this
      exact ⟨this.1, fun h => this.2 (by rw [he]; exact h)⟩

theorem applySets_nz (sets : List Upd) (s : St) (f : Field) (hpos : allPos sets = true) (h0 : 0 ≤ s.ints f) :
    ((applySets sets s).ints f ≠ 0) ↔ (s.ints f ≠ 0 ∨ sets.any (fun p => p.1 == f) = true) := by
  induction sets generalizing s with
  | nil => simp [applySets]
  | cons p rest ih =>
    have hpos' := hpos
    simp only [allPos, List.all_cons, Bool.and_eq_true] at hpos
    simp only [applySets, List.foldl_cons]
    by_cases hpf : p.1 = f
    · have hp := applyUpd_same_pos s p hpos.1 (by rw [hpf]; exact h0)
      rw [hpf] at hp
      have h1 := (applySets_nonneg rest (applyUpd s p) f hpos.2 (Int.le_of_lt hp)).2 hp
      simp only [applySets] at h1
      constructor
      · intro _; right; simp [hpf]
      · intro _; omega
    · have he := applyUpd_other s p f hpf
      have := ih (applyUpd s p) hpos.2 (by rw [he]; exact h0)
      simp only [applySets] at this
      rw [this, he]
      simp [hpf]

/-- every store of every option in the table writes a positive constant (or increments) -/
def allNonzero (t : CTab) : Bool := t.all (fun p => allPos p.2.2.sets)

theorem applyAll_nonneg (σ : Acc → Bool) (t : CTab) (s : St) (f : Field) (hnz : allNonzero t = true) (h0 : 0 ≤ s.ints f) :
    0 ≤ (applyAll (presentRows σ t) s).ints f ∧ (0 < s.ints f → 0 < (applyAll (presentRows σ t) s).ints f) := by
  induction t generalizing s with
  | nil => exact ⟨h0, id⟩
  | cons p rest ih =>
    simp only [allNonzero, List.all_cons, Bool.and_eq_true] at hnz
    by_cases hp : cEval σ p.1 = true
    · have : presentRows σ (p :: rest) = p.2 :: presentRows σ rest := by simp [presentRows, hp]
      rw [this]
      simp only [applyAll, List.foldl_cons]
      have a := applySets_nonneg p.2.2.sets s f hnz.1 h0
      have b := ih (applySets p.2.2.sets s) hnz.2 a.1
      simp only [applyAll] at b
      exact ⟨b.1, fun h => b.2 (a.2 h)⟩
    · have : presentRows σ (p :: rest) = presentRows σ rest := by simp [presentRows, hp]
      rw [this]; exact ih s hnz.2 h0

theorem applyAll_nz (σ : Acc → Bool) (t : CTab) (s : St) (f : Field) (hnz : allNonzero t = true) (h0 : 0 ≤ s.ints f) :
    ((applyAll (presentRows σ t) s).ints f ≠ 0) ↔
      (s.ints f ≠ 0 ∨ t.any (fun p => cEval σ p.1 && setsField p.2.2 f) = true) := by
  induction t generalizing s with
  | nil => simp [presentRows, applyAll]
  | cons p rest ih =>
    simp only [allNonzero, List.all_cons, Bool.and_eq_true] at hnz
    have hrest : allNonzero rest = true := hnz.2
    by_cases hp : cEval σ p.1 = true
    · have : presentRows σ (p :: rest) = p.2 :: presentRows σ rest := by simp [presentRows, hp]
      rw [this]
      simp only [applyAll, List.foldl_cons]
      have h1 := ih (applySets p.2.2.sets s) hrest (applySets_nonneg _ _ _ hnz.1 h0).1
      simp only [applyAll] at h1
      rw [h1, applySets_nz _ _ _ hnz.1 h0]
      simp only [List.any_cons, hp, Bool.true_and, Bool.or_eq_true, setsField]
      constructor
      · rintro ((h | h) | h) <;> simp [h]
      · rintro (h | h | h) <;> simp [h]
    · have : presentRows σ (p :: rest) = presentRows σ rest := by simp [presentRows, hp]
      rw [this, ih s hrest h0]
      simp only [Bool.not_eq_true] at hp
      simp [List.any_cons, hp]

theorem applyAll_other (σ : Acc → Bool) (t : CTab) (s : St) (f : Field)
    (h : t.any (fun p => setsField p.2.2 f) = false) :
    (applyAll (presentRows σ t) s).ints f = s.ints f := by
  induction t generalizing s with
  | nil => simp [presentRows, applyAll]
  | cons p rest ih =>
    simp only [List.any_cons, Bool.or_eq_false_iff] at h
    by_cases hp : cEval σ p.1 = true
    · have : presentRows σ (p :: rest) = p.2 :: presentRows σ rest := by simp [presentRows, hp]
      rw [this]
      simp only [applyAll, List.foldl_cons]
      have h1 := ih (applySets p.2.2.sets s) h.2
      simp only [applyAll] at h1
      rw [h1]
      exact applySets_other _ _ _ h.1
    · have : presentRows σ (p :: rest) = presentRows σ rest := by simp [presentRows, hp]
      rw [this, ih s h.2]

theorem applySets_version (sets : List Upd) (s : St) : (applySets sets s).version = s.version := by
  induction sets generalizing s with
  | nil => rfl
  | cons p rest ih =>
    simp only [applySets, List.foldl_cons] at ih ⊢; rw [ih]
    unfold applyUpd; split <;> rfl

theorem applyAll_version (l : List (Row × Eff)) (s : St) : (applyAll l s).version = s.version := by
  induction l generalizing s with
  | nil => rfl
  | cons p rest ih => simp only [applyAll, List.foldl_cons] at ih ⊢; rw [ih, applySets_version]

/-- requirement check: walking the table in order, every option's `reqs` are among the fields
known to be non-zero whatever the assignment: those in `nz` initially, plus the stores of
*unconditional* options met so far -/
def nzNext (c : BExpr CAtom) (e : Eff) (nz : List Field) : List Field :=
  match c with
  | .tt => (e.sets.filter (·.2.isSome)).map (·.1) ++ nz
  | _ => nz

def reqsOk : CTab → List Field → Bool
  | [], _ => true
  | (c, _, e) :: rest, nz => e.reqs.all (nz.contains ·) && reqsOk rest (nzNext c e nz)

theorem applySets_const_pos (sets : List Upd) (s : St) (f : Field) (hpos : allPos sets = true)
    (h : sets.any (fun p => p.1 == f && p.2.isSome) = true) : 0 < (applySets sets s).ints f := by
  induction sets generalizing s with
  | nil => simp at h
  | cons p rest ih =>
    have hpos' := hpos
    simp only [allPos, List.all_cons, Bool.and_eq_true] at hpos
    simp only [applySets, List.foldl_cons]
    simp only [List.any_cons, Bool.or_eq_true, Bool.and_eq_true, beq_iff_eq] at h
    rcases h with ⟨hpf, hsome⟩ | h
    · -- this update stores a positive constant; later updates keep it positive
      have hp : 0 < (applyUpd s p).ints f := by
        unfold applyUpd
        cases hv : p.2 with
        | none => simp [hv] at hsome
        | some v => simp [hv] at hpos; simp [St.set, hpf, hpos.1]
      have := (applySets_nonneg rest (applyUpd s p) f hpos.2 (Int.le_of_lt hp)).2 hp
      simpa [applySets] using this
    · have := ih (applyUpd s p) hpos.2 h
      simpa [applySets] using this

theorem runMain_present (all : List Str) (σ : Acc → Bool) (t : CTab) (s : St) (nz : List Field)
    (hrows : t.all (fun p => match rowEff p.2.1 with | some e => e.reqs == p.2.2.reqs && e.sets == p.2.2.sets | none => false) = true)
    (hnz : allNonzero t = true) (hreq : reqsOk t nz = true) (hs : ∀ f ∈ nz, 0 < s.ints f) :
    runMain all ((presentRows σ t).map (fun p => .opt p.1 [])) s = finish all.length (applyAll (presentRows σ t) s) := by
  induction t generalizing s nz with
  | nil => simp [presentRows, applyAll, runMain]
  | cons p rest ih =>
    obtain ⟨c, r, e⟩ := p
    simp only [List.all_cons, Bool.and_eq_true] at hrows
    simp only [allNonzero, List.all_cons, Bool.and_eq_true] at hnz
    simp only [reqsOk, Bool.and_eq_true, List.all_eq_true] at hreq
    have hnzs : ∀ f ∈ nz, 0 < (applySets e.sets s).ints f := by
      intro f hf
      exact (applySets_nonneg _ _ _ hnz.1 (Int.le_of_lt (hs f hf))).2 (hs f hf)
    by_cases hp : cEval σ c = true
    · have hpr : presentRows σ ((c, r, e) :: rest) = (r, e) :: presentRows σ rest := by simp [presentRows, hp]
      rw [hpr]
      simp only [List.map_cons, runMain, applyAll, List.foldl_cons]
      obtain ⟨hre, hrest⟩ := hrows
      cases hre' : rowEff r with
      | none => simp [hre'] at hre
      | some e' =>
        simp only [hre', Bool.and_eq_true, beq_iff_eq] at hre
        have hreqs : ∀ f ∈ e'.reqs, s.ints f ≠ 0 := by
          intro f hf
          rw [hre.1] at hf
          have := hreq.1 f hf
          have := hs f (by simpa using this)
          omega
        rw [stepTok_eff r e' s hre' hreqs, hre.2]
        have := ih (applySets e.sets s) (nzNext c e nz) hrest hnz.2 hreq.2 (by
          intro f hf
          cases c <;> simp only [nzNext, List.mem_append, List.mem_map, List.mem_filter] at hf <;> try exact hnzs f hf
          rcases hf with ⟨q, ⟨hq, hqs⟩, rfl⟩ | hf
          · exact applySets_const_pos _ _ _ hnz.1 (List.any_eq_true.mpr ⟨q, hq, by simp [hqs]⟩)
          · exact hnzs f hf)
        simp only [applyAll] at this
        exact this
    · have hpr : presentRows σ ((c, r, e) :: rest) = presentRows σ rest := by simp [presentRows, hp]
      rw [hpr]
      have hreq' : reqsOk rest nz = true := by
        cases c with
        | tt => simp [cEval, BExpr.eval] at hp
        | _ => exact hreq.2
      exact ih s nz hrows.2 hnz.2 hreq' hs

end Opts
