import RsyncModel.OptsRun
/-! The option-forwarding theorem: for **every** assignment of the accessors, the argument list
`ServerOptions` renders is parsed by the server-side parser (same tables) into a state whose
accessors are given by a table of Boolean formulas computed from the regenerated source tables.
What remains for a property is to compare those formulas with the expected ones (`BExpr.equivB`). -/
namespace Opts
open Gen.OptTable

/-- option rows and effects of whole-argument items -/
def argTab : List (BExpr CAtom × Str) → Option CTab
  | [] => some []
  | (c, a) :: rest =>
    match longRow mainRows a, argTab rest with
    | some r, some t => match rowEff r with
      | some e => some ((c, r, e) :: t)
      | none => none
    | _, _ => none

def letTab : List (BExpr CAtom × Char) → Option CTab
  | [] => some []
  | (c, ch) :: rest =>
    match shortRow mainRows ch, letTab rest with
    | some r, some t => match rowEff r with
      | some e => some ((c, r, e) :: t)
      | none => none
    | _, _ => none

def tokTable : Option CTab :=
  match argTab (argItems preItems), letTab (letItems preItems), argTab (argItems postItems) with
  | some a, some b, some c => some (a ++ b ++ c)
  | _, _, _ => none

def allLetters : Str := (letItems preItems).map (·.2)

/-- side conditions on the regenerated tables (all evaluated by the kernel) -/
def lettersOk : Bool :=
  hasHere && !allLetters.contains '=' && !allLetters.contains '-' &&
  mainRows.all (fun r => r.long.isEmpty || !(r.long.isSublist allLetters))

def toks1 (a : Str) : List LTok := (lexArg mainRows a none).1

theorem argTab_spec (σ : Acc → Bool) (l : List (BExpr CAtom × Str)) (t : CTab) (h : argTab l = some t) :
    (∀ a ∈ present σ l, ∀ next, lexArg mainRows a next = (toks1 a, false)) ∧
    (present σ l).flatMap toks1 = (presentRows σ t).map (fun p => .opt p.1 []) := by
  induction l generalizing t with
  | nil => simp [argTab] at h; subst h; simp [present, presentRows]
  | cons p rest ih =>
    obtain ⟨c, a⟩ := p
    simp only [argTab] at h
    cases hr : longRow mainRows a with
    | none => simp [hr] at h
    | some r =>
      cases ht : argTab rest with
      | none => simp [hr, ht] at h
      | some t' =>
        cases he : rowEff r with
        | none => simp [hr, ht, he] at h
        | some e =>
          simp only [hr, ht, he, Option.some.injEq] at h
          subst h
          obtain ⟨ih1, ih2⟩ := ih t' ht
          have hl : ∀ next, lexArg mainRows a next = (toks1 a, false) := by
            intro next
            rw [lexArg_long mainRows a next r hr]
            simp [toks1, lexArg_long mainRows a none r hr]
          by_cases hc : cEval σ c = true
          · have e1 : present σ ((c, a) :: rest) = a :: present σ rest := by simp [present, hc]
            have e2 : presentRows σ ((c, r, e) :: t') = (r, e) :: presentRows σ t' := by simp [presentRows, hc]
            rw [e1, e2]
            constructor
            · intro b hb next
              rcases List.mem_cons.mp hb with rfl | hb
              · exact hl next
              · exact ih1 b hb next
            · simp only [List.flatMap_cons, List.map_cons, ih2]
              simp [toks1, lexArg_long mainRows a none r hr]
          · have e1 : present σ ((c, a) :: rest) = present σ rest := by simp [present, hc]
            have e2 : presentRows σ ((c, r, e) :: t') = presentRows σ t' := by simp [presentRows, hc]
            rw [e1, e2]
            exact ⟨ih1, ih2⟩

theorem letTab_spec (σ : Acc → Bool) (l : List (BExpr CAtom × Char)) (t : CTab) (h : letTab l = some t) :
    (present σ l).mapM (shortRow mainRows) = some ((presentRows σ t).map (·.1)) := by
  induction l generalizing t with
  | nil => simp [letTab] at h; subst h; simp [present, presentRows]
  | cons p rest ih =>
    obtain ⟨c, ch⟩ := p
    simp only [letTab] at h
    cases hr : shortRow mainRows ch with
    | none => simp [hr] at h
    | some r =>
      cases ht : letTab rest with
      | none => simp [hr, ht] at h
      | some t' =>
        cases he : rowEff r with
        | none => simp [hr, ht, he] at h
        | some e =>
          simp only [hr, ht, he, Option.some.injEq] at h
          subst h
          have ih' := ih t' ht
          by_cases hc : cEval σ c = true
          · have e1 : present σ ((c, ch) :: rest) = ch :: present σ rest := by simp [present, hc]
            have e2 : presentRows σ ((c, r, e) :: t') = (r, e) :: presentRows σ t' := by simp [presentRows, hc]
            rw [e1, e2]
            simp [List.mapM_cons, hr, ih']
          · have e1 : present σ ((c, ch) :: rest) = present σ rest := by simp [present, hc]
            have e2 : presentRows σ ((c, r, e) :: t') = presentRows σ t' := by simp [presentRows, hc]
            rw [e1, e2]; exact ih'

theorem present_sublist {β : Type} (σ : Acc → Bool) (l : List (BExpr CAtom × β)) :
    List.Sublist (present σ l) (l.map (·.2)) := by
  unfold present
  exact List.Sublist.map _ List.filter_sublist

theorem mapM_length {α β : Type} (f : α → Option β) (l : List α) (rs : List β) (h : l.mapM f = some rs) : rs.length = l.length := by
  induction l generalizing rs with
  | nil => simp at h; subst h; rfl
  | cons a rest ih =>
    simp only [List.mapM_cons, Option.bind_eq_bind, Option.pure_def] at h
    cases hf : f a with
    | none => simp [hf] at h
    | some b =>
      cases hr : rest.mapM f with
      | none => simp [hf, hr] at h
      | some rs' =>
        simp only [hf, hr, Option.bind_some, Option.some.injEq] at h
        subst h
        simp [ih rs' hr]

theorem findLong_long (rows : List Row) (name : Str) (r : Row) (h : findLong rows name = some r) : r.long = name := by
  unfold findLong at h
  split at h
  · cases h
  · have := List.find?_some h
    simpa using this

/-- the lexer on the rendered argument list, for every assignment -/
theorem lex_serverOptions (σ : Acc → Bool) (t : CTab) (ht : tokTable = some t) (hl : lettersOk = true) :
    lex mainRows (serverOptions σ) = (presentRows σ t).map (fun p => .opt p.1 []) := by
  unfold tokTable at ht
  cases ha : argTab (argItems preItems) with
  | none => simp [ha] at ht
  | some ta =>
    cases hb : letTab (letItems preItems) with
    | none => simp [ha, hb] at ht
    | some tb =>
      cases hc : argTab (argItems postItems) with
      | none => simp [ha, hb, hc] at ht
      | some tc =>
        simp only [ha, hb, hc, Option.some.injEq] at ht
        subst ht
        obtain ⟨a1, a2⟩ := argTab_spec σ _ ta ha
        obtain ⟨c1, c2⟩ := argTab_spec σ _ tc hc
        have b1 := letTab_spec σ _ tb hb
        simp only [lettersOk, Bool.and_eq_true, Bool.not_eq_true', List.all_eq_true, Bool.or_eq_true] at hl
        obtain ⟨⟨⟨hhere, heq⟩, hdash⟩, hlong⟩ := hl
        -- the letters argument
        obtain ⟨ls, hlsd⟩ : ∃ ls, ls = present σ (letItems preItems) := ⟨_, rfl⟩
        rw [← hlsd] at b1
        have hsub : List.Sublist ls allLetters := by rw [hlsd]; exact present_sublist σ _
        have hlen : ls.length = (presentRows σ tb).length := by
          have := mapM_length _ _ _ b1
          simpa using this.symm
        have hL : (∀ a ∈ (if hasHere && !ls.isEmpty then ['-' :: ls] else []), ∀ next, lexArg mainRows a next = (toks1 a, false)) ∧
            (if hasHere && !ls.isEmpty then ['-' :: ls] else []).flatMap toks1 = (presentRows σ tb).map (fun p => .opt p.1 []) := by
          by_cases hne : ls = []
          · have : presentRows σ tb = [] := by
              have := hlen; rw [hne] at this; simpa using this.symm
            simp [hne, this]
          · have heq' : '=' ∉ ls := fun e => by
              have := hsub.subset e
              have h2 : allLetters.contains '=' = true := by simpa using this
              rw [heq] at h2; cases h2
            have hdash' : ls.head? ≠ some '-' := by
              intro e
              have hm : '-' ∈ ls := by
                cases hls : ls with
                | nil => exact absurd hls hne
                | cons x xs => rw [hls] at e; simp at e; simp [e]
              have := hsub.subset hm
              have h2 : allLetters.contains '-' = true := by simpa using this
              rw [hdash] at h2; cases h2
            have hfl : findLong mainRows ls = none := by
              cases hf : findLong mainRows ls with
              | none => rfl
              | some r =>
                exfalso
                have hr : r ∈ mainRows := by
                  unfold findLong at hf
                  split at hf
                  · cases hf
                  · exact List.mem_of_find?_eq_some hf
                have hlr := findLong_long _ _ _ hf
                rcases hlong r hr with h | h
                · have : r.long = [] := by simpa using h
                  rw [hlr] at this; exact hne this
                · have h3 : r.long.isSublist allLetters = true := by
                    rw [hlr]; exact List.isSublist_iff_sublist.mpr hsub
                  rw [h3] at h; cases h
            have key : ∀ next, lexArg mainRows ('-' :: ls) next = ((presentRows σ tb).map (fun p => LTok.opt p.1 []), false) := by
              intro next
              have := lexArg_letters mainRows ls next _ hne heq' hdash' hfl b1
              rw [List.map_map] at this
              exact this
            have hne' : ls.isEmpty = false := by cases hls : ls <;> simp_all
            simp only [hhere, hne', Bool.not_false, Bool.and_self, if_true]
            constructor
            · intro a ha next
              simp only [List.mem_singleton] at ha
              subst ha
              rw [key next]; simp [toks1, key none]
            · simp [toks1, key none]
        obtain ⟨l1, l2⟩ := hL
        have hall : ∀ a ∈ serverOptions σ, ∀ next, lexArg mainRows a next = (toks1 a, false) := by
          intro a ha next
          unfold serverOptions at ha
          simp only [] at ha
          rw [← hlsd] at ha
          simp only [List.mem_append] at ha
          rcases ha with (ha | ha) | ha
          · exact a1 a ha next
          · exact l1 a ha next
          · exact c1 a ha next
        rw [lex_flat mainRows _ toks1 hall]
        unfold serverOptions
        simp only []
        rw [← hlsd, List.flatMap_append, List.flatMap_append, a2, l2, c2]
        simp [presentRows, List.filter_append, List.map_append]

end Opts

namespace Opts
open Gen.OptTable

/-- the formula under which field `f` ends non-zero: some present option stores into it -/
def setFormula (t : CTab) (f : Field) : BExpr CAtom :=
  t.foldr (fun p acc => if setsField p.2.2 f then .or p.1 acc else acc) .ff

theorem eval_setFormula (σ : Acc → Bool) (t : CTab) (f : Field) :
    cEval σ (setFormula t f) = t.any (fun p => cEval σ p.1 && setsField p.2.2 f) := by
  induction t with
  | nil => rfl
  | cons p rest ih =>
    simp only [setFormula, List.foldr_cons, List.any_cons]
    by_cases h : setsField p.2.2 f = true
    · simp only [h, if_true, Bool.and_true]
      simp only [cEval, BExpr.eval] at ih ⊢
      simp only [setFormula] at ih
      rw [ih]
    · simp only [h, Bool.false_eq_true, if_false]
      simp only [Bool.not_eq_true] at h
      simp only [h, Bool.and_false, Bool.false_or]
      exact ih

def rowsOk (t : CTab) : Bool :=
  t.all (fun p => match rowEff p.2.1 with | some e => e.reqs == p.2.2.reqs && e.sets == p.2.2.sets | none => false)

/-- everything the forwarding theorem needs from the regenerated tables -/
def tablesOk (t : CTab) : Bool :=
  lettersOk && rowsOk t && allNonzero t && reqsOk t [] &&
  !t.any (fun p => setsField p.2.2 .f_human_readable) && decide (init.ints .f_human_readable ≤ 1)

/-- what `Opts.finish` was written from: the statements after the option loop of `ParseArguments` that touch the
fields it reads or writes (version and help exits, `xfer_dirs` from `recurse`, "`--delete` needs `-r`"). `list_only` has
no row in the tables in use, so the inner branch of the fourth statement always takes `else`. -/
def finishTailExpected : List String := [
  "if version_opt_cnt > 0 { return &ExitError{Code: 0, Output: version.Read()} }",
  "if opts.human_readable > 1 && len(args) == 1 { return &ExitError{Code: 0, Output: opts.Help()} }",
  "if opts.recurse != 0 { opts.xfer_dirs = 1 }",
  "if opts.xfer_dirs < 0 { if opts.list_only != 0 { opts.xfer_dirs = 1 } else { opts.xfer_dirs = 0 } }",
  "if opts.delete_mode != 0 && opts.recurse == 0 { return fmt.Errorf(\"--delete does not work without --recursive (-r)\") }"]

/-- **regenerated tie of `Opts.finish`**: the tail of `ParseArguments` reads as above on the current source (any other
text breaks this obligation; then `finish` has to be looked at again), and no table in use has a `list-only` row -/
theorem finish_tail_pinned :
    (Gen.OptTable.finishTail == finishTailExpected) = true ∧
    (mainRows ++ daemonAllRows).all (fun r => r.long != "list-only".toList) = true := by
  constructor <;> decide +kernel

theorem finish_ok (n : Nat) (s : St) (hv : s.version = false) (hh : s.ints .f_human_readable ≤ 1)
    (hd : s.ints .f_delete_mode ≠ 0 → s.ints .f_recurse ≠ 0) :
    ∃ s', finish n s = .ok s' ∧ ∀ f, f ≠ .f_xfer_dirs → s'.ints f = s.ints f := by
  have hh' : ¬ (s.ints .f_human_readable > 1 ∧ n = 1) := fun h => by omega
  have hd' : ¬ (s.ints .f_delete_mode ≠ 0 ∧ s.ints .f_recurse = 0) := fun h => hd h.1 h.2
  simp only [finish, hv, Bool.false_eq_true, if_false, hh', hd']
  refine ⟨_, rfl, ?_⟩
  intro f hf
  have key : ∀ (s0 : St) (v : Int), (s0.set .f_xfer_dirs v).ints f = s0.ints f := by
    intro s0 v; simp [St.set, hf]
  by_cases h1 : s.ints .f_recurse ≠ 0
  · simp only [h1, ne_eq, not_false_eq_true, if_true]
    split <;> simp [key]
  · simp only [h1, if_false]
    split <;> simp [key]

/-- **forwarding**: whatever the client's accessors say, the server parses the rendered options to a
state in which every field is non-zero exactly when its formula holds -/
theorem parse_serverOptions (σ : Acc → Bool) (t : CTab) (ht : tokTable = some t) (hok : tablesOk t = true)
    (hdel : cEval σ (setFormula t .f_delete_mode) = true → cEval σ (setFormula t .f_recurse) = true) :
    ∃ s', parse (serverOptions σ) = .ok s' ∧
      ∀ f, f ≠ .f_xfer_dirs → init.ints f = 0 → ((s'.ints f != 0) = cEval σ (setFormula t f)) := by
  simp only [tablesOk, Bool.and_eq_true, Bool.not_eq_true', decide_eq_true_eq] at hok
  obtain ⟨⟨⟨⟨⟨hl, hr⟩, hnz⟩, hq⟩, hhr⟩, hh1⟩ := hok
  have hlex := lex_serverOptions σ t ht hl
  have hrun := runMain_present (serverOptions σ) σ t init [] hr hnz hq (by simp)
  have hv : (applyAll (presentRows σ t) init).version = false := by rw [applyAll_version]; rfl
  have hh : (applyAll (presentRows σ t) init).ints .f_human_readable ≤ 1 := by
    rw [applyAll_other σ t init _ hhr]; exact hh1
  have hd : (applyAll (presentRows σ t) init).ints .f_delete_mode ≠ 0 → (applyAll (presentRows σ t) init).ints .f_recurse ≠ 0 := by
    rw [applyAll_nz σ t init .f_delete_mode hnz (by decide), applyAll_nz σ t init .f_recurse hnz (by decide),
      ← eval_setFormula, ← eval_setFormula]
    have i1 : init.ints .f_delete_mode = 0 := by decide
    have i2 : init.ints .f_recurse = 0 := by decide
    simp only [i1, i2, ne_eq, not_true_eq_false, false_or]
    exact hdel
  obtain ⟨s', hs', hsame⟩ := finish_ok (serverOptions σ).length _ hv hh hd
  refine ⟨s', ?_, ?_⟩
  · simp only [parse, parseFrom, hlex, hrun, hs']
  · intro f hf h0
    rw [hsame f hf, eval_setFormula]
    have := applyAll_nz σ t init f hnz (by omega)
    rw [Bool.eq_iff_iff]
    simp only [bne_iff_ne]
    rw [this]
    simp [h0]

end Opts
