/-! `utf8.Valid` (Go): the check `io/fs.ValidPath` applies to every path handed to an `fs.FS`
(`os.Root.FS()` included), which is why directories whose names are not valid UTF-8 cannot be
descended into by `fs.WalkDir`. -/
namespace Utf8

def cont (b : UInt8) : Bool := 0x80 ≤ b && b ≤ 0xBF

def valid : List UInt8 → Bool
  | [] => true
  | b0 :: r =>
    if b0 < 0x80 then valid r
    else if 0xC2 ≤ b0 && b0 ≤ 0xDF then
      match r with
      | b1 :: r' => cont b1 && valid r'
      | _ => false
    else if 0xE0 ≤ b0 && b0 ≤ 0xEF then
      match r with
      | b1 :: b2 :: r' =>
        (if b0 == 0xE0 then 0xA0 ≤ b1 && b1 ≤ 0xBF
         else if b0 == 0xED then 0x80 ≤ b1 && b1 ≤ 0x9F
         else cont b1) && cont b2 && valid r'
      | _ => false
    else if 0xF0 ≤ b0 && b0 ≤ 0xF4 then
      match r with
      | b1 :: b2 :: b3 :: r' =>
        (if b0 == 0xF0 then 0x90 ≤ b1 && b1 ≤ 0xBF
         else if b0 == 0xF4 then 0x80 ≤ b1 && b1 ≤ 0x8F
         else cont b1) && cont b2 && cont b3 && valid r'
      | _ => false
    else false

end Utf8
