import RsyncModel.RecvTie
import RsyncModel.Mux
/-! # Readers of peer-supplied input as the source has them

`recvIdMapping1` (uid/gid name lists), `RecvFilterList` (the client's filter rules) and
`MultiplexReader.ReadMsg` (frames from a server), translated from /repo on every run with the
connection's input as a byte list that is consumed. For **every** input they return a value or an
error — never `panic` (no negative or oversized `make`, no slice out of range) — and their loops end
within `len(input)+1` passes. -/
namespace PeerInput
open Go Wire

/-- what one pass of a reading loop may do: fail, or go on having consumed input (or stop) -/
def Good {σ : Type} (m : σ → Nat) (body : σ → Res (σ × Bool)) (s : σ) : Prop :=
  body s = .err ∨ ∃ s' b, body s = .ok (s', b) ∧ (b = true → m s' < m s)

/-- a loop all of whose passes are `Good` returns a value or an error within `m s + 1` passes -/
theorem loopB_no_panic {σ : Type} (m : σ → Nat) (body : σ → Res (σ × Bool)) (hg : ∀ s, Good m body s) :
    ∀ (fuel : Nat) (s : σ), m s < fuel → Go.loopB fuel body s ≠ .panic := by
  intro fuel
  induction fuel with
  | zero => intro s h; omega
  | succ n ih =>
    intro s h
    rw [Go.loopB]
    rcases hg s with he | ⟨s', b, hb, hdec⟩
    · rw [he]; simp [Go.bind]
    · rw [hb]
      simp only [Go.bind_ok]
      cases b with
      | false => simp
      | true =>
        simp only [if_true]
        exact ih s' (by have := hdec rfl; omega)

theorem readI32_cases (inp : Bytes) : Go.readI32 inp = .err ∨ ∃ v rest, Go.readI32 inp = .ok (v, rest) ∧ rest.length + 4 = inp.length := by
  unfold Go.readI32 decI32
  by_cases h : inp.length < 4
  · left; simp [h]
  · right; simp only [h, if_false]
    exact ⟨_, _, rfl, by simp only [List.length_drop]; omega⟩

theorem readByte_cases (inp : Bytes) : Go.readByte inp = .err ∨ ∃ v rest, Go.readByte inp = .ok (v, rest) ∧ rest.length ≤ inp.length := by
  cases inp with
  | nil => left; rfl
  | cons b r => right; exact ⟨b, r, rfl, by simp⟩

theorem readFull_cases (inp : Bytes) (n : Int) : Go.readFull inp n = .err ∨ ∃ d rest, Go.readFull inp n = .ok (d, rest) ∧ rest.length ≤ inp.length := by
  unfold Go.readFull
  split
  · left; rfl
  · right; exact ⟨_, _, rfl, by simp only [List.length_drop]; omega⟩

theorem readU32_cases (inp : Bytes) : Go.readU32 inp = .err ∨ ∃ v rest, Go.readU32 inp = .ok (v, rest) ∧ rest.length ≤ inp.length := by
  unfold Go.readU32
  split
  · left; rfl
  · right; exact ⟨_, _, rfl, by simp only [List.length_drop]; omega⟩

theorem make_nat (n : Nat) : Go.make (n : Int) = .ok (List.replicate n 0) := by
  unfold Go.make; rw [if_neg (by omega)]; simp

/-- one pass of the id-list reader -/
theorem recvId_good (s : Bytes × List Go.Out) : Good (fun s => s.1.length) Gen.Pure.recvIdLoop_body0 s := by
  obtain ⟨i, o⟩ := s
  unfold Good
  simp only [Gen.Pure.recvIdLoop_body0]
  rcases readI32_cases i with h1 | ⟨id, i1, h1, l1⟩
  · left; rw [h1]; rfl
  · rw [h1]; simp only [Go.bind_ok]
    split
    · right; exact ⟨_, false, rfl, by simp⟩
    · rcases readByte_cases i1 with h2 | ⟨len, i2, h2, l2⟩
      · left; rw [h2]; rfl
      · rw [h2]; simp only [Go.bind_ok, make_nat]
        rcases readFull_cases i2 ((List.replicate len.toNat (0 : UInt8)).length : Int) with h3 | ⟨nm, i3, h3, l3⟩
        · left; rw [h3]; rfl
        · right; rw [h3]; simp only [Go.bind_ok]
          exact ⟨_, true, rfl, fun _ => by simp only; omega⟩

/-- **the id-list reader never panics and always ends**, whatever bytes arrive -/
theorem recvIdLoop_no_panic (inp : Bytes) (out : List Go.Out) : Gen.Pure.recvIdLoop inp out ≠ .panic := by
  unfold Gen.Pure.recvIdLoop
  have hloop := loopB_no_panic (fun s : Bytes × List Go.Out => s.1.length) Gen.Pure.recvIdLoop_body0 recvId_good
    (inp.length + 1) (inp, out) (by simp)
  cases hl : Go.loopB (inp.length + 1) Gen.Pure.recvIdLoop_body0 (inp, out) with
  | panic => exact absurd hl hloop
  | err => simp [Go.bind]
  | ok r => simp [Go.bind]

/-- one pass of the filter-list reader: a negative or oversized length is an error *before* anything is allocated -/
theorem recvFilter_good (s : Bytes × List Go.Out) : Good (fun s => s.1.length) Gen.Pure.recvFilterLoop_body0 s := by
  obtain ⟨i, o⟩ := s
  unfold Good
  simp only [Gen.Pure.recvFilterLoop_body0]
  rcases readI32_cases i with h1 | ⟨len, i1, h1, l1⟩
  · left; rw [h1]; rfl
  · rw [h1]; simp only [Go.bind_ok]
    split
    · right; exact ⟨_, false, rfl, by simp⟩
    · split
      · left; rfl
      · rename_i hz hbad
        have hnn : 0 ≤ len.toInt := by
          have hb : ¬ (len < (0 : Int32)) := by
            intro hh; apply hbad; simp [hh]
          have : ¬ len.toInt < (0 : Int32).toInt := fun hh => hb (Int32.lt_iff_toInt_lt.mpr hh)
          simpa using this
        have hm : Go.make len.toInt = .ok (List.replicate len.toInt.toNat 0) := by
          unfold Go.make; rw [if_neg (by omega)]
        rw [hm]; simp only [Go.bind_ok]
        rcases readFull_cases i1 ((List.replicate len.toInt.toNat (0 : UInt8)).length : Int) with h3 | ⟨ln, i3, h3, l3⟩
        · left; rw [h3]; rfl
        · right; rw [h3]; simp only [Go.bind_ok]
          exact ⟨_, true, rfl, fun _ => by simp only; omega⟩

/-- **the filter-list reader never panics and always ends**, whatever bytes a client sends -/
theorem recvFilterLoop_no_panic (inp : Bytes) (out : List Go.Out) : Gen.Pure.recvFilterLoop inp out ≠ .panic := by
  unfold Gen.Pure.recvFilterLoop
  have hloop := loopB_no_panic (fun s : Bytes × List Go.Out => s.1.length) Gen.Pure.recvFilterLoop_body0 recvFilter_good
    (inp.length + 1) (inp, out) (by simp)
  cases hl : Go.loopB (inp.length + 1) Gen.Pure.recvFilterLoop_body0 (inp, out) with
  | panic => exact absurd hl hloop
  | err => simp [Go.bind]
  | ok r => simp [Go.bind]

/-- **`ReadMsg` as the source has it**: for every input a frame or an error, never a panic; a frame is
returned exactly when the model's `parse` finds a first frame, and it is that frame (same tag, same
payload, same rest); a declared length above `maxMessageSize` is an error before anything is allocated -/
theorem readMsg_tied (inp : Bytes) :
    Gen.Pure.ReadMsg inp =
      if inp.length < 4 then .err
      else if Mux.lenOf inp > Mux.maxMsg then .err
      else if (inp.drop 4).length < Mux.lenOf inp then .err
      else .ok (Mux.tagOf inp, (inp.drop 4).take (Mux.lenOf inp), (inp.drop 4).drop (Mux.lenOf inp)) := by
  unfold Gen.Pure.ReadMsg Go.readU32
  by_cases h4 : inp.length < 4
  · simp [h4, Go.bind]
  · simp only [h4, if_false, Go.bind_ok]
    have hmax : Mux.maxMsg = 262144 := by decide
    have hl : ((Mux.hdrOf inp) &&& (16777215 : UInt32)).toNat = Mux.lenOf inp := rfl
    have hgt : (Mux.hdrOf inp &&& (16777215 : UInt32)) > (262144 : UInt32) ↔ Mux.lenOf inp > Mux.maxMsg := by
      rw [hmax, gt_iff_lt, UInt32.lt_iff_toNat_lt, ← hl]; rfl
    show (if decide ((Mux.hdrOf inp &&& (16777215 : UInt32)) > (262144 : UInt32)) = true then _ else _) = _
    by_cases hbig : Mux.lenOf inp > Mux.maxMsg
    · have : decide ((Mux.hdrOf inp &&& (16777215 : UInt32)) > (262144 : UInt32)) = true := by simpa using hgt.mpr hbig
      rw [if_pos this, if_pos hbig]
    · have : ¬ decide ((Mux.hdrOf inp &&& (16777215 : UInt32)) > (262144 : UInt32)) = true := by simpa using fun hh => hbig (hgt.mp hh)
      rw [if_neg this, if_neg hbig]
      have hl' : (UInt32.ofNat (leVal (List.take 4 inp)) &&& (16777215 : UInt32)).toNat = Mux.lenOf inp := rfl
      rw [hl', make_nat]
      simp only [Go.bind_ok, List.length_replicate]
      unfold Go.readFull
      by_cases hs : (inp.drop 4).length < Mux.lenOf inp
      · have : ((Mux.lenOf inp : Nat) : Int) < 0 ∨ (((inp.drop 4).length : Nat) : Int) < ((Mux.lenOf inp : Nat) : Int) := Or.inr (by omega)
        rw [if_pos this, if_pos hs]; rfl
      · have : ¬ (((Mux.lenOf inp : Nat) : Int) < 0 ∨ (((inp.drop 4).length : Nat) : Int) < ((Mux.lenOf inp : Nat) : Int)) := by omega
        rw [if_neg this, if_neg hs]
        simp only [Go.bind_ok, Int.toNat_natCast]
        rfl

theorem readMsg_no_panic (inp : Bytes) : Gen.Pure.ReadMsg inp ≠ .panic := by
  rw [readMsg_tied]; split <;> (try split) <;> (try split) <;> simp

end PeerInput
