import RsyncModel.OptsDaemon
import RsyncModel.Gen.Ssh
/-! Model of the SSH front end (internal/anonssh): who is admitted, which channel and request
types are served, and what an `exec` request may run. The shapes of the source this stands for are
pinned by regenerated facts (`SshSpec`); the behaviour is tied by the `ssh` correspondence suite. -/
namespace Ssh
open Opts

/-! ### authorised keys -/

/-- one line of the authorized_keys file, with what `ssh.ParseAuthorizedKey` makes of it
(`none`: not a key) — the parser is x/crypto/ssh's and is an input of the model -/
structure KeyLine where
  raw : Str
  blob : Option Str

def isSpaceC (c : Char) : Bool := c == ' ' || c == '\t' || c == '\n' || c == '\r' || c.toNat == 11 || c.toNat == 12
def trimSpace (s : Str) : Str := ((s.dropWhile isSpaceC).reverse.dropWhile isSpaceC).reverse

/-- `tr == "" || strings.HasPrefix(tr, "#")` -/
def skipped (l : KeyLine) : Bool :=
  let tr := trimSpace l.raw
  tr.isEmpty || tr.head? == some '#'

/-- `loadAuthorizedKeys`: `none` = the load fails (a line that is neither skipped nor a key) -/
def loadKeys : List KeyLine → Option (List Str)
  | [] => some []
  | l :: rest =>
    if skipped l then loadKeys rest
    else match l.blob, loadKeys rest with
      | some k, some ks => some (k :: ks)
      | _, _ => none

/-- a listener: `keys = none` is the anonymous listener (`authorizedKeys == nil`), `some ks` an
authorised one — possibly with an empty set -/
def admits (keys : Option (List Str)) (presented : Str) : Bool :=
  match keys with
  | none => true
  | some ks => ks.contains presented

/-- `ListenerFromConfig`: keys are loaded iff an authorised-SSH address is configured -/
def listenerKeys (authorizedAddress : Str) (file : List KeyLine) : Option (Option (List Str)) :=
  if authorizedAddress.isEmpty then some none
  else match loadKeys file with
    | some ks => some (some ks)
    | none => none          -- start-up fails

/-! ### channels and requests -/

def channelAccepted (typ : String) : Bool := typ == "session"

inductive ReqOutcome
  | ignored        -- `env`: logged, nothing else
  | refused        -- error reply, channel closed
  | runs (m : Mode)
deriving Repr

/-- the anonymous gate of the `exec` request -/
def gate (cmdline : List Str) : Bool :=
  match cmdline with
  | _ :: a :: b :: _ => a == "--server".toList && b == "--daemon".toList
  | _ => false

/-- `exec`: the split command line is handed to `maincmd.Main`, which parses `args[1:]` -/
def exec (anonymous : Bool) (cmdline : List Str) : ReqOutcome :=
  if cmdline.isEmpty then .refused          -- no program name: refused (D27: once a panic in Main)
  else if anonymous && !gate cmdline then .refused else .runs (dispatch cmdline.tail)

def request (anonymous : Bool) (typ : String) (cmdline : List Str) : ReqOutcome :=
  if typ == "env" then .ignored
  else if typ == "exec" then exec anonymous cmdline
  else .refused

end Ssh
