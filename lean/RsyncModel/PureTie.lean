import RsyncModel.Gen.Pure
import RsyncModel.Checksum
import RsyncModel.Delta.Go
import RsyncModel.Mux
import RsyncModel.RecvData
import RsyncModel.Generator
import RsyncModel.Delta.AlgB
/-! # Tie theorems: the regenerated translations of the Go source equal the hand models

`Gen/Pure.lean` is rewritten from /repo on every run by `tools/extract/pure.go`. Each theorem here
says that a regenerated definition *is* the function the property theorems reason about (and, for
the monadic ones, that it never panics and never runs out of loop fuel). A change of the Go source
that alters one of these functions breaks the corresponding proof. -/
namespace PureTie
open Spec Go

/-! ## rsyncchecksum -/

theorem signExtend_tied (b : UInt8) : Gen.Pure.SignExtend b = signExtend b := rfl

theorem tag2_tied (a b : UInt16) : Gen.Pure.Tag2 a b = a + b := by
  unfold Gen.Pure.Tag2
  apply UInt16.toNat_inj.mp
  simp only [UInt16.toNat_and, UInt16.toNat_add]
  have e : (65535 : UInt16).toNat = 2 ^ 16 - 1 := by decide
  rw [e, Nat.and_two_pow_sub_one_eq_mod]
  simp

theorem tag_tied (sum : UInt32) : Gen.Pure.Tag sum = tag sum := by
  unfold Gen.Pure.Tag tag tag2
  rw [tag2_tied]

theorem sumHalves_tied (sum a b : UInt32) :
    Gen.Pure.sumHalves sum a b = (sum &&& (0xFFFF : UInt32), sum >>> 16) := rfl

theorem packSum_tied (s1 s2 x : UInt32) : Gen.Pure.packSum s1 s2 x = pack (s1, s2) := rfl

/-- the byte-at-a-time loop of `Checksum1` is `c1tail` -/
theorem checksum1_tail_loop (buf : Bytes) : ∀ (fuel : Nat) (i : Nat) (s1 s2 : UInt32),
    i ≤ buf.length → buf.length - i ≤ fuel →
    Go.loop fuel (Gen.Pure.Checksum1_cond1 buf buf.length) (Gen.Pure.Checksum1_body1 buf buf.length) (s1, s2, (i : Int))
      = .ok ((c1tail s1 s2 (buf.drop i)).1, (c1tail s1 s2 (buf.drop i)).2, (buf.length : Int)) := by
  intro fuel
  induction fuel with
  | zero =>
    intro i s1 s2 hi hf
    have : i = buf.length := by omega
    subst this
    simp [Go.loop, Gen.Pure.Checksum1_cond1, c1tail]
  | succ n ih =>
    intro i s1 s2 hi hf
    by_cases h : i = buf.length
    · subst h
      simp [Go.loop, Gen.Pure.Checksum1_cond1, c1tail]
    · have hlt : i < buf.length := by omega
      have hd : buf.drop i = buf[i] :: buf.drop (i + 1) := by
        rw [List.drop_eq_getElem_cons hlt]
      have hc : Gen.Pure.Checksum1_cond1 buf buf.length (s1, s2, (i : Int)) = true := by
        simp [Gen.Pure.Checksum1_cond1]; omega
      have hidx : Go.idx buf (i : Int) = .ok buf[i] := by
        unfold Go.idx
        have : ¬ ((i : Int) < 0) := by omega
        simp [this, hlt]
      rw [Go.loop, if_pos hc]
      have hb : Gen.Pure.Checksum1_body1 buf buf.length (s1, s2, (i : Int))
          = .ok (s1 + signExtend buf[i], s2 + (s1 + signExtend buf[i]), ((i + 1 : Nat) : Int)) := by
        simp only [Gen.Pure.Checksum1_body1, hidx, Go.bind_ok, signExtend_tied]
        simp
      rw [hb, Go.bind_ok, ih (i + 1) _ _ (by omega) (by omega), hd]
      simp [c1tail]


theorem idx_nat (buf : Bytes) (n : Nat) (h : n < buf.length) : Go.idx buf (n : Int) = .ok buf[n] := by
  unfold Go.idx
  have : ¬ ((n : Int) < 0) := by omega
  simp [this, h]

theorem idx_nat_add (buf : Bytes) (n k : Nat) (h : n + k < buf.length) :
    Go.idx buf ((n : Int) + (k : Int)) = .ok buf[n + k] := by
  rw [← Int.natCast_add]; exact idx_nat buf (n + k) h

/-- the 4-unrolled loop of `Checksum1` keeps the value of the byte-at-a-time sum of the rest -/
theorem checksum1_unrolled_loop (buf : Bytes) : ∀ (fuel : Nat) (i : Nat) (s1 s2 : UInt32),
    i ≤ buf.length → buf.length - i ≤ fuel →
    ∃ s1' s2' i', Go.loop fuel (Gen.Pure.Checksum1_cond0 buf buf.length) (Gen.Pure.Checksum1_body0 buf buf.length) (s2, s1, (i : Int))
        = .ok (s2', s1', ((i' : Nat) : Int)) ∧ i' ≤ buf.length ∧
      c1tail s1' s2' (buf.drop i') = c1tail s1 s2 (buf.drop i) := by
  intro fuel
  induction fuel with
  | zero =>
    intro i s1 s2 hi hf
    have : i = buf.length := by omega
    subst this
    refine ⟨s1, s2, buf.length, ?_, Nat.le_refl _, rfl⟩
    simp [Go.loop, Gen.Pure.Checksum1_cond0]; omega
  | succ n ih =>
    intro i s1 s2 hi hf
    by_cases h : i + 4 < buf.length
    · have hc : Gen.Pure.Checksum1_cond0 buf buf.length (s2, s1, (i : Int)) = true := by
        simp [Gen.Pure.Checksum1_cond0]; omega
      have e0 := idx_nat buf i (by omega)
      have e1 := idx_nat_add buf i 1 (by omega)
      have e2 := idx_nat_add buf i 2 (by omega)
      have e3 := idx_nat_add buf i 3 (by omega)
      have e00 : Go.idx buf ((i : Int) + (0 : Int)) = .ok buf[i] := by simpa using e0
      have hd : buf.drop i = buf[i] :: buf[i+1] :: buf[i+2] :: buf[i+3] :: buf.drop (i + 4) := by
        rw [List.drop_eq_getElem_cons (by omega : i < buf.length)]
        rw [List.drop_eq_getElem_cons (by omega : i + 1 < buf.length)]
        rw [List.drop_eq_getElem_cons (by omega : i + 1 + 1 < buf.length)]
        rw [List.drop_eq_getElem_cons (by omega : i + 1 + 1 + 1 < buf.length)]
      have hb : Gen.Pure.Checksum1_body0 buf buf.length (s2, s1, (i : Int))
          = .ok (s2 + (4 * (s1 + signExtend buf[i]) + 3 * signExtend buf[i+1] + 2 * signExtend buf[i+2] + signExtend buf[i+3]),
                 s1 + (signExtend buf[i] + signExtend buf[i+1] + signExtend buf[i+2] + signExtend buf[i+3]),
                 ((i + 4 : Nat) : Int)) := by
        simp only [Gen.Pure.Checksum1_body0]
        have c1 : ((1 : Nat) : Int) = (1 : Int) := rfl
        have c2 : ((2 : Nat) : Int) = (2 : Int) := rfl
        have c3 : ((3 : Nat) : Int) = (3 : Int) := rfl
        rw [c1] at e1; rw [c2] at e2; rw [c3] at e3
        simp only [e0, e1, e2, e3, e00, Go.bind_ok, signExtend_tied]
        simp
      obtain ⟨s1', s2', i', hl, hi', hc1⟩ := ih (i + 4) _ _ (by omega) (by omega)
      refine ⟨s1', s2', i', ?_, hi', ?_⟩
      · rw [Go.loop, if_pos hc, hb, Go.bind_ok]; exact hl
      · rw [hc1, hd, c1tail4]
    · refine ⟨s1, s2, i, ?_, hi, rfl⟩
      have hc : Gen.Pure.Checksum1_cond0 buf buf.length (s2, s1, (i : Int)) = false := by
        simp [Gen.Pure.Checksum1_cond0]; omega
      rw [Go.loop]; simp [hc]

/-- **`rsyncchecksum.Checksum1` as the source has it is the model's `checksum1`**, never panics and
never exceeds its loop bounds, for every buffer -/
theorem checksum1_tied (buf : Bytes) : Gen.Pure.Checksum1 buf = .ok (checksum1 buf) := by
  unfold Gen.Pure.Checksum1 checksum1
  rw [c1loop_eq_tail]
  simp only
  by_cases h4 : (buf.length : Int) > 4
  · have hd : decide ((buf.length : Int) > (4 : Int)) = true := by simpa using h4
    simp only [hd, if_true]
    obtain ⟨s1', s2', i', hl, hi', hc⟩ := checksum1_unrolled_loop buf buf.length 0 0 0 (by omega) (by omega)
    have hl' : Go.loop buf.length (Gen.Pure.Checksum1_cond0 buf buf.length) (Gen.Pure.Checksum1_body0 buf buf.length) ((0 : UInt32), (0 : UInt32), (0 : Int))
        = .ok (s2', s1', (i' : Int)) := by simpa using hl
    rw [hl']
    simp only [Go.bind_ok]
    rw [checksum1_tail_loop buf buf.length i' s1' s2' hi' (by omega)]
    simp only [Go.bind_ok, hc, List.drop_zero]
  · have hd : decide ((buf.length : Int) > (4 : Int)) = false := by simpa using h4
    simp only [hd, Bool.false_eq_true, if_false, Go.bind_ok]
    have := checksum1_tail_loop buf buf.length 0 0 0 (by omega) (by omega)
    simp only [Int.natCast_zero, List.drop_zero] at this
    rw [this]
    simp only [Go.bind_ok]


/-! ## the rolling update of `hashSearch` (match.go) -/

theorem idx_zero_cons (x : UInt8) (l : Bytes) : Go.idx (x :: l) (0 : Int) = .ok x := by
  simp [Go.idx]

theorem idx_mid (x y : UInt8) (w tl : Bytes) :
    Go.idx (x :: (w ++ y :: tl)) ((w.length + 1 : Nat) : Int) = .ok y := by
  have h : w.length + 1 < (x :: (w ++ y :: tl)).length := by simp
  rw [idx_nat _ _ h]
  simp

/-- with a further byte `y` behind the window `x :: w`, the source's update is `rollStep` -/
theorem rollUpdate_more (s1 s2 : UInt32) (x y : UInt8) (w tl : Bytes) :
    Gen.Pure.rollUpdate s1 s2 ((w.length + 1 : Nat) : Int) (x :: (w ++ y :: tl)) true
      = .ok ((rollStep s1 s2 (UInt32.ofInt ((w.length + 1 : Nat) : Int)) x y).1,
             (rollStep s1 s2 (UInt32.ofInt ((w.length + 1 : Nat) : Int)) x y).2, ((w.length + 1 : Nat) : Int)) := by
  unfold Gen.Pure.rollUpdate rollStep
  simp only [idx_zero_cons, idx_mid, Go.bind_ok, if_true, signExtend_tied]

/-- at the end of the file the window only shrinks: the source's update is `dropStep` -/
theorem rollUpdate_last (s1 s2 : UInt32) (x : UInt8) (l : Bytes) (k : Int) :
    Gen.Pure.rollUpdate s1 s2 k (x :: l) false
      = .ok ((dropStep s1 s2 (UInt32.ofInt k) x).1, (dropStep s1 s2 (UInt32.ofInt k) x).2, k - 1) := by
  unfold Gen.Pure.rollUpdate dropStep
  simp only [idx_zero_cons, Go.bind_ok, Bool.false_eq_true, if_false, signExtend_tied]

theorem cong_ofInt_nat (n : Nat) : Cong (UInt32.ofInt (n : Int)) (n : Int) := by
  unfold Cong
  have : (UInt32.ofInt (n : Int)).toNat = n % 2 ^ 32 := by
    unfold UInt32.ofInt
    have e : ((n : Int) % 2 ^ 32).toNat = n % 2 ^ 32 := by omega
    rw [e, UInt32.toNat_ofNat']
    simp
  rw [this]; simp only [Nat.reducePow]; omega

/-- **the rolling checksum of the source is exact**: from the weak sum of the window `x :: w` the
statements `s1 -= …; … s2 = uint32(uint16(s2))` of `hashSearch` produce the weak sum of `w ++ [y]` -/
theorem rollUpdate_wsum (x y : UInt8) (w tl : Bytes) :
    Gen.Pure.rollUpdate (wsum (x :: w)).1 (wsum (x :: w)).2 ((w.length + 1 : Nat) : Int) (x :: (w ++ y :: tl)) true
      = .ok ((wsum (w ++ [y])).1, (wsum (w ++ [y])).2, ((w.length + 1 : Nat) : Int)) := by
  rw [rollUpdate_more, rollStep_wsum x y w _ (by have := cong_ofInt_nat (w.length + 1); simpa using this)]

theorem rollUpdate_wsum_last (x : UInt8) (w : Bytes) :
    Gen.Pure.rollUpdate (wsum (x :: w)).1 (wsum (x :: w)).2 ((w.length + 1 : Nat) : Int) (x :: w) false
      = .ok ((wsum w).1, (wsum w).2, (w.length : Int)) := by
  rw [rollUpdate_last, dropStep_wsum x w _ (by have := cong_ofInt_nat (w.length + 1); simpa using this)]
  simp


/-! ## lengths and offsets of blocks on both sides -/

/-- `readChunk`: the window at `offset` is a full block or what is left of the file -/
theorem chunkLen_tied (bl : Int32) (size offset k0 : Int) :
    Gen.Pure.chunkLen bl size offset k0 = min bl.toInt (size - offset) := by
  unfold Gen.Pure.chunkLen
  simp only
  split <;> rename_i h <;> simp at h <;> omega

/-- the length a candidate block must have at `offset` (match.go) is the same quantity -/
theorem candLen_tied (bl : Int32) (size offset : Int) :
    Gen.Pure.candLen bl size offset = min bl.toInt (size - offset) := by
  unfold Gen.Pure.candLen
  simp only
  split <;> rename_i h <;> simp at h <;> omega

theorem candLen_eq_chunkLen (bl : Int32) (size offset k0 : Int) :
    Gen.Pure.candLen bl size offset = Gen.Pure.chunkLen bl size offset k0 := by
  rw [candLen_tied, chunkLen_tied]

/-- a validated header as the 32-bit fields the source holds -/
structure Head32 where
  count : Int32
  bl : Int32
  rem : Int32

def Head32.ok (h : Head32) : Prop := 0 ≤ h.count.toInt ∧ 0 ≤ h.bl.toInt ∧ 0 ≤ h.rem.toInt

def Head32.toHead (h : Head32) (cs : Nat) : Delta.Head := ⟨h.count.toInt.toNat, h.bl.toInt.toNat, cs, h.rem.toInt.toNat⟩

theorem int32_eq_sub_one_iff (i c : Int32) (hc : 0 ≤ c.toInt) : (i == c - 1) = true ↔ i.toInt = c.toInt - 1 := by
  rw [beq_iff_eq]
  constructor
  · intro h; subst h
    have h1 := c.toInt_lt; have h2 := c.le_toInt
    rw [Int32.toInt_sub, Int32.toInt_one]
    simp only [Int.bmod]; split <;> omega
  · intro h
    apply Int32.toInt_inj.mp
    rw [h, Int32.toInt_sub, Int32.toInt_one]
    have h1 := c.toInt_lt
    simp only [Int.bmod]; split <;> omega

theorem int32_ne_zero_iff (r : Int32) : (r != 0) = true ↔ r.toInt ≠ 0 := by
  rw [bne_iff_ne]
  constructor
  · intro h hc; apply h; apply Int32.toInt_inj.mp; rw [hc]; rfl
  · intro h hc; apply h; rw [hc]; rfl

/-- **sender side** (`receiveSums`): the length recorded for block `i` is the model's `blockLen` -/
theorem sumLen_tied (h : Head32) (hok : h.ok) (cs : Nat) (i : Int32) (hi : 0 ≤ i.toInt) (x : Int) :
    Gen.Pure.sumLen i h.count h.bl h.rem x = (Delta.blockLen (h.toHead cs) i.toInt.toNat : Int) := by
  obtain ⟨hc, hb, hr⟩ := hok
  unfold Gen.Pure.sumLen Delta.blockLen Head32.toHead
  simp only
  by_cases h1 : (i == h.count - 1) = true
  · by_cases h2 : (h.rem != 0) = true
    · have e1 := (int32_eq_sub_one_iff i h.count hc).mp h1
      have e2 := (int32_ne_zero_iff h.rem).mp h2
      simp only [h1, h2, Bool.and_self, if_true]
      have : i.toInt.toNat + 1 = h.count.toInt.toNat ∧ h.rem.toInt.toNat ≠ 0 := by omega
      rw [if_pos this]; omega
    · have e2 : h.rem.toInt = 0 := by
        have hn : ¬ (h.rem.toInt ≠ 0) := fun hh => h2 ((int32_ne_zero_iff h.rem).mpr hh)
        omega
      simp only [h1, h2, Bool.and_false, Bool.false_eq_true, if_false]
      have : ¬ (i.toInt.toNat + 1 = h.count.toInt.toNat ∧ h.rem.toInt.toNat ≠ 0) := by omega
      rw [if_neg this]; omega
  · have e1 : i.toInt ≠ h.count.toInt - 1 := fun hh => h1 ((int32_eq_sub_one_iff i h.count hc).mpr hh)
    simp only [h1, Bool.false_and, Bool.false_eq_true, if_false]
    have : ¬ (i.toInt.toNat + 1 = h.count.toInt.toNat ∧ h.rem.toInt.toNat ≠ 0) := by omega
    rw [if_neg this]; omega

/-- **receiver side** (`receiveData`): a reference token `tok < 0` names block `-(tok+1)`, which is
read at `index · blockLength` (computed in 64 bits: no wrap-around for any 32-bit index and block
length) with the model's `blockLen` — the same length the sender recorded -/
theorem refSpan_tied (h : Head32) (hok : h.ok) (cs : Nat) (tok : Int32) (hneg : tok.toInt < 0) :
    let idx := (-(tok.toInt + 1)).toNat
    Gen.Pure.refSpan tok h.count h.bl h.rem =
      (-(tok + 1), ((idx * (h.toHead cs).bl : Nat) : Int), Int32.ofInt (Delta.blockLen (h.toHead cs) idx)) := by
  intro idx
  obtain ⟨hc, hb, hr⟩ := hok
  have hlo := tok.le_toInt
  have hidx : (-(tok + 1)).toInt = -(tok.toInt + 1) := by
    rw [Int32.toInt_neg, Int32.toInt_add, Int32.toInt_one]
    simp only [Int.bmod]; split <;> split <;> omega
  have hnn : 0 ≤ (-(tok + 1)).toInt := by omega
  unfold Gen.Pure.refSpan
  simp only
  refine Prod.ext rfl (Prod.ext ?_ ?_)
  · simp only [hidx, Head32.toHead, idx]
    rw [Int.natCast_mul, Int.toNat_of_nonneg (by omega), Int.toNat_of_nonneg hb]
  · have hs := sumLen_tied h ⟨hc, hb, hr⟩ cs (-(tok + 1)) hnn 0
    unfold Gen.Pure.sumLen at hs
    simp only at hs
    simp only [idx, ← hidx]
    by_cases hcnd : ((-(tok + 1) == h.count - 1) && (h.rem != 0)) = true
    · simp only [hcnd, if_true] at hs ⊢
      rw [← hs]; simp
    · simp only [hcnd, Bool.false_eq_true, if_false] at hs ⊢
      rw [← hs]; simp

/-! ## multiplex header -/

theorem muxHeader_tied (tag : UInt8) (p : Bytes) :
    Gen.Pure.muxHeader tag p = Mux.header tag p.length := by
  unfold Gen.Pure.muxHeader Mux.header Mux.mplexBase
  simp only
  have e : UInt32.ofInt (p.length : Int) = UInt32.ofNat p.length := by
    apply UInt32.toNat_inj.mp
    unfold UInt32.ofInt
    have e : ((p.length : Int) % 2 ^ 32).toNat = p.length % 2 ^ 32 := by omega
    rw [e]; simp
  rw [e]; rfl

theorem muxDecode_tied (bs : Bytes) (t0 : UInt8) :
    Gen.Pure.muxDecode (Mux.hdrOf bs) t0 = (Mux.tagOf bs, Mux.hdrOf bs &&& 0x00FFFFFF) := rfl

/-! ## the 32/64-bit choice of `WriteInt64` -/

theorem int64Short_tied (v : Int64) :
    Gen.Pure.int64Short v.toInt false = decide (0 ≤ v ∧ v ≤ 0x7FFFFFFF) := by
  unfold Gen.Pure.int64Short
  have h0 : (0 ≤ v) ↔ (0 : Int) ≤ v.toInt := by rw [Int64.le_iff_toInt_le]; simp
  have h1 : (v ≤ 0x7FFFFFFF) ↔ v.toInt ≤ 2147483647 := by rw [Int64.le_iff_toInt_le]; simp
  by_cases a : v.toInt ≤ 2147483647 <;> by_cases b : (0 : Int) ≤ v.toInt <;> simp [a, b, h0, h1]

theorem int64ShortBuf_tied (v : Int) : Gen.Pure.int64ShortBuf v false = Gen.Pure.int64Short v false := rfl

/-! ## the block layout the generator chooses -/

theorem sumSizes_blockLength_tied (len : Nat) (h : Nat.sqrt len < 2147483648) :
    (Gen.Pure.SumSizesSqroot (len : Int)).toInt = ((Delta.sumSizes len).bl : Int) := by
  unfold Gen.Pure.SumSizesSqroot Delta.sumSizes Go.sqrtTrunc
  simp only [Int.toNat_natCast]
  have e : (Int32.ofInt (Nat.sqrt len : Int)).toInt = (Nat.sqrt len : Int) :=
    Int32.toInt_ofInt_of_le (by omega) (by omega)
  have e7 : (700 : Int32).toInt = 700 := by decide
  have hb : Gen.Consts.blockSize = 700 := by decide
  rw [hb]
  simp only [Max.max, maxOfLe, Int32.le_iff_toInt_le, e, e7]
  by_cases hm : (Nat.sqrt len : Int) ≤ 700
  · rw [if_pos hm, e7]
    have : Nat.sqrt len ≤ 700 := by omega
    rw [if_pos this]; rfl
  · rw [if_neg hm, e]
    have : ¬ Nat.sqrt len ≤ 700 := by omega
    rw [if_neg this]

/-- count and remainder as `SumSizesSqroot` computes them, for lengths whose block count fits 31 bits -/
theorem sumSizes_count_tied (len : Nat) (h : Nat.sqrt len < 2147483648)
    (hc : (len + ((Delta.sumSizes len).bl - 1)) / (Delta.sumSizes len).bl < 2147483648) :
    Gen.Pure.sumSizesCount (len : Int) (Gen.Pure.SumSizesSqroot (len : Int))
      = .ok (Int32.ofInt ((Delta.sumSizes len).count : Int), Int32.ofInt ((Delta.sumSizes len).rem : Int),
             Gen.Pure.SumSizesSqroot (len : Int), (Gen.Consts.checksumLength : Int)) := by
  have hbl := sumSizes_blockLength_tied len h
  have hpos : 0 < (Delta.sumSizes len).bl := by
    unfold Delta.sumSizes; simp only
    have hb : Gen.Consts.blockSize = 700 := by decide
    rw [hb]; omega
  have hcnt : (Delta.sumSizes len).count = (len + ((Delta.sumSizes len).bl - 1)) / (Delta.sumSizes len).bl := rfl
  have hrem : (Delta.sumSizes len).rem = len % (Delta.sumSizes len).bl := rfl
  unfold Gen.Pure.sumSizesCount
  rw [hbl, hcnt, hrem]
  generalize (Delta.sumSizes len).bl = bl at *
  have hne : (bl : Int) ≠ 0 := by omega
  simp only [Go.div, Go.rem, hne, if_false, Go.bind_ok]
  have e1 : Int.tdiv ((len : Int) + ((bl : Int) - 1)) (bl : Int) = (((len + (bl - 1)) / bl : Nat) : Int) := by
    rw [Int.tdiv_eq_ediv_of_nonneg (by omega)]
    have : (len : Int) + ((bl : Int) - 1) = ((len + (bl - 1) : Nat) : Int) := by omega
    rw [this]; rfl
  have e2 : Int.tmod (len : Int) (bl : Int) = ((len % bl : Nat) : Int) := by
    rw [Int.tmod_eq_emod_of_nonneg (by omega)]; rfl
  rw [e1, e2]
  have hcs : Gen.Consts.checksumLength = 16 := by decide
  simp [hcs]


/-! ## validation of a checksum header received from the peer (`SumHead.ReadFrom`, types.go) -/

/-- **the source's validation is the model's `readHead`**: for every four 32-bit values a peer can
send, the regenerated `ReadFrom` accepts exactly when the model accepts, with the same fields; it
never panics; a rejection is the model's `badHead` -/
theorem readFrom_tied (sh0 : Gen.Pure.SumHead) (r0 r1 r2 r3 : Int32) (rest : Wire.Bytes) :
    match Gen.Pure.SumHeadReadFrom sh0 r0 r1 r2 r3 with
    | .ok sh => sh = ⟨r0, r1, r2, r3⟩ ∧
        Recv.readHead (Wire.encI32 r0 ++ (Wire.encI32 r1 ++ (Wire.encI32 r2 ++ (Wire.encI32 r3 ++ rest))))
          = .ok (⟨r0.toInt.toNat, r1.toInt.toNat, r2.toInt.toNat, r3.toInt.toNat⟩, rest)
    | .err => Recv.readHead (Wire.encI32 r0 ++ (Wire.encI32 r1 ++ (Wire.encI32 r2 ++ (Wire.encI32 r3 ++ rest))))
          = .error .badHead
    | .panic => False := by
  unfold Gen.Pure.SumHeadReadFrom Recv.readHead
  simp only [Wire.decI32_encI32]
  have hmb : Recv.maxBlockLen = 536870912 := by decide
  have hmc : Recv.maxCsLen = 16 := by decide
  have e1 : (r1 > (536870912 : Int32)) ↔ r1.toInt > 536870912 := by
    rw [gt_iff_lt, Int32.lt_iff_toInt_lt]; rfl
  have e2 : (r2 > (16 : Int32)) ↔ r2.toInt > 16 := by
    rw [gt_iff_lt, Int32.lt_iff_toInt_lt]; rfl
  by_cases c0 : r0 < 0
  · simp [c0]
  · by_cases c1 : r1 < 0 ∨ r1 > (536870912 : Int32)
    · have c1' : r1 < 0 ∨ r1.toInt > (Recv.maxBlockLen : Int) := by rw [hmb]; rcases c1 with h | h; exact Or.inl h; exact Or.inr (e1.mp h)
      rcases c1 with h | h <;> simp [c0, h, c1']
    · have c1' : ¬ (r1 < 0 ∨ r1.toInt > (Recv.maxBlockLen : Int)) := by
        rw [hmb]; intro h; apply c1; rcases h with h | h; exact Or.inl h; exact Or.inr (e1.mpr h)
      have c1a : ¬ r1 < 0 := fun h => c1 (Or.inl h)
      have c1b : ¬ r1 > (536870912 : Int32) := fun h => c1 (Or.inr h)
      by_cases c2 : r2 < 0 ∨ r2 > (16 : Int32)
      · have c2' : r2 < 0 ∨ r2.toInt > (Recv.maxCsLen : Int) := by rw [hmc]; rcases c2 with h | h; exact Or.inl h; exact Or.inr (e2.mp h)
        rcases c2 with h | h <;> simp [c0, c1a, c1b, c1', h, c2']
      · have c2' : ¬ (r2 < 0 ∨ r2.toInt > (Recv.maxCsLen : Int)) := by
          rw [hmc]; intro h; apply c2; rcases h with h | h; exact Or.inl h; exact Or.inr (e2.mpr h)
        have c2a : ¬ r2 < 0 := fun h => c2 (Or.inl h)
        have c2b : ¬ r2 > (16 : Int32) := fun h => c2 (Or.inr h)
        have n1 : ¬ ((Recv.maxBlockLen : Int) < r1.toInt) := fun h => c1' (Or.inr h)
        have n2 : ¬ ((Recv.maxCsLen : Int) < r2.toInt) := fun h => c2' (Or.inr h)
        by_cases c3 : r3 < 0 ∨ r3 > r1
        · rcases c3 with h | h <;> simp [c0, c1a, c1b, c1', c2a, c2b, c2', h]
        · have c3a : ¬ r3 < 0 := fun h => c3 (Or.inl h)
          have c3b : ¬ r3 > r1 := fun h => c3 (Or.inr h)
          by_cases c4 : r0 > 0 ∧ r1 = 0
          · simp [c0, c1a, c1b, c1', c2a, c2b, c2', c3a, c3b, c3, c4.1, c4.2]
          · by_cases c4a : r0 > 0
            · have c4b : ¬ r1 = 0 := fun h => c4 ⟨c4a, h⟩
              simp [c0, c1a, c1b, c1', c2a, c2b, c2', c3a, c3b, c3, c4a, c4b, n1, n2]
            · simp [c0, c1a, c1b, c1', c2a, c2b, c2', c3a, c3b, c3, c4a, n1, n2]


/-! ## the update rule (`skipFile`, `modTimeEqual`, generator.go) -/

/-- modification times are compared at one-second granularity: whatever the sub-second parts -/
theorem modTimeEqual_tied (s1 s2 a b : Int) (ha : 0 ≤ a ∧ a < 1000000000) (hb : 0 ≤ b ∧ b < 1000000000) :
    Gen.Pure.modTimeEqual (s1 * 1000000000 + a) (s2 * 1000000000 + b) = (s1 == s2) := by
  unfold Gen.Pure.modTimeEqual Go.truncSec
  simp only
  have e1 : (s1 * 1000000000 + a) - (s1 * 1000000000 + a) % 1000000000 = s1 * 1000000000 := by omega
  have e2 : (s2 * 1000000000 + b) - (s2 * 1000000000 + b) % 1000000000 = s2 * 1000000000 := by omega
  rw [e1, e2]
  by_cases h : s1 = s2
  · subst h
    rw [beq_self_eq_true, beq_self_eq_true]
  · have : ¬ (s1 * 1000000000 = s2 * 1000000000) := by omega
    rw [beq_eq_false_iff_ne.mpr this, beq_eq_false_iff_ne.mpr h]

/-- **`skipFile` as the source has it is the model's update rule** (`Rx.skipFile`): size, then the
content checksum under `-c`, then `-I`, then the modification time to the second — for every option
set, entry and destination node, whatever the sub-second parts of the two times; it never fails on
the success path of the checksum read -/
theorem skipFile_tied (o : Rx.Opts) (e : Rx.Entry) (n : Rx.Node) (dsum : Bytes) (a b : Int)
    (ha : 0 ≤ a ∧ a < 1000000000) (hb : 0 ≤ b ∧ b < 1000000000) :
    Gen.Pure.skipFile n.size e.size o.checksum o.ignoreTimes (e.sum == n.sum) dsum
        (n.mtime * 1000000000 + a) (e.mtime * 1000000000 + b)
      = .ok (Rx.skipFile o e n) := by
  unfold Gen.Pure.skipFile Rx.skipFile
  rw [modTimeEqual_tied _ _ a b ha hb]
  by_cases h1 : n.size = e.size
  · simp only [h1, bne_self_eq_false, Bool.false_eq_true, if_false]
    cases o.checksum <;> cases o.ignoreTimes <;> simp
  · have : (n.size != e.size) = true := by simpa using h1
    simp [this]

/-! ## `--delete` and the sender's I/O error flag (receiver/do.go) -/

/-- deletion is skipped exactly when the flag the sender reported is positive -/
theorem deleteGuard_tied (v : Int32) : Gen.Pure.deleteGuard v false = decide (0 < v.toInt) := by
  unfold Gen.Pure.deleteGuard
  simp only
  have : (v > (0 : Int32)) ↔ 0 < v.toInt := by rw [gt_iff_lt, Int32.lt_iff_toInt_lt]; rfl
  by_cases h : 0 < v.toInt
  · simp [h, this.mpr h]
  · have h' : ¬ (v > (0 : Int32)) := fun hh => h (this.mp hh)
    simp [h, h']

/-! ## what `matched` hashes (match.go) -/

/-- the span fed to the whole-file hash by one call of `matched` starts at the old `lastMatch`, and the
new `lastMatch` is exactly its end: consecutive calls hash consecutive, non-overlapping spans of the
file; a block reference adds the block's length, the two pseudo-tokens (-1, -2) add nothing -/
theorem matchedSpan_tied (offset lastMatch sumLen : Int) (i : Int32) :
    Gen.Pure.matchedSpan offset i lastMatch sumLen =
      .ok (offset - lastMatch + (if i.toInt < 0 then 0 else sumLen), offset + (if i.toInt < 0 then 0 else sumLen)) := by
  unfold Gen.Pure.matchedSpan
  have : (i < (0 : Int32)) ↔ i.toInt < 0 := by rw [Int32.lt_iff_toInt_lt]; rfl
  by_cases h : i.toInt < 0
  · simp [h, this.mpr h]
  · have h' : ¬ (i < (0 : Int32)) := fun hh => h (this.mp hh)
    simp [h, h']

theorem matchedSpan_contiguous (offset lastMatch sumLen : Int) (i : Int32) :
    ∃ n lm', Gen.Pure.matchedSpan offset i lastMatch sumLen = .ok (n, lm') ∧ lm' = lastMatch + n := by
  refine ⟨_, _, matchedSpan_tied offset lastMatch sumLen i, ?_⟩
  omega


/-! ## the rolling update is the algorithm level's `rollGo` -/

theorem ofInt_natCast (n : Nat) : UInt32.ofInt (n : Int) = UInt32.ofNat n := by
  apply UInt32.toNat_inj.mp
  unfold UInt32.ofInt
  have e : ((n : Int) % 2 ^ 32).toNat = n % 2 ^ 32 := by omega
  rw [e]; simp

/-- **one pass of the source's rolling update is `rollGo`**, the step the refinement chain
(`algB` ⊑ `algA` ⊑ greedy) is proved about: at a position whose remaining bytes are `x :: xs`, with the
window length `k` and the flag `more` as `hashSearch` computes them, the translated statements return
`rollGo`'s pair — in both cases (a byte follows the window / the window only shrinks) -/
theorem rollUpdate_is_rollGo (c : Ctx) (s : UInt32 × UInt32) (x : UInt8) (xs : Bytes) :
    (c.bl ≤ xs.length →
      Gen.Pure.rollUpdate s.1 s.2 (c.bl : Int) (x :: xs) true = .ok ((rollGo c s x xs).1, (rollGo c s x xs).2, (c.bl : Int))) ∧
    (¬ c.bl ≤ xs.length →
      Gen.Pure.rollUpdate s.1 s.2 ((xs.length + 1 : Nat) : Int) (x :: xs) false
        = .ok ((rollGo c s x xs).1, (rollGo c s x xs).2, (xs.length : Int))) := by
  have hbl1 : 1 ≤ c.bl := by simp [Ctx.bl]
  constructor
  · intro h
    unfold rollGo
    rw [dif_pos h]
    obtain ⟨w, tl, hw, hlen⟩ : ∃ w tl, xs = w ++ (xs[c.bl - 1]'(by omega)) :: tl ∧ w.length = c.bl - 1 := by
      refine ⟨xs.take (c.bl - 1), xs.drop c.bl, ?_, by simp; omega⟩
      have h1 : c.bl - 1 < xs.length := by omega
      have := List.take_append_drop (c.bl - 1) xs
      conv => lhs; rw [← this]
      congr 1
      rw [List.drop_eq_getElem_cons h1]
      have e : c.bl - 1 + 1 = c.bl := by omega
      rw [e]
    have hk : (c.bl : Int) = ((w.length + 1 : Nat) : Int) := by omega
    rw [hk]
    conv => lhs; rw [hw]
    rw [rollUpdate_more, ofInt_natCast]
    have : w.length + 1 = c.bl := by omega
    rw [this]
  · intro h
    unfold rollGo
    rw [dif_neg h, rollUpdate_last, ofInt_natCast]
    have e : ((xs.length + 1 : Nat) : Int) - 1 = (xs.length : Int) := by omega
    rw [e]


/-! ## `simpleSendToken` (token.go): a literal run goes out in chunks of at most `chunkSize`, then the token -/

/-- what the model's chunks look like on the wire: length word, then the bytes -/
def emitChunks (cs : List Bytes) : List Go.Out := cs.flatMap fun c => [Go.Out.i32 (Int32.ofInt c.length), Go.Out.bytes c]

theorem cutChunks_step (n : Nat) (hn : 0 < n) (bs : Bytes) (hne : bs ≠ []) :
    Delta.cutChunks n bs = bs.take (min n bs.length) :: Delta.cutChunks n (bs.drop (min n bs.length)) := by
  rw [Delta.cutChunks]
  by_cases h : bs.length ≤ n
  · have h1 : (n = 0 ∨ bs.length ≤ n) := Or.inr h
    rw [dif_pos h1]
    have hm : min n bs.length = bs.length := by omega
    have he : bs.isEmpty = false := by cases bs with | nil => exact absurd rfl hne | cons _ _ => rfl
    rw [hm, List.take_length, List.drop_length, he]
    rw [Delta.cutChunks]
    simp
  · have h1 : ¬ (n = 0 ∨ bs.length ≤ n) := by omega
    rw [dif_neg h1]
    have hm : min n bs.length = n := by omega
    rw [hm]

theorem sendToken_loop (file : Bytes) (n offset : Int) (token : Int32) (h0 : 0 ≤ offset) (hn : 0 ≤ n)
    (hin : offset + n ≤ (file.length : Int)) :
    ∀ (fuel l : Nat) (out : List Go.Out), (l : Int) ≤ n → n - (l : Int) ≤ (fuel : Int) →
      Go.loop fuel (Gen.Pure.sendToken_cond0 file n offset token) (Gen.Pure.sendToken_body0 file n offset token) (out, (l : Int))
        = .ok (out ++ emitChunks (Delta.cutChunks 262144 (((file.drop offset.toNat).take n.toNat).drop l)), n) := by
  intro fuel
  induction fuel with
  | zero =>
    intro l out hl hf
    have : (l : Int) = n := by omega
    have hc : Gen.Pure.sendToken_cond0 file n offset token (out, (l : Int)) = false := by
      simp [Gen.Pure.sendToken_cond0]; omega
    rw [Go.loop]; simp only [hc, Bool.false_eq_true, if_false]
    have hd : ((file.drop offset.toNat).take n.toNat).drop l = [] := by
      apply List.drop_eq_nil_of_le; simp only [List.length_take, List.length_drop]; omega
    rw [hd, Delta.cutChunks]; simp [emitChunks, this]
  | succ f ih =>
    intro l out hl hf
    by_cases hlt : (l : Int) < n
    · have hc : Gen.Pure.sendToken_cond0 file n offset token (out, (l : Int)) = true := by
        simp [Gen.Pure.sendToken_cond0]; exact hlt
      rw [Go.loop, if_pos hc]
      -- one iteration
      generalize hseg : ((file.drop offset.toNat).take n.toNat).drop l = rest
      have hrl : rest.length = (n - (l : Int)).toNat := by
        rw [← hseg]; simp only [List.length_drop, List.length_take]; omega
      have hne : rest ≠ [] := by intro h; rw [h] at hrl; simp at hrl; omega
      have hm : (min (262144 : Int) (n - (l : Int))).toNat = min 262144 rest.length := by rw [hrl]; omega
      have hchunk : Go.fileSlice file (offset + (l : Int)) (min (262144 : Int) (n - (l : Int))) = rest.take (min 262144 rest.length) := by
        unfold Go.fileSlice
        rw [hm, ← hseg, List.drop_take, List.take_take, List.drop_drop]
        have e1 : (offset + (l : Int)).toNat = offset.toNat + l := by omega
        rw [e1]
        congr 1
        simp only [List.length_drop, List.length_take]
        omega
      have hb : Gen.Pure.sendToken_body0 file n offset token (out, (l : Int))
          = .ok (out ++ [Go.Out.i32 (Int32.ofInt (min (262144 : Int) (n - (l : Int))))] ++ [Go.Out.bytes (rest.take (min 262144 rest.length))],
                 ((l + min 262144 rest.length : Nat) : Int)) := by
        simp only [Gen.Pure.sendToken_body0, hchunk]
        congr 2
        rw [← hm]; omega
      rw [hb, Go.bind_ok]
      rw [ih (l + min 262144 rest.length) _ (by rw [hrl]; omega) (by rw [hrl]; omega)]
      rw [cutChunks_step 262144 (by decide) rest hne]
      have hd : ((file.drop offset.toNat).take n.toNat).drop (l + min 262144 rest.length) = rest.drop (min 262144 rest.length) := by
        rw [← hseg, List.drop_drop]
      rw [hd]
      simp only [emitChunks, List.flatMap_cons, List.append_assoc]
      congr 3
      simp only [List.cons_append, List.nil_append]
      congr 2
      simp only [List.length_take]
      congr 1
      rw [hrl]; omega
    · have : (l : Int) = n := by omega
      have hc : Gen.Pure.sendToken_cond0 file n offset token (out, (l : Int)) = false := by
        simp [Gen.Pure.sendToken_cond0]; omega
      rw [Go.loop]; simp only [hc, Bool.false_eq_true, if_false]
      have hd : ((file.drop offset.toNat).take n.toNat).drop l = [] := by
        apply List.drop_eq_nil_of_le; simp only [List.length_take, List.length_drop]; omega
      rw [hd, Delta.cutChunks]; simp [emitChunks, this]

/-- **`simpleSendToken` as the source has it**: the `n` unmatched bytes at `offset` leave as the
model's chunks (`cutChunks chunkSize`: every chunk non-empty and at most `chunkSize` long, their
concatenation the run itself), each as a length word followed by its bytes, and then the token word
`-(token+1)` unless the token is the flush pseudo-token -2; the loop ends within `n` iterations -/
theorem sendToken_tied (token : Int32) (offset n : Int) (file : Bytes) (out : List Go.Out) (h0 : 0 ≤ offset) (hn : 0 ≤ n)
    (hin : offset + n ≤ (file.length : Int)) :
    Gen.Pure.sendToken token offset n file out =
      .ok (out ++ emitChunks (Delta.cutChunks Delta.chunkSize ((file.drop offset.toNat).take n.toNat)) ++
            (if token = -2 then [] else [Go.Out.i32 (-(token + 1))])) := by
  have hcs : Delta.chunkSize = 262144 := by decide
  rw [hcs]
  unfold Gen.Pure.sendToken
  by_cases hpos : 0 < n
  · have hd : decide (n > (0 : Int)) = true := by simpa using hpos
    simp only [hd, if_true]
    have hl := sendToken_loop file n offset token h0 hn hin n.toNat 0 out (by omega) (by omega)
    simp only [Int.natCast_zero, List.drop_zero] at hl
    rw [hl]
    simp only [Go.bind_ok]
    by_cases ht : token = -2
    · simp [ht]
    · have : (token != (-2 : Int32)) = true := by simpa using ht
      simp [ht, this]
  · have hd : decide (n > (0 : Int)) = false := by simpa using hpos
    have hn0 : n = 0 := by omega
    simp only [hd, Bool.false_eq_true, if_false, Go.bind_ok]
    subst hn0
    have : Delta.cutChunks 262144 ((file.drop offset.toNat).take (0 : Int).toNat) = [] := by
      rw [Delta.cutChunks]; simp
    rw [this]
    by_cases ht : token = -2
    · simp [ht, emitChunks]
    · have : (token != (-2 : Int32)) = true := by simpa using ht
      simp [ht, this, emitChunks]


/-! ## the early flush of a long unmatched run (match.go) -/

/-- the condition under which `hashSearch` sends the pending run before any match -/
theorem flushCond_tied (backup end_ offset : Int) (bl : Int32) :
    Gen.Pure.flushCond backup bl end_ offset false =
      decide (backup ≥ bl.toInt + (Delta.chunkSize : Int) ∧ end_ - offset > (Delta.chunkSize : Int)) := by
  have hcs : (Delta.chunkSize : Int) = 262144 := by decide
  rw [hcs]
  unfold Gen.Pure.flushCond
  by_cases a : backup ≥ bl.toInt + 262144 <;> by_cases b : end_ - offset > 262144 <;> simp [a, b]

/-- **the flush never reaches back over data that was already sent**: it asks `matched` to send
everything up to `offset - blockLength`; since it only fires when the pending run (`backup = offset −
lastMatch`) is at least a block plus a chunk long, that point lies at least `chunkSize` *after*
`lastMatch` — for every block length a header may carry (up to 2²⁹, far above `chunkSize`). With a
threshold that ignores the block length the point would lie before `lastMatch` for large blocks, and
`matched` would re-send and re-hash bytes a block reference already covered. -/
theorem flush_target_after_last_match (offset lastMatch end_ : Int) (bl : Int32)
    (h : Gen.Pure.flushCond (offset - lastMatch) bl end_ offset false = true) :
    lastMatch + (Delta.chunkSize : Int) ≤ offset - bl.toInt := by
  rw [flushCond_tied] at h
  have := of_decide_eq_true h
  omega

end PureTie
