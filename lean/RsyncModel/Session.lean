import RsyncModel.Properties.C02
import RsyncModel.Properties.C04
import RsyncModel.Properties.C12
/-! # A whole receiving session over a file list

The files of a list are received one after the other; each requested file goes through the
receiver's temp-file events (`Atomic.recvFileEvents`), driven by the byte stream the sender produces
for it (`C02`). This module composes the per-file results over the whole list: distinct destination
paths do not disturb each other, whatever temporaries are around. -/
namespace Session
open Atomic Recv Delta Spec
abbrev Bytes := List UInt8

/-- one requested file: where it goes, the temp id, what the receiver has as basis, the bytes that arrive -/
structure Job where
  p : Path
  id : Nat
  basis : Option Bytes
  stream : Bytes
  partialC : Bytes

def events (Hfile : Bytes → Bytes) (j : Job) : List Ev := recvFileEvents Hfile j.basis j.stream j.id j.p j.partialC

def sessionEvents (Hfile : Bytes → Bytes) (jobs : List Job) : List Ev := jobs.flatMap (events Hfile)

theorem run_append (s : St) (a b : List Ev) : run s (a ++ b) = run (run s a) b := by
  simp [run, List.foldl_append]

theorem tempContent_after_create_write (s : St) (id : Nat) (c : Bytes) :
    tempContent (step (step s (.createTemp id)) (.write id c)) id = some c := by
  simp [tempContent, step]

/-- one file's events touch no other path -/
theorem events_frame (Hfile : Bytes → Bytes) (j : Job) (s : St) (q : Path) (hq : q ≠ j.p) :
    (run s (events Hfile j)).dest q = s.dest q := by
  unfold events recvFileEvents
  split
  · rename_i c _
    simp only [run, List.foldl_cons, List.foldl_nil]
    have ht := tempContent_after_create_write s j.id c
    simp only [step] at ht ⊢
    rw [ht]
    simp [hq]
  · simp [run]
  · simp [run, step]

/-- a file whose stream the receiver commits is at its path, whole, whatever the state before -/
theorem events_commit (Hfile : Bytes → Bytes) (j : Job) (s : St) (c : Bytes)
    (h : (recvData Hfile j.basis j.stream).1 = .committed c) :
    (run s (events Hfile j)).dest j.p = some (.file c) := by
  unfold events recvFileEvents
  rw [h]
  simp only [run, List.foldl_cons, List.foldl_nil]
  have ht := tempContent_after_create_write s j.id c
  simp only [step] at ht ⊢
  rw [ht]
  simp

/-- a file whose transfer fails leaves its path as it was -/
theorem events_fail (Hfile : Bytes → Bytes) (j : Job) (s : St) (e : Recv.Err)
    (h : (recvData Hfile j.basis j.stream).1 = .failed e) :
    (run s (events Hfile j)).dest j.p = s.dest j.p := by
  unfold events recvFileEvents
  rw [h]
  cases e <;> simp [run, step]

/-- paths no job names are never touched by the session -/
theorem session_frame (Hfile : Bytes → Bytes) (jobs : List Job) : ∀ (s : St) (q : Path),
    (∀ j ∈ jobs, q ≠ j.p) → (run s (sessionEvents Hfile jobs)).dest q = s.dest q := by
  induction jobs with
  | nil => intro s q _; rfl
  | cons j js ih =>
    intro s q h
    simp only [sessionEvents, List.flatMap_cons]
    rw [run_append]
    have := ih (run s (events Hfile j)) q (fun j' hj' => h j' (by simp [hj']))
    simp only [sessionEvents] at this
    rw [this, events_frame Hfile j s q (h j (by simp))]

/-- **every committed file of a session is in place at the end**, for any number of files, in any
order, when the destination paths are distinct -/
theorem session_delivers (Hfile : Bytes → Bytes) (jobs : List Job) : ∀ (s : St),
    (jobs.map (·.p)).Nodup → ∀ j ∈ jobs, ∀ c, (recvData Hfile j.basis j.stream).1 = .committed c →
    (run s (sessionEvents Hfile jobs)).dest j.p = some (.file c) := by
  induction jobs with
  | nil => intro s _ j hj; simp at hj
  | cons j0 js ih =>
    intro s hnd j hj c hc
    simp only [List.map_cons, List.nodup_cons] at hnd
    obtain ⟨hnot, hnd'⟩ := hnd
    simp only [sessionEvents, List.flatMap_cons]
    rw [run_append]
    rcases List.mem_cons.mp hj with rfl | hj'
    · -- the first job: committed, then untouched by the rest
      have hfr := session_frame Hfile js (run s (events Hfile j)) j.p (by
        intro j' hj' heq
        exact hnot (by rw [heq]; exact List.mem_map_of_mem hj'))
      simp only [sessionEvents] at hfr
      rw [hfr]
      exact events_commit Hfile j s c hc
    · have := ih (run s (events Hfile j0)) hnd' j hj' c hc
      simpa [sessionEvents] using this

end Session
