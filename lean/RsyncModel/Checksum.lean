import RsyncModel.Delta.Roll
/-! `rsyncchecksum.Checksum1` as the Go code computes it (4-unrolled loop over `uint32`) and its
relation to the unbounded sums `S1`, `S2` of the specification. -/
namespace Spec

/-- the byte-at-a-time tail loop (rsyncchecksum.go:45-48) -/
def c1tail (s1 s2 : UInt32) : Bytes → UInt32 × UInt32
  | [] => (s1, s2)
  | b :: bs => c1tail (s1 + signExtend b) (s2 + (s1 + signExtend b)) bs

/-- the 4-unrolled loop (rsyncchecksum.go:33-44): runs while more than 4 bytes remain -/
def c1loop (s1 s2 : UInt32) : Bytes → UInt32 × UInt32
  | b0 :: b1 :: b2 :: b3 :: b4 :: rest =>
    c1loop (s1 + (signExtend b0 + signExtend b1 + signExtend b2 + signExtend b3))
      (s2 + (4 * (s1 + signExtend b0) + 3 * signExtend b1 + 2 * signExtend b2 + signExtend b3))
      (b4 :: rest)
  | bs => c1tail s1 s2 bs

/-- `Checksum1(buf)`: `(s1 & 0xffff) + (s2 << 16)` -/
def checksum1 (buf : Bytes) : UInt32 :=
  let r := c1loop 0 0 buf
  (r.1 &&& (0xffff : UInt32)) + (r.2 <<< 16)

/-- one unrolled step is exactly four single steps (ring identity in `uint32`) -/
theorem c1tail4 (s1 s2 : UInt32) (b0 b1 b2 b3 : UInt8) (rest : Bytes) :
    c1tail s1 s2 (b0 :: b1 :: b2 :: b3 :: rest) =
      c1tail (s1 + (signExtend b0 + signExtend b1 + signExtend b2 + signExtend b3))
        (s2 + (4 * (s1 + signExtend b0) + 3 * signExtend b1 + 2 * signExtend b2 + signExtend b3)) rest := by
  simp only [c1tail]
  generalize signExtend b0 = x0; generalize signExtend b1 = x1
  generalize signExtend b2 = x2; generalize signExtend b3 = x3
  congr 1 <;> grind

theorem c1loop_eq_tail_aux (n : Nat) : ∀ (bs : Bytes), bs.length ≤ n → ∀ s1 s2, c1loop s1 s2 bs = c1tail s1 s2 bs := by
  induction n with
  | zero => intro bs h s1 s2; cases bs with | nil => rw [c1loop]; simp | cons b bs => simp at h
  | succ n ih =>
    intro bs h s1 s2
    rcases bs with _ | ⟨b0, _ | ⟨b1, _ | ⟨b2, _ | ⟨b3, _ | ⟨b4, rest⟩⟩⟩⟩⟩
    · rw [c1loop]; simp
    · rw [c1loop]; simp
    · rw [c1loop]; simp
    · rw [c1loop]; simp
    · rw [c1loop]; simp
    · rw [c1loop, c1tail4, ih]
      simp only [List.length_cons] at h ⊢; omega

theorem c1loop_eq_tail (s1 s2 : UInt32) (bs : Bytes) : c1loop s1 s2 bs = c1tail s1 s2 bs :=
  c1loop_eq_tail_aux bs.length bs (Nat.le_refl _) s1 s2

theorem c1tail_cong (s1 s2 : UInt32) (z1 z2 : Int) (bs : Bytes) (h1 : Cong s1 z1) (h2 : Cong s2 z2) :
    Cong (c1tail s1 s2 bs).1 (z1 + S1 bs) ∧ Cong (c1tail s1 s2 bs).2 (z2 + (bs.length : Int) * z1 + S2 bs) := by
  induction bs generalizing s1 s2 z1 z2 with
  | nil => simp [c1tail, S1, S2]; exact ⟨h1, h2⟩
  | cons b bs ih =>
    have hb := signExtend_cong b
    have := ih (s1 + signExtend b) (s2 + (s1 + signExtend b)) (z1 + sx b) (z2 + (z1 + sx b))
      (cong_add h1 hb) (cong_add h2 (cong_add h1 hb))
    simp only [c1tail, S1, S2, List.length_cons]
    have e1 : z1 + (sx b + S1 bs) = z1 + sx b + S1 bs := by omega
    have e2 : z2 + ((bs.length : Int) + 1) * z1 + (((bs.length : Int) + 1) * sx b + S2 bs)
        = z2 + (z1 + sx b) + (bs.length : Int) * (z1 + sx b) + S2 bs := by grind
    rw [e1]
    refine ⟨this.1, ?_⟩
    have := this.2
    simp only [Int.natCast_add, Int.cast_ofNat_Int] at *
    rw [e2]; exact this

theorem cong_zero : Cong 0 0 := by unfold Cong; simp

/-- the two halves the sender extracts in `readChunk` (`sum & 0xFFFF`, `sum >> 16`) are exactly the
canonical pair of the unbounded sums of the window -/
theorem checksum1_halves (buf : Bytes) :
    ((checksum1 buf) &&& (0xFFFF : UInt32), (checksum1 buf) >>> 16) = wsum buf := by
  have hc := c1tail_cong 0 0 0 0 buf cong_zero cong_zero
  simp only [Int.zero_add, Int.mul_zero, Int.add_zero] at hc
  unfold checksum1
  rw [c1loop_eq_tail]
  generalize c1tail 0 0 buf = r at hc
  obtain ⟨c1, c2⟩ := hc
  unfold wsum
  have e16 : (16 : UInt32).toNat % 32 = 16 := by decide
  refine Prod.ext ?_ ?_
  · apply eq_lo16_of_cong
    · unfold Cong at *
      simp only [UInt32.toNat_and, UInt32.toNat_add, UInt32.toNat_shiftLeft]
      have e : (0xFFFF : UInt32).toNat = 2^16 - 1 := by decide
      simp only [e, Nat.and_two_pow_sub_one_eq_mod, Nat.shiftLeft_eq, e16]
      simp only [Nat.reducePow] at *
      have := r.1.toNat_lt; have := r.2.toNat_lt
      omega
    · simp only [UInt32.toNat_and]
      have e : (0xFFFF : UInt32).toNat = 2^16 - 1 := by decide
      rw [e, Nat.and_two_pow_sub_one_eq_mod]; omega
  · apply eq_lo16_of_cong
    · unfold Cong at *
      simp only [UInt32.toNat_and, UInt32.toNat_add, UInt32.toNat_shiftLeft, UInt32.toNat_shiftRight]
      have e : (0xFFFF : UInt32).toNat = 2^16 - 1 := by decide
      simp only [e, Nat.and_two_pow_sub_one_eq_mod, Nat.shiftLeft_eq, Nat.shiftRight_eq_div_pow, e16]
      simp only [Nat.reducePow] at *
      have := r.1.toNat_lt; have := r.2.toNat_lt
      omega
    · simp only [UInt32.toNat_shiftRight, Nat.shiftRight_eq_div_pow, e16]
      have := ((r.1 &&& (0xffff : UInt32)) + (r.2 <<< 16)).toNat_lt
      simp only [Nat.reducePow] at *
      omega

/-- `sum = (s1 & 0xFFFF) | (s2 << 16)` (match.go:95) — the packed weak sum compared with `Sum1` -/
def pack (s : UInt32 × UInt32) : UInt32 := (s.1 &&& (0xFFFF : UInt32)) ||| (s.2 <<< 16)

/-- `Tag2(uint16(s1), uint16(s2))` -/
def tag2 (s1 s2 : UInt32) : UInt16 := s1.toUInt16 + s2.toUInt16
/-- `Tag(sum)` -/
def tag (sum : UInt32) : UInt16 := tag2 (sum &&& (0xFFFF : UInt32)) (sum >>> 16)

end Spec
