import RsyncModel.WireInt
import RsyncModel.Gen.Consts
/-! Multiplexed frames (rsyncwire/wire.go:18-93) and the client's reader stack
`io.ReadFull ∘ CountingReader ∘ bufio.Reader(size) ∘ MultiplexReader` (clientmaincmd.go ClientRun).

Constants (`mplexBase`, tags, `maxMessageSize`, the client's bufio size) are *regenerated from the
source* (`Gen.Consts`). -/
namespace Mux
open Wire

structure Frame where
  tag : UInt8
  payload : Bytes
deriving Repr, DecidableEq

def mplexBase : UInt8 := UInt8.ofNat Gen.Consts.mplexBase
def tagData : UInt8 := UInt8.ofNat Gen.Consts.msgData
def tagInfo : UInt8 := UInt8.ofNat Gen.Consts.msgInfo
def tagError : UInt8 := UInt8.ofNat Gen.Consts.msgError
def maxMsg : Nat := Gen.Consts.maxMessageSize

/-- `uint32(mplexBase+tag)<<24 | uint32(len(p))` (wire.go:29); `mplexBase+tag` is `uint8` arithmetic. -/
def header (tag : UInt8) (len : Nat) : UInt32 :=
  ((mplexBase + tag).toUInt32 <<< 24) ||| UInt32.ofNat len

def encFrame (f : Frame) : Bytes := leBytes 4 (header f.tag f.payload.length).toNat ++ f.payload

/-- how a frame stream ends -/
inductive End
  | eof                 -- clean end of stream at a frame boundary
  | short               -- stream ends inside a header or payload
  | tooLong (n : Nat)   -- declared length exceeds `maxMessageSize`
deriving Repr, DecidableEq

def hdrOf (bs : Bytes) : UInt32 := UInt32.ofNat (leVal (bs.take 4))
/-- `tag = uint8(header>>24) - mplexBase` (wire.go:55) -/
def tagOf (bs : Bytes) : UInt8 := (hdrOf bs >>> 24).toUInt8 - mplexBase
/-- `length := header & 0x00FFFFFF` (wire.go:56) -/
def lenOf (bs : Bytes) : Nat := (hdrOf bs &&& 0x00FFFFFF).toNat

/-- `ReadMsg` (wire.go:49-70) iterated: split a byte stream into frames. -/
def parse (bs : Bytes) : List Frame × End :=
  if bs = [] then ([], .eof)
  else if bs.length < 4 then ([], .short)
  else if lenOf bs > maxMsg then ([], .tooLong (lenOf bs))
  else if (bs.drop 4).length < lenOf bs then ([], .short)
  else
    (⟨tagOf bs, (bs.drop 4).take (lenOf bs)⟩ :: (parse ((bs.drop 4).drop (lenOf bs))).1,
      (parse ((bs.drop 4).drop (lenOf bs))).2)
termination_by bs.length
decreasing_by all_goals (simp only [List.length_drop]; omega)

/-- result of one `Read`/`ReadFull` call -/
inductive Res (α : Type)
  | ok (a : α)
  | eof                       -- io.EOF / io.ErrUnexpectedEOF
  | tooLong (n : Nat)
  | server (msg : Bytes)      -- error frame: the server's message
  | badTag (t : UInt8)
  | panic                     -- "not enough buffer space!" (wire.go:90)
deriving Repr, DecidableEq

/-- Client reader state: bytes buffered inside `bufio.Reader`, frames not yet read, how the stream ends. -/
structure St where
  buf : Bytes
  frames : List Frame
  fin : End
deriving Repr

def endRes {α} : End → Res α
  | .eof => .eof
  | .short => .eof
  | .tooLong n => .tooLong n

/-- `io.ReadFull(c.Reader, p)` with `len p = k`, accumulated bytes `acc` (reversed chunks appended).
`bufSize` is the `bufio.Reader` size. One loop iteration of `io.ReadAtLeast` = one `bufio.Reader.Read`:
buffer non-empty ⇒ copy from it; empty and `k ≥ bufSize` ⇒ `MultiplexReader.Read` directly into the
caller's slice (capacity `k`); otherwise into the internal buffer (capacity `bufSize`). -/
def readFull (bufSize : Nat) (k : Nat) (acc : Bytes) (st : St) : Res Bytes × St :=
  if k = 0 then (.ok acc, st)
  else match st with
  | ⟨b :: bs, frames, fin⟩ =>
    readFull bufSize (k - min k (bs.length + 1)) (acc ++ (b :: bs).take (min k (bs.length + 1)))
      ⟨(b :: bs).drop (min k (bs.length + 1)), frames, fin⟩
  | ⟨[], [], fin⟩ => (endRes fin, ⟨[], [], fin⟩)
  | ⟨[], f :: fs, fin⟩ =>
      if f.tag == tagError then (.server f.payload, ⟨[], fs, fin⟩)
      else if f.tag == tagInfo then readFull bufSize k acc ⟨[], fs, fin⟩
      else if f.tag != tagData then (.badTag f.tag, ⟨[], fs, fin⟩)
      else if k ≥ bufSize then
        if k < f.payload.length then (.panic, ⟨[], fs, fin⟩)
        else readFull bufSize (k - f.payload.length) (acc ++ f.payload) ⟨[], fs, fin⟩
      else
        if bufSize < f.payload.length then (.panic, ⟨[], fs, fin⟩)
        else readFull bufSize k acc ⟨f.payload, fs, fin⟩
termination_by (st.frames.length, st.buf.length + k)
decreasing_by
  all_goals simp_wf
  · right; omega
  · left; omega
  · left; omega
  · left; omega

def initSt (bs : Bytes) : St := let p := parse bs; ⟨[], p.1, p.2⟩

end Mux
