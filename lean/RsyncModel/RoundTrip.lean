import RsyncModel.RecvThm
import RsyncModel.Delta.Exact
/-! Sender ∘ receiver: the stream the Go-level sender emits for `t` against a faithful signature of
`basis` is reconstructed by the receiver to exactly `t`, and committed. -/
namespace Recv
open Wire Delta
open Spec (ATok Tok Ctx Pick flat greedy algA algB emitRun Chunker Flusher)

theorem wireOk_append (a b : List ATok) : WireOk (a ++ b) ↔ WireOk a ∧ WireOk b := by
  induction a with
  | nil => simp [WireOk]
  | cons x xs ih => cases x <;> simp [WireOk, ih, and_assoc]

theorem cutChunks_pos (n : Nat) (bs : List UInt8) : ∀ p ∈ cutChunks n bs, 0 < p.length := by
  induction bs using cutChunks.induct n with
  | case1 bs h he => rw [cutChunks]; simp_all
  | case2 bs h he =>
    have hne : bs ≠ [] := by intro hc; simp [hc] at he
    rw [cutChunks]; simp only [h, dite_true, he]
    intro p hp; simp at hp; subst hp
    exact List.length_pos_iff.mpr hne
  | case3 bs h ih =>
    rw [cutChunks]; simp only [h, dite_false]
    intro p hp
    simp only [List.mem_cons] at hp
    rcases hp with hp | hp
    · subst hp; simp only [List.length_take]; omega
    · exact ih p hp

theorem wireOk_emitRun (bs : List UInt8) : WireOk (emitRun goChunker bs) := by
  unfold emitRun goChunker
  simp only
  have hp := cutChunks_pos chunkSize bs
  have hl := cutChunks_le chunkSize (by decide) bs
  generalize cutChunks chunkSize bs = ps at hp hl
  induction ps with
  | nil => simp [WireOk]
  | cons p ps ih =>
    simp only [List.map_cons, WireOk]
    refine ⟨hp p (by simp), ?_, ih (fun q hq => hp q (by simp [hq])) (fun q hq => hl q (by simp [hq]))⟩
    have := hl p (by simp)
    have hc : chunkSize < 2147483648 := by decide
    omega

/-- every token list the algorithm emits is transmittable, provided the block table has fewer than 2³¹ entries -/
theorem wireOk_algA (c : Ctx) (p : Pick c) (fl : Flusher) (hn : c.blocks.length < 2147483648)
    (pend rest : List UInt8) : WireOk (algA c p goChunker fl pend rest) := by
  induction pend, rest using algA.induct c p fl with
  | case1 pend => rw [algA]; exact wireOk_emitRun pend
  | case2 pend x xs i hpick ih =>
    rw [algA, hpick]
    simp only
    rw [wireOk_append]
    refine ⟨wireOk_emitRun pend, ?_, ih⟩
    have hm := p.sound _ _ hpick
    simp only [Ctx.matches] at hm
    cases hb : c.blocks[i]? with
    | none => rw [hb] at hm; cases hm
    | some b =>
      rcases List.getElem?_eq_some_iff.mp hb with ⟨hi, _⟩
      omega
  | case3 pend x xs hpick pend' n ih =>
    rw [algA, hpick]
    simp only
    rw [wireOk_append]
    exact ⟨wireOk_emitRun _, ih⟩

/-- references in a justified stream point into the block table -/
theorem justified_refs_lt (c : Ctx) : ∀ (t : List UInt8) (ts : List Tok), Delta.Justified c t ts →
    ∀ i, Tok.ref i ∈ ts → i < c.blocks.length := by
  intro t ts
  induction ts generalizing t with
  | nil => intro _ i hi; cases hi
  | cons tok ts ih =>
    intro hj i hi
    cases t with
    | nil => cases tok <;> simp [Delta.Justified] at hj
    | cons x xs =>
      cases tok with
      | lit b =>
        rw [Delta.Justified] at hj
        simp only [List.mem_cons] at hi
        rcases hi with hi | hi
        · cases hi
        · exact ih xs hj.2 i hi
      | ref j =>
        rw [Delta.Justified] at hj
        simp only [List.mem_cons] at hi
        rcases hi with hi | hi
        · obtain rfl : i = j := by simpa using hi
          have hm := hj.1
          simp only [Ctx.matches] at hm
          cases hb : c.blocks[i]? with
          | none => rw [hb] at hm; cases hm
          | some b => rcases List.getElem?_eq_some_iff.mp hb with ⟨h, _⟩; exact h
        · exact ih _ hj.2 i hi

theorem mem_flat_ref (ts : List ATok) (i : Nat) : Tok.ref i ∈ flat ts ↔ ATok.ref i ∈ ts := by
  induction ts with
  | nil => simp [flat]
  | cons x xs ih =>
    cases x with
    | lits bs => simp [flat, ih]
    | ref j => simp [flat, ih]

theorem apply_lits (blk : Nat → List UInt8) (bs : List UInt8) (r : List Tok) :
    Spec.apply blk (bs.map Tok.lit ++ r) = bs ++ Spec.apply blk r := by
  induction bs with
  | nil => simp
  | cons b bs ih => simp [Spec.apply, ih]

/-- if every referenced block can be read from the basis as `blk i`, the receiver-side denotation is
the specification-level `apply` of the flattened stream -/
theorem denote_eq_apply (hd : Head) (basis : List UInt8) (blk : Nat → List UInt8) (ts : List ATok)
    (h : ∀ i, ATok.ref i ∈ ts → readBlock hd basis i = some (blk i)) :
    denote hd basis ts = some (Spec.apply blk (flat ts)) := by
  induction ts with
  | nil => simp [denote, flat, Spec.apply]
  | cons x xs ih =>
    have ih' := ih (fun i hi => h i (by simp [hi]))
    cases x with
    | lits bs =>
      simp only [denote, ih', flat, Option.map_some]
      congr 1
      exact (apply_lits blk bs _).symm
    | ref i =>
      simp only [denote, h i (by simp), ih', flat, Option.map_some, Spec.apply]

def encHead (h : Head) : List UInt8 :=
  encI32 (i32 h.count) ++ encI32 (i32 h.bl) ++ encI32 (i32 h.csLen) ++ encI32 (i32 h.rem)

/-- a header the real `ReadFrom` accepts -/
def HeadOk (h : Head) : Prop :=
  h.count < 2147483648 ∧ h.bl ≤ maxBlockLen ∧ h.csLen ≤ maxCsLen ∧ h.rem ≤ h.bl ∧ (0 < h.count → 0 < h.bl)

theorem i32_nat (n : Nat) (h : n < 2147483648) :
    (i32 n).toInt = n ∧ ¬ (i32 (n : Int) < 0) ∧ (i32 (n : Int)).toInt.toNat = n := by
  have hv := i32_toInt (n : Int) (by omega) (by omega)
  refine ⟨hv, ?_, by rw [hv]; simp⟩
  rw [Int32.lt_iff_toInt_lt, hv, Int32.toInt_zero]; omega

theorem readHead_encHead (h : Head) (r : List UInt8) (ok : HeadOk h) :
    readHead (encHead h ++ r) = .ok (h, r) := by
  obtain ⟨hc, hb, hs, hr, hz⟩ := ok
  have mb : maxBlockLen = 536870912 := by decide
  have mc : maxCsLen = 16 := by decide
  have c1 := i32_nat h.count hc
  have c2 := i32_nat h.bl (by omega)
  have c3 := i32_nat h.csLen (by omega)
  have c4 := i32_nat h.rem (by omega)
  unfold readHead encHead
  simp only [List.append_assoc, decI32_encI32]
  have e1 : ¬ (i32 (h.bl : Int) < 0 ∨ (i32 (h.bl : Int)).toInt > (maxBlockLen : Int)) := by
    rw [c2.1]; intro hc; rcases hc with hc | hc
    · exact c2.2.1 hc
    · omega
  have e2 : ¬ (i32 (h.csLen : Int) < 0 ∨ (i32 (h.csLen : Int)).toInt > (maxCsLen : Int)) := by
    rw [c3.1]; intro hc; rcases hc with hc | hc
    · exact c3.2.1 hc
    · omega
  have e3 : ¬ (i32 (h.rem : Int) < 0 ∨ i32 (h.rem : Int) > i32 (h.bl : Int)) := by
    intro hc; rcases hc with hc | hc
    · exact c4.2.1 hc
    · rw [gt_iff_lt, Int32.lt_iff_toInt_lt, c2.1, c4.1] at hc; omega
  have e4 : ¬ (i32 (h.count : Int) > 0 ∧ (i32 (h.bl : Int) == 0) = true) := by
    intro ⟨ha, hb0⟩
    rw [gt_iff_lt, Int32.lt_iff_toInt_lt, c1.1, Int32.toInt_zero] at ha
    have hb1 : i32 (h.bl : Int) = 0 := by simpa using hb0
    have := congrArg Int32.toInt hb1
    rw [c2.1, Int32.toInt_zero] at this
    have := hz (by omega)
    omega
  simp only [c1.2.1, e1, e2, e3, e4, if_false, c1.2.2, c2.2.2, c3.2.2, c4.2.2]

/-- **Round trip** (C02): for a signature that is faithful to `basis` (a window that matches block
`i` *is* block `i`: honest sums and no strong-hash collision) the receiver commits exactly the
target, whatever the target, block layout, strong-checksum length, chunking and flush policy. -/
theorem roundtrip (Hs Hfile : List UInt8 → List UInt8) (h : Head) (sums : List Delta.Sum) (basis t rest : List UInt8)
    (blk : Nat → List UInt8) (ok : HeadOk h) (hlen : sums.length < 2147483648)
    (hfile16 : (Hfile t).length = 16)
    (hfaithful : ∀ w i, (mkCtx Hs h sums).matches w i = true → blk i = w)
    (hread : ∀ i, i < sums.length → readBlock h basis i = some (blk i)) :
    recvData Hfile (some basis)
        (encHead h ++ (encToks (senderTokens Hs h sums t) ++ (Hfile t ++ rest))) = (.committed t, rest) := by
  have hbl : h.bl < 4294967296 := by
    have : maxBlockLen = 536870912 := by decide
    have := ok.2.1; omega
  let c := mkCtx Hs h sums
  let p := pickGo c (mkCtx_W Hs h sums)
  have hblocks : c.blocks.length = sums.length := by simp [c, mkCtx, mkBlocks]
  -- the wire tokens are those of algorithm A (refinement), hence transmittable
  have hA : senderTokens Hs h sums t = algA c p goChunker (goFlusher h.bl (lastLen h)) [] t := by
    unfold senderTokens
    exact Spec.algB_eq_algA c (by simp [c, mkCtx, Ctx.bl]; omega) (lookGo c) p rfl _ _ [] t
  have hwire : WireOk (senderTokens Hs h sums t) := by
    rw [hA]; exact wireOk_algA c p _ (by omega) [] t
  have hflat : flat (senderTokens Hs h sums t) = greedy c p t := senderTokens_eq_greedy Hs h sums t hbl
  have hj : Delta.Justified c t (greedy c p t) := greedy_justified c p t
  have hden : denote h basis (senderTokens Hs h sums t) = some t := by
    rw [denote_eq_apply h basis blk]
    · rw [hflat, Spec.sender_exact c p blk hfaithful]
    · intro i hi
      apply hread
      have := justified_refs_lt c t _ hj i (by rw [← hflat]; exact (mem_flat_ref _ i).mpr hi)
      omega
  unfold recvData
  rw [readHead_encHead h _ ok]
  simp only
  rw [recvTokens_denotes h basis _ _ [] t hwire hden]
  simp only [List.nil_append, List.length_append, hfile16]
  have : ¬ (16 + rest.length < 16) := by omega
  simp only [this, if_false]
  rw [List.take_left' hfile16, List.drop_left' hfile16]
  simp

end Recv
