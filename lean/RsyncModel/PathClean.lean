/-! `filepath.Clean` (Unix) on byte strings, as the receiver applies it to every decoded name
(receiver/flist.go:111) and the sender/daemon to requested paths. Written from the documented rules:
collapse multiple separators, drop `.` elements, resolve inner `..` lexically, drop `..` at the
beginning of a rooted path, the empty result is `.`. -/
namespace PathClean

abbrev Str := List UInt8
def slash : UInt8 := 47
def dot : UInt8 := 46

/-- split at '/', keeping empty components -/
def splitSlash (s : Str) : List Str :=
  s.foldr (fun b acc => if b == slash then [] :: acc else match acc with
    | [] => [[b]]
    | x :: r => (b :: x) :: r) [[]]

def joinSlash : List Str → Str
  | [] => []
  | [a] => a
  | a :: r => a ++ slash :: joinSlash r

/-- process components left to right with a stack of kept components (`out` reversed) -/
def cleanComps (rooted : Bool) : List Str → List Str → List Str
  | [], out => out.reverse
  | c :: cs, out =>
    if c == [] || c == [dot] then cleanComps rooted cs out
    else if c == [dot, dot] then
      match out with
      | top :: rest =>
        if top == [dot, dot] then cleanComps rooted cs (c :: out)   -- cannot back up over a leading ".."
        else cleanComps rooted cs rest
      | [] => if rooted then cleanComps rooted cs [] else cleanComps rooted cs [c]
    else cleanComps rooted cs (c :: out)

def clean (s : Str) : Str :=
  if s == [] then [dot]
  else
    let rooted := s.head? == some slash
    let comps := cleanComps rooted (splitSlash s) []
    let body := joinSlash comps
    if rooted then slash :: body
    else if body == [] then [dot] else body

end PathClean
