import RsyncModel.RecvData
/-! File-system events of a receiving session as far as the *listed destination paths* are concerned
(receiver/receiver.go `receiveData` with renameio's pending file; generator.go's unlink of an entry of
the wrong type, mkdir, atomic symlink replacement). Data in progress lives in temporary files, which are
identified by number — they are created with fresh random names (`.name<random>`, O_EXCL), so they are
never one of the listed paths: that freshness is the one assumption, and the reason the event language
has no "write to a path". -/
namespace Atomic

abbrev Bytes := List UInt8
abbrev Path := List UInt8

inductive Node
  | file (c : Bytes)
  | link (t : Bytes)
  | dir
  | special
deriving Repr, DecidableEq

inductive Ev
  | createTemp (id : Nat)
  | write (id : Nat) (chunk : Bytes)
  | rename (id : Nat) (p : Path)          -- CloseAtomicallyReplace: rename(2) of the temp over p
  | removeTemp (id : Nat)                 -- deferred Cleanup on every error return
  | unlink (p : Path)                     -- generator: an entry of another type is in the way
  | symlinkReplace (p : Path) (t : Bytes) -- renameio.SymlinkRoot: temp symlink + rename
  | mkdir (p : Path)
  | mknod (p : Path)
deriving Repr

structure St where
  dest : Path → Option Node
  temps : List (Nat × Bytes)
  /-- complete contents that were renamed into place, per path (ghost state for the invariant) -/
  committed : List (Path × Bytes)

def tempContent (s : St) (id : Nat) : Option Bytes := (s.temps.find? (·.1 == id)).map (·.2)

def step (s : St) : Ev → St
  | .createTemp id => { s with temps := (id, []) :: s.temps.filter (·.1 != id) }
  | .write id chunk => { s with temps := s.temps.map (fun t => if t.1 == id then (t.1, t.2 ++ chunk) else t) }
  | .rename id p =>
    match tempContent s id with
    | some c => { dest := fun q => if q = p then some (.file c) else s.dest q,
                  temps := s.temps.filter (·.1 != id), committed := (p, c) :: s.committed }
    | none => s
  | .removeTemp id => { s with temps := s.temps.filter (·.1 != id) }
  | .unlink p => { s with dest := fun q => if q = p then none else s.dest q }
  | .symlinkReplace p t => { s with dest := fun q => if q = p then some (.link t) else s.dest q }
  | .mkdir p => { s with dest := fun q => if q = p then some .dir else s.dest q }
  | .mknod p => { s with dest := fun q => if q = p then some .special else s.dest q }

def run (s : St) (l : List Ev) : St := l.foldl step s

/-- what a listed path may hold at any instant: what it held before, nothing (only while an entry of
another type has been unlinked), or something that was put there *whole* -/
def Allowed (old : Path → Option Node) (s : St) (p : Path) : Prop :=
  s.dest p = old p ∨ s.dest p = none ∨
  (∃ c, (p, c) ∈ s.committed ∧ s.dest p = some (.file c)) ∨
  (∃ t, s.dest p = some (.link t)) ∨ s.dest p = some .dir ∨ s.dest p = some .special

/-- the receiver's events for one file, as a function of the raw byte stream: the temp is created,
filled, and then either renamed (exactly when `Recv.recvData` commits, with exactly the content it
commits) or removed -/
def recvFileEvents (Hfile : Bytes → Bytes) (basis : Option Bytes) (stream : Bytes) (id : Nat) (p : Path) (partialC : Bytes) : List Ev :=
  match (Recv.recvData Hfile basis stream).1 with
  | .committed c => [.createTemp id, .write id c, .rename id p]
  | .failed (.badHead) => []                         -- the checksum header is read before the temp exists
  | .failed _ => [.createTemp id, .write id partialC, .removeTemp id]

end Atomic
