/-! Module access control (rsyncd/rsyncd.go:140-185 `checkACL`) over byte strings.

`net.ParseIP` / `net.ParseCIDR` are Go library calls: their results (16-byte address; network
number and mask) are inputs of the model; everything else — rule splitting at the first space,
action check, the `all` keyword, `IPNet.Contains` including its IPv4-in-IPv6 handling, first-match
evaluation, the early return for an empty list — is modelled. -/
namespace Acl

abbrev Bytes := List UInt8

/-- result of `net.ParseCIDR(who)` as shipped by the harness -/
inductive Cidr
  | bad                                   -- ParseCIDR returned an error
  | net (ip : Bytes) (mask : Bytes)       -- IPNet{IP, Mask}
deriving Repr, DecidableEq

/-- one configured ACL line and what Go's parser makes of the part after the first space -/
structure Rule where
  text : Bytes
  cidr : Cidr
deriving Repr, DecidableEq

inductive Verdict
  | allow
  | denied        -- "access denied (acl …)"
  | malformed     -- "invalid acl: …"
  | badAddr       -- "BUG: invalid remote …"
deriving Repr, DecidableEq

def v4InV6Prefix : Bytes := [0, 0, 0, 0, 0, 0, 0, 0, 0, 0, 0xff, 0xff]

/-- `IP.To4()`: a 4-byte address as is; a 16-byte address with the `::ffff:0:0/96` prefix as its last 4 bytes -/
def to4 (ip : Bytes) : Option Bytes :=
  if ip.length = 4 then some ip
  else if ip.length = 16 ∧ ip.take 12 = v4InV6Prefix then some (ip.drop 12)
  else none

def allFF (m : Bytes) : Bool := m.all (· == 0xff)

/-- `networkNumberAndMask` (net/ip.go) -/
def networkNumberAndMask (ip mask : Bytes) : Option (Bytes × Bytes) :=
  let ip' := match to4 ip with
    | some x => some x
    | none => if ip.length = 16 then some ip else none
  match ip' with
  | none => none
  | some ip' =>
    if mask.length = 16 then
      if ip'.length = 4 then (if allFF (mask.take 12) then some (ip', mask.drop 12) else some (ip', mask)) -- m = m[12:] only `if len(ip)==IPv4len && allFF(m[:12])`
      else some (ip', mask)
    else if mask.length = 4 then
      if ip'.length = 4 then some (ip', mask) else none
    else none

def maskedEq : Bytes → Bytes → Bytes → Bool
  | n :: ns, m :: ms, i :: is => (n &&& m) == (i &&& m) && maskedEq ns ms is
  | _, _, _ => true

/-- `(*IPNet).Contains(ip)` -/
def contains (nip mask ip : Bytes) : Bool :=
  match networkNumberAndMask nip mask with
  | none => false
  | some (nn, m) =>
    let ip' := (to4 ip).getD ip
    if ip'.length != nn.length then false else maskedEq nn m ip'

def spaceIdx : Bytes → Option Nat
  | [] => none
  | b :: bs => if b == 32 then some 0 else (spaceIdx bs).map (· + 1)

def sAllow : Bytes := [97, 108, 108, 111, 119]  -- "allow"
def sDeny : Bytes := [100, 101, 110, 121]        -- "deny"
def sAll : Bytes := [97, 108, 108]              -- "all"

inductive Step
  | next        -- rule does not apply to this address: continue with the next one
  | stop (v : Verdict)
deriving Repr, DecidableEq

/-- one iteration of the loop in `checkACL` -/
def step (r : Rule) (ip : Bytes) : Step :=
  match spaceIdx r.text with
  | none => .stop .malformed
  | some i =>
    let action := r.text.take i
    let who := r.text.drop (i + 1)
    if action != sAllow && action != sDeny then .stop .malformed
    else
      let hit : Option Bool :=          -- none: malformed; some b: applies?
        if who == sAll then some true
        else match r.cidr with
          | .bad => none
          | .net nip mask => some (contains nip mask ip)
      match hit with
      | none => .stop .malformed
      | some false => .next
      | some true => if action == sAllow then .stop .allow else .stop .denied

def evalRules : List Rule → Bytes → Verdict
  | [], _ => .allow
  | r :: rs, ip => match step r ip with
    | .next => evalRules rs ip
    | .stop v => v

/-- `checkACL(acls, remoteAddr)`; `addr = none` when `SplitHostPort`/`ParseIP` fail -/
def checkACL (rules : List Rule) (addr : Option Bytes) : Verdict :=
  if rules.isEmpty then .allow
  else match addr with
    | none => .badAddr
    | some ip => evalRules rules ip

end Acl
