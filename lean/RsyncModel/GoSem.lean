import RsyncModel.WireInt
/-! # Semantics of the Go subset that `tools/extract/pure.go` translates

`Gen/Pure.lean` (regenerated from /repo on every run) is written against these few definitions.
They are the *trusted* meaning of: results with the two abnormal outcomes (`err`: the function
returned an error; `panic`: a run-time panic such as an index out of range, a division by zero, a
negative `make`, or a loop that exceeded its fuel), byte slices as lists (len = cap), and loops. -/
namespace Go

inductive Res (α : Type) where
  | ok (a : α)
  | err
  | panic
deriving Repr, DecidableEq

def bind {α β : Type} (r : Res α) (f : α → Res β) : Res β :=
  match r with
  | .ok a => f a
  | .err => .err
  | .panic => .panic

@[simp] theorem bind_ok {α β : Type} (a : α) (f : α → Res β) : bind (.ok a) f = f a := rfl
@[simp] theorem bind_err {α β : Type} (f : α → Res β) : bind (.err : Res α) f = .err := rfl
@[simp] theorem bind_panic {α β : Type} (f : α → Res β) : bind (.panic : Res α) f = .panic := rfl

/-- `b[i]` -/
def idx (b : List UInt8) (i : Int) : Res UInt8 :=
  if i < 0 then .panic else
  match b[i.toNat]? with
  | some x => .ok x
  | none => .panic

/-- `b[lo:hi]` (len = cap) -/
def slice (b : List UInt8) (lo hi : Int) : Res (List UInt8) :=
  if 0 ≤ lo ∧ lo ≤ hi ∧ hi ≤ (b.length : Int) then .ok ((b.drop lo.toNat).take (hi - lo).toNat) else .panic

/-- `make([]byte, n)` -/
def make (n : Int) : Res (List UInt8) :=
  if n < 0 then .panic else .ok (List.replicate n.toNat 0)

/-- `copy(dst, src)`: the first `min(len dst, len src)` bytes of `dst` are overwritten (overlap-safe in Go) -/
def copy (dst src : List UInt8) : List UInt8 :=
  (src.take dst.length) ++ dst.drop (min dst.length src.length)

/-- truncated division, panics on zero -/
def div (a b : Int) : Res Int := if b = 0 then .panic else .ok (Int.tdiv a b)
def rem (a b : Int) : Res Int := if b = 0 then .panic else .ok (Int.tmod a b)
def nonzero (b : Bool) : Res Unit := if b then .ok () else .panic

/-- `for cond { body }` with an explicit bound on the number of iterations; exceeding it is `panic`,
so a theorem `… = .ok v` about a translated loop also shows that the bound suffices. -/
def loop {σ : Type} (fuel : Nat) (cond : σ → Bool) (body : σ → Res σ) (s : σ) : Res σ :=
  match fuel with
  | 0 => if cond s then .panic else .ok s
  | n + 1 => if cond s then bind (body s) (loop n cond body) else .ok s

/-- `for { … break / continue / return err … }`: the body yields the new state and whether to go round
again; exceeding the bound on the number of iterations is `panic` -/
def loopB {σ : Type} (fuel : Nat) (body : σ → Res (σ × Bool)) (s : σ) : Res σ :=
  match fuel with
  | 0 => .panic
  | n + 1 => bind (body s) fun r => if r.2 then loopB n body r.1 else .ok r.1

/-- `c.ReadInt32()` on a connection whose pending input is `inp`: four bytes, little endian; a short input is an error -/
def readI32 (inp : List UInt8) : Res (Int32 × List UInt8) :=
  match Wire.decI32 inp with
  | none => .err
  | some r => .ok r

/-- `c.ReadByte()` -/
def readByte (inp : List UInt8) : Res (UInt8 × List UInt8) :=
  match inp with
  | [] => .err
  | b :: rest => .ok (b, rest)

/-- `binary.Read(r, binary.LittleEndian, &u32)` -/
def readU32 (inp : List UInt8) : Res (UInt32 × List UInt8) :=
  if inp.length < 4 then .err else .ok (UInt32.ofNat (Wire.leVal (inp.take 4)), inp.drop 4)

/-- `binary.Read(r, binary.LittleEndian, &i64)` -/
def readI64 (inp : List UInt8) : Res (Int × List UInt8) :=
  if inp.length < 8 then .err else .ok ((UInt64.ofNat (Wire.leVal (inp.take 8))).toInt64.toInt, inp.drop 8)

/-- `f.Read(buf)` on a file whose unread content is `rest`: at the end of the file `(0, io.EOF)`; otherwise
between 1 and `min (len buf) (len rest)` bytes arrive — how many is up to the file system (the head of `sched`,
clamped; everything that fits once the schedule is exhausted) — and land at the start of `buf`. A reader may report
the end of the file *together with* the last bytes (`eager`; `io.Reader` allows it, `os` files never do, an `fs.FS`
may) or only by the next call. Readers that return nothing without an error for a non-empty buffer are outside this
model. Result: n, the buffer, the unread rest, the rest of the schedule, whether `err == io.EOF`. -/
def readSome (rest : List UInt8) (sched : List Nat) (buf : List UInt8) (eager : Bool) :
    Res (Int × List UInt8 × List UInt8 × List Nat × Bool) :=
  if rest = [] then .ok (0, buf, rest, sched, true)
  else
    let cap := min buf.length rest.length
    let n := min (max (sched.headD cap) 1) cap
    .ok ((n : Int), rest.take n ++ buf.drop n, rest.drop n, sched.tail, eager && (rest.drop n).isEmpty)

/-- `io.ReadFull(conn, buf)` with `len(buf) = n`: all `n` bytes or an error -/
def readFull (inp : List UInt8) (n : Int) : Res (List UInt8 × List UInt8) :=
  if n < 0 ∨ (inp.length : Int) < n then .err else .ok (inp.take n.toNat, inp.drop n.toNat)

/-- `f.ReadAt(buf, off)` with `len(buf) = n` on a file with content `b`: all `n` bytes or an error
(an empty buffer reads nothing and succeeds) -/
def readAt (b : List UInt8) (off n : Int) : Res (List UInt8) :=
  if n = 0 then .ok []
  else if 0 ≤ off ∧ 0 ≤ n ∧ off + n ≤ (b.length : Int) then .ok ((b.drop off.toNat).take n.toNat) else .err

/-- `int32(math.Sqrt(float64(n)))` for `0 ≤ n < 2^52`, where the double-precision square root
truncates to the integer square root (assumption recorded in the trusted base; the `sumsizes`
correspondence checks it on `m²-1, m², m²+1`) -/
def sqrtTrunc (n : Int) : Int := (Nat.sqrt n.toNat : Int)

/-- `t.Truncate(time.Second)` on a time given in nanoseconds: rounds down to a whole second -/
def truncSec (ns : Int) : Int := ns - ns % 1000000000

/-- what a translated function wrote to the connection (for functions translated with an output log) -/
inductive Out where
  | i32 (v : Int32)
  | bytes (b : List UInt8)
deriving Repr, DecidableEq

/-- what the sender keeps of one block of the receiver's file (`rsync.SumBuf`) -/
structure SumRec where
  index : Int32
  offset : Int
  len : Int
  sum1 : UInt32
  sum2 : List UInt8
deriving Repr, DecidableEq

/-- a received file-list entry (receiver/flist.go `File`): the fields the translated code assigns; names and link
targets are byte strings, the modification time is the 32-bit number of seconds read from the wire -/
structure FileRec where
  name : List UInt8
  length : Int
  modTime : Int32
  mode : Int32
  uid : Int32
  gid : Int32
  rdev : Int32
  linkTarget : List UInt8
  checksum : List UInt8
deriving Repr, DecidableEq

/-- `ms.ptr(off, n)` for a request inside the file: the file's bytes (what `MapFile.ptr_correct` proves of the real function) -/
def fileSlice (file : List UInt8) (off n : Int) : List UInt8 := (file.drop off.toNat).take n.toNat

/-- hand model of the read loop at the end of `mapStruct.ptr` (`for readSize > 0 { n, err :=
ms.f.Read(ms.window[readOffset:readOffset+readSize]) … }`): the file is read sequentially from the
descriptor's offset; reaching the end of the file before `readSize` bytes arrived is an error
("file has changed mid-transfer"); short reads are invisible at this level. -/
def readLoop (file window : List UInt8) (fdOff readOff readSize : Int) : Res (List UInt8 × Int) :=
  if readOff < 0 ∨ readOff + readSize > (window.length : Int) then .panic
  else if fdOff < 0 ∨ fdOff + readSize > (file.length : Int) then .err
  else .ok (window.take readOff.toNat ++ ((file.drop fdOff.toNat).take readSize.toNat ++ window.drop (readOff + readSize).toNat),
            fdOff + readSize)

end Go
