import RsyncModel.Gen.FsSites
/-! What the regenerated table of file-system call sites must satisfy (C05, C06, C07, C10).
Everything here is decided by `decide` over the *whole* table, so it is a proof about the current
source, not a sample. -/
namespace FsSitesSpec
open Gen.FsSites

def guardOk (g : Guard) : Bool := g == .afterDryReturn || g == .elseOfDry

/-! ### C10: mutating receiver sites are unreachable in a dry run -/

/-- one round: `f` is protected if it cannot be called from outside the package and every call site
of it is dominated by a dry-run return (or sits in a protected caller) -/
def protStep (prot : Fn_receiver → Bool) (f : Fn_receiver) : Bool :=
  !exported_receiver.contains f &&
  calls_receiver.any (fun c => c.callee == f) &&
  calls_receiver.all (fun c => c.callee != f || guardOk c.guard || prot c.caller)

def protN : Nat → Fn_receiver → Bool
  | 0 => fun _ => false
  | n + 1 => protStep (protN n)

def dryProtected : Fn_receiver → Bool := protN 6

/-- every mutating site of the receiver is dominated by `if rt.Opts.DryRun { return }`, or lies in a
function that is only reachable through such a guard -/
def drySafe : Bool :=
  sites_receiver.all fun s => !s.mutating || guardOk s.guard || dryProtected s.fn

/-- sites inside a dry-run branch do not mutate -/
def dryBranchPure : Bool := sites_receiver.all fun s => s.guard != .inDryBranch || !s.mutating

/-! ### C05: the receiver names its targets only through the root (or fd-relative / open handles) -/

def confinedCls (c : Cls) : Bool :=
  c == .viaRoot || c == .fdRelative || c == .rootHelper || c == .handle || c == .walkRoot || c == .procFdBind

def receiverConfined : Bool := sites_receiver.all fun s => confinedCls s.cls

/-! ### C06: the sender reads only through the FileSource and never mutates -/

def senderCls (s : Site_sender) : Bool :=
  s.cls == .viaSource || s.cls == .handle || s.cls == .walkSource || s.cls == .viaRoot ||
  -- opening the module root itself (`os.OpenRoot(s.localDir)` in `walk`)
  (s.fn == .walk && s.cls == .rawPath && s.calleeId == callee_os_OpenRoot)

def senderConfined : Bool := sites_sender.all fun s => senderCls s && !s.mutating

/-! ### C07: the daemon touches a module's directory only after the writability check -/

def daemonGuarded : Bool := sites_rsyncd.all fun s => s.writableChecked ||
  -- the check that an upload's subdirectory lies below the module (D43): two `Stat`s, nothing is changed
  ((s.fn == .subdirInModule || s.fn == .reopenByPath) && !s.mutating)

/-- raw paths in the daemon: only the configured module path itself (created / opened as the root) -/
def daemonRawOnlyModuleRoot : Bool :=
  sites_rsyncd.all fun s => s.cls != .rawPath ||
    ((s.fn == .handleConnReceiver || s.fn == .restrictToModules) &&
      (s.calleeId == callee_os_MkdirAll || s.calleeId == callee_os_OpenRoot)) ||
    -- `os.Stat(subReal)` in `subdirInModule`: the resolved path of the requested subdirectory is compared with the
    -- directory that was opened through the root (D43); read-only
    (s.fn == .subdirInModule && s.calleeId == callee_os_Stat && !s.mutating) ||
    -- `os.OpenRoot(subReal)` in `reopenByPath`: the directory that was opened through the module's root and verified to lie
    -- below the module is opened once more by its resolved absolute path (so that the root's name is absolute) and
    -- compared with the first one (D52); nothing is changed
    (s.fn == .reopenByPath && s.calleeId == callee_os_OpenRoot && !s.mutating)

/-- raw-path sites name exactly the configured paths: the module path (daemon), the walker's local
directory (sender), nothing at all in the receiver; and in `handleConnReceiver` the destination path is
the module path from the `Transfer` literal until the root has been opened -/
def rawArgsPinned : Bool :=
  rawArgs_receiver == [] &&
  rawArgs_sender == [("os.OpenRoot", "s.localDir")] &&
  rawArgs_rsyncd == [("os.MkdirAll", "mod.Path"), ("os.Stat", "subReal"), ("os.OpenRoot", "subReal"), ("os.MkdirAll", "rt.Dest"), ("os.OpenRoot", "rt.Dest")] &&
  destEvents_rsyncd.take 3 == ["Dest: module.Path", "os.MkdirAll(rt.Dest)", "os.OpenRoot(rt.Dest)"] &&
  (destEvents_rsyncd.drop 3).all (fun e => e.startsWith "rt.Dest = ")

theorem raw_args_pinned : rawArgsPinned = true := by decide +kernel

/-- the names handed to root-relative calls are the decoded entry name (cleaned when decoded), its
parent (`parent := filepath.Dir(f.Name)` in `createDevice` since the repair of D35), the path a root-relative walk reports, or the daemon's cleaned subdirectory argument. A name
with a trailing slash must never reach an `*os.Root` method: the kernel then follows a symbolic link
in the last position and the root's own check does not see it (D28; validated by the rootfs suite) -/
def rootNamesClean : Bool :=
  rootNameArgs_receiver.all (fun a => ["f.Name", "filepath.Dir(f.Name)", "parent", "path", "rt.DestRoot", "fn", "root"].contains a) &&
  rootNameArgs_rsyncd.all (fun a => ["subdir", "\".\""].contains a) &&
  rootNameArgs_sender.all (fun a => ["name", "path", "fl.path"].contains a) &&
  receiverNameCleaned && daemonSubdirCleaned && senderWalkRootCleaned

theorem root_names_clean : rootNamesClean = true := by decide +kernel

/-- data in progress goes to a renameio pending file below the root, symbolic links are replaced by
renameio's temp-symlink-and-rename: the two helpers are exactly these calls -/
def pendingHelpersOk : Bool :=
  newPendingFileBody == "{ return renameio.NewPendingFile(fn, renameio.WithRoot(root)) }" &&
  symlinkBody == "{ return renameio.SymlinkRoot(root, oldname, newname) }"

theorem pending_helpers_ok : pendingHelpersOk = true := by decide +kernel

theorem dry_sites_guarded : drySafe = true ∧ dryBranchPure = true := by decide
theorem receiver_sites_confined : receiverConfined = true := by decide
theorem sender_sites_confined : senderConfined = true := by decide
theorem daemon_sites_guarded : daemonGuarded = true ∧ daemonRawOnlyModuleRoot = true := by decide

end FsSitesSpec
