import RsyncModel.Gen.Pure
/-! # The sender's sliding read window (`internal/sender/fileio.go`, `mapStruct.ptr`)

`Gen.Pure.ptr` is the translation of the source (regenerated on every run; only the final read loop
is the hand model `Go.readLoop`). Proved here, for every window state satisfying the invariant,
every file and every request inside the file: `ptr` returns exactly the requested bytes of the
file, never an error and never a panic (no slice out of range, no read past the end of the file),
and re-establishes the invariant. -/
namespace MapFile
open Go
abbrev Bytes := List UInt8

/-- the window invariant: the first `pLen` bytes of the buffer are the file's bytes at `pOffset` -/
structure Inv (ms : Gen.Pure.mapStruct) (file : Bytes) : Prop where
  size : ms.fileSize = (file.length : Int)
  cap : (ms.window.length : Int) = ms.pSize
  off0 : 0 ≤ ms.pOffset
  len0 : 0 ≤ ms.pLen
  lenCap : ms.pLen ≤ ms.pSize
  inFile : ms.pOffset + ms.pLen ≤ ms.fileSize
  content : ms.window.take ms.pLen.toNat = (file.drop ms.pOffset.toNat).take ms.pLen.toNat

theorem bind_ite_ok {α β : Type} (c : Prop) [Decidable c] (a b : α) (K : α → Res β) :
    Go.bind (if c then Res.ok a else Res.ok b) K = K (if c then a else b) := by
  split <;> rfl

theorem slice_ok (b : Bytes) (lo hi : Int) (h0 : 0 ≤ lo) (h1 : lo ≤ hi) (h2 : hi ≤ (b.length : Int)) :
    Go.slice b lo hi = .ok ((b.drop lo.toNat).take (hi - lo).toNat) := by
  unfold Go.slice; rw [if_pos ⟨h0, h1, h2⟩]

theorem copy_short (dst src : Bytes) (h : src.length ≤ dst.length) :
    Go.copy dst src = src ++ dst.drop src.length := by
  unfold Go.copy
  rw [List.take_of_length_le h, Nat.min_eq_right h]

theorem copy_length (dst src : Bytes) : (Go.copy dst src).length = dst.length := by
  unfold Go.copy
  simp only [List.length_append, List.length_take, List.length_drop]
  omega

/-- the initial state `mapFile` creates -/
theorem inv_init (file : Bytes) (dw : Int) : Inv ⟨file.length, 0, 0, [], 0, 0, dw⟩ file := by
  constructor <;> simp


theorem take_drop_take (l : Bytes) (n a k : Nat) (h : a + k ≤ n) :
    ((l.take n).drop a).take k = (l.drop a).take k := by
  rw [List.drop_take, List.take_take]
  congr 1; omega

theorem drop_drop_take (l : Bytes) (a b k : Nat) : ((l.drop a).drop b).take k = (l.drop (a + b)).take k := by
  rw [List.drop_drop]

/-- request served from the current window -/
theorem ptr_hit (ms : Gen.Pure.mapStruct) (file : Bytes) (offset : Int) (l : Int32) (inv : Inv ms file)
    (hl : 0 < l.toInt) (hit : ms.pOffset ≤ offset ∧ offset + l.toInt ≤ ms.pOffset + ms.pLen) :
    Gen.Pure.ptr ms offset l file = .ok ((file.drop offset.toNat).take l.toInt.toNat, ms) := by
  obtain ⟨h1, h2⟩ := hit
  have := inv.off0; have := inv.len0; have := inv.lenCap; have := inv.cap
  unfold Gen.Pure.ptr
  simp only
  have e0 : (l.toInt == 0) = false := by simp; omega
  have e1 : decide (l.toInt < 0) = false := by simp; omega
  have e2 : (decide (offset ≥ ms.pOffset) && decide (offset + l.toInt ≤ ms.pOffset + ms.pLen)) = true := by
    simp; exact ⟨h1, h2⟩
  simp only [e0, e1, e2, Bool.false_eq_true, if_false, if_true]
  rw [slice_ok _ _ _ (by omega) (by omega) (by omega)]
  simp only [Go.bind_ok]
  congr 2
  have hk : (offset - ms.pOffset + l.toInt - (offset - ms.pOffset)).toNat = l.toInt.toNat := by omega
  rw [hk, ← take_drop_take ms.window ms.pLen.toNat _ _ (by omega), inv.content,
    take_drop_take _ _ _ _ (by omega), drop_drop_take]
  congr 2; omega

theorem make_ok (n : Int) (h : 0 ≤ n) : Go.make n = .ok (List.replicate n.toNat 0) := by
  unfold Go.make; rw [if_neg (by omega)]

/-- request that needs a new window: plan (alignment, clamping to the end of the file), grow,
keep the overlap with the old window, read the rest from the file, slice -/
theorem ptr_miss (ms : Gen.Pure.mapStruct) (file : Bytes) (offset : Int) (l : Int32) (inv : Inv ms file)
    (hl : 0 < l.toInt) (h0 : 0 ≤ offset) (hin : offset + l.toInt ≤ (file.length : Int))
    (miss : ¬ (ms.pOffset ≤ offset ∧ offset + l.toInt ≤ ms.pOffset + ms.pLen)) :
    ∃ ms', Gen.Pure.ptr ms offset l file = .ok ((file.drop offset.toNat).take l.toInt.toNat, ms') ∧ Inv ms' file := by
  have := inv.off0; have := inv.len0; have := inv.lenCap; have := inv.cap; have hsz := inv.size
  unfold Gen.Pure.ptr
  simp only
  have e0 : (l.toInt == 0) = false := by simp; omega
  have e1 : decide (l.toInt < 0) = false := by simp; omega
  have e2 : (decide (offset ≥ ms.pOffset) && decide (offset + l.toInt ≤ ms.pOffset + ms.pLen)) = false := by
    by_cases h : ms.pOffset ≤ offset
    · have : ¬ (offset + l.toInt ≤ ms.pOffset + ms.pLen) := fun hh => miss ⟨h, hh⟩
      simp [this]
    · simp [h]
  simp only [e0, e1, e2, Bool.false_eq_true, if_false, ]
  have hf : 0 ≤ Gen.Pure.alignedOvershoot offset ∧ Gen.Pure.alignedOvershoot offset < 1024 ∧ Gen.Pure.alignedOvershoot offset ≤ offset := by unfold Gen.Pure.alignedOvershoot; omega
  generalize Gen.Pure.alignedOvershoot offset = fudge at *
  simp only [bind_ite_ok]
  obtain ⟨hf0, hf1, hf2⟩ := hf
  generalize hws : (if decide ((if decide (offset - fudge + ms.defWindowSize > ms.fileSize) = true then _ else _ : Int) < l.toInt + fudge) = true then _ else _ : Int) = ws
  have hw : l.toInt + fudge ≤ ws ∧ offset - fudge + ws ≤ ms.fileSize := by
    rw [← hws]; unfold Gen.Pure.alignedLength
    split <;> split <;> (try split) <;> simp_all <;> omega
  clear hws
  obtain ⟨hw1, hw2⟩ := hw
  rw [make_ok ws (by omega)]
  simp only [Go.bind_ok, bind_ite_ok]
  generalize hms1 : (if decide (ws > ms.pSize) = true then _ else ms : Gen.Pure.mapStruct) = ms1
  have h1 : Inv ms1 file ∧ ws ≤ ms1.pSize ∧ ms1.pOffset = ms.pOffset ∧ ms1.pLen = ms.pLen := by
    rw [← hms1]
    split
    · rename_i hgt
      have hgt' : ws > ms.pSize := by simpa using hgt
      refine ⟨?_, Int.le_refl _, rfl, rfl⟩
      have hlen : ms.window.length ≤ (List.replicate ws.toNat (0 : UInt8)).length := by simp; omega
      constructor
      · exact inv.size
      · show ((copy (List.replicate ws.toNat 0) ms.window).length : Int) = ws
        rw [copy_length]; simp; omega
      · exact inv.off0
      · exact inv.len0
      · show ms.pLen ≤ ws; omega
      · exact inv.inFile
      · show (copy (List.replicate ws.toNat 0) ms.window).take ms.pLen.toNat = _
        rw [copy_short _ _ hlen, List.take_append_of_le_length (by omega)]
        exact inv.content
    · rename_i hgt
      have hgt' : ¬ ws > ms.pSize := by simpa using hgt
      exact ⟨inv, by omega, rfl, rfl⟩
  clear hms1
  obtain ⟨inv1, hcap1, hpo, hpl⟩ := h1
  have miss1 : ¬ (ms1.pOffset ≤ offset ∧ offset + l.toInt ≤ ms1.pOffset + ms1.pLen) := by rw [hpo, hpl]; exact miss
  have hsz1 : ms1.fileSize = ms.fileSize := by rw [inv1.size, inv.size]
  rw [← hsz1] at hw2
  clear inv miss hpo hpl hsz1 e2 this hsz
  have po0 := inv1.off0; have pl0 := inv1.len0; have plc := inv1.lenCap; have wcap := inv1.cap; have pin := inv1.inFile
  generalize hov : (if (_ && _ && _) = true then _ else Res.ok (offset - fudge, 0, ws, ms1) : Res (Int × Int × Int × Gen.Pure.mapStruct)) = ov
  have h2 : ∃ ro rsz ms2, ov = .ok (offset - fudge + ro, ro, rsz, ms2) ∧ 0 ≤ ro ∧ ro + rsz = ws ∧ 0 < rsz ∧
      (ms2.window.length : Int) = ms1.pSize ∧ ms2.fileSize = ms1.fileSize ∧ ms2.pSize = ms1.pSize ∧ ms2.defWindowSize = ms1.defWindowSize ∧
      ms2.window.take ro.toNat = (file.drop (offset - fudge).toNat).take ro.toNat := by
    rw [← hov]
    split
    · rename_i hc
      simp only [Bool.and_eq_true, decide_eq_true_eq] at hc
      obtain ⟨⟨c1, c2⟩, c3⟩ := hc
      rw [slice_ok _ _ _ (by omega) (by omega) (by omega)]
      simp only [Go.bind_ok]
      have hk : (ms1.pLen - (ms1.pOffset + ms1.pLen - (offset - fudge)) + (ms1.pOffset + ms1.pLen - (offset - fudge)) -
          (ms1.pLen - (ms1.pOffset + ms1.pLen - (offset - fudge)))).toNat = (ms1.pOffset + ms1.pLen - (offset - fudge)).toNat := by omega
      have hlo : (ms1.pLen - (ms1.pOffset + ms1.pLen - (offset - fudge))).toNat = (offset - fudge - ms1.pOffset).toNat := by omega
      rw [hk, hlo]
      generalize ht3 : List.take _ (List.drop _ ms1.window) = t3
      have hlen3 : t3.length = (ms1.pOffset + ms1.pLen - (offset - fudge)).toNat := by
        rw [← ht3]; simp only [List.length_take, List.length_drop]; omega
      have hval3 : t3 = (file.drop (offset - fudge).toNat).take (ms1.pOffset + ms1.pLen - (offset - fudge)).toNat := by
        rw [← ht3, ← take_drop_take ms1.window ms1.pLen.toNat _ _ (by omega), inv1.content, take_drop_take _ _ _ _ (by omega), drop_drop_take]
        congr 2; omega
      refine ⟨ms1.pOffset + ms1.pLen - (offset - fudge), ws - (ms1.pOffset + ms1.pLen - (offset - fudge)),
        { ms1 with window := copy ms1.window t3 }, ?_, by omega, by omega, by omega, ?_, rfl, rfl, rfl, ?_⟩
      · congr 2; omega
      · show ((copy ms1.window t3).length : Int) = ms1.pSize
        rw [copy_length]; exact wcap
      · show (copy ms1.window t3).take _ = _
        rw [copy_short _ _ (by rw [hlen3]; omega), List.take_append_of_le_length (by rw [hlen3]; omega), List.take_of_length_le (by rw [hlen3]; omega)]
        exact hval3
    · rename_i hc
      have hc' : ¬ (ms1.pOffset ≤ offset - fudge ∧ offset - fudge < ms1.pOffset + ms1.pLen ∧ offset - fudge + ws ≥ ms1.pOffset + ms1.pLen) := by
        intro ⟨a, b, c⟩; apply hc; simp [a, b, c]
      exact ⟨0, ws, ms1, by simp, by omega, by omega, by omega, wcap, rfl, rfl, rfl, by simp⟩
  clear hov
  obtain ⟨ro, rsz, ms2, hov, hro0, hsum, hrsz, hwl, hfs, hps, hdw, hcont⟩ := h2
  rw [hov]
  simp only [Go.bind_ok]
  have hnz : decide (rsz ≤ 0) = false := by simp; omega
  simp only [hnz, Bool.false_eq_true, if_false]
  generalize hms3 : (if (ms2.pFdOffset != offset - fudge + ro) = true then _ else ms2 : Gen.Pure.mapStruct) = ms3
  have h3 : ms3.window = ms2.window ∧ ms3.pFdOffset = offset - fudge + ro ∧ ms3.fileSize = ms2.fileSize ∧ ms3.pSize = ms2.pSize := by
    rw [← hms3]; split
    · exact ⟨rfl, rfl, rfl, rfl⟩
    · rename_i hne
      have : ms2.pFdOffset = offset - fudge + ro := by simpa using hne
      exact ⟨rfl, this, rfl, rfl⟩
  clear hms3
  obtain ⟨hw3, hfd3, hfs3, hps3⟩ := h3
  rw [hw3, hfd3, hfs3, hps3]
  have hsz1 := inv1.size
  have hrl : readLoop file ms2.window (offset - fudge + ro) ro rsz
      = .ok (ms2.window.take ro.toNat ++ ((file.drop (offset - fudge + ro).toNat).take rsz.toNat ++ ms2.window.drop (ro + rsz).toNat), offset - fudge + ro + rsz) := by
    unfold readLoop
    rw [if_neg (by omega), if_neg (by omega)]
  rw [hrl]
  simp only [Go.bind_ok]
  have hseg : ms2.window.take ro.toNat ++ ((file.drop (offset - fudge + ro).toNat).take rsz.toNat ++ ms2.window.drop (ro + rsz).toNat)
      = (file.drop (offset - fudge).toNat).take ws.toNat ++ ms2.window.drop ws.toNat := by
    rw [hcont, ← List.append_assoc, hsum]
    congr 1
    have e1 : (offset - fudge + ro).toNat = (offset - fudge).toNat + ro.toNat := by omega
    have e2 : ws.toNat = ro.toNat + rsz.toNat := by omega
    rw [e1, e2, ← List.drop_drop, List.take_add]
  rw [hseg]
  have hflen : ((file.drop (offset - fudge).toNat).take ws.toNat).length = ws.toNat := by
    simp only [List.length_take, List.length_drop]; omega
  rw [slice_ok _ _ _ (by omega) (by omega) (by simp only [List.length_append, List.length_drop, hflen]; omega)]
  simp only [Go.bind_ok]
  refine ⟨⟨ms2.fileSize, offset - fudge, offset - fudge + ro + rsz, (file.drop (offset - fudge).toNat).take ws.toNat ++ ms2.window.drop ws.toNat, ms2.pSize, ws, ms3.defWindowSize⟩, ?_, ?_⟩
  · congr 1
    have hk : (fudge + l.toInt - fudge).toNat = l.toInt.toNat := by omega
    rw [hk, List.drop_append_of_le_length (by rw [hflen]; omega), List.take_append_of_le_length (by simp only [List.length_drop, hflen]; omega)]
    rw [List.drop_take, List.take_take, List.drop_drop]
    have e1 : min l.toInt.toNat (ws.toNat - fudge.toNat) = l.toInt.toNat := by omega
    have e2 : (offset - fudge).toNat + fudge.toNat = offset.toNat := by omega
    rw [e1, e2]
  · constructor
    · show ms2.fileSize = _; rw [hfs]; exact hsz1
    · show ((_ ++ _ : Bytes).length : Int) = ms2.pSize
      simp only [List.length_append, List.length_drop, hflen]; omega
    · show 0 ≤ offset - fudge; omega
    · show 0 ≤ ws; omega
    · show ws ≤ ms2.pSize; omega
    · show offset - fudge + ws ≤ ms2.fileSize; omega
    · show (_ ++ _ : Bytes).take ws.toNat = (file.drop (offset - fudge).toNat).take ws.toNat
      rw [List.take_append_of_le_length (by rw [hflen]; omega), List.take_of_length_le (by rw [hflen]; omega)]

/-- **`mapStruct.ptr` returns exactly the requested bytes of the file**, for every window state
reachable so far, every file, every offset and length inside the file; it neither fails nor panics
and keeps the invariant. (`l ≤ 0` is the caller's error path and is not claimed.) -/
theorem ptr_correct (ms : Gen.Pure.mapStruct) (file : Bytes) (offset : Int) (l : Int32) (inv : Inv ms file)
    (hl : 0 < l.toInt) (h0 : 0 ≤ offset) (hin : offset + l.toInt ≤ (file.length : Int)) :
    ∃ ms', Gen.Pure.ptr ms offset l file = .ok ((file.drop offset.toNat).take l.toInt.toNat, ms') ∧ Inv ms' file := by
  by_cases hit : ms.pOffset ≤ offset ∧ offset + l.toInt ≤ ms.pOffset + ms.pLen
  · exact ⟨ms, ptr_hit ms file offset l inv hl hit, inv⟩
  · exact ptr_miss ms file offset l inv hl h0 hin hit

/-- a request `(offset, length)` inside the file -/
def Req.ok (file : Bytes) (r : Int × Int32) : Prop := 0 < r.2.toInt ∧ 0 ≤ r.1 ∧ r.1 + r.2.toInt ≤ (file.length : Int)

/-- serve a list of requests one after the other, collecting the answers -/
def serve (file : Bytes) : Gen.Pure.mapStruct → List (Int × Int32) → Res (List Bytes)
  | _, [] => .ok []
  | ms, r :: rs => Go.bind (Gen.Pure.ptr ms r.1 r.2 file) fun (b, ms') => Go.bind (serve file ms' rs) fun bs => .ok (b :: bs)

/-- **every access pattern** (sliding forward, jumping back by `backup`, crossing the window any
number of times): the answers are the file's bytes, whatever came before -/
theorem serve_correct (file : Bytes) (reqs : List (Int × Int32)) : ∀ (ms : Gen.Pure.mapStruct), Inv ms file →
    (∀ r ∈ reqs, Req.ok file r) →
    serve file ms reqs = .ok (reqs.map fun r => (file.drop r.1.toNat).take r.2.toInt.toNat) := by
  induction reqs with
  | nil => intro ms _ _; rfl
  | cons r rs ih =>
    intro ms inv hall
    obtain ⟨h1, h2, h3⟩ := hall r (by simp)
    obtain ⟨ms', he, inv'⟩ := ptr_correct ms file r.1 r.2 inv h1 h2 h3
    simp only [serve, he, Go.bind_ok, List.map_cons]
    rw [ih ms' inv' (fun x hx => hall x (by simp [hx]))]
    rfl

/-- from the state `mapFile` creates, for every default window size -/
theorem serve_from_start (file : Bytes) (dw : Int) (reqs : List (Int × Int32)) (h : ∀ r ∈ reqs, Req.ok file r) :
    serve file ⟨file.length, 0, 0, [], 0, 0, dw⟩ reqs = .ok (reqs.map fun r => (file.drop r.1.toNat).take r.2.toInt.toNat) :=
  serve_correct file reqs _ (inv_init file dw) h

end MapFile
