import RsyncModel.PureTie
import RsyncModel.RecvThm
import RsyncModel.MapFile
/-! # The receiver's token loop as the source has it (receiver.go `receiveData`, token.go `recvToken`)

`Gen.Pure.recvToken` and `Gen.Pure.recvLoop` are regenerated from /repo on every run; the connection
is a byte list that is consumed, the pending file a byte list that grows, the basis file a byte list
read at offsets. Proved: the source's loop computes exactly the model's `Recv.recvTokens` — same
content written, same unread rest, an error exactly where the model has one, never a panic, and the
loop ends within `len(input)+1` iterations — for every input (well-formed or not), every validated
header and every basis. -/
namespace RecvTie
open Go Recv Wire Delta

theorem recvToken_tied (inp : Bytes) :
    Gen.Pure.recvToken inp =
      match decI32 inp with
      | none => .err
      | some (tok, rest) =>
        if tok ≤ 0 then .ok (tok, [], rest)
        else if rest.length < tok.toInt.toNat then .err
        else .ok (tok, rest.take tok.toInt.toNat, rest.drop tok.toInt.toNat) := by
  unfold Gen.Pure.recvToken Go.readI32
  cases h : decI32 inp with
  | none => simp [Go.bind]
  | some r =>
    obtain ⟨tok, rest⟩ := r
    simp only [Go.bind_ok]
    by_cases h0 : tok ≤ 0
    · simp [h0]
    · have hpos : 0 < tok.toInt := by
        have : ¬ tok.toInt ≤ (0 : Int32).toInt := fun hh => h0 (Int32.le_iff_toInt_le.mpr hh)
        simpa using this
      have hd : decide (tok ≤ 0) = false := by simpa using h0
      simp only [hd, Bool.false_eq_true, if_false, h0]
      have hm : Go.make tok.toInt = .ok (List.replicate tok.toInt.toNat 0) := by
        unfold Go.make; rw [if_neg (by omega)]
      rw [hm]
      simp only [Go.bind_ok, List.length_replicate]
      unfold Go.readFull
      by_cases hl : rest.length < tok.toInt.toNat
      · have hc : (((tok.toInt.toNat : Nat) : Int) < 0 ∨ ((rest.length : Nat) : Int) < ((tok.toInt.toNat : Nat) : Int)) := Or.inr (by omega)
        rw [if_pos hc, if_pos hl]; rfl
      · have hc : ¬ (((tok.toInt.toNat : Nat) : Int) < 0 ∨ ((rest.length : Nat) : Int) < ((tok.toInt.toNat : Nat) : Int)) := by omega
        rw [if_neg hc, if_neg hl]
        simp


/-- one iteration of the model's `recvTokens`, as a step on (unread input, content so far, byte count) -/
def stepModel (hd : Head) (basis : Option Bytes) (inp acc : Bytes) (off : Int) : Res ((Bytes × Bytes × Int) × Bool) :=
  match decI32 inp with
  | none => .err
  | some (tok, rest) =>
    if tok == 0 then .ok ((rest, acc, off), false)
    else if tok > 0 then
      (if rest.length < tok.toInt.toNat then .err
       else .ok ((rest.drop tok.toInt.toNat, acc ++ rest.take tok.toInt.toNat, off + (tok.toInt.toNat : Int)), true))
    else match basis with
      | none => .err
      | some b => match readBlock hd b (-(tok.toInt + 1)).toNat with
        | none => .err
        | some d => .ok ((rest, acc ++ d, off + (d.length : Int)), true)

theorem readAt_eq_readBlock (hd : Head) (b : Bytes) (idx : Nat) :
    Go.readAt b ((idx * hd.bl : Nat) : Int) ((blockLen hd idx : Nat) : Int) =
      match readBlock hd b idx with
      | none => .err
      | some d => .ok d := by
  unfold Go.readAt readBlock
  simp only
  by_cases h0 : blockLen hd idx = 0
  · simp [h0]
  · have h0' : ¬ ((blockLen hd idx : Nat) : Int) = 0 := by omega
    rw [if_neg h0', if_neg h0]
    by_cases hin : idx * hd.bl + blockLen hd idx ≤ b.length
    · have : (0 : Int) ≤ ((idx * hd.bl : Nat) : Int) ∧ (0 : Int) ≤ ((blockLen hd idx : Nat) : Int) ∧
          ((idx * hd.bl : Nat) : Int) + ((blockLen hd idx : Nat) : Int) ≤ (b.length : Int) := by omega
      rw [if_pos this, if_pos hin]
      simp only [Int.toNat_natCast]
    · have : ¬ ((0 : Int) ≤ ((idx * hd.bl : Nat) : Int) ∧ (0 : Int) ≤ ((blockLen hd idx : Nat) : Int) ∧
          ((idx * hd.bl : Nat) : Int) + ((blockLen hd idx : Nat) : Int) ≤ (b.length : Int)) := by omega
      rw [if_neg this, if_neg hin]

theorem blockLen_lt (h : PureTie.Head32) (hok : h.ok) (cs idx : Nat) : blockLen (h.toHead cs) idx < 2147483648 := by
  obtain ⟨_, hb, hr⟩ := hok
  have := h.bl.toInt_lt; have := h.rem.toInt_lt
  unfold blockLen PureTie.Head32.toHead
  simp only
  split <;> omega

/-- **one pass of the source's loop is one step of the model** -/
theorem body_eq (h : PureTie.Head32) (hok : h.ok) (cs : Nat) (basis : Bytes) (hasBasis : Bool) (inp acc : Bytes) (off : Int) :
    Gen.Pure.recvLoop_body0 basis h.bl h.count hasBasis h.rem (inp, acc, off) =
      stepModel (h.toHead cs) (if hasBasis then some basis else none) inp acc off := by
  unfold Gen.Pure.recvLoop_body0 stepModel
  simp only
  rw [recvToken_tied]
  cases hdec : decI32 inp with
  | none => simp [Go.bind]
  | some r =>
    obtain ⟨tok, rest⟩ := r
    simp only
    have h0i : (0 : Int32).toInt = 0 := Int32.toInt_zero
    by_cases hz : tok = 0
    · subst hz
      have : ((0 : Int32) ≤ 0) := Int32.le_refl 0
      simp [this]
    · have hne : (tok == 0) = false := by simpa using hz
      by_cases hpos : tok > 0
      · have hle : ¬ tok ≤ 0 := by
          intro hh
          have a := Int32.le_iff_toInt_le.mp hh
          have b := Int32.lt_iff_toInt_lt.mp hpos
          rw [h0i] at a b; omega
        rw [if_neg hle]
        by_cases hl : rest.length < tok.toInt.toNat
        · rw [if_pos hl]
          simp only [Go.bind_err, hne, Bool.false_eq_true, if_false, if_pos hpos, if_pos hl]
        · rw [if_neg hl]
          have hlen : ((rest.take tok.toInt.toNat).length : Int) = (tok.toInt.toNat : Int) := by
            simp only [List.length_take]; omega
          have hpd : decide (tok > 0) = true := by simpa using hpos
          simp only [Go.bind_ok, hne, Bool.false_eq_true, if_false, hpd, if_true, if_pos hpos, if_neg hl, hlen]
      · have hle : tok ≤ 0 := by
          apply Int32.le_iff_toInt_le.mpr
          have : ¬ (0 : Int32).toInt < tok.toInt := fun hh => hpos (Int32.lt_iff_toInt_lt.mpr hh)
          rw [h0i] at this ⊢; omega
        have hneg : tok.toInt < 0 := by
          have a := Int32.le_iff_toInt_le.mp hle
          rw [h0i] at a
          have : tok.toInt ≠ 0 := fun hh => hz (Int32.toInt_inj.mp (by rw [hh, h0i]))
          omega
        have hposd : decide (tok > 0) = false := by simpa using hpos
        rw [if_pos hle]
        simp only [Go.bind_ok, hne, Bool.false_eq_true, if_false, hposd, if_neg hpos]
        cases hasBasis with
        | false => simp only [Bool.false_eq_true, if_false, Go.bind_err]
        | true =>
          simp only [if_true, Go.bind_ok]
          have hr := PureTie.refSpan_tied h hok cs tok hneg
          simp only [Gen.Pure.refSpan] at hr
          have hr2 := congrArg (fun t => t.2.1) hr
          have hr3 := congrArg (fun t => t.2.2) hr
          simp only at hr2 hr3
          rw [MapFile.bind_ite_ok]
          rw [hr2, hr3]
          have hbl := blockLen_lt h hok cs (-(tok.toInt + 1)).toNat
          have hdl : (Int32.ofInt ((blockLen (h.toHead cs) (-(tok.toInt + 1)).toNat : Nat) : Int)).toInt
              = ((blockLen (h.toHead cs) (-(tok.toInt + 1)).toNat : Nat) : Int) :=
            Int32.toInt_ofInt_of_le (by omega) (by omega)
          rw [hdl]
          have hm : Go.make ((blockLen (h.toHead cs) (-(tok.toInt + 1)).toNat : Nat) : Int)
              = .ok (List.replicate (blockLen (h.toHead cs) (-(tok.toInt + 1)).toNat) 0) := by
            unfold Go.make; rw [if_neg (by omega)]; simp
          rw [hm]
          simp only [Go.bind_ok, List.length_replicate]
          rw [readAt_eq_readBlock]
          cases readBlock (h.toHead cs) basis (-(tok.toInt + 1)).toNat with
          | none => simp only [Go.bind_err]
          | some d => simp only [Go.bind_ok]


theorem decI32_of_short (inp : Bytes) (h : inp.length < 4) : decI32 inp = none := by
  unfold decI32; rw [if_pos h]

theorem decI32_of_long (inp : Bytes) (h : ¬ inp.length < 4) :
    decI32 inp = some ((UInt32.ofNat (leVal (inp.take 4))).toInt32, inp.drop 4) := by
  unfold decI32; rw [if_neg h]

/-- iterating the step is the model's `recvTokens`: same content, same unread rest, an error exactly
where the model has one; `len(input)+1` iterations suffice -/
theorem loop_eq (hd : Head) (basis : Option Bytes) (body : Bytes × Bytes × Int → Res ((Bytes × Bytes × Int) × Bool))
    (hbody : ∀ inp acc off, body (inp, acc, off) = stepModel hd basis inp acc off) :
    ∀ (fuel : Nat) (inp acc : Bytes) (off : Int), inp.length < fuel →
      match recvTokens hd basis inp acc with
      | .ok (c, r) => ∃ off', Go.loopB fuel body (inp, acc, off) = .ok (r, c, off')
      | .error _ => Go.loopB fuel body (inp, acc, off) = .err := by
  intro fuel
  induction fuel with
  | zero => intro inp acc off h; omega
  | succ n ih =>
    intro inp acc off hlen
    rw [Go.loopB, hbody]
    unfold stepModel
    rw [recvTokens]
    by_cases hs : inp.length < 4
    · rw [decI32_of_short inp hs, dif_pos hs]
      simp only [Go.bind_err]
    · rw [decI32_of_long inp hs, dif_neg hs]
      simp only
      generalize htok : (UInt32.ofNat (leVal (inp.take 4))).toInt32 = tok
      have hrl : (inp.drop 4).length < n := by simp only [List.length_drop]; omega
      by_cases hz : (tok == 0) = true
      · simp only [hz, if_true, Go.bind_ok, Bool.false_eq_true, if_false]
        exact ⟨off, rfl⟩
      · simp only [hz, Bool.false_eq_true, if_false]
        by_cases hp : tok > 0
        · simp only [hp, if_true]
          by_cases hl : (inp.drop 4).length < tok.toInt.toNat
          · simp only [hl, if_true, Go.bind_err]
          · simp only [hl, if_false, Go.bind_ok, if_true]
            exact ih _ _ _ (by simp only [List.length_drop] at hrl ⊢; omega)
        · simp only [hp, if_false]
          cases basis with
          | none => simp only [Go.bind_err]
          | some b =>
            simp only
            cases readBlock hd b (-(tok.toInt + 1)).toNat with
            | none => simp only [Go.bind_err]
            | some d =>
              simp only [Go.bind_ok, if_true]
              exact ih _ _ _ hrl

/-- **the receiver's token loop as the source has it is the model's `recvTokens`** — for every input
byte stream (valid or hostile), every validated checksum header, every basis (or none) and whatever
was written before: the same content, the same unread rest; an error return exactly where the model
fails; no panic (no slice out of range, no negative `make`), and the loop is over after at most
`len(input)+1` passes. -/
theorem recvLoop_tied (h : PureTie.Head32) (hok : h.ok) (cs : Nat) (basis : Bytes) (hasBasis : Bool) (inp acc : Bytes) :
    Gen.Pure.recvLoop inp basis hasBasis h.count h.bl h.rem acc =
      match recvTokens (h.toHead cs) (if hasBasis then some basis else none) inp acc with
      | .ok (c, r) => .ok (c, r)
      | .error _ => .err := by
  unfold Gen.Pure.recvLoop
  simp only
  have hl := loop_eq (h.toHead cs) (if hasBasis then some basis else none)
    (Gen.Pure.recvLoop_body0 basis h.bl h.count hasBasis h.rem)
    (fun inp acc off => body_eq h hok cs basis hasBasis inp acc off) (inp.length + 1) inp acc 0 (by omega)
  cases hr : recvTokens (h.toHead cs) (if hasBasis then some basis else none) inp acc with
  | error e => rw [hr] at hl; simp only at hl; rw [hl]; rfl
  | ok v =>
    obtain ⟨c, r⟩ := v
    rw [hr] at hl; simp only at hl
    obtain ⟨off', hl'⟩ := hl
    rw [hl']; rfl

end RecvTie
