import RsyncModel.Opts
/-! Model of the daemon's connection handler (`rsyncd.HandleDaemonConn`, `handleConn`,
`handleConnReceiver`, `validateModule`): greeting, module selection, ACL verdict, argument lines,
module-prefix trimming, the role switch and the writability gate, with the file-system events the
handler itself performs before the transfer code takes over. The ACL decision is C19's model; here
it is an input. -/
namespace Daemon
open Opts Gen.OptTable

structure Module where
  name : Str
  writable : Bool
  isFS : Bool         -- backed by an fs.FS instead of a directory
  aclAllows : Bool    -- C19's verdict for this peer
deriving Repr

/-- `validateModule`: refused configurations never reach a Server -/
def validModule (hasName hasPath : Bool) (m : Module) : Bool :=
  hasName && (if m.isFS then !m.writable && !hasPath else hasPath)

inductive FsEvent
  | mkdirAllModulePath
  | openRootModulePath
  | mkdirAllSubdirInRoot (sub : Str)
  | openSubRoot (sub : Str)
deriving Repr, DecidableEq

inductive Outcome
  | badGreeting
  | listing (names : List Str)
  | unknownModule
  | denied
  | argError              -- error frame "parsing server args"
  | badArgs               -- connection dropped: fewer than two remaining args, or the first is not "."
  | sender (m : Module) (paths : List Str)
  | readOnly (m : Module) -- error frame "module is read only", nothing touched
  | tooManyPaths (m : Module)
  | receiver (m : Module) (sub : Option Str)
  | unmodelled
deriving Repr

def hasPrefix : Str → Str → Bool
  | _, [] => true
  | [], _ :: _ => false
  | a :: as, b :: bs => a == b && hasPrefix as bs

/-- `strings.TrimPrefix(path, module.Name)`, the empty result becomes "." -/
def trimModule (name path : Str) : Str :=
  let t := if hasPrefix path name then path.drop name.length else path
  if t.isEmpty then ['.'] else t

def isSpaceC (c : Char) : Bool := c == ' ' || c == '\t' || c == '\n' || c == '\r' || c.toNat == 11 || c.toNat == 12
def trimSpace (s : Str) : Str := ((s.dropWhile isSpaceC).reverse.dropWhile isSpaceC).reverse

/-- argument lines up to (not including) the first empty one, each trimmed -/
def flagsOf : List Str → List Str
  | [] => []
  | l :: rest => let t := trimSpace l; if t.isEmpty then [] else t :: flagsOf rest

/-- the role switch of `handleConn` and the writability gate of `handleConnReceiver` -/
def role (m : Module) (s : St) : Outcome :=
  match s.remaining with
  | d :: p :: ps =>
    if d != ['.'] then .badArgs
    else
      let paths := (p :: ps).map (trimModule m.name)
      if acc s .Sender then .sender m paths
      else if !m.writable then .readOnly m
      else match paths with
        | [q] => if q == ['/'] then .receiver m none else .receiver m (some (if q.head? == some '/' then q.drop 1 else q))
        | _ => .tooManyPaths m
  | _ => .badArgs

/-- after `@RSYNCD: OK`: the argument lines are parsed with the CLI option parser -/
def afterOk (m : Module) (argLines : List Str) : Outcome :=
  match parse (flagsOf argLines) with
  | .err => .argError
  | .exit => .argError
  | .unmodelled => .unmodelled
  | .ok s => role m s

def handle (mods : List Module) (greeting moduleLine : Str) (argLines : List Str) : Outcome :=
  if !hasPrefix greeting "@RSYNCD: ".toList then .badGreeting
  else
    let req := trimSpace moduleLine
    if req.isEmpty || req == "#list".toList then .listing (mods.map (·.name))
    else match mods.find? (·.name == req) with
      | none => .unknownModule
      | some m => if !m.aclAllows then .denied else afterOk m argLines

/-- what the handler itself does to the file system (before `ReceiveFileList` / `SendFileList`) -/
def events : Outcome → List FsEvent
  | .receiver _ none => [.mkdirAllModulePath, .openRootModulePath]
  | .receiver _ (some sub) => [.mkdirAllModulePath, .openRootModulePath, .openSubRoot sub, .mkdirAllSubdirInRoot sub]
  | .tooManyPaths _ => [.mkdirAllModulePath, .openRootModulePath]
  | _ => []

def isReceive : Outcome → Bool
  | .receiver _ _ => true
  | .tooManyPaths _ => true
  | _ => false

def moduleOf : Outcome → Option Module
  | .sender m _ => some m
  | .readOnly m => some m
  | .tooManyPaths m => some m
  | .receiver m _ => some m
  | _ => none

end Daemon
