import RsyncModel.Delta.Spec
import RsyncModel.Delta.AlgA
import RsyncModel.Delta.Roll
import RsyncModel.Delta.AlgB
import RsyncModel.Proto
import RsyncModel.WireInt
import RsyncModel.Walk
import RsyncModel.Mux
