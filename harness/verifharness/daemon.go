//go:build verif

package main

// daemon: the real rsync daemon (rsyncd.Server.Serve on a TCP socket) against a scripted client that
// speaks the daemon protocol by hand: greeting, module line, argument lines, then either a receiving
// client (decodes the file list with the reference decoder, requests every regular file) or a sending
// client (uploads one file under a unique name).
//
//	daemon <modules> <greeting> <module line> <arg lines>   -> outcome class (model: Daemon.handle)
//
// Oracles (implementation level): C06 — nothing that lives outside the module (names and contents are
// marked) ever appears in the bytes the daemon sends, for every request path of a traversal grammar;
// C07 — a module that is not writable is byte-for-byte unchanged and the request is answered with an
// error; C05 — an upload into a writable module changes nothing outside the module directory.

import (
	"bufio"
	"bytes"
	"encoding/binary"
	"errors"
	"fmt"
	"github.com/gokrazy/rsync/internal/rsyncdconfig"
	"io"
	"io/fs"
	"net"
	"os"
	"path/filepath"
	"sort"
	"strings"
	"testing/fstest"
	"time"

	"github.com/gokrazy/rsync/rsyncd"
)

func init() { suites["daemon"] = suiteDaemon }

const (
	canaryName   = "canaryname-7f3a"
	canarySecret = "CANARY-SECRET-CONTENT-91c2"
)

type dmod struct {
	name     string
	writable bool
	fs       bool
	allow    bool
}

type talkResult struct {
	class   string
	raw     []byte // every byte the daemon sent
	listing []refEntry
	detail  string
}

func readIdle(c net.Conn, idle time.Duration, max int) []byte {
	var out []byte
	buf := make([]byte, 64*1024)
	for len(out) < max {
		c.SetReadDeadline(time.Now().Add(idle))
		n, err := c.Read(buf)
		out = append(out, buf[:n]...)
		if err != nil {
			break
		}
	}
	return out
}

// demux splits a multiplexed server stream into data payload and error/info messages
func demuxAll(b []byte) (data []byte, msgs []string) {
	data, msgs, _ = demuxPartial(b)
	return
}

// demuxPartial also says whether the stream ends on a frame boundary
func demuxPartial(b []byte) (data []byte, msgs []string, complete bool) {
	complete = true
	for len(b) > 0 {
		if len(b) < 4 {
			return data, msgs, false
		}
		h := binary.LittleEndian.Uint32(b)
		tag, n := int(h>>24)-7, int(h&0xffffff)
		b = b[4:]
		if n > len(b) {
			n = len(b)
			complete = false
		}
		if tag == 0 {
			data = append(data, b[:n]...)
		} else {
			msgs = append(msgs, string(b[:n]))
		}
		b = b[n:]
	}
	return data, msgs, complete
}

// talk runs one scripted session. role: "pull" (we receive), "push" (we upload uplName with uplData)
// talkRequests, when set, replaces the requests a pulling talk() sends after the file list (default: every regular
// file, without block checksums)
var talkRequests func(es []refEntry, sorted []string) []byte

func talk(addr, greeting, moduleLine string, argLines []string, role string, o refOpts, withDelete bool, uplName string, uplData []byte) talkResult {
	var res talkResult
	c, err := net.DialTimeout("tcp", addr, 5*time.Second)
	if err != nil {
		res.class = "dialerr"
		return res
	}
	defer c.Close()
	rd := bufio.NewReader(c)
	c.SetDeadline(time.Now().Add(20 * time.Second))
	line, _ := rd.ReadString('\n') // server greeting
	res.raw = append(res.raw, line...)
	fmt.Fprintf(c, "%s\n%s\n", greeting, moduleLine)
	var lines []string
	for {
		l, err := rd.ReadString('\n')
		res.raw = append(res.raw, l...)
		if l != "" {
			lines = append(lines, l)
		}
		if err != nil || strings.HasPrefix(l, "@RSYNCD: OK") || strings.HasPrefix(l, "@ERROR") || strings.HasPrefix(l, "@RSYNCD: EXIT") {
			break
		}
	}
	last := ""
	if len(lines) > 0 {
		last = lines[len(lines)-1]
	}
	switch {
	case strings.HasPrefix(last, "@ERROR: Unknown module"):
		res.class = "unknown"
		return res
	case strings.HasPrefix(last, "@ERROR"):
		res.class = "denied"
		res.detail = strings.TrimSpace(last)
		return res
	case strings.HasPrefix(last, "@RSYNCD: EXIT"):
		var names []string
		for _, l := range lines[:len(lines)-1] {
			names = append(names, strings.SplitN(l, "\t", 2)[0])
		}
		res.class = "list " + hexArgs(names)
		return res
	case !strings.HasPrefix(last, "@RSYNCD: OK"):
		res.class = "badgreeting"
		return res
	}
	for _, a := range argLines {
		fmt.Fprintf(c, "%s\n", a)
	}
	fmt.Fprintf(c, "\n")
	// the binary part: unread text buffered in rd belongs to it
	var seedb [4]byte
	if _, err := io.ReadFull(rd, seedb[:]); err != nil {
		res.class = "badargs"
		return res
	}
	res.raw = append(res.raw, seedb[:]...)
	seed := int32(binary.LittleEndian.Uint32(seedb[:]))
	send := func(b []byte) { c.Write(b) }
	var w bytes.Buffer
	if role == "pull" {
		wI32(&w, 0) // empty filter list
		send(w.Bytes())
		// read until the file list is complete (it decodes and nothing is left over), an error frame
		// arrives, the daemon closes, or — the slow path — nothing comes for a while
		var rest []byte
		buf := make([]byte, 64*1024)
		quiet := 0
		for quiet < 80 { // 2 s without a byte
			c.SetReadDeadline(time.Now().Add(25 * time.Millisecond))
			n, err := rd.Read(buf)
			rest = append(rest, buf[:n]...)
			if n > 0 {
				quiet = 0
				d, m, whole := demuxPartial(rest)
				if len(m) > 0 && whole {
					break
				}
				if _, _, left, derr := refDecodeList(d, o); derr == nil && len(left) == 0 {
					break
				}
			} else {
				quiet++
			}
			if err != nil && !errors.Is(err, os.ErrDeadlineExceeded) {
				break
			}
		}
		c.SetDeadline(time.Now().Add(20 * time.Second))
		res.raw = append(res.raw, rest...)
		data, msgs := demuxAll(rest)
		if len(msgs) > 0 && len(data) == 0 {
			res.class, res.detail = classifyFrame(msgs[0]), strings.TrimSpace(msgs[0])
			return res
		}
		es, _, _, derr := refDecodeList(data, o)
		if derr != nil {
			res.class = "sender"
			res.detail = "undecodable file list: " + derr.Error()
			return res
		}
		res.listing = es
		res.class = "sender"
		// request every regular file (the sender numbers files by sorted name)
		names := make([]string, len(es))
		for i, e := range es {
			names[i] = string(e.name)
		}
		sorted := append([]string{}, names...)
		sort.Strings(sorted)
		w.Reset()
		if talkRequests != nil {
			w.Write(talkRequests(es, sorted))
			sorted = nil
		}
		for i, n := range sorted {
			for _, e := range es {
				if string(e.name) == n && e.mode&sIFMT == sIFREG {
					wI32(&w, int32(i))
					for k := 0; k < 4; k++ {
						wI32(&w, 0)
					}
					break
				}
			}
		}
		wI32(&w, -1)
		wI32(&w, -1)
		wI32(&w, -1)
		send(w.Bytes())
		more := readIdleR(rd, c, 1500*time.Millisecond)
		res.raw = append(res.raw, more...)
		return res
	}
	// push: optional filter list, file list, data of the one file, phase markers
	if withDelete {
		wI32(&w, 0)
	}
	es := []refEntry{{name: []byte("."), mode: sIFDIR | 0o755, size: 4096, mtime: 1500000000}}
	if uplName != "" {
		es = append(es, refEntry{name: []byte(uplName), mode: sIFREG | 0o644, size: int64(len(uplData)), mtime: 1500000005})
	}
	w.Write(refEncodeList(es, o, nil, 0))
	if uplName != "" {
		wI32(&w, 1)
		for _, v := range []int32{0, 700, 2, 0} {
			wI32(&w, v)
		}
		wI32(&w, int32(len(uplData)))
		w.Write(uplData)
		wI32(&w, 0)
		w.Write(refFileSum(seed, uplData))
	}
	wI32(&w, -1)
	wI32(&w, -1)
	send(w.Bytes())
	rest := readIdleR(rd, c, 1500*time.Millisecond)
	res.raw = append(res.raw, rest...)
	_, msgs := demuxAll(rest)
	if len(msgs) > 0 {
		res.class, res.detail = classifyFrame(msgs[0]), strings.TrimSpace(msgs[0])
		return res
	}
	res.class = "receiver"
	return res
}

func readIdleR(rd *bufio.Reader, c net.Conn, idle time.Duration) []byte {
	var out []byte
	buf := make([]byte, 64*1024)
	for len(out) < 64<<20 {
		c.SetReadDeadline(time.Now().Add(idle))
		n, err := rd.Read(buf)
		out = append(out, buf[:n]...)
		if err != nil {
			break
		}
	}
	return out
}

func classifyFrame(msg string) string {
	switch {
	case strings.Contains(msg, "parsing server args"):
		return "argerror"
	case strings.Contains(msg, "module is read only"):
		return "readonly"
	case strings.Contains(msg, "at most one destination path"):
		return "toomany"
	case strings.Contains(msg, "OpenRoot(") || strings.Contains(msg, "MkdirAll("):
		return "receiver-refused"
	default:
		return "error-frame"
	}
}

// shortFS: an fs.FS module with a file that claims to be longer than what it delivers when it is read (it shrank after
// it was listed, or the file system lies)
type shortFS struct{ fstest.MapFS }

type shortFile struct {
	fs.File
	claim int64
}

type shortInfo struct {
	fs.FileInfo
	claim int64
}

func (i shortInfo) Size() int64 { return i.claim }
func (f *shortFile) Stat() (fs.FileInfo, error) {
	fi, err := f.File.Stat()
	if err != nil {
		return nil, err
	}
	return shortInfo{fi, f.claim}, nil
}
func (f *shortFile) Seek(off int64, whence int) (int64, error) {
	if sk, ok := f.File.(io.Seeker); ok {
		return sk.Seek(off, whence)
	}
	return 0, fmt.Errorf("not seekable")
}
func (s shortFS) Open(name string) (fs.File, error) {
	f, err := s.MapFS.Open(name)
	if err == nil && name == "short.bin" {
		return &shortFile{File: f, claim: 200 * 1024}, nil
	}
	return f, err
}

func suiteDaemon(h *H) {
	os.Stderr = devNull
	base, err := os.MkdirTemp("", "verif-daemon")
	if err != nil {
		panic(err)
	}
	defer os.RemoveAll(base)
	// ---- the configuration file: what the daemon believes about a module is what that module's own table
	// says — a key that is absent has its default (not writable, no ACL), wherever the module stands in the file
	if h.extra == nil {
		for i := 0; i < h.n(60, 1500); i++ {
			type mspec struct {
				name     string
				writable int // -1 absent, 0 false, 1 true
				acl      []string
				hasACL   bool
			}
			nm := 1 + h.rng.Intn(4)
			var ms []mspec
			var toml strings.Builder
			toml.WriteString("[[listener]]\nrsyncd = \"localhost:0\"\n")
			for k := 0; k < nm; k++ {
				m := mspec{name: fmt.Sprintf("m%d", k), writable: h.pick(-1, -1, 0, 1, 1)}
				if h.rng.Intn(3) == 0 {
					m.hasACL = true
					m.acl = [][]string{{"deny all"}, {"allow 10.0.0.0/8", "deny all"}, {}}[h.rng.Intn(3)]
				}
				ms = append(ms, m)
				fmt.Fprintf(&toml, "\n[[module]]\n")
				keys := []string{"name", "path", "writable", "acl"}
				h.rng.Shuffle(len(keys), func(a, b int) { keys[a], keys[b] = keys[b], keys[a] })
				for _, key := range keys {
					switch key {
					case "name":
						fmt.Fprintf(&toml, "name = %q\n", m.name)
					case "path":
						fmt.Fprintf(&toml, "path = %q\n", filepath.Join(base, "cfg", m.name))
					case "writable":
						if m.writable >= 0 {
							fmt.Fprintf(&toml, "writable = %v\n", m.writable == 1)
						}
					case "acl":
						if m.hasACL {
							var q []string
							for _, a := range m.acl {
								q = append(q, fmt.Sprintf("%q", a))
							}
							fmt.Fprintf(&toml, "acl = [%s]\n", strings.Join(q, ", "))
						}
					}
				}
			}
			cfg, err := rsyncdconfig.FromString(toml.String())
			outc, v := "ok", ""
			if err != nil {
				outc = "err"
				v = "FAIL[C07] a valid configuration file is rejected: " + err.Error()
			} else if len(cfg.Modules) != len(ms) {
				v = fmt.Sprintf("FAIL[C07] the configuration file has %d modules, the daemon sees %d", len(ms), len(cfg.Modules))
			} else {
				for k, m := range ms {
					got := cfg.Modules[k]
					if got.Name != m.name || got.Path != filepath.Join(base, "cfg", m.name) {
						v = fmt.Sprintf("FAIL[C07] module %d of the configuration file is read as %q at %q", k, got.Name, got.Path)
					}
					if got.Writable != (m.writable == 1) {
						v = fmt.Sprintf("FAIL[C07] module %q %s in the configuration file, the daemon treats it as writable=%v", m.name,
							map[int]string{-1: "has no writable key", 0: "says writable = false", 1: "says writable = true"}[m.writable], got.Writable)
					}
					if strings.Join(got.ACL, "|") != strings.Join(m.acl, "|") {
						v = fmt.Sprintf("FAIL[C19] module %q has the access list %q in the configuration file, the daemon uses %q", m.name, m.acl, got.ACL)
					}
				}
			}
			h.emit(fmt.Sprintf("!config seed=%d case=%d modules=%d", h.seed, i, nm), outc, v, nm > 1)
			h.stat("daemon.config")
		}
	}
	// ---- the configuration as the daemon binary loads it (FromFile), with a drop-in directory next to the file: whatever
	// the loader picks up, a module is writable only if its own table says so
	if h.extra == nil {
		for i := 0; i < h.n(6, 60); i++ {
			cdir := filepath.Join(base, fmt.Sprintf("cfgfile%d", i))
			mainFile := filepath.Join(cdir, "gokr-rsyncd.toml")
			os.MkdirAll(mainFile+".d", 0o755)
			type dmodS struct {
				name     string
				writable int
			}
			want := map[string]int{}
			writeMods := func(fn string, pre string, ms []dmodS) {
				var b strings.Builder
				b.WriteString(pre)
				for _, m := range ms {
					fmt.Fprintf(&b, "\n[[module]]\nname = %q\npath = %q\n", m.name, filepath.Join(cdir, "data", m.name))
					if m.writable >= 0 {
						fmt.Fprintf(&b, "writable = %v\n", m.writable == 1)
					}
					want[m.name] = m.writable
				}
				os.WriteFile(fn, []byte(b.String()), 0o644)
			}
			writeMods(mainFile, "[[listener]]\nrsyncd = \"localhost:0\"\n", []dmodS{{"main0", h.pick(-1, 0, 1)}})
			nsn := 2 + h.rng.Intn(3)
			for k := 0; k < nsn; k++ {
				var ms []dmodS
				for j := 0; j < 1+h.rng.Intn(2); j++ {
					w := h.pick(-1, -1, 0, 1, 1)
					if k == 0 {
						w = 1
					} else if k == 1 {
						w = -1
					}
					ms = append(ms, dmodS{fmt.Sprintf("s%dm%d", k, j), w})
				}
				writeMods(filepath.Join(mainFile+".d", fmt.Sprintf("%d0-snip.toml", k+1)), "", ms)
			}
			cfg, err := rsyncdconfig.FromFile(mainFile)
			outc, v := "ok", ""
			if err != nil {
				outc = "err"
			} else {
				seen := 0
				for _, m := range cfg.Modules {
					w, known := want[m.Name]
					if !known {
						v = fmt.Sprintf("FAIL[C07] the loader produced a module %q that no file declares", m.Name)
						continue
					}
					seen++
					if m.Writable != (w == 1) {
						v = fmt.Sprintf("FAIL[C07] module %q %s in its own table, the loaded configuration has writable=%v (files: main + %d drop-ins)", m.Name,
							map[int]string{-1: "has no writable key", 0: "says writable = false", 1: "says writable = true"}[w], m.Writable, nsn)
					}
				}
				outc = fmt.Sprintf("ok modules=%d", seen)
			}
			h.emit(fmt.Sprintf("!config-dropin seed=%d case=%d snippets=%d", h.seed, i, nsn), strings.SplitN(outc, " ", 2)[0], v, true)
			h.stat("daemon.config-dropin")
			os.RemoveAll(cdir)
		}
	}
	out := filepath.Join(base, "outside")
	mk := func(p string, data string) {
		os.MkdirAll(filepath.Dir(p), 0o755)
		os.WriteFile(p, []byte(data), 0o644)
	}
	// names carrying the marker are *children* of outside directories (seen only if a walk enters them);
	// the objects symlinks inside the modules point at have neutral names, so that a link target — which
	// legitimately belongs to the module — never contains a marker
	mk(filepath.Join(out, canaryName), canarySecret)
	mk(filepath.Join(out, "victimfile"), canarySecret+"-v")
	mk(filepath.Join(out, "cdir", canaryName+"-2"), canarySecret+"-2")
	mk(filepath.Join(base, canaryName+"-top"), canarySecret+"-top")
	mods := filepath.Join(base, "mods")
	// the modules hold the same names with the same sizes and modification times but their own contents: whatever
	// a daemon remembers from one connection (or one module) must not show up in what it sends for another
	modT := time.Unix(1400000000, 0)
	populate := func(dir string) {
		tag := (filepath.Base(dir) + "__")[:2]
		mk(filepath.Join(dir, "a.txt"), "inside-a-"+tag)
		mk(filepath.Join(dir, "sub", "inner.txt"), "inside-inner-"+tag)
		mk(filepath.Join(dir, "sub", "deep", "x"), "inside-x-"+tag)
		mk(filepath.Join(dir, "big.txt"), strings.Repeat("inside-big-"+tag+"\n", 8000)) // ~100 KiB carrying the module's tag throughout
		for _, f := range []string{"a.txt", "sub/inner.txt", "sub/deep/x", "big.txt"} {
			os.Chtimes(filepath.Join(dir, f), modT, modT)
		}
		os.Symlink("../../outside", filepath.Join(dir, "lout"))
		os.Symlink(out, filepath.Join(dir, "labs"))
		os.Symlink("../../outside/victimfile", filepath.Join(dir, "lfile"))
		os.Symlink("../..", filepath.Join(dir, "sub", "lup"))
		os.Symlink("..", filepath.Join(dir, "lpar")) // exactly the directory that holds the module
		os.Symlink("sub", filepath.Join(dir, "lin"))
		os.Symlink("../../../outside/cdir", filepath.Join(dir, "sub", "deep", "lcd"))
		// link targets that end in a slash and name another link (os.Root of Go 1.25 follows these in the last position)
		os.Symlink("labs/", filepath.Join(dir, "lsl"))
		os.Symlink("lout/", filepath.Join(dir, "lsl2"))
		os.Symlink("lup/", filepath.Join(dir, "sub", "lsl3"))
		os.Symlink("lin/", filepath.Join(dir, "lsl4"))
		// absolute links whose target text lies inside the module but passes through a link that leaves it
		os.Symlink(filepath.Join(dir, "lout"), filepath.Join(dir, "labsin"))
		os.Symlink(filepath.Join(dir, "sub", "deep", "lcd"), filepath.Join(dir, "labsin2"))
		os.Symlink(filepath.Join(dir, "sub"), filepath.Join(dir, "labsok"))
		// … and a directory beside the module whose path begins with the module's path (<module>-mirror)
		os.Symlink("lsibt/", filepath.Join(dir, "lsib"))
		os.Symlink("../"+filepath.Base(dir)+"-mirror", filepath.Join(dir, "lsibt"))
	}
	for _, m := range []string{"ro", "rw", "m", "mx", "shared", "rw-mirror"} {
		populate(filepath.Join(mods, m))
	}
	populated := time.Now()
	mapfs := fstest.MapFS{"f.txt": {Data: []byte("fs-inside"), Mode: 0o644}, "d/g": {Data: []byte("fs-g"), Mode: 0o644}}
	config := []rsyncd.Module{
		{Name: "ro", Path: filepath.Join(mods, "ro")},
		{Name: "rw", Path: filepath.Join(mods, "rw"), Writable: true},
		{Name: "m", Path: filepath.Join(mods, "m")},
		{Name: "mx", Path: filepath.Join(mods, "mx")},
		{Name: "fsmod", FS: mapfs},
		{Name: "fsshort", FS: shortFS{fstest.MapFS{"short.bin": {Data: bytes.Repeat([]byte("short-own-content\n"), 220), Mode: 0o644}}}},
		{Name: "deny", Path: filepath.Join(mods, "ro"), ACL: []string{"deny all"}},
		// one directory exported twice: writable under one name, read-only under another
		{Name: "sh-rw", Path: filepath.Join(mods, "shared"), Writable: true},
		{Name: "sh-ro", Path: filepath.Join(mods, "shared")},
		// a read-only module whose directory name begins with the writable module's
		{Name: "rw-mirror", Path: filepath.Join(mods, "rw-mirror")},
	}
	dm := []dmod{{"ro", false, false, true}, {"rw", true, false, true}, {"m", false, false, true}, {"mx", false, false, true}, {"fsmod", false, true, true}, {"fsshort", false, true, true}, {"deny", false, false, false}, {"sh-rw", true, false, true}, {"sh-ro", false, false, true}, {"rw-mirror", false, false, true}}
	var modSpec []string
	for _, m := range dm {
		w, k, a := "r", "dir", "allow"
		if m.writable {
			w = "w"
		}
		if m.fs {
			k = "fs"
		}
		if !m.allow {
			a = "deny"
		}
		modSpec = append(modSpec, fmt.Sprintf("%s:%s:%s:%s", hx([]byte(m.name)), w, k, a))
	}
	d, err := startDaemon(config)
	if err != nil {
		panic(err)
	}
	defer d.stop()
	addr := d.ln.Addr().String()
	op := func(greeting, ml string, args []string) string {
		return fmt.Sprintf("daemon %s %s %s %s #%q %q", strings.Join(modSpec, ";"), hx([]byte(greeting)), hx([]byte(ml)), hexArgs(append(append([]string{}, args...), "")), ml, args)
	}
	leak := func(raw []byte) string {
		if bytes.Contains(raw, []byte(canarySecret)) {
			return "FAIL[C06] the daemon sent the content of a file outside the module"
		}
		if bytes.Contains(raw, []byte(canaryName)) {
			return "FAIL[C06] the daemon sent the name of an object outside the module"
		}
		return ""
	}
	uplNo := 0
	// ---------------- pull requests: traversal grammar x option sets
	type optset struct {
		flags string
		o     refOpts
	}
	optsets := []optset{
		{"-logDtpr", refOpts{uid: true, gid: true, links: true, devices: true, specials: true}},
		{"-rlc", refOpts{links: true, checksum: true}},
		{"-r", refOpts{}},
	}
	reqs := []string{"", "/", ".", "sub", "sub/", "sub/deep/", "a.txt", "..", "../", "../..", "../outside", "../outside/", "../outside/" + canaryName, "../outside/victimfile", "../../outside/",
		"sub/../..", "sub/../../outside/", "//../", "/..", "./../", "lout", "lout/", "lout/" + canaryName, "lout/cdir/", "labs", "labs/", "labs/" + canaryName, "lfile", "lin", "lin/",
		"lin/deep/lcd/", "sub/lup", "sub/lup/", "sub/lup/outside/", "sub/deep/lcd/", "sub/deep/lcd/" + canaryName + "-2", out, out + "/", "/" + strings.TrimPrefix(out, "/") + "/", "/etc/", "x", "x/../../outside/", "sub//inner.txt", "./sub/./deep/", "sub/deep/../../../outside/",
		// repeated and mixed trailing separators behind a link in the last position, and a link reached through ".."
		"lsib/", "lsibt/", "labsin/", "labsin", "labsin2/", "labsok/", "labsin/cdir/", "lsl", "lsl/", "lsl2/", "lsl2", "sub/lsl3/", "lsl4/", "lsl/cdir/", "lsl//", "lout//", "lout///", "labs//", "lout/./", "lout//.", "sub/../lout//", "sub/../labs//", "sub/deep/lcd//", "sub/lup//", "lin//", "lout//cdir//", "./lout//", "sub//", "sub/deep//"}
	pullCase := func(module, req string, os_ optset, extraArg string) {
		args := []string{"--server", "--sender", os_.flags}
		if extraArg != "" {
			args = append(args, extraArg)
		}
		args = append(args, ".", module+"/"+req)
		res := talk(addr, "@RSYNCD: 27", module, args, "pull", os_.o, false, "", nil)
		v := leak(res.raw)
		h.emit(op("@RSYNCD: 27", module, args), res.class, v, res.class == "sender")
		h.stat("daemon.pull." + res.class)
		if len(res.listing) > 1 {
			h.stat("daemon.pull.nonempty-listing")
		}
	}
	for _, module := range []string{"ro", "rw", "m", "mx", "fsmod"} {
		for i, req := range reqs {
			for j, os_ := range optsets {
				if !h.thorough() && module != "ro" && (i+j)%4 != 0 {
					continue
				}
				pullCase(module, req, os_, "")
			}
		}
	}
	// several paths in one request: every one of them stays inside the module, wherever it stands in the request
	for _, module := range []string{"ro", "rw", "m"} {
		for _, harmless := range []string{"a.txt", "sub/", ""} {
			for _, esc := range []string{"lsl/", "labsin/", "lout/", "../outside/", "lsl2/", "labs/", "sub/lsl3/", "labsin2/"} {
				for _, order := range [][]string{{harmless, esc}, {esc, harmless}, {harmless, harmless, esc}} {
					if !h.thorough() && module != "ro" && (len(esc)+len(harmless))%3 != 0 {
						continue
					}
					args := []string{"--server", "--sender", "-logDtpr", "."}
					for _, pth := range order {
						args = append(args, module+"/"+pth)
					}
					res := talk(addr, "@RSYNCD: 27", module, args, "pull", optsets[0].o, false, "", nil)
					v := leak(res.raw)
					h.emit(fmt.Sprintf("!daemon-multipath seed=%d module=%s paths=%q", h.seed, module, order), res.class, v, true)
					h.stat("daemon.multipath." + res.class)
				}
			}
		}
	}
	// one long-running daemon, several modules, several connections: the checksums of a --checksum listing are
	// those of the requested module's own files, whichever modules were listed before over this daemon (the files
	// have been left alone for a few seconds by then, like files of a real module)
	if w := 2500*time.Millisecond - time.Since(populated); w > 0 {
		time.Sleep(w)
	}
	for round := 0; round < 2; round++ {
		for _, module := range []string{"ro", "rw", "m", "mx", "rw", "ro"} {
			args := []string{"--server", "--sender", "-rlc", ".", module + "/"}
			res := talk(addr, "@RSYNCD: 27", module, args, "pull", optsets[1].o, false, "", nil)
			v := leak(res.raw)
			regular := 0
			for _, e := range res.listing {
				if e.mode&0o170000 != 0o100000 {
					continue
				}
				regular++
				own, err := os.ReadFile(filepath.Join(mods, module, string(e.name)))
				if err != nil {
					continue
				}
				if !bytes.Equal(e.sum[:], md4sum(own)) && v == "" {
					v = fmt.Sprintf("FAIL[C06] the checksum sent for %q of module %s is not the checksum of that module's file", e.name, module)
					for _, other := range []string{"ro", "rw", "m", "mx"} {
						if ob, err := os.ReadFile(filepath.Join(mods, other, string(e.name))); err == nil && other != module && bytes.Equal(e.sum[:], md4sum(ob)) {
							v += " (it is the checksum of module " + other + "'s file of the same name)"
							break
						}
					}
				}
			}
			if regular < 3 && v == "" {
				v = fmt.Sprintf("FAIL[C06] a --checksum listing of module %s has %d regular files, expected 3 (%s)", module, regular, res.class)
			}
			h.emit(fmt.Sprintf("!daemon-xmod seed=%d round=%d module=%s", h.seed, round, module), res.class, v, true)
			h.stat("daemon.xmod")
		}
	}
	// requests a well-behaved client never sends, after transfers of *other* modules over the same daemon: block
	// checksums for every kind of entry (a directory, a symlink: the sender can open but not read them) and for regular
	// files. Whatever the sender answers — an error, literal data — carries nothing of another module's files.
	{
		deltaReq := func(kinds func(e refEntry) bool) func(es []refEntry, sorted []string) []byte {
			return func(es []refEntry, sorted []string) []byte {
				var w bytes.Buffer
				for i, n := range sorted {
					for _, e := range es {
						if string(e.name) == n && kinds(e) {
							wI32(&w, int32(i))
							for _, v := range []int32{1, 700, 2, 0} {
								wI32(&w, v)
							}
							w.Write([]byte{1, 2, 3, 4, 5, 6}) // one block: weak sum, two bytes of strong sum
							break
						}
					}
				}
				wI32(&w, -1)
				wI32(&w, -1)
				wI32(&w, -1)
				return w.Bytes()
			}
		}
		tagOf := func(m string) string { return (m + "__")[:2] }
		for round, pair := range [][2]string{{"rw", "ro"}, {"ro", "m"}, {"m", "mx"}, {"mx", "rw"}} {
			first, second := pair[0], pair[1]
			talkRequests = deltaReq(func(e refEntry) bool { return e.mode&sIFMT == sIFREG })
			talk(addr, "@RSYNCD: 27", first, []string{"--server", "--sender", "-rl", ".", first + "/"}, "pull", refOpts{links: true}, false, "", nil)
			talkRequests = deltaReq(func(e refEntry) bool { return e.mode&sIFMT != sIFREG })
			line := fmt.Sprintf("!daemon-xreq seed=%d round=%d after=%s module=%s", h.seed, round, first, second)
			h.begin(line)
			res := talk(addr, "@RSYNCD: 27", second, []string{"--server", "--sender", "-rl", ".", second + "/"}, "pull", refOpts{links: true}, false, "", nil)
			talkRequests = nil
			v := leak(res.raw)
			for _, other := range []string{"ro", "rw", "m", "mx"} {
				if other == second || v != "" {
					continue
				}
				for _, stem := range []string{"inside-a-", "inside-inner-", "inside-x-"} {
					if bytes.Contains(res.raw, []byte(stem+tagOf(other))) {
						v = fmt.Sprintf("FAIL[C06] the daemon's answer to a request for module %s contains the content of module %s's file (%q)", second, other, stem+tagOf(other))
					}
				}
			}
			h.emit(line, res.class, v, true)
			h.stat("daemon.xreq")
			// a whole-file transfer of everything in one module, then a delta request for the file of another module
			// that delivers less than it claims: nothing of the first module in the answer
			talkRequests = nil
			talk(addr, "@RSYNCD: 27", first, []string{"--server", "--sender", "-rl", ".", first + "/"}, "pull", refOpts{links: true}, false, "", nil)
			talkRequests = deltaReq(func(e refEntry) bool { return e.mode&sIFMT == sIFREG })
			line = fmt.Sprintf("!daemon-xreq seed=%d round=%d after=%s module=fsshort", h.seed, round, first)
			h.begin(line)
			res = talk(addr, "@RSYNCD: 27", "fsshort", []string{"--server", "--sender", "-rl", ".", "fsshort/"}, "pull", refOpts{links: true}, false, "", nil)
			talkRequests = nil
			v = leak(res.raw)
			for _, other := range []string{"ro", "rw", "m", "mx"} {
				for _, stem := range []string{"inside-a-", "inside-inner-", "inside-x-", "inside-big-"} {
					if v == "" && bytes.Contains(res.raw, []byte(stem+tagOf(other))) {
						v = fmt.Sprintf("FAIL[C06] the daemon's answer to a request for module fsshort contains the content of module %s's file (%q)", other, stem+tagOf(other))
					}
				}
			}
			h.emit(line, res.class, v, true)
			h.stat("daemon.xreq")
		}
	}
	// module names that are prefixes of one another, and the prefix trimming
	for _, pr := range [][2]string{{"m", "mx/sub/"}, {"mx", "m/sub/"}, {"m", "m"}, {"m", "mm/"}, {"m", "m/m/"}, {"ro", "rox"}, {"ro", "ro../outside/"}, {"ro", "ro/../outside/"}, {"ro", "roro/"}} {
		args := []string{"--server", "--sender", "-logDtpr", ".", pr[1]}
		res := talk(addr, "@RSYNCD: 27", pr[0], args, "pull", optsets[0].o, false, "", nil)
		h.emit(op("@RSYNCD: 27", pr[0], args), res.class, leak(res.raw), res.class == "sender")
	}
	// ---------------- greeting / module line / argument-line decisions
	for _, g := range []string{"@RSYNCD: 27", "@RSYNCD: 31.0", "@RSYNCD:27", "RSYNCD: 27", "", "@rsyncd: 27"} {
		for _, ml := range []string{"ro", "", "#list", " ro ", "nosuch", "deny", "RO", "ro/", "fsmod"} {
			args := []string{"--server", "--sender", "-r", ".", "ro/"}
			res := talk(addr, g, ml, args, "pull", refOpts{}, false, "", nil)
			h.emit(op(g, ml, args), res.class, leak(res.raw), true)
			h.stat("daemon.decide." + strings.SplitN(res.class, " ", 2)[0])
		}
	}
	for _, args := range [][]string{
		{"--server", "--sender", "-r", "."}, {"--server", "--sender", "-r"}, {"--server", "--sender", "-r", "x", "ro/"}, {"--server", "--sender", "--bogus", ".", "ro/"},
		{"--server", "--sender", "--help", ".", "ro/"}, {"--server", "--sender", "--version", ".", "ro/"}, {"--server", "--sender", "--info=help", ".", "ro/"},
		{"--sender", "--server", "-r", ".", "ro/"}, {"--server", "--sender", "-e.iLsfxC", "-r", ".", "ro/"}, {"--server", "--daemon", "."}, {"--server", "--sender", "-r", ".", "ro/", "ro/sub/"},
		{"--server", "--sender", " -r ", ".", "ro/"}, {"--server", "--sender", "-H", "-r", ".", "ro/"}, {"--server", "--sender", "--exclude=a.txt", "-r", ".", "ro/"},
	} {
		res := talk(addr, "@RSYNCD: 27", "ro", args, "pull", refOpts{}, false, "", nil)
		h.emit(op("@RSYNCD: 27", "ro", args), res.class, leak(res.raw), true)
		h.stat("daemon.args." + res.class)
	}
	// ---------------- options that make the transfer code print for the user of a command-line client, with and
	// without --server on the argument lines: a daemon has no standard output; whatever the peer asks to have
	// printed, the session runs or ends with an error and the daemon lives on (a crash of the process is attributed
	// to the case that was running)
	for _, extra := range [][]string{{"-n"}, {"-v"}, {"-nv"}, {"--progress"}, {"-P"}, {"--info=name,progress"}, {"--info=progress2"}, {"--stats"},
		{"-i"}, {"--list-only"}, {"-vvv", "-n"}, {"--debug=all"}, {"-n", "--progress"}, {"-c", "-v"}} {
		for _, withServer := range []bool{true, false} {
			var pre []string
			if withServer {
				pre = []string{"--server"}
			}
			pull := append(append(append([]string{}, pre...), "--sender"), extra...)
			pull = append(pull, "-r", ".", "ro/")
			line := fmt.Sprintf("!daemon-useropts seed=%d pull %q", h.seed, pull)
			h.begin(line)
			res := talk(addr, "@RSYNCD: 27", "ro", pull, "pull", refOpts{}, false, "", nil)
			h.emit(line, strings.SplitN(res.class, " ", 2)[0], leak(res.raw), true)
			push := append(append([]string{}, pre...), extra...)
			push = append(push, "-r", ".", "rw/")
			uplNo++
			line = fmt.Sprintf("!daemon-useropts seed=%d push %q", h.seed, push)
			h.begin(line)
			res = talk(addr, "@RSYNCD: 27", "rw", push, "push", refOpts{}, false, fmt.Sprintf("upl-%d.bin", uplNo), []byte("user-opts"))
			v := ""
			if r2 := talk(addr, "@RSYNCD: 27", "#list", nil, "pull", refOpts{}, false, "", nil); !strings.HasPrefix(r2.class, "list") {
				v = "FAIL[C08] the daemon does not answer a module listing after this session: " + r2.class
			}
			h.emit(line, strings.SplitN(res.class, " ", 2)[0], v, true)
			h.stat("daemon.useropts")
		}
	}
	// ---------------- uploads: read-only modules of every kind, writable module with subdirectory targets
	snap := func(dir string) string { return canarySnapshot(dir, filepath.Join(dir, "\x00none")) }
	pushCase := func(module, target string, flags []string, hostileName string) {
		uplNo++
		name := fmt.Sprintf("upl-%d.bin", uplNo)
		if hostileName != "" {
			name = hostileName
		}
		data := []byte(fmt.Sprintf("uploaded-%d", uplNo))
		args := append([]string{"--server"}, flags...)
		args = append(args, ".", module+"/"+target)
		withDelete := false
		for _, f := range flags {
			if f == "--delete" {
				withDelete = true
			}
		}
		var modDir string
		for _, c := range config {
			if c.Name == module {
				modDir = c.Path
			}
		}
		if module == "rw" {
			// a fresh fixture for every upload (an earlier --delete upload removes the symlinks)
			ents, _ := os.ReadDir(modDir)
			for _, e := range ents {
				os.RemoveAll(filepath.Join(modDir, e.Name()))
			}
			populate(modDir)
		}
		beforeMod := ""
		if modDir != "" {
			beforeMod = snap(modDir)
		}
		beforeOut := canarySnapshot(base, mods)
		// the directory that holds the module directories, minus the module that is written to: the module's parent
		// and its siblings are outside the module too
		beforeSib := canarySnapshot(mods, modDir)
		res := talk(addr, "@RSYNCD: 27", module, args, "push", refOpts{uid: true, gid: true, links: true, devices: true, specials: true}, withDelete, name, data)
		time.Sleep(3 * time.Millisecond)
		v := ""
		writable := module == "rw" || module == "sh-rw"
		if !writable {
			if modDir != "" && snap(modDir) != beforeMod {
				v = "FAIL[C07] a module that is not writable was modified by an upload request: " + firstDiff(beforeMod, snap(modDir))
			} else if res.class == "receiver" {
				v = "FAIL[C07] an upload into a module that is not writable was not refused"
			}
		}
		dry := false
		for _, f := range flags {
			if strings.HasPrefix(f, "-") && !strings.HasPrefix(f, "--") && strings.Contains(f, "n") {
				dry = true
			}
		}
		if dry && writable && modDir != "" && v == "" {
			if after := snap(modDir); after != beforeMod {
				v = "FAIL[C10] a dry-run upload changed the module: " + firstDiff(beforeMod, after)
			}
		}
		if afterSib := canarySnapshot(mods, modDir); afterSib != beforeSib && v == "" && modDir != "" {
			v = "FAIL[C05] an upload changed something beside the module directory (its parent or a sibling module): " + firstDiff(beforeSib, afterSib)
			if strings.Contains(firstDiff(beforeSib, afterSib), "rw-mirror") {
				v += " || FAIL[C07] the directory of a module that is not writable was modified through an upload to another module"
			}
		}
		if afterOut := canarySnapshot(base, mods); afterOut != beforeOut && v == "" {
			v = "FAIL[C05] an upload changed something outside the module directories: " + firstDiff(beforeOut, afterOut)
		}
		// where did the file land? (the subdirectory the model predicts)
		cls := res.class
		modelled := true
		if writable && res.class == "receiver" && hostileName == "" {
			landed := "?"
			filepath.Walk(modDir, func(p string, info os.FileInfo, err error) error {
				if err == nil && filepath.Base(p) == name {
					rel, _ := filepath.Rel(modDir, filepath.Dir(p))
					landed = rel
				}
				return nil
			})
			if landed == "." {
				cls = "receiver /"
				if t := strings.TrimPrefix(target, "/"); t != "" && filepath.Clean(t) != "." {
					cls = "receiver " + hx([]byte(filepath.Clean(t)))
				}
				if filepath.Clean("/"+target) != "/" {
					cls = "receiver " + hx([]byte(landed))
				}
			} else {
				cls = "receiver " + hx([]byte(landed))
			}
		}
		if res.class == "receiver-refused" || strings.Contains(target, "l") && writable {
			modelled = false // refusals of the root (symlinks, ..) depend on the file system, not on the handler's decisions
		}
		if dry {
			modelled = false // the scripted client sends file data also in a dry run: how the session ends says nothing
		}
		line := op("@RSYNCD: 27", module, args)
		if !modelled || hostileName != "" {
			line = "!" + line
		}
		h.emit(line, cls, v, true)
		h.stat("daemon.push." + strings.SplitN(res.class, " ", 2)[0])
	}
	flagSets := [][]string{{"-logDtpr"}, {"-logDtpr", "--delete"}, {"-nlogDtpr"}, {"-r"}, {"-rc", "--delete"}}
	for _, module := range []string{"ro", "m", "mx", "fsmod", "deny"} {
		for _, target := range []string{"", "sub/", "newdir/", "new/deep/er/", "../outside/new/", "lout/new/", "/"} {
			for i, fl := range flagSets {
				if !h.thorough() && module != "ro" && i > 1 {
					continue
				}
				pushCase(module, target, fl, "")
			}
		}
	}
	for _, target := range []string{"", "/", "sub/", "newdir/", "new/deep/er/", "sub/deep/", "./sub/", "sub//deep/", "sub/../newer/"} {
		for _, fl := range flagSets[:2] {
			pushCase("rw", target, fl, "")
		}
	}
	// one directory exported as a writable and as a read-only module: whatever happened through the writable name,
	// the read-only name refuses uploads and leaves the directory alone
	for round := 0; round < 2; round++ {
		pushCase("sh-rw", "", []string{"-logDtpr"}, "")
		pushCase("sh-rw", "newsub/", []string{"-logDtpr", "--delete"}, "")
		for _, target := range []string{"", "newsub/", "other/new/"} {
			pushCase("sh-ro", target, []string{"-logDtpr"}, "")
			pushCase("sh-ro", target, []string{"-logDtpr", "--delete"}, "")
		}
	}
	// dry-run uploads to the writable module, into existing and into new subdirectories: nothing changes (C10)
	for _, target := range []string{"", "sub/", "dry-new/", "dry/deep/er/"} {
		pushCase("rw", target, []string{"-nlogDtpr"}, "")
		pushCase("rw", target, []string{"-nr", "--delete"}, "")
	}
	// subdirectory arguments of a writable upload that try to leave the module (C05)
	for _, target := range []string{"lsib/", "lsib", "lsib/newsib/", "lsibt/", "labsin/", "labsin2/", "labsok/", "lsl/", "lsl", "lsl2/", "sub/lsl3/", "lsl4/", "lsl/newq/", "lpar/", "lpar", "lpar/newp/", "lout/", "labs/", "lout", "sub/lup/", "sub/deep/lcd/", "lout//", "lin/", "../outside/new/", "sub/../../outside/new2/", "lout/new3/", "labs/new4/", "sub/lup/outside/new5/", "../", "..", "/../outside/new6/", "lfile/", "sub/deep/lcd/new7/", "lin/../../../outside/new8/"} {
		for _, fl := range flagSets[:2] {
			pushCase("rw", target, fl, "")
		}
	}
	// hostile names inside an upload to the writable module
	for _, hn := range []string{"../escaped.bin", "lout/escaped.bin", "labs/escaped2.bin", "sub/lup/outside/escaped3.bin", "/" + strings.TrimPrefix(out, "/") + "/escaped4.bin", "lfile"} {
		pushCase("rw", "", []string{"-logDtpr"}, hn)
	}
	// the daemon is still alive and serving
	res := talk(addr, "@RSYNCD: 27", "#list", nil, "pull", refOpts{}, false, "", nil)
	v := ""
	if !strings.HasPrefix(res.class, "list ") {
		v = "FAIL[C08] the daemon no longer answers a module listing after the sessions of this suite: " + res.class
	}
	h.emit("!daemon-alive", res.class, v, true)
}
