//go:build verif

package main

// ssh: the SSH front end (internal/anonssh) with real handshakes by the x/crypto/ssh client against
// the real anonssh.Serve, in-process.
//
//	sshexec anon|auth <cmdline>   : does the exec request reach the session's main function? (the harness
//	                                installs a recording main; what Main would then do is the dispatchclass op)
//	dispatchclass <cmdline>       : the role the real maincmd.Main takes for a command line, observed from
//	                                outside (daemon greeting / binary server handshake / directory created / remote shell run)
//	sshauth anon|auth <key> <authorized_keys lines> : is the handshake admitted?
//	sshreq <type>, sshchan <type> : other request and channel types
//
// Oracle (C20, independent of the model): whatever command line an anonymous session gets through to
// main, the real Main must stay inside the daemon protocol for it.

import (
	"bytes"
	"context"
	"crypto/ecdsa"
	"crypto/ed25519"
	"crypto/elliptic"
	"crypto/rand"
	"crypto/rsa"
	"encoding/binary"
	"fmt"
	"io"
	"net"
	"os"
	"path/filepath"
	"strings"
	"sync"
	"time"

	"github.com/gokrazy/rsync/internal/anonssh"
	"github.com/gokrazy/rsync/internal/maincmd"
	"github.com/gokrazy/rsync/internal/rsyncdconfig"
	"github.com/gokrazy/rsync/internal/rsyncos"
	"github.com/gokrazy/rsync/rsyncd"
	"golang.org/x/crypto/ssh"
)

func init() { suites["ssh"] = suiteSSH }

type sshServer struct {
	addr   string
	cancel context.CancelFunc
	mu      sync.Mutex
	got     chan []string
	release chan struct{}
}

func startSSH(dir string, anonymous bool, authorizedKeys string, cfg *rsyncdconfig.Config) (*sshServer, error) {
	lc := rsyncdconfig.Listener{HostKeyPath: filepath.Join(dir, "hostkey")}
	if anonymous {
		lc.AnonSSH = "localhost:0"
	} else {
		lc.AuthorizedSSH = rsyncdconfig.SSHListener{Address: "localhost:0", AuthorizedKeys: authorizedKeys}
	}
	env := &rsyncos.Env{Stdin: strings.NewReader(""), Stdout: io.Discard, Stderr: io.Discard, DontRestrict: true}
	var l *anonssh.Listener
	var err error
	func() {
		defer func() {
			if r := recover(); r != nil {
				err = fmt.Errorf("panic: %v", r)
			}
		}()
		l, err = anonssh.ListenerFromConfig(env, lc)
	}()
	if err != nil {
		return nil, err
	}
	ln, err := net.Listen("tcp", "127.0.0.1:0")
	if err != nil {
		return nil, err
	}
	ctx, cancel := context.WithCancel(context.Background())
	s := &sshServer{addr: ln.Addr().String(), cancel: cancel, got: make(chan []string, 16), release: make(chan struct{}, 16)}
	go anonssh.Serve(ctx, env, ln, l, cfg, func(args []string, stdin io.Reader, stdout io.Writer, stderr io.Writer) error {
		s.got <- append([]string{}, args...)
		// the handler answers the exec request only after it has started this function; returning at once
		// would close the channel before the answer is out. Stay until the client has seen the answer.
		select {
		case <-s.release:
		case <-time.After(3 * time.Second):
		}
		return nil
	})
	return s, nil
}

func sshDial(addr string, signer ssh.Signer) (*ssh.Client, error) {
	return ssh.Dial("tcp", addr, &ssh.ClientConfig{User: "u", Auth: []ssh.AuthMethod{ssh.PublicKeys(signer)},
		HostKeyCallback: ssh.InsecureIgnoreHostKey(), Timeout: 5 * time.Second})
}

// shell quoting that shlex.Split undoes
func shQuote(args []string) string {
	q := make([]string, len(args))
	for i, a := range args {
		if a != "" && !strings.ContainsAny(a, " \t\n'\"\\#$&|;<>()*?[]{}~`!=") {
			q[i] = a
		} else {
			q[i] = "'" + strings.ReplaceAll(a, "'", `'"'"'`) + "'"
		}
	}
	return strings.Join(q, " ")
}

// classifyMain runs the real maincmd.Main on a command line inside a scratch directory and reports
// the role it took, observed from outside.
func classifyMain(scratch string, cfg *rsyncdconfig.Config, args []string) string {
	// a command-mode receiver creates its destination directory: note which argument paths do not exist yet
	var absent []string
	for _, a := range args[1:] {
		if a != "" && a != "." && !strings.HasPrefix(a, "-") {
			if _, err := os.Lstat(a); os.IsNotExist(err) {
				absent = append(absent, a)
			}
		}
	}
	var stdin bytes.Buffer
	binary.Write(&stdin, binary.LittleEndian, int32(27)) // a protocol version for a command-mode server
	stdin.WriteString("\n")                              // and (read as text) an invalid daemon greeting
	var out bytes.Buffer
	done := make(chan string, 1)
	go func() {
		defer func() {
			if r := recover(); r != nil {
				done <- fmt.Sprintf("panic:%v", r)
			}
		}()
		env := &rsyncos.Env{Stdin: &stdin, Stdout: &out, Stderr: io.Discard, DontRestrict: true}
		_, err := maincmd.Main(context.Background(), env, args, cfg)
		if err != nil {
			done <- "err"
		} else {
			done <- "ok"
		}
	}()
	var res string
	select {
	case res = <-done:
	case <-time.After(10 * time.Second):
		res = "timeout"
	}
	if strings.HasPrefix(res, "panic") {
		return res
	}
	marker := false
	if _, err := os.Stat(filepath.Join(scratch, "rsh-ran")); err == nil {
		marker = true
		os.Remove(filepath.Join(scratch, "rsh-ran"))
	}
	created := false
	for _, a := range absent {
		if fi, err := os.Lstat(a); err == nil && fi.IsDir() {
			created = true
			// remove what was created (only the first new component of a relative path lives in the working directory)
			top := a
			if !filepath.IsAbs(a) {
				top = strings.SplitN(filepath.Clean(a), string(os.PathSeparator), 2)[0]
				if top == ".." || top == "." {
					continue
				}
			}
			os.RemoveAll(top)
		}
	}
	o := out.Bytes()
	switch {
	case bytes.HasPrefix(o, []byte("@RSYNCD:")):
		return "daemon"
	case marker:
		return "client-rsh"
	case len(o) >= 8 && created:
		return "server-receiver"
	case len(o) >= 8:
		return "server-sender"
	case res == "timeout":
		return "timeout"
	default:
		return "other"
	}
}

// daemonModules runs the real Main (daemon mode over stdin/stdout) with the given command line and asks
// it for its module list: the names it is prepared to serve.
func daemonModules(cfg *rsyncdconfig.Config, args []string) []string {
	var stdin bytes.Buffer
	stdin.WriteString("@RSYNCD: 27\n#list\n")
	var out bytes.Buffer
	done := make(chan struct{}, 1)
	go func() {
		defer func() { recover(); done <- struct{}{} }()
		env := &rsyncos.Env{Stdin: &stdin, Stdout: &out, Stderr: io.Discard, DontRestrict: true}
		maincmd.Main(context.Background(), env, args, cfg)
	}()
	select {
	case <-done:
	case <-time.After(10 * time.Second):
	}
	var names []string
	for _, l := range strings.Split(out.String(), "\n") {
		if l == "" || strings.HasPrefix(l, "@RSYNCD:") || strings.HasPrefix(l, "@ERROR") {
			continue
		}
		names = append(names, strings.TrimSpace(strings.SplitN(l, "\t", 2)[0]))
	}
	return names
}

func suiteSSH(h *H) {
	os.Stderr = devNull
	dir, err := os.MkdirTemp("", "verif-ssh")
	if err != nil {
		panic(err)
	}
	defer os.RemoveAll(dir)
	modDir := filepath.Join(dir, "mod")
	os.MkdirAll(modDir, 0o755)
	os.WriteFile(filepath.Join(modDir, "f"), []byte("data"), 0o644)
	scratch := filepath.Join(dir, "scratch")
	os.MkdirAll(scratch, 0o755)
	// a second configuration file a command line may point at: its module must never be served by a listener
	os.WriteFile(filepath.Join(scratch, "other.toml"), []byte(fmt.Sprintf("[[listener]]\nrsyncd = \"localhost:0\"\n[[module]]\nname = \"leak3\"\npath = %q\n", scratch)), 0o644)
	// client-mode command lines with relative paths copy into the working directory
	if wd, err := os.Getwd(); err == nil {
		defer os.Chdir(wd)
	}
	os.Chdir(scratch)
	rsh := filepath.Join(scratch, "rsh.sh")
	os.WriteFile(rsh, []byte("#!/bin/sh\ntouch "+filepath.Join(scratch, "rsh-ran")+"\nexit 1\n"), 0o755)
	cfg := &rsyncdconfig.Config{Modules: []rsyncd.Module{{Name: "m", Path: modDir}}}

	// ---- keys
	_, edPriv, _ := ed25519.GenerateKey(rand.Reader)
	_, edPriv2, _ := ed25519.GenerateKey(rand.Reader)
	ecPriv, _ := ecdsa.GenerateKey(elliptic.P256(), rand.Reader)
	rsaPriv, _ := rsa.GenerateKey(rand.Reader, 2048)
	type key struct {
		name   string
		signer ssh.Signer
	}
	var keys []key
	for _, k := range []struct {
		n string
		p any
	}{{"ed25519-a", edPriv}, {"ed25519-b", edPriv2}, {"ecdsa", ecPriv}, {"rsa", rsaPriv}} {
		s, err := ssh.NewSignerFromKey(k.p)
		if err != nil {
			panic(err)
		}
		keys = append(keys, key{k.n, s})
	}
	line := func(k key, prefix, comment string) string {
		return prefix + strings.TrimSpace(string(ssh.MarshalAuthorizedKey(k.signer.PublicKey()))) + comment
	}

	// ================= sshauth: who is admitted
	type fileCase struct {
		name  string
		lines []string
	}
	files := []fileCase{
		{"empty", nil},
		{"comments-only", []string{"# nothing here", "", "   ", "\t# indented comment"}},
		{"one", []string{line(keys[0], "", " user@host")}},
		{"two-with-noise", []string{"# first", line(keys[0], "", ""), "", "   # second", line(keys[2], "", " ec"), ""}},
		{"options-prefix", []string{line(keys[3], `no-pty,command="x" `, " rsa"), line(keys[1], "  ", "  ")}},
		{"all", []string{line(keys[0], "", ""), line(keys[1], "", ""), line(keys[2], "", ""), line(keys[3], "", "")}},
		{"crlf", []string{line(keys[0], "", "\r"), "#c\r", "\r"}},
	}
	authCase := func(anonymous bool, fc fileCase, k key) {
		path := filepath.Join(dir, "authorized_keys")
		os.WriteFile(path, []byte(strings.Join(fc.lines, "\n")+"\n"), 0o600)
		who := "auth"
		if anonymous {
			who = "anon"
		}
		// model input: each raw line with what the real ssh.ParseAuthorizedKey makes of it
		var ls []string
		listed := false
		for _, l := range fc.lines {
			raw := strings.TrimSuffix(l, "\r") // bufio.Scanner's ScanLines drops one trailing \r
			blob := "bad"
			if pk, _, _, _, err := ssh.ParseAuthorizedKey([]byte(raw)); err == nil {
				blob = hx(pk.Marshal())
				if bytes.Equal(pk.Marshal(), k.signer.PublicKey().Marshal()) {
					listed = true
				}
			}
			ls = append(ls, hx([]byte(raw))+":"+blob)
		}
		srv, err := startSSH(dir, anonymous, path, cfg)
		out := ""
		if err != nil {
			out = "loaderr"
		} else {
			c, derr := sshDial(srv.addr, k.signer)
			if derr != nil {
				out = "denied"
			} else {
				out = "admitted"
				c.Close()
			}
			srv.cancel()
		}
		v := ""
		if !anonymous && out == "admitted" && !listed {
			v = fmt.Sprintf("FAIL[C20] authorised listener admitted a key that authorized_keys (%s) does not list", fc.name)
		}
		if !anonymous && out != "admitted" && listed {
			v = fmt.Sprintf("FAIL[C20] authorised listener refused a listed key (%s, %s): %s", fc.name, k.name, out)
		}
		op := fmt.Sprintf("sshauth %s %s %s #file=%s key=%s", who, hx(k.signer.PublicKey().Marshal()), strings.Join(ls, " "), fc.name, k.name)
		if len(ls) == 0 {
			op = fmt.Sprintf("sshauth %s %s #file=%s key=%s", who, hx(k.signer.PublicKey().Marshal()), fc.name, k.name)
		}
		h.emit(op, out, v, len(fc.lines) > 0)
		h.stat("sshauth." + out)
	}
	if len(h.extra) == 0 {
		for _, fc := range files {
			for _, k := range keys {
				authCase(false, fc, k)
			}
		}
		authCase(true, files[0], keys[0])
		authCase(true, files[2], keys[1])
		// the file changes while the listener runs (an administrator edits it, an editor leaves it half-written, it is
		// removed): whoever is admitted afterwards is listed in a version of the file the listener has read — never
		// "everybody"
		for _, edit := range []struct {
			tag     string
			content string
			remove  bool
		}{
			{"garbage", "this is not a key\n", false},
			{"wrapped-key", strings.Replace(line(keys[0], "", ""), " ", "\n", 2) + "\n", false},
			{"long-line", "ssh-ed25519 " + strings.Repeat("A", 2<<20) + "\n", false},
			{"emptied", "", false},
			{"removed", "", true},
			{"other-key", line(keys[2], "", "") + "\n", false},
		} {
			path := filepath.Join(dir, "authorized_keys")
			os.WriteFile(path, []byte(line(keys[0], "", "")+"\n"), 0o600)
			srv, err := startSSH(dir, false, path, cfg)
			if err != nil {
				continue
			}
			if c, derr := sshDial(srv.addr, keys[0].signer); derr == nil {
				c.Close()
			}
			past := time.Now().Add(-3 * time.Second)
			if edit.remove {
				os.Remove(path)
			} else {
				os.WriteFile(path, []byte(edit.content), 0o600)
				os.Chtimes(path, past, past)
			}
			out := "denied"
			if c, derr := sshDial(srv.addr, keys[1].signer); derr == nil { // a key no version of the file has listed
				out = "admitted"
				c.Close()
			}
			srv.cancel()
			v := ""
			if out == "admitted" {
				v = fmt.Sprintf("FAIL[C20] after authorized_keys was edited while the listener ran (%s), a key that no version of the file lists is admitted", edit.tag)
			}
			h.emit(fmt.Sprintf("!sshauth-edited seed=%d edit=%s", h.seed, edit.tag), out, v, true)
			h.stat("sshauth.edited")
		}
	}

	// ================= sshexec / sshreq / sshchan on one anonymous and one authorised listener
	akPath := filepath.Join(dir, "ak2")
	os.WriteFile(akPath, []byte(line(keys[0], "", "")+"\n"), 0o600)
	anon, err := startSSH(dir, true, "", cfg)
	if err != nil {
		panic(err)
	}
	defer anon.cancel()
	auth, err := startSSH(dir, false, akPath, cfg)
	if err != nil {
		panic(err)
	}
	defer auth.cancel()
	clients := map[bool]*ssh.Client{}
	for _, a := range []bool{true, false} {
		srv := auth
		if a {
			srv = anon
		}
		c, err := sshDial(srv.addr, keys[0].signer)
		if err != nil {
			panic(err)
		}
		defer c.Close()
		clients[a] = c
	}
	execCase := func(anonymous bool, cmdline []string) {
		srv := auth
		who := "auth"
		if anonymous {
			srv, who = anon, "anon"
		}
		ch, reqs, err := clients[anonymous].OpenChannel("session", nil)
		if err != nil {
			h.emit(fmt.Sprintf("!sshexec-open %s %q", who, cmdline), "err:"+err.Error(), "FAIL[C20] cannot open a session channel", false)
			return
		}
		go ssh.DiscardRequests(reqs)
		// nothing recorded by an earlier case may be attributed to this one
		for drained := false; !drained; {
			select {
			case <-srv.got:
			default:
				drained = true
			}
		}
		for drained := false; !drained; {
			select {
			case <-srv.release:
			default:
				drained = true
			}
		}
		ok, err := ch.SendRequest("exec", true, ssh.Marshal(struct{ Command string }{shQuote(cmdline)}))
		srv.release <- struct{}{}
		out := "refused"
		var got []string
		if err == nil && ok {
			select {
			case got = <-srv.got:
				out = "runs"
			case <-time.After(20 * time.Second):
				out = "accepted-but-main-not-called"
			}
		}
		ch.Close()
		v := ""
		cls := ""
		if out == "runs" {
			if strings.Join(got, "\x00") != strings.Join(cmdline, "\x00") {
				v = fmt.Sprintf("FAIL[C20] main received %q for the command line %q", got, cmdline)
			}
			// what the real Main does with it
			cls = classifyMain(scratch, cfg, got)
			out = "runs " + cls
			if cls == "client-rsh" {
				// whether a client-mode run gets as far as spawning its remote shell depends on the paths; the
				// comparison with the model is on the role, the oracle below still sees the spawned shell
				out = "runs other"
			}
			if _, err := os.Stat(filepath.Join(scratch, "copied")); err == nil {
				os.RemoveAll(filepath.Join(scratch, "copied"))
				if anonymous {
					v = fmt.Sprintf("FAIL[C20] anonymous SSH session runs %q: a client-mode transfer copied a file", got)
				}
			}
			if anonymous && cls == "daemon" {
				// "against the configured modules": whatever else the command line says, the daemon it starts
				// serves the listener's modules and nothing more
				configured := map[string]bool{}
				for _, m := range cfg.Modules {
					configured[m.Name] = true
				}
				for _, name := range daemonModules(cfg, got) {
					if !configured[name] {
						v = fmt.Sprintf("FAIL[C20] anonymous SSH session runs %q: the daemon it starts offers module %q, which the listener's configuration does not have", got, name)
					}
				}
			}
			if anonymous && cls != "daemon" && cls != "other" {
				v = fmt.Sprintf("FAIL[C20] anonymous SSH session runs %q: maincmd.Main takes the role %s", got, cls)
			}
			if strings.HasPrefix(cls, "panic") || cls == "timeout" {
				v = fmt.Sprintf("FAIL[C08] maincmd.Main %s for the argv %q of an SSH session", cls, got)
			}
		}
		h.emit(fmt.Sprintf("sshexec %s %s #%q", who, hexArgs(cmdline), cmdline), out, v, true)
		h.stat("sshexec." + who + "." + strings.SplitN(out, " ", 2)[0])
		if cls != "" {
			h.stat("sshexec.class." + cls)
		}
	}
	recv := filepath.Join(scratch, "recvdir")
	vocab := []string{"--server", "--daemon", "--sender", "-e", "--rsh", "--rsh=" + rsh, "-e" + rsh, rsh, ".", modDir, recv, "-r", "-logDtpr", "--config=/nonexistent", "--config", "--filter", "--exclude",
		"--port", "--contimeout", "--delete", "-n", "--no-detach", "--detach", "--help", "--version", "-v", "-h", "--address=x", "--gokr.config=/x", "--dparam=x", "", "--", "-", "--info=help", "m/", "localhost:" + modDir, "-T", "--temp-dir=" + recv, "--protocol=27", "--bwlimit=1",
		"--gokr.modulemap=leak=" + scratch, "--gokr.modulemap=m=" + scratch, "--gokr.config=" + filepath.Join(scratch, "other.toml")}
	fixed := [][]string{
		{"rsync", "--server", "--daemon", "."},
		{"rsync", "--server", "--daemon"},
		{"/usr/bin/rsync", "--server", "--daemon", ".", "extra"},
		{"rsync", "--server", "--daemon", "--sender", "."},
		{"rsync", "--server", "--daemon", "-e", rsh, "."},
		{"rsync", "--server", "--daemon", "--config=/nonexistent", "."},
		{"rsync", "--server", "--daemon", "--no-detach", "-v", "."},
		{"rsync", "--server", "--daemon", "--help"},
		{"rsync", "--server", "--daemon", recv},
		{"rsync", "--server", "--daemon", "--gokr.modulemap=leak=" + scratch, "."},
		{"rsync", "--server", "--daemon", "--gokr.modulemap=leak=/", "--gokr.modulemap=leak2=" + scratch, "."},
		{"rsync", "--server", "--daemon", "--gokr.config=" + filepath.Join(scratch, "other.toml"), "."},
		{"rsync", "--server", "--sender", "-logDtpr", ".", modDir + "/"},
		{"rsync", "--server", "-logDtpr", ".", recv},
		{"rsync", "--server", "-e", "--daemon", ".", recv},
		{"rsync", "--server", "--sender", "--filter", "--daemon", ".", modDir + "/"},
		{"rsync", "--server", "--rsh", "--daemon", ".", recv},
		{"rsync", "--daemon", "--server", "."},
		{"rsync", "--server", "--server", "--daemon", "."},
		{"rsync", "-e", rsh, "localhost:" + modDir, recv},
		{"rsync", "--rsh=" + rsh, "-r", "h:x", recv},
		{"rsync", "--server"},
		{"rsync"},
		{"rsync", filepath.Join(modDir, "f"), filepath.Join(scratch, "copied")},
		{"rsync", "-r", modDir + "/", filepath.Join(scratch, "copied")},
		{"--server", "--daemon", "."},
		{"rsync", "--server", "--daemon=1", "."},
		{"rsync", "--server=1", "--daemon", "."},
		{"rsync", " --server", "--daemon", "."},
		{"sh", "-c", "id"},
		{},
		{""},
	}
	if len(h.extra) > 0 {
		for _, op := range h.extra {
			f := strings.Fields(strings.SplitN(op, " #", 2)[0])
			if len(f) == 3 && f[0] == "sshexec" {
				execCase(f[1] == "anon", unhexArgs(f[2]))
			}
		}
		return
	}
	for _, c := range fixed {
		execCase(true, c)
		execCase(false, c)
	}
	for i := 0; i < h.n(150, 3000); i++ {
		n := 1 + h.rng.Intn(6)
		c := []string{"rsync"}
		if h.rng.Intn(3) > 0 {
			c = append(c, "--server")
			if h.rng.Intn(2) == 0 {
				c = append(c, "--daemon")
			}
		}
		for j := 0; j < n; j++ {
			c = append(c, vocab[h.rng.Intn(len(vocab))])
		}
		anonymous := h.rng.Intn(4) > 0
		// an authorised session may do anything a shell user could; keep its command lines harmless:
		// nothing but the scratch paths above is ever named
		execCase(anonymous, c)
	}
	// ================= dispatchclass: the real Main on command lines that start the daemon protocol or fail
	for _, c := range fixed {
		if len(c) >= 1 {
			cls := classifyMain(scratch, cfg, c)
			if cls == "client-rsh" {
				cls = "other"
			}
			v := ""
			if strings.HasPrefix(cls, "panic") {
				v = "FAIL[C08] maincmd.Main panicked: " + cls
			}
			h.emit(fmt.Sprintf("dispatchclass %s #%q", hexArgs(c), c), cls, v, true)
			h.stat("dispatchclass." + cls)
		}
	}
	// ================= other request and channel types
	for _, typ := range []string{"env", "shell", "subsystem", "pty-req", "x11-req", "window-change", "signal", "auth-agent-req@openssh.com", "exec2", ""} {
		ch, reqs, err := clients[true].OpenChannel("session", nil)
		if err != nil {
			continue
		}
		go ssh.DiscardRequests(reqs)
		var payload []byte
		switch typ {
		case "env":
			payload = ssh.Marshal(struct{ N, V string }{"LC_ALL", "C"})
		case "subsystem":
			payload = ssh.Marshal(struct{ N string }{"sftp"})
		}
		// the handler never answers `env` (it logs and returns): a client that asked for a reply would wait forever
		ok, err := ch.SendRequest(typ, typ != "env", payload)
		out := "refused"
		if err == nil && ok {
			out = "accepted"
		}
		// `env` is answered only if the client asks for a reply and the handler replies; the handler logs and returns nil without replying
		ran := false
		select {
		case <-anon.got:
			ran = true
		case <-time.After(150 * time.Millisecond):
		}
		ch.Close()
		v := ""
		if ran {
			v = fmt.Sprintf("FAIL[C20] request type %q made the session run a command", typ)
		}
		if typ == "env" {
			out = "ignored"
			if ran {
				out = "runs"
			}
		} else if out == "accepted" {
			v = fmt.Sprintf("FAIL[C20] request type %q was accepted", typ)
		}
		h.emit(fmt.Sprintf("sshreq %s #%s", hx([]byte(typ)), typ), out, v, true)
	}
	for _, typ := range []string{"session", "direct-tcpip", "forwarded-tcpip", "x11", "tun@openssh.com", ""} {
		var payload []byte
		if typ == "direct-tcpip" {
			payload = ssh.Marshal(struct {
				H  string
				P  uint32
				OH string
				OP uint32
			}{"127.0.0.1", 22, "127.0.0.1", 1})
		}
		ch, reqs, err := clients[true].OpenChannel(typ, payload)
		out := "rejected"
		if err == nil {
			out = "accepted"
			go ssh.DiscardRequests(reqs)
			ch.Close()
		}
		v := ""
		if out == "accepted" && typ != "session" {
			v = fmt.Sprintf("FAIL[C20] channel type %q was accepted", typ)
		}
		h.emit(fmt.Sprintf("sshchan %s #%s", hx([]byte(typ)), typ), out, v, true)
	}
}
