//go:build verif

// Command verifharness is the correspondence harness of /verif. It is compiled *into* the
// gokrazy/rsync module with `go build -tags verif -overlay …` (nothing is written to /repo),
// runs the real implementation on generated inputs and prints, per case, the operation line for
// the Lean model driver, the implementation's canonical output and the verdict of an
// implementation-level property oracle (independent of the model).
//
//	CASE <tab> op line <tab> implementation output <tab> oracle verdict ("-" or "FAIL …") <tab> nontrivial(0/1)
//	STAT <tab> key <tab> value
package main

import (
	"bufio"
	"encoding/hex"
	"flag"
	"fmt"
	"math/rand"
	"os"
	"sort"
	"strings"
)

type suiteFunc func(h *H)

var suites = map[string]suiteFunc{}

// H is the harness context of one suite run.
type H struct {
	rng   *rand.Rand
	tier  string
	seed  int64
	out   *bufio.Writer
	stats map[string]int
	extra []string // replay: op lines to run instead of generating
}

func (h *H) thorough() bool { return h.tier == "thorough" }

// n picks the case count by tier.
func (h *H) n(quick, thorough int) int {
	if h.thorough() {
		return thorough
	}
	return quick
}

func (h *H) emit(op, impl, oracle string, nontrivial bool) {
	nt := "0"
	if nontrivial {
		nt = "1"
	}
	if oracle == "" {
		oracle = "-"
	}
	fmt.Fprintf(h.out, "CASE\t%s\t%s\t%s\t%s\n", op, impl, oracle, nt)
}

func (h *H) stat(key string) { h.stats[key]++ }

// begin marks the start of a case that feeds peer-controlled input to code running in goroutines this
// harness cannot guard with recover: if the process dies, the last BEGIN without a CASE names the input.
func (h *H) begin(op string) {
	fmt.Fprintf(h.out, "BEGIN\t%s\n", op)
	h.out.Flush()
}

func hx(b []byte) string {
	if len(b) == 0 {
		return "-"
	}
	return hex.EncodeToString(b)
}

func unhx(s string) []byte {
	if s == "-" {
		return nil
	}
	b, err := hex.DecodeString(s)
	if err != nil {
		panic("bad hex in op line: " + err.Error())
	}
	return b
}

func (h *H) bytes(n int) []byte {
	b := make([]byte, n)
	h.rng.Read(b)
	return b
}

func (h *H) pick(xs ...int) int { return xs[h.rng.Intn(len(xs))] }

func main() {
	if len(os.Args) > 2 && os.Args[1] == "-cli" {
		// internal: the command-line entry point as a user's shell runs it — with the sandbox (landlock) the
		// implementation puts itself into, which cannot be undone and therefore needs a process of its own
		cliMain(os.Args[2:])
		return
	}
	seed := flag.Int64("seed", 1, "PRNG seed")
	tier := flag.String("tier", "quick", "quick|thorough")
	replay := flag.String("replay", "", "file with op lines to re-run instead of generating")
	serve := flag.String("serve", "", "internal: run a daemon subprocess for the daemonproc suite on the given directory")
	flag.Parse()
	if *serve != "" {
		serveMain(*serve)
		return
	}
	if flag.NArg() < 1 {
		names := []string{}
		for k := range suites {
			names = append(names, k)
		}
		sort.Strings(names)
		fmt.Fprintln(os.Stderr, "usage: verifharness [-seed N] [-tier T] [-replay file] <suite>; suites:", strings.Join(names, " "))
		os.Exit(2)
	}
	h := &H{tier: *tier, seed: *seed, out: bufio.NewWriterSize(os.Stdout, 1<<20), stats: map[string]int{}}
	defer h.out.Flush()
	if *replay != "" {
		data, err := os.ReadFile(*replay)
		if err != nil {
			fmt.Fprintln(os.Stderr, err)
			os.Exit(2)
		}
		for _, l := range strings.Split(string(data), "\n") {
			if strings.TrimSpace(l) != "" {
				h.extra = append(h.extra, strings.TrimSpace(l))
			}
		}
	}
	for _, name := range flag.Args() {
		f, ok := suites[name]
		if !ok {
			fmt.Fprintln(os.Stderr, "unknown suite", name)
			os.Exit(2)
		}
		// every suite gets its own deterministic stream derived from the one seed
		var s int64 = *seed
		for _, c := range name {
			s = s*131 + int64(c)
		}
		h.rng = rand.New(rand.NewSource(s))
		f(h)
	}
	keys := []string{}
	for k := range h.stats {
		keys = append(keys, k)
	}
	sort.Strings(keys)
	for _, k := range keys {
		fmt.Fprintf(h.out, "STAT\t%s\t%d\n", k, h.stats[k])
	}
}
