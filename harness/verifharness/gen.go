//go:build verif

package main

// gen: the real recvGenerator (and, for requested regular files, recvFile1 on a valid stream) on a
// real destination node of every type, for all option subsets that influence it. Serves C10 (dry
// run), C11 (metadata) and C12 (update rule).

import (
	"bytes"
	"fmt"
	"io"
	"os"
	"path/filepath"
	"strings"
	"syscall"
	"time"

	"github.com/gokrazy/rsync/internal/log"
	"github.com/gokrazy/rsync/internal/progress"
	"github.com/gokrazy/rsync/internal/receiver"
	"github.com/gokrazy/rsync/internal/rsyncos"
	"github.com/gokrazy/rsync/internal/rsyncwire"
	"github.com/mmcloughlin/md4"
	"golang.org/x/sys/unix"
)

func init() { suites["gen"] = suiteGen }

type gEntry struct {
	kind   byte // f d l c b p s x
	perm   int
	size   int64
	mtime  int64
	uid    int
	gid    int
	target string
	rdev   int
	sum    []byte
}

type gNode struct {
	present  bool
	kind     byte
	perm     int
	size     int64
	mtime    int64
	uid      int
	gid      int
	target   string
	rdev     int
	sum      []byte
	nonEmpty bool
}

const nowMark = 4000000000

func (e gEntry) String() string {
	return fmt.Sprintf("%c,%d,%d,%d,%d,%d,%s,%d,%s", e.kind, e.perm, e.size, e.mtime, e.uid, e.gid, hx([]byte(e.target)), e.rdev, hx(e.sum))
}

func (n gNode) String() string {
	if !n.present {
		return "absent"
	}
	ne := 0
	if n.nonEmpty {
		ne = 1
	}
	return fmt.Sprintf("%c,%d,%d,%d,%d,%d,%s,%d,%s,%d", n.kind, n.perm, n.size, n.mtime, n.uid, n.gid, hx([]byte(n.target)), n.rdev, hx(n.sum), ne)
}

func modeOf(kind byte, perm int) int32 {
	m := int32(perm)
	switch kind {
	case 'f':
		m |= sIFREG
	case 'd':
		m |= sIFDIR
	case 'l':
		m |= sIFLNK
	case 'c':
		m |= sIFCHR
	case 'b':
		m |= sIFBLK
	case 'p':
		m |= sIFIFO
	case 's':
		m |= sIFSOCK
	}
	return m
}

func md4sum(b []byte) []byte { h := md4.New(); h.Write(b); return h.Sum(nil) }

// contentFor derives deterministic file content from (size, variant)
func contentFor(size int64, variant byte) []byte {
	b := make([]byte, size)
	for i := range b {
		b[i] = byte(i*7) ^ variant
	}
	return b
}

// makeNode creates the destination node in dir/name; returns the node as lstat sees it.
func makeNode(path string, n gNode, variant byte) error {
	if !n.present {
		return nil
	}
	switch n.kind {
	case 'f':
		if err := os.WriteFile(path, contentFor(n.size, variant), 0o600); err != nil {
			return err
		}
	case 'd':
		if err := os.Mkdir(path, 0o700); err != nil {
			return err
		}
		if n.nonEmpty {
			if err := os.WriteFile(filepath.Join(path, "child"), []byte("x"), 0o600); err != nil {
				return err
			}
		}
	case 'l':
		if err := os.Symlink(n.target, path); err != nil {
			return err
		}
		return os.Lchown(path, n.uid, n.gid) // perm/time of symlinks are left as created
	case 'c':
		if err := unix.Mknod(path, syscall.S_IFCHR|0o600, n.rdev); err != nil {
			return err
		}
	case 'b':
		if err := unix.Mknod(path, syscall.S_IFBLK|0o600, n.rdev); err != nil {
			return err
		}
	case 'p':
		if err := unix.Mkfifo(path, 0o600); err != nil {
			return err
		}
	case 's':
		fd, err := unix.Socket(unix.AF_UNIX, unix.SOCK_DGRAM, 0)
		if err != nil {
			return err
		}
		err = unix.Bind(fd, &unix.SockaddrUnix{Name: path})
		unix.Close(fd)
		if err != nil {
			return err
		}
	}
	if err := os.Lchown(path, n.uid, n.gid); err != nil {
		return err
	}
	if err := os.Chmod(path, os.FileMode(n.perm)); err != nil {
		return err
	}
	t := time.Unix(n.mtime, 123456789)
	if n.mtime < 0 {
		t = time.Unix(n.mtime, 500000000)
	}
	return os.Chtimes(path, t, t)
}

func statNode(path string) gNode {
	var st unix.Stat_t
	if err := unix.Lstat(path, &st); err != nil {
		return gNode{}
	}
	n := gNode{present: true, perm: int(st.Mode & 0o777), uid: int(st.Uid), gid: int(st.Gid), mtime: st.Mtim.Sec}
	if d := time.Now().Unix() - n.mtime; d > -300 && d < 300 {
		n.mtime = nowMark
	}
	switch st.Mode & unix.S_IFMT {
	case unix.S_IFREG:
		n.kind = 'f'
		n.size = st.Size
	case unix.S_IFDIR:
		n.kind = 'd'
	case unix.S_IFLNK:
		n.kind = 'l'
		n.perm = 0o777
		n.target, _ = os.Readlink(path)
	case unix.S_IFCHR:
		n.kind = 'c'
		n.rdev = int(st.Rdev)
	case unix.S_IFBLK:
		n.kind = 'b'
		n.rdev = int(st.Rdev)
	case unix.S_IFIFO:
		n.kind = 'p'
	case unix.S_IFSOCK:
		n.kind = 's'
	default:
		n.kind = 'x'
	}
	return n
}

func showNodeOut(n gNode) string {
	if !n.present {
		return "absent"
	}
	return fmt.Sprintf("%c,%d,%d,%d,%d,%d,%s,%d", n.kind, n.perm, n.size, n.mtime, n.uid, n.gid, hx([]byte(n.target)), n.rdev)
}

func optsOf(s string) receiver.TransferOpts {
	h := func(c string) bool { return strings.Contains(s, c) }
	return receiver.TransferOpts{
		DryRun: h("n"), PreserveLinks: h("l"), PreserveDevices: h("D"), PreserveSpecials: h("S"), PreservePerms: h("p"),
		PreserveTimes: h("t"), PreserveUid: h("o"), PreserveGid: h("g"), IgnoreTimes: h("I"), AlwaysChecksum: h("c"),
		Server: true, InfoGTE: falseInfo, DebugGTE: falseDebug,
		// reporting options must not change what is done (a verbose dry run is still a dry run)
		Verbose: h("v"), Progress: h("P"),
	}
}

type genResult struct {
	outcome string // ok | err | panic
	req     string
	retouch bool
	after   gNode
	wire    []byte
}

// runGen runs recvGenerator (and optionally the receive tail) on a fresh directory.
func runGen(base string, caseNo int, opts string, umask int, e gEntry, d gNode, srcVariant, dstVariant byte, alsoRecv bool) genResult {
	dir := filepath.Join(base, fmt.Sprintf("g%d", caseNo))
	if err := os.Mkdir(dir, 0o755); err != nil {
		panic(err)
	}
	defer os.RemoveAll(dir)
	old := syscall.Umask(0)
	if err := makeNode(filepath.Join(dir, "x"), d, dstVariant); err != nil {
		syscall.Umask(old)
		panic(fmt.Sprintf("makeNode %v: %v", d, err))
	}
	syscall.Umask(umask)
	defer syscall.Umask(old)
	root, err := os.OpenRoot(dir)
	if err != nil {
		panic(err)
	}
	defer root.Close()
	topts := optsOf(opts)
	var out bytes.Buffer
	src := contentFor(e.size, srcVariant)
	var stream bytes.Buffer
	seed := int32(77)
	if alsoRecv {
		// a valid whole-file stream for the source content
		stream.Write(encHead(sumHead{0, 700, 16, 0}))
		stream.Write(encTokens([]tok{{lit: src}}[:func() int {
			if len(src) == 0 {
				return 0
			}
			return 1
		}()]))
		stream.Write(refFileSum(seed, src))
	}
	rt := &receiver.Transfer{
		Logger:   log.New(io.Discard),
		Opts:     &topts,
		Dest:     dir,
		DestRoot: root,
		Env:      &rsyncos.Env{Stdout: io.Discard, Stderr: io.Discard},
		Progress: progress.NewPrinter(io.Discard, time.Now),
		Conn:     &rsyncwire.Conn{Reader: &stream, Writer: &out},
		Seed:     seed,
	}
	f := &receiver.File{Name: "x", Length: e.size, ModTime: time.Unix(e.mtime, 0), Mode: modeOf(e.kind, e.perm), Uid: int32(e.uid), Gid: int32(e.gid), LinkTarget: e.target, Rdev: int32(e.rdev)}
	copy(f.Checksum[:], e.sum)
	res := genResult{outcome: "ok"}
	func() {
		defer func() {
			if r := recover(); r != nil {
				res.outcome = "panic"
			}
		}()
		if err := receiver.VerifRecvGenerator(rt, 5, f); err != nil {
			res.outcome = "err"
			return
		}
		res.retouch = receiver.VerifRetouch(rt)
		w := out.Bytes()
		res.wire = append([]byte{}, w...)
		switch {
		case len(w) == 0:
			res.req = "none"
		case len(w) == 4:
			res.req = "index"
		case len(w) == 20 && bytes.Equal(w[4:], make([]byte, 16)):
			res.req = "full"
		case len(w) >= 20:
			res.req = "delta"
		default:
			res.req = "odd"
		}
		if alsoRecv && (res.req == "full" || res.req == "delta") {
			if err := receiver.VerifRecvFile1(rt, f); err != nil {
				res.outcome = "err"
			}
		}
	}()
	res.after = statNode(filepath.Join(dir, "x"))
	return res
}

func suiteGen(h *H) {
	base, err := os.MkdirTemp("", "verif-gen")
	if err != nil {
		panic(err)
	}
	defer os.RemoveAll(base)
	root := os.Getuid() == 0
	euid, egid := os.Getuid(), os.Getgid()
	groups, _ := os.Getgroups()
	caseNo := 0
	run := func(opname, opts string, umask int, e gEntry, d gNode, srcVariant, dstVariant byte) {
		caseNo++
		o := opts
		if root {
			o += "R"
		}
		for _, g := range groups {
			if g == e.gid {
				o += "G"
				break
			}
		}
		if o == "" {
			o = "-"
		}
		// entry checksum = MD4 of the source content; node checksum = MD4 of the destination content
		if e.kind == 'f' {
			e.sum = md4sum(contentFor(e.size, srcVariant))
		} else {
			e.sum = make([]byte, 16)
		}
		if d.present && d.kind == 'f' {
			d.sum = md4sum(contentFor(d.size, dstVariant))
		}
		if d.present && d.kind == 'l' {
			d.mtime = nowMark // symlink times are left as created
			d.perm = 0o777
		}
		before := d
		res := runGen(base, caseNo, opts, umask, e, d, srcVariant, dstVariant, opname == "genrecv")
		op := fmt.Sprintf("%s %s %d %d %d %s %s #variants=%d,%d", opname, o, umask, euid, egid, e, d, srcVariant, dstVariant)
		var impl string
		if opname == "gen" {
			rt := 0
			if res.retouch {
				rt = 1
			}
			impl = fmt.Sprintf("%s req=%s retouch=%d node=%s", res.outcome, res.req, rt, showNodeOut(res.after))
			if res.outcome != "ok" {
				impl = fmt.Sprintf("err req=none retouch=0 node=%s", showNodeOut(res.after))
			}
		} else {
			impl = fmt.Sprintf("%s node=%s", res.outcome, showNodeOut(res.after))
			if res.outcome != "ok" {
				impl = "err"
			}
		}
		v := genOracle(opname, opts, root, e, before, res, srcVariant, dstVariant)
		h.emit(op, impl, v, res.outcome == "ok")
		h.stat(opname + ".entry=" + string(e.kind))
		if d.present {
			h.stat(opname + ".dest=" + string(d.kind))
		} else {
			h.stat(opname + ".dest=absent")
		}
		h.stat(opname + ".req=" + res.req)
	}
	if h.extra != nil {
		for _, op := range h.extra {
			f := strings.Fields(op)
			if (f[0] == "gen" || f[0] == "genrecv") && len(f) >= 8 {
				var um, eu, eg int
				fmt.Sscan(f[2], &um)
				fmt.Sscan(f[3], &eu)
				fmt.Sscan(f[4], &eg)
				e := parseGEntry(f[5])
				d := parseGNode(f[6])
				var sv, dv int
				fmt.Sscanf(f[7], "#variants=%d,%d", &sv, &dv)
				opts := strings.NewReplacer("R", "", "G", "", "-", "").Replace(f[1])
				run(f[0], opts, um, e, d, byte(sv), byte(dv))
			}
		}
		return
	}
	kinds := []byte("fdlcbps")
	optPool := []string{"", "n", "p", "t", "pt", "l", "lp", "D", "S", "DS", "lptgoDS", "nlptgoDS", "c", "I", "cI", "tc", "tI", "ptc", "og", "nc", "nI", "ln", "nDS", "lt", "nv", "nvlptgoDS", "v", "vpt", "nvog", "nvP"}
	oldT := int64(1500000000)
	mt := []int64{oldT, oldT + 1, oldT - 1, 0, -1, -86400 * 365, 2147483647, -2147483648, 1600000000}
	// (1) decision table of the update rule (C12), exhaustive: existing regular file x
	//     {same/different size} x {mtime equal, +-1, far} x {content equal/different} x option sets x -t
	for _, opts := range []string{"", "t", "c", "tc", "I", "tI", "cI", "tcI", "n", "nt", "nc", "nI", "p", "pt", "np", "npt", "ntc", "nptc", "nptcog", "ptc", "ptcog", "nvptcog", "nvog", "nvt", "vtc"} {
		for _, dsize := range []int64{100, 101, 0} {
			for _, dm := range []int64{0, 1, -1, 100000} {
				for _, same := range []bool{true, false} {
					e := gEntry{kind: 'f', perm: 0o644, size: 100, mtime: oldT, uid: euid, gid: egid}
					if root && strings.Contains(opts, "o") {
						e.uid, e.gid = 1000, 1000
					}
					d := gNode{present: true, kind: 'f', perm: 0o604, size: dsize, mtime: oldT + dm, uid: euid, gid: egid}
					dv := byte(0)
					if !same {
						dv = 1
					}
					run("gen", opts, 0o22, e, d, 0, dv)
					if h.thorough() || (dm == 0 && dsize != 0) {
						run("genrecv", opts, 0o22, e, d, 0, dv)
					}
				}
			}
		}
	}
	// (2) every entry type x every destination state x option sets (C10, C11)
	nRandom := h.n(500, 8000)
	for i := 0; i < nRandom; i++ {
		ek := kinds[h.rng.Intn(len(kinds))]
		e := gEntry{kind: ek, perm: h.pick(0o644, 0o600, 0o755, 0o555, 0o500, 0o444, 0o777, 0, 0o111, h.rng.Intn(512)), size: int64(h.pick(0, 1, 100, 700, 3000)),
			mtime: mt[h.rng.Intn(len(mt))], uid: h.pick(euid, 1000, 65534), gid: h.pick(egid, 1000, 65534), rdev: h.pick(0x0103, 0x0801, 0x1f03, 259<<8|1)}
		if ek == 'l' {
			e.target = []string{"t", "../x/y", "/abs/olute", strings.Repeat("a/", 100) + "z", "\xff\xfe", "dangling"}[h.rng.Intn(6)]
			e.perm = 0o777
		}
		var d gNode
		switch r := h.rng.Intn(10); {
		case r < 3:
			d = gNode{}
		case r < 6: // same kind
			d = gNode{present: true, kind: ek}
		default:
			d = gNode{present: true, kind: kinds[h.rng.Intn(len(kinds))]}
		}
		if d.present {
			d.perm = h.pick(0o644, 0o604, 0o700, 0o755, 0o555, e.perm)
			d.size = int64(h.pick(0, 100, int(e.size), int(e.size)))
			d.mtime = []int64{e.mtime, e.mtime, oldT + 77, oldT - 5000}[h.rng.Intn(4)]
			if d.mtime > 2000000000 || d.mtime < -2000000000 {
				d.mtime = e.mtime
			}
			d.uid, d.gid = h.pick(euid, e.uid), h.pick(egid, e.gid)
			d.rdev = h.pick(e.rdev, 0x0105)
			d.target = []string{e.target, "other", "t"}[h.rng.Intn(3)]
			if d.target == "" {
				d.target = "t"
			}
			d.nonEmpty = d.kind == 'd' && h.rng.Intn(3) == 0
			if d.kind != 'f' {
				d.size = 0
			}
			if d.kind != 'l' {
				d.target = ""
			}
			if d.kind != 'c' && d.kind != 'b' {
				d.rdev = 0
			}
		}
		if !root {
			e.uid, e.gid, d.uid, d.gid = euid, egid, euid, egid
			if ek == 'c' || ek == 'b' || d.kind == 'c' || d.kind == 'b' {
				h.stat("gen.skipped-not-root")
				continue
			}
		}
		opts := optPool[h.rng.Intn(len(optPool))]
		umask := h.pick(0o22, 0o22, 0o77, 0, 0o27)
		dv := byte(h.rng.Intn(2))
		if h.rng.Intn(3) == 0 {
			run("genrecv", opts, umask, e, d, 0, dv)
		} else {
			run("gen", opts, umask, e, d, 0, dv)
		}
	}
	// (2b) device / special entries against every destination type, -D/--devices/--specials subsets
	if root {
		for _, ek := range []byte("cbps") {
			for _, dk := range []byte("-cbpsfdl") {
				for _, opts := range []string{"DS", "D", "S", "nDS", ""} {
					e := gEntry{kind: ek, perm: 0o640, mtime: oldT, uid: euid, gid: egid, rdev: 0x0103}
					d := gNode{}
					if dk != '-' {
						d = gNode{present: true, kind: dk, perm: 0o600, mtime: oldT - 50, uid: euid, gid: egid}
						if dk == 'c' || dk == 'b' {
							d.rdev = 0x0105
						}
						if dk == 'l' {
							d.target = "t"
						}
						if dk == 'f' {
							d.size = 3
						}
					}
					run("gen", opts, 0o22, e, d, 0, 0)
				}
			}
		}
	}
	// (2c) a device node that already has every wanted attribute except the device number (the source node was re-created
	// with another major/minor): the node that replaces it gets the wanted permissions (beyond the umask), owner and time too
	if root {
		for _, ek := range []byte("cb") {
			for _, perm := range []int{0o666, 0o660, 0o640} {
				for _, own := range [][2]int{{euid, egid}, {1000, 65534}} {
					for _, opts := range []string{"ptogDS", "pDS", "tDS", "ogDS", "ptogD"} {
						e := gEntry{kind: ek, perm: perm, mtime: oldT, uid: own[0], gid: own[1], rdev: 0x0103}
						d := gNode{present: true, kind: ek, perm: perm, mtime: oldT, uid: own[0], gid: own[1], rdev: 0x0105}
						run("gen", opts, 0o22, e, d, 0, 0)
						h.stat("gen.renumbered-device")
					}
				}
			}
		}
	}
	// (3) all 512 permission values on regular files and directories (C11), -p on and off
	if h.thorough() {
		for perm := 0; perm < 512; perm++ {
			for _, opts := range []string{"p", "", "pt"} {
				e := gEntry{kind: 'f', perm: perm, size: 10, mtime: oldT, uid: euid, gid: egid}
				run("genrecv", opts, 0o22, e, gNode{}, 0, 0)
				run("genrecv", opts, 0o22, e, gNode{present: true, kind: 'f', perm: 0o604, size: 5, mtime: oldT - 9, uid: euid, gid: egid}, 0, 1)
				ed := gEntry{kind: 'd', perm: perm, mtime: oldT, uid: euid, gid: egid}
				run("gen", opts, 0o22, ed, gNode{}, 0, 0)
			}
		}
	} else {
		for _, perm := range []int{0, 0o111, 0o200, 0o400, 0o444, 0o500, 0o555, 0o644, 0o700, 0o755, 0o777, 0o070, 0o007} {
			for _, opts := range []string{"p", ""} {
				e := gEntry{kind: 'f', perm: perm, size: 10, mtime: oldT, uid: euid, gid: egid}
				run("genrecv", opts, 0o22, e, gNode{}, 0, 0)
				run("genrecv", opts, 0o22, e, gNode{present: true, kind: 'f', perm: 0o604, size: 5, mtime: oldT - 9, uid: euid, gid: egid}, 0, 1)
				ed := gEntry{kind: 'd', perm: perm, mtime: oldT, uid: euid, gid: egid}
				run("gen", opts, 0o22, ed, gNode{}, 0, 0)
			}
		}
	}
}

func parseGEntry(s string) gEntry {
	p := strings.Split(s, ",")
	var e gEntry
	e.kind = p[0][0]
	fmt.Sscan(p[1], &e.perm)
	fmt.Sscan(p[2], &e.size)
	fmt.Sscan(p[3], &e.mtime)
	fmt.Sscan(p[4], &e.uid)
	fmt.Sscan(p[5], &e.gid)
	e.target = string(unhx(p[6]))
	fmt.Sscan(p[7], &e.rdev)
	e.sum = unhx(p[8])
	return e
}

func parseGNode(s string) gNode {
	if s == "absent" {
		return gNode{}
	}
	p := strings.Split(s, ",")
	n := gNode{present: true}
	n.kind = p[0][0]
	fmt.Sscan(p[1], &n.perm)
	fmt.Sscan(p[2], &n.size)
	fmt.Sscan(p[3], &n.mtime)
	fmt.Sscan(p[4], &n.uid)
	fmt.Sscan(p[5], &n.gid)
	n.target = string(unhx(p[6]))
	fmt.Sscan(p[7], &n.rdev)
	n.sum = unhx(p[8])
	n.nonEmpty = p[9] == "1"
	return n
}

// genOracle: implementation-level verdicts for C10, C11, C12, written from the property texts.
func genOracle(opname, opts string, root bool, e gEntry, before gNode, res genResult, srcVariant, dstVariant byte) string {
	h := func(c string) bool { return strings.Contains(opts, c) }
	if res.outcome == "panic" {
		return "FAIL generator/receiver panicked"
	}
	after := res.after
	// ---- C10: a dry run changes nothing and requests no data transfer with checksums
	if h("n") {
		b := statNodeEquivalent(before)
		if showNodeOut(b) != showNodeOut(after) {
			return fmt.Sprintf("FAIL[C10] dry run changed the destination entry: before %s after %s", showNodeOut(b), showNodeOut(after))
		}
		if res.req == "full" || res.req == "delta" {
			return "FAIL[C10] dry run sent a checksum header (a data request) to the sender"
		}
	}
	// ---- C12: the update rule for an existing/missing regular destination
	if e.kind == 'f' && res.outcome == "ok" && opname == "gen" {
		want := false
		switch {
		case !before.present || before.kind != 'f':
			want = true
		case before.size != e.size:
			want = true
		case h("c"):
			want = !(srcVariant == dstVariant || e.size == 0) // content differs
			if e.size == before.size && srcVariant != dstVariant && e.size > 0 {
				want = true
			}
		case h("I"):
			want = true
		default:
			want = before.mtime != e.mtime
		}
		got := res.req != "none"
		if want != got {
			return fmt.Sprintf("FAIL[C12] update rule says request=%v but the generator's request was %q (dest %s, entry %s, opts %q)", want, res.req, before, e, opts)
		}
	}
	// ---- C12: an immediately repeated sync is a no-op: once the file was received under -t (or is compared
	// by -c), the update rule must find it up to date
	if e.kind == 'f' && res.outcome == "ok" && opname == "genrecv" && !h("n") && after.present && after.kind == 'f' &&
		(res.req == "full" || res.req == "delta") && !h("c") && h("t") && !h("I") {
		if after.size != e.size || after.mtime != e.mtime {
			c12 := fmt.Sprintf("FAIL[C12] after the file was received with -t, a repeated sync would request it again: size %d mtime %d at the destination, %d / %d in the list", after.size, after.mtime, e.size, e.mtime)
			if h("t") && after.mtime != e.mtime {
				// the same observation is a C11 failure (mtime not reproduced)
				c12 += fmt.Sprintf(" || FAIL[C11] -t: mtime %d, want %d", after.mtime, e.mtime)
			}
			return c12
		}
	}
	// ---- C11: requested metadata is reproduced (only when not a dry run and the step succeeded)
	if !h("n") && res.outcome == "ok" {
		transferred := false
		switch e.kind {
		case 'd':
			transferred = true
		case 'l':
			transferred = h("l")
		case 'c', 'b':
			transferred = h("D")
		case 'p', 's':
			transferred = h("S")
		case 'f':
			transferred = opname == "genrecv" || res.req == "none"
		}
		if transferred && after.present {
			if after.kind != e.kind {
				return fmt.Sprintf("FAIL[C11] entry of type %c ended as type %c", e.kind, after.kind)
			}
			freshlyCreated := !before.present || before.kind != e.kind
			if h("p") && e.kind != 'l' {
				wantPerm := e.perm
				if e.kind == 'd' && e.perm&0o200 == 0 {
					wantPerm |= 0o200 // made writable until touchUpDirs restores it at the end of the run
				}
				if after.perm != wantPerm {
					return fmt.Sprintf("FAIL[C11] -p: permission %o, want %o", after.perm, wantPerm)
				}
			}
			if !h("p") && e.kind == 'f' && before.present && before.kind == 'f' && after.perm != before.perm {
				return fmt.Sprintf("FAIL[C11] without -p an existing file's permissions changed from %o to %o", before.perm, after.perm)
			}
			if h("t") && e.kind != 'l' && e.kind != 'd' && after.mtime != e.mtime {
				return fmt.Sprintf("FAIL[C11] -t: mtime %d, want %d", after.mtime, e.mtime)
			}
			if h("l") && e.kind == 'l' && after.target != e.target {
				return fmt.Sprintf("FAIL[C11] -l: link target %q, want %q", after.target, e.target)
			}
			if h("D") && (e.kind == 'c' || e.kind == 'b') && after.rdev != e.rdev {
				if freshlyCreated {
					return fmt.Sprintf("FAIL[C11] -D: rdev %#x, want %#x", after.rdev, e.rdev)
				}
				return fmt.Sprintf("FAIL[C11] -D: existing device node with a different device number is left as is (rdev %#x, want %#x)", after.rdev, e.rdev)
			}
			if root && h("o") && after.uid != e.uid {
				return fmt.Sprintf("FAIL[C11] -o as root: uid %d, want %d", after.uid, e.uid)
			}
			if root && h("g") && after.gid != e.gid {
				return fmt.Sprintf("FAIL[C11] -g as root: gid %d, want %d", after.gid, e.gid)
			}
		}
		if transferred && !after.present {
			return "FAIL[C11] transferred entry does not exist afterwards"
		}
	}
	return ""
}

// statNodeEquivalent maps a planned node to what lstat reports for it (symlink perms, sizes, rdev of non-devices)
func statNodeEquivalent(n gNode) gNode {
	if !n.present {
		return n
	}
	m := n
	m.sum = nil
	if m.kind == 'l' {
		m.perm = 0o777
		m.mtime = nowMark // symlink times are not set by makeNode
		m.uid, m.gid = n.uid, n.gid
	}
	if m.kind != 'f' {
		m.size = 0
	}
	return m
}
