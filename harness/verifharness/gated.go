//go:build verif

package main

// gated: the real receiving client (maincmd.ClientRun) on a scripted valid session whose byte stream
// is held back at byte N: while the receiver is blocked there the destination is inspected; then the
// stream is released and the session finishes. A second pass cuts the stream at N (connection loss)
// and inspects the destination after the error return. Files: new, replaced by literals, replaced by a
// delta against the old content, replaced symlink, symlink→file and file→symlink type changes, names
// of 1..255 bytes.
// Oracle for C04: at every instant every listed path holds its complete previous state, its complete
// new state, or (only if it was absent or changes type) nothing; everything else in the destination
// is a temporary (".<name><digits>"); after an error return the temporaries are gone.

import (
	"bytes"
	"fmt"
	"io"
	"os"
	"os/signal"
	"path/filepath"
	"regexp"
	"sort"
	"strings"
	"sync"
	"syscall"
	"time"

	"golang.org/x/sys/unix"

	"github.com/gokrazy/rsync/internal/maincmd"
	"github.com/gokrazy/rsync/internal/rsyncopts"
	"github.com/gokrazy/rsync/internal/rsyncos"
)

func init() { suites["gated"] = suiteGated }

type gateReader struct {
	data    []byte
	pos     int
	gate    int // block when about to deliver the byte at this offset (<0: never)
	cut     int // EOF at this offset (<0: never)
	arrived chan struct{}
	release chan struct{}
	once    sync.Once
}

func (g *gateReader) Read(p []byte) (int, error) {
	if g.cut >= 0 && g.pos >= g.cut {
		return 0, io.ErrUnexpectedEOF
	}
	if g.pos >= len(g.data) {
		return 0, io.EOF
	}
	limit := len(g.data)
	if g.cut >= 0 && g.cut < limit {
		limit = g.cut
	}
	if g.gate >= 0 && g.pos <= g.gate && g.gate < limit {
		if g.pos == g.gate {
			g.once.Do(func() { close(g.arrived) })
			<-g.release
			g.gate = -1
		} else {
			limit = g.gate
		}
	}
	n := copy(p, g.data[g.pos:limit])
	g.pos += n
	return n, nil
}

type gatedConn struct {
	r io.Reader
}

func (c *gatedConn) Read(p []byte) (int, error)  { return c.r.Read(p) }
func (c *gatedConn) Write(p []byte) (int, error) { return len(p), nil }

type gFile struct {
	name     string
	kind     byte // f l
	oldKind  byte // 0 absent, f, l
	old      []byte
	oldTgt   string
	new      []byte
	newTgt   string
	delta    bool
	announce int64 // length the list announces, if different from len(new)
}

var tempRe = regexp.MustCompile(`^\..+[0-9]+$`)

func suiteGated(h *H) {
	os.Stderr = devNull
	base, err := os.MkdirTemp("", "verif-gated")
	if err != nil {
		panic(err)
	}
	defer os.RemoveAll(base)
	mkContent := func(n int, salt byte) []byte {
		b := make([]byte, n)
		for i := range b {
			b[i] = byte(i*7) ^ salt ^ byte(i>>8)
		}
		return b
	}
	long := strings.Repeat("n", 230)
	variants := [][]gFile{
		{ // the plain mix
			{name: "a-new", kind: 'f', new: mkContent(1500, 1)},
			{name: "b-replaced", kind: 'f', oldKind: 'f', old: []byte("previous content of b"), new: mkContent(900, 2)},
			{name: "c-delta", kind: 'f', oldKind: 'f', old: mkContent(3000, 3), delta: true},
			{name: "d-link", kind: 'l', oldKind: 'l', oldTgt: "old-target", newTgt: "new-target"},
			{name: "e-link-to-file", kind: 'f', oldKind: 'l', oldTgt: "somewhere", new: mkContent(300, 4)},
			{name: "f-file-to-link", kind: 'l', oldKind: 'f', old: []byte("was a file"), newTgt: "now-a-link"},
			{name: "sub/g-nested", kind: 'f', oldKind: 'f', old: []byte("nested old"), new: mkContent(800, 5)},
			{name: "h-empty", kind: 'f', oldKind: 'f', old: []byte("not empty before"), new: nil},
		},
		{ // names at the limits of what a temporary name beside them can be
			{name: "x", kind: 'f', oldKind: 'f', old: []byte("x old"), new: mkContent(700, 6)},
			{name: long, kind: 'f', oldKind: 'f', old: []byte("long old"), new: mkContent(1200, 7)},
			{name: "y" + strings.Repeat("m", 100), kind: 'f', new: mkContent(600, 8)},
		},
		{ // a list that announces far more than arrives (the source shrank; or a peer that lies): nothing may be reserved and left behind
			{name: "huge-announced", kind: 'f', oldKind: 'f', old: []byte("previous content"), new: mkContent(700, 11), announce: 1 << 62},
			{name: "also", kind: 'f', new: mkContent(400, 12), announce: 5 << 20},
			// holes: runs of zero bytes at the head, in the middle and at the tail, announced shorter and longer than sent
			{name: "zeros-tail-shrunk", kind: 'f', new: append(mkContent(500, 13), make([]byte, 9000)...), announce: 300},
			{name: "zeros-tail-grown", kind: 'f', oldKind: 'f', old: []byte("old"), new: append(mkContent(500, 14), make([]byte, 5000)...), announce: 70000},
			{name: "zeros-head", kind: 'f', new: append(make([]byte, 8192), mkContent(100, 15)...), announce: 100},
		},
		{
			{name: strings.Repeat("L", 250), kind: 'f', oldKind: 'f', old: []byte("very long name, old"), new: mkContent(1000, 9)},
			{name: "z-after", kind: 'f', oldKind: 'f', old: []byte("z old"), new: mkContent(500, 10)},
		},
	}
	for vi, files := range variants {
		// ---- the session script
		for i := range files {
			if files[i].delta {
				// new = old with the middle block replaced and a tail appended: refs to blocks 0 and 2.., literals between
				o := files[i].old
				n := append([]byte{}, o[:700]...)
				n = append(n, mkContent(650, 77)...)
				n = append(n, o[1400:]...)
				n = append(n, []byte("tail")...)
				files[i].new = n
			}
		}
		es := []hostileFile{{e: refEntry{name: []byte("."), mode: sIFDIR | 0o755, size: 4096, mtime: 1500000000}}}
		if vi == 0 {
			es = append(es, hostileFile{e: refEntry{name: []byte("sub"), mode: sIFDIR | 0o755, size: 4096, mtime: 1500000000}})
		}
		for _, f := range files {
			if f.kind == 'f' {
				sz := int64(len(f.new))
				if f.announce != 0 {
					sz = f.announce
				}
				es = append(es, hostileFile{e: refEntry{name: []byte(f.name), mode: sIFREG | 0o644, size: sz, mtime: 1500000009}, data: f.new})
			} else {
				es = append(es, hostileFile{e: refEntry{name: []byte(f.name), mode: sIFLNK | 0o777, size: int64(len(f.newTgt)), mtime: 1500000009, target: []byte(f.newTgt)}})
			}
		}
		o := refOpts{links: true}
		var list []refEntry
		for _, f := range es {
			list = append(list, f.e)
		}
		var pay bytes.Buffer
		pay.Write(refEncodeList(list, o, nil, 0))
		listEnd := pay.Len()
		sorted := append([]hostileFile{}, es...)
		sort.SliceStable(sorted, func(i, j int) bool { return string(sorted[i].e.name) < string(sorted[j].e.name) })
		var marks []int // payload offsets of field boundaries in the data phase
		for i, s := range sorted {
			if s.e.mode&sIFMT != sIFREG {
				continue
			}
			var gf gFile
			for _, f := range files {
				if f.name == string(s.e.name) {
					gf = f
				}
			}
			marks = append(marks, pay.Len())
			wI32(&pay, int32(i))
			if gf.delta {
				// checksum header as the generator would send it for the old file: 700-byte blocks
				cnt := (len(gf.old) + 699) / 700
				for _, v := range []int32{int32(cnt), 700, 2, int32(len(gf.old) % 700)} {
					wI32(&pay, v)
				}
				marks = append(marks, pay.Len())
				wI32(&pay, -1) // block 0
				marks = append(marks, pay.Len())
				wI32(&pay, 650)
				pay.Write(gf.new[700:1350])
				marks = append(marks, pay.Len())
				for b := 2; b < cnt; b++ {
					wI32(&pay, int32(-(b + 1)))
					marks = append(marks, pay.Len())
				}
				wI32(&pay, 4)
				pay.WriteString("tail")
			} else {
				for _, v := range []int32{0, 700, 2, 0} {
					wI32(&pay, v)
				}
				marks = append(marks, pay.Len())
				// literals in two chunks
				d := s.data
				if len(d) > 0 {
					half := len(d) / 2
					if half > 0 {
						wI32(&pay, int32(half))
						pay.Write(d[:half])
						marks = append(marks, pay.Len())
					}
					wI32(&pay, int32(len(d)-half))
					pay.Write(d[half:])
				}
			}
			marks = append(marks, pay.Len())
			wI32(&pay, 0)
			marks = append(marks, pay.Len())
			pay.Write(refFileSum(hostileSeed, s.data))
			marks = append(marks, pay.Len())
		}
		wI32(&pay, -1)
		wI32(&pay, -1)
		wLong(&pay, 1)
		wLong(&pay, 2)
		wLong(&pay, 3)
		var st bytes.Buffer
		wI32(&st, hostileSeed)
		// small frames: the multiplex reader hands data on frame by frame, so the freeze granularity is one frame
		const frame = 16
		st.Write(frameUp(pay.Bytes(), func() int { return frame }, 0, nil))
		stream := st.Bytes()
		toStream := func(payOff int) int { return 4 + payOff + 4*(payOff/frame+1) }
		// ---- positions
		posSet := map[int]bool{}
		for _, m := range marks {
			for _, d := range []int{-1, 0, 1} {
				p := toStream(m) + d
				if p > 4 && p < len(stream) {
					posSet[p] = true
				}
			}
		}
		step := h.n(97, 5)
		for p := toStream(listEnd); p < len(stream); p += step {
			posSet[p] = true
		}
		var positions []int
		for p := range posSet {
			positions = append(positions, p)
		}
		sort.Ints(positions)
		caseNo := 0
		setup := func() string {
			caseNo++
			dst := filepath.Join(base, fmt.Sprintf("v%d-%d", vi, caseNo))
			os.MkdirAll(filepath.Join(dst, "sub"), 0o755)
			for _, f := range files {
				p := filepath.Join(dst, f.name)
				switch f.oldKind {
				case 'f':
					os.WriteFile(p, f.old, 0o644)
					os.Chtimes(p, time.Unix(1400000000, 0), time.Unix(1400000000, 0))
				case 'l':
					os.Symlink(f.oldTgt, p)
				}
			}
			return dst
		}
		// state of one listed path: "absent" | "old" | "new" | "other:<what>"
		stateOf := func(dst string, f gFile) string {
			p := filepath.Join(dst, f.name)
			fi, err := os.Lstat(p)
			if err != nil {
				return "absent"
			}
			switch {
			case fi.Mode()&os.ModeSymlink != 0:
				t, _ := os.Readlink(p)
				if f.oldKind == 'l' && t == f.oldTgt {
					return "old"
				}
				if f.kind == 'l' && t == f.newTgt {
					return "new"
				}
				return "other:link->" + t
			case fi.Mode().IsRegular():
				b, _ := os.ReadFile(p)
				if f.oldKind == 'f' && bytes.Equal(b, f.old) {
					return "old"
				}
				if f.kind == 'f' && bytes.Equal(b, f.new) {
					return "new"
				}
				return fmt.Sprintf("other:file of %d bytes (old %d, new %d)", len(b), len(f.old), len(f.new))
			}
			return "other:" + fi.Mode().String()
		}
		inspect := func(dst string, atReturn bool) string {
			for _, f := range files {
				s := stateOf(dst, f)
				typeChange := f.oldKind != 0 && f.oldKind != f.kind
				switch {
				case s == "old" || s == "new":
				case s == "absent" && (f.oldKind == 0 || typeChange):
				case s == "absent":
					return fmt.Sprintf("%q is gone: it held its previous content before and is not being replaced by an entry of another type", shortName(f.name))
				default:
					return fmt.Sprintf("%q holds neither its previous nor its new content: %s", shortName(f.name), s)
				}
			}
			// anything else in the destination must be a temporary
			listed := map[string]bool{"sub": true}
			for _, f := range files {
				listed[f.name] = true
			}
			bad := ""
			filepath.Walk(dst, func(p string, info os.FileInfo, err error) error {
				if err != nil || p == dst {
					return nil
				}
				rel, _ := filepath.Rel(dst, p)
				if listed[rel] {
					return nil
				}
				// what lies inside a temporary directory (renameio builds a replacement symlink in one) is temporary too
				inTemp := false
				for d := filepath.Dir(rel); d != "." && d != "/"; d = filepath.Dir(d) {
					if tempRe.MatchString(filepath.Base(d)) && !listed[d] {
						inTemp = true
					}
				}
				if atReturn {
					bad = fmt.Sprintf("%q is left behind after the error return", shortName(rel))
				} else if !tempRe.MatchString(filepath.Base(rel)) && !inTemp {
					bad = fmt.Sprintf("unexpected entry %q", shortName(rel))
				}
				return nil
			})
			return bad
		}
		var extraOpts []string // further command-line options of the session under test
		runSession := func(dst string, g *gateReader) chan string {
			done := make(chan string, 1)
			extra := append([]string{}, extraOpts...)
			go func() {
				defer func() {
					if r := recover(); r != nil {
						done <- fmt.Sprintf("panic:%v", r)
					}
				}()
				osenv := &rsyncos.Env{Stdout: io.Discard, Stderr: io.Discard, DontRestrict: true}
				pc := rsyncopts.NewContext(rsyncopts.NewOptionsWithGokrazyDefaults(osenv))
				if perr := pc.ParseArguments(osenv, append(append([]string{"-rlt"}, extra...), "host::m/", dst)); perr != nil {
					done <- "optserr:" + perr.Error()
					return
				}
				_, err := maincmd.ClientRun(osenv, pc.Options, &gatedConn{r: g}, []string{dst}, false)
				if err != nil {
					done <- "err:" + strings.SplitN(err.Error(), "\n", 2)[0]
				} else {
					done <- "ok"
				}
			}()
			return done
		}
		// ---- the uninterrupted session, plain and with every option of rsync's vocabulary that changes how the receiver
		// writes its files, as far as this implementation accepts it
		for _, wo := range append([][]string{nil}, writeOptsAll(base)...) {
			extraOpts = wo
			dst := setup()
			out := <-runSession(dst, &gateReader{data: stream, gate: -1, cut: -1, arrived: make(chan struct{}), release: make(chan struct{})})
			v := ""
			if out == "ok" {
				for _, f := range files {
					if s := stateOf(dst, f); s != "new" {
						v = fmt.Sprintf("FAIL[C01] after a successful session %q is %s", shortName(f.name), s)
						if strings.HasPrefix(s, "other") {
							v += " || FAIL[C03] what was installed under the name is not the data whose checksum was verified"
						}
					}
				}
			} else if strings.Contains(out, "name too long") {
				v = "FAIL[C01] a file whose name is longer than about 235 bytes cannot be received: the temporary name beside it exceeds the 255-byte limit (" + out + ")"
			} else {
				v = "FAIL[C01] a valid session failed: " + out
			}
			if v == "" || strings.Contains(out, "name too long") {
				if w := inspect(dst, out != "ok"); w != "" {
					v = "FAIL[C04] after the session: " + w
				}
			}
			if strings.HasPrefix(out, "optserr") {
				os.RemoveAll(dst)
				continue
			}
			tag := "full-session"
			if wo != nil {
				tag += fmt.Sprintf(" opts=%v", wo)
			}
			h.emit(fmt.Sprintf("!gated seed=%d variant=%d %s", h.seed, vi, tag), strings.SplitN(out, ":", 2)[0], v, out == "ok")
			os.RemoveAll(dst)
		}
		extraOpts = nil
		// ---- frozen at byte N
		for _, n := range positions {
			dst := setup()
			g := &gateReader{data: stream, gate: n, cut: -1, arrived: make(chan struct{}), release: make(chan struct{})}
			done := runSession(dst, g)
			v := ""
			select {
			case <-g.arrived:
				// the receiver is blocked in Read; give the generator goroutine a moment to finish what it is doing
				time.Sleep(2 * time.Millisecond)
				if os.Getenv("VERIF_DEBUG") != "" {
					for _, f := range files {
						fmt.Fprintf(os.Stdout, "DEBUG v%d n=%d %s: %s\n", vi, n, shortName(f.name), stateOf(dst, f))
					}
				}
				if w := inspect(dst, false); w != "" {
					v = fmt.Sprintf("FAIL[C04] while the receiver is blocked before stream byte %d: %s", n, w)
				}
				close(g.release)
			case out := <-done:
				// the session ended before byte N was asked for (an error earlier in the stream)
				done <- out
				close(g.release)
			}
			out := <-done
			if v == "" {
				if w := inspect(dst, out != "ok"); w != "" {
					// after an error return the background goroutine may still be unwinding: poll briefly
					for i := 0; i < 50 && w != ""; i++ {
						time.Sleep(4 * time.Millisecond)
						w = inspect(dst, out != "ok")
					}
					if w != "" {
						v = fmt.Sprintf("FAIL[C04] after the session (%s): %s", strings.SplitN(out, ":", 2)[0], w)
					}
				}
			}
			h.emit(fmt.Sprintf("!gated seed=%d variant=%d frozen-at=%d", h.seed, vi, n), strings.SplitN(out, ":", 2)[0], v, true)
			h.stat("gated.frozen")
			os.RemoveAll(dst)
		}
		// ---- the basis changes while the transfer is in flight (C03): the receiver is frozen at a token
		// boundary of the delta file, one byte of the old file is overwritten in place, the stream goes on.
		// Success must mean the complete new content; anything else must be an error.
		if vi == 0 {
			for _, f := range files {
				if !f.delta {
					continue
				}
				for _, n := range positions {
					for _, at := range []int64{10, 1500} {
						dst := setup()
						g := &gateReader{data: stream, gate: n, cut: -1, arrived: make(chan struct{}), release: make(chan struct{})}
						done := runSession(dst, g)
						mutated := false
						select {
						case <-g.arrived:
							time.Sleep(time.Millisecond)
							if stateOf(dst, f) == "old" {
								if fh, err := os.OpenFile(filepath.Join(dst, f.name), os.O_WRONLY, 0); err == nil {
									fh.WriteAt([]byte{f.old[at] ^ 0x5a}, at)
									fh.Close()
									mutated = true
								}
							}
							close(g.release)
						case out := <-done:
							done <- out
							close(g.release)
						}
						out := <-done
						v := ""
						if mutated {
							b, err := os.ReadFile(filepath.Join(dst, f.name))
							modOld := append([]byte{}, f.old...)
							modOld[at] ^= 0x5a
							switch {
							case out == "ok" && (err != nil || !bytes.Equal(b, f.new)):
								v = fmt.Sprintf("FAIL[C03] the basis of %q changed (byte %d) while the receiver was before stream byte %d; the session reported success but the file does not hold the source's content", f.name, at, n)
							case out != "ok" && (err != nil || !(bytes.Equal(b, modOld) || bytes.Equal(b, f.new))):
								v = fmt.Sprintf("FAIL[C03] the basis of %q changed while the receiver was before stream byte %d; the session failed (%s) and the path holds neither what was there nor the new content", f.name, n, strings.SplitN(out, ":", 2)[0])
							}
							h.stat("gated.basis-changed." + strings.SplitN(out, ":", 2)[0])
						}
						h.emit(fmt.Sprintf("!gated seed=%d variant=%d basis-changed-at=%d byte=%d", h.seed, vi, n, at), strings.SplitN(out, ":", 2)[0], v, mutated)
						os.RemoveAll(dst)
					}
				}
			}
		}
		// ---- writing fails during the session (file size limit, like a full disk or an exceeded quota):
		// the session must fail, and every listed path holds its complete old or new state, nothing partial
		// the same with every option of rsync's vocabulary that changes how the receiver writes its files, as far
		// as this implementation accepts it (an option it does not know is a usage error and the case is void)
		writeOpts := append([][]string{nil}, writeOptsAll(base)...)
		for _, wo := range writeOpts {
			extraOpts = wo
			for _, limit := range []uint64{1, 300, 640, 1024, 1400} {
				if wo != nil && limit != 300 && limit != 1024 {
					continue
				}
				dst := setup()
				var oldLim unix.Rlimit
				unix.Getrlimit(unix.RLIMIT_FSIZE, &oldLim)
				signal.Ignore(syscall.SIGXFSZ)
				unix.Setrlimit(unix.RLIMIT_FSIZE, &unix.Rlimit{Cur: limit, Max: oldLim.Max})
				out := <-runSession(dst, &gateReader{data: stream, gate: -1, cut: -1, arrived: make(chan struct{}), release: make(chan struct{})})
				unix.Setrlimit(unix.RLIMIT_FSIZE, &oldLim)
				v := ""
				w := inspect(dst, out != "ok")
				for i := 0; i < 100 && w != "" && out != "ok"; i++ {
					time.Sleep(4 * time.Millisecond)
					w = inspect(dst, true)
				}
				if w != "" {
					v = fmt.Sprintf("FAIL[C04] with writes failing beyond %d bytes per file (%s): %s", limit, strings.SplitN(out, ":", 2)[0], w)
				} else if out == "ok" {
					for _, f := range files {
						if s := stateOf(dst, f); s != "new" {
							v = fmt.Sprintf("FAIL[C01] with writes failing beyond %d bytes per file the session reported success but %q is %s", limit, shortName(f.name), s)
						}
					}
				}
				if strings.HasPrefix(out, "optserr") {
					os.RemoveAll(dst)
					h.stat("gated.write-limit.option-not-accepted")
					continue
				}
				h.emit(fmt.Sprintf("!gated seed=%d variant=%d write-limit=%d opts=%v", h.seed, vi, limit, wo), strings.SplitN(out, ":", 2)[0], v, true)
				h.stat("gated.write-limit." + strings.SplitN(out, ":", 2)[0])
				os.RemoveAll(dst)
			}
		}
		extraOpts = nil
		// ---- connection lost at byte N
		for _, n := range positions {
			dst := setup()
			g := &gateReader{data: stream, gate: -1, cut: n, arrived: make(chan struct{}), release: make(chan struct{})}
			out := <-runSession(dst, g)
			v := ""
			w := inspect(dst, true)
			for i := 0; i < 100 && w != ""; i++ {
				time.Sleep(4 * time.Millisecond)
				w = inspect(dst, true)
			}
			if w != "" {
				v = fmt.Sprintf("FAIL[C04] after the connection was lost at stream byte %d (%s): %s", n, strings.SplitN(out, ":", 2)[0], w)
			}
			if out == "ok" && n < len(stream)-40 {
				v = fmt.Sprintf("FAIL[C03] a session whose stream was cut at byte %d of %d reported success", n, len(stream))
			}
			h.emit(fmt.Sprintf("!gated seed=%d variant=%d cut-at=%d", h.seed, vi, n), strings.SplitN(out, ":", 2)[0], v, true)
			h.stat("gated.cut")
			os.RemoveAll(dst)
		}
	}
}

// writeOptsAll: options of rsync's vocabulary that change how a receiver writes its files
func writeOptsAll(base string) [][]string {
	return [][]string{{"--preallocate"}, {"--inplace"}, {"--partial"}, {"--sparse"}, {"-S"}, {"--append"}, {"--whole-file"},
		{"--delay-updates"}, {"--temp-dir=" + base}, {"--partial-dir=.rsync-partial"}, {"--fsync"}, {"--backup"}, {"-v"}, {"--progress"}}
}

func shortName(s string) string {
	if len(s) > 40 {
		return s[:18] + fmt.Sprintf("…(%d bytes)", len(s))
	}
	return s
}
