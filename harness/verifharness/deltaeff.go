//go:build verif

package main

// deltaeff: efficiency oracle of C16 on the real sender — high-entropy files with a few local edits
// at arbitrary (unaligned) offsets must cost literal data bounded by the edited bytes plus a small
// multiple of the block length per cut point; an identical file costs none.

import (
	"fmt"

	"github.com/gokrazy/rsync/internal/rsynccommon"
)

func init() { suites["deltaeff"] = suiteDeltaEff }

func suiteDeltaEff(h *H) {
	n := h.n(12, 150)
	for i := 0; i < n; i++ {
		seed := int32(h.rng.Uint32())
		size := h.pick(8*1024, 70*1024, 256*1024+5, 600*1024, 1<<20+333)
		if h.thorough() && i%20 == 0 {
			size = 16 << 20
		}
		basis := h.bytes(size)
		sh0 := rsynccommon.SumSizesSqroot(int64(size))
		bl := int(sh0.BlockLength)
		if h.rng.Intn(3) == 0 {
			bl = h.pick(700, 704, 1024, 4096, 8192)
		}
		sh, sums := refSums(seed, basis, bl, 16)
		target := append([]byte{}, basis...)
		edited, cuts := 0, 0
		k := h.rng.Intn(7)
		if i%5 == 0 {
			k = 0
		}
		if i%4 == 1 && k == 0 {
			k = 1
		}
		desc := ""
		for e := 0; e < k; e++ {
			pos := h.rng.Intn(len(target) + 1)
			m := h.pick(1, 1, 3, 17, 100, 1000, 5000)
			if i%4 == 1 && e == 0 {
				// one long run of new data (longer than the block length plus the sender's 256 KiB flush unit), with
				// known data before and after it
				m = h.pick(270*1024, 300*1024+7, 700*1024)
			}
			kind := h.rng.Intn(6)
			if m > 100000 {
				kind = h.pick(0, 2, 3)
				pos = h.rng.Intn(len(target)/3 + 1)
			}
			switch kind {
			case 0: // insert
				target = append(target[:pos:pos], append(h.bytes(m), target[pos:]...)...)
				edited += m
				cuts += 2
				desc += fmt.Sprintf("ins%d@%d ", m, pos)
			case 1: // delete
				end := min(pos+m, len(target))
				target = append(target[:pos:pos], target[end:]...)
				cuts += 2
				desc += fmt.Sprintf("del%d@%d ", m, pos)
			case 2: // replace
				end := min(pos+m, len(target))
				copy(target[pos:end], h.bytes(end-pos))
				edited += end - pos
				cuts += 2
				desc += fmt.Sprintf("rep%d@%d ", end-pos, pos)
			case 3: // prepend
				target = append(h.bytes(m), target...)
				edited += m
				cuts += 1
				desc += fmt.Sprintf("pre%d ", m)
			case 4: // append
				target = append(target, h.bytes(m)...)
				edited += m
				cuts += 1
				desc += fmt.Sprintf("app%d ", m)
			case 5: // move a slice of existing data to another place (block permutation at byte granularity)
				end := min(pos+m*7, len(target))
				sl := append([]byte{}, target[pos:end]...)
				target = append(target[:pos:pos], target[end:]...)
				to := h.rng.Intn(len(target) + 1)
				target = append(target[:to:to], append(sl, target[to:]...)...)
				cuts += 4
				desc += fmt.Sprintf("mov%d@%d->%d ", len(sl), pos, to)
			}
		}
		res := runSender(seed, sh, sums, target)
		lits, refs := 0, 0
		for _, t := range res.toks {
			if t.lit != nil {
				lits += len(t.lit)
			} else {
				refs++
			}
		}
		bound := edited + 2*bl*(cuts+1)
		v := searchOracle(seed, sh, sums, target, res, basis)
		if v == "" && lits > bound {
			v = fmt.Sprintf("FAIL %d literal bytes for %d edited bytes and %d cut points at block length %d (bound %d)", lits, edited, cuts, bl, bound)
		}
		if v == "" && k == 0 && lits != 0 {
			v = fmt.Sprintf("FAIL identical file cost %d literal bytes", lits)
		}
		h.emit(fmt.Sprintf("!deltaeff seed=%d case=%d size=%d bl=%d edits=[%s] literal=%d refs=%d bound=%d", h.seed, i, size, bl, desc, lits, refs, bound), res.outcome, v, refs > 0)
		h.stat(fmt.Sprintf("deltaeff.edits=%d", k))
	}
}
