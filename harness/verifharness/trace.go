//go:build verif

package main

// trace: real client and server over an in-memory transport whose two directions have their own
// capacity — 0 (a rendezvous, like io.Pipe), 1, 17, 64 KiB, unbounded — and deliver reads in random
// chunk sizes, on trees that fill either direction (many tiny files, one huge literal, a huge
// checksum list). Both transfer directions. Oracle for C18: the session completes (a timeout is
// re-run alone with a tenfold deadline before it counts) and the destination equals the source.
//
// concurrent: 2..32 simultaneous pulls and uploads against one daemon over TCP, distinct and shared
// targets, varying GOMAXPROCS; every session's result equals the result of the same session run alone.
// (Built with -race in the thorough tier: a report of the race detector fails the case.)

import (
	"bytes"
	"context"
	"fmt"
	"io"
	"io/fs"
	"math/rand"
	"net"
	"os"
	"path/filepath"
	"runtime"
	"strings"
	"sync"
	"sync/atomic"
	"syscall"
	"testing/fstest"
	"time"

	"github.com/gokrazy/rsync/internal/maincmd"
	"github.com/gokrazy/rsync/internal/rsyncopts"
	"github.com/gokrazy/rsync/internal/rsyncos"
	"github.com/gokrazy/rsync/rsyncclient"
	"github.com/gokrazy/rsync/rsyncd"
)

func init() {
	suites["trace"] = suiteTrace
	suites["concurrent"] = suiteConcurrent
}

// capPipe is one direction of the transport: a FIFO of capacity cap bytes (cap < 0: unbounded;
// cap == 0: a write completes only while a reader takes its bytes).
type capPipe struct {
	mu     sync.Mutex
	cond   *sync.Cond
	buf    []byte
	cap    int
	closed bool
	rng    *rand.Rand
	// rendezvous
	taking int // bytes a blocked reader is ready to take (cap == 0)
}

func newCapPipe(cap int, seed int64) *capPipe {
	p := &capPipe{cap: cap, rng: rand.New(rand.NewSource(seed))}
	p.cond = sync.NewCond(&p.mu)
	return p
}

func (p *capPipe) Write(b []byte) (int, error) {
	p.mu.Lock()
	defer p.mu.Unlock()
	n := 0
	for len(b) > 0 {
		if p.closed {
			return n, io.ErrClosedPipe
		}
		room := 0
		switch {
		case p.cap < 0:
			room = len(b)
		case p.cap == 0:
			// hand over only what a waiting reader takes right now
			room = p.taking - len(p.buf)
		default:
			room = p.cap - len(p.buf)
		}
		if room <= 0 {
			p.cond.Wait()
			continue
		}
		if room > len(b) {
			room = len(b)
		}
		p.buf = append(p.buf, b[:room]...)
		b = b[room:]
		n += room
		p.cond.Broadcast()
		if p.cap == 0 {
			// wait until the reader has consumed it: a rendezvous write returns after the matching read
			for len(p.buf) > 0 && !p.closed {
				p.cond.Wait()
			}
		}
	}
	return n, nil
}

func (p *capPipe) Read(b []byte) (int, error) {
	if len(b) == 0 {
		return 0, nil
	}
	p.mu.Lock()
	defer p.mu.Unlock()
	// deliver a random part of what was asked for
	want := 1 + p.rng.Intn(len(b))
	if p.rng.Intn(4) == 0 {
		want = len(b)
	}
	for len(p.buf) == 0 {
		if p.closed {
			return 0, io.EOF
		}
		if p.cap == 0 {
			p.taking = want
			p.cond.Broadcast()
		}
		p.cond.Wait()
	}
	n := copy(b[:want], p.buf)
	p.buf = p.buf[n:]
	p.taking = 0
	p.cond.Broadcast()
	if p.rng.Intn(8) == 0 {
		runtime.Gosched()
	}
	return n, nil
}

func (p *capPipe) Close() error {
	p.mu.Lock()
	p.closed = true
	p.cond.Broadcast()
	p.mu.Unlock()
	return nil
}

type duplexRW struct {
	r io.Reader
	w io.Writer
}

func (d duplexRW) Read(b []byte) (int, error)  { return d.r.Read(b) }
func (d duplexRW) Write(b []byte) (int, error) { return d.w.Write(b) }

// runOverTransport runs one transfer (command mode: client ⇄ Server.HandleConnArgs) over a transport
// with the given capacities (c2s: client→server, s2c: server→client).
func runOverTransport(push bool, flags []string, src, dst string, c2s, s2c int, seed int64, deadline time.Duration) string {
	a := newCapPipe(c2s, seed)
	b := newCapPipe(s2c, seed+1)
	copts := []rsyncclient.Option{rsyncclient.DontRestrict(), rsyncclient.WithStderr(io.Discard)}
	if push {
		copts = append(copts, rsyncclient.WithSender())
	}
	cl, err := rsyncclient.New(flags, copts...)
	if err != nil {
		return "clienterr:" + err.Error()
	}
	srv, err := rsyncd.NewServer(nil, rsyncd.DontRestrict(), rsyncd.WithStderr(io.Discard))
	if err != nil {
		return "servererr:" + err.Error()
	}
	var sargs []string
	var cpaths []string
	if push {
		sargs = cl.ServerCommandOptions(dst)
		cpaths = []string{src + "/"}
	} else {
		sargs = cl.ServerCommandOptions(src + "/")
		cpaths = []string{dst}
	}
	done := make(chan string, 2)
	go func() {
		defer func() {
			if r := recover(); r != nil {
				done <- fmt.Sprintf("panic(server):%v", r)
			}
		}()
		err := srv.HandleConnArgs(context.Background(), rsyncd.NewConnection(a, b, "trace"), nil, sargs)
		b.Close()
		if err != nil {
			// an endpoint that gives up tears its connection down in both directions (a socket close, the
			// deferred Close calls around io.Pipe in local copies): the peer's pending write fails
			a.Close()
		}
		if err != nil {
			done <- "server-err:" + err.Error()
		} else {
			done <- "server-ok"
		}
	}()
	go func() {
		defer func() {
			if r := recover(); r != nil {
				done <- fmt.Sprintf("panic(client):%v", r)
			}
		}()
		_, err := cl.Run(context.Background(), duplexRW{b, a}, cpaths)
		a.Close()
		if err != nil {
			b.Close()
		}
		if err != nil {
			done <- "client-err:" + err.Error()
		} else {
			done <- "client-ok"
		}
	}()
	got := []string{}
	timeout := time.After(deadline)
	for len(got) < 2 {
		select {
		case s := <-done:
			got = append(got, s)
		case <-timeout:
			a.Close()
			b.Close()
			return "timeout after " + deadline.String() + " (finished so far: " + fmt.Sprint(got) + ")"
		}
	}
	if (got[0] == "server-ok" || got[0] == "client-ok") && (got[1] == "server-ok" || got[1] == "client-ok") {
		return "ok"
	}
	return got[0] + " / " + got[1]
}

// changingFS is a module whose files are being rewritten while the transfer runs: the first time such a
// file is opened it still has its old content, every later open sees the new one (same size, same mtime) —
// so what the sender reads for the delta and what it hashes for the whole-file checksum differ.
type changingFS struct {
	fstest.MapFS
	old   map[string][]byte
	mu    sync.Mutex
	opens map[string]int
}

func (c *changingFS) Open(name string) (fs.File, error) {
	if old, ok := c.old[name]; ok {
		c.mu.Lock()
		c.opens[name]++
		n := c.opens[name]
		c.mu.Unlock()
		if n == 1 {
			cur := c.MapFS[name]
			return fstest.MapFS{name: &fstest.MapFile{Data: old, Mode: cur.Mode, ModTime: cur.ModTime}}.Open(name)
		}
	}
	return c.MapFS.Open(name)
}

// unreadableFS: a module in which some files can be listed but not opened (permission denied), like a mode-000 file
// served by a daemon that does not run as root
type unreadableFS struct {
	fstest.MapFS
	deny map[string]bool
}

func (u *unreadableFS) Open(name string) (fs.File, error) {
	if u.deny[name] {
		return nil, &fs.PathError{Op: "open", Path: name, Err: fs.ErrPermission}
	}
	return u.MapFS.Open(name)
}

// faultyFS: a module whose files fail one Read with an I/O error (the k-th Read of every open of the file), as a
// flaky disk or network file system does
type faultyFS struct {
	fstest.MapFS
	failAt   map[string]int
	failOpen map[string]int // the n-th Open of the file fails
	mu       sync.Mutex
	opens    map[string]int
}

type faultyFile struct {
	fs.File
	n, failAt int
}

func (f *faultyFile) Read(p []byte) (int, error) {
	f.n++
	if f.n == f.failAt {
		return 0, &fs.PathError{Op: "read", Path: "faulty", Err: syscall.EIO}
	}
	return f.File.Read(p)
}

func (f *faultyFile) Seek(off int64, whence int) (int64, error) {
	if sk, ok := f.File.(io.Seeker); ok {
		return sk.Seek(off, whence)
	}
	return 0, fmt.Errorf("not seekable")
}

func (u *faultyFS) Open(name string) (fs.File, error) {
	if k, ok := u.failOpen[name]; ok {
		u.mu.Lock()
		if u.opens == nil {
			u.opens = map[string]int{}
		}
		u.opens[name]++
		n := u.opens[name]
		u.mu.Unlock()
		if n == k {
			return nil, &fs.PathError{Op: "open", Path: name, Err: syscall.EMFILE}
		}
	}
	f, err := u.MapFS.Open(name)
	if k, ok := u.failAt[name]; ok && err == nil {
		return &faultyFile{File: f, failAt: k}, nil
	}
	return f, err
}

// eagerFS: a module whose files report the end of the file together with the last bytes (`n > 0, io.EOF`), which
// io.Reader allows, and deliver at most `step` bytes per Read
type eagerFS struct {
	fstest.MapFS
	step int
}

type eagerFile struct {
	fs.File
	data []byte
	off  int
	step int
}

func (f *eagerFile) Read(p []byte) (int, error) {
	if f.off >= len(f.data) {
		return 0, io.EOF
	}
	n := len(p)
	if f.step > 0 && n > f.step {
		n = f.step
	}
	if n > len(f.data)-f.off {
		n = len(f.data) - f.off
	}
	copy(p, f.data[f.off:f.off+n])
	f.off += n
	if f.off == len(f.data) {
		return n, io.EOF
	}
	return n, nil
}

func (f *eagerFile) Seek(off int64, whence int) (int64, error) {
	switch whence {
	case io.SeekStart:
		f.off = int(off)
	case io.SeekCurrent:
		f.off += int(off)
	case io.SeekEnd:
		f.off = len(f.data) + int(off)
	}
	return int64(f.off), nil
}

func (u *eagerFS) Open(name string) (fs.File, error) {
	f, err := u.MapFS.Open(name)
	if err != nil {
		return nil, err
	}
	if mf, ok := u.MapFS[name]; ok && mf.Mode.IsRegular() {
		return &eagerFile{File: f, data: mf.Data, step: u.step}, nil
	}
	return f, nil
}

// runModuleOverTransport: a pull from an in-process server that serves the given module (fs.FS backed).
func runModuleOverTransport(mod *rsyncd.Module, flags []string, dst string, c2s, s2c int, seed int64, deadline time.Duration) string {
	a := newCapPipe(c2s, seed)
	b := newCapPipe(s2c, seed+1)
	cl, err := rsyncclient.New(flags, rsyncclient.DontRestrict(), rsyncclient.WithStderr(io.Discard))
	if err != nil {
		return "clienterr:" + err.Error()
	}
	srv, err := rsyncd.NewServer([]rsyncd.Module{*mod}, rsyncd.DontRestrict(), rsyncd.WithStderr(io.Discard))
	if err != nil {
		return "servererr:" + err.Error()
	}
	osenv := &rsyncos.Env{Stderr: io.Discard}
	pc := rsyncopts.NewContext(rsyncopts.NewOptionsWithGokrazyDefaults(osenv))
	if err := pc.ParseArguments(osenv, cl.ServerCommandOptions("./")); err != nil {
		return "servererr:" + err.Error()
	}
	done := make(chan string, 2)
	go func() {
		defer func() {
			if r := recover(); r != nil {
				done <- fmt.Sprintf("panic(server):%v", r)
			}
		}()
		err := srv.InternalHandleConn(context.Background(), rsyncd.NewConnection(a, b, "trace"), mod, pc)
		b.Close()
		if err != nil {
			a.Close()
			done <- "server-err:" + err.Error()
		} else {
			done <- "server-ok"
		}
	}()
	go func() {
		defer func() {
			if r := recover(); r != nil {
				done <- fmt.Sprintf("panic(client):%v", r)
			}
		}()
		_, err := cl.Run(context.Background(), duplexRW{b, a}, []string{dst + "/"})
		a.Close()
		if err != nil {
			b.Close()
			done <- "client-err:" + err.Error()
		} else {
			done <- "client-ok"
		}
	}()
	got := []string{}
	timeout := time.After(deadline)
	for len(got) < 2 {
		select {
		case s := <-done:
			got = append(got, s)
		case <-timeout:
			a.Close()
			b.Close()
			return "timeout after " + deadline.String() + " (finished so far: " + fmt.Sprint(got) + ")"
		}
	}
	if strings.HasSuffix(got[0], "-ok") && strings.HasSuffix(got[1], "-ok") {
		return "ok"
	}
	return got[0] + " / " + got[1]
}

func traceTree(h *H, kind string, dir string) sTree {
	t := sTree{}
	T := int64(1400000000)
	switch kind {
	case "tiny":
		for i := 0; i < h.n(120, 400); i++ {
			t[fmt.Sprintf("d%d/f%03d", i%7, i)] = sNode{kind: 'f', content: h.bytes(h.rng.Intn(40)), perm: 0o644, mtime: T + int64(i)}
		}
		for i := 0; i < 7; i++ {
			t[fmt.Sprintf("d%d", i)] = sNode{kind: 'd', perm: 0o755, mtime: T}
		}
	case "literal":
		t["big"] = sNode{kind: 'f', content: h.bytes(h.n(1<<20, 3<<20) + 17), perm: 0o644, mtime: T}
		t["small"] = sNode{kind: 'f', content: []byte("x"), perm: 0o600, mtime: T}
	case "sums":
		// an existing large destination file, slightly edited: a long checksum list travels one way, few literals the other
		t["bigdelta"] = sNode{kind: 'f', content: h.bytes(h.n(6<<20, 40<<20) + 3), perm: 0o644, mtime: T}
		t["a"] = sNode{kind: 'f', content: h.bytes(900), perm: 0o644, mtime: T}
		t["z"] = sNode{kind: 'f', content: h.bytes(70000), perm: 0o644, mtime: T}
	case "unrelated":
		// large files over unrelated (or mostly rewritten) previous content: a checksum list is sent, almost nothing
		// matches, the sender's unmatched run is far longer than its 256 KiB read window
		t["u1"] = sNode{kind: 'f', content: h.bytes(600*1024 + 11), perm: 0o644, mtime: T}
		t["u2"] = sNode{kind: 'f', content: h.bytes(1500*1024 + 3), perm: 0o644, mtime: T}
		t["u3"] = sNode{kind: 'f', content: h.bytes(300 * 1024), perm: 0o644, mtime: T}
	case "longlinks":
		// a file list that is large because of its link targets: several hundred KiB of list, entries of several KiB
		// (entries near the largest an entry can be — a deep path plus a long target — in varied sizes, so that
		// whatever unit the sender writes the list in is filled to every residue)
		deep := ""
		for d := 0; d < 9; d++ {
			deep += strings.Repeat(string(rune('a'+d)), 200+h.rng.Intn(40)) + "/"
			t[strings.TrimSuffix(deep, "/")] = sNode{kind: 'd', perm: 0o755, mtime: T}
		}
		for i := 0; i < 160; i++ {
			t[fmt.Sprintf("%sl%03d", deep, i)] = sNode{kind: 'l', target: strings.Repeat("t", 3500+h.rng.Intn(590)) + fmt.Sprint(i)}
		}
		t["plain"] = sNode{kind: 'f', content: h.bytes(1000), perm: 0o644, mtime: T}
	case "mixed":
		for i := 0; i < 60; i++ {
			t[fmt.Sprintf("m%02d", i)] = sNode{kind: 'f', content: h.bytes(h.pick(0, 1, 699, 700, 701, 5000)), perm: 0o644, mtime: T}
		}
		t["mbig"] = sNode{kind: 'f', content: h.bytes(1<<20 + 5), perm: 0o644, mtime: T}
	}
	return t
}

func suiteTrace(h *H) {
	os.Stderr = devNull
	base, err := os.MkdirTemp("", "verif-trace")
	if err != nil {
		panic(err)
	}
	defer os.RemoveAll(base)
	caps := []int{0, 1, 17, 64 * 1024, -1}
	caseNo := 0
	for _, kind := range []string{"tiny", "literal", "sums", "mixed", "unrelated", "longlinks"} {
		src := traceTree(h, kind, "")
		// the prior destination: edited copies (so that checksum lists and delta data flow) — no -p in half of the runs
		dstTree := sTree{}
		for _, p := range src.keys() {
			n := src[p]
			if kind == "unrelated" {
				m := n
				m.mtime = n.mtime - 100
				switch p {
				case "u1":
					m.content = h.bytes(650 * 1024) // nothing in common
				case "u2":
					m.content = append(h.bytes(400*1024), n.content[400*1024:]...) // rewritten head, common tail
				default:
					m.content = append(append([]byte{}, n.content[:1000]...), h.bytes(290*1024)...)
				}
				dstTree[p] = m
				continue
			}
			if n.kind == 'f' && len(n.content) > 0 && h.rng.Intn(3) > 0 {
				m := n
				m.content = append([]byte{}, n.content...)
				m.content[len(m.content)/2] ^= 0x55
				if len(m.content) > 5000 {
					m.content = append(m.content[:4000], m.content[4100:]...)
				}
				m.mtime = n.mtime - 100
				m.perm = 0o640
				dstTree[p] = m
			}
		}
		for p := range dstTree {
			if d := filepath.Dir(p); d != "." {
				dstTree[d] = sNode{kind: 'd', perm: 0o755, mtime: 1400000000}
			}
		}
		type pair struct{ c2s, s2c int }
		var pairs []pair
		if h.thorough() {
			for _, a := range caps {
				for _, b := range caps {
					pairs = append(pairs, pair{a, b})
				}
			}
		} else {
			pairs = []pair{{0, 0}, {0, -1}, {-1, 0}, {1, 17}, {64 * 1024, 1}}
			pairs = append(pairs, pair{caps[h.rng.Intn(5)], caps[h.rng.Intn(5)]})
		}
		for _, pr := range pairs {
			for _, push := range []bool{false, true} {
				for _, flags := range [][]string{{"-rt"}, {"-a"}} {
					if !h.thorough() && ((flags[0] == "-a") == ((pr.c2s+pr.s2c)%2 == 0)) && kind != "tiny" {
						continue
					}
					caseNo++
					dir := filepath.Join(base, fmt.Sprintf("c%d", caseNo))
					srcRoot, dstRoot := filepath.Join(dir, "src"), filepath.Join(dir, "dst")
					os.MkdirAll(srcRoot, 0o755)
					os.MkdirAll(dstRoot, 0o755)
					src.write(srcRoot)
					dstTree.write(dstRoot)
					deadline := 90 * time.Second
					out := runOverTransport(push, flags, srcRoot, dstRoot, pr.c2s, pr.s2c, h.seed*1000+int64(caseNo), deadline)
					if len(out) > 7 && out[:7] == "timeout" {
						// load on the machine must not raise an alarm: once more, alone, with ten times the deadline
						os.RemoveAll(dstRoot)
						os.MkdirAll(dstRoot, 0o755)
						dstTree.write(dstRoot)
						out = runOverTransport(push, flags, srcRoot, dstRoot, pr.c2s, pr.s2c, h.seed*1000+int64(caseNo), 10*deadline)
					}
					v := ""
					switch {
					case len(out) > 7 && out[:7] == "timeout":
						v = fmt.Sprintf("FAIL[C18] transfer did not complete with transport capacities client→server=%d server→client=%d: %s", pr.c2s, pr.s2c, out)
					case len(out) > 5 && out[:5] == "panic":
						v = "FAIL[C08] " + out
					case out != "ok":
						v = "FAIL[C18] transfer failed over a buffering transport: " + out
						if strings.Contains(out, "max message size") {
							v += " || FAIL[C17] a frame the peer sent exceeds the size the reader accepts"
						}
					default:
						after := snapshot(dstRoot)
						for p, n := range src {
							if n.kind == 'f' {
								if g, ok := after[p]; !ok || !bytes.Equal(g.content, n.content) {
									v = fmt.Sprintf("FAIL[C01] %q differs from the source after a transfer over capacities (%d,%d)", p, pr.c2s, pr.s2c)
								}
							}
						}
					}
					dirn := "pull"
					if push {
						dirn = "push"
					}
					h.emit(fmt.Sprintf("!trace seed=%d tree=%s %s flags=%v c2s=%d s2c=%d", h.seed, kind, dirn, flags, pr.c2s, pr.s2c), out, v, out == "ok")
					h.out.Flush()
					h.stat(fmt.Sprintf("trace.%s.%s", kind, dirn))
					os.RemoveAll(dir)
				}
			}
		}
	}
	// ---- a session that fails in the middle: the receiving side cannot create one of the files (its name
	// leaves no room for a temporary name beside it) while the sending side is busy writing that file's
	// data. The session must end (with an error) whatever the transport buffers — also over rendezvous
	// pipes, which is how local copies run (clientmaincmd.go: io.Pipe between client and in-process server).
	{
		dir := filepath.Join(base, "failing")
		src := filepath.Join(dir, "src")
		os.MkdirAll(src, 0o755)
		os.WriteFile(filepath.Join(src, "a"), h.bytes(2000), 0o644)
		os.WriteFile(filepath.Join(src, strings.Repeat("L", 250)), h.bytes(300*1024), 0o644)
		os.WriteFile(filepath.Join(src, "z"), h.bytes(3000), 0o644)
		n := 0
		judge := func(name, out string) {
			v := ""
			switch {
			case strings.HasPrefix(out, "timeout"):
				v = "FAIL[C18] a session whose receiving side fails in the middle of a file never ends: " + out
			case out == "ok":
				v = "FAIL[C01] a session in which a file could not be created reported success"
			}
			h.emit(fmt.Sprintf("!trace-fail seed=%d %s", h.seed, name), strings.SplitN(out, ":", 2)[0], v, true)
			h.out.Flush()
			h.stat("trace.failing-receiver")
		}
		for _, push := range []bool{true, false} {
			for _, pr := range [][2]int{{0, 0}, {0, 64 * 1024}, {64 * 1024, 0}, {17, 17}, {-1, -1}} {
				n++
				dst := filepath.Join(dir, fmt.Sprintf("dst%d", n))
				os.MkdirAll(dst, 0o755)
				out := runOverTransport(push, []string{"-rt"}, src, dst, pr[0], pr[1], int64(h.seed)+int64(n), 20*time.Second)
				if strings.HasPrefix(out, "timeout") {
					out = runOverTransport(push, []string{"-rt"}, src, dst, pr[0], pr[1], int64(h.seed)+int64(n), 120*time.Second)
				}
				judge(fmt.Sprintf("push=%v c2s=%d s2c=%d", push, pr[0], pr[1]), out)
			}
		}
		// the real local copy (CLI entry point; the server runs in-process behind io.Pipe)
		dst := filepath.Join(dir, "dst-local")
		os.MkdirAll(dst, 0o755)
		done := make(chan string, 1)
		go func() {
			_, err := maincmd.Main(context.Background(), quietEnv(), []string{"rsync", "-rt", src + "/", dst + "/"}, nil)
			if err != nil {
				done <- "err:" + err.Error()
			} else {
				done <- "ok"
			}
		}()
		out := ""
		select {
		case out = <-done:
		case <-time.After(60 * time.Second):
			out = "timeout after 1m0s (local copy: client and in-process server both blocked)"
		}
		judge("local-copy", out)
		os.RemoveAll(dir)
	}
	// ---- a source file that can be listed but not opened when it is its turn: whatever the session reports, it must
	// not report success with that file missing or stale at the destination (C01)
	{
		dir := filepath.Join(base, "unreadable")
		T := time.Unix(1400000000, 0)
		for n, pr := range [][2]int{{0, 0}, {64 * 1024, 64 * 1024}, {-1, -1}} {
			memfs := fstest.MapFS{}
			for _, name := range []string{"a-ok", "b-unreadable", "c-ok"} {
				memfs[name] = &fstest.MapFile{Data: bytes.Repeat([]byte(name), 300), Mode: 0o644, ModTime: T}
			}
			mod := &rsyncd.Module{Name: "memfs", FS: &unreadableFS{MapFS: memfs, deny: map[string]bool{"b-unreadable": true}}}
			dst := filepath.Join(dir, fmt.Sprintf("dst%d", n))
			os.MkdirAll(dst, 0o755)
			os.WriteFile(filepath.Join(dst, "b-unreadable"), []byte("stale content"), 0o644)
			out := runModuleOverTransport(mod, []string{"-a"}, dst, pr[0], pr[1], int64(h.seed)+int64(n), 30*time.Second)
			v := ""
			switch {
			case strings.HasPrefix(out, "timeout"):
				v = "FAIL[C18] a session with a source file that cannot be opened never ends: " + out
			case strings.HasPrefix(out, "panic"):
				v = "FAIL[C08] " + out
			case out == "ok":
				if b, err := os.ReadFile(filepath.Join(dst, "b-unreadable")); err != nil || !bytes.Equal(b, memfs["b-unreadable"].Data) {
					v = "FAIL[C01] the session reported success although a listed source file could not be opened by the sender: the destination keeps its stale copy (the sender skips the file without telling the receiver)"
				}
			}
			h.emit(fmt.Sprintf("!trace-unreadable seed=%d c2s=%d s2c=%d", h.seed, pr[0], pr[1]), strings.SplitN(out, ":", 2)[0], v, true)
			h.stat("trace.unreadable")
		}
		// many such files in one session (every request that gets no answer must not use up anything): it ends all the same
		for n, count := range []int{63, 64, 65, 100, 300} {
			memfs := fstest.MapFS{}
			deny := map[string]bool{}
			for i := 0; i < count; i++ {
				name := fmt.Sprintf("b-unreadable-%03d", i)
				memfs[name] = &fstest.MapFile{Data: bytes.Repeat([]byte{'u'}, 300+i), Mode: 0o644, ModTime: T}
				deny[name] = true
			}
			for _, name := range []string{"a-ok", "z-ok", "zz-ok"} {
				memfs[name] = &fstest.MapFile{Data: bytes.Repeat([]byte(name), 300), Mode: 0o644, ModTime: T}
			}
			mod := &rsyncd.Module{Name: "memfs", FS: &unreadableFS{MapFS: memfs, deny: deny}}
			dst := filepath.Join(dir, fmt.Sprintf("dstmany%d", n))
			os.MkdirAll(dst, 0o755)
			out := runModuleOverTransport(mod, []string{"-a"}, dst, 64*1024, 64*1024, int64(h.seed)+int64(n), 20*time.Second)
			v := ""
			switch {
			case strings.HasPrefix(out, "timeout"):
				v = fmt.Sprintf("FAIL[C18] a session with %d source files that cannot be opened never ends: %s", count, out)
			case strings.HasPrefix(out, "panic"):
				v = "FAIL[C08] " + out
			case out == "ok":
				v = "FAIL[C01] the session reported success although listed source files could not be opened by the sender"
			default:
				if b, err := os.ReadFile(filepath.Join(dst, "zz-ok")); err != nil || !bytes.Equal(b, memfs["zz-ok"].Data) {
					v = fmt.Sprintf("FAIL[C01] with %d unreadable source files before it, a readable file was not transferred", count)
				}
			}
			h.emit(fmt.Sprintf("!trace-unreadable-many seed=%d count=%d", h.seed, count), strings.SplitN(out, ":", 2)[0], v, true)
			h.stat("trace.unreadable-many")
			if strings.HasPrefix(out, "timeout") {
				break
			}
		}
		os.RemoveAll(dir)
	}
	// ---- a source file one of whose reads fails with an I/O error, on the whole-file path (no previous copy) and on the
	// delta path (a stale copy exists): a session that reports success has delivered the source's bytes
	{
		dir := filepath.Join(base, "readfault")
		T := time.Unix(1400000000, 0)
		n := 0
		content := h.bytes(1<<20 + 77)
		for _, failAt := range []int{1, 2, 3, 4, 5} {
			for _, stale := range []bool{false, true} {
				n++
				memfs := fstest.MapFS{"big": &fstest.MapFile{Data: content, Mode: 0o644, ModTime: T}, "small": &fstest.MapFile{Data: []byte("small"), Mode: 0o644, ModTime: T}}
				mod := &rsyncd.Module{Name: "memfs", FS: &faultyFS{MapFS: memfs, failAt: map[string]int{"big": failAt}}}
				dst := filepath.Join(dir, fmt.Sprintf("dst%d", n))
				os.MkdirAll(dst, 0o755)
				if stale {
					old := append([]byte{}, content[:600*1024]...)
					old[1000] ^= 0x55
					os.WriteFile(filepath.Join(dst, "big"), old, 0o644)
				}
				out := runModuleOverTransport(mod, []string{"-a"}, dst, 64*1024, 64*1024, int64(h.seed)+int64(n), 30*time.Second)
				v := ""
				switch {
				case strings.HasPrefix(out, "timeout"):
					v = "FAIL[C18] a session with a failing read of a source file never ends: " + out
				case strings.HasPrefix(out, "panic"):
					v = "FAIL[C08] " + out
				case out == "ok":
					if b, err := os.ReadFile(filepath.Join(dst, "big")); err != nil || !bytes.Equal(b, content) {
						v = fmt.Sprintf("FAIL[C01] read %d of the source file failed with an I/O error, the session reported success, and the destination does not hold the source's bytes", failAt)
					}
				}
				h.emit(fmt.Sprintf("!trace-readfault seed=%d failing-read=%d stale-copy=%v", h.seed, failAt, stale), strings.SplitN(out, ":", 2)[0], v, true)
				h.stat("trace.readfault")
			}
		}
		os.RemoveAll(dir)
	}
	// ---- a source whose reads report the end of the file together with the last bytes (io.Reader allows it): whole-file
	// and delta path, several read sizes; the transfer succeeds and delivers the source's bytes
	{
		dir := filepath.Join(base, "eagereof")
		T := time.Unix(1400000000, 0)
		n := 0
		for _, size := range []int{5, 700, 300 * 1024, 1<<20 + 77} {
			for _, step := range []int{0, 1000, 256 * 1024} {
				for _, stale := range []bool{false, true} {
					if step == 1000 && size > 300*1024 && !h.thorough() {
						continue
					}
					n++
					content := h.bytes(size)
					memfs := fstest.MapFS{"big": &fstest.MapFile{Data: content, Mode: 0o644, ModTime: T}, "small": &fstest.MapFile{Data: []byte("small"), Mode: 0o644, ModTime: T}}
					mod := &rsyncd.Module{Name: "memfs", FS: &eagerFS{MapFS: memfs, step: step}}
					dst := filepath.Join(dir, fmt.Sprintf("dst%d", n))
					os.MkdirAll(dst, 0o755)
					if stale {
						old := append([]byte{}, content[:size*2/3]...)
						if len(old) > 3 {
							old[2] ^= 0x55
						}
						os.WriteFile(filepath.Join(dst, "big"), old, 0o644)
					}
					out := runModuleOverTransport(mod, []string{"-a"}, dst, 64*1024, 64*1024, int64(h.seed)+int64(n), 30*time.Second)
					v := ""
					switch {
					case strings.HasPrefix(out, "timeout"):
						v = "FAIL[C18] a session whose source reports the end of file with the last bytes never ends: " + out
					case strings.HasPrefix(out, "panic"):
						v = "FAIL[C08] " + out
					case out != "ok":
						v = "FAIL[C01] a source whose Read returns the last bytes together with io.EOF cannot be transferred: " + strings.SplitN(out, "\n", 2)[0]
					default:
						if b, err := os.ReadFile(filepath.Join(dst, "big")); err != nil || !bytes.Equal(b, content) {
							v = "FAIL[C01] a source whose Read returns the last bytes together with io.EOF: success was reported and the destination does not hold the source's bytes"
						}
					}
					h.emit(fmt.Sprintf("!trace-eagereof seed=%d size=%d step=%d stale-copy=%v", h.seed, size, step, stale), strings.SplitN(out, ":", 2)[0], v, true)
					h.stat("trace.eagereof")
				}
			}
		}
		os.RemoveAll(dir)
	}
	// ---- files that change while they are sent: what the receiver reconstructs does not verify. However many
	// files that concerns, and whatever the transport buffers, the session ends — with an error, or with
	// success if the files are requested again and then arrive intact.
	{
		dir := filepath.Join(base, "changing")
		n := 0
		counts := []int{1, 7, 31, 33, 34, 35, 40, 64, 65, 130}
		if !h.thorough() {
			counts = []int{1, 33, 36, 70}
		}
		for _, changing := range counts {
			for _, pr := range [][2]int{{0, 0}, {17, 0}, {64 * 1024, 64 * 1024}, {-1, -1}} {
				if !h.thorough() && pr[0] == 17 && changing != 36 {
					continue
				}
				n++
				T := time.Unix(1400000000, 0)
				memfs := fstest.MapFS{}
				old := map[string][]byte{}
				for i := 0; i < changing; i++ {
					name := fmt.Sprintf("a-changing-%03d", i)
					memfs[name] = &fstest.MapFile{Data: bytes.Repeat([]byte{'N'}, 3000+i), Mode: 0o644, ModTime: T}
					old[name] = bytes.Repeat([]byte{'o'}, 3000+i)
				}
				for i := 0; i < 10; i++ {
					memfs[fmt.Sprintf("z-stable-%03d", i)] = &fstest.MapFile{Data: bytes.Repeat([]byte{'s'}, 5000+i), Mode: 0o644, ModTime: T}
				}
				mod := &rsyncd.Module{Name: "memfs", FS: &changingFS{MapFS: memfs, old: old, opens: map[string]int{}}}
				dst := filepath.Join(dir, fmt.Sprintf("dst%d", n))
				os.MkdirAll(dst, 0o755)
				out := runModuleOverTransport(mod, []string{"-a"}, dst, pr[0], pr[1], int64(h.seed)+int64(n), 20*time.Second)
				if strings.HasPrefix(out, "timeout") {
					mod.FS.(*changingFS).opens = map[string]int{}
					os.RemoveAll(dst)
					os.MkdirAll(dst, 0o755)
					out = runModuleOverTransport(mod, []string{"-a"}, dst, pr[0], pr[1], int64(h.seed)+int64(n), 120*time.Second)
				}
				v := ""
				switch {
				case strings.HasPrefix(out, "timeout"):
					v = fmt.Sprintf("FAIL[C18] a session in which %d files fail verification never ends: %s", changing, out)
				case strings.HasPrefix(out, "panic"):
					v = "FAIL[C08] " + out
				case out == "ok":
					// reported success: then every file must have its current content
					after := snapshot(dst)
					for name, f := range memfs {
						if g, ok := after[name]; !ok || !bytes.Equal(g.content, f.Data) {
							v = fmt.Sprintf("FAIL[C01] %q does not have the source's content although the session reported success", name)
							break
						}
					}
				}
				h.emit(fmt.Sprintf("!trace-changing seed=%d files=%d c2s=%d s2c=%d", h.seed, changing, pr[0], pr[1]), strings.SplitN(out, ":", 2)[0], v, true)
				h.out.Flush()
				h.stat("trace.changing-files")
				os.RemoveAll(dst)
			}
		}
		os.RemoveAll(dir)
	}
	// (last in this suite: what such sessions leave behind in the process must not spoil the cases above)
	// ---- many sessions in which a source file cannot be opened a second time (the sender reads a file through two
	// opens), then a healthy one: whatever the earlier sessions left behind in the process, the healthy one completes
	{
		dir := filepath.Join(base, "reopen")
		T := time.Unix(1400000000, 0)
		bad := 0
		for i := 0; i < 40; i++ {
			memfs := fstest.MapFS{"f": &fstest.MapFile{Data: bytes.Repeat([]byte{byte(i)}, 5000), Mode: 0o644, ModTime: T}}
			mod := &rsyncd.Module{Name: "memfs", FS: &faultyFS{MapFS: memfs, failOpen: map[string]int{"f": 2}}}
			dst := filepath.Join(dir, fmt.Sprintf("d%d", i))
			os.MkdirAll(dst, 0o755)
			out := runModuleOverTransport(mod, []string{"-a"}, dst, 64*1024, 64*1024, int64(h.seed)+int64(i), 20*time.Second)
			os.RemoveAll(dst)
			if strings.HasPrefix(out, "timeout") {
				bad++
				if bad >= 2 {
					break // they all would: no need to wait for forty deadlines
				}
			}
		}
		memfs := fstest.MapFS{"f": &fstest.MapFile{Data: bytes.Repeat([]byte("ok"), 4000), Mode: 0o644, ModTime: T}}
		dst := filepath.Join(dir, "healthy")
		os.MkdirAll(dst, 0o755)
		out := runModuleOverTransport(&rsyncd.Module{Name: "memfs", FS: memfs}, []string{"-a"}, dst, 64*1024, 64*1024, int64(h.seed), 30*time.Second)
		v := ""
		if bad > 0 {
			v = "FAIL[C18] a session whose source file could not be opened a second time (after its data had been sent) never ends"
		} else if out != "ok" {
			v = "FAIL[C18] after 40 sessions with a source file that could not be opened a second time, a healthy session does not complete: " + out
		}
		h.emit(fmt.Sprintf("!trace-reopen seed=%d", h.seed), strings.SplitN(out, ":", 2)[0], v, true)
		h.stat("trace.reopen")
		os.RemoveAll(dir)
	}
}

func suiteConcurrent(h *H) {
	os.Stderr = devNull
	base, err := os.MkdirTemp("", "verif-conc")
	if err != nil {
		panic(err)
	}
	defer os.RemoveAll(base)
	defer runtime.GOMAXPROCS(runtime.GOMAXPROCS(0))
	rounds := h.n(3, 12)
	for round := 0; round < rounds; round++ {
		procs := []int{1, 2, 4, 16}[round%4]
		runtime.GOMAXPROCS(procs)
		n := []int{2, 8, 32, 5}[round%4]
		if !h.thorough() && n > 8 {
			n = 8
		}
		rdir := filepath.Join(base, fmt.Sprintf("r%d", round))
		modSrc := filepath.Join(rdir, "modsrc")
		modUp := filepath.Join(rdir, "modup")
		os.MkdirAll(modSrc, 0o755)
		os.MkdirAll(modUp, 0o755)
		// the served tree
		served := sTree{}
		for i := 0; i < 25; i++ {
			served[fmt.Sprintf("s/f%02d", i)] = sNode{kind: 'f', content: h.bytes(h.pick(0, 10, 700, 9000, 200000)), perm: 0o644, mtime: 1400000000 + int64(i)}
		}
		served["s"] = sNode{kind: 'd', perm: 0o755, mtime: 1400000000}
		// one large file (it sorts first): sessions that break off in the middle of it run next to the others
		served["s/0big"] = sNode{kind: 'f', content: h.bytes(6 << 20), perm: 0o644, mtime: 1400000500}
		served.write(modSrc)
		// per-uploader source trees; uploaders k and k+n/2 share a target directory (identical content) when shared
		d, err := startDaemon([]rsyncd.Module{{Name: "src", Path: modSrc}, {Name: "up", Path: modUp, Writable: true}})
		if err != nil {
			panic(err)
		}
		type job struct {
			name string
			args []string
			dst  string // directory to compare
			want sTree
		}
		var jobs []job
		for k := 0; k < n; k++ {
			// pulls into distinct local directories
			pd := filepath.Join(rdir, fmt.Sprintf("pull%d", k))
			os.MkdirAll(pd, 0o755)
			jobs = append(jobs, job{fmt.Sprintf("pull%d", k), []string{"rsync", "-rt", d.url("src", "s/"), pd}, pd, nil})
			// uploads: half to distinct targets, half to shared targets with identical content
			us := filepath.Join(rdir, fmt.Sprintf("usrc%d", k))
			ut := sTree{}
			tag := k
			target := fmt.Sprintf("t%d", k)
			if k%2 == 1 {
				tag = 1000 // identical content
				target = "shared"
			}
			r2 := rand.New(rand.NewSource(int64(tag)))
			for i := 0; i < 12; i++ {
				c := make([]byte, []int{0, 5, 701, 30000}[i%4])
				r2.Read(c)
				ut[fmt.Sprintf("u%02d", i)] = sNode{kind: 'f', content: c, perm: 0o644, mtime: 1400000100 + int64(i)}
			}
			os.MkdirAll(us, 0o755)
			ut.write(us)
			jobs = append(jobs, job{fmt.Sprintf("up%d", k), []string{"rsync", "-rt", us + "/", d.url("up", target+"/")}, filepath.Join(modUp, target), ut})
		}
		// sessions that are broken off by their client in the middle of the large file (a dropped
		// connection, ^C): they must not influence what the others get (C18: "each produce the result they
		// would produce alone"). Raw daemon protocol: request file 1 ("0big") in full, read a little, hang up.
		stopAbort := make(chan struct{})
		var abortWg sync.WaitGroup
		aborted := int32(0)
		for a := 0; a < 3; a++ {
			abortWg.Add(1)
			go func(a int) {
				defer abortWg.Done()
				for it := 0; ; it++ {
					select {
					case <-stopAbort:
						return
					default:
					}
					c, err := net.DialTimeout("tcp", d.ln.Addr().String(), 2*time.Second)
					if err != nil {
						return
					}
					c.SetDeadline(time.Now().Add(5 * time.Second))
					var req bytes.Buffer
					req.WriteString("@RSYNCD: 27\nsrc\n--server\n--sender\n-rt\n.\nsrc/s/\n\n")
					wI32(&req, 0) // empty filter list
					wI32(&req, 1) // file index 1
					for _, v := range []int32{0, 700, 2, 0} {
						wI32(&req, v) // no basis: send the whole file
					}
					c.Write(req.Bytes())
					// read until some of the file's data has arrived, then drop the connection
					buf := make([]byte, 32*1024)
					got := 0
					for got < (96+32*a)*1024 {
						n, err := c.Read(buf)
						got += n
						if err != nil {
							break
						}
					}
					c.Close()
					atomic.AddInt32(&aborted, 1)
					time.Sleep(time.Duration(1+it%3) * time.Millisecond)
				}
			}(a)
		}
		var wg sync.WaitGroup
		outs := make([]string, len(jobs))
		for i := range jobs {
			wg.Add(1)
			go func(i int) {
				defer wg.Done()
				done := make(chan string, 1)
				go func() {
					defer func() {
						if r := recover(); r != nil {
							done <- fmt.Sprintf("panic:%v", r)
						}
					}()
					_, err := maincmd.Main(context.Background(), quietEnv(), jobs[i].args, nil)
					if err != nil {
						done <- "err:" + err.Error()
					} else {
						done <- "ok"
					}
				}()
				select {
				case o := <-done:
					outs[i] = o
				case <-time.After(600 * time.Second):
					outs[i] = "timeout"
				}
			}(i)
		}
		wg.Wait()
		close(stopAbort)
		abortWg.Wait()
		h.stats["concurrent.aborted-sessions"] += int(atomic.LoadInt32(&aborted))
		d.stop()
		wantPull := sTree{}
		for p, nd := range served {
			if p != "s" {
				wantPull[p[2:]] = nd
			}
		}
		for i, j := range jobs {
			v := ""
			want := j.want
			if want == nil {
				want = wantPull
			}
			switch {
			case outs[i] == "timeout":
				v = fmt.Sprintf("FAIL[C18] session %s of %d concurrent sessions did not complete", j.name, len(jobs))
			case outs[i] != "ok":
				v = fmt.Sprintf("FAIL[C18] session %s failed while %d sessions ran concurrently: %s", j.name, len(jobs), outs[i])
			default:
				got := snapshot(j.dst)
				for p, nd := range want {
					if g, ok := got[p]; !ok || !bytes.Equal(g.content, nd.content) || g.mtime != nd.mtime {
						v = fmt.Sprintf("FAIL[C18] session %s: %q is not what the session produces alone (%d concurrent sessions, GOMAXPROCS=%d)", j.name, p, len(jobs), procs)
						break
					}
				}
				for p := range got {
					if _, ok := want[p]; !ok && v == "" {
						v = fmt.Sprintf("FAIL[C04] session %s: stray entry %q left behind", j.name, p)
					}
				}
			}
			h.emit(fmt.Sprintf("!concurrent seed=%d round=%d procs=%d sessions=%d %s", h.seed, round, procs, len(jobs), j.name), outs[i], v, outs[i] == "ok")
			h.stat("concurrent." + j.name[:2])
		}
		os.RemoveAll(rdir)
	}
}
