//go:build verif

package main

import (
	"bufio"
	"bytes"
	"encoding/binary"
	"fmt"
	"io"
	"strconv"
	"strings"

	"github.com/gokrazy/rsync/internal/rsyncos"
	"github.com/gokrazy/rsync/internal/rsyncwire"
)

func init() {
	suites["mux"] = suiteMux
}

type frame struct {
	tag     uint8
	payload []byte
}

func encFrameRef(f frame) []byte {
	// reference encoding written from the protocol description, not from wire.go
	var hdr [4]byte
	binary.LittleEndian.PutUint32(hdr[:], uint32(7+uint32(f.tag))<<24|uint32(len(f.payload)))
	return append(hdr[:], f.payload...)
}

// implMuxRead runs the real reader stack on a raw stream.
func implMuxRead(bufsz int, reads []int, stream []byte) (string, [][]byte, string) {
	env := &rsyncos.Env{Stderr: io.Discard}
	mrd := &rsyncwire.MultiplexReader{Env: env, Reader: bytes.NewReader(stream)}
	rd := bufio.NewReaderSize(mrd, bufsz)
	crd := &rsyncwire.CountingReader{R: rd}
	var outs []string
	var got [][]byte
	last := "ok"
	for _, k := range reads {
		buf := make([]byte, k)
		res := func() (res string) {
			defer func() {
				if r := recover(); r != nil {
					res = "panic"
				}
			}()
			_, err := io.ReadFull(crd, buf)
			if err == nil {
				return "ok:" + hx(buf)
			}
			return classifyMuxErr(err)
		}()
		outs = append(outs, res)
		if !strings.HasPrefix(res, "ok:") {
			last = res
			break
		}
		got = append(got, buf)
	}
	return "ok " + strings.Join(outs, ";"), got, last
}

func classifyMuxErr(err error) string {
	msg := err.Error()
	switch {
	case err == io.EOF || err == io.ErrUnexpectedEOF:
		return "eof"
	case strings.Contains(msg, "exceeds max message size"):
		return "toolong"
	case strings.HasPrefix(msg, "unexpected tag: got "):
		f := strings.Fields(msg)
		// "unexpected tag: got N, want 0"
		n := strings.TrimSuffix(f[3], ",")
		return "badtag:" + n
	default:
		// error frame: the message is the payload
		return "server:" + hx([]byte(msg))
	}
}

// the buffer size the real client uses (clientmaincmd.go ClientRun); the transparency oracle
// applies to streams read through a buffer of this size
const realBuf = 256 * 1024

// refParseFrames splits a stream into frames, written from the protocol description.
// clean = the stream ends exactly at a frame boundary and every length is within 256 KiB.
func refParseFrames(stream []byte) ([]frame, bool) {
	var out []frame
	for len(stream) > 0 {
		if len(stream) < 4 {
			return out, false
		}
		hdr := binary.LittleEndian.Uint32(stream)
		n := int(hdr & 0xFFFFFF)
		if n > 256*1024 || len(stream)-4 < n {
			return out, false
		}
		out = append(out, frame{tag: uint8(hdr>>24) - 7, payload: stream[4 : 4+n]})
		stream = stream[4+n:]
	}
	return out, true
}

func suiteMux(h *H) {
	run := func(op string) {
		f := strings.Fields(op)
		bufsz, _ := strconv.Atoi(f[1])
		var reads []int
		if f[2] != "-" {
			for _, s := range strings.Split(f[2], ",") {
				n, _ := strconv.Atoi(s)
				reads = append(reads, n)
			}
		}
		stream := unhx(f[3])
		impl, got, last := implMuxRead(bufsz, reads, stream)
		oracle := ""
		frames, clean := refParseFrames(stream)
		benign := clean && bufsz == realBuf
		for _, fr := range frames {
			if fr.tag != 0 && fr.tag != 2 {
				benign = false
			}
		}
		if benign {
			// property oracle: what the client reads is the concatenation of the data payloads,
			// independent of the framing; and nothing panics when the buffer is the real client's
			var want []byte
			for _, fr := range frames {
				if fr.tag == 0 {
					want = append(want, fr.payload...)
				}
			}
			var have []byte
			for _, g := range got {
				have = append(have, g...)
			}
			if last == "panic" {
				oracle = "FAIL reader panicked on a benign frame stream"
			} else if !bytes.HasPrefix(want, have) {
				oracle = "FAIL delivered bytes are not a prefix of the concatenated data payloads"
			} else if last == "ok" && len(have) < min(len(want), sum(reads)) {
				oracle = "FAIL fewer bytes delivered than requested and available"
			} else if last != "ok" && last != "eof" {
				oracle = "FAIL benign stream ended with " + last
			}
		}
		h.emit(op, impl, oracle, len(got) > 0)
	}
	if h.extra != nil {
		for _, op := range h.extra {
			if strings.HasPrefix(op, "mux.r ") {
				run(op)
			}
		}
		return
	}

	// mux.w: the real writer vs the model's encoder
	for i := 0; i < h.n(40, 400); i++ {
		tag := uint8(h.pick(0, 0, 0, 1, 2, 2, 3, 100, 248, 249, 255))
		p := h.bytes(h.pick(0, 1, 2, 7, 100, 1000))
		var buf bytes.Buffer
		w := &rsyncwire.MultiplexWriter{Writer: &buf}
		w.WriteMsg(tag, p)
		or := ""
		if !bytes.Equal(buf.Bytes(), encFrameRef(frame{tag, p})) {
			or = "FAIL frame differs from the reference encoding"
		}
		h.emit(fmt.Sprintf("mux.w %d %s", tag, hx(p)), "ok "+hx(buf.Bytes()), or, true)
		h.stat("mux.w")
	}

	n := h.n(300, 6000)
	for i := 0; i < n; i++ {
		bufsz := h.pick(16, 16, 64, 1024, realBuf, realBuf)
		benign := h.rng.Intn(4) != 0
		nf := h.rng.Intn(8)
		var frames []frame
		var stream []byte
		total := 0
		for j := 0; j < nf; j++ {
			var fr frame
			switch r := h.rng.Intn(20); {
			case r < 13:
				fr.tag = 0
			case r < 18:
				fr.tag = 2
			case r < 19 && !benign:
				fr.tag = 1
			case !benign:
				fr.tag = uint8(h.pick(3, 4, 100, 248, 249, 250, 255))
			}
			sz := h.pick(0, 0, 1, 1, 2, 3, 4, 5, 15, 16, 17, 63, 64, 65, 200)
			if bufsz >= 1024 && h.rng.Intn(6) == 0 {
				sz = h.pick(1023, 1024, 1025, 5000)
			}
			if bufsz == realBuf && h.rng.Intn(40) == 0 && total < 600000 {
				sz = h.pick(realBuf-1, realBuf)
			}
			if benign && sz > bufsz {
				sz = bufsz
			}
			fr.payload = h.bytes(sz)
			total += sz
			frames = append(frames, fr)
			stream = append(stream, encFrameRef(fr)...)
		}
		kind := "benign"
		if !benign {
			kind = "hostile"
			switch h.rng.Intn(5) {
			case 0: // truncate anywhere
				if len(stream) > 0 {
					stream = stream[:h.rng.Intn(len(stream))]
				}
			case 1: // oversized declared length
				var hdr [4]byte
				binary.LittleEndian.PutUint32(hdr[:], uint32(7)<<24|uint32(h.pick(realBuf+1, 1<<24-1, 300000)))
				stream = append(stream, hdr[:]...)
				stream = append(stream, h.bytes(8)...)
			case 2: // random noise appended
				stream = append(stream, h.bytes(h.rng.Intn(12))...)
			}
		}
		// read requests: mixture of tiny, buffer-sized and larger-than-buffer reads
		var reads []string
		nr := 1 + h.rng.Intn(6)
		for j := 0; j < nr; j++ {
			k := h.pick(0, 1, 1, 2, 4, 4, 8, 15, 16, 17, 100)
			if h.rng.Intn(5) == 0 {
				k = h.pick(bufsz-1, bufsz, bufsz+1, 2*bufsz)
			}
			reads = append(reads, strconv.Itoa(k))
		}
		op := fmt.Sprintf("mux.r %d %s %s", bufsz, strings.Join(reads, ","), hx(stream))
		run(op)
		h.stat("mux.r." + kind)
		h.stat(fmt.Sprintf("mux.r.bufsz=%d", bufsz))
	}
}

func sum(xs []int) int {
	s := 0
	for _, x := range xs {
		s += x
	}
	return s
}
