//go:build verif

package main

// hostile: the real receiving client (maincmd.ClientRun with a destination) fed by a scripted
// hostile *sender*: file lists no real sender produces — names with "..", absolute names, entries that
// descend through symlinks that exist in the destination or were sent earlier in the same list,
// device/fifo/socket entries, --delete — each crossed with every receiver operation (create, replace
// through a temp file, mkdir, symlink, chmod/chtimes/chown, unlink-to-make-room, mknod, delete walk).
// Oracle for C05 (implementation level, no model involved): canary files, directories and symlinks
// around the destination keep their content, mode, owner, mtime and link target, nothing new appears
// outside, and the canary secret is never read into the destination.

import (
	"bytes"
	"fmt"
	"io"
	"os"
	"path/filepath"
	"sort"
	"strings"
	"syscall"
	"time"

	"github.com/gokrazy/rsync/internal/maincmd"
	"github.com/gokrazy/rsync/internal/rsyncopts"
	"github.com/gokrazy/rsync/internal/rsyncos"
)

func init() { suites["hostile"] = suiteHostile }

const hostileSeed = int32(0x01020304)

// canarySnapshot describes everything under root except the subtree `skip`
func canarySnapshot(root, skip string) string {
	var lines []string
	filepath.Walk(root, func(p string, info os.FileInfo, err error) error {
		if err != nil {
			return nil
		}
		if p == skip {
			return filepath.SkipDir
		}
		st, _ := info.Sys().(*syscall.Stat_t)
		l := fmt.Sprintf("%s %v %d", strings.TrimPrefix(p, root), info.Mode(), info.ModTime().UnixNano())
		if st != nil {
			l += fmt.Sprintf(" %d:%d ino=%d", st.Uid, st.Gid, st.Ino)
		}
		switch {
		case info.Mode()&os.ModeSymlink != 0:
			t, _ := os.Readlink(p)
			l += " -> " + t
		case info.Mode().IsRegular():
			b, _ := os.ReadFile(p)
			l += " " + hx(md4sum(b))
		}
		lines = append(lines, l)
		return nil
	})
	sort.Strings(lines)
	return strings.Join(lines, "\n")
}

type hostileFile struct {
	e    refEntry
	data []byte
}

// hostileStream: seed, then multiplexed: the file list, the data of every regular file in the
// receiver's index order, the phase markers and the statistics.
func hostileStream(es []hostileFile, o refOpts, rngH *H) []byte {
	var list []refEntry
	for _, f := range es {
		list = append(list, f.e)
	}
	var pay bytes.Buffer
	pay.Write(refEncodeList(list, o, rngH.rng, 0))
	// the receiver cleans names and sorts bytewise; indices follow that order
	type idxd struct {
		name string
		f    hostileFile
	}
	var sorted []idxd
	for _, f := range es {
		sorted = append(sorted, idxd{filepath.Clean(string(f.e.name)), f})
	}
	sort.SliceStable(sorted, func(i, j int) bool { return sorted[i].name < sorted[j].name })
	for i, s := range sorted {
		if s.f.e.mode&sIFMT != sIFREG {
			continue
		}
		wI32(&pay, int32(i))
		for _, v := range []int32{0, 700, 2, 0} {
			wI32(&pay, v)
		}
		if len(s.f.data) > 0 {
			wI32(&pay, int32(len(s.f.data)))
			pay.Write(s.f.data)
		}
		wI32(&pay, 0)
		pay.Write(refFileSum(hostileSeed, s.f.data))
	}
	wI32(&pay, -1)
	wI32(&pay, -1)
	wLong(&pay, 1)
	wLong(&pay, 2)
	wLong(&pay, 3)
	var st bytes.Buffer
	wI32(&st, hostileSeed)
	st.Write(frameUp(pay.Bytes(), func() int { return 4000 }, 0, nil))
	return st.Bytes()
}

func runHostileClient(args []string, dst string, stream []byte) string {
	osenv := &rsyncos.Env{Stdout: io.Discard, Stderr: io.Discard, DontRestrict: true}
	pc := rsyncopts.NewContext(rsyncopts.NewOptionsWithGokrazyDefaults(osenv))
	cl := append(append([]string{}, args...), "host::mod/")
	if dst != "" {
		cl = append(cl, dst)
	}
	if err := pc.ParseArguments(osenv, cl); err != nil {
		return "optserr:" + err.Error()
	}
	done := make(chan string, 1)
	go func() {
		defer func() {
			if r := recover(); r != nil {
				done <- fmt.Sprintf("panic:%v", r)
			}
		}()
		_, err := maincmd.ClientRun(osenv, pc.Options, &scriptedConn{r: bytes.NewReader(stream)}, []string{dst}, false)
		if err != nil {
			done <- "err:" + strings.SplitN(err.Error(), "\n", 2)[0]
		} else {
			done <- "ok"
		}
	}()
	select {
	case o := <-done:
		return o
	case <-time.After(30 * time.Second):
		return "timeout"
	}
}

// holdReader blocks until released, then reports the end of the stream
type holdReader struct{ c chan struct{} }

func (r *holdReader) Read(p []byte) (int, error) {
	<-r.c
	return 0, io.EOF
}

func suiteHostile(h *H) {
	os.Stderr = devNull
	base, err := os.MkdirTemp("", "verif-hostile")
	if err != nil {
		panic(err)
	}
	// ---- a client that only lists (one source argument, no destination) has no destination at all: a
	// server that sends file data although nothing was requested must get an error, not a crash
	{
		es := []hostileFile{{e: refEntry{name: []byte("."), mode: sIFDIR | 0o755, size: 4096, mtime: 1500000000}},
			{e: refEntry{name: []byte("f"), mode: sIFREG | 0o644, size: 5, mtime: 1500000000}, data: []byte("hello")}}
		for _, args := range [][]string{{"-r"}, {"-rt"}, {"-a"}, {"-r", "--delete"}, {"-a", "--delete", "--exclude=x"}} {
			h.begin(fmt.Sprintf("!hostile-listonly seed=%d opts=%s", h.seed, strings.Join(args, ",")))
			out := runHostileClient(args, "", hostileStream(es, refOpts{links: args[0] == "-a"}, h))
			v := ""
			if strings.HasPrefix(out, "panic") {
				v = "FAIL[C08] a listing client panicked when the server sent file data: " + out
			} else if out == "timeout" {
				v = "FAIL[C18] a listing client did not terminate when the server sent file data"
			}
			h.emit(fmt.Sprintf("!hostile-listonly seed=%d opts=%s", h.seed, strings.Join(args, ",")), strings.SplitN(out, ":", 2)[0], v, true)
			h.stat("hostile.listonly")
		}
	}
	defer os.RemoveAll(base)
	// ---- the generator fails (a destination *file* is in the way of a listed path below it) while the receiving side is
	// in the middle of another file and the sender sends no more: once the session is over and the connection closed, no
	// temporary file may stay behind (C04)
	{
		dst := filepath.Join(base, "genfail-dst")
		os.MkdirAll(dst, 0o755)
		os.WriteFile(filepath.Join(dst, "x"), []byte("a file where the list has a directory"), 0o644)
		big := bytes.Repeat([]byte("0123456789abcdef"), 8192) // 128 KiB
		es := []hostileFile{{e: refEntry{name: []byte("."), mode: sIFDIR | 0o755, size: 4096, mtime: 1500000000}},
			{e: refEntry{name: []byte("a"), mode: sIFREG | 0o644, size: int64(len(big)), mtime: 1500000000}, data: big},
			{e: refEntry{name: []byte("b"), mode: sIFREG | 0o644, size: 0, mtime: 1500000000}},
			{e: refEntry{name: []byte("x/y"), mode: sIFREG | 0o644, size: 0, mtime: 1500000000}}}
		stream := hostileStream(es, refOpts{}, h)
		stream = stream[:len(stream)-60000] // inside the data of "a"
		osenv := &rsyncos.Env{Stdout: io.Discard, Stderr: io.Discard, DontRestrict: true}
		pc := rsyncopts.NewContext(rsyncopts.NewOptionsWithGokrazyDefaults(osenv))
		out, v := "optserr", ""
		if err := pc.ParseArguments(osenv, []string{"-rt", "host::mod/", dst}); err == nil {
			hold := make(chan struct{})
			done := make(chan string, 1)
			go func() {
				defer func() {
					if r := recover(); r != nil {
						done <- fmt.Sprintf("panic:%v", r)
					}
				}()
				_, err := maincmd.ClientRun(osenv, pc.Options, &scriptedConn{r: io.MultiReader(bytes.NewReader(stream), &holdReader{hold})}, []string{dst}, false)
				if err != nil {
					done <- "err"
				} else {
					done <- "ok"
				}
			}()
			select {
			case out = <-done:
			case <-time.After(20 * time.Second):
				out = "timeout"
			}
			time.Sleep(100 * time.Millisecond)
			close(hold) // the connection is closed: whatever still reads from it sees the end
			time.Sleep(400 * time.Millisecond)
			if ents, err := os.ReadDir(dst); err == nil {
				for _, e := range ents {
					if strings.HasPrefix(e.Name(), ".a") {
						v = fmt.Sprintf("FAIL[C04] a temporary file (%s…) stays in the destination after a session in which the generator failed while a file was being received", e.Name()[:3])
					}
				}
			}
			if strings.HasPrefix(out, "panic") {
				v = "FAIL[C08] " + out
			}
		}
		h.emit(fmt.Sprintf("!hostile-genfail seed=%d", h.seed), out, v, true)
		h.stat("hostile.genfail")
	}
	const secret = "CANARY-SECRET-7f3a"
	isRoot := os.Geteuid() == 0
	caseNo := 0
	setup := func() (world, dst string) {
		caseNo++
		world = filepath.Join(base, fmt.Sprintf("w%d", caseNo))
		dst = filepath.Join(world, "dst")
		out := filepath.Join(world, "outside")
		os.MkdirAll(filepath.Join(out, "odir"), 0o755)
		os.MkdirAll(filepath.Join(dst, "sub"), 0o755)
		os.WriteFile(filepath.Join(out, "victim"), []byte(secret), 0o600)
		os.WriteFile(filepath.Join(out, "odir", "inner"), []byte(secret+"2"), 0o640)
		os.Symlink("victim", filepath.Join(out, "olink"))
		os.WriteFile(filepath.Join(world, "sibling"), []byte(secret+"3"), 0o644)
		os.WriteFile(filepath.Join(dst, "keep"), []byte("old"), 0o644)
		// symlinks already in the destination
		os.Symlink("../outside", filepath.Join(dst, "out"))
		os.Symlink(out, filepath.Join(dst, "abs"))
		os.Symlink("../outside/victim", filepath.Join(dst, "outfile"))
		os.Symlink("sub", filepath.Join(dst, "in"))
		os.Symlink("../outside/odir", filepath.Join(dst, "sub", "deepout"))
		old := time.Unix(1400000000, 0)
		for _, p := range []string{filepath.Join(out, "victim"), filepath.Join(out, "odir", "inner"), filepath.Join(out, "odir"), out, filepath.Join(world, "sibling")} {
			os.Chtimes(p, old, old)
		}
		return world, dst
	}
	dirE := func(name string, perm int32) hostileFile {
		return hostileFile{e: refEntry{name: []byte(name), mode: sIFDIR | perm, size: 4096, mtime: 1500000000, uid: 4242, gid: 4243}}
	}
	fileE := func(name string, data string, perm int32) hostileFile {
		return hostileFile{e: refEntry{name: []byte(name), mode: sIFREG | perm, size: int64(len(data)), mtime: 1500000001, uid: 4242, gid: 4243}, data: []byte(data)}
	}
	linkE := func(name, target string) hostileFile {
		return hostileFile{e: refEntry{name: []byte(name), mode: sIFLNK | 0o777, size: int64(len(target)), mtime: 1500000002, target: []byte(target), uid: 4242, gid: 4243}}
	}
	special := func(name string, typ int32, rdev int32) hostileFile {
		return hostileFile{e: refEntry{name: []byte(name), mode: typ | 0o666, mtime: 1500000003, rdev: rdev, uid: 4242, gid: 4243}}
	}
	dot := dirE(".", 0o755)
	// escape prefixes: how a name can try to leave the destination
	prefixes := []struct{ tag, p string }{
		{"dotdot", "../outside/"}, {"dotdot2", "sub/../../outside/"}, {"abs", "/" + "ABSBASE" + "/outside/"}, {"oldlink", "out/"}, {"oldabslink", "abs/"},
		{"deeplink", "sub/deepout/"}, {"viainside", "in/deepout/"}, {"sentlink", "newlink/"}, {"sentabslink", "newabs/"}, {"dotdotonly", "../"}, {"plain", "sub/"},
	}
	// operations on the victim name
	type opv struct {
		tag  string
		make func(name string) []hostileFile
	}
	ops := []opv{
		{"file-new", func(n string) []hostileFile { return []hostileFile{fileE(n+"created", "pwned", 0o777)} }},
		{"file-replace", func(n string) []hostileFile { return []hostileFile{fileE(n+"victim", "overwritten", 0o666)} }},
		{"file-into-dir", func(n string) []hostileFile { return []hostileFile{fileE(n+"odir/inner", "overwritten2", 0o666)} }},
		{"mkdir", func(n string) []hostileFile { return []hostileFile{dirE(n+"newdir", 0o777), fileE(n+"newdir/x", "y", 0o644)} }},
		{"chmod-dir", func(n string) []hostileFile { return []hostileFile{dirE(n+"odir", 0o777)} }},
		{"symlink", func(n string) []hostileFile { return []hostileFile{linkE(n+"planted", "/etc/passwd")} }},
		{"symlink-over", func(n string) []hostileFile { return []hostileFile{linkE(n+"victim", "elsewhere")} }},
		{"fifo", func(n string) []hostileFile { return []hostileFile{special(n+"fifo", sIFIFO, 0)} }},
		{"sock", func(n string) []hostileFile { return []hostileFile{special(n+"sock", sIFSOCK, 0)} }},
		{"chardev", func(n string) []hostileFile { return []hostileFile{special(n+"null", sIFCHR, 0x0103)} }},
		{"dev-over", func(n string) []hostileFile { return []hostileFile{special(n+"victim", sIFCHR, 0x0103)} }},
		{"dir-over-file", func(n string) []hostileFile { return []hostileFile{dirE(n+"victim", 0o755)} }},
	}
	optSets := [][]string{{"-rlptgoD"}, {"-rlptgoD", "--delete"}, {"-r"}, {"-rlD", "-c"}}
	run := func(tag string, args []string, es []hostileFile) {
		world, dst := setup()
		for i := range es {
			es[i].e.name = []byte(strings.ReplaceAll(string(es[i].e.name), "ABSBASE", strings.TrimPrefix(world, "/")))
			if len(es[i].e.target) > 0 {
				es[i].e.target = []byte(strings.ReplaceAll(string(es[i].e.target), "ABSOUT", filepath.Join(world, "outside")))
			}
		}
		o := refOpts{}
		for _, a := range args {
			if strings.HasPrefix(a, "-") && !strings.HasPrefix(a, "--") {
				o.uid = o.uid || strings.Contains(a, "o")
				o.gid = o.gid || strings.Contains(a, "g")
				o.links = o.links || strings.Contains(a, "l")
				o.devices = o.devices || strings.Contains(a, "D")
				o.specials = o.specials || strings.Contains(a, "D")
				o.checksum = o.checksum || strings.Contains(a, "c")
			}
		}
		if o.checksum {
			for i := range es {
				es[i].e.sum = [16]byte{}
				if es[i].e.mode&sIFMT == sIFREG {
					copy(es[i].e.sum[:], md4sum(es[i].data))
				}
			}
		}
		var bnames []string
		for _, f := range es {
			bnames = append(bnames, fmt.Sprintf("%q:%o", strings.ReplaceAll(string(f.e.name), world, "$W"), f.e.mode))
		}
		h.begin(fmt.Sprintf("!hostile seed=%d %s opts=%s list=[%s]", h.seed, tag, strings.Join(args, ","), strings.Join(bnames, " ")))
		before := canarySnapshot(world, dst)
		out := runHostileClient(args, dst, hostileStream(es, o, h))
		// a receiver returning an error may still have its generator running for a moment
		time.Sleep(2 * time.Millisecond)
		after := canarySnapshot(world, dst)
		v := ""
		if before != after {
			v = "FAIL[C05] the receiver changed something outside its destination: " + firstDiff(before, after)
		}
		// the secret must not have been read into the destination (basis file opened through an escaping name)
		if v == "" {
			filepath.Walk(dst, func(p string, info os.FileInfo, err error) error {
				if err == nil && info.Mode().IsRegular() {
					if b, _ := os.ReadFile(p); bytes.Contains(b, []byte(secret)) {
						v = "FAIL[C05] content from outside the destination was copied to " + strings.TrimPrefix(p, world)
					}
				}
				return nil
			})
		}
		if strings.HasPrefix(out, "panic") {
			v = "FAIL[C08] receiving client panicked on a hostile file list: " + out
		}
		if out == "timeout" && v == "" {
			v = "FAIL[C18] receiving client did not terminate on a hostile file list"
		}
		var names []string
		for _, f := range es {
			names = append(names, fmt.Sprintf("%q:%o", strings.ReplaceAll(string(f.e.name), world, "$W"), f.e.mode))
		}
		h.emit(fmt.Sprintf("!hostile seed=%d %s opts=%s list=[%s]", h.seed, tag, strings.Join(args, ","), strings.Join(names, " ")), strings.SplitN(out, ":", 2)[0], v, out == "ok")
		h.stat("hostile." + strings.SplitN(out, ":", 2)[0])
		os.RemoveAll(world)
	}
	_ = isRoot
	n := 0
	for _, pf := range prefixes {
		for _, op := range ops {
			for oi, args := range optSets {
				if !h.thorough() && oi > 1 && (n%3 != 0) {
					n++
					continue
				}
				n++
				es := []hostileFile{dot}
				switch pf.tag {
				case "sentlink":
					es = append(es, linkE("newlink", "../outside"))
				case "sentabslink":
					es = append(es, linkE("newabs", "ABSOUT"))
				}
				es = append(es, op.make(pf.p)...)
				run(pf.tag+"/"+op.tag, args, es)
			}
		}
	}
	// whole-name vectors
	for _, es := range [][]hostileFile{
		{dot, dirE("..", 0o777)},
		{dot, linkE("..", "x")},
		{dot, special("..", sIFIFO, 0)},
		{dirE("..", 0o700)},
		{dot, fileE("", "x", 0o644)},
		{dot, fileE("a\x00b", "x", 0o644)},
		{dot, dirE("/", 0o777)},
		{dirE("/", 0o777), fileE("/"+"ABSBASE"+"/sibling", "gone", 0o644)},
		{dot, fileE("sub/../../sibling", "gone", 0o644)},
		{dot, linkE("keep", "../sibling"), fileE("keep/x", "y", 0o644)},
		{dot, linkE("l1", "l2"), linkE("l2", "../outside"), fileE("l1/created", "x", 0o644)},
		{dot, linkE("sub", "../outside"), fileE("sub/created", "x", 0o644)}, // replaces an existing directory by a symlink, then writes through it
		{dot, dirE("out", 0o755), fileE("out/created", "x", 0o644)},          // a directory entry named like an existing outside-pointing symlink
		{dot, fileE("out", "x", 0o644)},
		{dot, fileE("outfile", "replaced-through-link?", 0o644)},
		// link targets that end in a slash: a link to a link that leaves the destination, then an entry below it
		{dot, linkE("l", "abs/"), special("l/fifo", sIFIFO, 0)},
		{dot, linkE("l", "out/"), special("l/fifo", sIFIFO, 0)},
		{dot, linkE("absl", "ABSOUT"), linkE("l", "absl/"), special("l/sock", sIFSOCK, 0)},
		{dot, linkE("l", "abs/"), fileE("l/created", "x", 0o644)},
		{dot, linkE("l", "abs/"), dirE("l/newdir", 0o777)},
		{dot, linkE("l", "abs/"), dirE("l", 0o700)},
		{dot, linkE("l", "abs/."), special("l/fifo", sIFIFO, 0)},
		{dot, linkE("l", "out//"), linkE("l/planted", "x")},
		{dot, linkE("l", "abs/")},
		{dot, linkE("l", "out/")},
		{dot, dirE("d", 0o755), linkE("d/l", "../abs/"), special("d/l/fifo", sIFIFO, 0)},
	} {
		for _, args := range optSets[:2] {
			cp := append([]hostileFile{}, es...)
			run("whole", args, cp)
		}
	}
	// --delete with symlinks pointing outside in the destination: only the links may go
	for _, args := range [][]string{{"-r", "--delete"}, {"-rl", "--delete"}} {
		run("delete-only", args, []hostileFile{dot})
		run("delete-keep-sub", args, []hostileFile{dot, dirE("sub", 0o755)})
		run("delete-through-link", args, []hostileFile{dot, dirE("out", 0o755), dirE("abs", 0o755)})
	}
	// random hostile lists
	comps := []string{"..", ".", "out", "abs", "in", "sub", "deepout", "newlink", "x", "odir", "victim", "", "created"}
	for i := 0; i < h.n(60, 3000); i++ {
		es := []hostileFile{dot}
		if h.rng.Intn(2) == 0 {
			es = append(es, linkE("newlink", h.pickS("../outside", "ABSOUT", "sub", "../outside/odir", "..")))
		}
		seen := map[string]bool{".": true, "newlink": true}
		for k := 1 + h.rng.Intn(4); k > 0; k-- {
			var parts []string
			for j := 1 + h.rng.Intn(4); j > 0; j-- {
				parts = append(parts, comps[h.rng.Intn(len(comps))])
			}
			name := strings.Join(parts, "/")
			if h.rng.Intn(8) == 0 {
				name = "/ABSBASE/outside/" + name
			}
			cn := filepath.Clean(name)
			if seen[cn] {
				continue
			}
			seen[cn] = true
			switch h.rng.Intn(6) {
			case 0:
				es = append(es, dirE(name, int32(h.pick(0o777, 0o700, 0))))
			case 1:
				es = append(es, linkE(name, h.pickS("../outside/victim", "/etc/passwd", "x")))
			case 2:
				es = append(es, special(name, int32(h.pick(int(sIFIFO), int(sIFSOCK), int(sIFCHR), int(sIFBLK))), 0x0103))
			default:
				es = append(es, fileE(name, "data-"+name, int32(h.pick(0o644, 0o777, 0o4755))))
			}
		}
		run("random", optSets[h.rng.Intn(len(optSets))], es)
	}
}

func firstDiff(a, b string) string {
	la, lb := strings.Split(a, "\n"), strings.Split(b, "\n")
	ma := map[string]bool{}
	for _, l := range la {
		ma[l] = true
	}
	mb := map[string]bool{}
	for _, l := range lb {
		mb[l] = true
	}
	var out []string
	for _, l := range la {
		if !mb[l] {
			out = append(out, "- "+l)
		}
	}
	for _, l := range lb {
		if !ma[l] {
			out = append(out, "+ "+l)
		}
	}
	if len(out) > 4 {
		out = out[:4]
	}
	return strings.Join(out, " | ")
}
