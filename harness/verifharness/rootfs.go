//go:build verif

package main

// rootfs: Go's real *os.Root against the Lean model of its contract (RootFs.resolve) on generated
// trees with symbolic links that point inside, outside, upwards, absolutely, nowhere and in circles.
//
//	rootfs <root> <follow> <name> <tree>  ->  ok <location> | escapes | notexist | notdir | loop | invalid
//
// The location a successful Stat/Lstat through the root reached is identified by inode. Oracle
// (independent of the model): it is the root directory or lies below it.

import (
	"errors"
	"fmt"
	"os"
	"path/filepath"
	"sort"
	"strings"
	"syscall"
)

func init() { suites["rootfs"] = suiteRootFs }

type rfEntry struct {
	loc    string // relative to the sandbox, no leading slash
	kind   byte   // d f l L
	target string
}

func suiteRootFs(h *H) {
	base, err := os.MkdirTemp("", "verif-rootfs")
	if err != nil {
		panic(err)
	}
	defer os.RemoveAll(base)
	nTrees := h.n(12, 300)
	for t := 0; t < nTrees; t++ {
		sand := filepath.Join(base, fmt.Sprintf("t%d", t))
		os.MkdirAll(sand, 0o755)
		// fixed skeleton: the root is r/oot (so that ".." from the root leads to something real), an outside area next to it
		entries := []rfEntry{{"r", 'd', ""}, {"r/oot", 'd', ""}, {"r/out", 'd', ""}, {"r/out/secret", 'f', ""}, {"top", 'f', ""},
			{"r/oot/a", 'd', ""}, {"r/oot/a/b", 'd', ""}, {"r/oot/a/b/f", 'f', ""}, {"r/oot/f", 'f', ""}, {"r/oot/d", 'd', ""}}
		names := []string{"x", "y", "z", "l1", "l2", "l3"}
		dirs := []string{"r/oot", "r/oot/a", "r/oot/a/b", "r/oot/d", "r/out"}
		targets := []string{"a", "a/b", "../a", "..", "../..", "../out", "../../out", "../out/secret", "f", "a/b/f", "nowhere", "l1", "l2", "l3", "../d/l1", ".", "./a/./b", "a/../d",
			"a/b/../../..", "/ABS/r/out", "/ABS/r/oot/a", "/etc", "d/../a/b/f", "x", "../oot/a", "a//b", "a/b/"}
		// every fourth tree: link targets that end in a slash and name another link. Go 1.25.0's os.Root follows
		// such a link in the last position to wherever the next link points (D35, D43–D45 in DESIGN.md): like names
		// with a trailing slash this is outside the contract the model states, so these trees are recorded
		// (how often the runtime leaves the root is printed into the evidence), not compared with the model
		slashTargets := t%4 == 3
		if slashTargets {
			targets = append(targets, "l1/", "l2/", "l3/", "../d/l1/", "x/", "y/", "../out/", "a/b/", "l1/", "l2/")
			targets = append(targets, targets[len(targets)-10:]...)
			entries = append(entries, rfEntry{"r/oot/ls", 'l', "lo/"}, rfEntry{"r/oot/lo", 'l', "../out"}, rfEntry{"r/oot/a/ls2", 'l', "../lo/"})
		}
		have := map[string]bool{}
		for _, e := range entries {
			have[e.loc] = true
		}
		for k := 3 + h.rng.Intn(8); k > 0; k-- {
			d := dirs[h.rng.Intn(len(dirs))]
			loc := d + "/" + names[h.rng.Intn(len(names))]
			if have[loc] {
				continue
			}
			have[loc] = true
			switch r := h.rng.Intn(10); {
			case r < 6:
				tg := targets[h.rng.Intn(len(targets))]
				if strings.HasPrefix(tg, "/ABS") {
					entries = append(entries, rfEntry{loc, 'L', strings.Replace(tg, "/ABS", sand, 1)})
				} else if strings.HasPrefix(tg, "/") {
					entries = append(entries, rfEntry{loc, 'L', tg})
				} else {
					entries = append(entries, rfEntry{loc, 'l', tg})
				}
			case r < 8:
				entries = append(entries, rfEntry{loc, 'd', ""})
				dirs = append(dirs, loc)
			default:
				entries = append(entries, rfEntry{loc, 'f', ""})
			}
		}
		for _, e := range entries {
			p := filepath.Join(sand, e.loc)
			switch e.kind {
			case 'd':
				os.MkdirAll(p, 0o755)
			case 'f':
				os.WriteFile(p, []byte(e.loc), 0o644)
			default:
				os.Symlink(e.target, p)
			}
		}
		// inode -> location
		ino := map[uint64]string{}
		filepath.Walk(sand, func(p string, info os.FileInfo, err error) error {
			if err == nil {
				if st, ok := info.Sys().(*syscall.Stat_t); ok {
					rel, _ := filepath.Rel(sand, p)
					if rel == "." {
						rel = ""
					}
					ino[st.Ino] = rel
				}
			}
			return nil
		})
		var spec []string
		for _, e := range entries {
			// the model's absolute locations are relative to the sandbox; absolute link targets keep their real text
			s := fmt.Sprintf("%s:%c", hx([]byte(e.loc)), e.kind)
			if e.kind == 'l' || e.kind == 'L' {
				s += ":" + hx([]byte(e.target))
			}
			spec = append(spec, s)
		}
		sort.Strings(spec)
		root, err := os.OpenRoot(filepath.Join(sand, "r/oot"))
		if err != nil {
			panic(err)
		}
		comps := []string{"a", "b", "f", "d", "x", "y", "z", "l1", "l2", "l3", "..", ".", "", "nowhere", "out", "secret", "oot"}
		var paths []string
		for _, e := range entries {
			if strings.HasPrefix(e.loc, "r/oot/") {
				paths = append(paths, strings.TrimPrefix(e.loc, "r/oot/"))
			}
		}
		paths = append(paths, ".", "..", "../out", "../out/secret", "a/..", "a/../..", "a/b/../../..", "a/b/../../../out", "/", "/etc", sand+"/r/oot/f", "", "a//b", "./a/./b/f", "f/", "f/.", "a/b/", "f/x", "a/b/f/..", "nowhere/..", "../oot/f", "a/../../oot/f")
		for k := h.n(40, 80); k > 0; k-- {
			var parts []string
			for j := 1 + h.rng.Intn(5); j > 0; j-- {
				parts = append(parts, comps[h.rng.Intn(len(comps))])
			}
			paths = append(paths, strings.Join(parts, "/"))
		}
		for _, p := range paths {
			for _, follow := range []bool{true, false} {
				// A name that ends in a slash makes the kernel follow a symbolic link in the last position, and
				// Go 1.25.0's os.Root does not notice: root.Stat("link/") reaches the link's target even outside
				// the root (observed by this suite; D28 in DESIGN.md). That is outside the contract the code may
				// rely on — the regenerated fact FsSitesSpec.rootNamesClean says no such name reaches a root
				// method — so these names are recorded, not compared.
				trailing := strings.HasSuffix(p, "/")
				var info os.FileInfo
				var err error
				if follow {
					info, err = root.Stat(p)
				} else {
					info, err = root.Lstat(p)
				}
				out := ""
				v := ""
				switch {
				case err == nil:
					st, _ := info.Sys().(*syscall.Stat_t)
					loc, ok := ino[st.Ino]
					if !ok {
						out = "ok ?unknown-inode"
						v = "FAIL[C05] os.Root reached an object that is not in the sandbox at all"
					} else {
						out = "ok " + hx([]byte(loc))
						if loc != "r/oot" && !strings.HasPrefix(loc, "r/oot/") {
							v = fmt.Sprintf("FAIL[C05] os.Root resolved %q to %q outside the root", p, loc)
						}
					}
				case strings.Contains(err.Error(), "path escapes from parent"):
					out = "escapes"
				case strings.Contains(err.Error(), "empty path"):
					out = "invalid"
				case errors.Is(err, syscall.ENOENT):
					out = "notexist"
				case errors.Is(err, syscall.ENOTDIR):
					out = "notdir"
				case errors.Is(err, syscall.ELOOP):
					out = "loop"
				default:
					out = "err:" + err.Error()
				}
				f := "0"
				if follow {
					f = "1"
				}
				if slashTargets {
					if v != "" {
						h.stat("rootfs.link-target-slash-escape(observed, Go runtime)")
					}
					h.emit(fmt.Sprintf("!rootfs-link-target-slash tree=%d %s %q", t, f, p), out, "", false)
					h.stat("rootfs.link-target-slash-tree-case")
					continue
				}
				if trailing {
					if v != "" {
						h.stat("rootfs.trailing-slash-escape(observed, Go runtime)")
					}
					h.emit(fmt.Sprintf("!rootfs-trailing-slash %s %q", f, p), out, "", false)
					continue
				}
				h.emit(fmt.Sprintf("rootfs %s %s %s %s #%q", hx([]byte("r/oot")), f, hx([]byte(p)), strings.Join(spec, ";"), p), out, v, strings.HasPrefix(out, "ok"))
				h.stat("rootfs." + strings.SplitN(out, " ", 2)[0])
			}
		}
		root.Close()
		os.RemoveAll(sand)
	}
}
