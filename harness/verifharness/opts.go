//go:build verif

package main

// opts: the real option parser (rsyncopts.ParseArguments on gokrazy defaults) and the real
// ServerOptions against the Lean model computed from the regenerated tables.
//
//	optparse <args> <accessor names>   -> ok <bits> rem=… rules=… rsh=… | err | exit | panic
//	serveropts <true accessors>        -> argument list
//
// Implementation-level oracle for C14 (independent of the model): the options a client forwards,
// parsed by a fresh server-side parser, give the server exactly the client's view of every
// transfer-relevant accessor, with the roles swapped.

import (
	"bytes"
	"errors"
	"fmt"
	"io"
	"os"
	"path/filepath"
	"reflect"
	"sort"
	"strings"
	"time"

	"github.com/gokrazy/rsync/internal/log"
	"github.com/gokrazy/rsync/internal/progress"
	"github.com/gokrazy/rsync/internal/rsyncopts"
	"github.com/gokrazy/rsync/internal/rsyncos"
	"github.com/gokrazy/rsync/internal/rsyncwire"
	"github.com/gokrazy/rsync/internal/sender"
	"golang.org/x/sys/unix"
)

// flistSync: the file list one end writes under its view of the options is read by the other end
// under *its* view (client options vs. the options the server parsed from what the client
// forwarded), in both directions, on a tree with every entry kind and named owners. An
// implementation-level oracle for "no desynchronisation" (C14), independent of the model.
var flistSyncDir string

func flistSyncTree() string {
	if flistSyncDir != "" {
		return flistSyncDir
	}
	d, err := os.MkdirTemp("", "verif-flsync")
	if err != nil {
		panic(err)
	}
	os.MkdirAll(filepath.Join(d, "sub"), 0o755)
	os.WriteFile(filepath.Join(d, "a.txt"), []byte("hello"), 0o644)
	os.WriteFile(filepath.Join(d, "sub", "b"), bytes.Repeat([]byte("x"), 1500), 0o600)
	os.Symlink("a.txt", filepath.Join(d, "link"))
	unix.Mkfifo(filepath.Join(d, "fifo"), 0o644)
	if os.Geteuid() == 0 {
		unix.Mknod(filepath.Join(d, "chr"), unix.S_IFCHR|0o644, int(unix.Mkdev(1, 3)))
		unix.Mknod(filepath.Join(d, "blk"), unix.S_IFBLK|0o644, int(unix.Mkdev(7, 0)))
		os.Lchown(filepath.Join(d, "a.txt"), 1, 2)          // daemon:bin — named ids populate the id lists
		os.Lchown(filepath.Join(d, "sub", "b"), 65534, 65534) // nobody:nogroup
		os.Lchown(filepath.Join(d, "link"), 4242, 4243)     // ids without a name
	}
	flistSyncDir = d
	return d
}

func refOptsOf(o *rsyncopts.Options) refOpts {
	return refOpts{uid: o.PreserveUid(), gid: o.PreserveGid(), links: o.PreserveLinks(), devices: o.PreserveDevices(), specials: o.PreserveSpecials(), checksum: o.AlwaysChecksum()}
}

func flistSyncOne(dir string, sendOpts, recvOpts *rsyncopts.Options) string {
	var out bytes.Buffer
	st := &sender.Transfer{Logger: log.New(io.Discard), Opts: sendOpts, Env: &rsyncos.Env{Stdout: io.Discard, Stderr: io.Discard},
		Progress: progress.NewPrinter(io.Discard, time.Now), Conn: &rsyncwire.Conn{Reader: strings.NewReader(""), Writer: &out}}
	res := ""
	func() {
		defer func() {
			if r := recover(); r != nil {
				res = fmt.Sprintf("sender panic: %v", r)
			}
		}()
		if _, err := st.SendFileList(dir, []string{"/"}, &sender.VerifFilterRuleList{}); err != nil {
			res = "sender error: " + err.Error()
		}
	}()
	if res != "" {
		return res
	}
	ro := refOptsOf(recvOpts)
	outcome, es := implDecode(ro, out.Bytes())
	if !strings.HasPrefix(outcome, "ok ") {
		return "receiver cannot read the sender's file list: " + outcome
	}
	if !strings.HasSuffix(outcome, " rest=0") {
		return "receiver leaves bytes of the file list unread (" + outcome[strings.LastIndex(outcome, " ")+1:] + "): the next protocol phase starts at the wrong offset"
	}
	want := refWalk(dir, ro)
	if sortedLines(es, ro) != sortedLines(want, ro) {
		return "receiver decoded a different list than the tree: " + sortedLines(es, ro) + " VS " + sortedLines(want, ro)
	}
	return ""
}


func init() { suites["opts"] = suiteOpts }

var accNames = []string{"AlwaysChecksum", "Daemon", "DeleteMode", "DryRun", "IgnoreTimes", "LocalServer", "OutputMOTD", "PreserveDevices", "PreserveGid",
	"PreserveHardLinks", "PreserveLinks", "PreserveMTimes", "PreservePerms", "PreserveSpecials", "PreserveUid", "Recurse", "Sender", "Server", "UpdateOnly", "Verbose"}

// accessors the remote side must see unchanged (Sender is mirrored, Server is set)
var forwarded = []string{"AlwaysChecksum", "DeleteMode", "DryRun", "IgnoreTimes", "PreserveDevices", "PreserveGid", "PreserveLinks", "PreserveMTimes",
	"PreservePerms", "PreserveSpecials", "PreserveUid", "Recurse", "UpdateOnly", "Verbose"}

func accValue(o *rsyncopts.Options, name string) (bool, bool) {
	m := reflect.ValueOf(o).MethodByName(name)
	if !m.IsValid() || m.Type().NumIn() != 0 || m.Type().NumOut() != 1 || m.Type().Out(0).Kind() != reflect.Bool {
		return false, false
	}
	return m.Call(nil)[0].Bool(), true
}

func hexArgs(args []string) string {
	if len(args) == 0 {
		return "--"
	}
	p := make([]string, len(args))
	for i, a := range args {
		p[i] = hx([]byte(a))
	}
	return strings.Join(p, ",")
}

func unhexArgs(s string) []string {
	if s == "--" {
		return nil
	}
	var out []string
	for _, p := range strings.Split(s, ",") {
		out = append(out, string(unhx(p)))
	}
	return out
}

func realParse(args []string) (out string, opts *rsyncopts.Options, rem []string) {
	defer func() {
		if r := recover(); r != nil {
			out = fmt.Sprintf("panic:%v", r)
			opts = nil
		}
	}()
	env := quietEnv()
	pc := rsyncopts.NewContext(rsyncopts.NewOptionsWithGokrazyDefaults(env))
	err := pc.ParseArguments(env, append([]string{}, args...))
	if err != nil {
		var ee *rsyncopts.ExitError
		if errors.As(err, &ee) {
			return "exit", nil, nil
		}
		return "err", nil, nil
	}
	bits := ""
	for _, n := range accNames {
		v, ok := accValue(pc.Options, n)
		switch {
		case !ok:
			bits += "?"
		case v:
			bits += "1"
		default:
			bits += "0"
		}
	}
	return fmt.Sprintf("ok %s rem=%s rules=%s rsh=%s", bits, hexArgs(pc.RemainingArgs), hexArgs(pc.Options.FilterRules()), hx([]byte(pc.Options.ShellCommand()))), pc.Options, pc.RemainingArgs
}

func optparseCase(h *H, args []string) {
	out, _, _ := realParse(args)
	v := ""
	if strings.HasPrefix(out, "panic") {
		v = "FAIL[C08] option parser panicked on peer-supplied arguments: " + out
	}
	h.emit(fmt.Sprintf("optparse %s %s #%q", hexArgs(args), strings.Join(accNames, ","), args), out, v, strings.HasPrefix(out, "ok"))
	h.stat("optparse." + strings.SplitN(out, " ", 2)[0])
}

// optionsFor builds a real Options value in which exactly the named accessors are true, by parsing
// the client command line a user would type for it.
var setBy = map[string][]string{
	"AlwaysChecksum": {"-c"}, "DeleteMode": {"--delete"}, "DryRun": {"-n"}, "IgnoreTimes": {"-I"}, "PreserveDevices": {"--devices"},
	"PreserveGid": {"-g"}, "PreserveLinks": {"-l"}, "PreserveMTimes": {"-t"}, "PreservePerms": {"-p"}, "PreserveSpecials": {"--specials"},
	"PreserveUid": {"-o"}, "Recurse": {"-r"}, "UpdateOnly": {"-u"}, "Verbose": {"-v"},
}

func serveroptsCase(h *H, on []string, sender bool, spelling int) {
	var args []string
	for _, n := range on {
		args = append(args, setBy[n]...)
	}
	// other spellings of the same option set
	has := func(n string) bool {
		for _, x := range on {
			if x == n {
				return true
			}
		}
		return false
	}
	switch spelling {
	case 1: // -a minus what is off
		if has("Recurse") && has("PreserveLinks") && has("PreservePerms") && has("PreserveMTimes") {
			args = []string{"-a"}
			for _, p := range [][2]string{{"PreserveGid", "--no-g"}, {"PreserveUid", "--no-o"}, {"PreserveDevices", "--no-devices"}, {"PreserveSpecials", "--no-specials"}} {
				if !has(p[0]) {
					args = append(args, p[1])
				}
			}
			for _, n := range on {
				switch n {
				case "AlwaysChecksum", "DeleteMode", "DryRun", "IgnoreTimes", "UpdateOnly", "Verbose":
					args = append(args, setBy[n]...)
				}
			}
		}
	case 2: // -D then --no-…
		if has("PreserveDevices") != has("PreserveSpecials") {
			var rest []string
			for _, n := range on {
				if n != "PreserveDevices" && n != "PreserveSpecials" {
					rest = append(rest, setBy[n]...)
				}
			}
			if has("PreserveDevices") {
				args = append([]string{"-D", "--no-specials"}, rest...)
			} else {
				args = append([]string{"-D", "--no-devices"}, rest...)
			}
		}
	}
	args = append(args, "src/", "dst/")
	out, opts, _ := realParse(args)
	if opts == nil && has("DeleteMode") && !has("Recurse") {
		// --delete without -r is refused by the option parser (D47): nothing to forward
		h.emit(fmt.Sprintf("!serveropts-setup %q", args), out, "", false)
		h.stat("serveropts.delete-without-recursion-refused")
		return
	}
	if opts == nil {
		h.emit(fmt.Sprintf("!serveropts-setup %q", args), out, "FAIL[C14] a client command line of accepted transfer options does not parse", false)
		return
	}
	if sender {
		opts.SetSender()
	}
	var so []string
	func() {
		defer func() {
			if r := recover(); r != nil {
				so = []string{fmt.Sprintf("panic:%v", r)}
			}
		}()
		so = opts.ServerOptions()
	}()
	names := append([]string{}, on...)
	if sender {
		names = append(names, "Sender")
	}
	sort.Strings(names)
	nm := strings.Join(names, ",")
	if nm == "" {
		nm = "-"
	}
	// ---- oracle: a fresh server-side parse of the forwarded options
	v := ""
	sout, sopts, _ := realParse(append(append([]string{}, so...), ".", "x"))
	if sopts == nil {
		v = "FAIL[C14] the server cannot parse the options the client forwards: " + sout
	} else {
		for _, n := range forwarded {
			cv, _ := accValue(opts, n)
			sv, _ := accValue(sopts, n)
			if cv != sv {
				v = fmt.Sprintf("FAIL[C14] option %s: client=%v, server after parsing the forwarded options %q=%v", n, cv, so, sv)
				break
			}
		}
		if v == "" && (!sopts.Server() || sopts.Sender() == opts.Sender()) {
			v = fmt.Sprintf("FAIL[C14] roles not mirrored: client sender=%v, server: server=%v sender=%v", opts.Sender(), sopts.Server(), sopts.Sender())
		}
	}
	if v == "" && sopts != nil && opts.Recurse() {
		dir := flistSyncTree()
		var why string
		if opts.Sender() {
			why = flistSyncOne(dir, opts, sopts) // push: client writes, server reads
		} else {
			why = flistSyncOne(dir, sopts, opts) // pull: server writes, client reads
		}
		h.stat("flistsync")
		if why != "" {
			v = fmt.Sprintf("FAIL[C14] file list desynchronised for client options %q (client is sender: %v): %s", args, opts.Sender(), why)
		}
	}
	h.emit(fmt.Sprintf("serveropts %s #%q", nm, args), hexArgs(so), v, len(on) > 0)
	h.stat(fmt.Sprintf("serveropts.n=%d", len(on)))
}

func suiteOpts(h *H) {
	defer func() {
		if flistSyncDir != "" {
			os.RemoveAll(flistSyncDir)
			flistSyncDir = ""
		}
	}()
	if len(h.extra) > 0 {
		for _, op := range h.extra {
			f := strings.Fields(strings.SplitN(op, " #", 2)[0])
			switch {
			case len(f) == 3 && f[0] == "optparse":
				optparseCase(h, unhexArgs(f[1]))
			case len(f) == 2 && f[0] == "serveropts":
				var on []string
				sender := false
				if f[1] != "-" {
					for _, n := range strings.Split(f[1], ",") {
						if n == "Sender" {
							sender = true
						} else {
							on = append(on, n)
						}
					}
				}
				serveroptsCase(h, on, sender, 0)
			}
		}
		return
	}
	// ---- serveropts: every subset of the forwarded options in the quick tier would be 2^14; the
	// interesting structure is pairwise, so: all subsets of size <= 2, all of size >= 12, the
	// device/special quadrant in full against every single other option, plus random subsets.
	var names []string
	for n := range setBy {
		names = append(names, n)
	}
	sort.Strings(names)
	n := len(names)
	seen := map[string]bool{}
	run := func(mask int, sender bool, spelling int) {
		var on []string
		for i := 0; i < n; i++ {
			if mask&(1<<i) != 0 {
				on = append(on, names[i])
			}
		}
		key := fmt.Sprintf("%d/%v/%d", mask, sender, spelling)
		if seen[key] {
			return
		}
		seen[key] = true
		serveroptsCase(h, on, sender, spelling)
	}
	popcount := func(x int) int {
		c := 0
		for ; x != 0; x &= x - 1 {
			c++
		}
		return c
	}
	for mask := 0; mask < 1<<n; mask++ {
		pc := popcount(mask)
		if h.thorough() || pc <= 2 || pc >= n-1 {
			run(mask, false, 0)
			run(mask, true, 0)
		}
	}
	for i := 0; i < h.n(400, 4000); i++ {
		mask := h.rng.Intn(1 << n)
		run(mask, h.rng.Intn(2) == 0, h.rng.Intn(3))
	}
	// ---- optparse: command lines from a grammar over the parser's vocabulary
	long := []string{"--help", "--version", "--verbose", "--no-verbose", "--no-v", "--info=flist2", "--info=help", "--info=bogus,help", "--info=help,bogus", "--info=FLIST,HELP3", "--info=",
		"--debug=all", "--debug=help", "--debug=none,recv9", "--motd", "--no-motd", "--dry-run", "--archive", "--recursive", "--no-recursive", "--no-r", "--dirs", "--no-dirs", "--no-d",
		"--perms", "--no-perms", "--no-p", "--times", "--no-times", "--no-t", "--owner", "--no-owner", "--no-o", "--group", "--no-group", "--no-g", "--no-D", "--devices", "--no-devices",
		"--specials", "--no-specials", "--links", "--no-links", "--no-l", "--hard-links", "--no-hard-links", "--no-H", "--ignore-times", "--update", "--delete", "--filter=- x", "--filter",
		"--exclude=a", "--exclude", "--include=b", "--include", "--checksum", "--no-checksum", "--no-c", "--progress", "--no-progress", "--contimeout=5", "--contimeout=x", "--contimeout=99999999999",
		"--contimeout", "--no-contimeout", "--rsh=ssh -p 2", "--rsh", "--port=873", "--port=0x10", "--port=-1", "--port", "--server", "--sender", "--config=/x", "--config", "--daemon", "--dparam=x",
		"--detach", "--no-detach", "--gokr.dont_restrict", "--gokr.config=/x", "--gokr.listen=:1", "--gokr.modulemap=a=b", "--address=1.2.3.4", "--bwlimit=7", "--log-file=/x", "--protocol=27",
		"--sockopts=x", "--temp-dir=/t", "--ipv4", "--ipv6", "--bogus", "--delete=1", "--server=1", "--dry-run=", "-", "--", "---x", "-=", "--=x", "--acls", "--compress", "--stats", "--numeric-ids",
		"-server", "-delete", "-daemon", "-rsh=x", "-e", "-esh", "-e=sh", "-f", "-f+ x", "-T", "-T/x", "-M", "-Mx", "-h", "-4", "-6", "-V", "-A", "-z", "-q", "-x", "-H", "-D", "-a", "-n=", "-v=3"}
	letters := "vunlogDtprcIaHdVefhMT46zqxAXSWb=- "
	pos := []string{".", "src/", "dst", "host::mod/p", "rsync://h/m", "h:p", "/abs", "", "a b", "caf\xc3\xa9", "x\xff"}
	gen := func() []string {
		var args []string
		k := 1 + h.rng.Intn(6)
		for j := 0; j < k; j++ {
			switch r := h.rng.Intn(10); {
			case r < 5:
				args = append(args, long[h.rng.Intn(len(long))])
			case r < 8:
				m := 1 + h.rng.Intn(5)
				s := "-"
				for q := 0; q < m; q++ {
					s += string(letters[h.rng.Intn(len(letters))])
				}
				args = append(args, s)
			default:
				args = append(args, pos[h.rng.Intn(len(pos))])
			}
		}
		return args
	}
	for _, a := range long {
		optparseCase(h, []string{a})
		optparseCase(h, []string{a, "x", "y"})
		optparseCase(h, []string{"--server", a, ".", "p"})
		optparseCase(h, []string{"--server", "--daemon", a, "."})
	}
	for _, c := range letters {
		optparseCase(h, []string{"-" + string(c)})
		optparseCase(h, []string{"-" + string(c), "x"})
		optparseCase(h, []string{"-r" + string(c) + "t", "x"})
		optparseCase(h, []string{"--daemon", "-" + string(c), "x"})
	}
	// what real clients send
	for _, cl := range [][]string{
		{"--server", "--sender", "-vlogDtpre.iLsfxC", ".", "mod/path"},
		{"--server", "--sender", "-vlogDtpr", ".", "mod/"},
		{"--server", "-vlogDtpr", "--delete", ".", "mod/"},
		{"--server", "--daemon", "."},
		{"--daemon", "--gokr.listen=localhost:0", "--gokr.modulemap=m=/tmp/x"},
		{"-aH", "--delete", "src/", "rsync://localhost/m/"},
		{"-e", "ssh -o X=y", "-a", "h:src", "dst"},
	} {
		optparseCase(h, cl)
	}
	for i := 0; i < h.n(3000, 60000); i++ {
		optparseCase(h, gen())
	}
}
