//go:build verif

package main

// session: real end-to-end transfers in all four arrangements (local copy through the CLI entry
// point, pull from an in-process daemon over TCP, push to a writable daemon module, library client
// over an in-memory stream) on generated (source tree, destination tree, options). Implementation
// level oracles for C01, C09, C10, C13, C14.

import (
	"bytes"
	"context"
	"fmt"
	"io"
	"net"
	"os"
	"os/exec"
	"path/filepath"
	"sort"
	"strings"
	"syscall"
	"time"

	"github.com/gokrazy/rsync/internal/maincmd"
	"github.com/gokrazy/rsync/internal/rsyncos"
	"github.com/gokrazy/rsync/rsyncclient"
	"github.com/gokrazy/rsync/rsyncd"
	"golang.org/x/sys/unix"
)

func init() { suites["session"] = suiteSession }

type sNode struct {
	kind    byte // f d l p
	content []byte
	perm    os.FileMode
	mtime   int64
	target  string
}

type sTree map[string]sNode

// keys: the paths in sorted order (generators draw random numbers per entry: map order must not decide which)
func (t sTree) keys() []string {
	paths := make([]string, 0, len(t))
	for p := range t {
		paths = append(paths, p)
	}
	sort.Strings(paths)
	return paths
}

func (t sTree) write(root string) {
	paths := make([]string, 0, len(t))
	for p := range t {
		paths = append(paths, p)
	}
	sort.Strings(paths)
	old := syscall.Umask(0)
	defer syscall.Umask(old)
	for _, p := range paths {
		n := t[p]
		full := filepath.Join(root, p)
		os.MkdirAll(filepath.Dir(full), 0o755)
		switch n.kind {
		case 'd':
			os.MkdirAll(full, 0o755)
		case 'f':
			os.WriteFile(full, n.content, 0o644)
		case 'l':
			os.Symlink(n.target, full)
		case 'p':
			unix.Mkfifo(full, 0o644)
		case 'c':
			unix.Mknod(full, unix.S_IFCHR|0o644, int(unix.Mkdev(1, 3)))
		}
	}
	// metadata after all children exist (directory mtimes!)
	for i := len(paths) - 1; i >= 0; i-- {
		p := paths[i]
		n := t[p]
		full := filepath.Join(root, p)
		if n.kind != 'l' {
			os.Chmod(full, n.perm)
			tm := time.Unix(n.mtime, 0)
			os.Chtimes(full, tm, tm)
		}
	}
}

func snapshot(root string) sTree {
	t := sTree{}
	filepath.Walk(root, func(p string, info os.FileInfo, err error) error {
		if err != nil || p == root {
			return nil
		}
		rel, _ := filepath.Rel(root, p)
		n := sNode{perm: info.Mode().Perm(), mtime: info.ModTime().Unix()}
		switch {
		case info.IsDir():
			n.kind = 'd'
		case info.Mode()&os.ModeSymlink != 0:
			n.kind = 'l'
			n.target, _ = os.Readlink(p)
		case info.Mode().IsRegular():
			n.kind = 'f'
			n.content, _ = os.ReadFile(p)
		case info.Mode()&os.ModeCharDevice != 0:
			n.kind = 'c'
		default:
			n.kind = 'p'
		}
		t[rel] = n
		return nil
	})
	return t
}

// noDirTimes: a tree carrying the marker entry "\x00nodirtimes" is described without directory mtimes
// (used for cross-arrangement comparison: a directory's mtime is "now" whenever something inside it
// changed after the generator touched it, and "now" differs between two runs)
func (t sTree) noDirTimes() bool { _, ok := t["\x00nodirtimes"]; return ok }

func (t sTree) agreeKey(meta bool) string {
	c := sTree{}
	for k, v := range t {
		c[k] = v
	}
	c["\x00nodirtimes"] = sNode{kind: 'm'}
	return c.describe(meta)
}

func (t sTree) describe(meta bool) string {
	paths := make([]string, 0, len(t))
	for p := range t {
		paths = append(paths, p)
	}
	sort.Strings(paths)
	var b strings.Builder
	for _, p := range paths {
		n := t[p]
		fmt.Fprintf(&b, "%s:%c", hx([]byte(p)), n.kind)
		if n.kind == 'f' {
			fmt.Fprintf(&b, ":%s", hx(md4sum(n.content))[:8])
		}
		if n.kind == 'l' {
			fmt.Fprintf(&b, ":%s", hx([]byte(n.target)))
		}
		if meta && n.kind != 'l' {
			if n.kind == 'd' && t.noDirTimes() {
				fmt.Fprintf(&b, ":%o", n.perm)
			} else {
				fmt.Fprintf(&b, ":%o:%d", n.perm, n.mtime)
			}
		}
		b.WriteByte(' ')
	}
	return b.String()
}

var devNull, _ = os.OpenFile(os.DevNull, os.O_WRONLY, 0)

// cliMain runs gokr-rsync's Main with its restrictions on; exit status 0 means it reported success
func cliMain(args []string) {
	env := &rsyncos.Env{Stdin: strings.NewReader(""), Stdout: io.Discard, Stderr: io.Discard}
	if _, err := maincmd.Main(context.Background(), env, args, nil); err != nil {
		fmt.Fprintln(os.Stdout, "err:", err)
		os.Exit(1)
	}
	os.Exit(0)
}

func quietEnv() *rsyncos.Env {
	return &rsyncos.Env{Stdin: strings.NewReader(""), Stdout: io.Discard, Stderr: io.Discard, DontRestrict: true}
}

type daemon struct {
	ln     net.Listener
	cancel context.CancelFunc
	srv    *rsyncd.Server
}

func startDaemon(mods []rsyncd.Module) (*daemon, error) {
	srv, err := rsyncd.NewServer(mods, rsyncd.DontRestrict(), rsyncd.WithStderr(io.Discard))
	if err != nil {
		return nil, err
	}
	ln, err := net.Listen("tcp", "127.0.0.1:0")
	if err != nil {
		return nil, err
	}
	ctx, cancel := context.WithCancel(context.Background())
	go srv.Serve(ctx, ln)
	return &daemon{ln, cancel, srv}, nil
}

func (d *daemon) url(mod, path string) string {
	return fmt.Sprintf("rsync://%s/%s/%s", d.ln.Addr().String(), mod, path)
}
func (d *daemon) stop() { d.cancel() }

// runArr runs one transfer. opts are CLI options; srcArgs relative to srcRoot ("" = the root itself with
// trailing slash semantics given by slash).
func runArr(arr byte, opts []string, srcRoot string, slash bool, dstRoot string) string {
	src := srcRoot
	if slash {
		src += "/"
	}
	done := make(chan string, 1)
	go func() {
		defer func() {
			if r := recover(); r != nil {
				done <- fmt.Sprintf("panic:%v", r)
			}
		}()
		var err error
		switch arr {
		case 'L': // local copy through the CLI entry point
			args := append(append([]string{"rsync"}, opts...), src, dstRoot)
			_, err = maincmd.Main(context.Background(), quietEnv(), args, nil)
		case 'P': // pull from a daemon over TCP
			var d *daemon
			d, err = startDaemon([]rsyncd.Module{{Name: "m", Path: filepath.Dir(srcRoot)}})
			if err != nil {
				break
			}
			defer d.stop()
			p := filepath.Base(srcRoot)
			if slash {
				p += "/"
			}
			args := append(append([]string{"rsync"}, opts...), d.url("m", p), dstRoot)
			_, err = maincmd.Main(context.Background(), quietEnv(), args, nil)
		case 'U': // push to a writable daemon module
			var d *daemon
			d, err = startDaemon([]rsyncd.Module{{Name: "w", Path: dstRoot, Writable: true}})
			if err != nil {
				break
			}
			defer d.stop()
			args := append(append([]string{"rsync"}, opts...), src, d.url("w", ""))
			_, err = maincmd.Main(context.Background(), quietEnv(), args, nil)
		case 'A': // library client over an in-memory stream against HandleDaemonConn
			var srv *rsyncd.Server
			srv, err = rsyncd.NewServer([]rsyncd.Module{{Name: "m", Path: filepath.Dir(srcRoot)}}, rsyncd.DontRestrict(), rsyncd.WithStderr(io.Discard))
			if err != nil {
				break
			}
			// a kernel-buffered in-memory duplex (two pipes): the daemon greeting is written by both sides
			// before either reads, which needs some buffering in the transport (see DESIGN.md, C18)
			ar, aw, _ := os.Pipe()
			br, bw, _ := os.Pipe()
			c1 := &duplex{r: ar, w: bw}
			go func() {
				defer aw.Close()
				defer br.Close()
				srv.HandleDaemonConn(context.Background(), rsyncd.NewConnection(br, aw, "127.0.0.1:1"))
			}()
			var cl *rsyncclient.Client
			cl, err = rsyncclient.New(opts, rsyncclient.DontRestrict(), rsyncclient.WithStderr(io.Discard))
			if err != nil {
				break
			}
			p := "m/" + filepath.Base(srcRoot)
			if slash {
				p += "/"
			}
			_, err = cl.RunDaemon(context.Background(), c1, p, []string{dstRoot})
			c1.Close()
		}
		if err != nil {
			done <- "err:" + err.Error()
		} else {
			done <- "ok"
		}
	}()
	select {
	case o := <-done:
		return o
	case <-time.After(30 * time.Second):
		return "timeout"
	}
}

// rule semantics of the property text: first matching plain-name rule decides; an excluded directory hides its subtree
func excludedBy(rules []string, rel string) bool { return excludedByKind(rules, rel, false) }

// excludedByKind also knows whether the entry itself is a directory: a rule with a trailing slash names directories only
func excludedByKind(rules []string, rel string, isDir bool) bool {
	parts := strings.Split(rel, "/")
	for i := range parts {
		name := parts[i]
		dir := isDir || i < len(parts)-1
		for _, r := range rules {
			include := strings.HasPrefix(r, "+ ")
			pat := r // exactly one prefix is the rule's kind; what follows is the name, whatever it begins with
			if include || strings.HasPrefix(r, "- ") {
				pat = r[2:]
			}
			if strings.HasSuffix(pat, "/") {
				if !dir {
					continue
				}
				pat = strings.TrimSuffix(pat, "/")
			}
			if pat == name {
				if include {
					break
				}
				return true
			}
		}
	}
	return false
}

func suiteSession(h *H) {
	os.Stderr = devNull
	base, err := os.MkdirTemp("", "verif-sess")
	if err != nil {
		panic(err)
	}
	defer os.RemoveAll(base)
	caseNo := 0
	oldT := int64(1400000000)
	// ---- several sources in one invocation (with and without trailing slash): every arrangement that can express it
	{
		ms := filepath.Join(base, "multi")
		for _, d := range []string{"A", "B/inner"} {
			os.MkdirAll(filepath.Join(ms, "srcs", d), 0o755)
		}
		os.WriteFile(filepath.Join(ms, "srcs", "A", "fa"), []byte("from A"), 0o644)
		os.WriteFile(filepath.Join(ms, "srcs", "B", "fb"), []byte("from B"), 0o644)
		os.WriteFile(filepath.Join(ms, "srcs", "B", "inner", "fi"), []byte("from B/inner"), 0o644)
		want := map[string]string{"fa": "from A", "fb": "from B", "inner/fi": "from B/inner"}
		check := func(tag string, args []string, dst string) {
			done := make(chan string, 1)
			go func() {
				_, err := maincmd.Main(context.Background(), quietEnv(), args, nil)
				if err != nil {
					done <- "err:" + err.Error()
				} else {
					done <- "ok"
				}
			}()
			out := "timeout"
			select {
			case out = <-done:
			case <-time.After(30 * time.Second):
			}
			v := ""
			if out != "ok" {
				v = "FAIL[C01] a transfer with several sources failed: " + strings.SplitN(out, "\n", 2)[0]
			} else {
				for rel, c := range want {
					if b, err := os.ReadFile(filepath.Join(dst, rel)); err != nil || string(b) != c {
						v = fmt.Sprintf("FAIL[C01] several remote sources in one invocation: %q from the second source is missing although the run reported success (only the first source is requested)", rel)
						if !strings.Contains(tag, "pull") {
							v = fmt.Sprintf("FAIL[C01] several sources in one invocation (%s): %q is missing after a successful run", tag, rel)
						}
					}
				}
			}
			h.emit(fmt.Sprintf("!session-multi seed=%d %s", h.seed, tag), out, v, out == "ok")
		}
		ld := filepath.Join(ms, "dst-local")
		check("local A/ B/", []string{"rsync", "-r", filepath.Join(ms, "srcs", "A") + "/", filepath.Join(ms, "srcs", "B") + "/", ld}, ld)
		if d, err := startDaemon([]rsyncd.Module{{Name: "m", Path: filepath.Join(ms, "srcs")}, {Name: "w", Path: filepath.Join(ms, "dst-push"), Writable: true}}); err == nil {
			pd := filepath.Join(ms, "dst-pull")
			check("pull m/A/ m/B/", []string{"rsync", "-r", d.url("m", "A/"), d.url("m", "B/"), pd}, pd)
			check("push A/ B/", []string{"rsync", "-r", filepath.Join(ms, "srcs", "A") + "/", filepath.Join(ms, "srcs", "B") + "/", d.url("w", "")}, filepath.Join(ms, "dst-push"))
			d.stop()
		}
	}
	// ---- two sources whose trees name the same files (more than a dozen of them, so that the sort of a list with
	// equal names is not the short-list special case): an index must mean the same file on both sides, i.e. each
	// destination file has the content *and* the modification time of one and the same source file
	{
		ds := filepath.Join(base, "dups")
		nDup := 20 + h.rng.Intn(10)
		for si, sname := range []string{"s1", "s2"} {
			os.MkdirAll(filepath.Join(ds, sname), 0o755)
			for k := 0; k < nDup; k++ {
				f := filepath.Join(ds, sname, fmt.Sprintf("f%02d", k))
				os.WriteFile(f, []byte(fmt.Sprintf("%s content of file %d %s", sname, k, strings.Repeat("x", si*3))), 0o644)
				t := time.Unix(oldT+int64(1000*si+k), 0)
				os.Chtimes(f, t, t)
			}
		}
		type arrT struct {
			tag  string
			args func(dst string, d *daemon) []string
			ext  bool // run the arguments as an external command (another implementation as the client)
		}
		d, derr := startDaemon([]rsyncd.Module{{Name: "w", Path: filepath.Join(ds, "dst-push"), Writable: true}})
		arrs := []arrT{{"local", func(dst string, _ *daemon) []string {
			return []string{"rsync", "-rt", filepath.Join(ds, "s1") + "/", filepath.Join(ds, "s2") + "/", dst}
		}, false}}
		if derr == nil {
			arrs = append(arrs, arrT{"push", func(dst string, d *daemon) []string {
				return []string{"rsync", "-rt", filepath.Join(ds, "s1") + "/", filepath.Join(ds, "s2") + "/", d.url("w", "")}
			}, false})
		}
		// another implementation as the client of this daemon (tridge rsync, when installed): it sorts the list it
		// received its own way and keeps the first of equal names — the daemon's numbering must agree with it
		var dsrc *daemon
		if tr, err := exec.LookPath("rsync"); err == nil {
			if d2, err := startDaemon([]rsyncd.Module{{Name: "m", Path: ds}}); err == nil {
				dsrc = d2
				arrs = append(arrs, arrT{"pull-by-tridge", func(dst string, _ *daemon) []string {
					return []string{tr, "-rt", d2.url("m", "s1/"), d2.url("m", "s2/"), dst + "/"}
				}, true})
			}
		}
		for _, a := range arrs {
			dst := filepath.Join(ds, "dst-"+a.tag)
			os.MkdirAll(dst, 0o755)
			done := make(chan string, 1)
			go func() {
				if a.ext {
					argv := a.args(dst, d)
					if outb, err := exec.Command(argv[0], argv[1:]...).CombinedOutput(); err != nil {
						done <- "err:" + err.Error() + ": " + string(outb)
					} else {
						done <- "ok"
					}
					return
				}
				_, err := maincmd.Main(context.Background(), quietEnv(), a.args(dst, d), nil)
				if err != nil {
					done <- "err:" + err.Error()
				} else {
					done <- "ok"
				}
			}()
			out := "timeout"
			select {
			case out = <-done:
			case <-time.After(30 * time.Second):
			}
			v := ""
			if out != "ok" {
				v = "FAIL[C01] a transfer of two sources with equal file names failed: " + strings.SplitN(out, "\n", 2)[0]
			} else {
				for k := 0; k < nDup && v == ""; k++ {
					name := fmt.Sprintf("f%02d", k)
					b, err := os.ReadFile(filepath.Join(dst, name))
					fi, err2 := os.Stat(filepath.Join(dst, name))
					if err != nil || err2 != nil {
						v = fmt.Sprintf("FAIL[C01] %q is missing after a successful run", name)
						break
					}
					okOne := false
					for si, sname := range []string{"s1", "s2"} {
						want := fmt.Sprintf("%s content of file %d %s", sname, k, strings.Repeat("x", si*3))
						if string(b) == want && fi.ModTime().Unix() == oldT+int64(1000*si+k) {
							okOne = true
						}
					}
					if !okOne {
						v = fmt.Sprintf("FAIL[C15] two sources with equal names (%s): %q has the content of one source file and the modification time of another (or neither): sender and receiver do not number the files identically", a.tag, name)
					}
				}
			}
			h.emit(fmt.Sprintf("!session-dups seed=%d %s files=%d", h.seed, a.tag, nDup), out, v, out == "ok")
			h.stat("session.dups")
			if out == "ok" && v == "" && !a.ext && a.tag == "local" {
				// the same invocation once more: a repeated sync is a no-op (C12) — also when two sources name the same files
				before := snapshot(dst)
				_, err := maincmd.Main(context.Background(), quietEnv(), a.args(dst, d), nil)
				after := snapshot(dst)
				v2 := ""
				if err != nil {
					v2 = "FAIL[C12] the repeated transfer of two sources with equal names failed: " + err.Error()
				}
				for _, pth := range before.keys() {
					if b, a2 := before[pth], after[pth]; b.kind == 'f' && (!bytes.Equal(b.content, a2.content) || b.mtime != a2.mtime) && v2 == "" {
						v2 = fmt.Sprintf("FAIL[C12] repeating a sync of two sources that name the same files changed %q again (content or modification time flips between the sources on every run)", pth)
					}
				}
				h.emit(fmt.Sprintf("!session-dups-repeat seed=%d %s files=%d", h.seed, a.tag, nDup), "ok", v2, true)
			}
		}
		if derr == nil {
			d.stop()
		}
		if dsrc != nil {
			dsrc.stop()
		}
	}
	// ---- two sources that name one entry as a symbolic link and as a directory: whichever of the two is created,
	// the other one's attributes are not applied through the link to something outside the destination (C05)
	for _, order := range []string{"link-first", "dir-first"} {
		dl := filepath.Join(base, "duplinks-"+order)
		outside := filepath.Join(dl, "outside")
		os.MkdirAll(outside, 0o755)
		outT := time.Unix(oldT+777, 0)
		os.Chtimes(outside, outT, outT)
		os.MkdirAll(filepath.Join(dl, "s1"), 0o755)
		os.Symlink("abs/", filepath.Join(dl, "s1", "d"))
		os.Symlink(outside, filepath.Join(dl, "s1", "abs"))
		os.MkdirAll(filepath.Join(dl, "s2", "d"), 0o755)
		os.MkdirAll(filepath.Join(dl, "s2", "ro"), 0o755)
		dT := time.Unix(oldT+5, 0)
		for _, n := range []string{"d", "ro"} {
			os.Chtimes(filepath.Join(dl, "s2", n), dT, dT)
			os.Chmod(filepath.Join(dl, "s2", n), 0o555)
		}
		srcs := []string{filepath.Join(dl, "s1") + "/", filepath.Join(dl, "s2") + "/"}
		if order == "dir-first" {
			srcs[0], srcs[1] = srcs[1], srcs[0]
		}
		dst := filepath.Join(dl, "dst")
		os.MkdirAll(dst, 0o755)
		_, err := maincmd.Main(context.Background(), quietEnv(), append(append([]string{"rsync", "-a"}, srcs...), dst), nil)
		out, v := "ok", ""
		if err != nil {
			out = "err"
		}
		if fi, serr := os.Stat(outside); serr != nil || fi.Mode().Perm() != 0o755 || !fi.ModTime().Equal(outT) {
			v = fmt.Sprintf("FAIL[C05] a directory outside the destination had its mode or modification time changed (now %v, %v) through a link that one source put in the place of the other source's directory", fi.Mode().Perm(), fi.ModTime().Unix())
		}
		h.emit(fmt.Sprintf("!session-duplinks seed=%d %s", h.seed, order), out, v, true)
		h.stat("session.duplinks")
		os.Chmod(filepath.Join(dl, "s2", "d"), 0o755)
		os.Chmod(filepath.Join(dl, "s2", "ro"), 0o755)
		filepath.Walk(dst, func(p string, info os.FileInfo, err error) error {
			if err == nil && info.IsDir() {
				os.Chmod(p, 0o755)
			}
			return nil
		})
	}
	// ---- an upload into a subdirectory of a daemon module that has to replace a symbolic link by another one (C11), with
	// a directory of the subdirectory's name in the daemon's working directory: nothing happens there (C05)
	{
		sl := filepath.Join(base, "subdirlink")
		modDir := filepath.Join(sl, "mod")
		os.MkdirAll(filepath.Join(modDir, "sub"), 0o755)
		os.Symlink("old-target", filepath.Join(modDir, "sub", "ln"))
		os.MkdirAll(filepath.Join(sl, "src"), 0o755)
		os.Symlink("new-target", filepath.Join(sl, "src", "ln"))
		os.WriteFile(filepath.Join(sl, "src", "f"), []byte("f"), 0o644)
		cwd, _ := os.Getwd()
		decoy := filepath.Join(sl, "cwd", "sub")
		os.MkdirAll(decoy, 0o755)
		decoyT := time.Unix(oldT+99, 0)
		os.Chtimes(decoy, decoyT, decoyT)
		os.Chdir(filepath.Join(sl, "cwd"))
		out, v := "ok", ""
		if d, err := startDaemon([]rsyncd.Module{{Name: "w", Path: modDir, Writable: true}}); err == nil {
			_, rerr := maincmd.Main(context.Background(), quietEnv(), []string{"rsync", "-a", filepath.Join(sl, "src") + "/", d.url("w", "sub/")}, nil)
			d.stop()
			if rerr != nil {
				out = "err"
				v = "FAIL[C11] an upload into module/sub/ that replaces a symbolic link by another one failed: " + strings.SplitN(rerr.Error(), "\n", 2)[0]
			} else if tg, _ := os.Readlink(filepath.Join(modDir, "sub", "ln")); tg != "new-target" {
				v = fmt.Sprintf("FAIL[C11] after an upload into module/sub/ the link points to %q, the source's to \"new-target\"", tg)
			}
			if fi, serr := os.Stat(decoy); serr != nil || !fi.ModTime().Equal(decoyT) {
				v = "FAIL[C05] an upload into module/sub/ created and removed entries in the directory sub of the daemon's working directory, outside the module"
				if rerr != nil {
					v += " || FAIL[C11]"
				}
			}
		}
		os.Chdir(cwd)
		h.emit(fmt.Sprintf("!session-subdir-link seed=%d", h.seed), out, v, true)
		h.stat("session.subdir-link")
	}
	// ---- a symbolic link named as a source argument (no trailing slash) arrives as that link (C11); with a trailing slash
	// the directory it points to is meant
	{
		la := filepath.Join(base, "linkarg")
		os.MkdirAll(filepath.Join(la, "src", "d"), 0o755)
		os.WriteFile(filepath.Join(la, "src", "target.txt"), []byte("t"), 0o644)
		os.WriteFile(filepath.Join(la, "src", "d", "x"), []byte("x"), 0o644)
		os.Symlink("target.txt", filepath.Join(la, "src", "link"))
		os.Symlink("d", filepath.Join(la, "src", "dlink"))
		d, derr := startDaemon([]rsyncd.Module{{Name: "m", Path: filepath.Join(la, "src")}})
		for _, arr := range []string{"local", "pull"} {
			if arr == "pull" && derr != nil {
				continue
			}
			dst := filepath.Join(la, "dst-"+arr)
			os.MkdirAll(dst, 0o755)
			args := []string{"rsync", "-a", filepath.Join(la, "src", "link"), filepath.Join(la, "src", "dlink"), dst + "/"}
			if arr == "pull" {
				args = []string{"rsync", "-a", d.url("m", "link"), dst + "/"}
			}
			_, err := maincmd.Main(context.Background(), quietEnv(), args, nil)
			out, v := "ok", ""
			if err != nil {
				out = "err"
			} else if tg, lerr := os.Readlink(filepath.Join(dst, "link")); lerr != nil || tg != "target.txt" {
				v = fmt.Sprintf("FAIL[C11] a symbolic link named as a source argument (%s) did not arrive as a link to \"target.txt\" (readlink: %q, %v): what it points to was copied in its place", arr, tg, lerr)
			} else if arr == "local" {
				if tg, lerr := os.Readlink(filepath.Join(dst, "dlink")); lerr != nil || tg != "d" {
					v = fmt.Sprintf("FAIL[C11] a symbolic link to a directory named as a source argument did not arrive as a link (readlink: %q, %v)", tg, lerr)
				}
			}
			h.emit(fmt.Sprintf("!session-linkarg seed=%d %s", h.seed, arr), out, v, true)
			h.stat("session.linkarg")
		}
		if derr == nil {
			d.stop()
		}
	}
	// ---- modification times beyond January 2038 do not fit the 32-bit field of protocol 27; however the sender squeezes
	// them in, a later change of the file at equal size with another such time is still picked up (C12)
	for _, arr := range []byte("LPU") {
		caseNo++
		dir := filepath.Join(base, fmt.Sprintf("latemtime%d", caseNo))
		srcRoot, dstRoot := filepath.Join(dir, "src"), filepath.Join(dir, "dst")
		os.MkdirAll(srcRoot, 0o755)
		os.MkdirAll(dstRoot, 0o755)
		fn := filepath.Join(srcRoot, "late.txt")
		t1, t2 := time.Date(2040, 5, 1, 12, 0, 0, 0, time.UTC), time.Date(2041, 6, 2, 13, 0, 0, 0, time.UTC)
		os.WriteFile(fn, []byte("hello"), 0o644)
		os.Chtimes(fn, t1, t1)
		out1 := runArr(arr, []string{"-a"}, srcRoot, true, dstRoot)
		os.WriteFile(fn, []byte("moon!"), 0o644)
		os.Chtimes(fn, t2, t2)
		out2 := runArr(arr, []string{"-a"}, srcRoot, true, dstRoot)
		v := ""
		if b, _ := os.ReadFile(filepath.Join(dstRoot, "late.txt")); out1 == "ok" && out2 == "ok" && string(b) != "moon!" {
			v = fmt.Sprintf("FAIL[C12] a file changed at equal size from one modification time after 2038 to another was not transferred again (destination holds %q)", b)
		}
		h.emit(fmt.Sprintf("!session-late-mtime seed=%d arr=%c", h.seed, arr), strings.SplitN(out1, ":", 2)[0]+"/"+strings.SplitN(out2, ":", 2)[0], v, true)
		h.stat("session.late-mtime")
		os.RemoveAll(dir)
	}
	// ---- rules with a slash name the end of the path, however the source is spelt on the command line (C13)
	for _, slash := range []bool{true, false} {
		for _, arr := range []byte("LPU") {
			caseNo++
			dir := filepath.Join(base, fmt.Sprintf("slashrule%d", caseNo))
			srcRoot, dstRoot := filepath.Join(dir, "src"), filepath.Join(dir, "dst")
			os.MkdirAll(filepath.Join(srcRoot, "sub"), 0o755)
			os.MkdirAll(filepath.Join(srcRoot, "other", "sub"), 0o755)
			os.MkdirAll(dstRoot, 0o755)
			for _, n := range []string{"sub/f", "sub/g", "other/sub/f", "f", "xsub"} {
				os.WriteFile(filepath.Join(srcRoot, n), []byte(n), 0o644)
			}
			out := runArr(arr, []string{"-a", "--exclude=sub/f"}, srcRoot, slash, dstRoot)
			pre := ""
			if !slash {
				pre = "src/"
			}
			v := ""
			if out != "ok" {
				v = "FAIL[C13] a transfer with --exclude=sub/f failed: " + strings.SplitN(out, "\n", 2)[0]
			}
			for _, n := range []string{"sub/f", "other/sub/f"} {
				if _, err := os.Lstat(filepath.Join(dstRoot, pre+n)); err == nil && v == "" {
					v = fmt.Sprintf("FAIL[C13] --exclude=sub/f: %q was transferred (source spelt %s a trailing slash): the rule's effect depends on how the source is written", pre+n, map[bool]string{true: "with", false: "without"}[slash])
				}
			}
			for _, n := range []string{"sub/g", "f", "xsub"} {
				if _, err := os.Lstat(filepath.Join(dstRoot, pre+n)); err != nil && v == "" {
					v = fmt.Sprintf("FAIL[C13] --exclude=sub/f: %q is missing, the rule does not name it", pre+n)
				}
			}
			h.emit(fmt.Sprintf("!session-slashrule seed=%d arr=%c slash=%v", h.seed, arr, slash), strings.SplitN(out, ":", 2)[0], v, true)
			h.stat("session.slashrule")
			os.RemoveAll(dir)
		}
	}
	// ---- the command line as a user's shell runs it: local copies with the process restrictions (landlock) the
	// implementation applies to itself when the kernel offers them. A run that reports success has copied the source.
	if self, err := os.Executable(); err == nil {
		rd := filepath.Join(base, "restricted")
		os.MkdirAll(filepath.Join(rd, "src", "sub", "inner"), 0o755)
		os.WriteFile(filepath.Join(rd, "src", "sub", "f"), []byte("payload"), 0o644)
		os.WriteFile(filepath.Join(rd, "src", "sub", "inner", "g"), []byte("payload2"), 0o644)
		for _, c := range []struct{ tag, srcArg, want string }{
			{"dir/", filepath.Join(rd, "src", "sub") + "/", "f"},
			{"dir", filepath.Join(rd, "src", "sub"), "sub/f"},
			{"file", filepath.Join(rd, "src", "sub", "f"), "f"},
		} {
			dst := filepath.Join(rd, "dst-"+strings.ReplaceAll(c.tag, "/", "S"))
			os.MkdirAll(dst, 0o755)
			cmd := exec.Command(self, "-cli", "rsync", "-rt", c.srcArg, dst+"/")
			outb, err := cmd.CombinedOutput()
			v := ""
			res := "ok"
			if err != nil {
				res = "err"
			} else if b, rerr := os.ReadFile(filepath.Join(dst, c.want)); rerr != nil || string(b) != "payload" {
				v = fmt.Sprintf("FAIL[C01] the restricted command line `rsync -rt %s dst/` reported success but %q was not copied (the process may not read what its own sender opens)", c.tag, c.want)
			}
			_ = outb
			h.emit(fmt.Sprintf("!session-restricted seed=%d source=%s", h.seed, c.tag), res, v, true)
			h.stat("session.restricted")
		}
	}
	// ---- --delete next to protected entries of every kind, and rules that name the transfer root itself: fixed
	// small trees in every arrangement
	{
		type fx struct {
			tag        string
			src, dst   sTree
			opts       []string
			stay, gone []string          // destination paths that must survive / must be removed
			want       map[string]string // content a destination file must have afterwards
			mayFail    bool              // the command line may be rejected: then by every arrangement alike, and nothing changes
		}
		f := func(c string) sNode { return sNode{kind: 'f', content: []byte(c), perm: 0o644, mtime: oldT} }
		dnode := sNode{kind: 'd', perm: 0o755, mtime: oldT}
		fixtures := []fx{
			{"protected-dirlink", sTree{"a": f("a")}, sTree{"a": f("a"), "cache": sNode{kind: 'l', target: "zdir"}, "cache~after": f("x"), "zdir": dnode, "zdir/inner": f("y"), "zz": f("z")},
				[]string{"-a", "--delete", "--exclude=cache"}, []string{"a", "cache"}, []string{"cache~after", "zdir", "zz"}, nil, false},
			{"protected-file", sTree{"a": f("a")}, sTree{"a": f("a"), "cache": f("c"), "cache~after": f("x"), "zz": f("z")},
				[]string{"-a", "--delete", "--exclude=cache"}, []string{"a", "cache"}, []string{"cache~after", "zz"}, nil, false},
			{"protected-dir", sTree{"a": f("a")}, sTree{"a": f("a"), "cache": dnode, "cache/in": f("c"), "cache~after": f("x"), "zz": f("z")},
				[]string{"-a", "--delete", "--exclude=cache"}, []string{"a", "cache", "cache/in"}, []string{"cache~after", "zz"}, nil, false},
			{"protected-below-extraneous", sTree{"a": f("a")}, sTree{"a": f("a"), "keep.db": f("top"), "olddir": dnode, "olddir/keep.db": f("k"), "olddir/other": f("o")},
				[]string{"-a", "--delete", "--exclude=keep.db"}, []string{"a", "keep.db", "olddir/keep.db"}, []string{"olddir/other"}, nil, false},
			// options that decide on the receiving side whether a file is requested: they must arrive there whoever sends
			{"ignore-times", sTree{"f": sNode{kind: 'f', content: []byte("NEW!"), perm: 0o644, mtime: oldT}}, sTree{"f": sNode{kind: 'f', content: []byte("OLD!"), perm: 0o644, mtime: oldT}},
				[]string{"-rt", "-I"}, []string{"f"}, nil, map[string]string{"f": "NEW!"}, false},
			{"quick-check", sTree{"f": sNode{kind: 'f', content: []byte("NEW!"), perm: 0o644, mtime: oldT}}, sTree{"f": sNode{kind: 'f', content: []byte("OLD!"), perm: 0o644, mtime: oldT}},
				[]string{"-rt"}, []string{"f"}, nil, map[string]string{"f": "OLD!"}, false},
			{"checksum", sTree{"f": sNode{kind: 'f', content: []byte("NEW!"), perm: 0o644, mtime: oldT}}, sTree{"f": sNode{kind: 'f', content: []byte("OLD!"), perm: 0o644, mtime: oldT}},
				[]string{"-rt", "-c"}, []string{"f"}, nil, map[string]string{"f": "NEW!"}, false},
			// a directory-only rule does not protect a file of that name: whoever sends, and whoever applies the rule
			{"dironly-rule-and-file", sTree{"a": f("a")}, sTree{"a": f("a"), "cache": f("a file, not a directory"), "zdir": dnode, "zdir/cache": f("nested file")},
				[]string{"-a", "--delete", "--exclude=cache/"}, []string{"a"}, []string{"cache", "zdir"}, nil, false},
			{"rule-names-root", sTree{"keep": f("k"), "src": f("nested same name"), "other": dnode, "other/file": f("o")}, sTree{},
				[]string{"-a", "--exclude=src"}, []string{"keep", "other", "other/file"}, []string{"src"}, nil, false},
			{"dironly-rule-names-root", sTree{"keep": f("k"), "src": dnode, "src/x": f("x"), "zlast": f("z")}, sTree{},
				[]string{"-a", "--exclude=src/"}, []string{"keep", "zlast"}, []string{"src", "src/x"}, nil, false},
			// a dry run runs to completion where the real run would: a file in the place of a source directory
			{"dry-file-in-place-of-dir", sTree{"a": dnode, "a/b": f("b"), "z": f("z")}, sTree{"a": f("a file"), "z": f("z")},
				[]string{"-a", "-n"}, []string{"a", "z"}, []string{"a/b"}, map[string]string{"a": "a file"}, false},
			{"dry-dir-in-place-of-file", sTree{"a": f("now a file"), "z": f("z")}, sTree{"a": dnode, "a/b": f("b"), "z": f("z")},
				[]string{"-a", "-n", "--delete"}, []string{"a", "a/b", "z"}, nil, map[string]string{"a/b": "b"}, false},
			// without recursion: -d copies the top level of a directory given with a trailing slash; --delete next to it must
			// not remove what the source has (or the combination is refused)
			{"dirs-top-level", sTree{"top": f("t"), "sub": dnode, "sub/f": f("deeper")}, sTree{},
				[]string{"-dt"}, []string{"top", "sub"}, []string{"sub/f"}, map[string]string{"top": "t"}, false},
			{"dirs-delete", sTree{"a": f("a"), "sub": dnode, "sub/x": f("x")}, sTree{"a": f("a"), "b": f("b"), "sub": dnode, "sub/y": f("y")},
				[]string{"-dt", "--delete"}, []string{"a", "sub"}, nil, map[string]string{"a": "a"}, true},
			// a list entry that is a file where the destination has a non-empty directory holding a protected entry: the
			// protected entry survives whatever becomes of the transfer (making room is no second deletion pass)
			{"typechange-protected-file", sTree{"a": f("a"), "x": f("a file now")}, sTree{"a": f("a"), "x": dnode, "x/keep": f("k"), "x/other": f("o")},
				[]string{"-a", "--delete", "--exclude=keep"}, []string{"a", "x/keep"}, nil, map[string]string{"x/keep": "k"}, true},
			{"typechange-protected-link", sTree{"a": f("a"), "x": sNode{kind: 'l', target: "a"}}, sTree{"a": f("a"), "x": dnode, "x/keep": f("k"), "x/other": f("o")},
				[]string{"-a", "--delete", "--exclude=keep"}, []string{"a", "x/keep"}, nil, map[string]string{"x/keep": "k"}, true},
			// rule syntax beyond '- NAME' / '+ NAME' is honoured or refused, never read as something else
			{"filter-protect-syntax", sTree{"a": f("a")}, sTree{"a": f("a"), "keep": f("k")},
				[]string{"-a", "--delete", "-f", "P keep"}, []string{"a", "keep"}, nil, nil, true},
			{"filter-merge-syntax", sTree{".rsync-filter": f("- a\n"), "a": f("a"), "b": f("b")}, sTree{},
				[]string{"-a", "-f", ": .rsync-filter"}, []string{"b"}, []string{"a"}, nil, true},
			{"filter-empty-rule", sTree{"a": f("a"), "zzz": f("z")}, sTree{},
				[]string{"-r", "--filter", "", "--exclude", "zzz"}, []string{"a"}, []string{"zzz"}, nil, true},
		}
		for _, fxr := range fixtures {
			outcomes := ""
			for _, arr := range []byte("LPU") {
				caseNo++
				dir := filepath.Join(base, fmt.Sprintf("fx%d", caseNo))
				srcRoot, dstRoot := filepath.Join(dir, "src"), filepath.Join(dir, "dst")
				os.MkdirAll(srcRoot, 0o755)
				os.MkdirAll(dstRoot, 0o755)
				fxr.src.write(srcRoot)
				fxr.dst.write(dstRoot)
				beforeFx := snapshot(dstRoot)
				out := runArr(arr, fxr.opts, srcRoot, true, dstRoot)
				after := snapshot(dstRoot)
				v := ""
				if out == "ok" {
					outcomes += "+"
				} else {
					outcomes += "-"
				}
				dryFx := strings.HasPrefix(fxr.tag, "dry-")
				if out != "ok" && !fxr.mayFail {
					v = "FAIL[C01] the transfer failed: " + strings.SplitN(out, "\n", 2)[0]
					if dryFx {
						v = "FAIL[C10] the dry run did not run to completion where the real run does: " + strings.SplitN(out, "\n", 2)[0]
					}
				}
				if (dryFx || out != "ok" && fxr.mayFail && !strings.HasPrefix(fxr.tag, "typechange-")) && v == "" {
					for _, pth := range beforeFx.keys() {
						b, a2 := beforeFx[pth], after[pth]
						if a2.kind != b.kind || !bytes.Equal(a2.content, b.content) || a2.mtime != b.mtime {
							if dryFx {
								v = fmt.Sprintf("FAIL[C10] the dry run changed %q", pth)
							} else {
								v = fmt.Sprintf("FAIL[C09] the refused command line (options %v) changed %q before it failed", fxr.opts, pth)
							}
							break
						}
					}
					if len(after) != len(beforeFx) && v == "" && dryFx {
						v = "FAIL[C10] the dry run created entries in the destination"
					}
				}
				if out != "ok" && fxr.mayFail && v == "" {
					for _, pth := range fxr.stay {
						if b, was := beforeFx[pth]; was {
							if a2, ok := after[pth]; !ok || !bytes.Equal(a2.content, b.content) {
								v = fmt.Sprintf("FAIL[C09] %q, which the list names or the exclude rule protects, was removed or changed by a run that failed (options %v)", pth, fxr.opts)
							}
						}
					}
				}
				if out != "ok" && fxr.mayFail {
					h.emit(fmt.Sprintf("!session-fixture seed=%d %s arr=%c", h.seed, fxr.tag, arr), "refused", v, true)
					h.stat("session.fixture")
					os.RemoveAll(dir)
					continue
				}
				for _, pth := range fxr.stay {
					if _, ok := after[pth]; !ok && v == "" {
						v = fmt.Sprintf("FAIL[C13] %q is missing after the transfer (options %v): it is listed and not excluded, or protected by the rule", pth, fxr.opts)
						if strings.HasPrefix(fxr.tag, "dirs-") {
							v = fmt.Sprintf("FAIL[C14] %q is missing after the transfer (options %v): -d copies the top level of a directory given with a trailing slash", pth, fxr.opts)
						}
						if _, wasThere := fxr.dst[pth]; wasThere {
							v = fmt.Sprintf("FAIL[C09] %q, which the exclude rule protects (or the list names), was removed (options %v)", pth, fxr.opts)
							if strings.HasPrefix(fxr.tag, "filter-") {
								v += " || FAIL[C13] the rule was read as something else than the user wrote"
							}
							if strings.HasPrefix(fxr.tag, "dirs-") {
								v += " || FAIL[C14] without recursion the sender lists less than the deleting side assumes"
							}
							if fxr.tag == "protected-below-extraneous" {
								v = fmt.Sprintf("FAIL[C09] entry %q protected by an exclude rule was deleted together with the extraneous directory above it (such a directory is removed with everything in it)", pth)
							}
						}
					}
				}
				for _, pth := range fxr.gone {
					if _, ok := after[pth]; ok && v == "" {
						if _, wasThere := fxr.dst[pth]; wasThere {
							v = fmt.Sprintf("FAIL[C09] extraneous entry %q survived --delete next to a protected entry (options %v)", pth, fxr.opts)
							if fxr.tag == "dironly-rule-and-file" {
								v += " || FAIL[C14] the rule reached the deleting side in another form than the user gave it || FAIL[C13]"
							}
						} else {
							v = fmt.Sprintf("FAIL[C13] excluded entry %q was transferred (options %v)", pth, fxr.opts)
						}
					}
				}
				for pth, c := range fxr.want {
					if g, ok := after[pth]; ok && string(g.content) != c && v == "" {
						v = fmt.Sprintf("FAIL[C12] with options %v %q holds %q afterwards, the update rule says %q (arrangement %c: the option did not reach the side that decides, or was not honoured)", fxr.opts, pth, g.content, c, arr)
					}
				}
				h.emit(fmt.Sprintf("!session-fixture seed=%d %s arr=%c", h.seed, fxr.tag, arr), strings.SplitN(out, ":", 2)[0], v, true)
				h.stat("session.fixture")
				os.RemoveAll(dir)
			}
			if fxr.mayFail {
				v := ""
				if strings.Contains(outcomes, "+") && strings.Contains(outcomes, "-") {
					v = fmt.Sprintf("FAIL[C14] the command line with options %v is carried out or fails depending on who sends (local, pull, upload: %s)", fxr.opts, outcomes)
					if strings.HasPrefix(fxr.tag, "filter-") {
						v += " || FAIL[C13]"
					}
				}
				h.emit(fmt.Sprintf("!session-fixture-agree seed=%d %s", h.seed, fxr.tag), outcomes, v, true)
			}
		}
	}
	// ---- options that decide what the *sending* side lists, given to a client whose peer sends: the outcome must not
	// depend on who sends (C14). One source directory named without a trailing slash, without -r:
	// -d lists the directory itself, --no-d / nothing lists nothing below it.
	{
		dd := filepath.Join(base, "dirsopt")
		os.MkdirAll(filepath.Join(dd, "srcs", "sub", "inner"), 0o755)
		os.WriteFile(filepath.Join(dd, "srcs", "sub", "f"), []byte("f"), 0o644)
		os.WriteFile(filepath.Join(dd, "srcs", "top"), []byte("top"), 0o644)
		for _, optset := range [][]string{{"-d"}, {"-dt"}, {"-d", "-p"}, {"--dirs"}, {"-t"}, {"-r", "--no-d"}, {"-d", "--no-r"}} {
			d, err := startDaemon([]rsyncd.Module{{Name: "m", Path: filepath.Join(dd, "srcs")}, {Name: "w", Path: filepath.Join(dd, "dst-U"), Writable: true}})
			if err != nil {
				break
			}
			results := map[string]string{}
			for _, arr := range []string{"L", "P", "U"} {
				dst := filepath.Join(dd, "dst-"+arr)
				os.RemoveAll(dst)
				os.MkdirAll(dst, 0o755)
				var args []string
				switch arr {
				case "L":
					args = append(append([]string{"rsync"}, optset...), filepath.Join(dd, "srcs", "sub"), filepath.Join(dd, "srcs", "top"), dst+"/")
				case "P":
					args = append(append([]string{"rsync"}, optset...), d.url("m", "sub"), d.url("m", "top"), dst+"/")
				case "U":
					args = append(append([]string{"rsync"}, optset...), filepath.Join(dd, "srcs", "sub"), filepath.Join(dd, "srcs", "top"), d.url("w", ""))
				}
				done := make(chan string, 1)
				go func() {
					if _, err := maincmd.Main(context.Background(), quietEnv(), args, nil); err != nil {
						done <- "err:" + strings.SplitN(err.Error(), "\n", 2)[0]
					} else {
						done <- "ok"
					}
				}()
				out := "timeout"
				select {
				case out = <-done:
				case <-time.After(30 * time.Second):
				}
				var names []string
				for _, p := range snapshot(dst).keys() {
					names = append(names, p)
				}
				results[arr] = strings.SplitN(out, ":", 2)[0] + " [" + strings.Join(names, " ") + "]"
			}
			d.stop()
			v := ""
			// (several remote sources in one pull: known finding D19 — compare what the first source gives)
			if results["L"] != results["U"] {
				v = fmt.Sprintf("FAIL[C14] options %v: a local copy gives %s, an upload of the same sources gives %s", optset, results["L"], results["U"])
			} else if !strings.Contains(results["P"], "sub") != !strings.Contains(results["L"], "sub") {
				v = fmt.Sprintf("FAIL[C14] options %v: a local copy gives %s, a pull of the same sources gives %s: the option does not reach the sending side", optset, results["L"], results["P"])
			}
			h.emit(fmt.Sprintf("!session-dirsopt seed=%d opts=%v", h.seed, optset), results["L"]+" | "+results["P"]+" | "+results["U"], v, true)
			h.stat("session.dirsopt")
		}
	}
	nCases := h.n(40, 1200)
	for i := 0; i < nCases; i++ {
		// ---- generate a source tree and a prior destination state
		src := sTree{}
		var names []string
		nf := 1 + h.rng.Intn(7)
		dirs := []string{""}
		for j := 0; j < nf; j++ {
			parent := dirs[h.rng.Intn(len(dirs))]
			// (names that begin like a rule prefix are plain names too: --exclude='+ plus' names the entry "+ plus")
			name := []string{"a", "b", "c", "d", "e", "file with space", "caf\xc3\xa9", "x\xffy", ".dot", "z.txt", "+ plus", "- minus", "plus", "minus", "src"}[h.rng.Intn(15)] // ("src" is also the name of the transfer root itself)
			if i%8 == 0 {                                                                                                                                                       // every eighth case: only names that look like rules, and rules naming them
				name = []string{"+ plus", "- minus", "plus", "minus", "a"}[h.rng.Intn(5)]
			}
			p := filepath.Join(parent, name)
			if _, dup := src[p]; dup {
				continue
			}
			switch k := h.rng.Intn(10); {
			case k < 6:
				size := h.pick(0, 1, 10, 699, 700, 701, 1400, 5000, 70000)
				if h.thorough() && h.rng.Intn(30) == 0 {
					size = h.pick(256*1024-1, 256*1024+1, 600*1024+7)
				}
				c := h.bytes(size)
				if h.rng.Intn(4) == 0 {
					for q := range c {
						c[q] = byte("ab"[q%2])
					}
				}
				src[p] = sNode{kind: 'f', content: c, perm: os.FileMode(h.pick(0o644, 0o600, 0o755, 0o444)), mtime: oldT + int64(h.rng.Intn(1000))}
			case k < 8:
				src[p] = sNode{kind: 'd', perm: os.FileMode(h.pick(0o755, 0o700, 0o555)), mtime: oldT + int64(h.rng.Intn(1000))}
				if utf8ok(p) {
					dirs = append(dirs, p)
				}
			case k < 9:
				src[p] = sNode{kind: 'l', target: h.pickS("t", "../x", "/abs", "a")}
			default:
				if os.Geteuid() == 0 && h.rng.Intn(2) == 0 {
					src[p] = sNode{kind: 'c', perm: 0o644, mtime: oldT}
				} else {
					src[p] = sNode{kind: 'p', perm: 0o644, mtime: oldT}
				}
			}
			names = append(names, p)
		}
		dst := sTree{}
		for _, p := range src.keys() {
			n := src[p]
			switch h.rng.Intn(7) {
			case 0: // identical
				dst[p] = n
			case 1: // edited variant used as delta basis
				if n.kind == 'f' {
					m := n
					m.content = editBytes(h, n.content)
					m.mtime = n.mtime - 50
					dst[p] = m
				}
			case 2: // same size, same mtime, different content (only -c / -I notice)
				if n.kind == 'f' && len(n.content) > 0 {
					m := n
					m.content = append([]byte{}, n.content...)
					m.content[0] ^= 0xff
					dst[p] = m
				}
			case 3: // other type in the way
				if n.kind == 'f' && h.rng.Intn(2) == 0 {
					dst[p] = sNode{kind: 'l', target: "elsewhere"}
				} else if n.kind == 'l' {
					dst[p] = sNode{kind: 'f', content: []byte("was a file"), perm: 0o644, mtime: oldT}
				}
			case 4: // emptied / truncated
				if n.kind == 'f' {
					m := n
					m.content = n.content[:len(n.content)/2]
					m.mtime = n.mtime + 7
					dst[p] = m
				}
			}
		}
		// parents of destination entries must exist as directories
		for p := range dst {
			for d := filepath.Dir(p); d != "."; d = filepath.Dir(d) {
				if _, ok := dst[d]; !ok {
					dst[d] = sNode{kind: 'd', perm: 0o755, mtime: oldT}
				} else if dst[d].kind != 'd' {
					delete(dst, p)
				}
			}
		}
		// extraneous entries (for --delete)
		nx := h.rng.Intn(4)
		for j := 0; j < nx; j++ {
			parent := dirs[h.rng.Intn(len(dirs))]
			if parent != "" {
				if n, ok := dst[parent]; !ok || n.kind != 'd' {
					continue
				}
			}
			p := filepath.Join(parent, h.pickS("extra1", "extra2", "a.extra", "zz"))
			if _, ok := src[p]; ok {
				continue
			}
			if h.rng.Intn(5) == 0 && len(names) > 0 {
				// an extraneous symlink to a directory, named like a source entry (so a rule can protect it), with
				// extraneous neighbours sorting after it
				base := filepath.Base(names[h.rng.Intn(len(names))])
				lp := filepath.Join(parent, base)
				if _, inSrc := src[lp]; !inSrc {
					if _, inDst := dst[lp]; !inDst {
						dst[lp] = sNode{kind: 'l', target: "."}
						dst[filepath.Join(parent, base+"~after")] = sNode{kind: 'f', content: []byte("extraneous"), perm: 0o644, mtime: oldT}
					}
				}
			}
			if h.rng.Intn(3) == 0 {
				dst[p] = sNode{kind: 'd', perm: 0o755, mtime: oldT}
				dst[p+"/inner"] = sNode{kind: 'f', content: []byte("x"), perm: 0o644, mtime: oldT}
				if len(names) > 0 && h.rng.Intn(2) == 0 {
					// an entry inside the extraneous directory that carries the name of a source entry: a rule naming it protects it
					dst[p+"/"+filepath.Base(names[h.rng.Intn(len(names))])] = sNode{kind: 'f', content: []byte("keep me"), perm: 0o644, mtime: oldT}
				}
			} else {
				dst[p] = sNode{kind: 'f', content: []byte("extraneous"), perm: 0o644, mtime: oldT}
			}
		}
		// ---- options
		optSets := [][]string{{"-r"}, {"-rt"}, {"-a"}, {"-rlpt"}, {"-rc"}, {"-rtI"}, {"-rlptgoD"}, {"-rtc"}, {"-rl"}, {"-rp"}, {"-a", "--delete"}, {"-rt", "--delete"}, {"-a", "-n"}, {"-a", "-n", "--delete"},
			// every option must influence the wire on its own (C14): one of -o/-g, one of --devices/--specials, --no-* forms
			{"-rto"}, {"-rtg"}, {"-a", "--no-g"}, {"-a", "--no-o"}, {"-rl", "--devices"}, {"-rl", "--specials"}, {"-a", "--no-devices"}, {"-a", "--no-specials"},
			{"-rlD"}, {"-a", "--no-D"}, {"-rlogc"}, {"-rDg", "--delete"}, {"-a", "--no-l", "--no-t"}, {"-ro", "-I"}}
		opts := append([]string{}, optSets[h.rng.Intn(len(optSets))]...)
		var rules []string
		if (i%8 == 0 || h.rng.Intn(3) == 0) && len(names) > 0 {
			for k := 1 + h.rng.Intn(2); k > 0; k-- {
				nm := filepath.Base(names[h.rng.Intn(len(names))])
				if h.rng.Intn(4) == 0 {
					opts = append(opts, "--include="+nm)
					rules = append(rules, "+ "+nm)
				} else {
					opts = append(opts, "--exclude="+nm)
					rules = append(rules, "- "+nm)
				}
			}
		}
		slash := h.rng.Intn(4) != 0
		flag := func(c string) bool {
			for _, o := range opts {
				if strings.HasPrefix(o, "-") && !strings.HasPrefix(o, "--") && strings.Contains(o, c) {
					return true
				}
			}
			return false
		}
		archive := flag("a")
		dry := flag("n")
		del := false
		for _, o := range opts {
			if o == "--delete" {
				del = true
			}
		}
		has := func(long string) bool {
			for _, o := range opts {
				if o == long {
					return true
				}
			}
			return false
		}
		checksum, ignoreTimes, times := flag("c"), flag("I"), (flag("t") || archive) && !has("--no-t") && !has("--no-times")
		links := (flag("l") || archive) && !has("--no-l") && !has("--no-links")
		// ---- run every arrangement on a fresh copy of the same state
		results := map[byte]sTree{}
		outcomes := map[byte]string{}
		nonUTF8Dir := false
		for p, n := range src {
			if n.kind == 'd' && !utf8ok(p) {
				nonUTF8Dir = true
			}
		}
		for p, n := range dst {
			if n.kind == 'd' && !utf8ok(p) {
				nonUTF8Dir = true
			}
		}
		for _, arr := range []byte("LPUA") {
			caseNo++
			dir := filepath.Join(base, fmt.Sprintf("s%d", caseNo))
			srcRoot := filepath.Join(dir, "src")
			dstRoot := filepath.Join(dir, "dst")
			os.MkdirAll(srcRoot, 0o755)
			os.MkdirAll(dstRoot, 0o755)
			src.write(srcRoot)
			dst.write(dstRoot)
			// the roots themselves are entries of the transfer (".", or "src" without a trailing slash): their
			// mtimes must not depend on when this arrangement happens to run
			os.Chtimes(srcRoot, time.Unix(oldT+7, 0), time.Unix(oldT+7, 0))
			os.Chtimes(dstRoot, time.Unix(oldT+9, 0), time.Unix(oldT+9, 0))
			before := snapshot(dstRoot)
			out := runArr(arr, opts, srcRoot, slash, dstRoot)
			after := snapshot(dstRoot)
			outcomes[arr] = out
			results[arr] = after
			prefix := ""
			if !slash {
				prefix = "src/"
			}
			// ---------------- oracles
			v := ""
			switch {
			case strings.HasPrefix(out, "panic"):
				v = "FAIL[C08] session panicked: " + out
			case out == "timeout":
				v = "FAIL[C18] session did not terminate within 30 s"
			case out != "ok":
				v = "FAIL[C01] a transfer of a static source tree in the supported domain failed: " + strings.SplitN(out, "\n", 2)[0]
			case dry:
				if before.describe(true) != after.describe(true) {
					v = "FAIL[C10] dry run changed the destination"
				}
			default:
				// C01 / C13: every selected regular file has the source's bytes unless the update rule says up to date
				for p, n := range src {
					if n.kind != 'f' {
						continue
					}
					// the rules see the name the entry has in the transfer: below the source directory's own name
					// ("src/…") when the source was given without a trailing slash — a rule that names "src" then
					// leaves out the whole transfer
					ex := excludedBy(rules, prefix+p)
					got, ok := after[prefix+p]
					was, had := before[prefix+p]
					if ex {
						// C13: an excluded entry is not transferred: destination keeps what it had
						if had != ok || (ok && (got.kind != was.kind || !bytes.Equal(got.content, was.content))) {
							if !(del && !ok) { // (deletion of protected entries is judged by C09 below)
								v = fmt.Sprintf("FAIL[C13] excluded entry %q was transferred", p)
							}
						}
						continue
					}
					upToDate := had && was.kind == 'f' && len(was.content) == len(n.content) &&
						((checksum && bytes.Equal(was.content, n.content)) || (!checksum && !ignoreTimes && was.mtime == n.mtime))
					if !ok || got.kind != 'f' {
						v = fmt.Sprintf("FAIL[C01] source file %q is missing at the destination after a successful run", p)
						if len(rules) > 0 {
							v = fmt.Sprintf("FAIL[C13] entry %q that no exclude rule matches first was left out", p)
						}
						break
					}
					if !bytes.Equal(got.content, n.content) && !(upToDate && bytes.Equal(got.content, was.content)) {
						v = fmt.Sprintf("FAIL[C01] destination file %q differs from the source after a successful run (%d vs %d bytes)", p, len(got.content), len(n.content))
						break
					}
					if times && got.mtime != n.mtime && v == "" {
						v = fmt.Sprintf("FAIL[C11] -t: mtime of %q is %d, want %d", p, got.mtime, n.mtime)
					}
				}
				if links && v == "" {
					for p, n := range src {
						if n.kind == 'l' && !excludedBy(rules, prefix+p) {
							if got, ok := after[prefix+p]; !ok || got.kind != 'l' || got.target != n.target {
								v = fmt.Sprintf("FAIL[C11] -l: symlink %q not reproduced", p)
							}
						}
					}
				}
				// C09: with --delete (and contents requested) exactly listed + protected entries survive
				if v == "" && slash {
					for p := range before {
						_, listed := src[p]
						anc := true
						for d := p; d != "."; d = filepath.Dir(d) {
							if _, ok := src[d]; !ok {
								anc = false
							}
						}
						_, survived := after[p]
						protected := excludedBy(rules, p)
						_ = listed
						if del {
							if !anc && !protected && survived {
								v = fmt.Sprintf("FAIL[C09] extraneous entry %q survived --delete", p)
							}
							if !anc && protected && !survived {
								v = fmt.Sprintf("FAIL[C09] entry %q protected by an exclude rule was deleted", p)
								if par := filepath.Dir(p); par != "." {
									if _, listedPar := src[par]; !listedPar && !excludedBy(rules, par) {
										v += " together with the extraneous directory above it (such a directory is removed with everything in it)"
									}
								}
							}
						} else if !survived && anc {
							// without --delete nothing listed disappears (type changes replace, never remove)
						} else if !survived {
							// an extraneous entry may only vanish when a listed entry of another type replaces its parent
							par := filepath.Dir(p)
							if n, ok := after[par]; par == "." || (ok && n.kind == 'd') {
								v = fmt.Sprintf("FAIL[C09] %q was removed although --delete was not given", p)
							}
						}
					}
				}
			}
			if nonUTF8Dir && v != "" {
				v += " (tree contains a directory whose name is not valid UTF-8)"
			}
			op := fmt.Sprintf("!session seed=%d case=%d arr=%c opts=%s slash=%v src=[%s] dst=[%s]", h.seed, i, arr, strings.Join(opts, ","), slash, src.describe(false), before.describe(false))
			h.emit(op, out, v, out == "ok")
			h.out.Flush()
			h.stat("session.arr=" + string(arr))
			os.RemoveAll(dir)
		}
		// C14: the outcome does not depend on who sends
		if !dry {
			ref := results['L'].agreeKey(times)
			for _, arr := range []byte("PUA") {
				if outcomes[arr] == "ok" && outcomes['L'] == "ok" && results[arr].agreeKey(times) != ref {
					h.emit(fmt.Sprintf("!session-agree seed=%d case=%d opts=%s slash=%v arr=L-vs-%c src=[%s] dst=[%s]", h.seed, i, strings.Join(opts, ","), slash, arr, src.describe(false), dst.describe(false)),
						"differs", fmt.Sprintf("FAIL[C14] destination after arrangement %c differs from the local copy: %s VS %s%s", arr, results[arr].agreeKey(times), ref,
							map[bool]string{true: " (tree contains a directory whose name is not valid UTF-8)", false: ""}[nonUTF8Dir]), true)
				}
			}
		}
	}
}

type duplex struct {
	r *os.File
	w *os.File
}

func (d *duplex) Read(p []byte) (int, error)  { return d.r.Read(p) }
func (d *duplex) Write(p []byte) (int, error) { return d.w.Write(p) }
func (d *duplex) Close() error                { d.r.Close(); return d.w.Close() }

func (h *H) pickS(xs ...string) string { return xs[h.rng.Intn(len(xs))] }
