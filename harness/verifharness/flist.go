//go:build verif

package main

// flist: C15 — the real sender's file list against the model encoder and the reference decoder;
// the real receiver's decoder against reference-encoded lists with every legal compression.

import (
	"bytes"
	"encoding/binary"
	"fmt"
	"io"
	"io/fs"
	"os"
	"os/exec"
	"path/filepath"
	"sort"
	"strings"
	"syscall"
	"testing/fstest"
	"time"
	"unicode/utf8"

	"github.com/gokrazy/rsync/internal/log"
	"github.com/gokrazy/rsync/internal/progress"
	"github.com/gokrazy/rsync/internal/receiver"
	"github.com/gokrazy/rsync/internal/rsyncopts"
	"github.com/gokrazy/rsync/internal/rsyncos"
	"github.com/gokrazy/rsync/internal/rsyncwire"
	"github.com/gokrazy/rsync/internal/sender"
	"golang.org/x/sys/unix"
)

func init() { suites["flist"] = suiteFlist }

func senderOptsFor(o refOpts, extra ...string) *rsyncopts.Options {
	osenv := &rsyncos.Env{Stdout: io.Discard, Stderr: io.Discard}
	pc := rsyncopts.NewContext(rsyncopts.NewOptionsWithGokrazyDefaults(osenv))
	args := []string{"--server", "--sender", "-r"}
	if o.uid {
		args = append(args, "-o")
	}
	if o.gid {
		args = append(args, "-g")
	}
	if o.links {
		args = append(args, "-l")
	}
	if o.devices {
		args = append(args, "--devices")
	}
	if o.specials {
		args = append(args, "--specials")
	}
	if o.checksum {
		args = append(args, "-c")
	}
	args = append(args, extra...)
	args = append(args, ".", "x")
	if err := pc.ParseArguments(osenv, args); err != nil {
		panic(err)
	}
	return pc.Options
}

// refWalk lists a tree the way the protocol expects a recursive sender to: "." first, then pre-order,
// children sorted bytewise; lstat metadata.
func refWalk(root string, o refOpts) []refEntry {
	var out []refEntry
	var rec func(rel string)
	stat := func(rel, name string) refEntry {
		var st unix.Stat_t
		unix.Lstat(filepath.Join(root, rel), &st)
		e := refEntry{name: []byte(name), size: st.Size, mtime: int32(st.Mtim.Sec), mode: int32(st.Mode & 0o777)}
		switch st.Mode & unix.S_IFMT {
		case unix.S_IFDIR:
			e.mode |= sIFDIR
			e.size = 4096
		case unix.S_IFREG:
			e.mode |= sIFREG
		case unix.S_IFLNK:
			e.mode |= sIFLNK
			t, _ := os.Readlink(filepath.Join(root, rel))
			e.target = []byte(t)
		case unix.S_IFCHR:
			e.mode |= sIFCHR
		case unix.S_IFBLK:
			e.mode |= sIFBLK
		case unix.S_IFIFO:
			e.mode |= sIFIFO
		case unix.S_IFSOCK:
			e.mode |= sIFSOCK
		}
		e.uid, e.gid, e.rdev = int32(st.Uid), int32(st.Gid), int32(st.Rdev)
		// fields that are not transmitted under these options
		if !o.uid {
			e.uid = 0
		}
		if !o.gid {
			e.gid = 0
		}
		if !e.hasRdev(o) {
			e.rdev = 0
		}
		if !o.links {
			e.target = nil
		}
		if o.checksum && e.mode&sIFMT == sIFREG {
			b, _ := os.ReadFile(filepath.Join(root, rel))
			copy(e.sum[:], md4sum(b))
		}
		return e
	}
	out = append(out, stat(".", "."))
	rec = func(rel string) {
		ents, _ := os.ReadDir(filepath.Join(root, rel))
		var names []string
		for _, e := range ents {
			names = append(names, e.Name())
		}
		sort.Strings(names)
		for _, n := range names {
			p := n
			if rel != "" {
				p = rel + "/" + n
			}
			e := stat(p, p)
			out = append(out, e)
			if e.isDir() {
				rec(p)
			}
		}
	}
	rec("")
	return out
}

func classifyFlistErr(err error) string {
	m := err.Error()
	switch {
	case err == io.EOF || err == io.ErrUnexpectedEOF || strings.HasSuffix(m, "EOF"):
		return "err:eof"
	case strings.HasPrefix(m, "overflow"):
		return "err:overflow"
	case strings.HasPrefix(m, "invalid symlink target length"):
		return "err:badlink"
	}
	return "err:other(" + m + ")"
}

// implDecode runs the real ReceiveFileList on raw bytes.
func implDecode(o refOpts, data []byte) (string, []refEntry) {
	rd := bytes.NewReader(data)
	topts := receiver.TransferOpts{PreserveUid: o.uid, PreserveGid: o.gid, PreserveLinks: o.links, PreserveDevices: o.devices, PreserveSpecials: o.specials,
		AlwaysChecksum: o.checksum, Server: true, InfoGTE: falseInfo, DebugGTE: falseDebug}
	rt := &receiver.Transfer{Logger: log.New(io.Discard), Opts: &topts, Env: &rsyncos.Env{Stdout: io.Discard, Stderr: io.Discard},
		Progress: progress.NewPrinter(io.Discard, time.Now), Conn: &rsyncwire.Conn{Reader: rd, Writer: io.Discard}}
	var fl []*receiver.File
	var err error
	outcome := ""
	func() {
		defer func() {
			if r := recover(); r != nil {
				outcome = "panic"
			}
		}()
		fl, err = rt.ReceiveFileList()
	}()
	if outcome == "panic" {
		return "panic", nil
	}
	if err != nil {
		return classifyFlistErr(err), nil
	}
	var es []refEntry
	for _, f := range fl {
		e := refEntry{name: []byte(f.Name), mode: f.Mode, size: f.Length, mtime: int32(f.ModTime.Unix()), uid: f.Uid, gid: f.Gid, rdev: f.Rdev, target: []byte(f.LinkTarget)}
		e.sum = f.Checksum
		es = append(es, e)
	}
	lines := strings.Split(showEntries(es, o), ";")
	sort.Strings(lines)
	s := strings.Join(lines, ";")
	if len(es) == 0 {
		s = "-"
	}
	return fmt.Sprintf("ok %s ioerr=%d rest=%d", s, rt.IOErrors, rd.Len()), es
}

func sortedLines(es []refEntry, o refOpts) string {
	if len(es) == 0 {
		return "-"
	}
	lines := strings.Split(showEntries(es, o), ";")
	sort.Strings(lines)
	return strings.Join(lines, ";")
}

// plainFS hides every optional method of a file system (ReadLink in particular)
type plainFS struct{ fs.FS }

func suiteFlist(h *H) {
	if h.extra != nil {
		for _, op := range h.extra {
			f := strings.Fields(op)
			switch f[0] {
			case "flist.dec":
				impl, _ := implDecode(parseRefOpts(f[1]), unhx(f[2]))
				h.emit(op, impl, "", true)
			case "clean":
				h.emit(op, "ok "+hx([]byte(filepath.Clean(string(unhx(f[1]))))), "", true)
			}
		}
		return
	}
	// (0) filepath.Clean vs the model
	comps := []string{"a", "b", "..", ".", "", "c.d", "...", "\xff", "..a", "a..", " "}
	for i := 0; i < h.n(400, 6000); i++ {
		var parts []string
		for k := h.rng.Intn(6); k >= 0; k-- {
			parts = append(parts, comps[h.rng.Intn(len(comps))])
		}
		p := strings.Join(parts, "/")
		if h.rng.Intn(4) == 0 {
			p = "/" + p
		}
		h.emit("clean "+hx([]byte(p)), "ok "+hx([]byte(filepath.Clean(p))), "", p != filepath.Clean(p))
		h.stat("clean")
	}
	// (1) the real sender's list for real trees: bytes vs model encoder; decoded by the reference decoder
	base, err := os.MkdirTemp("", "verif-flist")
	if err != nil {
		panic(err)
	}
	defer os.RemoveAll(base)
	isRoot := os.Getuid() == 0
	for i := 0; i < h.n(40, 600); i++ {
		dir := filepath.Join(base, fmt.Sprintf("t%d", i))
		os.Mkdir(dir, 0o755)
		o := refOpts{uid: h.rng.Intn(2) == 0, gid: h.rng.Intn(2) == 0, links: h.rng.Intn(2) == 0, devices: h.rng.Intn(2) == 0, specials: h.rng.Intn(2) == 0, checksum: h.rng.Intn(4) == 0}
		old := syscall.Umask(0)
		n := h.rng.Intn(12)
		var dirs = []string{""}
		for j := 0; j < n; j++ {
			parent := dirs[h.rng.Intn(len(dirs))]
			name := []string{"a", "b", "file with space", "caf\xc3\xa9", "x\xffy", strings.Repeat("n", h.pick(1, 50, 200)), ".hidden", "z.ext", "0"}[h.rng.Intn(9)] + fmt.Sprint(j)
			p := filepath.Join(dir, parent, name)
			switch k := h.rng.Intn(10); {
			case k < 4:
				os.WriteFile(p, h.bytes(h.pick(0, 1, 10, 700)), os.FileMode(h.pick(0o644, 0o600, 0o755, 0o400, 0o777, 0)))
				if h.rng.Intn(6) == 0 && !o.checksum {
					// sparse file: lengths around the 32/64-bit boundary of the length field
					os.Truncate(p, int64([]int64{1<<31 - 1, 1 << 31, 1<<32 - 1, 1 << 32, 1<<33 + 5, 1 << 40}[h.rng.Intn(6)]))
				}
			case k < 6:
				os.Mkdir(p, os.FileMode(h.pick(0o755, 0o700, 0o555)))
				if utf8ok(name) {
					dirs = append(dirs, filepath.Join(parent, name))
				}
			case k < 7:
				os.Symlink([]string{"t", "../up", "/abs", "dangling\xfe", strings.Repeat("l", 300)}[h.rng.Intn(5)], p)
			case k < 8:
				unix.Mkfifo(p, 0o644)
			case k < 9 && isRoot:
				unix.Mknod(p, syscall.S_IFCHR|0o600, h.pick(0x0103, 0x0801, 259<<8|5))
			case isRoot:
				unix.Mknod(p, syscall.S_IFBLK|0o660, h.pick(0x0800, 0x1f03))
			default:
				os.WriteFile(p, []byte("x"), 0o644)
			}
			if isRoot && h.rng.Intn(3) == 0 {
				os.Lchown(p, h.pick(0, 1000, 4242), h.pick(0, 1000, 4242))
			}
			t := time.Unix(int64(h.pick(0, 1, 1500000000, 1<<31-1, -1, -1<<31)), int64(h.rng.Intn(1e9)))
			os.Chtimes(p, t, t)
		}
		syscall.Umask(old)
		// make directories readable again for the walk (mode 0 files are fine as root)
		want := refWalk(dir, o)
		var out bytes.Buffer
		st := &sender.Transfer{Logger: log.New(io.Discard), Opts: senderOptsFor(o), Env: &rsyncos.Env{Stdout: io.Discard, Stderr: io.Discard},
			Progress: progress.NewPrinter(io.Discard, time.Now), Conn: &rsyncwire.Conn{Reader: strings.NewReader(""), Writer: &out}}
		outcome := "ok"
		func() {
			defer func() {
				if r := recover(); r != nil {
					outcome = fmt.Sprintf("panic:%v", r)
				}
			}()
			if _, err := st.SendFileList(dir, []string{"/"}, &sender.VerifFilterRuleList{}); err != nil {
				outcome = "err:" + err.Error()
			}
		}()
		raw := out.Bytes()
		// split off the entry section (up to and including the 0 terminator) with the reference decoder
		es, ioerr, rest, derr := refDecodeList(raw, o)
		v := ""
		entrySection := raw
		if derr == nil {
			// entry section = everything before the id lists / io error flag
			var tail bytes.Buffer
			refTailLen := len(raw) - len(rest) // consumed
			_ = tail
			// recompute the entry-section length by re-encoding nothing: find the terminator position by decoding entries only
			n2 := entrySectionLen(raw, o)
			if n2 > 0 {
				entrySection = raw[:n2]
			}
			_ = refTailLen
		}
		switch {
		case outcome != "ok":
			v = "FAIL SendFileList failed on a plain tree: " + outcome
		case derr != nil:
			v = "FAIL the reference protocol-27 decoder cannot read gokrazy's file list: " + derr.Error()
		case len(rest) != 0:
			v = "FAIL trailing bytes after the file list"
		case ioerr != 0 && treeHasNonUTF8Dir(dir):
			v = "FAIL[C15] the sender reported an I/O error and skipped the contents of a directory whose name is not valid UTF-8 (io/fs.ValidPath)"
		case ioerr != 0:
			v = fmt.Sprintf("FAIL io error flag %d on a readable tree", ioerr)
		case sortedLines(es, o) != sortedLines(want, o):
			v = "FAIL the decoded list differs from the source tree: got " + sortedLines(es, o) + " want " + sortedLines(want, o)
		}
		wantStr := showEntries(want, o)
		// the model op: encode the tree's entries (reference lstat walk, in walk order) as gokrazy does
		h.emit(fmt.Sprintf("flist.enc %s %s", o, wantStr), "ok "+hx(entrySection), v, len(want) > 1)
		h.stat("flist.enc")
		os.RemoveAll(dir)
	}
	// (1b) several source arguments in one list. The receiver's "previous entry" (for the same-as-previous
	// flags) runs across the boundary between two sources, so whatever the sender compresses must do so
	// too. Boundary entries get zero-valued fields (mtime 0, uid/gid 0) next to non-zero neighbours.
	for i := 0; i < h.n(16, 300); i++ {
		dir := filepath.Join(base, fmt.Sprintf("m%d", i))
		os.Mkdir(dir, 0o755)
		o := refOpts{uid: isRoot && h.rng.Intn(3) > 0, gid: isRoot && h.rng.Intn(3) > 0, links: true}
		var paths []string
		var want []refEntry
		nsrc := 2 + h.rng.Intn(2)
		for sIdx := 0; sIdx < nsrc; sIdx++ {
			name := fmt.Sprintf("s%d", sIdx)
			root := filepath.Join(dir, name)
			os.Mkdir(root, os.FileMode(h.pick(0o755, 0o700)))
			var made []string
			for j, k := 0, 1+h.rng.Intn(3); j < k; j++ {
				f := filepath.Join(root, fmt.Sprintf("f%d", j))
				os.WriteFile(f, h.bytes(h.pick(0, 5, 700)), os.FileMode(h.pick(0o644, 0o600, 0o755)))
				made = append(made, f)
			}
			made = append(made, root)
			for _, f := range made {
				if isRoot {
					os.Lchown(f, h.pick(0, 0, 1000, 65534), h.pick(0, 0, 1000, 65534))
				}
				t := time.Unix(int64(h.pick(0, 0, 1, 1230000000, 1500000000)), 0)
				os.Chtimes(f, t, t)
			}
			if h.rng.Intn(2) == 0 {
				paths = append(paths, name+"/")
				want = append(want, refWalk(root, o)...)
			} else {
				paths = append(paths, name)
				for _, e := range refWalk(root, o) {
					if string(e.name) == "." {
						e.name = []byte(name)
					} else {
						e.name = append([]byte(name+"/"), e.name...)
					}
					want = append(want, e)
				}
			}
		}
		var out bytes.Buffer
		st := &sender.Transfer{Logger: log.New(io.Discard), Opts: senderOptsFor(o), Env: &rsyncos.Env{Stdout: io.Discard, Stderr: io.Discard},
			Progress: progress.NewPrinter(io.Discard, time.Now), Conn: &rsyncwire.Conn{Reader: strings.NewReader(""), Writer: &out}}
		outcome := "ok"
		func() {
			defer func() {
				if r := recover(); r != nil {
					outcome = fmt.Sprintf("panic:%v", r)
				}
			}()
			if _, err := st.SendFileList(dir, paths, &sender.VerifFilterRuleList{}); err != nil {
				outcome = "err:" + err.Error()
			}
		}()
		raw := out.Bytes()
		es, ioerr, rest, derr := refDecodeList(raw, o)
		v := ""
		switch {
		case outcome != "ok":
			v = "FAIL SendFileList failed on plain trees: " + outcome
		case derr != nil:
			v = "FAIL the reference protocol-27 decoder cannot read gokrazy's file list for several sources: " + derr.Error()
		case len(rest) != 0 || ioerr != 0:
			v = fmt.Sprintf("FAIL trailing bytes (%d) or io error flag (%d) after the file list", len(rest), ioerr)
		case sortedLines(es, o) != sortedLines(want, o):
			v = "FAIL an independent protocol-27 decoder reads the list of several sources to something other than the source trees: " +
				firstDiff(strings.ReplaceAll(sortedLines(es, o), ";", "\n"), strings.ReplaceAll(sortedLines(want, o), ";", "\n"))
		}
		if v == "" {
			// and gokrazy's own receiver must read the same entries
			impl, got := implDecode(o, raw)
			if !strings.HasPrefix(impl, "ok ") {
				v = "FAIL gokrazy's receiver does not accept gokrazy's list for several sources: " + impl
			} else if sortedLines(got, o) != sortedLines(want, o) {
				v = "FAIL gokrazy's receiver reads gokrazy's list for several sources to something other than the source trees: " +
					firstDiff(strings.ReplaceAll(sortedLines(got, o), ";", "\n"), strings.ReplaceAll(sortedLines(want, o), ";", "\n"))
			}
		}
		n2 := entrySectionLen(raw, o)
		entrySection := raw
		if n2 > 0 {
			entrySection = raw[:n2]
		}
		h.emit(fmt.Sprintf("flist.enc %s %s", o, showEntries(want, o)), "ok "+hx(entrySection), v, true)
		h.stat("flist.enc.multi")
		os.RemoveAll(dir)
	}
	// (1c) an entry the sender cannot describe completely (a symlink it cannot read on a source without
	// ReadLink): whatever the sender does about it — abort, or skip the entry — the list it keeps for itself
	// and the list on the wire must name the same entries, or every later index means another file
	for i := 0; i < h.n(6, 60); i++ {
		mfs := fstest.MapFS{}
		names := []string{"a.txt", "b/inner.txt", "m.txt", "z.txt", "k.bin"}
		for _, n := range names[:2+h.rng.Intn(4)] {
			mfs[n] = &fstest.MapFile{Data: h.bytes(1 + h.rng.Intn(40)), Mode: 0o644, ModTime: time.Unix(1500000000+int64(h.rng.Intn(100)), 0)}
		}
		lname := h.pickS("c-link", "b/l", "0first", "zz-last", "m.lnk")
		mfs[lname] = &fstest.MapFile{Data: []byte("target"), Mode: fs.ModeSymlink | 0o777, ModTime: time.Unix(1500000000, 0)}
		o := refOpts{links: i%4 != 3, checksum: i%3 == 2}
		var out bytes.Buffer
		st := &sender.Transfer{Logger: log.New(io.Discard), Opts: senderOptsFor(o), Env: &rsyncos.Env{Stdout: io.Discard, Stderr: io.Discard},
			Progress: progress.NewPrinter(io.Discard, time.Now), Conn: &rsyncwire.Conn{Reader: strings.NewReader(""), Writer: &out},
			Source: sender.NewFSSource(plainFS{mfs})}
		outcome := "ok"
		var kept []string
		func() {
			defer func() {
				if r := recover(); r != nil {
					outcome = fmt.Sprintf("panic:%v", r)
				}
			}()
			fl, err := st.SendFileList("/", []string{"/"}, &sender.VerifFilterRuleList{})
			if err != nil {
				outcome = "err"
			} else {
				kept = sender.VerifListNames(fl)
			}
		}()
		v := ""
		if strings.HasPrefix(outcome, "panic") {
			v = "FAIL[C08] SendFileList panicked on a source whose symlinks cannot be read: " + outcome
		} else if outcome == "ok" {
			es, _, _, derr := refDecodeList(out.Bytes(), o)
			var wire []string
			for _, e := range es {
				wire = append(wire, string(e.name))
			}
			sort.Strings(wire)
			k2 := append([]string{}, kept...)
			sort.Strings(k2)
			if derr != nil {
				v = "FAIL the reference decoder cannot read the list: " + derr.Error()
			} else if strings.Join(wire, "\x00") != strings.Join(k2, "\x00") {
				v = fmt.Sprintf("FAIL[C15] the sender keeps %d entries %q for itself but wrote %d entries %q to the wire: a request by index means different files on the two sides", len(k2), k2, len(wire), wire)
			}
		}
		h.emit(fmt.Sprintf("!flist-unreadable seed=%d case=%d opts=%s link=%s", h.seed, i, o, lname), outcome, v, true)
		h.stat("flist.unreadable." + outcome)
	}
	// (1d) lists built under exclude rules, with few distinct modification times: what the wire says about
	// an entry (its mtime in particular — the update rule compares it) must be the entry's own, whatever was
	// left out in front of it
	for i := 0; i < h.n(24, 400); i++ {
		dir := filepath.Join(base, fmt.Sprintf("x%d", i))
		os.Mkdir(dir, 0o755)
		o := refOpts{links: true}
		names := []string{"a", "b.tmp", "c.txt", "d", "e.lock", "f", "g.tmp", "h"}
		times := []int64{1400000000, 1400000777, 1500000000}
		var excl []string
		for _, n := range names {
			if h.rng.Intn(4) == 0 {
				continue
			}
			p := filepath.Join(dir, n)
			if n == "d" {
				os.Mkdir(p, 0o755)
				os.WriteFile(filepath.Join(p, "in.tmp"), []byte("x"), 0o644)
				os.WriteFile(filepath.Join(p, "keep"), []byte("y"), 0o644)
				for _, q := range []string{"in.tmp", "keep"} {
					t := time.Unix(times[h.rng.Intn(len(times))], 0)
					os.Chtimes(filepath.Join(p, q), t, t)
				}
			} else {
				os.WriteFile(p, []byte("content of "+n), 0o644)
			}
			t := time.Unix(times[h.rng.Intn(len(times))], 0)
			os.Chtimes(p, t, t)
		}
		rootT := time.Unix(times[h.rng.Intn(len(times))], 0)
		os.Chtimes(dir, rootT, rootT)
		for _, n := range []string{"b.tmp", "e.lock", "g.tmp", "in.tmp", "c.txt", "d"} {
			if h.rng.Intn(3) == 0 {
				excl = append(excl, "- "+n)
			}
		}
		rules, perr := sender.ParseFilterRules(excl)
		if perr != nil {
			continue
		}
		var want []refEntry
		for _, e := range refWalk(dir, o) {
			if string(e.name) == "." || !excludedByKind(excl, string(e.name), e.isDir()) {
				want = append(want, e)
			}
		}
		var out bytes.Buffer
		st := &sender.Transfer{Logger: log.New(io.Discard), Opts: senderOptsFor(o), Env: &rsyncos.Env{Stdout: io.Discard, Stderr: io.Discard},
			Progress: progress.NewPrinter(io.Discard, time.Now), Conn: &rsyncwire.Conn{Reader: strings.NewReader(""), Writer: &out}}
		outcome := "ok"
		func() {
			defer func() {
				if r := recover(); r != nil {
					outcome = fmt.Sprintf("panic:%v", r)
				}
			}()
			if _, err := st.SendFileList(dir, []string{"/"}, rules); err != nil {
				outcome = "err:" + err.Error()
			}
		}()
		es, _, _, derr := refDecodeList(out.Bytes(), o)
		v := ""
		switch {
		case outcome != "ok":
			v = "FAIL SendFileList failed on a plain tree with exclude rules: " + outcome
		case derr != nil:
			v = "FAIL the reference decoder cannot read the list built under exclude rules: " + derr.Error()
		case sortedLines(es, o) != sortedLines(want, o):
			v = "FAIL a list built under exclude rules " + fmt.Sprint(excl) + " does not describe the entries that were not excluded: " +
				firstDiff(strings.ReplaceAll(sortedLines(es, o), ";", "\n"), strings.ReplaceAll(sortedLines(want, o), ";", "\n"))
		}
		h.emit(fmt.Sprintf("!flist-filtered seed=%d case=%d rules=%q", h.seed, i, excl), strings.SplitN(outcome, ":", 2)[0], v, len(excl) > 0)
		h.stat("flist.filtered")
		os.RemoveAll(dir)
	}
	// (2) the real receiver on reference-encoded lists: every legal compression, sorted and shuffled wire order
	for i := 0; i < h.n(300, 6000); i++ {
		o := refOpts{uid: h.rng.Intn(2) == 0, gid: h.rng.Intn(2) == 0, links: h.rng.Intn(2) == 0, devices: h.rng.Intn(2) == 0, specials: h.rng.Intn(2) == 0, checksum: h.rng.Intn(4) == 0}
		es := genEntries(h, h.pick(0, 1, 3, 10, 40), o)
		for j := range es {
			switch h.rng.Intn(12) {
			case 0:
				es[j].mode = sIFCHR | 0o600
				es[j].rdev = int32(h.pick(0x0103, 0x0801))
				es[j].target = nil
			case 1:
				es[j].mode = sIFIFO | 0o644
				es[j].target = nil
			case 2:
				es[j].mode = sIFSOCK | 0o755
				es[j].target = nil
			case 3:
				es[j].mode = sIFBLK | 0o660
				es[j].rdev = int32(h.pick(0x0800, 0x0801))
				es[j].target = nil
			}
			if !es[j].hasRdev(o) {
				es[j].rdev = 0
			}
			if o.checksum {
				copy(es[j].sum[:], h.bytes(16))
			}
			if h.rng.Intn(10) == 0 && j > 0 {
				es[j].name = append(append([]byte{}, es[j].name...), 0xff, 0x80)
			}
		}
		if h.rng.Intn(3) == 0 {
			h.rng.Shuffle(len(es), func(a, b int) { es[a], es[b] = es[b], es[a] })
		}
		data := refEncodeList(es, o, h.rng, int32(h.pick(0, 0, 0, 1)))
		impl, got := implDecode(o, data)
		v := ""
		if !strings.HasPrefix(impl, "ok ") {
			v = "FAIL a valid protocol-27 list was not accepted: " + impl
		} else if sortedLines(got, o) != sortedLines(es, o) {
			v = "FAIL decoded entries differ from the entries that were sent"
		} else {
			// both sides number the files identically: the receiver's order is the bytewise name order
			for k := 1; k < len(got); k++ {
				if bytes.Compare(got[k-1].name, got[k].name) > 0 {
					v = "FAIL receiver's list is not sorted bytewise by name"
				}
			}
		}
		h.emit(fmt.Sprintf("flist.dec %s %s", o, hx(data)), impl, v, len(es) > 1)
		h.stat("flist.dec.valid")
		// hostile variants (outcome classes must agree with the model; C08 judges them)
		if i%3 == 0 && len(data) > 4 {
			d := append([]byte{}, data...)
			switch h.rng.Intn(3) {
			case 0:
				d = d[:h.rng.Intn(len(d))]
			case 1:
				d[h.rng.Intn(len(d))] ^= byte(1 << uint(h.rng.Intn(8)))
			case 2:
				pos := h.rng.Intn(len(d))
				copy(d[pos:], []byte{0xff, 0xff, 0xff, 0xff})
			}
			impl, _ := implDecode(o, d)
			vv := ""
			if impl == "panic" {
				vv = "FAIL[C08] ReceiveFileList panicked on a damaged list"
			}
			if strings.HasPrefix(impl, "err:other") {
				impl = "err:other"
			}
			h.emit(fmt.Sprintf("flist.dec %s %s", o, hx(d)), impl, vv, false)
			h.stat("flist.dec.hostile")
		}
	}
	// (3) a second, independent implementation as the encoder: tridge rsync (when installed) run as
	// `rsync --server --sender` at protocol 27 on real trees. Its file list — which uses name-prefix
	// sharing, one-byte lengths and the SAME_* flags wherever it can — must decode with the reference
	// decoder to exactly the tree, and the real ReceiveFileList and the Lean decoder must read it the same way.
	tridgeFlist(h)
}

func treeHasNonUTF8Dir(root string) bool {
	found := false
	filepath.Walk(root, func(p string, info os.FileInfo, err error) error {
		if err == nil && info.IsDir() && !utf8.ValidString(p) {
			found = true
		}
		return nil
	})
	return found
}

func utf8ok(s string) bool {
	for _, r := range s {
		if r == 0xfffd {
			return false
		}
	}
	return true
}

// entrySectionLen: number of bytes up to and including the terminating 0 flag byte.
func entrySectionLen(data []byte, o refOpts) int {
	r := &refReader{b: data}
	var prev refEntry
	for {
		flags := r.u8()
		if r.err != nil {
			return 0
		}
		if flags == 0 {
			return len(data) - len(r.b)
		}
		var e refEntry
		l1 := 0
		if flags&xSameName != 0 {
			l1 = r.u8()
		}
		var l2 int
		if flags&xLongName != 0 {
			l2 = int(r.i32())
		} else {
			l2 = r.u8()
		}
		if l1 > len(prev.name) || l2 < 0 {
			return 0
		}
		e.name = append(append([]byte{}, prev.name[:l1]...), r.take(l2)...)
		r.long()
		if flags&xSameTime == 0 {
			r.i32()
		}
		if flags&xSameMode != 0 {
			e.mode = prev.mode
		} else {
			e.mode = r.i32()
		}
		if o.uid && flags&xSameUID == 0 {
			r.i32()
		}
		if o.gid && flags&xSameGID == 0 {
			r.i32()
		}
		if e.hasRdev(o) && flags&xSameRdev == 0 {
			r.i32()
		}
		if o.links && e.isLink() {
			r.take(int(r.i32()))
		}
		if o.checksum {
			r.take(16)
		}
		if r.err != nil {
			return 0
		}
		prev = e
	}
}

// tridgeFlist runs tridge rsync as the sender of generated trees and feeds what it writes to the decoders.
func tridgeFlist(h *H) {
	bin, err := exec.LookPath("rsync")
	if err != nil {
		h.stat("flist.tridge.absent")
		return
	}
	base, err := os.MkdirTemp("", "verif-tridge")
	if err != nil {
		return
	}
	defer os.RemoveAll(base)
	isRoot := os.Geteuid() == 0
	for i := 0; i < h.n(12, 200); i++ {
		dir := filepath.Join(base, fmt.Sprintf("t%d", i))
		os.MkdirAll(dir, 0o755)
		old := syscall.Umask(0)
		var dirs = []string{dir}
		n := 1 + h.rng.Intn(25)
		for j := 0; j < n; j++ {
			parent := dirs[h.rng.Intn(len(dirs))]
			name := []string{"a", "ab", "abc", "abcd-long-shared-prefix-0001", "abcd-long-shared-prefix-0002", "abcd-long-shared-prefix-0002x", "b", "z.txt", "caf\xc3\xa9", "sp ace", strings.Repeat("n", 200)}[h.rng.Intn(11)]
			p := filepath.Join(parent, name)
			if _, err := os.Lstat(p); err == nil {
				continue
			}
			switch k := h.rng.Intn(12); {
			case k < 6:
				os.WriteFile(p, h.bytes(h.pick(0, 1, 700, 70000)), os.FileMode(h.pick(0o644, 0o600, 0o755)))
			case k < 8:
				os.Mkdir(p, os.FileMode(h.pick(0o755, 0o700)))
				dirs = append(dirs, p)
			case k < 10:
				os.Symlink(h.pickS("a", "../x", "/abs/target", strings.Repeat("t", 300)), p)
			case k == 10:
				syscall.Mkfifo(p, 0o644)
			default:
				if isRoot {
					syscall.Mknod(p, syscall.S_IFCHR|0o600, 0x0103)
				}
			}
			if isRoot && h.rng.Intn(3) == 0 {
				os.Lchown(p, h.pick(0, 1, 1000, 65534), h.pick(0, 2, 1000, 65534))
			}
			if fi, err := os.Lstat(p); err == nil && fi.Mode()&os.ModeSymlink == 0 {
				t := time.Unix(int64(h.pick(0, 1500000000, 1500000000, 1600000000, 1<<31-1)), 0)
				os.Chtimes(p, t, t)
			}
		}
		syscall.Umask(old)
		for _, oc := range []struct {
			flags string
			o     refOpts
		}{{"-logDtpr", refOpts{uid: true, gid: true, links: true, devices: true, specials: true}}, {"-ltr", refOpts{links: true}}, {"-r", refOpts{}}, {"-ogr", refOpts{uid: true, gid: true}}} {
			cmd := exec.Command(bin, "--server", "--sender", oc.flags, ".", dir+"/")
			stdin, _ := cmd.StdinPipe()
			stdout, _ := cmd.StdoutPipe()
			cmd.Stderr = io.Discard
			if err := cmd.Start(); err != nil {
				continue
			}
			var v27 [4]byte
			binary.LittleEndian.PutUint32(v27[:], 27)
			stdin.Write(v27[:])
			stdin.Write([]byte{0, 0, 0, 0}) // empty filter list
			var raw []byte
			done := make(chan struct{})
			go func() {
				buf := make([]byte, 64*1024)
				for {
					n, err := stdout.Read(buf)
					raw = append(raw, buf[:n]...)
					if err != nil {
						break
					}
					if len(raw) > 8 {
						d, _, whole := demuxPartial(raw[8:])
						if whole {
							if _, _, left, derr := refDecodeList(d, oc.o); derr == nil && len(left) == 0 {
								break
							}
						}
					}
				}
				close(done)
			}()
			select {
			case <-done:
			case <-time.After(10 * time.Second):
			}
			cmd.Process.Kill()
			cmd.Wait()
			<-done
			if len(raw) < 8 {
				h.stat("flist.tridge.noanswer")
				continue
			}
			data, _ := demuxAll(raw[8:])
			want := refWalk(dir, oc.o)
			// tridge sends directory sizes as they are; the comparison leaves sizes of directories out (gokrazy overrides them too)
			impl, got := implDecode(oc.o, data)
			v := ""
			es, _, rest, derr := refDecodeList(data, oc.o)
			norm := func(l []refEntry) string {
				c := append([]refEntry{}, l...)
				for k := range c {
					if c[k].isDir() {
						c[k].size = 0
					}
					if !oc.o.uid {
						c[k].uid = 0
					}
					if !oc.o.gid {
						c[k].gid = 0
					}
					// tridge (protocol < 31) sends no device number for fifos and sockets: it flags them
					// "same rdev as the previous entry", so whatever device number came before is what
					// any decoder reads; the number is meaningless for these types and is left out
					if c[k].isSpecial() {
						c[k].rdev = 0
					}
				}
				return sortedLines(c, oc.o)
			}
			switch {
			case derr != nil || len(rest) != 0:
				v = fmt.Sprintf("FAIL the reference decoder cannot read tridge rsync's protocol-27 file list (%v, %d bytes left): the reference codec itself is wrong", derr, len(rest))
			case norm(es) != norm(want):
				v = "FAIL the reference decoder reads tridge rsync's list to something other than the tree: " + firstDiff(strings.ReplaceAll(norm(es), ";", "\n"), strings.ReplaceAll(norm(want), ";", "\n"))
			case !strings.HasPrefix(impl, "ok "):
				v = "FAIL gokrazy's receiver does not accept tridge rsync's protocol-27 file list: " + impl
			case norm(got) != norm(want):
				v = "FAIL gokrazy's receiver reads tridge rsync's list to something other than the tree: " + firstDiff(strings.ReplaceAll(norm(got), ";", "\n"), strings.ReplaceAll(norm(want), ";", "\n"))
			}
			h.emit(fmt.Sprintf("flist.dec %s %s #tridge %s", oc.o, hx(data), oc.flags), impl, v, len(es) > 1)
			h.stat("flist.tridge")
		}
		os.RemoveAll(dir)
	}
}
