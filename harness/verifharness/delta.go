//go:build verif

package main

// delta: the real sender (SendFiles/hashSearch/sendFile) against harness-supplied block sums, and
// the real receiver (recvFile1/receiveData) against scripted token streams.

import (
	"bytes"
	"encoding/binary"
	"fmt"
	"io"
	"io/fs"
	"os"
	"path/filepath"
	"strconv"
	"strings"
	"time"

	"github.com/gokrazy/rsync/internal/log"
	"github.com/gokrazy/rsync/internal/progress"
	"github.com/gokrazy/rsync/internal/receiver"
	"github.com/gokrazy/rsync/internal/rsyncchecksum"
	"github.com/gokrazy/rsync/internal/rsynccommon"
	"github.com/gokrazy/rsync/internal/rsyncopts"
	"github.com/gokrazy/rsync/internal/rsyncos"
	"github.com/gokrazy/rsync/internal/rsyncwire"
	"github.com/gokrazy/rsync/internal/sender"
	"github.com/mmcloughlin/md4"
)

func init() {
	suites["checksum"] = suiteChecksum
	suites["search"] = suiteSearch
	suites["recvdata"] = suiteRecvData
}

// ---- in-memory file source -----------------------------------------------------------------

type memFS map[string][]byte

type memFile struct {
	*bytes.Reader
	name string
	size int64
}

func (f *memFile) Stat() (fs.FileInfo, error) { return memInfo{f.name, f.size}, nil }
func (f *memFile) Close() error               { return nil }

type memInfo struct {
	name string
	size int64
}

func (i memInfo) Name() string       { return i.name }
func (i memInfo) Size() int64        { return i.size }
func (i memInfo) Mode() fs.FileMode  { return 0o644 }
func (i memInfo) ModTime() time.Time { return time.Unix(0, 0) }
func (i memInfo) IsDir() bool        { return false }
func (i memInfo) Sys() any           { return nil }

type memSource struct{ m memFS }

func (s memSource) FS() fs.FS { return nil }
func (s memSource) Open(name string) (sender.File, error) {
	b, ok := s.m[name]
	if !ok {
		return nil, &fs.PathError{Op: "open", Path: name, Err: fs.ErrNotExist}
	}
	return &memFile{Reader: bytes.NewReader(b), name: name, size: int64(len(b))}, nil
}
func (s memSource) Readlink(name string) (string, error) { return "", fs.ErrInvalid }
func (s memSource) Close() error                         { return nil }

// ---- reference checksums (written from the rsync technical report, not from rsyncchecksum.go) --

func refWeak(b []byte) uint32 {
	var s1, s2 int64
	for i, c := range b {
		v := int64(int8(c))
		s1 += v
		s2 += int64(len(b)-i) * v
	}
	return uint32(uint16(s1)) | uint32(uint16(s2))<<16
}

func refStrong(seed int32, b []byte) []byte {
	h := md4.New()
	h.Write(b)
	var s [4]byte
	binary.LittleEndian.PutUint32(s[:], uint32(seed))
	h.Write(s[:])
	return h.Sum(nil)
}

func refFileSum(seed int32, b []byte) []byte {
	h := md4.New()
	var s [4]byte
	binary.LittleEndian.PutUint32(s[:], uint32(seed))
	h.Write(s[:])
	h.Write(b)
	return h.Sum(nil)
}

type sumHead struct{ count, bl, cs, rem int32 }

type blockSum struct {
	sum1 uint32
	sum2 []byte
}

// refSums: the signature a receiver holding `basis` would send for the layout (bl, cs).
func refSums(seed int32, basis []byte, bl, cs int) (sumHead, []blockSum) {
	var sums []blockSum
	for off := 0; off < len(basis); off += bl {
		end := min(off+bl, len(basis))
		sums = append(sums, blockSum{refWeak(basis[off:end]), refStrong(seed, basis[off:end])[:cs]})
	}
	return sumHead{int32(len(sums)), int32(bl), int32(cs), int32(len(basis) % bl)}, sums
}

func blockLenOf(h sumHead, i int) int {
	if i == int(h.count)-1 && h.rem != 0 {
		return int(h.rem)
	}
	return int(h.bl)
}

// ---- running the real sender ------------------------------------------------------------------

type tok struct {
	lit []byte
	ref int
}

type sendResult struct {
	outcome string // ok | err:… | panic:…
	head    sumHead
	toks    []tok // as on the wire (unmerged)
	trailer []byte
	idx     int32
	extra   int // unparsed bytes
}

func serverOpts() *rsyncopts.Options {
	osenv := &rsyncos.Env{Stdout: io.Discard, Stderr: io.Discard}
	pc := rsyncopts.NewContext(rsyncopts.NewOptionsWithGokrazyDefaults(osenv))
	if err := pc.ParseArguments(osenv, []string{"--server", "--sender", "-r", ".", "x"}); err != nil {
		panic(err)
	}
	return pc.Options
}

func runSender(seed int32, h sumHead, sums []blockSum, target []byte) sendResult {
	var in bytes.Buffer
	wI32(&in, 0)
	wI32(&in, h.count)
	wI32(&in, h.bl)
	wI32(&in, h.cs)
	wI32(&in, h.rem)
	for _, s := range sums {
		wI32(&in, int32(s.sum1))
		in.Write(s.sum2)
	}
	wI32(&in, -1)
	wI32(&in, -1)
	var out bytes.Buffer
	st := &sender.Transfer{
		Logger:   log.New(io.Discard),
		Opts:     serverOpts(),
		Env:      &rsyncos.Env{Stdout: io.Discard, Stderr: io.Discard},
		Progress: progress.NewPrinter(io.Discard, time.Now),
		Conn:     &rsyncwire.Conn{Reader: &in, Writer: &out},
		Seed:     seed,
	}
	res := sendResult{outcome: "ok"}
	func() {
		defer func() {
			if r := recover(); r != nil {
				res.outcome = fmt.Sprintf("panic:%v", r)
			}
		}()
		if err := sender.VerifSendFiles(st, memSource{memFS{"f": target}}, []string{"f"}, []int64{int64(len(target))}); err != nil {
			res.outcome = "err:" + err.Error()
		}
	}()
	if res.outcome != "ok" {
		return res
	}
	// parse the wire output with a reference parser: idx, head, tokens, trailer, then -1 -1
	r := &refReader{b: out.Bytes()}
	res.idx = r.i32()
	res.head = sumHead{r.i32(), r.i32(), r.i32(), r.i32()}
	for {
		t := r.i32()
		if r.err != nil {
			res.outcome = "err:unparsable sender output"
			return res
		}
		if t == 0 {
			break
		}
		if t > 0 {
			res.toks = append(res.toks, tok{lit: append([]byte{}, r.take(int(t))...)})
		} else {
			res.toks = append(res.toks, tok{ref: int(-(t + 1))})
		}
	}
	res.trailer = append([]byte{}, r.take(16)...)
	if a, b := r.i32(), r.i32(); a != -1 || b != -1 || r.err != nil {
		res.outcome = "err:unparsable sender output tail"
	}
	res.extra = len(r.b)
	return res
}

func canonIdx(h sumHead, sums []blockSum, i int) int {
	if i < 0 || i >= len(sums) {
		return i
	}
	for j := 0; j < i; j++ {
		if blockLenOf(h, j) == blockLenOf(h, i) && sums[j].sum1 == sums[i].sum1 && bytes.Equal(sums[j].sum2, sums[i].sum2) {
			return j
		}
	}
	return i
}

func showToks(h sumHead, sums []blockSum, toks []tok) string {
	var parts []string
	var pend []byte
	flush := func() {
		if len(pend) > 0 {
			parts = append(parts, "L"+hx(pend))
			pend = nil
		}
	}
	for _, t := range toks {
		if t.lit != nil {
			pend = append(pend, t.lit...)
		} else {
			flush()
			parts = append(parts, "R"+strconv.Itoa(canonIdx(h, sums, t.ref)))
		}
	}
	flush()
	if len(parts) == 0 {
		return "-"
	}
	return strings.Join(parts, ",")
}

// searchOracle: implementation-level checks of C02 (sender half) and C16 on one run.
// basis may be nil (sums not derived from a basis the harness knows).
func searchOracle(seed int32, h sumHead, sums []blockSum, target []byte, res sendResult, honestBasis []byte) string {
	if res.outcome != "ok" {
		return "FAIL sender did not succeed on a legal signature: " + res.outcome
	}
	// 1. every reference is justified by length, weak and (truncated) strong checksum of the window;
	// 2. literals and matched windows concatenate to the target; 3. trailer is the whole-file sum.
	off := 0
	lits := 0
	for _, t := range res.toks {
		if t.lit != nil {
			if len(t.lit) > 256*1024 {
				return fmt.Sprintf("FAIL literal chunk of %d bytes exceeds chunkSize", len(t.lit))
			}
			if off+len(t.lit) > len(target) || !bytes.Equal(target[off:off+len(t.lit)], t.lit) {
				return fmt.Sprintf("FAIL literal at offset %d is not the target's data", off)
			}
			off += len(t.lit)
			lits += len(t.lit)
			continue
		}
		if t.ref < 0 || t.ref >= len(sums) {
			return fmt.Sprintf("FAIL reference to block %d, only %d blocks", t.ref, len(sums))
		}
		l := blockLenOf(h, t.ref)
		if off+l > len(target) {
			return fmt.Sprintf("FAIL reference at offset %d runs past the end of the target", off)
		}
		w := target[off : off+l]
		if refWeak(w) != sums[t.ref].sum1 {
			return fmt.Sprintf("FAIL reference at offset %d: weak checksum differs", off)
		}
		if !bytes.Equal(refStrong(seed, w)[:h.cs], sums[t.ref].sum2[:h.cs]) {
			return fmt.Sprintf("FAIL reference at offset %d to block %d: strong checksum differs (weak collision accepted)", off, t.ref)
		}
		if honestBasis != nil {
			bo := t.ref * int(h.bl)
			if bo+l > len(honestBasis) || (h.cs == 16 && !bytes.Equal(honestBasis[bo:bo+l], w)) {
				return fmt.Sprintf("FAIL reference at offset %d to block %d does not reproduce the target bytes", off, t.ref)
			}
		}
		off += l
	}
	if off != len(target) {
		return fmt.Sprintf("FAIL token stream covers %d of %d target bytes", off, len(target))
	}
	if !bytes.Equal(res.trailer, refFileSum(seed, target)) {
		return "FAIL whole-file checksum trailer is not MD4(seed||target)"
	}
	// C16: greedy completeness — a byte is literal only if no block matches the window starting there
	// (checked exactly for small cases), and an identical file costs no literal data.
	if honestBasis != nil && bytes.Equal(honestBasis, target) && len(target) > 0 && lits > 0 {
		return fmt.Sprintf("FAIL identical file cost %d literal bytes", lits)
	}
	if len(target)*len(sums) <= 1<<22 {
		o := 0
		for _, t := range res.toks {
			if t.lit == nil {
				o += blockLenOf(h, t.ref)
				continue
			}
			for k := range t.lit {
				p := o + k
				for i := range sums {
					l := blockLenOf(h, i)
					if want := min(int(h.bl), len(target)-p); l != want || l == 0 {
						continue
					}
					w := target[p : p+l]
					if refWeak(w) == sums[i].sum1 && bytes.Equal(refStrong(seed, w)[:h.cs], sums[i].sum2[:h.cs]) {
						return fmt.Sprintf("FAIL byte at offset %d sent as literal although block %d matches there", p, i)
					}
				}
			}
			o += len(t.lit)
		}
	}
	return ""
}

func searchOp(seed int32, h sumHead, sums []blockSum, target []byte) string {
	var ss []string
	for _, s := range sums {
		ss = append(ss, fmt.Sprintf("%08x:%s", s.sum1, hx(s.sum2)))
	}
	sj := "-"
	if len(ss) > 0 {
		sj = strings.Join(ss, ",")
	}
	return fmt.Sprintf("search %d %d %d %d %d %s %s", seed, h.count, h.bl, h.cs, h.rem, sj, hx(target))
}

func parseSearchOp(op string) (int32, sumHead, []blockSum, []byte) {
	f := strings.Fields(op)
	a := func(i int) int32 { v, _ := strconv.ParseInt(f[i], 10, 64); return int32(v) }
	h := sumHead{a(2), a(3), a(4), a(5)}
	var sums []blockSum
	if f[6] != "-" {
		for _, s := range strings.Split(f[6], ",") {
			p := strings.SplitN(s, ":", 2)
			v, _ := strconv.ParseUint(p[0], 16, 32)
			sums = append(sums, blockSum{uint32(v), unhx(p[1])})
		}
	}
	return a(1), h, sums, unhx(f[7])
}

func implSearchOut(h sumHead, sums []blockSum, res sendResult) string {
	if res.outcome != "ok" {
		return strings.SplitN(res.outcome, ":", 2)[0]
	}
	maxc := 0
	for _, t := range res.toks {
		maxc = max(maxc, len(t.lit))
	}
	return fmt.Sprintf("ok hd=%d,%d,%d,%d toks=%s sum=%s maxchunk-ok=%v", res.head.count, res.head.bl, res.head.cs, res.head.rem,
		showToks(h, sums, res.toks), hx(res.trailer), maxc <= 256*1024)
}

func suiteChecksum(h *H) {
	// exhaustive: sign extension of every byte value through sum1 of 1-byte buffers; then random buffers
	for b := 0; b < 256; b++ {
		buf := []byte{byte(b)}
		got := rsyncchecksum.Checksum1(buf)
		v := ""
		if got != refWeak(buf) {
			v = "FAIL Checksum1 differs from the reference weak sum"
		}
		h.emit("sum1 "+hx(buf), fmt.Sprintf("ok %08x", got), v, true)
	}
	for i := 0; i < h.n(300, 5000); i++ {
		n := h.pick(0, 1, 2, 3, 4, 5, 6, 7, 8, 9, 15, 16, 17, 31, 64, 100, 699, 700, 701, 1000)
		buf := h.bytes(n)
		switch h.rng.Intn(4) {
		case 0:
			for j := range buf {
				buf[j] |= 0x80
			}
		case 1:
			for j := range buf {
				buf[j] = byte(h.pick(0, 0x7f, 0x80, 0xff))
			}
		}
		got := rsyncchecksum.Checksum1(buf)
		v := ""
		if got != refWeak(buf) {
			v = "FAIL Checksum1 differs from the reference weak sum"
		}
		h.emit("sum1 "+hx(buf), fmt.Sprintf("ok %08x", got), v, n > 0)
		h.stat("sum1")
		if i%4 == 0 {
			h.emit("md4 "+hx(buf), "ok "+hx(func() []byte { x := md4.New(); x.Write(buf); return x.Sum(nil) }()), "", true)
			h.stat("md4")
		}
	}
	for _, n := range []int64{0, 1, 699, 700, 701, 489999, 490000, 490001, 1 << 20, 1<<20 + 1, 1 << 30, 1<<31 - 1, 1 << 31, 1 << 40, 1<<40 + 12345, (3037000499 * 3037000499) % (1 << 52)} {
		for _, d := range []int64{-1, 0, 1} {
			if n+d < 0 {
				continue
			}
			sh := rsynccommon.SumSizesSqroot(n + d)
			h.emit(fmt.Sprintf("sumsizes %d", n+d), fmt.Sprintf("ok %d,%d,%d,%d", sh.ChecksumCount, sh.BlockLength, sh.ChecksumLength, sh.RemainderLength), "", true)
		}
	}
	for i := 0; i < h.n(200, 3000); i++ {
		m := int64(1 + h.rng.Intn(40000))
		for _, n := range []int64{m*m - 1, m * m, m*m + 1} {
			sh := rsynccommon.SumSizesSqroot(n)
			h.emit(fmt.Sprintf("sumsizes %d", n), fmt.Sprintf("ok %d,%d,%d,%d", sh.ChecksumCount, sh.BlockLength, sh.ChecksumLength, sh.RemainderLength), "", true)
		}
		h.stat("sumsizes")
	}
}

func suiteSearch(h *H) {
	run := func(seed int32, sh sumHead, sums []blockSum, target, honest []byte, tag string) {
		res := runSender(seed, sh, sums, target)
		v := searchOracle(seed, sh, sums, target, res, honest)
		nt := false
		hasRef, hasLit := false, false
		for _, t := range res.toks {
			if t.lit != nil {
				hasLit = true
			} else {
				hasRef = true
			}
		}
		nt = hasRef
		if hasRef && hasLit {
			h.stat("search.mixed")
		} else if hasRef {
			h.stat("search.refs-only")
		} else {
			h.stat("search.literals-only")
		}
		h.stat("search." + tag)
		h.emit(searchOp(seed, sh, sums, target), implSearchOut(sh, sums, res), v, nt)
	}
	if h.extra != nil {
		for _, op := range h.extra {
			if strings.HasPrefix(op, "search ") {
				seed, sh, sums, target := parseSearchOp(op)
				run(seed, sh, sums, target, nil, "replay")
			}
		}
		return
	}
	// (a) bounded-exhaustive over a small alphabet: every basis and target up to a length, block lengths 1..k
	maxLen, maxBl := 4, 3
	if h.thorough() {
		maxLen, maxBl = 6, 4
	}
	var words [][]byte
	var gen func(p []byte)
	gen = func(p []byte) {
		words = append(words, append([]byte{}, p...))
		if len(p) == maxLen {
			return
		}
		gen(append(p, 'a'))
		gen(append(p, 'b'))
	}
	gen(nil)
	seed := int32(h.rng.Uint32())
	for _, basis := range words {
		if len(basis) == 0 {
			continue
		}
		for bl := 1; bl <= maxBl; bl++ {
			sh, sums := refSums(seed, basis, bl, 16)
			for _, target := range words {
				run(seed, sh, sums, target, basis, "exhaustive")
			}
		}
	}
	// (b) structured random: edits of the basis, odd layouts, short strong sums, weak collisions, duplicates
	n := h.n(250, 4000)
	for i := 0; i < n; i++ {
		seed := int32(h.rng.Uint32())
		bl := h.pick(1, 2, 3, 5, 8, 16, 17, 64, 100, 700, 704)
		size := h.pick(0, 1, bl-1, bl, bl+1, 2*bl, 3*bl+1, 10*bl, 10*bl+bl/2, 2000, 5000)
		if size > 6000 {
			size = 6000
		}
		basis := h.bytes(size)
		switch h.rng.Intn(5) {
		case 0: // low entropy / periodic
			for j := range basis {
				basis[j] = byte("ab"[j%2])
			}
		case 1: // all zero (all blocks identical)
			for j := range basis {
				basis[j] = 0
			}
		case 2: // duplicated blocks
			for j := bl; j < len(basis); j++ {
				if (j/bl)%2 == 1 {
					basis[j] = basis[j-bl]
				}
			}
		case 3: // weak-checksum collision between block 0 and block 1 (+1,-2,+1 pattern)
			if bl >= 3 && len(basis) >= 2*bl {
				copy(basis[bl:2*bl], basis[:bl])
				basis[bl] += 1
				basis[bl+1] -= 2
				basis[bl+2] += 1
			}
		}
		cs := h.pick(16, 16, 16, 2, 8, 3)
		sh, sums := refSums(seed, basis, bl, cs)
		target := editBytes(h, basis)
		honest := basis
		tag := "random"
		if h.rng.Intn(4) == 0 && bl >= 3 && len(basis) >= 3*bl {
			// false alarm: a block of the target has the weak sum of the basis block at the same place but
			// different bytes (+1,-2,+1 keeps s1 and s2); everything after it must still be found
			target = append([]byte{}, basis...)
			j := h.rng.Intn(len(basis)/bl - 1)
			o := j*bl + h.rng.Intn(bl-2)
			target[o] += 1
			target[o+1] -= 2
			target[o+2] += 1
			if h.rng.Intn(2) == 0 {
				target = append(h.bytes(1+h.rng.Intn(5)), target...) // and everything at unaligned offsets
			}
			tag = "false-alarm"
		}
		if h.rng.Intn(5) == 0 && bl >= 3 && len(basis) >= 4*bl {
			// a block X' that follows a matched block and has the weak sum and length of the block X the target
			// continues with, but other bytes: basis …P|X'|X…, target …P|X… (a sender that prefers the block after
			// the previous match must still compare the strong sum)
			nb := len(basis) / bl
			j := h.rng.Intn(nb - 2)
			o := h.rng.Intn(bl - 2)
			copy(basis[(j+1)*bl:(j+2)*bl], basis[(j+2)*bl:(j+3)*bl])
			basis[(j+1)*bl+o] += 1
			basis[(j+1)*bl+o+1] -= 2
			basis[(j+1)*bl+o+2] += 1
			sh, sums = refSums(seed, basis, bl, cs)
			honest = basis
			target = append(append([]byte{}, basis[:(j+1)*bl]...), basis[(j+2)*bl:]...)
			tag = "adjacent-collision"
		}
		if h.rng.Intn(8) == 0 && len(sums) > 1 {
			// a remainder block declared although the file is a multiple (remainder reused mid-file is legal for the sender)
			sh.rem = int32(1 + h.rng.Intn(bl))
			honest = nil
			tag = "odd-remainder"
		}
		run(seed, sh, sums, target, honest, tag)
	}
	// (c0) many blocks: more than 2^16 (and more than 2^17) blocks in one signature, as a small block length
	// on a moderately large file or gokrazy's own layout on a file beyond 4 GiB gives; identical and lightly
	// edited targets. An identical file must cost no literal byte wherever in the file the block lies.
	for i := 0; i < h.n(2, 10); i++ {
		seed := int32(h.rng.Uint32())
		bl := h.pick(16, 24, 32)
		nblocks := h.pick(65537, 66000, 70001, 140000)
		basis := h.bytes(bl*nblocks - h.rng.Intn(bl))
		sh, sums := refSums(seed, basis, bl, 16)
		target := basis
		kind := "identical"
		if i%2 == 1 {
			// two small edits, one of them beyond block 65536
			target = append([]byte{}, basis...)
			target[100] ^= 1
			target[len(target)-1000] ^= 1
			kind = "two-edits"
		}
		res := runSender(seed, sh, sums, target)
		v := searchOracle(seed, sh, sums, target, res, basis)
		lits := 0
		hi := 0
		for _, t := range res.toks {
			lits += len(t.lit)
			if t.lit == nil && t.ref >= 65536 {
				hi++
			}
		}
		if v == "" && kind == "two-edits" && lits > 4*bl+2 {
			v = fmt.Sprintf("FAIL[C16] two one-byte edits in a file of %d blocks cost %d literal bytes (block length %d)", nblocks, lits, bl)
		}
		h.emit(fmt.Sprintf("!search-manyblocks seed=%d %s bl=%d blocks=%d tokens=%d literal=%d refs-beyond-65535=%d", h.seed, kind, bl, len(sums), len(res.toks), lits, hi), res.outcome, v, true)
		h.stat("search.manyblocks")
	}
	// (c) large, implementation-level oracle only: windows of 256 KiB crossed several times
	for i := 0; i < h.n(6, 120); i++ {
		seed := int32(h.rng.Uint32())
		bl := h.pick(700, 704, 1000, 4096, 16384, 131072)
		size := h.pick(256*1024-1, 256*1024, 256*1024+1, 512*1024+3, 700*1024, 1<<20+17)
		if i%6 == 5 || (i == 1 && !h.thorough()) {
			// block lengths beyond chunkSize (legal up to 2^29: huge files, or a peer that asks for them)
			bl = h.pick(300000, 262145, 524288)
			size = h.pick(6*bl+17, 4*bl, 9*bl-1)
		}
		basis := h.bytes(size)
		sh, sums := refSums(seed, basis, bl, h.pick(16, 16, 2))
		target := editBytes(h, basis)
		if i%3 == 0 {
			target = basis
		}
		if i%3 == 1 {
			// a long unmatched run (longer than the read window) in the middle or at the very end, unaligned
			cut := h.rng.Intn(len(basis)/2 + 1)
			run := h.pick(257*1024+h.rng.Intn(1024), 263*1024+777, 300*1024+1, 600*1024+13)
			target = append(append([]byte{}, basis[:cut]...), h.bytes(run)...)
			if h.rng.Intn(2) == 0 {
				target = append(target, basis[cut:]...)
			}
		}
		res := runSender(seed, sh, sums, target)
		v := searchOracle(seed, sh, sums, target, res, basis)
		lits := 0
		for _, t := range res.toks {
			lits += len(t.lit)
		}
		h.emit(fmt.Sprintf("!search-large seed=%d bl=%d basis=%d target=%d tokens=%d literal=%d", h.seed, bl, size, len(target), len(res.toks), lits), res.outcome, v, true)
		h.stat("search.large")
	}
}

// editBytes applies 0..4 local edits (insert, delete, replace, prepend, append, truncate, block permutation).
func editBytes(h *H, b []byte) []byte {
	t := append([]byte{}, b...)
	for k := h.rng.Intn(5); k > 0; k-- {
		pos := 0
		if len(t) > 0 {
			pos = h.rng.Intn(len(t) + 1)
		}
		n := h.pick(1, 1, 2, 3, 10, 100)
		switch h.rng.Intn(8) {
		case 0:
			t = append(t[:pos:pos], append(h.bytes(n), t[pos:]...)...)
		case 1:
			e := min(pos+n, len(t))
			t = append(t[:pos:pos], t[e:]...)
		case 2:
			for j := pos; j < min(pos+n, len(t)); j++ {
				t[j] ^= byte(1 + h.rng.Intn(255))
			}
		case 3:
			t = append(h.bytes(n), t...)
		case 4:
			t = append(t, h.bytes(n)...)
		case 5:
			t = t[:pos]
		case 6:
			if len(t) >= 2 { // move a slice to the front
				e := min(pos+n*7, len(t))
				t = append(append(append([]byte{}, t[pos:e]...), t[:pos]...), t[e:]...)
			}
		case 7:
			t = nil
		}
	}
	return t
}

// ---- running the real receiver ---------------------------------------------------------------

type recvEnv struct {
	dir  string
	root *os.Root
	n    int
}

func newRecvEnv() *recvEnv {
	dir, err := os.MkdirTemp("", "verif-recv")
	if err != nil {
		panic(err)
	}
	root, err := os.OpenRoot(dir)
	if err != nil {
		panic(err)
	}
	return &recvEnv{dir: dir, root: root}
}

func (e *recvEnv) close() { e.root.Close(); os.RemoveAll(e.dir) }

func falseInfo(rsyncopts.InfoLevel, uint16) bool   { return false }
func falseDebug(rsyncopts.DebugLevel, uint16) bool { return false }

// recvOne runs the real recvFile1 on one file. basis == nil: destination absent.
// Returns canonical outcome, content of the destination afterwards (nil if absent), leftover temp files.
func (e *recvEnv) recvOne(seed int32, basis []byte, stream []byte, opts receiver.TransferOpts) (string, []byte, []string, int) {
	e.n++
	sub := fmt.Sprintf("c%d", e.n)
	os.Mkdir(filepath.Join(e.dir, sub), 0o755)
	name := sub + "/file"
	if basis != nil {
		if err := os.WriteFile(filepath.Join(e.dir, name), basis, 0o644); err != nil {
			panic(err)
		}
	}
	opts.InfoGTE, opts.DebugGTE = falseInfo, falseDebug
	opts.Server = true
	rd := bytes.NewReader(stream)
	rt := &receiver.Transfer{
		Logger:   log.New(io.Discard),
		Opts:     &opts,
		Dest:     e.dir,
		DestRoot: e.root,
		Env:      &rsyncos.Env{Stdout: io.Discard, Stderr: io.Discard},
		Progress: progress.NewPrinter(io.Discard, time.Now),
		Conn:     &rsyncwire.Conn{Reader: rd, Writer: io.Discard},
		Seed:     seed,
	}
	f := &receiver.File{Name: name, Mode: 0o100644, ModTime: time.Unix(1600000000, 0)}
	outcome := "ok"
	func() {
		defer func() {
			if r := recover(); r != nil {
				outcome = fmt.Sprintf("panic:%v", r)
			}
		}()
		if err := receiver.VerifRecvFile1(rt, f); err != nil {
			outcome = "err:" + classifyRecvErr(err)
		}
	}()
	content, err := os.ReadFile(filepath.Join(e.dir, name))
	if err != nil {
		content = nil
	} else if content == nil {
		content = []byte{}
	}
	var temps []string
	ents, _ := os.ReadDir(filepath.Join(e.dir, sub))
	for _, en := range ents {
		if en.Name() != "file" {
			temps = append(temps, en.Name())
		}
	}
	os.RemoveAll(filepath.Join(e.dir, sub))
	return outcome, content, temps, rd.Len()
}

func classifyRecvErr(err error) string {
	m := err.Error()
	switch {
	case err == io.EOF || err == io.ErrUnexpectedEOF || strings.HasSuffix(m, "EOF"):
		return "eof"
	case strings.HasPrefix(m, "invalid checksum count"), strings.HasPrefix(m, "invalid block length"),
		strings.HasPrefix(m, "invalid checksum length"), strings.HasPrefix(m, "invalid remainder length"):
		return "badhead"
	case strings.HasPrefix(m, "BUG: local file"):
		return "nobasis"
	case strings.HasPrefix(m, "file corruption"):
		return "hash"
	}
	return "other(" + m + ")"
}

func encTokens(toks []tok) []byte {
	var b bytes.Buffer
	for _, t := range toks {
		if t.lit != nil {
			wI32(&b, int32(len(t.lit)))
			b.Write(t.lit)
		} else {
			wI32(&b, int32(-(t.ref + 1)))
		}
	}
	wI32(&b, 0)
	return b.Bytes()
}

func encHead(h sumHead) []byte {
	var b bytes.Buffer
	wI32(&b, h.count)
	wI32(&b, h.bl)
	wI32(&b, h.cs)
	wI32(&b, h.rem)
	return b.Bytes()
}

func suiteRecvData(h *H) {
	env := newRecvEnv()
	defer env.close()
	// run one op; intended = the content the stream is meant to produce (nil: unknown / hostile stream)
	run := func(seed int32, basis []byte, stream []byte, intended []byte, kind string) {
		outcome, content, temps, rest := env.recvOne(seed, basis, stream, receiver.TransferOpts{})
		b := "none"
		if basis != nil {
			b = hx(basis)
		}
		op := fmt.Sprintf("recvdata %d %s %s", seed, b, hx(stream))
		impl := outcome
		v := ""
		if outcome == "ok" {
			impl = fmt.Sprintf("committed %s rest=%d", hx(content), rest)
			// C03: only data that passes the whole-file checksum replaces the destination
			if content == nil {
				v = "FAIL success reported but the destination does not exist"
			} else if intended != nil && !bytes.Equal(content, intended) {
				v = "FAIL a stream that does not describe the source was committed as different content"
			} else if len(stream) >= 16 {
				// whatever the stream: what is committed must hash to a trailer that occurs in the stream
				if !bytes.Contains(stream, refFileSum(seed, content)) {
					v = "FAIL committed content does not match any checksum trailer in the stream"
				}
			}
		} else if strings.HasPrefix(outcome, "panic") {
			impl = "panic"
			v = "FAIL receiver panicked: " + outcome
		} else {
			// error return: destination keeps its previous content or stays absent
			if (basis == nil) != (content == nil) || (basis != nil && !bytes.Equal(content, basis)) {
				v = "FAIL transfer failed (" + outcome + ") but the destination was modified"
			}
			if strings.HasPrefix(outcome, "err:other") {
				impl = "err:other"
			}
		}
		if len(temps) > 0 {
			v = "FAIL temporary files left behind after return: " + strings.Join(temps, ",")
		}
		h.emit(op, impl, v, outcome == "ok")
		h.stat("recvdata." + kind)
		h.stat("recvdata.outcome=" + strings.SplitN(impl, " ", 2)[0])
	}
	if h.extra != nil {
		for _, op := range h.extra {
			f := strings.Fields(op)
			if f[0] == "recvdata" {
				seed, _ := strconv.ParseInt(f[1], 10, 64)
				var basis []byte
				if f[2] != "none" {
					basis = unhx(f[2])
					if basis == nil {
						basis = []byte{}
					}
				}
				run(int32(seed), basis, unhx(f[3]), nil, "replay")
			}
		}
		return
	}
	// block references far into a large (sparse) basis: offsets at and beyond 2^31 and 2^32, where a
	// 32-bit product of index and block length would wrap (implementation-only: too large for the model op)
	for i := 0; i < h.n(2, 12); i++ {
		seed := int32(h.rng.Uint32())
		bl := int64(h.pick(1<<20, 1<<19, 700*1024))
		size := int64(1)<<32 + 3*bl + int64(h.pick(0, 123, int(bl)-1))
		count := (size + bl - 1) / bl
		rem := size % bl
		idxs := []int64{(int64(1)<<31 + bl - 1) / bl, (int64(1)<<32)/bl + 1, count - 1, (int64(1)<<31)/bl - 1}
		h.rng.Shuffle(len(idxs), func(a, b int) { idxs[a], idxs[b] = idxs[b], idxs[a] })
		env.n++
		sub := fmt.Sprintf("big%d", env.n)
		os.Mkdir(filepath.Join(env.dir, sub), 0o755)
		name := sub + "/file"
		fh, err := os.Create(filepath.Join(env.dir, name))
		if err != nil {
			panic(err)
		}
		fh.Truncate(size)
		var want []byte
		var toks []tok
		for _, ix := range idxs {
			l := bl
			if ix == count-1 && rem != 0 {
				l = rem
			}
			mark := h.bytes(int(l))
			fh.WriteAt(mark, ix*bl)
			want = append(want, mark...)
			toks = append(toks, tok{ref: int(ix)})
			if h.rng.Intn(2) == 0 {
				lit := h.bytes(1 + h.rng.Intn(50))
				want = append(want, lit...)
				toks = append(toks, tok{lit: lit})
			}
		}
		fh.Close()
		hd := sumHead{count: int32(count), bl: int32(bl), cs: 16, rem: int32(rem)}
		stream := append(append(encHead(hd), encTokens(toks)...), refFileSum(seed, want)...)
		opts := receiver.TransferOpts{}
		opts.InfoGTE, opts.DebugGTE = falseInfo, falseDebug
		opts.Server = true
		rt := &receiver.Transfer{Logger: log.New(io.Discard), Opts: &opts, Dest: env.dir, DestRoot: env.root,
			Env: &rsyncos.Env{Stdout: io.Discard, Stderr: io.Discard}, Progress: progress.NewPrinter(io.Discard, time.Now),
			Conn: &rsyncwire.Conn{Reader: bytes.NewReader(stream), Writer: io.Discard}, Seed: seed}
		f := &receiver.File{Name: name, Mode: 0o100644, ModTime: time.Unix(1600000000, 0)}
		outcome := "ok"
		func() {
			defer func() {
				if r := recover(); r != nil {
					outcome = fmt.Sprintf("panic:%v", r)
				}
			}()
			if err := receiver.VerifRecvFile1(rt, f); err != nil {
				outcome = "err:" + err.Error()
			}
		}()
		got, _ := os.ReadFile(filepath.Join(env.dir, name))
		v := ""
		if outcome != "ok" {
			v = "FAIL a valid token stream with block references beyond 2 GiB of the basis was not accepted: " + outcome
		} else if !bytes.Equal(got, want) {
			v = "FAIL block references beyond 2 GiB of the basis were reconstructed to other bytes than the stream denotes"
		}
		os.RemoveAll(filepath.Join(env.dir, sub))
		h.emit(fmt.Sprintf("!recvdata-large seed=%d case=%d bl=%d size=%d refs=%v", h.seed, i, bl, size, idxs), outcome, v, true)
		h.stat("recvdata.large")
	}
	// the list announced a length, the data that arrives is shorter or longer (the source changed between
	// the building of the list and its transfer; the trailer matches what was actually sent): what is
	// committed must be exactly the bytes the stream denotes, whatever the announced length — also for
	// large files (where a receiver might reserve space ahead)
	for i := 0; i < h.n(4, 24); i++ {
		seed := int32(h.rng.Uint32())
		announced := int64(h.pick(1<<20, 3<<20, 5<<20, 100))
		actual := h.pick(0, 1, 1000, 1<<20-1, 2<<20+7, int(announced)+5000)
		data := h.bytes(actual)
		var toks []tok
		for off := 0; off < len(data); off += 200000 {
			e := off + 200000
			if e > len(data) {
				e = len(data)
			}
			toks = append(toks, tok{lit: data[off:e]})
		}
		stream := append(append(encHead(sumHead{0, 0, 0, 0}), encTokens(toks)...), refFileSum(seed, data)...)
		env.n++
		sub := fmt.Sprintf("shr%d", env.n)
		os.Mkdir(filepath.Join(env.dir, sub), 0o755)
		name := sub + "/file"
		opts := receiver.TransferOpts{}
		opts.InfoGTE, opts.DebugGTE = falseInfo, falseDebug
		opts.Server = true
		rt := &receiver.Transfer{Logger: log.New(io.Discard), Opts: &opts, Dest: env.dir, DestRoot: env.root,
			Env: &rsyncos.Env{Stdout: io.Discard, Stderr: io.Discard}, Progress: progress.NewPrinter(io.Discard, time.Now),
			Conn: &rsyncwire.Conn{Reader: bytes.NewReader(stream), Writer: io.Discard}, Seed: seed}
		f := &receiver.File{Name: name, Mode: 0o100644, ModTime: time.Unix(1600000000, 0), Length: announced}
		outcome := "ok"
		func() {
			defer func() {
				if r := recover(); r != nil {
					outcome = fmt.Sprintf("panic:%v", r)
				}
			}()
			if err := receiver.VerifRecvFile1(rt, f); err != nil {
				outcome = "err:" + err.Error()
			}
		}()
		got, rerr := os.ReadFile(filepath.Join(env.dir, name))
		v := ""
		switch {
		case strings.HasPrefix(outcome, "panic"):
			v = "FAIL[C08] receiver panicked: " + outcome
		case outcome == "ok" && (rerr != nil || !bytes.Equal(got, data)):
			v = fmt.Sprintf("FAIL[C03] the list announced %d bytes, the stream carried %d with a matching checksum; success was reported and the destination holds %d bytes that are not what was sent", announced, len(data), len(got))
		case outcome != "ok" && rerr == nil:
			v = "FAIL[C03] the transfer failed (" + outcome + ") but a destination file was created"
		}
		os.RemoveAll(filepath.Join(env.dir, sub))
		h.emit(fmt.Sprintf("!recvdata-shrunk seed=%d case=%d announced=%d actual=%d", h.seed, i, announced, len(data)), strings.SplitN(outcome, ":", 2)[0], v, true)
		h.stat("recvdata.shrunk")
	}
	n := h.n(120, 1200) // thorough: ~25 000 damaged streams in all; 2 500 x 40 took more than an hour
	for i := 0; i < n; i++ {
		seed := int32(h.rng.Uint32())
		bl := h.pick(1, 2, 3, 7, 16, 50)
		basis := h.bytes(h.pick(0, 1, bl, 2*bl, 3*bl+1, 10*bl+bl/2, 200))
		if basis == nil {
			basis = []byte{}
		}
		sh, sums := refSums(seed, basis, bl, 16)
		// (1) a scripted valid stream: literal runs of any chunking and references in any order
		var toks []tok
		var want []byte
		for k := h.rng.Intn(8); k > 0; k-- {
			if len(sums) > 0 && h.rng.Intn(2) == 0 {
				idx := h.rng.Intn(len(sums))
				toks = append(toks, tok{ref: idx})
				want = append(want, basis[idx*bl:idx*bl+blockLenOf(sh, idx)]...)
			} else {
				l := h.bytes(1 + h.rng.Intn(20))
				toks = append(toks, tok{lit: l})
				want = append(want, l...)
			}
		}
		if want == nil {
			want = []byte{}
		}
		valid := append(append(encHead(sh), encTokens(toks)...), refFileSum(seed, want)...)
		run(seed, basis, valid, want, "valid-scripted")
		// the same without a basis (references must be refused)
		if i%5 == 0 {
			run(seed, nil, valid, want, "valid-nobasis")
		}
		// (2) the real sender's stream for an edited target
		target := editBytes(h, basis)
		res := runSender(seed, sh, sums, target)
		if res.outcome == "ok" {
			// the header a sender echoes may carry any strong-checksum length (gokrazy's own generator asks
			// for whole files with an all-zero header): it must not weaken the whole-file check
			hd := res.head
			hd.cs = int32(h.pick(16, 16, 0, 2, 8))
			s := append(append(encHead(hd), encTokens(res.toks)...), res.trailer...)
			if target == nil {
				target = []byte{}
			}
			run(seed, basis, s, target, "sender-stream")
			// (3) damaged streams (C03): single-bit flips, reference substitution, reordering, truncation,
			// basis changed after the signature was taken
			flips := h.n(6, 16)
			if len(s) <= 64 && h.thorough() {
				flips = len(s) * 8 // every bit
			}
			for k := 0; k < flips; k++ {
				d := append([]byte{}, s...)
				pos := 16 + h.rng.Intn(len(d)-16)
				bit := h.rng.Intn(8)
				if flips == len(s)*8 {
					pos, bit = k/8, k%8
				}
				d[pos] ^= 1 << uint(bit)
				run(seed, basis, d, target, "bitflip")
			}
			if len(s) > 20 {
				run(seed, basis, s[:16+h.rng.Intn(len(s)-16)], target, "truncated")
			}
			if len(basis) > 0 {
				b2 := append([]byte{}, basis...)
				b2[h.rng.Intn(len(b2))] ^= 0x55
				// destination content is b2 now; the stream was computed against basis
				outcomeBasis := b2
				_ = outcomeBasis
				run(seed, b2, s, target, "basis-changed")
			}
			// substituted reference / reordered tokens
			if len(res.toks) >= 2 {
				tk := append([]tok{}, res.toks...)
				a, b := h.rng.Intn(len(tk)), h.rng.Intn(len(tk))
				tk[a], tk[b] = tk[b], tk[a]
				run(seed, basis, append(append(encHead(hd), encTokens(tk)...), res.trailer...), target, "reordered")
			}
			for j, t := range res.toks {
				if t.lit == nil && len(sums) > 1 {
					tk := append([]tok{}, res.toks...)
					tk[j] = tok{ref: (t.ref + 1 + h.rng.Intn(len(sums)-1)) % len(sums)}
					run(seed, basis, append(append(encHead(hd), encTokens(tk)...), res.trailer...), target, "ref-substituted")
					break
				}
			}
		}
		// (4) hostile headers and tokens
		if i%3 == 0 {
			bad := sumHead{int32(h.pick(-1, 0, 1, 5)), int32(h.pick(-1, 0, 1, 1<<29, 1<<29+1)), int32(h.pick(-1, 0, 16, 17)), int32(h.pick(-1, 0, 1, 2))}
			s := append(append(encHead(bad), encTokens(toks)...), refFileSum(seed, want)...)
			run(seed, basis, s, nil, "hostile-head")
			var b bytes.Buffer
			b.Write(encHead(sh))
			wI32(&b, int32(h.pick(-1000000, -1<<31, -int(sh.count)-1, -int(sh.count)-2)))
			wI32(&b, 0)
			b.Write(refFileSum(seed, nil))
			run(seed, basis, b.Bytes(), nil, "hostile-ref")
		}
	}
}
