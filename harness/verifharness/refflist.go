//go:build verif

package main

// Reference protocol-27 file-list codec, written from the protocol description
// (rsync 2.6.x flist.c send_file_entry / receive_file_entry, protocol < 28), independent of
// internal/sender/flist.go and internal/receiver/flist.go.

import (
	"bytes"
	"encoding/binary"
	"fmt"
	"math/rand"
	"strings"
)

const (
	xTopDir   = 1 << 0
	xSameMode = 1 << 1
	xSameRdev = 1 << 2
	xSameUID  = 1 << 3
	xSameGID  = 1 << 4
	xSameName = 1 << 5
	xLongName = 1 << 6
	xSameTime = 1 << 7

	sIFMT   = 0o170000
	sIFDIR  = 0o040000
	sIFCHR  = 0o020000
	sIFBLK  = 0o060000
	sIFREG  = 0o100000
	sIFIFO  = 0o010000
	sIFLNK  = 0o120000
	sIFSOCK = 0o140000
)

type refEntry struct {
	name   []byte
	mode   int32
	size   int64
	mtime  int32
	uid    int32
	gid    int32
	rdev   int32
	target []byte
	sum    [16]byte
}

type refOpts struct {
	uid, gid, links, devices, specials, checksum bool
}

func (o refOpts) String() string {
	var b strings.Builder
	for _, x := range []struct {
		on bool
		c  byte
	}{{o.uid, 'o'}, {o.gid, 'g'}, {o.links, 'l'}, {o.devices, 'd'}, {o.specials, 's'}, {o.checksum, 'c'}} {
		if x.on {
			b.WriteByte(x.c)
		}
	}
	if b.Len() == 0 {
		return "-"
	}
	return b.String()
}

func parseRefOpts(s string) refOpts {
	return refOpts{
		uid: strings.ContainsRune(s, 'o'), gid: strings.ContainsRune(s, 'g'), links: strings.ContainsRune(s, 'l'),
		devices: strings.ContainsRune(s, 'd'), specials: strings.ContainsRune(s, 's'), checksum: strings.ContainsRune(s, 'c'),
	}
}

func (e refEntry) isDev() bool     { m := e.mode & sIFMT; return m == sIFCHR || m == sIFBLK }
func (e refEntry) isSpecial() bool { m := e.mode & sIFMT; return m == sIFIFO || m == sIFSOCK }
func (e refEntry) isLink() bool    { return e.mode&sIFMT == sIFLNK }
func (e refEntry) isDir() bool     { return e.mode&sIFMT == sIFDIR }
func (e refEntry) hasRdev(o refOpts) bool {
	return (o.devices && e.isDev()) || (o.specials && e.isSpecial())
}

func wI32(b *bytes.Buffer, v int32) { binary.Write(b, binary.LittleEndian, v) }
func wLong(b *bytes.Buffer, v int64) {
	if v >= 0 && v <= 0x7fffffff {
		wI32(b, int32(v))
		return
	}
	wI32(b, -1)
	binary.Write(b, binary.LittleEndian, v)
}

// refEncodeEntry writes one entry. rng == nil: the plainest legal encoding (long name, no sharing);
// otherwise every legal compression choice is taken at random.
func refEncodeEntry(b *bytes.Buffer, e, prev refEntry, first bool, o refOpts, rng *rand.Rand) {
	flags := 0
	choose := func() bool { return rng != nil && rng.Intn(2) == 0 }
	l1 := 0
	if !first && choose() {
		for l1 < len(e.name) && l1 < len(prev.name) && l1 < 255 && e.name[l1] == prev.name[l1] {
			l1++
		}
		if l1 > 0 && rng.Intn(3) == 0 {
			l1 = 1 + rng.Intn(l1) // any shared prefix length is legal
		}
		if l1 == len(e.name) && l1 > 0 {
			l1-- // keep at least one byte in the suffix (as real senders do)
		}
		if l1 > 0 {
			flags |= xSameName
		}
	}
	l2 := len(e.name) - l1
	if l2 > 255 || rng == nil || rng.Intn(3) == 0 {
		flags |= xLongName
	}
	if !first && e.mtime == prev.mtime && choose() {
		flags |= xSameTime
	}
	if !first && e.mode == prev.mode && choose() {
		flags |= xSameMode
	}
	if o.uid && !first && e.uid == prev.uid && choose() {
		flags |= xSameUID
	}
	if o.gid && !first && e.gid == prev.gid && choose() {
		flags |= xSameGID
	}
	if e.hasRdev(o) && !first && prev.hasRdev(o) && e.rdev == prev.rdev && choose() {
		flags |= xSameRdev
	}
	if e.isDir() && string(e.name) == "." {
		flags |= xTopDir
	}
	if flags == 0 && !e.isDir() {
		flags |= xTopDir
	}
	if flags == 0 {
		flags |= xLongName
	}
	b.WriteByte(byte(flags))
	if flags&xSameName != 0 {
		b.WriteByte(byte(l1))
	}
	if flags&xLongName != 0 {
		wI32(b, int32(l2))
	} else {
		b.WriteByte(byte(l2))
	}
	b.Write(e.name[l1:])
	wLong(b, e.size)
	if flags&xSameTime == 0 {
		wI32(b, e.mtime)
	}
	if flags&xSameMode == 0 {
		wI32(b, e.mode)
	}
	if o.uid && flags&xSameUID == 0 {
		wI32(b, e.uid)
	}
	if o.gid && flags&xSameGID == 0 {
		wI32(b, e.gid)
	}
	if e.hasRdev(o) && flags&xSameRdev == 0 {
		wI32(b, e.rdev)
	}
	if o.links && e.isLink() {
		wI32(b, int32(len(e.target)))
		b.Write(e.target)
	}
	if o.checksum {
		b.Write(e.sum[:])
	}
}

// refEncodeList: entries, terminator, empty id lists (if -o/-g), io-error flag.
func refEncodeList(es []refEntry, o refOpts, rng *rand.Rand, ioerr int32) []byte {
	var b bytes.Buffer
	var prev refEntry
	for i, e := range es {
		refEncodeEntry(&b, e, prev, i == 0, o, rng)
		prev = e
	}
	b.WriteByte(0)
	if o.uid {
		wI32(&b, 0)
	}
	if o.gid {
		wI32(&b, 0)
	}
	wI32(&b, ioerr)
	return b.Bytes()
}

type refReader struct {
	b   []byte
	err error
}

func (r *refReader) take(n int) []byte {
	if r.err != nil {
		return nil
	}
	if n < 0 || n > len(r.b) {
		r.err = fmt.Errorf("short")
		return nil
	}
	x := r.b[:n]
	r.b = r.b[n:]
	return x
}
func (r *refReader) u8() int {
	x := r.take(1)
	if x == nil {
		return 0
	}
	return int(x[0])
}
func (r *refReader) i32() int32 {
	x := r.take(4)
	if x == nil {
		return 0
	}
	return int32(binary.LittleEndian.Uint32(x))
}
func (r *refReader) long() int64 {
	v := r.i32()
	if v != -1 {
		return int64(v)
	}
	x := r.take(8)
	if x == nil {
		return 0
	}
	return int64(binary.LittleEndian.Uint64(x))
}

// refDecodeList decodes a protocol-27 list (any legal compression); names are returned as sent.
func refDecodeList(data []byte, o refOpts) (es []refEntry, ioerr int32, rest []byte, err error) {
	r := &refReader{b: data}
	var prev refEntry
	for {
		flags := r.u8()
		if r.err != nil {
			return nil, 0, nil, r.err
		}
		if flags == 0 {
			break
		}
		var e refEntry
		l1 := 0
		if flags&xSameName != 0 {
			l1 = r.u8()
		}
		var l2 int
		if flags&xLongName != 0 {
			l2 = int(r.i32())
		} else {
			l2 = r.u8()
		}
		if l1 > len(prev.name) || l2 < 0 {
			return nil, 0, nil, fmt.Errorf("bad name lengths")
		}
		e.name = append(append([]byte{}, prev.name[:l1]...), r.take(l2)...)
		e.size = r.long()
		if flags&xSameTime != 0 {
			e.mtime = prev.mtime
		} else {
			e.mtime = r.i32()
		}
		if flags&xSameMode != 0 {
			e.mode = prev.mode
		} else {
			e.mode = r.i32()
		}
		if o.uid {
			if flags&xSameUID != 0 {
				e.uid = prev.uid
			} else {
				e.uid = r.i32()
			}
		}
		if o.gid {
			if flags&xSameGID != 0 {
				e.gid = prev.gid
			} else {
				e.gid = r.i32()
			}
		}
		if e.hasRdev(o) {
			if flags&xSameRdev != 0 {
				e.rdev = prev.rdev
			} else {
				e.rdev = r.i32()
			}
		}
		if o.links && e.isLink() {
			n := int(r.i32())
			e.target = append([]byte{}, r.take(n)...)
		}
		if o.checksum {
			copy(e.sum[:], r.take(16))
		}
		if r.err != nil {
			return nil, 0, nil, r.err
		}
		es = append(es, e)
		prev = e
	}
	for _, on := range []bool{o.uid, o.gid} {
		if on {
			for {
				id := r.i32()
				if r.err != nil {
					return nil, 0, nil, r.err
				}
				if id == 0 {
					break
				}
				n := r.u8()
				r.take(n)
			}
		}
	}
	ioerr = r.i32()
	return es, ioerr, r.b, r.err
}

// canonical text of an entry list (shared with the Lean driver's output format):
// name,mode,size,mtime,uid,gid,rdev,target,sum separated by ';'
func showEntries(es []refEntry, o refOpts) string {
	if len(es) == 0 {
		return "-"
	}
	var parts []string
	for _, e := range es {
		sum := "-"
		if o.checksum {
			sum = hx(e.sum[:])
		}
		parts = append(parts, fmt.Sprintf("%s,%d,%d,%d,%d,%d,%d,%s,%s", hx(e.name), e.mode, e.size, e.mtime, e.uid, e.gid, e.rdev, hx(e.target), sum))
	}
	return strings.Join(parts, ";")
}
