//go:build verif

package main

import (
	"bytes"
	"context"
	"fmt"
	"io"
	"net"
	"os"
	"path/filepath"
	"strings"

	"github.com/gokrazy/rsync/rsyncd"
)

func init() { suites["acl"] = suiteACL }

// refACL is an independent first-match reference: families are compared explicitly, prefixes
// bit by bit. Returns allow/denied/malformed/badaddr.
func refACL(rules []string, remote string) string {
	if len(rules) == 0 {
		return "allow"
	}
	host, _, err := net.SplitHostPort(remote)
	if err != nil {
		return "badaddr"
	}
	if i := strings.IndexByte(host, '%'); i >= 0 {
		host = host[:i]
	}
	ip := net.ParseIP(host)
	if ip == nil {
		return "badaddr"
	}
	var abits []byte // address as bits of its family
	fam := 6
	if v4 := ip.To4(); v4 != nil {
		fam = 4
		ip = v4
	}
	for _, b := range ip {
		for i := 7; i >= 0; i-- {
			abits = append(abits, (b>>uint(i))&1)
		}
	}
	for _, r := range rules {
		sp := strings.Index(r, " ")
		if sp < 0 {
			return "malformed"
		}
		action, who := r[:sp], r[sp+1:]
		if action != "allow" && action != "deny" {
			return "malformed"
		}
		hit := false
		if who == "all" {
			hit = true
		} else {
			slash := strings.LastIndex(who, "/")
			if slash < 0 {
				return "malformed"
			}
			nip := net.ParseIP(who[:slash])
			var ones int
			if _, err := fmt.Sscanf(who[slash+1:], "%d", &ones); err != nil || nip == nil || strings.TrimLeft(who[slash+1:], "0123456789") != "" {
				return "malformed"
			}
			nfam := 6
			if strings.Contains(who[:slash], ":") {
				// written in IPv6 notation: a v6 network, even if the number is a mapped address
				if v4 := nip.To4(); v4 != nil {
					// Go compares such a network as IPv4 with the mask's last 32 bits when the first 96 are ones
					nfam = 46
				}
			} else {
				nfam = 4
				nip = nip.To4()
			}
			max := 128
			if nfam == 4 {
				max = 32
			}
			if ones < 0 || ones > max {
				return "malformed"
			}
			switch nfam {
			case 4, 6:
				if nfam != fam {
					break
				}
				hit = true
				for i := 0; i < ones; i++ {
					nb := (nip[i/8] >> uint(7-i%8)) & 1
					if nb != abits[i] {
						hit = false
						break
					}
				}
			case 46:
				// mapped network number in v6 notation; only decided by the reference for masks >= 96
				if fam == 4 && ones >= 96 {
					hit = true
					v4 := nip.To4()
					for i := 0; i < ones-96; i++ {
						if (v4[i/8]>>uint(7-i%8))&1 != abits[i] {
							hit = false
							break
						}
					}
				} else {
					return "skip"
				}
			}
		}
		if hit {
			if action == "allow" {
				return "allow"
			}
			return "denied"
		}
	}
	return "allow"
}

func classifyACL(err error) string {
	switch {
	case err == nil:
		return "allow"
	case strings.HasPrefix(err.Error(), "access denied"):
		return "denied"
	case strings.HasPrefix(err.Error(), "invalid acl"):
		return "malformed"
	case strings.HasPrefix(err.Error(), "BUG: invalid remote"):
		return "badaddr"
	}
	return "other:" + err.Error()
}

// aclOpLine turns (rules, remote) into the model's op: address and CIDR parsing are Go's.
func aclOpLine(rules []string, remote string) string {
	addr := "badaddr"
	if host, _, err := net.SplitHostPort(remote); err == nil {
		if i := strings.IndexByte(host, '%'); i >= 0 {
			host = host[:i]
		}
		if ip := net.ParseIP(host); ip != nil {
			addr = hx(ip)
		}
	}
	parts := []string{"acl", addr}
	for _, r := range rules {
		c := "na"
		if sp := strings.Index(r, " "); sp >= 0 {
			if _, n, err := net.ParseCIDR(r[sp+1:]); err != nil {
				c = "bad"
			} else {
				c = hx(n.IP) + "/" + hx(n.Mask)
			}
		}
		parts = append(parts, hx([]byte(r))+":"+c)
	}
	return strings.Join(parts, " ") + " #" + strings.Join(rules, "|") + "@" + remote
}

// daemonACL asks the real daemon (public API only: NewServer, NewConnection with the peer's address,
// HandleDaemonConn) for module "m" guarded by the rules, as a peer at `remote`, and classifies the reply —
// the observation point the property names: "@RSYNCD: OK" vs "@ERROR".
func daemonACL(rules []string, remote string, dir string) string {
	return daemonACLConfig([]rsyncd.Module{{Name: "m", Path: dir, ACL: rules}}, "m", remote)
}

// daemonACLConfig: the same for a whole configuration and a requested module name
func daemonACLConfig(mods []rsyncd.Module, request string, remote string) string {
	srv, err := rsyncd.NewServer(mods, rsyncd.DontRestrict(), rsyncd.WithStderr(io.Discard))
	if err != nil {
		return "other:NewServer: " + err.Error()
	}
	var out bytes.Buffer
	srv.HandleDaemonConn(context.Background(), rsyncd.NewConnection(strings.NewReader("@RSYNCD: 27\n"+request+"\n"), &out, remote))
	lines := strings.Split(out.String(), "\n")
	if len(lines) < 2 {
		return "other:no reply"
	}
	reply := lines[1]
	switch {
	case reply == "@RSYNCD: OK":
		if strings.Contains(out.String(), "@ERROR") && !strings.Contains(strings.Join(lines[2:], "\n"), "@ERROR") {
			return "other:" + reply
		}
		return "allow"
	case strings.HasPrefix(reply, "@ERROR: access denied"):
		return "denied"
	case strings.HasPrefix(reply, "@ERROR: invalid acl"):
		return "malformed"
	case strings.HasPrefix(reply, "@ERROR: BUG: invalid remote"):
		return "badaddr"
	}
	return "other:" + reply
}

func suiteACL(h *H) {
	aclDir, err := os.MkdirTemp("", "verif-acl")
	if err != nil {
		panic(err)
	}
	defer os.RemoveAll(aclDir)
	run := func(rules []string, remote string) {
		op := aclOpLine(rules, remote)
		got := daemonACL(rules, remote, aclDir)
		want := refACL(rules, remote)
		verdict := ""
		if want != "skip" && got != want {
			verdict = fmt.Sprintf("FAIL checkACL(%q, %q) = %s, first-match reference says %s", rules, remote, got, want)
		}
		h.emit(op, "ok "+got, verdict, len(rules) > 0)
		h.stat("acl.len=" + fmt.Sprint(len(rules)))
		h.stat("acl.result=" + got)
	}
	if h.extra != nil {
		for _, op := range h.extra {
			// the human-readable tail after '#' carries the original rule strings and address
			if i := strings.Index(op, " #"); i >= 0 && strings.HasPrefix(op, "acl ") {
				tail := op[i+2:]
				at := strings.LastIndex(tail, "@")
				var rules []string
				if tail[:at] != "" {
					rules = strings.Split(tail[:at], "|")
				}
				run(rules, tail[at+1:])
			}
		}
		return
	}
	pool := []string{
		"allow all", "deny all",
		"allow 0.0.0.0/0", "deny 0.0.0.0/0", "allow ::/0", "deny ::/0",
		"allow 10.0.0.0/8", "deny 10.0.0.0/8", "allow 10.1.0.0/16", "deny 10.1.2.0/24", "allow 10.1.2.3/32", "deny 10.1.2.3/32",
		"allow 192.168.0.0/24", "deny 127.0.0.1/32", "allow 10.1.2.0/23", "deny 10.1.2.128/25",
		"allow 2001:db8::/32", "deny 2001:db8:1::/48", "allow 2001:db8::1/128", "deny fe80::/10", "allow ::1/128",
		"deny ::ffff:10.1.2.0/120", "allow ::ffff:0:0/96",
		"bogus", "permit all", "allow", "allow 10.0.0.0", "deny 10.0.0.0/33", "allow  all", "deny all ", "allow 10.0.0.1/8x", "ALLOW all", " allow all",
	}
	addrs := []string{
		"10.0.0.0:1", "10.1.2.3:873", "10.1.2.4:1", "10.1.3.0:1", "10.1.2.127:1", "10.1.2.128:1", "10.2.0.0:9", "9.255.255.255:1", "11.0.0.0:1",
		"192.168.0.255:1", "192.168.1.0:1", "127.0.0.1:22", "0.0.0.0:1", "255.255.255.255:1",
		"[::1]:1", "[::]:1", "[2001:db8::1]:873", "[2001:db8::2]:1", "[2001:db8:1::5]:1", "[2001:db9::]:1", "[fe80::1]:1", "[fe80::1%eth0]:873", "[febf::1]:1", "[fec0::1]:1",
		"[::ffff:10.1.2.3]:1", "[::ffff:10.1.2.200]:1", "[::ffff:11.0.0.1]:1", "[::ffff:a01:203]:1",
		"nonsense", "10.1.2.3", "[10.1.2.3]:1", "host.example:873", "300.1.1.1:1",
	}
	h.stat("acl.pool.rules=" + fmt.Sprint(len(pool)))
	// bounded-exhaustive over rule lists of length 0..2 (quick) / 0..3 (thorough) x all addresses
	maxLen := 2
	if h.thorough() {
		maxLen = 3
	}
	var rec func(prefix []string)
	rec = func(prefix []string) {
		for _, a := range addrs {
			run(prefix, a)
		}
		if len(prefix) == maxLen {
			return
		}
		for _, r := range pool {
			rec(append(append([]string{}, prefix...), r))
		}
	}
	rec(nil)
	// configurations: several modules, each with its own rule list, names that repeat (a configuration file plus a
	// module given on the command line): the rules that decide are those of the module that is served — the first one
	// with the requested name — and of no other
	for i := 0; i < h.n(300, 6000); i++ {
		nm := 1 + h.rng.Intn(4)
		var mods []rsyncd.Module
		for k := 0; k < nm; k++ {
			name := []string{"m", "n", "m", "mm"}[h.rng.Intn(4)]
			var rules []string
			for r := h.rng.Intn(3); r > 0; r-- {
				rules = append(rules, pool[h.rng.Intn(23)]) // the well-formed part of the pool
			}
			d := filepath.Join(aclDir, fmt.Sprintf("c%d", k))
			os.MkdirAll(d, 0o755)
			mods = append(mods, rsyncd.Module{Name: name, Path: d, ACL: rules})
		}
		req := []string{"m", "n", "mm"}[h.rng.Intn(3)]
		remote := addrs[h.rng.Intn(28)]
		got := daemonACLConfig(mods, req, remote)
		want := "other:@ERROR: Unknown module"
		var served []string
		for _, m := range mods {
			if m.Name == req {
				want = daemonACLConfig([]rsyncd.Module{{Name: req, Path: m.Path, ACL: m.ACL}}, req, remote)
				served = m.ACL
				break
			}
		}
		v := ""
		if got != want && !(strings.HasPrefix(got, "other:@ERROR: Unknown module") && strings.HasPrefix(want, "other:@ERROR: Unknown module")) {
			v = fmt.Sprintf("FAIL in a configuration of %d modules the request for %q from %s is answered %s; the module that is served has the rules %q, which alone give %s", nm, req, remote, got, served, want)
		}
		var desc []string
		for _, m := range mods {
			desc = append(desc, fmt.Sprintf("%s%q", m.Name, m.ACL))
		}
		h.emit(fmt.Sprintf("!acl-config seed=%d case=%d mods=[%s] req=%s remote=%s", h.seed, i, strings.Join(desc, " "), req, remote), strings.SplitN(got, " ", 2)[0], v, nm > 1)
		h.stat("acl.config")
	}
}
