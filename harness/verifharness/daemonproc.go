//go:build verif

package main

// daemonproc: a real daemon in a *subprocess* (this binary with -serve) under structure-aware
// mutations of valid sessions at every protocol field — greeting, module line, argument lines (every
// option the parser knows), filter-list lengths and rules, file indices, the four checksum-header
// fields, block checksums, file-list flags/lengths/names/modes/ids, id lists, tokens, the whole-file
// checksum — with boundary integers, truncation at every field boundary and byte noise.
// Oracle for C08, the property's own: after every hostile session the daemon process is still alive
// and answers a module listing correctly; if not, the session's script is the failing input.

import (
	"bufio"
	"bytes"
	"context"
	"encoding/binary"
	"fmt"
	"io"
	"net"
	"os"
	"os/exec"
	"path/filepath"
	"sort"
	"strings"
	"time"

	"github.com/gokrazy/rsync/rsyncd"
)

func init() { suites["daemonproc"] = suiteDaemonProc }

// serveMain is the subprocess: a daemon on a loopback port, modules "ro" and "rw" below dir.
func serveMain(dir string) {
	srv, err := rsyncd.NewServer([]rsyncd.Module{
		{Name: "ro", Path: filepath.Join(dir, "ro")},
		{Name: "rw", Path: filepath.Join(dir, "rw"), Writable: true},
	}, rsyncd.DontRestrict(), rsyncd.WithStderr(os.Stderr))
	if err != nil {
		fmt.Println("ERR", err)
		os.Exit(3)
	}
	ln, err := net.Listen("tcp", "127.0.0.1:0")
	if err != nil {
		fmt.Println("ERR", err)
		os.Exit(3)
	}
	fmt.Println("PORT", ln.Addr().(*net.TCPAddr).Port)
	os.Stdout.Sync()
	srv.Serve(context.Background(), ln)
}

type field struct {
	name string
	kind string // line i32 long byte bytes
	data []byte
}

func fLine(name, s string) field { return field{name, "line", []byte(s + "\n")} }
func fI32(name string, v int32) field {
	var b [4]byte
	binary.LittleEndian.PutUint32(b[:], uint32(v))
	return field{name, "i32", b[:]}
}
func fByte(name string, v byte) field    { return field{name, "byte", []byte{v}} }
func fBytes(name string, v []byte) field { return field{name, "bytes", append([]byte{}, v...)} }

func script(fs []field) []byte {
	var b bytes.Buffer
	for _, f := range fs {
		b.Write(f.data)
	}
	return b.Bytes()
}

type procDaemon struct {
	cmd    *exec.Cmd
	addr   string
	stderr *bytes.Buffer
	exited chan struct{}
	status string
}

func startProcDaemon(dir string) (*procDaemon, error) {
	cmd := exec.Command(os.Args[0], "-serve", dir)
	var errb bytes.Buffer
	cmd.Stderr = &tailWriter{buf: &errb, max: 1 << 16}
	out, err := cmd.StdoutPipe()
	if err != nil {
		return nil, err
	}
	if err := cmd.Start(); err != nil {
		return nil, err
	}
	rd := bufio.NewReader(out)
	line, err := rd.ReadString('\n')
	if err != nil || !strings.HasPrefix(line, "PORT ") {
		cmd.Process.Kill()
		return nil, fmt.Errorf("daemon subprocess did not start: %q %v", line, err)
	}
	go io.Copy(io.Discard, rd)
	d := &procDaemon{cmd: cmd, addr: "127.0.0.1:" + strings.TrimSpace(line[5:]), stderr: &errb, exited: make(chan struct{})}
	go func() {
		err := cmd.Wait()
		d.status = fmt.Sprint(err)
		close(d.exited)
	}()
	return d, nil
}

// tailWriter keeps the last max bytes (the panic trace of a dying daemon is at the end)
type tailWriter struct {
	buf *bytes.Buffer
	max int
}

func (t *tailWriter) Write(p []byte) (int, error) {
	t.buf.Write(p)
	if t.buf.Len() > 2*t.max {
		b := append([]byte{}, t.buf.Bytes()[t.buf.Len()-t.max:]...)
		t.buf.Reset()
		t.buf.Write(b)
	}
	return len(p), nil
}

func (d *procDaemon) listOnce() bool {
	c, err := net.DialTimeout("tcp", d.addr, 2*time.Second)
	if err != nil {
		return false
	}
	defer c.Close()
	c.SetDeadline(time.Now().Add(5 * time.Second))
	fmt.Fprintf(c, "@RSYNCD: 27\n#list\n")
	b, _ := io.ReadAll(c)
	return bytes.Contains(b, []byte("ro\t")) && bytes.Contains(b, []byte("rw\t")) && bytes.Contains(b, []byte("@RSYNCD: EXIT"))
}

// alive: "" if the daemon process runs and answers a module listing (a slow answer under load is retried);
// otherwise what is wrong with it
func (d *procDaemon) alive() string {
	for try := 0; try < 4; try++ {
		select {
		case <-d.exited:
			return "the daemon process exited (" + d.status + ")"
		default:
		}
		if d.listOnce() {
			return ""
		}
		time.Sleep(time.Duration(200*(try+1)) * time.Millisecond)
	}
	select {
	case <-d.exited:
		return "the daemon process exited (" + d.status + ")"
	default:
	}
	return "the daemon process no longer answers a module listing"
}

func (d *procDaemon) stop() {
	d.cmd.Process.Kill()
	<-d.exited
}

// send writes the script and reads until the daemon closes or is quiet
func (d *procDaemon) send(b []byte) string {
	c, err := net.DialTimeout("tcp", d.addr, 2*time.Second)
	if err != nil {
		return "dialerr"
	}
	defer c.Close()
	go func() {
		c.SetWriteDeadline(time.Now().Add(5 * time.Second))
		c.Write(b)
	}()
	var got []byte
	buf := make([]byte, 32*1024)
	quiet := 0
	for quiet < 4 && len(got) < 8<<20 {
		c.SetReadDeadline(time.Now().Add(25 * time.Millisecond))
		n, err := c.Read(buf)
		got = append(got, buf[:n]...)
		if n == 0 {
			quiet++
		} else {
			quiet = 0
		}
		if err != nil && !os.IsTimeout(err) {
			return fmt.Sprintf("closed after %d bytes", len(got))
		}
	}
	return fmt.Sprintf("open after %d bytes", len(got))
}

func suiteDaemonProc(h *H) {
	os.Stderr = devNull
	base, err := os.MkdirTemp("", "verif-dproc")
	if err != nil {
		panic(err)
	}
	defer os.RemoveAll(base)
	mk := func(p, data string) {
		os.MkdirAll(filepath.Dir(p), 0o755)
		os.WriteFile(p, []byte(data), 0o644)
	}
	mk(filepath.Join(base, "ro", "a.txt"), strings.Repeat("inside-a ", 400))
	mk(filepath.Join(base, "ro", "sub", "inner.txt"), "inside-inner")
	mk(filepath.Join(base, "ro", "z"), "")
	os.Symlink("a.txt", filepath.Join(base, "ro", "link"))
	os.MkdirAll(filepath.Join(base, "rw", "up"), 0o755)
	mk(filepath.Join(base, "rw", "up", "old.bin"), strings.Repeat("0123456789abcdef", 200))
	d, err := startProcDaemon(base)
	if err != nil {
		h.emit("!daemonproc-start", "err:"+err.Error(), "FAIL[C08] cannot start the daemon subprocess", false)
		return
	}
	defer func() { d.stop() }()

	// ---- two valid sessions as field lists
	// sorted names of the ro module: "." "a.txt" "link" "sub" "sub/inner.txt" "z"  -> regular files at 1, 4, 5
	names := []string{".", "a.txt", "link", "sub", "sub/inner.txt", "z"}
	sort.Strings(names)
	idxOf := func(n string) int32 {
		for i, x := range names {
			if x == n {
				return int32(i)
			}
		}
		return -9
	}
	pull := []field{fLine("greeting", "@RSYNCD: 27"), fLine("module", "ro"), fLine("arg:server", "--server"), fLine("arg:sender", "--sender"), fLine("arg:flags", "-logDtpr"),
		fLine("arg:dot", "."), fLine("arg:path", "ro/"), fLine("arg:end", ""),
		fI32("filter.len", 3), fBytes("filter.rule", []byte("- x")), fI32("filter.end", 0),
		fI32("req1.idx", idxOf("a.txt")), fI32("req1.count", 2), fI32("req1.blen", 700), fI32("req1.s2len", 2), fI32("req1.rem", 100),
		fI32("req1.sum1a", 0x11223344), fBytes("req1.sum2a", []byte{1, 2}), fI32("req1.sum1b", 0x55667788), fBytes("req1.sum2b", []byte{3, 4}),
		fI32("req2.idx", idxOf("sub/inner.txt")), fI32("req2.count", 0), fI32("req2.blen", 0), fI32("req2.s2len", 0), fI32("req2.rem", 0),
		fI32("req3.idx", idxOf("z")), fI32("req3.count", 0), fI32("req3.blen", 700), fI32("req3.s2len", 16), fI32("req3.rem", 0),
		fI32("phase1", -1), fI32("phase2", -1), fI32("goodbye", -1)}
	newData := []byte(strings.Repeat("new-content-", 150))
	sumOfNew := refFileSum(0, newData) // the daemon's seed is not known in advance: a wrong trailer is itself a hostile input
	push := []field{fLine("greeting", "@RSYNCD: 27"), fLine("module", "rw"), fLine("arg:server", "--server"), fLine("arg:flags", "-logDtpr"), fLine("arg:delete", "--delete"),
		fLine("arg:dot", "."), fLine("arg:path", "rw/up/"), fLine("arg:end", ""),
		fI32("filter.end", 0),
		fByte("e0.flags", 0x41), fI32("e0.namelen", 1), fBytes("e0.name", []byte(".")), fI32("e0.size", 4096), fI32("e0.mtime", 1500000000), fI32("e0.mode", 0o40755), fI32("e0.uid", 0), fI32("e0.gid", 0),
		fByte("e1.flags", 0x40), fI32("e1.namelen", 7), fBytes("e1.name", []byte("old.bin")), fI32("e1.size", int32(len(newData))), fI32("e1.mtime", 1500000001), fI32("e1.mode", 0o100644), fI32("e1.uid", 1), fI32("e1.gid", 2),
		fByte("e2.flags", 0x20|0x80), fByte("e2.l1", 3), fByte("e2.l2", 4), fBytes("e2.name", []byte("link")), fI32("e2.size", 5), fI32("e2.mode", 0o120777), fI32("e2.uid", 0), fI32("e2.gid", 0), fI32("e2.linklen", 5), fBytes("e2.link", []byte("a/../")),
		fByte("e3.flags", 0x40|0x02), fI32("e3.namelen", 4), fBytes("e3.name", []byte("fifo")), fI32("e3.size", 0), fI32("e3.mtime", 0), fI32("e3.uid", 0), fI32("e3.gid", 0), fI32("e3.linklen", 1), fBytes("e3.link", []byte("x")),
		fByte("list.end", 0),
		fI32("uid.id", 1), fByte("uid.namelen", 6), fBytes("uid.name", []byte("daemon")), fI32("uid.end", 0),
		fI32("gid.id", 2), fByte("gid.namelen", 3), fBytes("gid.name", []byte("bin")), fI32("gid.end", 0),
		fI32("ioerr", 0),
		fI32("data.idx", 3), fI32("data.count", 4), fI32("data.blen", 700), fI32("data.s2len", 2), fI32("data.rem", 400),
		fI32("tok.lit.len", int32(len(newData))), fBytes("tok.lit", newData), fI32("tok.ref", -1), fI32("tok.ref2", -4), fI32("tok.end", 0), fBytes("filesum", sumOfNew),
		fI32("phase1", -1), fI32("phase2", -1)}

	boundary := []int32{-2147483648, -2, -1, 0, 1, 2, 255, 256, 4095, 4096, 65535, 1<<20 - 1, 0x7fffffff}
	argVocab := []string{"--help", "--version", "-V", "--info=help", "--debug=help", "--daemon", "--config=/x", "--server", "--sender", "-e", "-e.iLsfxC", "--rsh=x", "--filter=- *.o", "--exclude=*", "--exclude=[a]", "--include=?",
		"--exclude=/x", "--filter=!", "-f", "--delete", "-n", "-c", "-I", "-H", "--hard-links", "-vvvvvv", "-vvvlogDtpr", "-vvvltpr", "--devices", "--specials", "--no-D", "--port=99999999999", "--contimeout=x", "--bogus", "-", "--", "",
		"-a=1", "--gokr.dont_restrict", "--progress", "--no-motd", "-u", "-d", "--dirs", "--no-r", "-rr", strings.Repeat("A", 70000), "\xff\xfe", "-\x00", "--temp-dir=/x", "-T", "--protocol=1", "-D", "-z", "-x", "-A", "-X", "--stats", "--partial"}
	caseNo := 0
	run := func(tag string, fs []field) {
		caseNo++
		b := script(fs)
		out := d.send(b)
		v := ""
		if why := d.alive(); why != "" {
			tail := d.stderr.String()
			if i := strings.LastIndex(tail, "panic:"); i >= 0 {
				tail = tail[i:]
				if len(tail) > 400 {
					tail = tail[:400]
				}
			} else if len(tail) > 200 {
				tail = tail[len(tail)-200:]
			}
			v = "FAIL[C08] after this session " + why + ": " + strings.ReplaceAll(strings.ReplaceAll(tail, "\n", " | "), "\t", " ")
			d.stop()
			nd, err := startProcDaemon(base)
			if err != nil {
				h.emit("!daemonproc-restart", "err:"+err.Error(), "FAIL[C08] cannot restart the daemon subprocess", false)
				return
			}
			d = nd
		}
		desc := hx(b)
		if len(desc) > 600 {
			desc = desc[:600] + "…"
		}
		h.emit(fmt.Sprintf("!daemonproc seed=%d #%d %s script=%s", h.seed, caseNo, tag, desc), strings.SplitN(out, " ", 2)[0], v, true)
		h.stat("daemonproc." + strings.SplitN(tag, ":", 2)[0])
	}
	// the same sessions with every debug category on (-vvv…): log statements touch peer-supplied values too
	verbose := func(base []field) []field {
		c := append([]field{}, base...)
		for i := range c {
			if c[i].name == "arg:flags" {
				c[i] = fLine("arg:flags", "-vvvvlogDtpr")
			}
		}
		return c
	}
	for si, base := range [][]field{pull, push, verbose(pull), verbose(push)} {
		role := []string{"pull", "push", "pull-vvvv", "push-vvvv"}[si]
		intsOnly := si >= 2 && !h.thorough()
		run(role+":valid", base)
		for i, f := range base {
			with := func(nf field) []field {
				c := append([]field{}, base...)
				c[i] = nf
				return c
			}
			kind := f.kind
			if intsOnly && kind != "i32" {
				continue
			}
			switch kind {
			case "i32":
				orig := int32(binary.LittleEndian.Uint32(f.data))
				vals := append([]int32{orig + 1, orig - 1}, boundary...)
				countLike := !(strings.HasSuffix(f.name, ".mode") || strings.HasSuffix(f.name, ".mtime") || strings.HasSuffix(f.name, ".uid") || strings.HasSuffix(f.name, ".gid") ||
					strings.Contains(f.name, ".sum1") || strings.HasSuffix(f.name, ".idx") || f.name == "ioerr" || strings.HasPrefix(f.name, "tok.ref") || strings.HasSuffix(f.name, ".id"))
				for _, v := range vals {
					if countLike && v >= 1<<20 {
						continue // declared sizes beyond 2^20 are resource exhaustion, which the project disclaims
					}
					if !h.thorough() && h.rng.Intn(3) == 0 && v != -1 && v != 0 {
						continue
					}
					run(fmt.Sprintf("%s:%s=%d", role, f.name, v), with(fI32(f.name, v)))
				}
			case "byte":
				for _, v := range []byte{0, 1, 2, 4, 8, 0x10, 0x20, 0x40, 0x80, 0xff, f.data[0] ^ 0x40, f.data[0] | 0x20} {
					run(fmt.Sprintf("%s:%s=%#x", role, f.name, v), with(fByte(f.name, v)))
				}
			case "bytes":
				run(fmt.Sprintf("%s:%s=empty", role, f.name), with(fBytes(f.name, nil)))
				run(fmt.Sprintf("%s:%s=short", role, f.name), with(fBytes(f.name, f.data[:len(f.data)/2])))
				run(fmt.Sprintf("%s:%s=doubled", role, f.name), with(fBytes(f.name, append(append([]byte{}, f.data...), f.data...))))
				nb := append([]byte{}, f.data...)
				if len(nb) > 0 {
					nb[h.rng.Intn(len(nb))] ^= byte(1 << uint(h.rng.Intn(8)))
				}
				run(fmt.Sprintf("%s:%s=bitflip", role, f.name), with(fBytes(f.name, nb)))
				run(fmt.Sprintf("%s:%s=dotdot", role, f.name), with(fBytes(f.name, []byte("../../x"))))
				run(fmt.Sprintf("%s:%s=nul", role, f.name), with(fBytes(f.name, []byte("a\x00b/"))))
			case "line":
				if strings.HasPrefix(f.name, "arg:") && f.name != "arg:end" {
					for ai, a := range argVocab {
						if !h.thorough() && f.name != "arg:flags" && (ai+i)%3 != 0 {
							continue
						}
						run(fmt.Sprintf("%s:%s=%q", role, f.name, trunc(a, 40)), with(fLine(f.name, a)))
					}
					// this argument line left out (a client that forgets --server, --sender, the flags, the dot or the path)
					{
						c := append([]field{}, base[:i]...)
						c = append(c, base[i+1:]...)
						run(fmt.Sprintf("%s:without %s", role, f.name), c)
					}
					// an extra argument line in front of this one
					for _, a := range argVocab {
						if h.thorough() || h.rng.Intn(4) == 0 {
							c := append([]field{}, base[:i]...)
							c = append(c, fLine("extra", a))
							c = append(c, base[i:]...)
							run(fmt.Sprintf("%s:+%q before %s", role, trunc(a, 40), f.name), c)
						}
					}
				} else {
					for _, a := range []string{"", "@RSYNCD: 999999999999", "@RSYNCD:", "garbage", "#list", "ro/../rw", "\x00", strings.Repeat("m", 100000), "rw", "ro"} {
						run(fmt.Sprintf("%s:%s=%q", role, f.name, trunc(a, 30)), with(fLine(f.name, a)))
					}
					run(fmt.Sprintf("%s:%s=no-newline", role, f.name), with(field{f.name, "line", bytes.TrimSuffix(f.data, []byte("\n"))}))
				}
			}
			// truncation at this field boundary, and in the middle of the field
			run(fmt.Sprintf("%s:truncate-before-%s", role, f.name), append([]field{}, base[:i]...))
			if len(f.data) > 1 {
				c := append([]field{}, base[:i]...)
				c = append(c, fBytes("part", f.data[:len(f.data)/2]))
				run(fmt.Sprintf("%s:truncate-inside-%s", role, f.name), c)
			}
		}
		if intsOnly {
			continue
		}
		// byte noise over the binary part
		whole := script(base)
		textEnd := bytes.Index(whole, []byte("\n\n")) + 2
		for k := 0; k < h.n(60, 1500); k++ {
			nb := append([]byte{}, whole...)
			for j := 1 + h.rng.Intn(3); j > 0; j-- {
				p := textEnd + h.rng.Intn(len(nb)-textEnd)
				switch h.rng.Intn(3) {
				case 0:
					nb[p] ^= byte(1 << uint(h.rng.Intn(8)))
				case 1:
					nb[p] = byte(h.rng.Intn(256))
				default:
					copy(nb[p:], []byte{0xff, 0xff, 0xff, 0xff})
				}
			}
			run(role+":noise", []field{fBytes("all", nb)})
		}
	}
}

func trunc(s string, n int) string {
	if len(s) > n {
		return s[:n] + "…"
	}
	return s
}
